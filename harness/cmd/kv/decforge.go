package main

// decforge: the REAL entropy decoders on FORGED input (property C03: the decoder is total).
//
//	rd <chunk> <c1,c2,..> <hex|->    entropy.RangeDecoder(chunk)
//	bd <pred> <c1,c2,..> <hex|->     entropy.BinaryEntropyDecoder with a table-driven test predictor of the
//	                                 binent stream, or `cm` = the real CMPredictor (Lean: coder model + CM model)
//	fd <c1,c2,..> <hex|->            entropy.FPAQDecoder (decodeBitV2)
//	f3 <c1,c2,..> <hex|->            entropy.FPAQDecoder created for bitstream version 3 (decodeBitV1)
//	bx <CM|TPAQ|TPAQX> <c1,..> <hex> oracle-only (no Lean model of the run): real predictor
//
// ONE decoder over ONE bitstream holding the given bytes; then Read(block of c1 bytes), Read(c2), ...
// until one fails.  Canonical answer: one token per Read `ok:<n>:<FNV-1a 64 of block[:n]>`, then
// `cap=<len(f2s) | len(buffer)> read=<bits consumed>`; a failing Read ends the line with
// `err|panic:eos|panic:index|panic:div0 cap=<..>`.  The Lean models (Kanzi.RangeDec, Kanzi.BinEnt /
// Kanzi.Fpaq + BinDecCap) must predict the same line: same class, same bytes, same capacity.
//
// Oracles on the real code (independent of the model): every Read returns within the watchdog (the
// stream's Watchdog: a hang is a violation); the only allocation of each decoder (f2s / buffer, read by
// reflection) stays within the bound proved in Properties/C03_rangebin.lean; the panic class is one of
// eos / index (never divide by zero, never anything else); n <= len(block) and block[n:] untouched.

import (
	"encoding/binary"
	"fmt"
	"math/rand"
	"reflect"
	"strconv"
	"strings"
	"time"

	kanzi "github.com/flanglet/kanzi-go/v2"
	"github.com/flanglet/kanzi-go/v2/entropy"
)

func init() {
	registerStream(&Stream{
		Name:     "decforge",
		Rule:     "rd/bd/fd/f3: valid encodings (range: chunk 1024..4096, logRange 8..15, 1..3 chunks, 1..3 Reads; binary: test predictors c/a/o0/o1/lcg and the real CM; FPAQ, also through the version-3 bit decoder decodeBitV1 = f3) mutated: intact, intact+garbage, truncated at EVERY byte (short streams) or at sampled bytes, every single bit flip of the first 64 bits + sampled payload flips, several flips, wrong counts (smaller, larger, 0, 63/64/65), forged chunk size fields at every boundary of the acceptance rules (binary: 0, actual+-1, bufSize-1..+1, 2*length-1..+1, 2^28, 2^32-1, multiples of 2^29 whose bit count wraps in uint32; FPAQ: 819/820, 1023..1025, 2*count-1..+1, the same wrap values), random bytes, two or three Reads on one decoder (stale buffer / stale f2s), hand-built range headers (logRange 15 table then logRange 8 table: stale f2s entries, zero-frequency symbol => rng 0, spin to end of stream; slot beyond f2s), large counts on tiny payloads (decoder runs past the payload into the buffer tail). bx: real CM/TPAQ/TPAQX on forged input (oracle only). distinct_nontrivial = distinct ops.",
		Gen:      dfGen,
		Exec:     dfExec,
		Watchdog: 120 * time.Second,
	})
}

type dfReader interface {
	Read(block []byte) (int, error)
}

func dfPanicTok(r any) string {
	s := fmt.Sprint(r)
	switch {
	case strings.Contains(s, "out of range"):
		return "panic:index"
	case strings.Contains(s, "divide by zero"):
		return "panic:div0"
	case strings.Contains(s, "No more data"), strings.Contains(s, "EOF"):
		return "panic:eos"
	}
	return "panic:other:" + strings.ReplaceAll(s, " ", "_")
}

func dfCap(dec any, field string) int {
	return reflect.ValueOf(dec).Elem().FieldByName(field).Len()
}

// dfRun drives the Reads.  bound(prev, count) = the largest capacity allowed after a Read of
// `count` bytes on a decoder whose capacity was `prev`.
func dfRun(res *Result, site string, dec dfReader, field string, ibs kanzi.InputBitStream, counts []int,
	bound func(prev, count int) int, allowed map[string]bool) string {
	var toks []string
	prev := dfCap(dec, field)
	for _, c := range counts {
		blk := make([]byte, c+8)
		for i := range blk {
			blk[i] = 0xEE
		}
		var n int
		var rerr error
		var pan any
		func() {
			defer func() { pan = recover() }()
			n, rerr = dec.Read(blk[:c])
		}()
		cp := dfCap(dec, field)
		if b := bound(prev, c); cp > b {
			esViol(res, site, "allocation-above-bound", fmt.Sprintf("Read of %d bytes: len(%s) = %d, bound %d (was %d)", c, field, cp, b, prev))
		}
		if cp < prev {
			esViol(res, site, "buffer-shrunk", fmt.Sprintf("len(%s) %d -> %d", field, prev, cp))
		}
		prev = cp
		if pan != nil {
			tok := dfPanicTok(pan)
			res.Tags = append(res.Tags, "class:"+strings.SplitN(tok, ":", 3)[1])
			if !allowed[tok] {
				esViol(res, site, strings.ReplaceAll(tok, ":", "-"), fmt.Sprintf("Read of %d bytes panicked: %v", c, pan))
			}
			return strings.Join(append(toks, tok, fmt.Sprintf("cap=%d", cp)), " ")
		}
		if rerr != nil {
			res.Tags = append(res.Tags, "class:err")
			return strings.Join(append(toks, "err", fmt.Sprintf("cap=%d", cp)), " ")
		}
		if n < 0 || n > c {
			esViol(res, site, "count-out-of-range", fmt.Sprintf("Read of %d bytes returned %d", c, n))
			return strings.Join(append(toks, fmt.Sprintf("bad-n:%d", n)), " ")
		}
		for i := n; i < len(blk); i++ {
			if blk[i] != 0xEE {
				esViol(res, site, "wrote-past-count", fmt.Sprintf("Read of %d bytes returned %d but block[%d] was written", c, n, i))
				break
			}
		}
		if n < c {
			res.Tags = append(res.Tags, "class:short")
		}
		toks = append(toks, fmt.Sprintf("ok:%d:%016x", n, rgFnv(blk[:n])))
	}
	res.Tags = append(res.Tags, "class:ok")
	return strings.Join(append(toks, fmt.Sprintf("cap=%d", prev), fmt.Sprintf("read=%d", ibs.Read())), " ")
}

func dfCounts(s string) ([]int, bool) {
	if s == "-" {
		return nil, true
	}
	var out []int
	for _, f := range strings.Split(s, ",") {
		v, err := strconv.Atoi(f)
		if err != nil || v < 0 || v > 1<<26 {
			return nil, false
		}
		out = append(out, v)
	}
	return out, true
}

var dfAllowed = map[string]bool{"panic:eos": true, "panic:index": true}

// binary decoder: chunk length and estimate for a block of `count` bytes
func dfBinLen(count int) (length, bufSize int) {
	length = count
	if count >= 1<<26 {
		if count < 8<<26 {
			length = count >> 3
		} else {
			length = count >> 4
		}
	} else if count < 64 {
		length = 64
	}
	return length, length + length>>3
}

func dfBinBound(prev, count int) int {
	length, bufSize := dfBinLen(count)
	return max(prev, bufSize, 2*length-1)
}

func dfFpaqBound(prev, count int) int {
	if count == 0 {
		return prev
	}
	m := 2*count - 1
	return max(prev, 1024, m+m>>2)
}

func dfRangeBound(prev, count int) int { return max(prev, 1<<15) }

func dfExec(op string, res *Result) (out string) {
	w := strings.Fields(op)
	if len(w) == 0 {
		return "bad-op"
	}
	res.Tags = append(res.Tags, "op:"+w[0])
	res.Nontrivial = true
	switch w[0] {
	case "rd":
		if len(w) != 4 {
			return "bad-op"
		}
		chunk, err := strconv.Atoi(w[1])
		counts, ok1 := dfCounts(w[2])
		stream, ok2 := esUnhex(w[3])
		if err != nil || !ok1 || !ok2 || chunk < 0 {
			return "bad-op"
		}
		ibs := esNewIBS(stream)
		dec, derr := entropy.NewRangeDecoder(ibs, uint(chunk))
		if derr != nil {
			return "err:ctor"
		}
		return dfRun(res, "entropy.RangeDecoder.Read", dec, "f2s", ibs, counts, dfRangeBound, dfAllowed)
	case "bd":
		if len(w) != 4 {
			return "bad-op"
		}
		counts, ok1 := dfCounts(w[2])
		stream, ok2 := esUnhex(w[3])
		if !ok1 || !ok2 {
			return "bad-op"
		}
		var p kanzi.Predictor
		if w[1] == "cm" {
			p, _ = entropy.NewCMPredictor(nil)
		} else {
			var okp bool
			p, _, okp = bePred(w[1])
			if !okp {
				return "bad-op"
			}
		}
		res.Tags = append(res.Tags, "pred:"+strings.Split(w[1], ":")[0])
		ibs := esNewIBS(stream)
		dec, derr := entropy.NewBinaryEntropyDecoder(ibs, p)
		if derr != nil {
			return "err:ctor"
		}
		return dfRun(res, "entropy.BinaryEntropyDecoder.Read", dec, "buffer", ibs, counts, dfBinBound, dfAllowed)
	case "fd", "f3":
		if len(w) != 3 {
			return "bad-op"
		}
		counts, ok1 := dfCounts(w[1])
		stream, ok2 := esUnhex(w[2])
		if !ok1 || !ok2 {
			return "bad-op"
		}
		ibs := esNewIBS(stream)
		dec, derr := entropy.NewFPAQDecoder(ibs)
		if w[0] == "f3" {
			// bitstream version 3 (decodeBitV1): selected by the stream header in the real pipeline
			ctx := map[string]any{"bsVersion": uint(3)}
			dec, derr = entropy.NewFPAQDecoderWithCtx(ibs, &ctx)
		}
		if derr != nil {
			return "err:ctor"
		}
		return dfRun(res, "entropy.FPAQDecoder.Read", dec, "buffer", ibs, counts, dfFpaqBound, dfAllowed)
	case "bx":
		if len(w) != 4 {
			return "bad-op"
		}
		counts, ok1 := dfCounts(w[2])
		stream, ok2 := esUnhex(w[3])
		if !ok1 || !ok2 {
			return "bad-op"
		}
		tot := 0
		for _, c := range counts {
			tot = max(tot, c)
		}
		p, perr := beRealPred(w[1], tot)
		if perr != nil {
			return "bad-op"
		}
		res.Tags = append(res.Tags, "pred:"+w[1])
		ibs := esNewIBS(stream)
		dec, derr := entropy.NewBinaryEntropyDecoder(ibs, p)
		if derr != nil {
			return "err:ctor"
		}
		dfRun(res, "entropy.BinaryEntropyDecoder.Read", dec, "buffer", ibs, counts, dfBinBound, dfAllowed)
		return "ok"
	}
	return "bad-op"
}

// ---------- generator ----------

func dfVarint(v uint32) []byte {
	var b []byte
	for v >= 128 {
		b = append(b, byte(0x80|(v&0x7F)))
		v >>= 7
	}
	return append(b, byte(v))
}

// length in bytes of the VarInt at the head of s, and its value
func dfVarintAt(s []byte) (int, uint32) {
	v := uint32(0)
	for i := 0; i < 5 && i < len(s); i++ {
		if i == 4 {
			return 5, v | uint32(s[i]&0x0F)<<28
		}
		v |= uint32(s[i]&0x7F) << (7 * uint(i))
		if s[i] < 128 {
			return i + 1, v
		}
	}
	return len(s), v
}

func dfJoin(c []int) string {
	if len(c) == 0 {
		return "-"
	}
	s := make([]string, len(c))
	for i, v := range c {
		s[i] = strconv.Itoa(v)
	}
	return strings.Join(s, ",")
}

// range: Write of every block with one encoder
func dfRangeEnc(blocks [][]byte, chunk, lr uint) []byte {
	obs, sink := esNewOBS()
	e, err := entropy.NewRangeEncoder(obs, chunk, lr)
	if err != nil {
		return nil
	}
	for _, b := range blocks {
		if _, err := e.Write(b); err != nil {
			return nil
		}
	}
	e.Dispose()
	obs.Close()
	return append([]byte{}, sink.Bytes()...)
}

type dfBits struct {
	obs interface {
		WriteBits(uint64, uint) uint
		Close() error
	}
	sink *esSink
}

func dfNewBits() *dfBits {
	obs, sink := esNewOBS()
	return &dfBits{obs, sink}
}
func (b *dfBits) w(v uint64, n uint) *dfBits { b.obs.WriteBits(v, n); return b }
func (b *dfBits) bytes() []byte             { b.obs.Close(); return append([]byte{}, b.sink.Bytes()...) }

// a hand-built range header for a partial alphabet of two symbols s0 < s1 < 8 (one mask byte) with
// logRange lr and frequency f1 for s1 (f0 is inferred)
func (b *dfBits) hdr2(s0, s1 uint, lr uint, f1 uint64) *dfBits {
	b.w(1, 1).w(0, 5).w(uint64(1)<<s0|uint64(1)<<s1, 8).w(uint64(lr-8), 3)
	logMax := uint(0)
	for uint64(1)<<logMax <= f1-1 {
		logMax++
	}
	b.w(uint64(logMax), 4)
	if logMax > 0 {
		b.w(f1-1, logMax)
	}
	return b
}

// a full alphabet with logRange lr and every frequency but the first equal to 1
func (b *dfBits) hdrFull(lr uint) *dfBits {
	b.w(0, 1).w(0, 1).w(uint64(lr-8), 3)
	for i := 1; i < 256; i += 8 {
		b.w(0, 4)
	}
	return b
}

func dfBinEnc(p kanzi.Predictor, blk []byte) []byte {
	_, bits, full, tok := beEncode(p, blk)
	if tok != "" {
		return nil
	}
	return append([]byte{}, full[:(bits+7)/8]...)
}

func dfFpaqEnc(blk []byte) []byte {
	_, bits, full, tok := fpEncode(blk)
	if tok != "" {
		return nil
	}
	return append([]byte{}, full[:(bits+7)/8]...)
}

// mutations shared by the three decoders; emits through f(stream, counts, family)
func dfMutate(r *rand.Rand, valid []byte, counts []int, thorough bool, f func(s []byte, c []int, fam string)) {
	cp := func() []byte { return append([]byte{}, valid...) }
	f(valid, counts, "intact")
	g := cp()
	for k := 1 + r.Intn(24); k > 0; k-- {
		g = append(g, byte(r.Intn(256)))
	}
	f(g, counts, "garbage-appended")
	// truncation
	if len(valid) <= 48 || thorough && len(valid) <= 160 {
		for k := 0; k < len(valid); k++ {
			f(valid[:k], counts, "trunc-every-byte")
		}
	} else {
		for k := 0; k < 12; k++ {
			f(valid[:k], counts, "trunc-head")
		}
		for k := 0; k < 6; k++ {
			f(valid[:len(valid)-1-k], counts, "trunc-tail")
		}
		for k := 0; k < 6; k++ {
			f(valid[:r.Intn(len(valid))], counts, "trunc-random")
		}
	}
	// every bit of the first 64 (header / size fields), then sampled payload bits
	nb := min(64, 8*len(valid))
	if !thorough {
		nb = min(nb, 40)
	}
	for k := 0; k < nb; k++ {
		m := cp()
		m[k/8] ^= 0x80 >> uint(k%8)
		m = append(m, make([]byte, 16)...)
		f(m, counts, "flip-head-bit")
	}
	for k := 0; k < 8 && len(valid) > 8; k++ {
		m := cp()
		j := 64 + r.Intn(8*len(valid)-64)
		m[j/8] ^= 0x80 >> uint(j%8)
		f(m, counts, "flip-payload-bit")
	}
	for k := 0; k < 4 && len(valid) > 0; k++ {
		m := cp()
		for q := 2 + r.Intn(5); q > 0; q-- {
			j := r.Intn(8 * len(m))
			m[j/8] ^= 0x80 >> uint(j%8)
		}
		m = append(m, make([]byte, r.Intn(40))...)
		f(m, counts, "flips-several")
	}
	// wrong counts
	if len(counts) > 0 {
		c0 := counts[0]
		for _, c := range []int{0, 1, c0 / 2, c0 - 1, c0 + 1, 2*c0 + 3, 63, 64, 65} {
			if c < 0 || c == c0 {
				continue
			}
			cc := append([]int{c}, counts[1:]...)
			f(valid, cc, "wrong-count")
			f(append(cp(), make([]byte, 64)...), cc, "wrong-count-padded")
		}
		// one more Read than the stream holds
		f(valid, append(append([]int{}, counts...), 1+r.Intn(80)), "extra-read")
	}
}

func dfGen(r *rand.Rand, tier string, n int, emit func(op string, tags ...string)) {
	thorough := tier == "thorough"
	_ = n
	// ---------------- range ----------------
	rd := func(chunk int, counts []int, s []byte, fam string) {
		emit(fmt.Sprintf("rd %d %s %s", chunk, dfJoin(counts), esHex(s)), "family:rd-"+fam)
	}
	rd(1023, []int{1}, []byte{0}, "ctor")
	rd(1024, nil, nil, "empty")
	rd(1024, []int{0}, nil, "empty")
	rd(1024, []int{1}, nil, "empty")
	nr := 14
	if thorough {
		nr = 120
	}
	for i := 0; i < nr; i++ {
		lr := uint(8 + r.Intn(8))
		chunk := 1024 + 1024*r.Intn(3)
		nblk := 1 + r.Intn(3)
		var blocks [][]byte
		var counts []int
		for k := 0; k < nblk; k++ {
			ln := 1 + r.Intn(40)
			switch r.Intn(5) {
			case 0:
				ln = 1 + r.Intn(400)
			case 1:
				ln = chunk - 2 + r.Intn(5) // around one chunk
			case 2:
				if i%4 == 0 {
					ln = 2*chunk - 1 + r.Intn(3)
				}
			}
			blocks = append(blocks, beData(r, r.Intn(7), ln))
			counts = append(counts, ln)
		}
		v := dfRangeEnc(blocks, uint(chunk), lr)
		if v == nil {
			continue
		}
		dfMutate(r, v, counts, thorough, func(s []byte, c []int, fam string) { rd(chunk, c, s, fam) })
	}
	// random bytes (most die in the header; a leading 0 bit selects the full / empty alphabet)
	nrr := 150
	if thorough {
		nrr = 2000
	}
	for i := 0; i < nrr; i++ {
		s := make([]byte, 1+r.Intn(120))
		r.Read(s)
		switch r.Intn(4) {
		case 0:
			s[0] &= 0x3F // full alphabet
		case 1:
			s[0] = 0x80 | byte(r.Intn(4))<<2 | s[0]&3 // partial alphabet, small lastMask
		}
		rd(1024, []int{1 + r.Intn(60), r.Intn(30)}, s, "random")
	}
	// hand-built headers: stale f2s entries
	{
		// Read 1: alphabet {5,7}, logRange 9, f[7] = 300 (f2s: 212 x 5, 300 x 7); code 0 => symbol 5.
		// Read 2: alphabet {0,1}, logRange 8, f[1] = 100; code = 2^60-1 => slot 256 >= scale, < len(f2s) = 512:
		// stale symbol 7, frequency 0 in the new table => rng = 0, the loop reads 28 bits per round to the end
		for _, tail := range []int{0, 7, 64, 4000} {
			b := dfNewBits().hdr2(5, 7, 9, 300).w(0, 60).hdr2(0, 1, 8, 100).w(1<<60-1, 60)
			s := append(b.bytes(), make([]byte, tail)...)
			rd(1024, []int{1, 1}, s, "stale-f2s-zero-frequency")
			rd(1024, []int{1, 5}, s, "stale-f2s-zero-frequency")
		}
		// same, but the stale symbol is in the new alphabet (frequency > 0): decoding goes on with it
		for _, tail := range []int{0, 64} {
			b := dfNewBits().hdr2(0, 1, 9, 300).w(0, 60).hdr2(0, 1, 8, 100).w(1<<60-1, 60)
			s := append(b.bytes(), make([]byte, tail)...)
			rd(1024, []int{1, 1}, s, "stale-f2s-live-symbol")
			rd(1024, []int{1, 9}, s, "stale-f2s-live-symbol")
		}
		// no stale entry: slot 256 = len(f2s) => index out of range
		s := dfNewBits().hdr2(0, 1, 8, 100).w(1<<60-1, 60).bytes()
		rd(1024, []int{1}, s, "slot-beyond-f2s")
		rd(1024, []int{3}, append(s, make([]byte, 32)...), "slot-beyond-f2s")
		// logRange 15 table (32768 entries) then logRange 8: random codes find stale entries
		for k := 0; k < 40; k++ {
			b := dfNewBits().hdrFull(15).w(r.Uint64()>>4, 60)
			for q := 0; q < 8; q++ {
				b.w(r.Uint64(), 64)
			}
			b2 := dfNewBits().hdr2(uint(r.Intn(3)), 3+uint(r.Intn(5)), 8+uint(r.Intn(3)), 1+uint64(r.Intn(200)))
			for q := 0; q < 12; q++ {
				b2.w(r.Uint64()|uint64(r.Intn(2))*(0xFFFFFF<<40), 64)
			}
			c1 := 1 + r.Intn(6)
			s1 := b.bytes()
			// Read 1 must end exactly where header 2 starts: not guaranteed; both layouts are forged input anyway
			rd(1024, []int{c1, 1 + r.Intn(20)}, append(s1, b2.bytes()...), "stale-f2s-random")
		}
		// header fields at their limits: logMax 15 at logRange 8 (1<<logMax > scale), frequency = scale, sum = scale
		rd(1024, []int{4}, dfNewBits().w(1, 1).w(0, 5).w(3, 8).w(0, 3).w(15, 4).w(0, 64).bytes(), "header-limits")
		rd(1024, []int{4}, dfNewBits().w(1, 1).w(0, 5).w(3, 8).w(0, 3).w(8, 4).w(255, 8).w(0, 64).bytes(), "header-limits")
		rd(1024, []int{4}, dfNewBits().w(1, 1).w(0, 5).w(3, 8).w(0, 3).w(8, 4).w(254, 8).w(0, 64).bytes(), "header-limits")
		rd(1024, []int{4}, dfNewBits().w(1, 1).w(0, 5).w(7, 8).w(0, 3).w(8, 4).w(127, 8).w(127, 8).w(0, 64).bytes(), "header-limits")
		rd(1024, []int{4}, dfNewBits().w(1, 1).w(0, 5).w(7, 8).w(0, 3).w(8, 4).w(127, 8).w(126, 8).w(0, 64).bytes(), "header-limits")
		rd(1024, []int{4, 2}, dfNewBits().w(1, 1).w(0, 5).w(0, 8).w(0, 64).bytes(), "empty-alphabet-partial")
		rd(1024, []int{4, 2}, dfNewBits().w(0, 1).w(1, 1).w(0, 64).bytes(), "empty-alphabet")
		rd(1024, []int{2000}, dfNewBits().w(1, 1).w(0, 5).w(4, 8).w(0, 3).w(1, 1).w(0, 5).w(4, 8).w(0, 3).bytes(), "single-symbol-two-chunks")
	}
	// ---------------- binary ----------------
	preds := []string{"c:0", "c:1", "c:2048", "c:4095", "a:0:4095", "a:1:4094", "o0:4", "o0:7", "o1:4", "o1:5", "lcg:1", "lcg:777", "cm"}
	bd := func(p string, counts []int, s []byte, fam string) {
		emit(fmt.Sprintf("bd %s %s %s", p, dfJoin(counts), esHex(s)), "family:bd-"+fam, "pred:"+strings.Split(p, ":")[0])
	}
	mkPred := func(p string) kanzi.Predictor {
		if p == "cm" {
			q, _ := entropy.NewCMPredictor(nil)
			return q
		}
		q, _, _ := bePred(p)
		return q
	}
	nb := 1
	if thorough {
		nb = 6
	}
	for _, p := range preds {
		for rep := 0; rep < nb; rep++ {
			for _, sz := range []int{1, 8, 63, 64, 65, 120} {
				if p == "cm" && (sz > 65 || rep > 1) { // the Lean CM model is slow
					continue
				}
				if !thorough && (sz == 63 || sz == 65) && p != "c:2048" && p != "o0:4" {
					continue
				}
				blk := beData(r, r.Intn(7), sz)
				v := dfBinEnc(mkPred(p), blk)
				if v == nil {
					continue
				}
				dfMutate(r, v, []int{sz}, thorough && p != "cm", func(s []byte, c []int, fam string) {
					if p == "cm" && (strings.HasPrefix(fam, "wrong-count") && c[0] > 130 || fam == "flip-head-bit" && r.Intn(3) != 0) {
						return
					}
					bd(p, c, s, fam)
				})
				// forged size field at every boundary of the acceptance rule
				vl, act := dfVarintAt(v)
				length, bufSize := dfBinLen(sz)
				for _, f := range []int64{0, 1, int64(act) - 4, int64(act) - 1, int64(act) + 1, int64(act) + 4, int64(bufSize) - 1, int64(bufSize), int64(bufSize) + 1,
					int64(2*length) - 1, int64(2 * length), int64(2*length) + 1, 1 << 28, 1<<32 - 1,
					// values whose bit count 8*f wraps in 32-bit arithmetic
					1 << 29, 1<<29 + 5, 1 << 30, 3 << 29, 1 << 31, 3 << 30, 7 << 29, 1<<32 - 8} {
					if f < 0 {
						continue
					}
					m := append(dfVarint(uint32(f)), v[vl:]...)
					bd(p, []int{sz}, m, "forged-size")
					pad := make([]byte, 2*length+16)
					if f%2 == 0 {
						r.Read(pad)
					}
					bd(p, []int{sz}, append(m, pad...), "forged-size-padded")
				}
				// two and three Reads on one decoder: the second chunk is forged by construction (the encoder
				// state is fresh, the decoder's is not) and finds the stale buffer of the first
				blk2 := beData(r, r.Intn(7), 1+r.Intn(100))
				v2 := dfBinEnc(mkPred(p), blk2)
				if v2 != nil && p != "cm" {
					bd(p, []int{sz, len(blk2)}, append(append([]byte{}, v...), v2...), "two-reads")
					bd(p, []int{sz, len(blk2), 40}, append(append(append([]byte{}, v...), v2...), v...), "three-reads")
					// second Read with a tiny forged payload: the decoder runs into the stale tail
					m := append(append([]byte{}, v...), dfVarint(uint32(r.Intn(4)))...)
					tail := make([]byte, 7+16)
					r.Read(tail)
					bd(p, []int{sz, 1 + r.Intn(150)}, append(m, tail...), "second-read-stale-tail")
				}
			}
		}
	}
	// random bytes and tiny payloads with large counts (the decoder runs past the payload)
	nbr := 120
	if thorough {
		nbr = 1500
	}
	for i := 0; i < nbr; i++ {
		p := preds[r.Intn(len(preds)-1)]
		s := make([]byte, 8+r.Intn(90))
		r.Read(s)
		if r.Intn(2) == 0 {
			s[0] = byte(r.Intn(int(min(len(s), 100))))
		}
		bd(p, []int{1 + r.Intn(200), r.Intn(50)}, s, "random")
	}
	for _, p := range []string{"c:0", "c:1", "c:4095", "a:0:4095", "lcg:5", "o0:4"} {
		for _, c := range []int{1, 2, 3, 8, 9, 10, 64, 65, 70, 100, 1000} {
			bd(p, []int{c}, make([]byte, 8), "zero-payload")
			bd(p, []int{c}, append([]byte{0}, []byte{0xFF, 0xFF, 0xFF, 0xFF, 0xFF, 0xFF, 0xFF}...), "zero-payload")
			bd(p, []int{c}, append([]byte{8}, make([]byte, 15)...), "zero-payload")
		}
	}
	for i := 0; i < 6; i++ {
		s := make([]byte, 40)
		r.Read(s)
		s[0] = byte(r.Intn(30))
		bd("cm", []int{1 + r.Intn(40)}, s, "random")
	}
	// ---------------- FPAQ ----------------
	nfd := 0
	fd := func(counts []int, s []byte, fam string) {
		emit(fmt.Sprintf("fd %s %s", dfJoin(counts), esHex(s)), "family:fd-"+fam)
		// the same forged input through the version-3 bit decoder (no encoder exists for it: every
		// input is forged for decodeBitV1); every third scenario, and every boundary / overrun family
		nfd++
		big := false
		for _, c := range counts {
			big = big || c > 100000
		}
		if (nfd%3 == 0 || strings.HasPrefix(fam, "forged-size") || strings.HasPrefix(fam, "stale") || strings.HasPrefix(fam, "empty")) && !(big && fam == "empty-payload-large-count" && nfd%2 == 0) {
			emit(fmt.Sprintf("f3 %s %s", dfJoin(counts), esHex(s)), "family:f3-"+fam)
		}
	}
	nf := 2
	if thorough {
		nf = 12
	}
	for rep := 0; rep < nf; rep++ {
		for _, sz := range []int{1, 2, 8, 64, 100, 400, 512, 513, 820, 1030} {
			if !thorough && sz > 100 && rep > 0 {
				continue
			}
			blk := beData(r, 2+r.Intn(5), sz)
			v := dfFpaqEnc(blk)
			if v == nil {
				continue
			}
			dfMutate(r, v, []int{sz}, thorough, func(s []byte, c []int, fam string) { fd(c, s, fam) })
			vl, act := dfVarintAt(v)
			for _, f := range []int64{0, 1, int64(act) - 4, int64(act) - 1, int64(act) + 1, int64(act) + 4, 819, 820, 1023, 1024, 1025,
				int64(2*sz) - 1, int64(2 * sz), int64(2*sz) + 1, 1 << 28, 1<<32 - 1,
				// values whose bit count 8*f wraps in 32-bit arithmetic
				1 << 29, 1<<29 + 5, 1 << 30, 3 << 29, 1 << 31, 3 << 30, 7 << 29, 1<<32 - 8} {
				if f < 0 {
					continue
				}
				m := append(dfVarint(uint32(f)), v[vl:]...)
				fd([]int{sz}, m, "forged-size")
				pad := make([]byte, 2*sz+16)
				if f%2 == 0 {
					r.Read(pad)
				}
				fd([]int{sz}, append(m, pad...), "forged-size-padded")
			}
			blk2 := beData(r, 2+r.Intn(5), 1+r.Intn(300))
			v2 := dfFpaqEnc(blk2)
			fd([]int{sz, len(blk2)}, append(append([]byte{}, v...), v2...), "two-reads")
			m := append(append([]byte{}, v...), dfVarint(uint32(r.Intn(4)))...)
			tail := make([]byte, 7+16)
			r.Read(tail)
			fd([]int{sz, 1 + r.Intn(2000)}, append(m, tail...), "second-read-stale-tail")
		}
	}
	nfr := 100
	if thorough {
		nfr = 1500
	}
	for i := 0; i < nfr; i++ {
		s := make([]byte, 8+r.Intn(90))
		r.Read(s)
		if r.Intn(2) == 0 {
			s[0] = byte(r.Intn(int(min(len(s), 100))))
		}
		fd([]int{1 + r.Intn(300), r.Intn(50)}, s, "random")
	}
	// empty payload, growing counts: the decoder consumes the 1024 zero bytes of its fresh buffer
	for _, c := range []int{1, 100, 1000, 10000, 60000} {
		for _, cur := range []uint64{0, 1<<56 - 1, 0x00A5A5A5A5A5A5A5, 0x0080000000000000} {
			var hdr [8]byte
			binary.BigEndian.PutUint64(hdr[:], cur<<8)
			fd([]int{c}, append([]byte{0}, hdr[:7]...), "empty-payload-large-count")
		}
	}
	// second Read with an empty payload on a buffer whose first bytes are stale incompressible data: the
	// decoder consumes them at about one byte per byte, then the zero tail: index out of range in read()
	{
		blk := make([]byte, 900)
		r.Read(blk)
		v := dfFpaqEnc(blk)
		for _, c := range []int{500, 5000, 250000} {
			s := append(append([]byte{}, v...), 0, 0x5A, 0xA5, 0x5A, 0xA5, 0x5A, 0xA5, 0x5A)
			fd([]int{900, c}, s, "stale-buffer-overrun")
		}
	}
	if thorough {
		for _, c := range []int{300000, 1 << 20} {
			fd([]int{c}, append([]byte{0}, 0xA5, 0xA5, 0xA5, 0xA5, 0xA5, 0xA5, 0xA5), "empty-payload-large-count")
		}
	}
	// ---------------- real predictors, oracle only ----------------
	nx := 4
	if thorough {
		nx = 40
	}
	for _, name := range []string{"CM", "TPAQ", "TPAQX"} {
		for i := 0; i < nx; i++ {
			sz := 1 + r.Intn(300)
			blk := beData(r, r.Intn(7), sz)
			pp, err := beRealPred(name, sz)
			if err != nil {
				continue
			}
			v := dfBinEnc(pp, blk)
			if v == nil {
				continue
			}
			m := append([]byte{}, v...)
			fam := "intact"
			switch r.Intn(5) {
			case 0:
				m = m[:r.Intn(len(m))]
				fam = "trunc"
			case 1:
				j := r.Intn(8 * len(m))
				m[j/8] ^= 0x80 >> uint(j%8)
				fam = "flip"
			case 2:
				vl, _ := dfVarintAt(m)
				m = append(dfVarint(uint32(r.Intn(3*sz+80))), m[vl:]...)
				m = append(m, make([]byte, 2*sz+80)...)
				fam = "forged-size"
			case 3:
				r.Read(m)
				m[0] = byte(r.Intn(int(min(len(m), 120))))
				fam = "random"
			}
			emit(fmt.Sprintf("bx %s %d,%d %s", name, sz, r.Intn(40), esHex(m)), "family:bx-"+fam, "pred:"+name)
		}
	}
}
