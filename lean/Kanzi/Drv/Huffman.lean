/-
Line-protocol driver of the `huffman` correspondence stream (model side).  Core Lean only.

ops (one per line) and the canonical answer, identical to harness/cmd/kv/huffman.go:
  hb <chunk> <hex|->                    ok bits=<n> <image> br=<letters> dec=<ok|BAD>  | err:ctor | err:encode
  hg <chunk> <len> <kind> <seed>        same, the block is generated (`RG.genBlock`, same generator on the Go side)
  hh <chunk> <mode> <p> <seg>/<seg>/..  same, the block is the concatenation of the arranged segments `s:c,s:c,...`
  hx <chunk> <mode> <p> <seg> <k,k,..>  ok bits=<n> <image> br=<letter> mut=<FNV of the decoded bytes>:<0|1> | mut=fail
<image> = hex of the produced bytes (zero padded to a byte) when at most 40 bytes, otherwise
`h:<FNV-1a 64 of the bytes>`.  `br`: one letter per chunk (W raw, S single symbol, P plain,
F / A fast length limiting (first / second loop), N renormalised, R last resort).
`dec`: the decoder asked for `len` bytes on the image followed by a 64-bit sentinel returns the
block and leaves exactly the sentinel.  `hx`: the image with the bits at distance `k` from its end
flipped, followed by the sentinel, is decoded; the answer is the hash of the decoded bytes and
whether exactly the sentinel is left.
-/
import Kanzi.Model.Huffman
import Kanzi.Drv.EntSmall
import Kanzi.Drv.Range

namespace Kanzi.Drv

namespace HF
open Kanzi.Bits

def branchLetter (b : Nat) : Char :=
  match b with
  | 0 => 'E' | 1 => 'S' | 2 => 'P' | 3 => 'F' | 4 => 'A' | 5 => 'N' | 6 => 'R' | 7 => 'W' | _ => '?'

def letters (brs : List Nat) : String :=
  if brs.isEmpty then "-" else String.ofList (brs.map branchLetter)

/-- `s:c,s:c,...` (or `-`): `c` copies of `s`, in table order -/
def parseSeg (s : String) : Option (List Nat) :=
  if s = "-" then some []
  else
    match ES.parseTable s with
    | none => none
    | some t => some (t.flatMap (fun p => List.replicate p.2 p.1))

/-- mode 0: as is; otherwise `out[i] = runs[(i*p) % n]` -/
def arrange (mode p : Nat) (runs : List Nat) : List Nat :=
  if mode = 0 ∨ runs.length = 0 then runs
  else
    let a := runs.toArray
    (List.range runs.length).map (fun i => a.getD ((i * p) % runs.length) 0)

def buildSegs (mode p : Nat) (spec : String) : Option (List Nat) :=
  match (spec.splitOn "/").mapM parseSeg with
  | none => none
  | some segs => some (segs.flatMap (arrange mode p))

def run (chunk : Nat) (blk : List Nat) : String :=
  if ¬ Kanzi.Huffman.ctorOk chunk then "err:ctor"
  else
    match Kanzi.Huffman.encodeB blk chunk with
    | none => "err:encode"
    | some (e, brs) =>
      let d :=
        match Kanzi.Huffman.decode (e ++ ES.sentinel) blk.length chunk with
        | some (b', r) => if b' = blk ∧ r = ES.sentinel then "ok" else "BAD"
        | none => "BAD:none"
      s!"ok bits={e.length} {RG.image e} br={letters brs} dec={d}"

def flip (e : Bits) (k : Nat) : Bits :=
  if k < e.length then e.set (e.length - 1 - k) (! e.getD (e.length - 1 - k) false) else e

def runMut (chunk : Nat) (blk : List Nat) (flips : List Nat) : String :=
  if ¬ Kanzi.Huffman.ctorOk chunk then "err:ctor"
  else
    match Kanzi.Huffman.encodeB blk chunk with
    | none => "err:encode"
    | some (e, brs) =>
      let m := flips.foldl flip e
      let d :=
        match Kanzi.Huffman.decode (m ++ ES.sentinel) blk.length chunk with
        | some (b', r) =>
          if b'.length = blk.length then
            s!"{RG.hex16 (RG.fnv64 b')}:{if r = ES.sentinel then 1 else 0}"
          else "fail"
        | none => "fail"
      s!"ok bits={e.length} {RG.image e} br={letters brs} mut={d}"

end HF

open HF in
/-- the `huffman` stream -/
def huffman (line : String) : String :=
  match ES.words line with
  | ["hb", cs, hs] =>
    match cs.toNat?, ES.parseHex hs with
    | some chunk, some blk => run chunk blk
    | _, _ => "bad-op"
  | ["hg", cs, ls, ks, ss] =>
    match cs.toNat?, ls.toNat?, ks.toNat?, ss.toNat? with
    | some chunk, some len, some kind, some seed => run chunk (RG.genBlock len kind seed)
    | _, _, _, _ => "bad-op"
  | ["hh", cs, ms, ps, spec] =>
    match cs.toNat?, ms.toNat?, ps.toNat?, buildSegs (ms.toNat?.getD 0) (ps.toNat?.getD 1) spec with
    | some chunk, some _, some _, some blk => run chunk blk
    | _, _, _, _ => "bad-op"
  | ["hx", cs, ms, ps, spec, ks] =>
    match cs.toNat?, ms.toNat?, ps.toNat?, buildSegs (ms.toNat?.getD 0) (ps.toNat?.getD 1) spec,
          (ks.splitOn ",").mapM String.toNat? with
    | some chunk, some _, some _, some blk, some flips =>
      if blk.length > chunk ∨ blk.length < 32 then "bad-op" else runMut chunk blk flips
    | _, _, _, _, _ => "bad-op"
  | _ => "bad-op"

end Kanzi.Drv
