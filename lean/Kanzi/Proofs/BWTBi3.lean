/-
inverseBiPSIv2, part 3: the second loop (`biStarts`): prefix sums of the bigram counts in the order
`x y` (first symbol major), written at the transposed index, and the fast-bits table.
-/
import Kanzi.Proofs.BWTBi2

namespace Kanzi.BWT

/-- index of the bigram with flat key `kk = x*256 + y` in `buckets` before the transposition: `(y<<8)|x` -/
def Tix (kk : Nat) : Nat := kk / 256 + (kk % 256) * 256

theorem Tix_lt (kk : Nat) (h : kk < 65536) : Tix kk < 65536 := by unfold Tix; omega

theorem Tix_inj (a b : Nat) (ha : a < 65536) (hb : b < 65536) (h : Tix a = Tix b) : a = b := by
  unfold Tix at h; omega

theorem Tix_Tix (kk : Nat) (h : kk < 65536) : Tix (Tix kk) = kk := by unfold Tix; omega

/-- running sum while symbol `c` is the outer symbol, before key `kk` -/
def sumAt (src : Array Nat) (p0 c kk : Nat) : Nat :=
  1 + (if rd src 0 ≤ c then 1 else 0) + psum (cntK src p0) kk

/-- first row of the suffixes starting with the bigram `kk` -/
def startK (src : Array Nat) (p0 kk : Nat) : Nat := sumAt src p0 (kk / 256) kk

/-- one past the last row of the bigram `kk` -/
def endK (src : Array Nat) (p0 kk : Nat) : Nat := startK src p0 kk + cntK src p0 kk

theorem psum_mono (f : Nat → Nat) {a b : Nat} (h : a ≤ b) : psum f a ≤ psum f b := by
  induction b with
  | zero => have : a = 0 := by omega
            subst this; exact Nat.le_refl _
  | succ b ih =>
    by_cases hab : a = b + 1
    · subst hab; exact Nat.le_refl _
    · have := ih (by omega)
      rw [psum_succ]; omega

theorem endK_le_startK (src : Array Nat) (p0 : Nat) {a b : Nat} (h : a < b) : endK src p0 a ≤ startK src p0 b := by
  unfold endK startK sumAt
  have h1 : psum (cntK src p0) (a + 1) ≤ psum (cntK src p0) b := psum_mono _ h
  rw [psum_succ] at h1
  have h2 : a / 256 ≤ b / 256 := Nat.div_le_div_right (Nat.le_of_lt h)
  by_cases h3 : rd src 0 ≤ a / 256
  · have h4 : rd src 0 ≤ b / 256 := by omega
    simp only [h3, h4, ite_true]; omega
  · simp only [h3, ite_false]; split <;> omega

theorem startK_le_endK (src : Array Nat) (p0 a : Nat) : startK src p0 a ≤ endK src p0 a := by
  unfold endK; omega

theorem endK_le (src : Array Nat) (hb : ∀ b ∈ src.toList, b < 256) (p0 : Nat) (hp : 1 ≤ p0 ∧ p0 ≤ src.size)
    (kk : Nat) (hk : kk < 65536) : endK src p0 kk ≤ src.size + 1 := by
  unfold endK startK sumAt
  have h1 : psum (cntK src p0) (kk + 1) ≤ psum (cntK src p0) 65536 := psum_mono _ (by omega)
  rw [psum_succ, total_cnt src hb p0 hp] at h1
  split <;> omega

theorem startK_pos (src : Array Nat) (p0 a : Nat) : 1 ≤ startK src p0 a := by
  unfold startK sumAt; omega

/-! ### the shift of the fast-bits table -/

theorem shiftLoop_spec (count fuel shift : Nat) (h : count < 2 ^ (17 + fuel + shift)) :
    count >>> (shiftLoop count fuel shift) ≤ MASK_FASTBITS := by
  induction fuel generalizing shift with
  | zero =>
    simp only [shiftLoop]
    rw [Nat.shiftRight_eq_div_pow]
    have : count / 2 ^ shift < 2 ^ 17 := by
      rw [Nat.div_lt_iff_lt_mul (Nat.two_pow_pos _), ← Nat.pow_add]
      simpa using h
    unfold MASK_FASTBITS NB_FASTBITS
    have e : (1 <<< 17) - 1 = 2 ^ 17 - 1 := by decide
    rw [e]; omega
  | succ f ih =>
    simp only [shiftLoop]
    split
    · apply ih
      have : 17 + f + (shift + 1) = 17 + (f + 1) + shift := by omega
      rw [this]; exact h
    · omega

theorem shiftOf_spec (count : Nat) (h : count < 2 ^ 64) : count >>> shiftOf count ≤ MASK_FASTBITS := by
  apply shiftLoop_spec
  exact Nat.lt_of_lt_of_le h (Nat.pow_le_pow_right (by decide) (by omega))

/-! ### fbFill -/

theorem fbFill_spec (fb ve : Nat) (fuel v : Nat) (fbs : Array Nat) (hf : fuel = ve + 1 - v) (hve : ve < fbs.size) :
    ∃ fbs', fbFill fb ve fuel v fbs = some (max v (ve + 1), fbs') ∧ fbs'.size = fbs.size ∧
      (∀ u, v ≤ u → u ≤ ve → rd fbs' u = fb) ∧ (∀ u, (u < v ∨ ve < u) → rd fbs' u = rd fbs u) := by
  induction fuel generalizing v fbs with
  | zero =>
    refine ⟨fbs, ?_, rfl, ?_, fun _ _ => rfl⟩
    · simp only [fbFill]; congr 2; omega
    · intro u h1 h2; omega
  | succ f ih =>
    have hv : v ≤ ve := by omega
    have hv2 : v < fbs.size := by omega
    obtain ⟨fbs', h1, h2, h3, h4⟩ := ih (v + 1) (fbs.setIfInBounds v fb) (by omega)
      (by rw [Array.size_setIfInBounds]; exact hve)
    refine ⟨fbs', ?_, by rw [h2, Array.size_setIfInBounds], ?_, ?_⟩
    · simp only [fbFill, hv, ite_true, hv2, h1]
      congr 2; omega
    · intro u hu1 hu2
      by_cases huv : u = v
      · subst huv
        rw [h4 u (Or.inl (by omega)), rd_setIfInBounds]; simp [hv2]
      · exact h3 u (by omega) hu2
    · intro u hu
      rw [h4 u (by omega), rd_setIfInBounds]
      have : ¬ v = u := by omega
      simp [this]

/-! ### the loop invariant -/

/-- state before the flat key `kk` (keys below `kk` processed) -/
structure StInv (src : Array Nat) (p0 shift kk v : Nat) (bk fbs : Array Nat) : Prop where
  bksize : bk.size = 65536
  fbsize : fbs.size = 131072
  done : ∀ t, t < kk → rd bk (Tix t) = startK src p0 t
  todo : ∀ t, kk ≤ t → t < 65536 → rd bk (Tix t) = cntK src p0 t
  vhi : ∀ t, t < kk → cntK src p0 t ≠ 0 → (endK src p0 t - 1) >>> shift < v
  fblt : ∀ u, rd fbs u < 65536
  fb : ∀ u, u < v → rd fbs u < kk ∧ cntK src p0 (rd fbs u) ≠ 0 ∧ u ≤ (endK src p0 (rd fbs u) - 1) >>> shift ∧
        ∀ t, t < rd fbs u → cntK src p0 t ≠ 0 → (endK src p0 t - 1) >>> shift < u

theorem shr_mono (a b s : Nat) (h : a ≤ b) : a >>> s ≤ b >>> s := by
  rw [Nat.shiftRight_eq_div_pow, Nat.shiftRight_eq_div_pow]
  exact Nat.div_le_div_right h

set_option maxRecDepth 8000 in
/-- one key -/
theorem stInv_step (src : Array Nat) (hb : ∀ b ∈ src.toList, b < 256) (p0 : Nat) (hp : 1 ≤ p0 ∧ p0 ≤ src.size)
    (shift : Nat) (hshift : src.size >>> shift ≤ MASK_FASTBITS)
    (c d v : Nat) (hc : c < 256) (hd : d < 256) (bk fbs : Array Nat)
    (hinv : StInv src p0 shift (c * 256 + d) v bk fbs) :
    let kk := c * 256 + d
    let val := cntK src p0 kk
    rd bk (c + (d <<< 8)) = val ∧ c + (d <<< 8) < bk.size ∧
    (val = 0 → StInv src p0 shift (kk + 1) v (bk.setIfInBounds (c + (d <<< 8)) (startK src p0 kk)) fbs) ∧
    (val ≠ 0 → ∃ fbs', fbFill ((c <<< 8) ||| d) ((endK src p0 kk - 1) >>> shift)
          ((endK src p0 kk - 1) >>> shift + 1 - v) v fbs
          = some (max v ((endK src p0 kk - 1) >>> shift + 1), fbs') ∧
        StInv src p0 shift (kk + 1) (max v ((endK src p0 kk - 1) >>> shift + 1))
          (bk.setIfInBounds (c + (d <<< 8)) (startK src p0 kk)) fbs') := by
  intro kk val
  have hkk : kk < 65536 := by show c * 256 + d < 65536; omega
  have hT : c + (d <<< 8) = Tix kk := by
    show c + (d <<< 8) = Tix (c * 256 + d)
    rw [shl8]; unfold Tix; omega
  have hval : rd bk (c + (d <<< 8)) = val := by rw [hT]; exact hinv.todo kk (Nat.le_refl _) hkk
  have hTlt : c + (d <<< 8) < bk.size := by rw [hT, hinv.bksize]; exact Tix_lt kk hkk
  -- the bucket array after `ptr[d<<8] = sum`
  have hdone' : ∀ t, t < kk + 1 → rd (bk.setIfInBounds (c + (d <<< 8)) (startK src p0 kk)) (Tix t) = startK src p0 t := by
    intro t ht
    rw [rd_setIfInBounds, hT]
    by_cases htk : t = kk
    · subst htk; simp [← hT, hTlt]
    · have : ¬ Tix kk = Tix t := fun e => htk (Tix_inj t kk (by omega) hkk e.symm)
      simp only [this, false_and, ite_false]
      exact hinv.done t (by omega)
  have htodo' : ∀ t, kk + 1 ≤ t → t < 65536 →
      rd (bk.setIfInBounds (c + (d <<< 8)) (startK src p0 kk)) (Tix t) = cntK src p0 t := by
    intro t ht1 ht2
    rw [rd_setIfInBounds, hT]
    have : ¬ Tix kk = Tix t := fun e => by have := Tix_inj kk t hkk ht2 e; omega
    simp only [this, false_and, ite_false]
    exact hinv.todo t (by omega) ht2
  refine ⟨hval, hTlt, ?_, ?_⟩
  · intro hz
    refine ⟨by rw [Array.size_setIfInBounds]; exact hinv.bksize, hinv.fbsize, hdone', htodo', ?_, hinv.fblt, ?_⟩
    · intro t ht hne
      by_cases htk : t = kk
      · subst htk; exact absurd hz hne
      · exact hinv.vhi t (by omega) hne
    · intro u hu
      obtain ⟨h1, h2, h3, h4⟩ := hinv.fb u hu
      exact ⟨by omega, h2, h3, h4⟩
  · intro hnz
    have hend := endK_le src hb p0 hp kk hkk
    have hve : (endK src p0 kk - 1) >>> shift < fbs.size := by
      rw [hinv.fbsize]
      have h1 := shr_mono (endK src p0 kk - 1) src.size shift (by omega)
      unfold MASK_FASTBITS NB_FASTBITS at hshift
      have e : (1 <<< 17) - 1 = 131071 := by decide
      rw [e] at hshift
      omega
    obtain ⟨fbs', r1, s1, f1, u1⟩ := fbFill_spec ((c <<< 8) ||| d) ((endK src p0 kk - 1) >>> shift)
      ((endK src p0 kk - 1) >>> shift + 1 - v) v fbs rfl hve
    have hfbkey : (c <<< 8) ||| d = kk := by rw [shl8_or c d hd]
    refine ⟨fbs', r1, by rw [Array.size_setIfInBounds]; exact hinv.bksize, by rw [s1]; exact hinv.fbsize,
      hdone', htodo', ?_, ?_, ?_⟩
    · intro t ht hne
      by_cases htk : t = kk
      · subst htk; omega
      · have := hinv.vhi t (by omega) hne
        omega
    · intro u
      by_cases h1 : v ≤ u ∧ u ≤ (endK src p0 kk - 1) >>> shift
      · rw [f1 u h1.1 h1.2, hfbkey]; exact hkk
      · rw [u1 u (by omega)]; exact hinv.fblt u
    · intro u hu
      by_cases huv : u < v
      · rw [u1 u (Or.inl huv)]
        obtain ⟨h1, h2, h3, h4⟩ := hinv.fb u huv
        exact ⟨by omega, h2, h3, h4⟩
      · have hu2 : u ≤ (endK src p0 kk - 1) >>> shift := by omega
        rw [f1 u (by omega) hu2, hfbkey]
        refine ⟨by omega, hnz, hu2, ?_⟩
        intro t ht hne
        have := hinv.vhi t ht hne
        omega

/-! ### inner and outer loop -/

theorem sumAt_succ (src : Array Nat) (p0 c kk : Nat) :
    sumAt src p0 c (kk + 1) = sumAt src p0 c kk + cntK src p0 kk := by
  unfold sumAt; rw [psum_succ]; omega

theorem biStartsD_spec (src : Array Nat) (hb : ∀ b ∈ src.toList, b < 256) (p0 : Nat) (hp : 1 ≤ p0 ∧ p0 ≤ src.size)
    (shift : Nat) (hshift : src.size >>> shift ≤ MASK_FASTBITS) (c : Nat) (hc : c < 256)
    (k d v : Nat) (hkd : k + d = 256) (bk fbs : Array Nat)
    (hinv : StInv src p0 shift (c * 256 + d) v bk fbs) :
    ∃ v' bk' fbs', biStartsD c shift k d v (sumAt src p0 c (c * 256 + d)) bk fbs
        = some (v', sumAt src p0 c ((c + 1) * 256), bk', fbs') ∧
      StInv src p0 shift ((c + 1) * 256) v' bk' fbs' := by
  induction k generalizing d v bk fbs with
  | zero =>
    have : d = 256 := by omega
    subst this
    refine ⟨v, bk, fbs, ?_, ?_⟩
    · simp only [biStartsD, succ_mul256]
    · rw [succ_mul256]; exact hinv
  | succ k ih =>
    have hd : d < 256 := by omega
    obtain ⟨hval, hlt, hzero, hnz⟩ := stInv_step src hb p0 hp shift hshift c d v hc hd bk fbs hinv
    have hstart : sumAt src p0 c (c * 256 + d) = startK src p0 (c * 256 + d) := by
      unfold startK
      have : (c * 256 + d) / 256 = c := by omega
      rw [this]
    have hnext : c * 256 + d + 1 = c * 256 + (d + 1) := Nat.add_assoc _ _ _
    have hset : bk.set (c + (d <<< 8)) (sumAt src p0 c (c * 256 + d)) hlt
        = bk.setIfInBounds (c + (d <<< 8)) (startK src p0 (c * 256 + d)) := by
      rw [hstart]; simp [Array.setIfInBounds, hlt]
    simp only [biStartsD, hlt, dite_true, rd_eq_getElem hlt, hval]
    have hs : sumAt src p0 c (c * 256 + d) + cntK src p0 (c * 256 + d) = sumAt src p0 c (c * 256 + (d + 1)) := by
      rw [← hnext, sumAt_succ]
    have hE : endK src p0 (c * 256 + d) = sumAt src p0 c (c * 256 + (d + 1)) := by
      rw [← hs, hstart]; rfl
    by_cases hz : cntK src p0 (c * 256 + d) = 0
    · have hinv' := hzero hz
      rw [hnext] at hinv'
      obtain ⟨v', bk', fbs', r, i⟩ := ih (d + 1) v (by omega)
        (bk.set (c + (d <<< 8)) (sumAt src p0 c (c * 256 + d)) hlt) fbs (by rw [hset]; exact hinv')
      refine ⟨v', bk', fbs', ?_, i⟩
      have hne : ¬ cntK src p0 (c * 256 + d) ≠ 0 := by omega
      rw [if_neg hne, hs]
      exact r
    · obtain ⟨fbs1, rf, hinv'⟩ := hnz hz
      rw [hnext] at hinv'
      obtain ⟨v', bk', fbs', r, i⟩ := ih (d + 1) _ (by omega)
        (bk.set (c + (d <<< 8)) (sumAt src p0 c (c * 256 + d)) hlt) fbs1 (by rw [hset]; exact hinv')
      refine ⟨v', bk', fbs', ?_, i⟩
      rw [hE] at rf r
      rw [if_pos hz, hs, rf]
      exact r

theorem biStarts_spec (src : Array Nat) (hb : ∀ b ∈ src.toList, b < 256) (p0 : Nat) (hp : 1 ≤ p0 ∧ p0 ≤ src.size)
    (shift : Nat) (hshift : src.size >>> shift ≤ MASK_FASTBITS)
    (k c v : Nat) (hkc : k + c = 256) (bk fbs : Array Nat)
    (hinv : StInv src p0 shift (c * 256) v bk fbs) :
    ∃ v' bk' fbs', biStarts (rd src 0) shift k c v
        (1 + (if rd src 0 < c then 1 else 0) + psum (cntK src p0) (c * 256)) bk fbs = some (bk', fbs') ∧
      StInv src p0 shift 65536 v' bk' fbs' := by
  induction k generalizing c v bk fbs with
  | zero =>
    have : c = 256 := by omega
    subst this
    exact ⟨v, bk, fbs, rfl, hinv⟩
  | succ k ih =>
    have hc : c < 256 := by omega
    have hsum : (if c = rd src 0 then 1 + (if rd src 0 < c then 1 else 0) + psum (cntK src p0) (c * 256) + 1
        else 1 + (if rd src 0 < c then 1 else 0) + psum (cntK src p0) (c * 256)) = sumAt src p0 c (c * 256 + 0) := by
      show _ = 1 + (if rd src 0 ≤ c then 1 else 0) + psum (cntK src p0) (c * 256 + 0)
      have e0 : c * 256 + 0 = c * 256 := Nat.add_zero _
      rw [e0]
      by_cases h1 : c = rd src 0
      · rw [if_pos h1, if_neg (show ¬ rd src 0 < c by omega), if_pos (show rd src 0 ≤ c by omega)]
        omega
      · rw [if_neg h1]
        by_cases h2 : rd src 0 < c
        · rw [if_pos h2, if_pos (show rd src 0 ≤ c by omega)]
        · rw [if_neg h2, if_neg (show ¬ rd src 0 ≤ c by omega)]
    obtain ⟨v1, bk1, fbs1, r1, i1⟩ := biStartsD_spec src hb p0 hp shift hshift c hc 256 0 v rfl bk fbs
      (by rw [Nat.add_zero]; exact hinv)
    have hnext : sumAt src p0 c ((c + 1) * 256)
        = 1 + (if rd src 0 < c + 1 then 1 else 0) + psum (cntK src p0) ((c + 1) * 256) := by
      unfold sumAt
      by_cases h : rd src 0 ≤ c
      · have : rd src 0 < c + 1 := by omega
        simp only [h, this, ite_true]
      · have : ¬ rd src 0 < c + 1 := by omega
        simp only [h, this, ite_false]
    obtain ⟨v', bk', fbs', r2, i2⟩ := ih (c + 1) v1 (by omega) bk1 fbs1 i1
    refine ⟨v', bk', fbs', ?_, i2⟩
    simp only [biStarts, hsum, r1]
    rw [hnext]; exact r2

end Kanzi.BWT
