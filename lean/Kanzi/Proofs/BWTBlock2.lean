/-
BWTBlockCodec round trip for blocks above 4 MiB (the `inverseBiPSIv2` route).
-/
import Kanzi.Proofs.BWTBi11

namespace Kanzi.BWT

/-- BLOCK ROUND TRIP for blocks above 4 MiB (up to the 1 GiB limit): whatever instance state, job
count >= 1 and destination size (at least the block, exactly the block included), the inverse of the
forward output is the block. -/
theorem block_roundtrip_big (s : List Nat) (hbig : THRESHOLD2 < s.length) (hmax' : s.length ≤ MAX_BLOCK_SIZE)
    (hb : ∀ x ∈ s, x < 256) (fdst : Nat) (hfd : maxEncodedLen s.length ≤ fdst)
    (buf : Array Nat) (old : List Nat) (jobs idst : Nat) (hjobs : 1 ≤ jobs) (hid : s.length ≤ idst) :
    ∃ enc, blockForward s fdst = .ok enc ∧ enc.length ≤ maxEncodedLen s.length ∧
      (blockInverse buf old jobs enc.toArray idst).1 = .ok s.toArray := by
  have h2 : 2 ≤ s.length := by unfold THRESHOLD2 at hbig; omega
  obtain ⟨enc, hf, hlen, hle⟩ := blockForward_length s h2 hmax' fdst hfd
  refine ⟨enc, hf, hle, ?_⟩
  have henc := blockForward_eq s h2 hmax' fdst hfd
  rw [hf] at henc
  injection henc with henc
  have hp := pIndexSize_range s.length h2 hmax'
  have hdl := bwtData_length s (by omega)
  -- the header parses back
  have hparse := parseHeader_headerBytes old
    (bwtIndexes s ++ (List.replicate 8 0).drop (getBWTChunks s.length)) (bwtData s) (pIndexSizeOf s.length) hp
    (by
      intro i hi
      rw [hdl] at hi
      have := indexes_bounds s (by omega) ((List.replicate 8 0).drop (getBWTChunks s.length)) i hi
      have hpow := le_pow_pIndexSize s.length (by omega)
      omega)
  rw [hdl] at hparse
  rw [← henc] at hparse
  have hpidx : (List.range (getBWTChunks s.length)).map
      (fun i => (bwtIndexes s ++ (List.replicate 8 0).drop (getBWTChunks s.length)).getD i 0)
      = bwtIndexes s := by
    rw [← bwtIndexes_length]; exact range_map_getD_append _ _
  rw [hpidx] at hparse
  have henc2 : 2 ≤ enc.length := by rw [hlen]; omega
  have h1 : ¬ (enc.toArray.size = 0 ∨ idst = 0) := by rw [List.size_toArray]; omega
  have h3 : ¬ enc.toArray.size = 1 := by rw [List.size_toArray]; omega
  have hpre : (enc.toArray.extract 0 MAX_HEADER_SIZE).toList = enc.take MAX_HEADER_SIZE := by simp
  simp only [blockInverse, h1, h3, ite_false, hpre, parseHeaderN_take]
  have : parseHeaderN old enc enc.toArray.size = parseHeader old enc := by simp [parseHeader]
  rw [this, hparse]
  simp only
  have hdata : enc.toArray.extract (getBWTChunks s.length * pIndexSizeOf s.length + 1) enc.toArray.size
      = (bwtData s).toArray := by
    apply Array.ext'
    simp only [Array.toList_extract, List.toList_toArray, List.size_toArray]
    rw [henc, List.extract_eq_take_drop, List.drop_left' (headerBytes_length _ _ _)]
    apply List.take_of_length_le
    rw [List.length_append, headerBytes_length]; omega
  rw [hdata]
  have hsz : (bwtData s).toArray.size = s.length := by simp [hdl]
  have c1 : ¬ ((bwtData s).toArray.size = 0 ∨ idst = 0) := by rw [hsz]; omega
  have c2 : ¬ (bwtData s).toArray.size > MAX_BLOCK_SIZE := by rw [hsz]; omega
  have c3 : ¬ (bwtData s).toArray.size > idst := by rw [hsz]; omega
  have c4 : ¬ (bwtData s).toArray.size = 1 := by rw [hsz]; omega
  have c5 : ¬ (bwtData s).toArray.size ≤ THRESHOLD2 := by rw [hsz]; omega
  simp only [bwtInverse, c1, c2, c3, c4, c5, ite_false]
  exact biPSIv2_spec s (by unfold THRESHOLD2 at hbig; omega) (by unfold MAX_BLOCK_SIZE at hmax'; omega) hb buf _ jobs
    hjobs idst hid


end Kanzi.BWT
