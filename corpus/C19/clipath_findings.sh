#!/bin/bash
# Shell reproducers of the findings of the `clipath` slice (C19, path logic of the CLI).
# usage: clipath_findings.sh <path to the kanzi binary>     (works in a fresh temporary directory)
K=${1:-kanzi}
W=$(mktemp -d "${TMPDIR:-/tmp}/clipath-findings.XXXXXX") || exit 1
cd "$W" || exit 1
say() { printf '\n=== %s\n' "$*"; }

say "P1 -i ./T -o out: output names lose their first bytes (expected out/abcdef.knz, out/sub/ghijkl.knz)"
mkdir -p p1/T/sub p1/out; echo AAAA > p1/T/abcdef; echo BBBB > p1/T/sub/ghijkl
(cd p1 && $K -c -i ./T -o out -j 1 >/dev/null; echo "exit status $?"; find out -type f | sort)

say "P1b two inputs, ONE output, exit status 0 with -f (expected out/xxq.knz and out/yyq.knz); status 7 without -f"
mkdir -p p1b/T p1b/out p1b/out2; echo 1111 > p1b/T/xxq; echo 2222 > p1b/T/yyq
(cd p1b && $K -c -i ./T -o out -f -j 1 >/dev/null; echo "exit status $?"; find out -type f | sort
 $K -c -i ./T -o out2 -j 1 >/dev/null; echo "without -f: exit status $?")

say "P1c one-letter name: run-time fault, exit status 127 (expected out/a.knz)"
mkdir -p p1c/T p1c/out; echo a > p1c/T/a
(cd p1c && $K -c -i ./T -o out -j 1 | tail -1; echo "exit status ${PIPESTATUS[0]}")

say "P1d the same with '.', 'T//', 'T/../T' and on decompression"
mkdir -p p1d/T p1d/o1 p1d/o2 p1d/o3 p1d/C p1d/D; echo hello > p1d/T/abcdef
(cd p1d/T && $K -c -i . -o ../o1 -j 1 >/dev/null; echo ". : exit status $?"; ls ../o1)
(cd p1d && $K -c -i T// -o o2 -j 1 >/dev/null; echo "T// : exit status $?"; ls o2
 $K -c -i T/../T -o o3 -j 1 | tail -1; echo "T/../T : exit status ${PIPESTATUS[0]}"; ls o3
 $K -c -i T -o C -j 1 >/dev/null; $K -d -i ./C -o D -j 1 >/dev/null; echo "decompress -i ./C: exit status $?"; ls D)

say "P2 in place, tree {x, x.knz}, -f: the user's file x.knz is overwritten by the compressed x (exit status 0)"
mkdir p2; printf 'content of x\n' > p2/x; printf 'content of x.knz (a plain user file)\n' > p2/x.knz
sha256sum p2/x.knz | cut -c1-16
$K -c -i p2 -f -j 4 >/dev/null; echo "exit status $?"
for f in p2/*; do echo "$f $(stat -c %s $f) $(sha256sum < $f | cut -c1-16)"; done
echo "x.knz.knz decodes to:"; $K -d -i p2/x.knz.knz -o stdout -j 1 | head -c 60 | od -c | head -2
echo "(-j 1 happens to compress x.knz first; then 'kanzi -d -i p2 -f' truncates x before it finds x.knz invalid)"

say "P3 decompression: a.knz and a.KNZ are both written to 'a'; with -f --rm both sources are deleted, one content survives"
mkdir -p p3/S; printf 'first\n' > p3/S/a; printf 'second\n' > p3/S/b
$K -c -i p3/S --rm -j 1 >/dev/null; mv p3/S/b.knz p3/S/a.KNZ; mkdir p3/D
$K -d -i p3/S -o p3/D -f --rm -j 1 >/dev/null; echo "exit status $?"; find p3 -type f | sort; cat p3/D/a

say "P4 'kanzi -d -i none.knz --rm' in the working directory: nothing is written, the source is deleted, exit status 0"
mkdir p4; printf 'precious\n' > p4/none; (cd p4 && $K -c -i none --rm >/dev/null && $K -d -i none.knz --rm >/dev/null; echo "exit status $?"; ls -A | wc -l)

say "O1 several files to stdout: the first stream is written, then the run fails (13 compressing, 12 decompressing)"
mkdir -p o1/T; echo a > o1/T/a; echo b > o1/T/b
$K -c -i o1/T -o stdout -j 1 | wc -c; echo "exit status ${PIPESTATUS[0]}"

say "O2 --skip-dot-files skips dot files but still descends into dot directories"
mkdir -p o2/T/.git o2/out; echo 1 > o2/T/.git/config; echo 2 > o2/T/.hidden; echo 3 > o2/T/vis
$K -c -i o2/T -o o2/out --skip-dot-files -j 1 >/dev/null; find o2/out -type f | sort
cd /; rm -rf "$W"
