/-
`text` slice: `internal.Log2` (table based) is the integer logarithm; the initial dictionary size chosen by
`reset` is monotone in the block size.
-/
import Kanzi.Proofs.TextDict

namespace Kanzi.Text

set_option maxRecDepth 100000 in
/-- the table `internal.LOG2`: entry `k` is the integer logarithm of `k + 1`, as a case distinction -/
theorem log2_table : ∀ k, k < 255 →
    (Kanzi.FSD.LOG2.getD k 0 = 0 ∧ k + 1 < 2) ∨ (Kanzi.FSD.LOG2.getD k 0 = 1 ∧ 2 ≤ k + 1 ∧ k + 1 < 4) ∨
    (Kanzi.FSD.LOG2.getD k 0 = 2 ∧ 4 ≤ k + 1 ∧ k + 1 < 8) ∨ (Kanzi.FSD.LOG2.getD k 0 = 3 ∧ 8 ≤ k + 1 ∧ k + 1 < 16) ∨
    (Kanzi.FSD.LOG2.getD k 0 = 4 ∧ 16 ≤ k + 1 ∧ k + 1 < 32) ∨ (Kanzi.FSD.LOG2.getD k 0 = 5 ∧ 32 ≤ k + 1 ∧ k + 1 < 64) ∨
    (Kanzi.FSD.LOG2.getD k 0 = 6 ∧ 64 ≤ k + 1 ∧ k + 1 < 128) ∨ (Kanzi.FSD.LOG2.getD k 0 = 7 ∧ 128 ≤ k + 1 ∧ k + 1 < 256) := by
  decide

/-- `internal.Log2NoCheck` is the integer logarithm on `uint32` -/
theorem log2NoCheck_bounds (x : Nat) (h0 : 0 < x) (h32 : x < 2 ^ 32) :
    2 ^ Kanzi.FSD.log2NoCheck x ≤ x ∧ x < 2 ^ (Kanzi.FSD.log2NoCheck x + 1) := by
  have e32 : (2 : Nat) ^ 32 = 4294967296 := by decide
  have e16 : (2 : Nat) ^ 16 = 65536 := by decide
  have e8 : (2 : Nat) ^ 8 = 256 := by decide
  unfold Kanzi.FSD.log2NoCheck
  simp only [e16, e8]
  rw [e32] at h32
  by_cases c1 : x ≥ 65536
  · rw [if_pos c1, if_pos c1, Nat.shiftRight_eq_div_pow, e16]
    by_cases c2 : x / 65536 ≥ 256
    · rw [if_pos c2, if_pos c2, Nat.shiftRight_eq_div_pow, e8]
      rcases log2_table (x / 65536 / 256 - 1) (by omega) with h | h | h | h | h | h | h | h <;>
        (rw [h.1]; simp only [Nat.reduceAdd, Nat.reducePow]; omega)
    · rw [if_neg c2, if_neg c2]
      rcases log2_table (x / 65536 - 1) (by omega) with h | h | h | h | h | h | h | h <;>
        (rw [h.1]; simp only [Nat.reduceAdd, Nat.reducePow]; omega)
  · rw [if_neg c1, if_neg c1]
    by_cases c2 : x ≥ 256
    · rw [if_pos c2, if_pos c2, Nat.shiftRight_eq_div_pow, e8]
      rcases log2_table (x / 256 - 1) (by omega) with h | h | h | h | h | h | h | h <;>
        (rw [h.1]; simp only [Nat.reduceAdd, Nat.reducePow]; omega)
    · rw [if_neg c2, if_neg c2]
      rcases log2_table (x - 1) (by omega) with h | h | h | h | h | h | h | h <;>
        (rw [h.1]; simp only [Nat.reduceAdd, Nat.reducePow]; omega)

theorem log2NoCheck_mono (a b : Nat) (ha : 0 < a) (hab : a ≤ b) (hb : b < 2 ^ 32) :
    Kanzi.FSD.log2NoCheck a ≤ Kanzi.FSD.log2NoCheck b := by
  have h1 := (log2NoCheck_bounds a ha (by omega)).1
  have h2 := (log2NoCheck_bounds b (by omega) hb).2
  have : 2 ^ Kanzi.FSD.log2NoCheck a < 2 ^ (Kanzi.FSD.log2NoCheck b + 1) := by omega
  have := (Nat.pow_lt_pow_iff_right (by decide : 1 < 2)).mp this
  omega

/-- the initial dictionary size is monotone in the block size (as long as `uint32(count / 128)` does not wrap) -/
theorem dictSizeFor_mono (count n : Nat) (h : count ≤ n) (hn : n < 2 ^ 39) : dictSizeFor count ≤ dictSizeFor n := by
  have e39 : (2 : Nat) ^ 39 = 549755813888 := by decide
  have e32 : (2 : Nat) ^ 32 = 4294967296 := by decide
  by_cases c : count ≥ 1024
  · unfold dictSizeFor
    rw [if_pos c, if_pos (by omega), Nat.one_shiftLeft, Nat.one_shiftLeft]
    apply Nat.pow_le_pow_right (by decide)
    have ha : 0 < count / 128 := by omega
    have hb : n / 128 < 2 ^ 32 := by omega
    have hab : count / 128 ≤ n / 128 := Nat.div_le_div_right h
    unfold log2u32
    rw [Nat.mod_eq_of_lt (by omega), Nat.mod_eq_of_lt hb, if_neg (by omega), if_neg (by omega)]
    have := log2NoCheck_mono (count / 128) (n / 128) ha hab hb
    omega
  · have h1 : dictSizeFor count = 1 <<< 13 := by unfold dictSizeFor; rw [if_neg c]
    rw [h1]
    exact dictSizeFor_ge n

end Kanzi.Text
