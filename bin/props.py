"""Per-property configuration of bin/check: theorems (proof obligations), correspondence /
search streams, fact bases, trusted base.  MANIFEST.json is generated from this (bin/mkmanifest)."""

def T(module, *names, partial=False):
    return [{"module": module, "name": n, "partial": partial} for n in names]

PROPS = {}

PROPS["C16"] = {
    "title": "Frequency scaling always yields a valid table",
    "design_ref": "5.16",
    "level": "proof",
    "technique": "Lean 4 theorem (all histograms, all scales) over a hand-written model of NormalizeFrequencies + differential correspondence model<->Go",
    "theorems": T("Kanzi.Properties.C16", "Kanzi.C16.C16_normalize", "Kanzi.C16.C16_errors", "Kanzi.C16.C16_no_overflow"),
    "streams": [{"name": "norm", "kmodel": "norm"}],
    "level_text": "PROOF: for every histogram over <=256 symbols with positive total and every scale in [256,65536] the model of NormalizeFrequencies returns a table that sums to scale, preserves the support and lists it in increasing order (Lean theorem C16_normalize, no bound on counts). The model is tied to the Go function on every run by the `norm` correspondence (tens of thousands of histograms incl. exhaustive small families; outputs compared entry by entry) and the property oracle is evaluated on the real function for each of them.",
    "level_note": "Trusted: Lean kernel (axioms propext/Classical.choice/Quot.sound), the transcription of the Go function into Kanzi/Model/Normalize.lean as checked by the differential stream (generator-bounded), caller contract totalFreq = sum(freqs) (inputs violating it are outside the model and refused with `pre`).",
    "assumptions": ["caller passes totalFreq = sum of freqs (true at all three call sites)", "Go int is 64-bit (C16_no_overflow bounds intermediates below 2^63 for totals < 2^31)"],
}

HOOK_COMMITS = ["a321cbc"]

# properties not (yet) claimed: reason shown in MANIFEST.not_applicable
NOT_APPLICABLE = {}
