/-
Generic block codec: `encodingTask.encode` (from "Compute block checksum" to `obs.Close()`) and
`decodingTask.decode` (from "Create a bitstream local to the task" to the checksum comparison) of
/repo/v2/io/CompressedStream.go, for an ARBITRARY transform sequence and an ARBITRARY entropy codec,
and the byte image of a whole stream built from it.  Core Lean only.

`Kanzi/Model/Block.lean` is the special case transform NONE + entropy NONE
(`Kanzi.BlockGen.encodeTaskGen_none` / `decodeTaskGen_none` in `Proofs/BlockGenNone.lean`).

Parameters of the model

  * `Tr`  — a `kanzi.ByteTransform` given by its model functions `fwd src len(dst)`, `inv src len(dst)`
    (`.ok out` = `dst[0:written]` with a nil error, `.error _` = any error: forward "declined", inverse
    "failed") and `maxLen` = `MaxEncodedLen`.  The sequence is the `TrSmall` model of
    `ByteTransformSequence` (`seqForward`, `seqInverse`, `seqMaxEncodedLen`, skip flags, `encodeMode`).
    Destination sizes: `ByteTransformSequence.Forward` hands every stage an output slice of AT LEAST
    `requiredSize = MaxEncodedLen(len(src))` bytes (exactly that for a stage reached after an odd number
    of swaps, `len(oBuffer.Buf) ≥ requiredSize` otherwise); the model uses `requiredSize`.
    `ByteTransformSequence.Inverse` hands every stage an output slice of `max(len(dst),
    MaxEncodedLen(len(dst)))` bytes (more only when the input of the stage is itself longer than that,
    which a valid stream never produces); the model uses that value, with `len(dst) = len(data) =
    max(frame bytes, task block length)` (a buffer kept from an earlier, bigger frame can only be
    longer).  For the modelled transforms the results do not depend on the destination size beyond
    these minima (`Kanzi.BlockGen.small_fwd_dst_indep`).
  * `Ent` — an entropy codec: `enc block` = all the bits the encoder object writes (`Write` then
    `Dispose`), `none` = `Write` returned an error; `dec count bits` = `Read(buffer[0:count])`:
    the decoded bytes and the unread bits, `none` = error or the local bitstream ran out of bits.
    If a decoder returns fewer than `count` bytes without error (ANS with an empty alphabet in a
    forged stream) the Go code goes on with whatever the reused buffer holds; the model pads with 0.
  * `skipBlocks` — the option `ctx["skipBlocks"]`; the decision itself (`IsDataCompressed(GetMagicType)`
    or first-order entropy ≥ 973/1024) is modelled: `skipDecision`.

Fix F43 (/repo dfafae0): when `MaxEncodedLen` of the sequence AND the transformed block exceed the decoder's
bound on the pre-transform length (`maxLengthOf`: `maxTransformLength` of the block size stored in the ctx,
`Cfg.bs`), the block is handed to the entropy coder untransformed with every stage flagged as skipped
(`fallback`).  For NONE / ZRLT / MTFT / RANK the branch is never taken on blocks of at most `blockSize`
bytes (no stage expands); it is there because the model is generic.

Payload of one block (bits, MSB first):

    mode 8 | [skipFlags 8, when mode&0x10] | length 8·dataSize | [checksum 32|64] | entropy coded data

Forged streams (the `imggx` ops of the `imagegen` stream compare the model's reader with the real one
on damaged streams): the model follows the Go code through every error exit, with two stated limits —
(i) an entropy decoder that returns fewer bytes than asked WITHOUT an error (order-0 ANS with an empty
alphabet) leaves the rest of the reused buffer as it was; the model pads with 0, and the stream reports
that condition instead of the result; (ii) buffers kept from earlier blocks can only be longer than
the sizes used here.  A block that decodes to zero bytes without error ends the stream silently
(`Stop.emptyBlock`), as in the Go `Read`.

`obs.Close()` pads the task-local buffer to a byte, but `obs.Written()` — the frame length — counts
the bits written, so the payload is not padded; `decode` copies the frame into a byte array
(`padToByte`).
-/
import Kanzi.Model.Block
import Kanzi.Model.TrSmall
import Kanzi.Model.EntSmall

namespace Kanzi.BlockGen
open Kanzi.Bits Kanzi.TrSmall Kanzi.Block

/-! ### parameters -/

/-- a `kanzi.ByteTransform`: `fwd src dstLen`, `inv src dstLen`, `MaxEncodedLen` -/
structure Tr where
  fwd : List Nat → Nat → Res
  inv : List Nat → Nat → Res
  maxLen : Nat → Nat

/-- the transform seen by the sequence model, forward destination `req`, inverse destination `n` -/
def Tr.stage (t : Tr) (req n : Nat) : Stage :=
  ⟨fun x => t.fwd x req, fun y => t.inv y n, t.maxLen⟩

def stagesOf (trs : List Tr) (req n : Nat) : List Stage := trs.map (fun t => t.stage req n)

/-- Go: `ByteTransformSequence.MaxEncodedLen` -/
def seqMaxLen (trs : List Tr) (len : Nat) : Nat := seqMaxEncodedLen (stagesOf trs 0 0) len

/-- an entropy codec -/
structure Ent where
  enc : List Nat → Option Bits
  dec : Nat → Bits → Option (List Nat × Bits)

/-- `transform.NullTransform`, `ZRLT`, `SBRT` (mode 1 = MTFT, 2 = RANK) -/
def nullTr : Tr := ⟨nullForward, nullInverse, nullMaxEncodedLen⟩
def zrltTr : Tr := ⟨zrltForward, zrltInverse, zrltMaxEncodedLen⟩
def sbrtTr (mode : Nat) : Tr := ⟨sbrtForward mode, sbrtInverse mode, sbrtMaxEncodedLen⟩

/-- `entropy.NullEntropyEncoder` / `NullEntropyDecoder` (`Dispose` writes nothing) -/
def noneEnt : Ent := ⟨fun b => some (EntSmall.nullEncode b), fun n bs => EntSmall.nullDecode bs n⟩

/-- `_DEFAULT_ANS0_CHUNK_SIZE`, `_DEFAULT_ANS_LOG_RANGE`: what `NewEntropyEncoder(…, ANS0_TYPE)` uses -/
def ans0Chunk : Nat := 16384
def ans0LogRange : Nat := 12

/-- Go: `decodeChunkV2` reads the payload of a chunk into `this.buffer`, which has
`max(2*len(chunk), 256)` bytes (more if an earlier chunk of the same block was longer): a declared
payload size above the buffer length makes `ReadArray` index past the buffer — a panic, recovered into
ERR_PROCESS_BLOCK.  `EntSmall.ans0DecodeChunk` reads the declared number of bytes without that bound;
this wrapper adds it (`buf` = buffer length).  The other failures (VarInt, size ≥ 2^27, missing bits)
are those of `ans0DecodeChunk`. -/
def ans0ChunkB (tbl : Array (Nat × EntSmall.DecSym)) (lr len buf : Nat) (bs : Bits) : Option (List Nat × Bits) :=
  match EntSmall.readVarInt bs with
  | none => none
  | some szr => if len ≠ 0 ∧ szr.1 > buf then none else EntSmall.ans0DecodeChunk tbl lr len bs

/-- `EntSmall.ans0DecodeChunks` (the chunk loop of `ANSRangeDecoder.Read`) with the buffer bound -/
def ans0DecodeChunksB : Nat → Nat → Nat → Nat → Bits → Option (List Nat × Bits)
  | 0, _, _, _, bs => some ([], bs)
  | fuel + 1, chunkSize, buf, count, bs =>
    if count = 0 then some ([], bs)
    else
      match EntSmall.ansDecodeHeader bs with
      | none => none
      | some hr =>
        if hr.1.1.length = 0 then some ([], hr.2)
        else
          match (if hr.1.1.length = 1 then some (List.replicate (min chunkSize count) (hr.1.1.headD 0), hr.2)
                 else ans0ChunkB (EntSmall.mkDecTable hr.1.2.1 hr.1.2.2) hr.1.2.2 (min chunkSize count) buf hr.2) with
          | none => none
          | some cr =>
            match ans0DecodeChunksB fuel chunkSize buf (count - min chunkSize count) cr.2 with
            | none => none
            | some tr => some (cr.1 ++ tr.1, tr.2)

/-- Go: `ANSRangeDecoder.Read(block)` for order 0, `len(block) = count`; the decoder object is new for
every block, so its buffer is sized by the first (longest) chunk -/
def ans0DecodeB (bs : Bits) (count chunkSize : Nat) : Option (List Nat × Bits) :=
  if count ≤ 32 then EntSmall.readBytes count bs
  else ans0DecodeChunksB count chunkSize (max (2 * min chunkSize count) 256) count bs

/-- `entropy.ANSRangeEncoder` / `ANSRangeDecoder`, order 0, as built by the factory (`Dispose` is empty) -/
def ans0Ent : Ent :=
  ⟨fun b => EntSmall.ans0Encode b ans0Chunk ans0LogRange, fun n bs => ans0DecodeB bs n ans0Chunk⟩

/-! ### the `skipBlocks` decision (internal/Magic.go, internal/Global.go) -/

/-- Go: `binary.BigEndian.Uint32(src)` -/
def be32 (src : List Nat) : Nat :=
  (src.getD 0 0 % 256) * 16777216 + (src.getD 1 0 % 256) * 65536 + (src.getD 2 0 % 256) * 256 + src.getD 3 0 % 256

def keys32 : List Nat :=
  [0x47494638, 0x25504446, 0x504B0304, 0x377ABCAF, 0x89504E47, 0x7F454C46, 0xFEEDFACE, 0xCEFAEDFE,
   0xFEEDFACF, 0xCFFAEDFE, 0x28B52FFD, 0x81CFB2CE, 0x4D534346, 0x52494646, 0x664C6143, 0xFD377A58,
   0x4B414E5A, 0x52617221]

def keys16 : List Nat := [0x1F8B, 0x424D, 0x4D5A]

/-- Go: `internal.GetMagicType` -/
def magicType (src : List Nat) : Nat :=
  if src.length < 4 then 0
  else
    let key := be32 src
    if key / 16 * 16 = 0xFFD8FFE0 then key
    else if key >>> 8 = 0x425A68 ∨ key >>> 8 = 0x494433 then key >>> 8
    else if keys32.contains key then key
    else if keys16.contains (key >>> 16) then key >>> 16
    else if (key >>> 16 = 0x5034 ∨ key >>> 16 = 0x5035 ∨ key >>> 16 = 0x5036) ∧
        (((key >>> 8) &&& 0xFF) = 0x07 ∨ ((key >>> 8) &&& 0xFF) = 0x0A ∨ ((key >>> 8) &&& 0xFF) = 0x0D ∨
          ((key >>> 8) &&& 0xFF) = 0x20) then key >>> 16
    else 0

/-- Go: `internal.IsDataCompressed` -/
def isDataCompressed (magic : Nat) : Bool :=
  [0xFFD8FFE0, 0x47494638, 0x89504E47, 0x377ABCAF, 0x28B52FFD, 0x81CFB2CE, 0x4D534346, 0x504B0304,
   0x1F8B, 0x425A68, 0x664C6143, 0x494433, 0xFD377A58, 0x4B414E5A, 0x52617221].contains magic

/-- Go: `internal.LOG2_4096` -/
def log2_4096 : Array Nat := #[
  0, 0, 4096, 6492, 8192, 9511, 10588, 11499, 12288, 12984,
  13607, 14170, 14684, 15157, 15595, 16003, 16384, 16742, 17080, 17400,
  17703, 17991, 18266, 18529, 18780, 19021, 19253, 19476, 19691, 19898,
  20099, 20292, 20480, 20662, 20838, 21010, 21176, 21338, 21496, 21649,
  21799, 21945, 22087, 22226, 22362, 22495, 22625, 22752, 22876, 22998,
  23117, 23234, 23349, 23462, 23572, 23680, 23787, 23892, 23994, 24095,
  24195, 24292, 24388, 24483, 24576, 24668, 24758, 24847, 24934, 25021,
  25106, 25189, 25272, 25354, 25434, 25513, 25592, 25669, 25745, 25820,
  25895, 25968, 26041, 26112, 26183, 26253, 26322, 26390, 26458, 26525,
  26591, 26656, 26721, 26784, 26848, 26910, 26972, 27033, 27094, 27154,
  27213, 27272, 27330, 27388, 27445, 27502, 27558, 27613, 27668, 27722,
  27776, 27830, 27883, 27935, 27988, 28039, 28090, 28141, 28191, 28241,
  28291, 28340, 28388, 28437, 28484, 28532, 28579, 28626, 28672, 28718,
  28764, 28809, 28854, 28898, 28943, 28987, 29030, 29074, 29117, 29159,
  29202, 29244, 29285, 29327, 29368, 29409, 29450, 29490, 29530, 29570,
  29609, 29649, 29688, 29726, 29765, 29803, 29841, 29879, 29916, 29954,
  29991, 30027, 30064, 30100, 30137, 30172, 30208, 30244, 30279, 30314,
  30349, 30384, 30418, 30452, 30486, 30520, 30554, 30587, 30621, 30654,
  30687, 30719, 30752, 30784, 30817, 30849, 30880, 30912, 30944, 30975,
  31006, 31037, 31068, 31099, 31129, 31160, 31190, 31220, 31250, 31280,
  31309, 31339, 31368, 31397, 31426, 31455, 31484, 31513, 31541, 31569,
  31598, 31626, 31654, 31681, 31709, 31737, 31764, 31791, 31818, 31846,
  31872, 31899, 31926, 31952, 31979, 32005, 32031, 32058, 32084, 32109,
  32135, 32161, 32186, 32212, 32237, 32262, 32287, 32312, 32337, 32362,
  32387, 32411, 32436, 32460, 32484, 32508, 32533, 32557, 32580, 32604,
  32628, 32651, 32675, 32698, 32722, 32745, 32768]

/-- Go: `internal.Log2ScaledBy1024(x)` for `0 < x < 2^32` (the error for 0 is ignored by the caller,
which never passes 0) -/
def log2Scaled1024 (x : Nat) : Nat :=
  if x < 256 then (log2_4096.getD x 0 + 2) >>> 2
  else if x &&& (x - 1) = 0 then Nat.log2 x <<< 10
  else (Nat.log2 x - 7) * 1024 + ((log2_4096.getD (x >>> (Nat.log2 x - 7)) 0 + 2) >>> 2)

/-- Go: `internal.ComputeFirstOrderEntropy1024(blockLen, histo)`; `logLength1024-log1024` is a
`uint32` subtraction -/
def entropy1024 (blockLen : Nat) (histo : List Nat) : Nat :=
  if blockLen = 0 then 0
  else
    (histo.foldl (fun sum h =>
      if h = 0 then sum
      else sum + ((h * ((log2Scaled1024 (blockLen % 2 ^ 32) + 2 ^ 32 - log2Scaled1024 (h % 2 ^ 32)) % 2 ^ 32)) >>> 3)) 0)
      / blockLen

/-- `entropy.INCOMPRESSIBLE_THRESHOLD` -/
def incompressibleThreshold : Nat := 973

/-- Go: the `skip` variable of `encode` for a block of more than 15 bytes when the option is on -/
def skipDecision (data : List Nat) : Bool :=
  (decide (data.length ≥ 8) && isDataCompressed (magicType data)) ||
    decide (entropy1024 data.length (EntSmall.histogram data) ≥ incompressibleThreshold)

/-! ### encoder -/

structure Cfg where
  /-- checksum width in bits: 0, 32, 64 -/
  ck : Nat
  /-- the sequence `transform.New` builds for the stream's transform type (1 to 8 transforms) -/
  trs : List Tr
  ent : Ent
  /-- `ctx["skipBlocks"]` present and true (encoder only) -/
  skipBlocks : Bool
  /-- `ctx["blockSize"]` when it is a `uint` (it is for every Writer: `NewWriter` stores its argument,
  `NewWriterWithCtx` rejects anything else): the block size of the stream, which bounds the
  post-transform length (encoder only, fix F43); `none` = no such entry: the bound is 2^30 -/
  bs : Option Nat

inductive EncErr where
  | panic      -- `Log2NoCheck(0)`: the post-transform length is a non-zero multiple of 2^32 (ERR_PROCESS_BLOCK)
  | length     -- "Invalid block data length" (ERR_WRITE_FILE)
  | entropy    -- the entropy encoder's `Write` failed (ERR_PROCESS_BLOCK)
deriving DecidableEq, Repr

/-- Go: `this.blockLength <= _SMALL_BLOCK_SIZE`, or the `skipBlocks` branch decided to skip -/
def isCopy (c : Cfg) (data : List Nat) : Bool :=
  decide (data.length ≤ 15) || (c.skipBlocks && skipDecision data)

/-- Go: `dataSize` for a post-transform length `post`: 1, or `Log2NoCheck(uint32(post))>>3 + 1` when
`post ≥ 256` (callers exclude `post ≥ 256 ∧ uint32(post) = 0`, where `Log2NoCheck` panics) -/
def dataSizeGen (post : Nat) : Nat := if post < 256 then 1 else Nat.log2 (post % 2 ^ 32) / 8 + 1

/-- the stages as `ByteTransformSequence.Forward` runs them on a block of `len` bytes -/
def fwdStages (trs : List Tr) (len : Nat) : List Stage := stagesOf trs (seqMaxLen trs len) 0

/-- optional extra skip-flag byte -/
def extraBits : Option Nat → Bits
  | none => []
  | some x => natBits x 8

/-- Go (fix F43, /repo dfafae0): `maxLength` = `maxTransformedLength(ctx["blockSize"])` when that entry is a
`uint` (`maxTransformedLength` is the decoder's `maxTransformLength`), else `_MAX_BITSTREAM_BLOCK_SIZE` -/
def maxLengthOf (lim : Option Nat) : Nat :=
  match lim with
  | some bs => maxTransformLength bs
  | none => 2 ^ 30

/-- Go (fix F43): before `t.Forward`, `if requiredSize > maxLength { savedBlock = copy of the block }`
(`requiredSize` = `MaxEncodedLen` of the sequence; the sequence uses the input buffer as scratch area);
after it, `if savedBlock != nil && postTransformLength > maxLength` — the transforms expanded the block
beyond what a decoder accepts: the block is stored untransformed, `copy(buffer, savedBlock)`, and every
stage is flagged as skipped, `t.SetSkipFlags(0xFF)`.  `f` = (output, skip flags) of `Forward`. -/
def fallback (lim : Option Nat) (req : Nat) (data : List Nat) (f : List Nat × Nat) : List Nat × Nat :=
  if req > maxLengthOf lim ∧ f.1.length > maxLengthOf lim then (data, 0xFF) else f

/-- the payload for the block `f.1` handed to the entropy coder with the skip flags `f.2` of a sequence
of `n` transforms (`copy` = the COPY mask is set) and the value `sum` of the checksum field -/
def encodeOf (copy : Bool) (n : Nat) (ent : Ent) (ckw sum : Nat) (f : List Nat × Nat) : Except EncErr Bits :=
  let post := f.1.length
  if post ≥ 256 ∧ post % 2 ^ 32 = 0 then .error .panic
  else if dataSizeGen post > 4 then .error .length
  else
    let mode0 := (if copy then 0x80 else 0) ||| (((dataSizeGen post - 1) &&& 3) <<< 5)
    let em := encodeMode mode0 f.2 n
    match ent.enc f.1 with
    | none => .error .entropy
    | some e =>
      .ok (natBits em.1 8 ++ extraBits em.2 ++ natBits post (8 * dataSizeGen post) ++ natBits sum ckw ++ e)

/-- the payload, given the sequence and the codec actually used for this block (`copy` = the COPY
mask is set: NONE/NONE forced), the value `sum` of the checksum field and `lim` = `ctx["blockSize"]` -/
def encodeWith (copy : Bool) (trs : List Tr) (ent : Ent) (ckw sum : Nat) (lim : Option Nat) (data : List Nat) :
    Except EncErr Bits :=
  encodeOf copy trs.length ent ckw sum
    (fallback lim (seqMaxLen trs data.length) data (seqForward (fwdStages trs data.length) data))

/-- Go: `encodingTask.encode` from "Compute block checksum" to `obs.Close()`: what is in the
task-local bitstream (`obs.Written()` bits) -/
def encodeTaskGen (c : Cfg) (data : List Nat) : Except EncErr Bits :=
  if isCopy c data then encodeWith true [nullTr] noneEnt (ckWidth c.ck) (checksum c.ck data) c.bs data
  else encodeWith false c.trs c.ent (ckWidth c.ck) (checksum c.ck data) c.bs data

/-- the payload as a total function of the block (`[]` when the task fails): what the Writer model
charges for the block (`Writer.Cfg.frameBits`) -/
def payloadOf (c : Cfg) (data : List Nat) : Bits :=
  match encodeTaskGen c data with
  | .ok p => p
  | .error _ => []

/-- Go: bits of one frame in the shared stream for this block: 5 + lw + payload -/
def frameBitsGen (c : Cfg) (data : List Nat) : Nat := (Container.frameBits (payloadOf c data)).length

/-! ### decoder -/

inductive Err where
  | eos        -- the task-local bitstream ran out of bits in the prologue (panic recovered: ERR_PROCESS_BLOCK)
  | size       -- "Invalid compressed block size" (ERR_BLOCK_SIZE)
  | entropy    -- the entropy decoder failed or ran out of bits (ERR_PROCESS_BLOCK)
  | inverse    -- an inverse transform failed / "Inverse transform sequence failed" (ERR_PROCESS_BLOCK)
  | crc        -- "Corrupted bitstream: expected checksum …" (ERR_CRC_CHECK)
deriving DecidableEq, Repr

structure DecRes where
  decoded : Nat
  out : Except Err (List Nat)

def DecRes.fail (e : Err) : DecRes := ⟨0, .error e⟩

/-- Go: `buffer[0:preTransformLength]` after `ed.Read`: bytes the decoder did not write are whatever
the buffer held (modelled as 0) -/
def padZero (n : Nat) (l : List Nat) : List Nat := l ++ List.replicate (n - l.length) 0

/-- Go: `len(data)` after "if len(data) < maxL": at least the frame bytes and the task block length -/
def decDstLen (B : Nat) (payload : Bits) : Nat := max ((payload.length + 7) / 8) (taskBlockLength B)

/-- the stages as `ByteTransformSequence.Inverse` runs them into a destination of `dstLen` bytes -/
def invStages (trs : List Tr) (dstLen : Nat) : List Stage := stagesOf trs 0 (max dstLen (seqMaxLen trs dstLen))

/-- the part of `decode` after the checksum field, with the sequence and the codec of this block -/
def decodeBody (trs : List Tr) (ent : Ent) (ck flags pre sum dstLen : Nat) (bs : Bits) : DecRes :=
  match ent.dec pre bs with
  | none => .fail .entropy
  | some d =>
    match seqInverse (invStages trs dstLen) flags (padZero pre d.1) with
    | .error _ => .fail .inverse
    | .ok out =>
      if out.length > dstLen then .fail .inverse
      else if ckWidth ck ≠ 0 ∧ checksum ck out ≠ sum then ⟨out.length, .error .crc⟩
      else ⟨out.length, .ok out⟩

/-- Go: `decodingTask.decode` from "Create a bitstream local to the task" on.  `c` describes the
stream (header), `B` = block size of the header. -/
def decodeTaskGen (c : Cfg) (B : Nat) (payload : Bits) : DecRes :=
  match readBits 8 (padToByte payload) with
  | .error _ => .fail .eos
  | .ok m =>
    let mode := m.1
    -- skip flags: none for a copy block, an extra byte when mode&0x10, else the low nibble
    match (if mode &&& 0x80 ≠ 0 then Except.ok (0, m.2)
           else if mode &&& 0x10 ≠ 0 then readBits 8 m.2
           else Except.ok (((mode <<< 4) ||| 0x0F) % 256, m.2)) with
    | .error _ => .fail .eos
    | .ok sf =>
      match readBits (8 * (1 + ((mode >>> 5) &&& 3))) sf.2 with
      | .error _ => .fail .eos
      | .ok l =>
        if l.1 = 0 ∨ l.1 > maxTransformLength B then .fail .size
        else
          match readBits (ckWidth c.ck) l.2 with
          | .error _ => .fail .eos
          | .ok s =>
            if mode &&& 0x80 ≠ 0 then
              decodeBody [nullTr] noneEnt c.ck sf.1 l.1 s.1 (decDstLen B payload) s.2
            else
              decodeBody c.trs c.ent c.ck sf.1 l.1 s.1 (decDstLen B payload) s.2

/-! ### the sequence and the codec announced by a header -/

/-- Go: `transform.newToken` for the modelled types; `none` = not modelled -/
def tokenTr (t : Nat) : Option Tr :=
  if t = 0 then some nullTr
  else if t = 6 then some zrltTr
  else if t = 7 then some (sbrtTr 1)
  else if t = 8 then some (sbrtTr 2)
  else none

/-- Go: the slots `transform.New` instantiates: `nbtr` = number of non-NONE slots (1 if there is none);
slot `i < nbtr` is instantiated when it is not NONE or `i = 0` (nil entries are dropped by
`NewByteTransformSequence`) -/
def seqTokens (ft : Nat) : List Nat :=
  let nb := ((List.range 8).filter (fun i => Header.slot ft i ≠ 0)).length
  ((List.range (if nb = 0 then 1 else nb)).filter (fun i => Header.slot ft i ≠ 0 ∨ i = 0)).map (Header.slot ft)

/-- Go: `transform.New(ctx, functionType)`; `none` = a transform that is not modelled -/
def newSeq (ft : Nat) : Option (List Tr) := (seqTokens ft).mapM tokenTr

/-- Go: `entropy.NewEntropyEncoder/Decoder` for NONE (0) and ANS0 (5); `none` = not modelled -/
def entOf (e : Nat) : Option Ent :=
  if e = 0 then some noneEnt else if e = 5 then some ans0Ent else none

def cfgOfHeader (h : Header.Header) (skipBlocks : Bool) : Option Cfg :=
  match newSeq h.transformType, entOf h.entropyType with
  | some trs, some ent => some ⟨32 * h.ckSize, trs, ent, skipBlocks, some h.blockSize⟩
  | _, _ => none

/-! ### whole stream -/

/-- the payloads of the blocks, in order; the first error stops the Writer -/
def encodeBlocks (c : Cfg) : List (List Nat) → Except EncErr (List Bits)
  | [] => .ok []
  | b :: bs =>
    match encodeTaskGen c b with
    | .error e => .error e
    | .ok p =>
      match encodeBlocks c bs with
      | .error e => .error e
      | .ok ps => .ok (p :: ps)

/-- the bits handed to the shared bitstream: header, one frame per payload, end marker -/
def streamBitsOf (h : Header.Header) (payloads : List Bits) : Bits :=
  Header.headerBits h ++ payloads.flatMap Container.frameBits ++ Container.endMarker

/-- the bytes at the sink after `Close` -/
def streamImageGen (h : Header.Header) (c : Cfg) (blocks : List (List Nat)) : Except EncErr (List Nat) :=
  match encodeBlocks c blocks with
  | .error e => .error e
  | .ok ps => .ok (packBytes (streamBitsOf h ps))

/-- the same with `packFast` (what the driver prints; equal by `Kanzi.Block.packFast_eq`) -/
def streamImageGenFast (h : Header.Header) (c : Cfg) (blocks : List (List Nat)) : Except EncErr (List Nat) :=
  match encodeBlocks c blocks with
  | .error e => .error e
  | .ok ps => .ok (packFast (streamBitsOf h ps))

inductive Stop where
  | endOfStream
  | header (e : Header.Err)
  | unsupported                 -- the header announces a transform or an entropy codec that is not modelled
  | truncated
  | frameSize
  | block (e : Err)
  | oversize
  | emptyBlock                  -- a block decoded to ZERO bytes without error: `Read` takes "nothing available" for the end of the stream (no error, the rest is never read)
deriving DecidableEq, Repr

/-- Go: one decoding task after the other (jobs = 1) over the parsed frames, with the checks of the
result loop of `(*Reader).processBlock`, and the test `available == 0` of `Read` after it: a task that
decodes zero bytes without error (possible on forged streams: e.g. a ZRLT inverse that produces nothing)
cancels the others and ends the stream silently -/
def decodeFrames (c : Cfg) (B : Nat) : List Container.Item → List (List Nat) × Stop
  | [] => ([], .truncated)
  | .endMark :: _ => ([], .endOfStream)
  | .truncated :: _ => ([], .truncated)
  | .tooBig :: _ => ([], .frameSize)
  | .payload p :: rest =>
    let r := decodeTaskGen c B p
    if r.decoded > B then ([], .oversize)
    else match r.out with
      | .error e => ([], .block e)
      | .ok d =>
        if r.decoded = 0 then ([], .emptyBlock)
        else
          let t := decodeFrames c B rest
          (d :: t.1, t.2)

/-- read a whole stream from its bytes: header, frames (`Block.parseFrames`: with the
`maxFrameLength` bound), blocks -/
def parseImageGen (bytes : List Nat) : Option Header.Header × List (List Nat) × Stop :=
  match Header.parseHeader (ofBytes bytes) with
  | .error e => (none, [], .header e)
  | .ok hr =>
    match cfgOfHeader hr.1 false with
    | none => (some hr.1, [], .unsupported)
    | some c =>
      let r := decodeFrames c hr.1.blockSize (parseFrames hr.1.blockSize (hr.2.length + 1) hr.2)
      (some hr.1, r.1, r.2)

end Kanzi.BlockGen
