/-
Proofs for the Huffman codec, part 3a: `computeInPlaceSizesPhase1`.  Whatever the weights are,
after phase 1 the first `n-2` entries are parent pointers of a binary tree: `j < data[j] ≤ n-2`,
non decreasing, and no value occurs more than twice (`data[j] < data[j+2]`).
-/
import Kanzi.Model.Huffman
import Kanzi.Proofs.Normalize

namespace Kanzi.Huffman
open Kanzi.Normalize (getD_set)

/-- the parent pointers written so far: entries `[0, r)`; all but the last `c` are `< t`, all are `≤ t` -/
structure PickInv (n t c : Nat) (p : P1) : Prop where
  len : p.data.length = n
  cnt : p.r + p.s = 2 * t + c
  rle : p.r ≤ t
  sle : p.s ≤ n
  par : ∀ j, j < p.r → j < p.data.getD j 0 ∧ p.data.getD j 0 ≤ t
  mono : ∀ j, j + 1 < p.r → p.data.getD j 0 ≤ p.data.getD (j + 1) 0
  two : ∀ j, j + 2 < p.r → p.data.getD j 0 < p.data.getD (j + 2) 0
  old : ∀ j, j + c < p.r → p.data.getD j 0 < t

theorem pick_inv (n t c : Nat) (p : P1) (ht : t + 2 ≤ n) (hc : c ≤ 1) (h : PickInv n t c p) :
    PickInv n t (c + 1) (pick n t p) := by
  obtain ⟨hlen, hcnt, hrle, hsle, hpar, hmono, htwo, hold⟩ := h
  unfold pick
  split
  · rename_i hcond
    -- take the internal node `r`
    have hrt : p.r < t := by
      rcases hcond with h1 | h1
      · omega
      · exact h1.1
    have hrn : p.r < p.data.length := by omega
    refine ⟨by simp [hlen], by simp only; omega, by simp only; omega, hsle, ?_, ?_, ?_, ?_⟩
    · intro j hj
      simp only at hj ⊢
      rw [getD_set]
      by_cases hjr : j = p.r
      · rw [if_pos ⟨hjr, hrn⟩]; omega
      · rw [if_neg (fun hh => hjr hh.1)]; exact hpar j (by omega)
    · intro j hj
      simp only at hj ⊢
      rw [getD_set, getD_set]
      rw [if_neg (fun hh => by omega)]
      by_cases hjr : j + 1 = p.r
      · rw [if_pos ⟨hjr, hrn⟩]
        exact (hpar j (by omega)).2
      · rw [if_neg (fun hh => hjr hh.1)]
        exact hmono j (by omega)
    · intro j hj
      simp only at hj ⊢
      rw [getD_set, getD_set]
      rw [if_neg (fun hh => by omega)]
      by_cases hjr : j + 2 = p.r
      · rw [if_pos ⟨hjr, hrn⟩]
        exact hold j (by omega)
      · rw [if_neg (fun hh => hjr hh.1)]
        exact htwo j (by omega)
    · intro j hj
      simp only at hj ⊢
      rw [getD_set, if_neg (fun hh => by omega)]
      exact hold j (by omega)
  · rename_i hcond
    -- take the leaf `s`
    have hsn : p.s < n := by
      by_cases h1 : p.s ≥ n
      · exact absurd (Or.inl h1) hcond
      · omega
    have hframe : ∀ j, j < p.r →
        (if p.s > t then p.data.set p.s 0 else p.data).getD j 0 = p.data.getD j 0 := by
      intro j hj
      split
      · rw [getD_set, if_neg (fun hh => by omega)]
      · rfl
    refine ⟨?_, by simp only; omega, hrle, by simp only; omega, ?_, ?_, ?_, ?_⟩
    · simp only; split <;> simp [hlen]
    · intro j hj
      simp only at hj ⊢
      rw [hframe j hj]; exact hpar j hj
    · intro j hj
      simp only at hj ⊢
      rw [hframe j (by omega), hframe (j + 1) hj]; exact hmono j hj
    · intro j hj
      simp only at hj ⊢
      rw [hframe j (by omega), hframe (j + 2) hj]; exact htwo j hj
    · intro j hj
      simp only at hj ⊢
      rw [hframe j (by omega)]; exact hold j (by omega)

/-- the loop invariant at the head of round `t` -/
structure HeadInv (n t : Nat) (data : List Nat) (s r : Nat) : Prop where
  len : data.length = n
  cnt : r + s = 2 * t
  rle : r ≤ t
  sle : s ≤ n
  par : ∀ j, j < r → j < data.getD j 0 ∧ data.getD j 0 < t
  mono : ∀ j, j + 1 < r → data.getD j 0 ≤ data.getD (j + 1) 0
  two : ∀ j, j + 2 < r → data.getD j 0 < data.getD (j + 2) 0

theorem round_inv (n t : Nat) (data : List Nat) (s r : Nat) (ht : t + 2 ≤ n) (h : HeadInv n t data s r) :
    HeadInv n (t + 1)
      ((pick n t (pick n t ⟨data, s, r, 0⟩)).data.set t (pick n t (pick n t ⟨data, s, r, 0⟩)).sum)
      (pick n t (pick n t ⟨data, s, r, 0⟩)).s (pick n t (pick n t ⟨data, s, r, 0⟩)).r := by
  have h0 : PickInv n t 0 ⟨data, s, r, 0⟩ :=
    ⟨h.len, h.cnt, h.rle, h.sle, fun j hj => ⟨(h.par j hj).1, Nat.le_of_lt (h.par j hj).2⟩, h.mono, h.two,
     fun j hj => (h.par j (by simpa using hj)).2⟩
  have h2 := pick_inv n t 1 _ ht (Nat.le_refl _) (pick_inv n t 0 _ ht (by omega) h0)
  generalize pick n t (pick n t ⟨data, s, r, 0⟩) = p at h2
  obtain ⟨hlen, hcnt, hrle, hsle, hpar, hmono, htwo, _⟩ := h2
  have hframe : ∀ j, j < p.r → (p.data.set t p.sum).getD j 0 = p.data.getD j 0 := by
    intro j hj
    rw [getD_set, if_neg (fun hh => by omega)]
  refine ⟨by simp [hlen], by omega, by omega, hsle, ?_, ?_, ?_⟩
  · intro j hj
    rw [hframe j hj]
    have := hpar j hj
    omega
  · intro j hj
    rw [hframe j (by omega), hframe (j + 1) hj]; exact hmono j hj
  · intro j hj
    rw [hframe j (by omega), hframe (j + 2) hj]; exact htwo j hj

theorem phase1Loop_inv : ∀ (k n t : Nat) (data : List Nat) (s r : Nat), t + k + 1 = n →
    HeadInv n t data s r →
    ∃ s' r', HeadInv n (n - 1) (phase1Loop k n t data s r) s' r' := by
  intro k
  induction k with
  | zero =>
    intro n t data s r hk h
    refine ⟨s, r, ?_⟩
    simp only [phase1Loop]
    have : n - 1 = t := by omega
    rw [this]; exact h
  | succ k ih =>
    intro n t data s r hk h
    simp only [phase1Loop]
    exact ih n (t + 1) _ _ _ (by omega) (round_inv n t data s r (by omega) h)

/-- **phase 1.**  For every input of length `n ≥ 2` the result has length `n` and its first
    `n-2` entries are valid parent pointers. -/
theorem phase1_spec (data : List Nat) (hn : 2 ≤ data.length) :
    (phase1 data).length = data.length ∧
    (∀ j, j + 2 < data.length → j < (phase1 data).getD j 0 ∧ (phase1 data).getD j 0 ≤ data.length - 2) ∧
    (∀ j, j + 3 < data.length → (phase1 data).getD j 0 ≤ (phase1 data).getD (j + 1) 0) ∧
    (∀ j, j + 4 < data.length → (phase1 data).getD j 0 < (phase1 data).getD (j + 2) 0) := by
  unfold phase1
  have h0 : HeadInv data.length 0 data 0 0 :=
    ⟨rfl, rfl, Nat.le_refl _, Nat.zero_le _, fun j hj => absurd hj (Nat.not_lt_zero _),
     fun j hj => absurd hj (Nat.not_lt_zero _), fun j hj => absurd hj (Nat.not_lt_zero _)⟩
  obtain ⟨s', r', hlen, hcnt, hrle, hsle, hpar, hmono, htwo⟩ :=
    phase1Loop_inv (data.length - 1) data.length 0 data 0 0 (by omega) h0
  -- all `n-2` internal nodes but the root have been given a parent
  have hr : r' = data.length - 2 := by
    have h1 : data.length - 2 ≤ r' := by omega
    by_cases hz : r' = 0
    · omega
    · have := hpar (r' - 1) (by omega)
      omega
  subst hr
  refine ⟨hlen, ?_, ?_, ?_⟩
  · intro j hj
    have := hpar j (by omega)
    omega
  · intro j hj; exact hmono j (by omega)
  · intro j hj; exact htwo j (by omega)

end Kanzi.Huffman
