/-
Properties of the repaired task planning (`Kanzi.CliPaths.plan`): the check / no-check dichotomy,
the shape of the tasks of a directory run for every spelling of `-i`, and what follows.
-/
import Kanzi.Proofs.CliPathsPlan

namespace Kanzi.CliPaths

/-! ### what the pre-flight check decides -/

theorem early_ne_tasks {p : Plan} (h : Early p) (ts : List (Str × Str)) : p ≠ .tasks ts := by
  rcases h with h | h | h <;> rw [h] <;> simp

theorem early_ne_overwrite {p : Plan} (h : Early p) : p ≠ .err ERR_OVERWRITE_FILE := by
  rcases h with h | h | h <;> rw [h] <;> decide

/-- the run with and without the check -/
theorem plan_cases (fs : FS) (a : Args) :
    (∃ p, Early p ∧ plan fs a = p ∧ planUnchecked fs a = p) ∨
    (∃ N, planUnchecked fs a = .tasks N ∧
      ((N.length ≠ 1 ∧ isSpecial a.out = false ∧ Clash N ∧ plan fs a = .err ERR_OVERWRITE_FILE) ∨
       (¬ (N.length ≠ 1 ∧ isSpecial a.out = false ∧ Clash N) ∧ plan fs a = .tasks N))) := by
  rcases planWith_cases fs a with ⟨isDir, fin, fout, files, _, _, _, _, _, hall⟩ | ⟨p, hp, hall⟩
  · right
    refine ⟨namesOf a.decomp isDir (isSpecial a.out) fin fout files, ?_, ?_⟩
    · unfold planUnchecked; rw [hall, mkTasks_unchecked]
    · unfold plan
      rw [hall, namesOf_length]
      exact mkTasks_checked a.decomp isDir (isSpecial a.out) fin fout files
  · left
    exact ⟨p, hp, hall _, hall _⟩

/-- a run that is not refused has passed the check -/
theorem plan_checked (fs : FS) (a : Args) (ts : List (Str × Str)) (h : plan fs a = .tasks ts)
    (hsp : isSpecial a.out = false) (hlen : ts.length ≠ 1) : ¬ Clash ts := by
  rcases plan_cases fs a with ⟨p, hp, h1, _⟩ | ⟨N, _, ⟨_, _, _, h1⟩ | ⟨hn, h1⟩⟩
  · rw [h] at h1; exact absurd h1.symm (early_ne_tasks hp ts)
  · rw [h] at h1; simp at h1
  · rw [h] at h1
    injection h1 with h1
    subst h1
    intro hc
    exact hn ⟨hlen, hsp, hc⟩

theorem plan_tasks_unchecked (fs : FS) (a : Args) (ts : List (Str × Str)) (h : plan fs a = .tasks ts) :
    planUnchecked fs a = .tasks ts := by
  rcases plan_cases fs a with ⟨p, hp, h1, _⟩ | ⟨N, hN, ⟨_, _, _, h1⟩ | ⟨_, h1⟩⟩
  · rw [h] at h1; exact absurd h1.symm (early_ne_tasks hp ts)
  · rw [h] at h1; simp at h1
  · rw [h] at h1; injection h1 with h1; rw [h1]; exact hN

/-- a refusal with status 7 is never spurious -/
theorem plan_refusal_real (fs : FS) (a : Args) (h : plan fs a = .err ERR_OVERWRITE_FILE) :
    ∃ ts, planUnchecked fs a = .tasks ts ∧ ts.length ≠ 1 ∧ isSpecial a.out = false ∧ Clash ts := by
  rcases plan_cases fs a with ⟨p, hp, h1, _⟩ | ⟨N, hN, ⟨h2, h3, h4, _⟩ | ⟨_, h1⟩⟩
  · rw [h] at h1; exact absurd h1.symm (early_ne_overwrite hp)
  · exact ⟨N, hN, h2, h3, h4⟩
  · rw [h] at h1; simp at h1

/-- the dichotomy: given the names the tool computes, either they clash and the run is refused
with status 7 before any file is opened, or they do not and these are the tasks -/
theorem plan_dichotomy (fs : FS) (a : Args) (N : List (Str × Str)) (h : planUnchecked fs a = .tasks N)
    (hsp : isSpecial a.out = false) (hlen : N.length ≠ 1) :
    (Clash N ∧ plan fs a = .err ERR_OVERWRITE_FILE) ∨ (¬ Clash N ∧ plan fs a = .tasks N) := by
  rcases plan_cases fs a with ⟨p, hp, _, h1⟩ | ⟨N', hN, hcase⟩
  · rw [h] at h1; exact absurd h1.symm (early_ne_tasks hp N)
  · rw [h] at hN
    injection hN with hN
    subst hN
    rcases hcase with ⟨_, _, h4, h5⟩ | ⟨hn, h5⟩
    · exact Or.inl ⟨h4, h5⟩
    · exact Or.inr ⟨fun hc => hn ⟨hlen, hsp, hc⟩, h5⟩

theorem nodup_of_map {α β : Type} (f : α → β) (l : List α) (h : (l.map f).Nodup) : l.Nodup := by
  induction l with
  | nil => simp
  | cons x xs ih =>
    rw [List.map_cons, List.nodup_cons] at h
    rw [List.nodup_cons]
    exact ⟨fun hm => h.1 (List.mem_map.mpr ⟨x, hm, rfl⟩), ih h.2⟩

/-- the outputs of a run are pairwise distinct (no hypothesis on the tree) -/
theorem plan_outputs_nodup (fs : FS) (a : Args) (ts : List (Str × Str)) (h : plan fs a = .tasks ts)
    (hsp : isSpecial a.out = false) : (ts.map (·.2)).Nodup := by
  by_cases hlen : ts.length = 1
  · match ts, hlen with
    | [t], _ => simp
  · have hc := plan_checked fs a ts h hsp hlen
    have hnd : (ts.map fun t => clean t.2).Nodup := Decidable.of_not_not (fun hn => hc (Or.inr hn))
    have : (ts.map fun t => clean t.2) = (ts.map (·.2)).map clean := by rw [List.map_map]; rfl
    rw [this] at hnd
    exact nodup_of_map _ _ hnd

/-! ### the files of a directory run -/

theorem mkTasks_tasks (chk : List Str → List Str → Bool) (decomp isDir sp : Bool) (fin fout : Str)
    (files : List Str) (ts : List (Str × Str))
    (h : mkTasks chk decomp isDir sp fin fout files = .tasks ts) :
    ts = namesOf decomp isDir sp fin fout files := by
  rw [mkTasks_def] at h
  split at h
  · injection h with h; exact h.symm
  · split at h
    · simp at h
    · injection h with h; exact h.symm

theorem files_dir (fs : FS) (a : Args) (files : List Str) (hd : DirInput fs a)
    (hf : createFileList fs (targetOf a.inp) (!isNonRec a.inp) a.noLinks a.noDot = .ok files) :
    files = [] ∨ ∃ kept : List (List Str × Kind), kept.Sublist (fs.tree (rootOf a.inp)) ∧
      files = kept.map fun e => pathOf a.inp e.1 := by
  obtain ⟨_, ⟨m, hm⟩⟩ := hd
  unfold createFileList at hf
  rw [hm] at hf
  simp only [Kind.isLink] at hf
  split at hf
  · left; injection hf with hf; exact hf.symm
  · by_cases hnr : isNonRec a.inp = true
    · right
      simp only [hnr, Bool.not_true] at hf
      simp at hf
      refine ⟨_, List.filter_sublist (l := fs.tree (rootOf a.inp)) (p := fun e =>
          e.1.length == 1 && !(a.noDot && isDotName (joinSep e.1)) && keepKind a.noLinks e.2), ?_⟩
      rw [← hf]
      simp [rootOf, pathOf, hnr]
    · have hnr' : isNonRec a.inp = false := by simpa using hnr
      right
      simp only [hnr', Bool.not_false] at hf
      simp at hf
      rw [targetOf_rec _ hnr'] at hf
      refine ⟨_, List.filter_sublist (l := fs.tree (rootOf a.inp)) (p := fun e =>
          !(a.noDot && isDotName (walkPath (addSep a.inp) e.1)) && keepKind a.noLinks e.2), ?_⟩
      rw [← hf]
      simp [rootOf, pathOf, hnr']

/-- the tasks of a run on a directory, with any pre-flight check -/
theorem names_dir (chk : List Str → List Str → Bool) (fs : FS) (a : Args) (ts : List (Str × Str))
    (hd : DirInput fs a) (h : planWith chk fs a = .tasks ts) :
    a.inp ≠ [] ∧ ∃ kept : List (List Str × Kind), kept.Sublist (fs.tree (rootOf a.inp)) ∧
      ts = kept.map fun e => (pathOf a.inp e.1,
        oName a.decomp true (isSpecial a.out) (finOf a.inp) (foutEff a) (pathOf a.inp e.1)) := by
  have hi : a.inp ≠ [] := by
    intro e
    simp [planWith, e] at h
  refine ⟨hi, ?_⟩
  rcases planWith_cases fs a with ⟨isDir, fin, fout, files, hne, hdir, _, ⟨k, n, hst, hk⟩, hcf, hall⟩ | ⟨p, hp, hall⟩
  · rw [hall] at h
    have hts := mkTasks_tasks _ _ _ _ _ _ _ _ h
    obtain ⟨n', hn'⟩ := hd.1
    rw [hn'] at hst
    injection hst with hst
    have hkd : k = .dir := by
      have := congrArg Prod.fst hst
      exact this.symm
    have hisd : isDir = true := hk.mpr hkd
    obtain ⟨hfin, hfout⟩ := hdir hisd
    rcases files_dir fs a files hd hcf with he | ⟨kept, hsub, hfl⟩
    · exact absurd he hne
    · refine ⟨kept, hsub, ?_⟩
      rw [hts, hisd, hfin, hfout, hfl]
      simp [namesOf, List.map_map]
  · rw [hall] at h
    exact absurd h (early_ne_tasks hp ts)

/-! ### output names of a directory run and their stacks -/

/-- `rel` with `s` appended to its last name -/
def addLast (rel : List Str) (s : Str) : List Str := rel.dropLast ++ [rel.getLastD [] ++ s]

theorem addLast_snoc (init : List Str) (last s : Str) : addLast (init ++ [last]) s = init ++ [last ++ s] := by
  simp [addLast]

/-- `rel` with the last four bytes of its last name removed -/
def stemRel (rel : List Str) : List Str := rel.dropLast ++ [unKnz (rel.getLastD [])]

theorem stemRel_snoc (init : List Str) (stem : Str) : stemRel (init ++ [stem ++ KNZ]) = init ++ [stem] := by
  simp [stemRel, unKnz_knz]

/-- the stack below which the outputs are created -/
def baseStack (a : Args) : List Str :=
  if a.out = [] then stackOf (rootOf a.inp) else stackOf (foutOf a.out)

/-- the output of compressing the entry `rel` -/
def outC (a : Args) (rel : List Str) : Str :=
  if a.out = [] then pathOf a.inp rel ++ KNZ else foutOf a.out ++ joinSep rel ++ KNZ

/-- the output of decompressing the entry `rel` (named `….knz`) -/
def outD (a : Args) (rel : List Str) : Str :=
  if a.out = [] then fileOutputName (pathOf a.inp (stemRel rel)) else foutOf a.out ++ joinSep (stemRel rel)

theorem foutOf_last (o : Str) : (foutOf o).getLast? = some SEP := by
  unfold foutOf
  by_cases h : o.getLast? = some SEP
  · simp [h]
  · simp [h]

theorem valid_snoc {init : List Str} {last x : Str} (hv : ∀ n ∈ init ++ [last], ValidName n)
    (hx : ValidName x) : ∀ n ∈ init ++ [x], ValidName n := by
  intro n hn
  rcases List.mem_append.mp hn with hn | hn
  · exact hv n (by simp [hn])
  · have : n = x := by simpa using hn
    rw [this]; exact hx

theorem foutEff_dir (a : Args) (hsp : isSpecial a.out = false) (ho : a.out ≠ []) :
    foutEff a = foutOf a.out := by
  simp [foutEff, ho, hsp]

theorem foutEff_inplace (a : Args) (ho : a.out = []) : foutEff a = [] := by
  simp [foutEff, ho]

theorem tasks_char_c (chk : List Str → List Str → Bool) (fs : FS) (a : Args) (ts : List (Str × Str))
    (hc : a.decomp = false) (hsp : isSpecial a.out = false) (hd : DirInput fs a)
    (hf : a.out ≠ [] → FinOK a.inp) (ht : TreeOK (fs.tree (rootOf a.inp)))
    (h : planWith chk fs a = .tasks ts) :
    a.inp ≠ [] ∧ ∃ kept : List (List Str × Kind), kept.Sublist (fs.tree (rootOf a.inp)) ∧
      ts = kept.map fun e => (pathOf a.inp e.1, outC a e.1) := by
  obtain ⟨hi, kept, hsub, rfl⟩ := names_dir chk fs a ts hd h
  refine ⟨hi, kept, hsub, ?_⟩
  apply List.map_congr_left
  intro e he
  obtain ⟨hne, hv⟩ := ht.2 e (hsub.subset he)
  congr 1
  rw [hc, hsp]
  unfold outC oName
  by_cases ho : a.out = []
  · simp [foutEff_inplace a ho, ho]
  · have hfo : foutOf a.out ≠ [] := foutOf_ne_nil _ ho
    rw [foutEff_dir a hsp ho, rel_pathOf a.inp e.1 hi (hf ho) hne hv]
    simp [ho, hfo]

theorem tasks_char_d (chk : List Str → List Str → Bool) (fs : FS) (a : Args) (ts : List (Str × Str))
    (hc : a.decomp = true) (hsp : isSpecial a.out = false) (hd : DirInput fs a)
    (hf : a.out ≠ [] → FinOK a.inp) (hk : KnzTree (fs.tree (rootOf a.inp)))
    (h : planWith chk fs a = .tasks ts) :
    a.inp ≠ [] ∧ ∃ kept : List (List Str × Kind), kept.Sublist (fs.tree (rootOf a.inp)) ∧
      ts = kept.map fun e => (pathOf a.inp e.1, outD a e.1) := by
  obtain ⟨hi, kept, hsub, rfl⟩ := names_dir chk fs a ts hd h
  refine ⟨hi, kept, hsub, ?_⟩
  apply List.map_congr_left
  intro e he
  obtain ⟨init, stem, k1, k2, k3⟩ := hk e (hsub.subset he)
  have hvs : ∀ n ∈ init ++ [stem], ValidName n := by
    intro n hn
    rcases List.mem_append.mp hn with hn | hn
    · exact k3 n hn
    · have : n = stem := by simpa using hn
      rw [this]; exact k2
  have hdn : dName (pathOf a.inp e.1) = pathOf a.inp (init ++ [stem]) := by
    rw [k1, pathOf_snoc_append a.inp init stem KNZ hi hvs (valid_append_knz stem k2), dName_knz]
  congr 1
  rw [hc, hsp]
  unfold outD oName
  simp only [if_true, hdn]
  rw [k1, stemRel_snoc]
  by_cases ho : a.out = []
  · simp [foutEff_inplace a ho, ho]
  · have hfo : foutOf a.out ≠ [] := foutOf_ne_nil _ ho
    rw [foutEff_dir a hsp ho, rel_pathOf a.inp (init ++ [stem]) hi (hf ho) (by simp) hvs]
    simp [ho, hfo]

theorem outC_stack (a : Args) (init : List Str) (last : Str) (hi : a.inp ≠ [])
    (hv : ∀ n ∈ init ++ [last], ValidName n) :
    outC a (init ++ [last]) = (if a.out = [] then pathOf a.inp (init ++ [last ++ KNZ])
        else foutOf a.out ++ joinSep (init ++ [last ++ KNZ])) ∧
    stackOf (outC a (init ++ [last])) = (init ++ [last ++ KNZ]).reverse ++ baseStack a := by
  have hl : ValidName last := hv last (by simp)
  have hv2 := valid_snoc hv (valid_append_knz last hl)
  unfold outC baseStack
  by_cases ho : a.out = []
  · simp only [ho, if_true]
    rw [← pathOf_snoc_append a.inp init last KNZ hi hv (valid_append_knz last hl)]
    exact ⟨rfl, (pathOf_stack a.inp _ hi (by simp) hv2).1⟩
  · simp only [ho, if_false]
    have e : foutOf a.out ++ joinSep (init ++ [last]) ++ KNZ = foutOf a.out ++ joinSep (init ++ [last ++ KNZ]) := by
      rw [joinSep_snoc_append]; simp
    rw [e]
    exact ⟨rfl, (stackOf_dir_append _ _ (foutOf_last a.out) (by simp) hv2).1⟩

theorem lower_SEP : lower SEP = SEP := by decide

theorem isSpecial_noSep (o : Str) (h : isSpecial o = true) : SEP ∉ o := by
  intro hm
  have hm' : SEP ∈ o.map lower := List.mem_map.mpr ⟨SEP, hm, lower_SEP⟩
  unfold isSpecial eqFold at h
  simp only [Bool.or_eq_true, beq_iff_eq] at h
  rcases h with h | h
  · rw [h] at hm'; revert hm'; decide
  · rw [h] at hm'; revert hm'; decide

theorem isSpecial_not_rooted (x : Str) (h : isSpecial x = true) : isRooted x = false := by
  cases x with
  | nil => rfl
  | cons c cs =>
    have := isSpecial_noSep (c :: cs) h
    have hc : c ≠ SEP := fun e => this (by simp [e])
    simp [isRooted, hc]

theorem stackOf_fileOutputName (x : Str) : stackOf (fileOutputName x) = stackOf x := by
  unfold fileOutputName
  split
  · rename_i h
    have hr := isSpecial_not_rooted x h
    unfold stackOf
    have h1 : isRooted (DOT :: SEP :: x) = false := by
      have : DOT ≠ SEP := by decide
      simp [isRooted, this]
    have h2 : splitSep (DOT :: SEP :: x) = [DOT] :: splitSep x := by
      have : DOT ≠ SEP := by decide
      simp [splitSep, consHead, this]
    rw [h1, h2, hr]
    simp [cleanStep]
  · rfl

theorem outD_stack (a : Args) (init : List Str) (stem : Str) (hi : a.inp ≠ [])
    (hv : ∀ n ∈ init ++ [stem], ValidName n) :
    stackOf (outD a (init ++ [stem ++ KNZ])) = (init ++ [stem]).reverse ++ baseStack a := by
  unfold outD baseStack
  rw [stemRel_snoc]
  by_cases ho : a.out = []
  · simp only [ho, if_true]
    rw [stackOf_fileOutputName]
    exact (pathOf_stack a.inp _ hi (by simp) hv).1
  · simp only [ho, if_false]
    exact (stackOf_dir_append _ _ (foutOf_last a.out) (by simp) hv).1

/-! ### consequences of the stacks -/

theorem head?_reverse_append (l X : List Str) (hl : l ≠ []) : (l.reverse ++ X).head? = l.getLast? := by
  obtain ⟨init, last, rfl⟩ := rel_split l hl
  simp

theorem stack_of_clean_eq {p q : Str} (h : clean p = clean q) : stackOf p = stackOf q := by
  have := congrArg stackOf h
  rwa [stackOf_clean, stackOf_clean] at this

/-- what the stacks give: cleaned outputs pairwise distinct, and no output is its own input -/
theorem shape_props (inp : Str) (S B : List Str) (rels : List (List Str)) (orel : List Str → List Str)
    (out : List Str → Str) (hnd : rels.Nodup)
    (hs : ∀ r ∈ rels, r ≠ [] ∧ stackOf (pathOf inp r) = r.reverse ++ S)
    (h1 : ∀ r ∈ rels, orel r ≠ [] ∧ stackOf (out r) = (orel r).reverse ++ B)
    (h2 : ∀ r ∈ rels, ∀ r' ∈ rels, orel r = orel r' → r = r')
    (h3 : ∀ r ∈ rels, (orel r).getLast? ≠ r.getLast?) :
    (rels.map fun r => clean (out r)).Nodup ∧ ∀ r ∈ rels, clean (out r) ≠ clean (pathOf inp r) := by
  constructor
  · apply nodup_map_on _ _ hnd
    intro x hx y hy hxy
    have := stack_of_clean_eq hxy
    rw [(h1 x hx).2, (h1 y hy).2] at this
    exact h2 x hx y hy (List.reverse_inj.mp (List.append_cancel_right this))
  · intro r hr heq
    have := stack_of_clean_eq heq
    rw [(h1 r hr).2, (hs r hr).2] at this
    have := congrArg List.head? this
    rw [head?_reverse_append _ _ (h1 r hr).1, head?_reverse_append _ _ (hs r hr).1] at this
    exact h3 r hr this

theorem append_ne_self (x : Str) : x ++ KNZ ≠ x := by
  intro e
  have := congrArg List.length e
  simp [KNZ_length] at this

theorem snoc_inj {init init' : List Str} {x y : Str} (h : init ++ [x] = init' ++ [y]) :
    init = init' ∧ x = y := by
  have := List.append_inj' h (by simp)
  exact ⟨this.1, by simpa using this.2⟩

/-- no entry of the tree is named like the compressed form of another one -/
def NoShadow (l : List (List Str × Kind)) : Prop :=
  ∀ e ∈ l, ∀ e' ∈ l, joinSep e'.1 ≠ joinSep e.1 ++ KNZ

/-- no entry of the input tree is, or lies below, the output directory (compared lexically, as
`filepath.Clean` does) -/
def OutApart (a : Args) (l : List (List Str × Kind)) : Prop :=
  ∀ e ∈ l, ¬ ((stackOf (foutOf a.out)).reverse <+: (stackOf (rootOf a.inp)).reverse ++ e.1)

/-- the facts shared by the theorems about compression -/
theorem shape_c (a : Args) (kept tree : List (List Str × Kind)) (hi : a.inp ≠ [])
    (hsub : kept.Sublist tree) (ht : TreeOK tree) :
    ((kept.map (·.1)).map fun r => clean (outC a r)).Nodup ∧
    (∀ r ∈ kept.map (·.1), clean (outC a r) ≠ clean (pathOf a.inp r)) ∧
    (∀ r ∈ kept.map (·.1), ∀ r' ∈ kept.map (·.1), clean (outC a r) = clean (pathOf a.inp r') →
      (a.out = [] ∧ joinSep r' = joinSep r ++ KNZ) ∨
      (a.out ≠ [] ∧ (stackOf (foutOf a.out)).reverse <+: (stackOf (rootOf a.inp)).reverse ++ r')) := by
  obtain ⟨hnd, hv⟩ := kept_rels tree kept hsub ht
  have hs : ∀ r ∈ kept.map (·.1), r ≠ [] ∧ stackOf (pathOf a.inp r) = r.reverse ++ stackOf (rootOf a.inp) :=
    fun r hr => ⟨(hv r hr).1, (pathOf_stack a.inp r hi (hv r hr).1 (hv r hr).2).1⟩
  have h1 : ∀ r ∈ kept.map (·.1), addLast r KNZ ≠ [] ∧
      stackOf (outC a r) = (addLast r KNZ).reverse ++ baseStack a := by
    intro r hr
    obtain ⟨init, last, rfl⟩ := rel_split r (hv r hr).1
    rw [addLast_snoc]
    exact ⟨by simp, (outC_stack a init last hi (hv _ hr).2).2⟩
  have key := shape_props a.inp (stackOf (rootOf a.inp)) (baseStack a) (kept.map (·.1))
    (fun r => addLast r KNZ) (outC a) hnd hs h1
    (by
      intro r hr r' hr' e
      obtain ⟨init, last, rfl⟩ := rel_split r (hv r hr).1
      obtain ⟨init', last', rfl⟩ := rel_split r' (hv r' hr').1
      rw [addLast_snoc, addLast_snoc] at e
      obtain ⟨e1, e2⟩ := snoc_inj e
      rw [e1, List.append_cancel_right e2])
    (by
      intro r hr
      obtain ⟨init, last, rfl⟩ := rel_split r (hv r hr).1
      rw [addLast_snoc]
      simp only [List.getLast?_append, List.getLast?_singleton, Option.some_or, ne_eq, Option.some.injEq]
      exact append_ne_self last)
  refine ⟨key.1, key.2, ?_⟩
  intro r hr r' hr' heq
  have hst := stack_of_clean_eq heq
  rw [(h1 r hr).2, (hs r' hr').2] at hst
  obtain ⟨init, last, rfl⟩ := rel_split r (hv r hr).1
  rw [addLast_snoc] at hst
  unfold baseStack at hst
  by_cases ho : a.out = []
  · left
    rw [if_pos ho] at hst
    have := List.reverse_inj.mp (List.append_cancel_right hst)
    rw [← this, joinSep_snoc_append]
    exact ⟨ho, rfl⟩
  · right
    rw [if_neg ho] at hst
    refine ⟨ho, ?_⟩
    have := congrArg List.reverse hst
    simp only [List.reverse_append, List.reverse_reverse] at this
    rw [← this]
    exact List.prefix_append _ _

/-- the same for decompression of a tree of `….knz` names -/
theorem shape_d (a : Args) (kept tree : List (List Str × Kind)) (hi : a.inp ≠ [])
    (hsub : kept.Sublist tree) (hnd0 : (tree.map (·.1)).Nodup) (hk : KnzTree tree) :
    ((kept.map (·.1)).map fun r => clean (outD a r)).Nodup ∧
    (∀ r ∈ kept.map (·.1), clean (outD a r) ≠ clean (pathOf a.inp r)) ∧
    (∀ r ∈ kept.map (·.1), ∀ r' ∈ kept.map (·.1), clean (outD a r) = clean (pathOf a.inp r') →
      (a.out = [] ∧ joinSep r = joinSep r' ++ KNZ) ∨
      (a.out ≠ [] ∧ (stackOf (foutOf a.out)).reverse <+: (stackOf (rootOf a.inp)).reverse ++ r')) := by
  have ht : TreeOK tree := ⟨hnd0, knz_tree_ok _ hk⟩
  obtain ⟨hnd, hv⟩ := kept_rels tree kept hsub ht
  have hknz : ∀ r ∈ kept.map (·.1), ∃ init stem, r = init ++ [stem ++ KNZ] ∧
      ∀ n ∈ init ++ [stem], ValidName n := by
    intro r hr
    obtain ⟨e, he, rfl⟩ := List.mem_map.mp hr
    obtain ⟨init, stem, k1, k2, k3⟩ := hk e (hsub.subset he)
    refine ⟨init, stem, k1, ?_⟩
    intro n hn
    rcases List.mem_append.mp hn with hn | hn
    · exact k3 n hn
    · have : n = stem := by simpa using hn
      rw [this]; exact k2
  have hs : ∀ r ∈ kept.map (·.1), r ≠ [] ∧ stackOf (pathOf a.inp r) = r.reverse ++ stackOf (rootOf a.inp) :=
    fun r hr => ⟨(hv r hr).1, (pathOf_stack a.inp r hi (hv r hr).1 (hv r hr).2).1⟩
  have h1 : ∀ r ∈ kept.map (·.1), stemRel r ≠ [] ∧
      stackOf (outD a r) = (stemRel r).reverse ++ baseStack a := by
    intro r hr
    obtain ⟨init, stem, rfl, hvs⟩ := hknz r hr
    rw [stemRel_snoc]
    exact ⟨by simp, outD_stack a init stem hi hvs⟩
  have key := shape_props a.inp (stackOf (rootOf a.inp)) (baseStack a) (kept.map (·.1))
    stemRel (outD a) hnd hs h1
    (by
      intro r hr r' hr' e
      obtain ⟨init, stem, rfl, _⟩ := hknz r hr
      obtain ⟨init', stem', rfl, _⟩ := hknz r' hr'
      rw [stemRel_snoc, stemRel_snoc] at e
      obtain ⟨e1, e2⟩ := snoc_inj e
      rw [e1, e2])
    (by
      intro r hr
      obtain ⟨init, stem, rfl, _⟩ := hknz r hr
      rw [stemRel_snoc]
      simp only [List.getLast?_append, List.getLast?_singleton, Option.some_or, ne_eq, Option.some.injEq]
      exact fun e => append_ne_self stem e.symm)
  refine ⟨key.1, key.2, ?_⟩
  intro r hr r' hr' heq
  have hst := stack_of_clean_eq heq
  rw [(h1 r hr).2, (hs r' hr').2] at hst
  obtain ⟨init, stem, rfl, _⟩ := hknz r hr
  rw [stemRel_snoc] at hst
  unfold baseStack at hst
  by_cases ho : a.out = []
  · left
    rw [if_pos ho] at hst
    have := List.reverse_inj.mp (List.append_cancel_right hst)
    rw [← this, joinSep_snoc_append]
    exact ⟨ho, rfl⟩
  · right
    rw [if_neg ho] at hst
    refine ⟨ho, ?_⟩
    have := congrArg List.reverse hst
    simp only [List.reverse_append, List.reverse_reverse] at this
    rw [← this]
    exact List.prefix_append _ _

/-! ### the properties -/

theorem inputs_nodup (inp : Str) (kept tree : List (List Str × Kind)) (hi : inp ≠ [])
    (hsub : kept.Sublist tree) (ht : TreeOK tree) : ((kept.map (·.1)).map (pathOf inp)).Nodup := by
  obtain ⟨hnd, hv⟩ := kept_rels tree kept hsub ht
  apply nodup_map_on _ _ hnd
  intro x hx y hy hxy
  exact pathOf_inj inp x y hi (hv x hx).1 (hv y hy).1 (hv x hx).2 (hv y hy).2 (congrArg stackOf hxy)

theorem map_fst_c (a : Args) (kept : List (List Str × Kind)) :
    (kept.map fun e => (pathOf a.inp e.1, outC a e.1)).map (·.1) = (kept.map (·.1)).map (pathOf a.inp) := by
  simp [List.map_map]

theorem map_clean_c (a : Args) (kept : List (List Str × Kind)) :
    ((kept.map fun e => (pathOf a.inp e.1, outC a e.1)).map fun t => clean t.2)
      = (kept.map (·.1)).map fun r => clean (outC a r) := by
  simp [List.map_map]

theorem map_fst_d (a : Args) (kept : List (List Str × Kind)) :
    (kept.map fun e => (pathOf a.inp e.1, outD a e.1)).map (·.1) = (kept.map (·.1)).map (pathOf a.inp) := by
  simp [List.map_map]

theorem map_clean_d (a : Args) (kept : List (List Str × Kind)) :
    ((kept.map fun e => (pathOf a.inp e.1, outD a e.1)).map fun t => clean t.2)
      = (kept.map (·.1)).map fun r => clean (outD a r) := by
  simp [List.map_map]

theorem nodup_snd_of_clean (ts : List (Str × Str)) (h : (ts.map fun t => clean t.2).Nodup) :
    (ts.map (·.2)).Nodup := by
  have : (ts.map fun t => clean t.2) = (ts.map (·.2)).map clean := by rw [List.map_map]; rfl
  rw [this] at h
  exact nodup_of_map _ _ h

/-- compression of a directory, any spelling of `-i`: the inputs are pairwise distinct, the
outputs are pairwise distinct even after `filepath.Clean`, and no output is its own input -/
theorem paths_injective_c (chk : List Str → List Str → Bool) (fs : FS) (a : Args)
    (ts : List (Str × Str)) (hc : a.decomp = false) (hsp : isSpecial a.out = false)
    (hd : DirInput fs a) (hf : a.out ≠ [] → FinOK a.inp) (ht : TreeOK (fs.tree (rootOf a.inp)))
    (h : planWith chk fs a = .tasks ts) :
    (ts.map (·.1)).Nodup ∧ (ts.map (·.2)).Nodup ∧ (ts.map fun t => clean t.2).Nodup ∧
      ∀ t ∈ ts, clean t.2 ≠ clean t.1 := by
  obtain ⟨hi, kept, hsub, rfl⟩ := tasks_char_c chk fs a ts hc hsp hd hf ht h
  obtain ⟨s1, s2, _⟩ := shape_c a kept _ hi hsub ht
  have hcl : ((kept.map fun e => (pathOf a.inp e.1, outC a e.1)).map fun t => clean t.2).Nodup := by
    rw [map_clean_c]; exact s1
  refine ⟨by rw [map_fst_c]; exact inputs_nodup a.inp kept _ hi hsub ht, nodup_snd_of_clean _ hcl, hcl, ?_⟩
  intro t htm
  obtain ⟨e, he, rfl⟩ := List.mem_map.mp htm
  exact s2 e.1 (List.mem_map.mpr ⟨e, he, rfl⟩)

theorem paths_injective_d (chk : List Str → List Str → Bool) (fs : FS) (a : Args)
    (ts : List (Str × Str)) (hc : a.decomp = true) (hsp : isSpecial a.out = false)
    (hd : DirInput fs a) (hf : a.out ≠ [] → FinOK a.inp)
    (hnd : ((fs.tree (rootOf a.inp)).map (·.1)).Nodup) (hk : KnzTree (fs.tree (rootOf a.inp)))
    (h : planWith chk fs a = .tasks ts) :
    (ts.map (·.1)).Nodup ∧ (ts.map (·.2)).Nodup ∧ (ts.map fun t => clean t.2).Nodup ∧
      ∀ t ∈ ts, clean t.2 ≠ clean t.1 := by
  obtain ⟨hi, kept, hsub, rfl⟩ := tasks_char_d chk fs a ts hc hsp hd hf hk h
  have ht : TreeOK (fs.tree (rootOf a.inp)) := ⟨hnd, knz_tree_ok _ hk⟩
  obtain ⟨s1, s2, _⟩ := shape_d a kept _ hi hsub hnd hk
  have hcl : ((kept.map fun e => (pathOf a.inp e.1, outD a e.1)).map fun t => clean t.2).Nodup := by
    rw [map_clean_d]; exact s1
  refine ⟨by rw [map_fst_d]; exact inputs_nodup a.inp kept _ hi hsub ht, nodup_snd_of_clean _ hcl, hcl, ?_⟩
  intro t htm
  obtain ⟨e, he, rfl⟩ := List.mem_map.mp htm
  exact s2 e.1 (List.mem_map.mpr ⟨e, he, rfl⟩)

/-- for a tree without shadowing names (in place) / apart from the output directory (`-o`), the
names of a compression never clash -/
theorem no_clash_c (chk : List Str → List Str → Bool) (fs : FS) (a : Args)
    (ts : List (Str × Str)) (hc : a.decomp = false) (hsp : isSpecial a.out = false)
    (hd : DirInput fs a) (hf : a.out ≠ [] → FinOK a.inp) (ht : TreeOK (fs.tree (rootOf a.inp)))
    (hin : a.out = [] → NoShadow (fs.tree (rootOf a.inp)))
    (hout : a.out ≠ [] → OutApart a (fs.tree (rootOf a.inp)))
    (h : planWith chk fs a = .tasks ts) : ¬ Clash ts := by
  obtain ⟨hi, kept, hsub, rfl⟩ := tasks_char_c chk fs a ts hc hsp hd hf ht h
  obtain ⟨s1, _, s3⟩ := shape_c a kept _ hi hsub ht
  rintro (⟨t, htm, u, hum, heq⟩ | hn)
  · obtain ⟨e, he, rfl⟩ := List.mem_map.mp htm
    obtain ⟨e', he', rfl⟩ := List.mem_map.mp hum
    rcases s3 e.1 (List.mem_map.mpr ⟨e, he, rfl⟩) e'.1 (List.mem_map.mpr ⟨e', he', rfl⟩) heq with ⟨ho, hj⟩ | ⟨ho, hp⟩
    · exact hin ho e (hsub.subset he) e' (hsub.subset he') hj
    · exact hout ho e' (hsub.subset he') hp
  · rw [map_clean_c] at hn; exact hn s1

theorem no_clash_d (chk : List Str → List Str → Bool) (fs : FS) (a : Args)
    (ts : List (Str × Str)) (hc : a.decomp = true) (hsp : isSpecial a.out = false)
    (hd : DirInput fs a) (hf : a.out ≠ [] → FinOK a.inp)
    (hnd : ((fs.tree (rootOf a.inp)).map (·.1)).Nodup) (hk : KnzTree (fs.tree (rootOf a.inp)))
    (hin : a.out = [] → NoShadow (fs.tree (rootOf a.inp)))
    (hout : a.out ≠ [] → OutApart a (fs.tree (rootOf a.inp)))
    (h : planWith chk fs a = .tasks ts) : ¬ Clash ts := by
  obtain ⟨hi, kept, hsub, rfl⟩ := tasks_char_d chk fs a ts hc hsp hd hf hk h
  obtain ⟨s1, _, s3⟩ := shape_d a kept _ hi hsub hnd hk
  rintro (⟨t, htm, u, hum, heq⟩ | hn)
  · obtain ⟨e, he, rfl⟩ := List.mem_map.mp htm
    obtain ⟨e', he', rfl⟩ := List.mem_map.mp hum
    rcases s3 e.1 (List.mem_map.mpr ⟨e, he, rfl⟩) e'.1 (List.mem_map.mpr ⟨e', he', rfl⟩) heq with ⟨ho, hj⟩ | ⟨ho, hp⟩
    · exact hin ho e' (hsub.subset he') e (hsub.subset he) hj
    · exact hout ho e' (hsub.subset he') hp
  · rw [map_clean_d] at hn; exact hn s1

/-- hence the check never refuses such a run: the tool does what it did without the check -/
theorem no_spurious_refusal (fs : FS) (a : Args)
    (hno : ∀ N, planUnchecked fs a = .tasks N → ¬ Clash N) : plan fs a = planUnchecked fs a := by
  rcases plan_cases fs a with ⟨p, _, h1, h2⟩ | ⟨N, hN, ⟨_, _, h4, _⟩ | ⟨_, h5⟩⟩
  · rw [h1, h2]
  · exact absurd h4 (hno N hN)
  · rw [h5, hN]

/-- no output is an input of the run (compared after `filepath.Clean`): from the pre-flight
check when there are several files, from the names themselves when there is one -/
theorem output_not_input_of (fs : FS) (a : Args) (ts : List (Str × Str)) (hsp : isSpecial a.out = false)
    (h : plan fs a = .tasks ts) (hown : ∀ t ∈ ts, clean t.2 ≠ clean t.1) :
    ∀ t ∈ ts, ∀ u ∈ ts, clean t.2 ≠ clean u.1 := by
  by_cases hlen : ts.length = 1
  · match ts, hlen with
    | [x], _ =>
      intro t ht u hu
      have e1 : t = x := by simpa using ht
      have e2 : u = x := by simpa using hu
      rw [e1, e2]
      exact hown x (by simp)
  · have hc := plan_checked fs a ts h hsp hlen
    intro t ht u hu heq
    exact hc (Or.inl ⟨t, ht, u, hu, heq⟩)

/-- `o` is `dir` followed by a relative path made of directory entry names -/
theorem within_outdir_c (chk : List Str → List Str → Bool) (fs : FS) (a : Args)
    (ts : List (Str × Str)) (hc : a.decomp = false) (hsp : isSpecial a.out = false) (ho : a.out ≠ [])
    (hd : DirInput fs a) (hf : FinOK a.inp) (ht : TreeOK (fs.tree (rootOf a.inp)))
    (h : planWith chk fs a = .tasks ts) : ∀ t ∈ ts, Under (foutOf a.out) t.2 := by
  obtain ⟨hi, kept, hsub, rfl⟩ := tasks_char_c chk fs a ts hc hsp hd (fun _ => hf) ht h
  intro t htm
  obtain ⟨e, he, rfl⟩ := List.mem_map.mp htm
  obtain ⟨hne, hv⟩ := ht.2 e (hsub.subset he)
  obtain ⟨init, last, hr⟩ := rel_split e.1 hne
  rw [hr] at hv
  refine ⟨init ++ [last ++ KNZ], by simp, valid_snoc hv (valid_append_knz last (hv last (by simp))), ?_⟩
  simp only [hr]
  rw [(outC_stack a init last hi hv).1, if_neg ho]

theorem within_outdir_d (chk : List Str → List Str → Bool) (fs : FS) (a : Args)
    (ts : List (Str × Str)) (hc : a.decomp = true) (hsp : isSpecial a.out = false) (ho : a.out ≠ [])
    (hd : DirInput fs a) (hf : FinOK a.inp) (hk : KnzTree (fs.tree (rootOf a.inp)))
    (h : planWith chk fs a = .tasks ts) : ∀ t ∈ ts, Under (foutOf a.out) t.2 := by
  obtain ⟨hi, kept, hsub, rfl⟩ := tasks_char_d chk fs a ts hc hsp hd (fun _ => hf) hk h
  intro t htm
  obtain ⟨e, he, rfl⟩ := List.mem_map.mp htm
  obtain ⟨init, stem, k1, k2, k3⟩ := hk e (hsub.subset he)
  refine ⟨init ++ [stem], by simp, ?_, ?_⟩
  · intro c hcm
    rcases List.mem_append.mp hcm with hcm | hcm
    · exact k3 c hcm
    · have : c = stem := by simpa using hcm
      rw [this]; exact k2
  · simp only [outD, ho, if_false, k1, stemRel_snoc]

theorem clean_eq_of_stack {p q : Str} (hs : stackOf p = stackOf q) (hr : isRooted p = isRooted q) :
    clean p = clean q := by
  unfold clean; rw [hs, hr]

/-- compress the tree `inT` into `outC`, decompress `inC` (the same directory, however spelled)
into `outD`: the compressor writes `outC/<rel>.knz`, that is the file the decompressor reads, and
it writes `outD/<rel>` -/
theorem paths_roundtrip (inT oC inC oD : Str) (init : List Str) (last : Str)
    (hv : ∀ n ∈ init ++ [last], ValidName n) (hT : inT ≠ []) (hC : inC ≠ [])
    (fT : FinOK inT) (fC : FinOK inC) (hoC : oC ≠ []) (hoD : oD ≠ [])
    (hsame : stackOf (foutOf oC) = stackOf (rootOf inC) ∧ isRooted (foutOf oC) = isRooted (rootOf inC)) :
    oName false true false (finOf inT) (foutOf oC) (pathOf inT (init ++ [last]))
        = foutOf oC ++ joinSep (init ++ [last ++ KNZ]) ∧
    clean (foutOf oC ++ joinSep (init ++ [last ++ KNZ])) = clean (pathOf inC (init ++ [last ++ KNZ])) ∧
    oName true true false (finOf inC) (foutOf oD) (pathOf inC (init ++ [last ++ KNZ]))
        = foutOf oD ++ joinSep (init ++ [last]) := by
  have hl : ValidName last := hv last (by simp)
  have hv2 := valid_snoc hv (valid_append_knz last hl)
  refine ⟨?_, ?_, ?_⟩
  · unfold oName
    rw [rel_pathOf inT _ hT fT (by simp) hv, joinSep_snoc_append]
    simp [foutOf_ne_nil _ hoC]
  · obtain ⟨a1, a2⟩ := stackOf_dir_append (foutOf oC) (init ++ [last ++ KNZ]) (foutOf_last oC) (by simp) hv2
    obtain ⟨b1, b2⟩ := pathOf_stack inC (init ++ [last ++ KNZ]) hC (by simp) hv2
    exact clean_eq_of_stack (by rw [a1, b1, hsame.1]) (by rw [a2, b2, hsame.2])
  · unfold oName
    simp only [if_true]
    rw [pathOf_snoc_append inC init last KNZ hC hv (valid_append_knz last hl), dName_knz,
      rel_pathOf inC _ hC fC (by simp) hv]
    simp [foutOf_ne_nil _ hoD]

theorem paths_roundtrip_inplace (isDir sp : Bool) (fin i : Str) (h : isSpecial i = false) :
    oName false isDir sp fin [] i = i ++ KNZ ∧ oName true isDir sp fin [] (i ++ KNZ) = i := by
  simp [oName, dName_knz, fileOutputName, h]

/-! ### derived names are never taken for the special outputs -/

theorem isSpecial_knz (x : Str) : isSpecial (x ++ KNZ) = false := by
  cases h : isSpecial (x ++ KNZ) with
  | false => rfl
  | true =>
    exfalso
    unfold isSpecial eqFold at h
    simp only [Bool.or_eq_true, beq_iff_eq] at h
    have hl : ((x ++ KNZ).map lower).getLast? = some 122 := by
      simp [KNZ]; decide
    rcases h with h | h
    · rw [h] at hl; revert hl; decide
    · rw [h] at hl; revert hl; decide

theorem isSpecial_fileOutputName (x : Str) : isSpecial (fileOutputName x) = false := by
  unfold fileOutputName
  split
  · cases h : isSpecial (DOT :: SEP :: x) with
    | false => rfl
    | true => exact absurd (by simp) (isSpecial_noSep _ h)
  · rename_i h
    simpa using h

theorem isSpecial_of_sep (o : Str) (h : SEP ∈ o) : isSpecial o = false := by
  cases hs : isSpecial o with
  | false => rfl
  | true => exact absurd h (isSpecial_noSep o hs)

/-- an output name the tool derives from an input file name (no `-o`, or below the directory given
by `-o`) is never read as `NONE` / `STDOUT` by the task -/
theorem no_special_output (chk : List Str → List Str → Bool) (fs : FS) (a : Args)
    (ts : List (Str × Str)) (h : planWith chk fs a = .tasks ts)
    (hder : a.out = [] ∨ (isSpecial a.out = false ∧ ∃ n, fs.stat a.inp = some (.dir, n))) :
    ∀ t ∈ ts, isSpecial t.2 = false := by
  rcases planWith_cases fs a with ⟨isDir, fin, fout, files, _, hdir, hfile, ⟨k, n, hst, hk⟩, _, hall⟩ | ⟨p, hp, hall⟩
  · rw [hall] at h
    have hts := mkTasks_tasks _ _ _ _ _ _ _ _ h
    subst hts
    intro t htm
    obtain ⟨i, _, rfl⟩ := List.mem_map.mp htm
    simp only
    by_cases ho : a.out = []
    · have hfo : fout = [] := by
        cases isDir with
        | true => rw [(hdir rfl).2, foutEff_inplace a ho]
        | false => rw [hfile rfl, ho]
      unfold oName
      rw [hfo]
      cases a.decomp with
      | true => simp [isSpecial_fileOutputName]
      | false => simp [isSpecial_knz]
    · rcases hder with hder | ⟨hsp, n', hn'⟩
      · exact absurd hder ho
      · rw [hn'] at hst
        injection hst with hst
        have hkd : k = .dir := (congrArg Prod.fst hst).symm
        have hisd : isDir = true := hk.mpr hkd
        obtain ⟨_, hfout⟩ := hdir hisd
        have hfo : fout = foutOf a.out := by rw [hfout, foutEff_dir a hsp ho]
        have hmem : SEP ∈ foutOf a.out := by
          have := foutOf_last a.out
          exact List.mem_of_getLast? this
        unfold oName
        rw [hisd, hsp, hfo]
        have hne := foutOf_ne_nil _ ho
        cases a.decomp with
        | true => simp only [if_true, hne, if_false]; exact isSpecial_of_sep _ (by simp [hmem])
        | false => simp only [hne, if_false]; exact isSpecial_of_sep _ (by simp [hmem])
  · rw [hall] at h
    exact absurd h (early_ne_tasks hp ts)

/-! ### a single file as input -/

theorem plan_file (chk : List Str → List Str → Bool) (fs : FS) (a : Args) (ts : List (Str × Str))
    (hf : FileInput fs a) (h : planWith chk fs a = .tasks ts) :
    ts = [(targetOf a.inp, oName a.decomp false (isSpecial a.out) [] a.out (targetOf a.inp))] := by
  obtain ⟨⟨n, hn⟩, ⟨m, hm⟩⟩ := hf
  rcases planWith_cases fs a with ⟨isDir, fin, fout, files, hne, _, hfile, ⟨k, n', hst, hk⟩, hcf, hall⟩ | ⟨p, hp, hall⟩
  · rw [hall] at h
    have hts := mkTasks_tasks _ _ _ _ _ _ _ _ h
    rw [hn] at hst
    injection hst with hst
    have hkf : k = .file := (congrArg Prod.fst hst).symm
    have hisd : isDir = false := by
      cases isDir with
      | false => rfl
      | true => have := hk.mp rfl; rw [hkf] at this; exact absurd this (by simp)
    have hfl : files = [targetOf a.inp] := by
      unfold createFileList at hcf
      rw [hm] at hcf
      simp only [Kind.isLink] at hcf
      split at hcf
      · injection hcf with hcf; exact absurd hcf.symm hne
      · simp at hcf; exact hcf.symm
    have hfin : fin = [] ∨ True := Or.inr trivial
    rw [hts, hisd, hfile hisd, hfl]
    simp [namesOf, oName]
  · rw [hall] at h
    exact absurd h (early_ne_tasks hp ts)

/-! ### `FinOK` discharged (repair f45672a) -/

theorem planWith_inp_ne (chk : List Str → List Str → Bool) (fs : FS) (a : Args) (ts : List (Str × Str))
    (h : planWith chk fs a = .tasks ts) : a.inp ≠ [] := by
  intro e
  simp [planWith, e] at h

theorem planWith_empty_inp (chk : List Str → List Str → Bool) (fs : FS) (a : Args) (e : a.inp = []) :
    planWith chk fs a = .unsupported := by
  simp [planWith, e]

theorem finOK_of_tasks (chk : List Str → List Str → Bool) (fs : FS) (a : Args) (ts : List (Str × Str))
    (h : planWith chk fs a = .tasks ts) : FinOK a.inp :=
  finOK_all a.inp (planWith_inp_ne chk fs a ts h)

end Kanzi.CliPaths
