/-
ROLZ (`rolzCodec1.Inverse`, model `rolzInverse` of Model/ROLZ1.lean) on ARBITRARY input: the fuel of the
registration loop, of the main loop of a chunk and of the chunk loop is never exhausted; the run-time faults
are index errors of nine classes.  Slice `rolztotal`, property C03.
-/
import Kanzi.Model.ROLZ1
import Kanzi.Model.RolzDec
import Kanzi.Proofs.RolzxDecTotal

namespace Kanzi.ROLZ

/-- the fault classes of the main loop of ROLZ Inverse -/
def R1Faults : List String :=
  ["tk-index", "len-slice", "dst-slice", "lit-slice", "matches-index", "mix-index", "matches-slice", "dst-index", "first-index"]

theorem regRun_fault {mm delta lpc base lim i litLen : Nat} : ∀ (f n inc : Nat) (s : I1) (e : String),
    litLen + 1 ≤ f + n → 1 ≤ f → regRun mm delta lpc base lim i litLen f n inc s = .fault e → e ∈ R1Faults := by
  intro f
  induction f with
  | zero => intro _ _ _ _ _ h; omega
  | succ f ih =>
    intro n inc s e hf _ h
    rw [regRun] at h
    split at h
    · dsimp only at h
      split at h
      · injection h with h; subst h; decide
      · split at h
        · exact ih _ _ _ _ (by omega) (by omega) h
        · injection h with h; subst h; decide
    · cases h

theorem regRun_fault0 {mm delta lpc base lim i litLen : Nat} {s : I1} {e : String}
    (h : regRun mm delta lpc base lim i litLen (litLen + 1) 0 0 s = .fault e) : e ∈ R1Faults :=
  regRun_fault _ _ _ _ _ (by omega) (by omega) h

theorem emitCopy_fault1 {dst : Array Nat} {lim d r n : Nat} {e : String} (h : emitCopy dst lim d r n = .fault e) :
    e ∈ R1Faults := by
  rw [emitCopy_fault h]; decide

/-- the literal part of one step (the `let afterLits` of `inv1Step`) -/
def afterLitsE (sd : Side) (base lim mm delta lpc : Nat) (j : J1) (litLen : Nat) : Out (Nat × I1 × Bool) :=
  if litLen > 0 then
    if (j.i - base) + litLen > sd.lit.size then .err "invalid"
    else if j.i < base + delta then .fault "dst-slice"
    else if j.litIdx + litLen > sd.lit.size then .fault "lit-slice"
    else
      match regRun mm delta lpc base lim j.i litLen (litLen + 1) 0 0 ⟨j.st.tab, copyFrom j.st.dst lim j.i sd.lit j.litIdx litLen⟩ with
      | .ok s1 =>
        if j.i + litLen ≥ lim then (if j.i + litLen = lim then .ok (j.i + litLen, s1, true) else .err "invalid")
        else .ok (j.i + litLen, s1, false)
      | .err e => .err e
      | .fault e => .fault e
  else .ok (j.i, ⟨j.st.tab, j.st.dst⟩, false)

theorem afterLitsE_fault {sd : Side} {base lim mm delta lpc : Nat} {j : J1} {litLen : Nat} {e : String}
    (h : afterLitsE sd base lim mm delta lpc j litLen = .fault e) : e ∈ R1Faults := by
  unfold afterLitsE at h
  split at h
  · split at h
    · cases h
    · split at h
      · injection h with h; subst h; decide
      · split at h
        · injection h with h; subst h; decide
        · split at h
          · split at h
            · split at h <;> cases h
            · cases h
          · cases h
          · rename_i e' he
            injection h with h; subst h
            exact regRun_fault0 he
  · cases h

theorem afterLitsE_ok {sd : Side} {base lim mm delta lpc : Nat} {j : J1} {litLen : Nat} {r : Nat × I1 × Bool}
    (h : afterLitsE sd base lim mm delta lpc j litLen = .ok r) : j.i ≤ r.1 := by
  unfold afterLitsE at h
  split at h
  · split at h
    · cases h
    · split at h
      · cases h
      · split at h
        · cases h
        · split at h
          · split at h
            · split at h
              · injection h with h; subst h; exact Nat.le_add_right _ _
              · cases h
            · injection h with h; subst h; exact Nat.le_add_right _ _
          · cases h
          · cases h
  · injection h with h; subst h; exact Nat.le_refl _

theorem inv1Step_fault {sd : Side} {dstEnd base lim mm delta lpc : Nat} {j : J1} {e : String}
    (h : inv1Step sd dstEnd base lim mm delta lpc j = .fault e) : e ∈ R1Faults := by
  unfold inv1Step at h
  dsimp only at h
  split at h
  · injection h with h; subst h; decide
  · split at h
    · injection h with h; subst h; decide
    · split at h
      · injection h with h; subst h; decide
      · split at h
        · cases h
        · rename_i e' he
          injection h with h; subst h
          exact afterLitsE_fault (j := j) he
        · cases h
        · split at h
          · cases h
          · split at h
            · injection h with h; subst h; decide
            · try dsimp only at h
              split at h
              · injection h with h; subst h; decide
              · split at h
                · injection h with h; subst h; decide
                · split at h
                  · cases h
                  · cases h
                  · rename_i e' he
                    injection h with h; subst h
                    exact emitCopy_fault1 he

theorem inv1Step_ok {sd : Side} {dstEnd base lim mm delta lpc : Nat} {j j' : J1} (hmm : 0 < mm)
    (h : inv1Step sd dstEnd base lim mm delta lpc j = .ok (j', false)) : j.i < j'.i := by
  unfold inv1Step at h
  dsimp only at h
  split at h
  · cases h
  · split at h
    · cases h
    · split at h
      · cases h
      · split at h
        · cases h
        · cases h
        · injection h with h; injection h with h1 h2; cases h2
        · rename_i i1 s1 hal
          have z := afterLitsE_ok (j := j) hal
          split at h
          · cases h
          · split at h
            · cases h
            · try dsimp only at h
              split at h
              · cases h
              · split at h
                · cases h
                · split at h
                  · rename_i dst' i2 he
                    have ze := emitCopy_ok he
                    injection h with h; injection h with h1 h2; subst h1
                    dsimp only at ze z ⊢
                    omega
                  · cases h
                  · cases h

theorem inv1Loop_fault {sd : Side} {dstEnd base lim mm delta lpc : Nat} (hmm : 0 < mm) : ∀ (f : Nat) (j : J1) (e : String),
    lim + 1 ≤ f + j.i → 1 ≤ f → inv1Loop sd dstEnd base lim mm delta lpc f j = .fault e → e ∈ R1Faults := by
  intro f
  induction f with
  | zero => intro _ _ _ h; omega
  | succ f ih =>
    intro j e hf _ h
    rw [inv1Loop] at h
    split at h
    · split at h
      · cases h
      · rename_i j' hj
        have := inv1Step_ok hmm hj
        exact ih _ _ (by omega) (by omega) h
      · cases h
      · rename_i e' he
        injection h with h; subst h
        exact inv1Step_fault he
    · cases h

/-! ## the chunk loop -/

theorem inv1Chunks_fault {src : Array Nat} {dstEnd mm delta lpc litOrder fl : Nat} {old : Bool} (hmm : 0 < mm) :
    ∀ (f startChunk sizeChunk0 dstIdx srcIdx : Nat) (sd : Side) (tab : Tab) (dst : Array Nat) (e : String) (q : Nat),
      0 < sizeChunk0 → q + 1 ≤ f → dstEnd ≤ startChunk + q * sizeChunk0 →
      inv1Chunks src dstEnd mm delta lpc litOrder fl old f startChunk sizeChunk0 dstIdx srcIdx sd tab dst = .fault e →
      e ∈ R1Faults := by
  intro f
  induction f with
  | zero => intro _ _ _ _ _ _ _ _ q _ hq; omega
  | succ f ih =>
    intro startChunk sizeChunk0 dstIdx srcIdx sd tab dst e q hsz hq hce h
    rw [inv1Chunks] at h
    split at h
    · rename_i hlt
      dsimp only at h
      generalize hec : (if startChunk + sizeChunk0 > dstEnd then dstEnd else startChunk + sizeChunk0) = endChunk at h
      cases q with
      | zero => omega
      | succ q' =>
        rw [Nat.succ_mul] at hce
        have hrec : 0 < endChunk - startChunk ∧ dstEnd ≤ endChunk + q' * (endChunk - startChunk) ∧ startChunk ≤ endChunk := by
          split at hec
          · subst hec
            exact ⟨by omega, Nat.le_add_right _ _, by omega⟩
          · subst hec
            have e1 : startChunk + sizeChunk0 - startChunk = sizeChunk0 := by omega
            rw [e1]
            exact ⟨hsz, by omega, by omega⟩
        split at h
        · cases h
        · split at h
          · cases h
          · split at h
            · cases h
            · split at h
              · cases h
              · split at h
                · cases h
                · split at h
                  · cases h
                  · split at h
                    · cases h
                    · split at h
                      · cases h
                      · split at h
                        · split at h
                          · cases h
                          · exact ih _ _ _ _ _ _ _ _ q' hrec.1 (by omega) hrec.2.1 h
                        · split at h
                          · injection h with h; subst h; decide
                          · split at h
                            · exact ih _ _ _ _ _ _ _ _ q' hrec.1 (by omega) hrec.2.1 h
                            · cases h
                            · rename_i e' he
                              injection h with h; subst h
                              exact inv1Loop_fault hmm _ _ _ (by dsimp only; omega) (by omega) he
    · cases h

theorem invParams1_mm (bsv flags : Nat) : 0 < (invParams1 bsv flags).1 := by
  unfold invParams1
  repeat' split
  all_goals decide

/-- ROLZ Inverse on arbitrary input: the fuel of no loop is exhausted (`"fuel" ∉ R1Faults`); a run-time fault is an
    index error of one of the classes `R1Faults` -/
theorem rolzInverse_fault {cs lpc0 : Nat} {hasBsv : Bool} {bsv : Nat} {src : List Nat} {dst0 : Array Nat} (hcs : 0 < cs)
    {e : String} (h : rolzInverse cs lpc0 hasBsv bsv src dst0 = .fault e) : e ∈ R1Faults := by
  unfold rolzInverse at h
  split at h
  · cases h
  · rename_i hne
    split at h
    · cases h
    · split at h
      · cases h
      · dsimp only at h
        split at h
        · cases h
        · split at h
          · cases h
          · split at h
            · split at h <;> cases h
            · cases h
            · rename_i e' he
              injection h with h; subst h
              have hd : 0 < dst0.size := by
                rcases Nat.eq_zero_or_pos dst0.size with h0 | h0
                · exact absurd (Or.inr h0) hne
                · exact h0
              have hsz : 0 < min dst0.size cs := by omega
              exact inv1Chunks_fault (invParams1_mm _ _) _ _ _ _ _ _ _ _ _
                ((beN src.toArray 0 4 - 4) / min dst0.size cs + 1) hsz (by omega) (div_fuel _ _ hsz) he

/-! ## forged sub-stream lengths, allocations -/

/-- a chunk whose header announces a sub-stream longer than the buffer made for it is rejected before any
    entropy decoding -/
theorem inv1Chunks_length {src : Array Nat} {dstEnd mm delta lpc litOrder fl : Nat} {old : Bool}
    {f startChunk sizeChunk0 dstIdx srcIdx : Nat} {sd : Side} {tab : Tab} {dst : Array Nat} (hlt : startChunk < dstEnd)
    {a b c d : Nat} {r0 : Kanzi.Bits.Bits}
    (hh : readHdr (Kanzi.Bits.ofBytes (src.extract srcIdx src.size).toList) = some ((a, b, c, d), r0))
    (hbig : a > sd.lit.size ∨ b > sd.tk.size ∨ c > sd.len.size ∨ d > sd.mix.size) :
    inv1Chunks src dstEnd mm delta lpc litOrder fl old (f + 1) startChunk sizeChunk0 dstIdx srcIdx sd tab dst = .err "length" := by
  rw [inv1Chunks, if_pos hlt]
  dsimp only
  rw [hh]
  dsimp only
  rw [if_pos hbig]

theorem rolzInverse_length {cs lpc0 : Nat} {hasBsv : Bool} {bsv : Nat} {src : List Nat} {dst0 : Array Nat}
    (hreach : rolz1Reaches src.length dst0.size (beN src.toArray 0 4) = true)
    (hlpc : 2 ≤ src.toArray.getD 4 0 >>> 4 ∧ src.toArray.getD 4 0 >>> 4 ≤ 8)
    {a b c d : Nat} {r0 : Kanzi.Bits.Bits}
    (hh : readHdr (Kanzi.Bits.ofBytes (src.toArray.extract 5 src.toArray.size).toList) = some ((a, b, c, d), r0))
    (hbig : a > min dst0.size cs ∨ b > min dst0.size cs / 4 ∨ c > min dst0.size cs / 5 ∨ d > min dst0.size cs / 4) :
    rolzInverse cs lpc0 hasBsv bsv src dst0 = .err "length" := by
  unfold rolz1Reaches wrapperPasses at hreach
  simp only [Bool.and_eq_true, Bool.not_eq_true', Bool.or_eq_false_iff, decide_eq_false_iff_not] at hreach
  obtain ⟨⟨⟨⟨h1, h2⟩, h3⟩, h4⟩, h5, h6⟩ := hreach
  unfold rolzInverse
  rw [if_neg (by omega), if_neg h3, if_neg h4]
  dsimp only
  rw [if_neg (by omega), if_neg (by omega)]
  rw [inv1Chunks_length (by omega) hh (by simpa using hbig)]

theorem rolz1Allocs_bound (cs lpc0 srcLen dstLen hdr mLen : Nat) :
    (∀ x ∈ rolz1Allocs cs lpc0 srcLen dstLen hdr mLen, x ≤ dstLen ∨ x = HASH_SIZE * 2 ^ lpc0) ∧
    (rolz1Allocs cs lpc0 srcLen dstLen hdr mLen).sum ≤ 2 * dstLen + HASH_SIZE * 2 ^ lpc0 := by
  unfold rolz1Allocs
  split
  · split
    · constructor
      · intro x hx
        simp only [List.cons_append, List.nil_append, List.mem_cons, List.not_mem_nil, or_false] at hx
        rcases hx with h | h | h | h | h
        · left; omega
        · left; omega
        · left; omega
        · left; omega
        · right; exact h
      · simp only [List.cons_append, List.nil_append, List.sum_cons, List.sum_nil]; omega
    · constructor
      · intro x hx
        simp only [List.append_nil, List.mem_cons, List.not_mem_nil, or_false] at hx
        rcases hx with h | h | h | h <;> (left; omega)
      · simp only [List.append_nil, List.sum_cons, List.sum_nil]; omega
  · exact ⟨fun x hx => by simp at hx, by simp⟩

theorem rolzxAllocs_bound (lpc bsv srcLen dstLen hdr : Nat) :
    ∀ x ∈ rolzxAllocs lpc bsv srcLen dstLen hdr, x = 256 <<< lpc ∨ x = 256 <<< 9 := by
  intro x hx
  unfold rolzxAllocs at hx
  by_cases hc : (rolzxReaches srcLen dstLen hdr && decide ((if bsv ≥ 3 then 5 else 4) + 8 ≤ srcLen)) = true
  · rw [if_pos hc] at hx; simpa using hx
  · rw [if_neg hc] at hx; simp at hx

/-! ## the destination keeps its length; bytes written -/

theorem copyFrom_size (src : Array Nat) (lim : Nat) : ∀ (n : Nat) (dst : Array Nat) (d s : Nat),
    (copyFrom dst lim d src s n).size = dst.size := by
  intro n
  induction n with
  | zero => intro dst d s; rfl
  | succ n ih =>
    intro dst d s
    rw [copyFrom]
    split
    · rw [ih, Array.size_setIfInBounds]
    · rfl

theorem regRun_dst {mm delta lpc base lim i litLen : Nat} : ∀ (f n inc : Nat) (s s' : I1),
    regRun mm delta lpc base lim i litLen f n inc s = .ok s' → s'.dst = s.dst := by
  intro f
  induction f with
  | zero => intro _ _ _ _ h; simp [regRun] at h
  | succ f ih =>
    intro n inc s s' h
    rw [regRun] at h
    split at h
    · dsimp only at h
      split at h
      · cases h
      · split at h
        · have := ih _ _ _ _ h; exact this
        · cases h
    · injection h with h; subst h; rfl

theorem afterLitsE_size {sd : Side} {base lim mm delta lpc : Nat} {j : J1} {litLen : Nat} {r : Nat × I1 × Bool}
    (h : afterLitsE sd base lim mm delta lpc j litLen = .ok r) : r.2.1.dst.size = j.st.dst.size := by
  unfold afterLitsE at h
  split at h
  · split at h
    · cases h
    · split at h
      · cases h
      · split at h
        · cases h
        · split at h
          · rename_i s1 hs1
            have z := regRun_dst _ _ _ _ _ hs1
            split at h
            · split at h
              · injection h with h; subst h; dsimp only; rw [z]; exact copyFrom_size _ _ _ _ _ _
              · cases h
            · injection h with h; subst h; dsimp only; rw [z]; exact copyFrom_size _ _ _ _ _ _
          · cases h
          · cases h
  · injection h with h; subst h; rfl

theorem inv1Step_size {sd : Side} {dstEnd base lim mm delta lpc : Nat} {j : J1} {r : J1 × Bool}
    (h : inv1Step sd dstEnd base lim mm delta lpc j = .ok r) : r.1.st.dst.size = j.st.dst.size := by
  unfold inv1Step at h
  dsimp only at h
  split at h
  · cases h
  · split at h
    · cases h
    · split at h
      · cases h
      · split at h
        · cases h
        · cases h
        · rename_i i1 s1 hal
          have z := afterLitsE_size (j := j) hal
          injection h with h; subst h; exact z
        · rename_i i1 s1 hal
          have z := afterLitsE_size (j := j) hal
          split at h
          · cases h
          · split at h
            · cases h
            · try dsimp only at h
              split at h
              · cases h
              · split at h
                · cases h
                · split at h
                  · rename_i dst' i2 he
                    have ze := emitCopy_ok he
                    injection h with h; subst h
                    dsimp only at ze z ⊢
                    omega
                  · cases h
                  · cases h

theorem inv1Loop_size {sd : Side} {dstEnd base lim mm delta lpc : Nat} : ∀ (f : Nat) (j j' : J1),
    inv1Loop sd dstEnd base lim mm delta lpc f j = .ok j' → j'.st.dst.size = j.st.dst.size := by
  intro f
  induction f with
  | zero => intro _ _ h; simp [inv1Loop] at h
  | succ f ih =>
    intro j j' h
    rw [inv1Loop] at h
    split at h
    · split at h
      · rename_i j1 hj
        injection h with h; subst h
        exact inv1Step_size hj
      · rename_i j1 hj
        rw [ih _ _ h]
        exact inv1Step_size hj
      · cases h
      · cases h
    · injection h with h; subst h; rfl

theorem inv1Chunks_size {src : Array Nat} {dstEnd mm delta lpc litOrder fl : Nat} {old : Bool} :
    ∀ (f startChunk sizeChunk0 dstIdx srcIdx : Nat) (sd : Side) (tab : Tab) (dst : Array Nat)
      (r : Nat × Nat × Nat × Nat × Array Nat),
      inv1Chunks src dstEnd mm delta lpc litOrder fl old f startChunk sizeChunk0 dstIdx srcIdx sd tab dst = .ok r →
      r.2.2.2.2.size = dst.size := by
  intro f
  induction f with
  | zero => intro _ _ _ _ _ _ _ _ h; simp [inv1Chunks] at h
  | succ f ih =>
    intro startChunk sizeChunk0 dstIdx srcIdx sd tab dst r h
    rw [inv1Chunks] at h
    split at h
    · dsimp only at h
      generalize (if startChunk + sizeChunk0 > dstEnd then dstEnd else startChunk + sizeChunk0) = endChunk at h
      split at h
      · cases h
      · split at h
        · cases h
        · split at h
          · cases h
          · split at h
            · cases h
            · split at h
              · cases h
              · split at h
                · cases h
                · split at h
                  · cases h
                  · split at h
                    · cases h
                    · split at h
                      · split at h
                        · cases h
                        · rw [ih _ _ _ _ _ _ _ _ h]; exact copyFrom_size _ _ _ _ _ _
                      · split at h
                        · cases h
                        · split at h
                          · rename_i j hj
                            rw [ih _ _ _ _ _ _ _ _ h, inv1Loop_size _ _ _ hj]
                            exact copyFrom_size _ _ _ _ _ _
                          · cases h
                          · cases h
    · injection h with h; subst h; rfl

/-- on success the destination keeps its length and the reported number of bytes written is at most `len(dst)` -/
theorem rolzInverse_ok {cs lpc0 : Nat} {hasBsv : Bool} {bsv : Nat} {src : List Nat} {dst0 : Array Nat} {w : Nat}
    {dst : Array Nat} (h : rolzInverse cs lpc0 hasBsv bsv src dst0 = .ok (w, dst)) :
    dst.size = dst0.size ∧ w ≤ dst0.size := by
  unfold rolzInverse at h
  split at h
  · injection h with h; injection h with h1 h2; subst h1; subst h2; exact ⟨rfl, Nat.zero_le _⟩
  · split at h
    · cases h
    · split at h
      · cases h
      · dsimp only at h
        split at h
        · cases h
        · split at h
          · cases h
          · split at h
            · rename_i dstIdx startChunk sizeChunk srcIdx dst1 hc
              have z := inv1Chunks_size _ _ _ _ _ _ _ _ _ hc
              dsimp only at z
              split at h
              · cases h
              · rename_i hno
                injection h with h; injection h with h1 h2; subst h1; subst h2
                simp only [Array.size_setIfInBounds]
                exact ⟨z, by omega⟩
            · cases h
            · cases h

end Kanzi.ROLZ
