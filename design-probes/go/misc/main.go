package main

import (
	"bytes"
	"errors"
	"fmt"
	"io"
	"math/rand"

	kio "github.com/flanglet/kanzi-go/v2/io"
	"scratch/gen"
)

type nopCloser struct{ *bytes.Buffer }

func (nopCloser) Close() error { return nil }

type rc struct{ io.Reader }

func (rc) Close() error { return nil }

// chunked reader: returns at most sizes[i%len] bytes per Read
type chunked struct {
	b     []byte
	sizes []int
	i     int
}

func (c *chunked) Read(p []byte) (int, error) {
	if len(c.b) == 0 {
		return 0, io.EOF
	}
	n := c.sizes[c.i%len(c.sizes)]
	c.i++
	if n > len(p) {
		n = len(p)
	}
	if n > len(c.b) {
		n = len(c.b)
	}
	copy(p, c.b[:n])
	c.b = c.b[n:]
	return n, nil
}
func (c *chunked) Close() error { return nil }

func compress(data []byte, tr, en string, bs, jobs, ck uint, hint int64) ([]byte, error) {
	var buf bytes.Buffer
	w, err := kio.NewWriter(nopCloser{&buf}, tr, en, bs, jobs, ck, hint, false)
	if err != nil {
		return nil, fmt.Errorf("ctor: %w", err)
	}
	if _, err := w.Write(data); err != nil {
		return nil, err
	}
	if err := w.Close(); err != nil {
		return nil, err
	}
	return buf.Bytes(), nil
}

func readAll(src io.ReadCloser, jobs uint, ctx map[string]any) (out []byte, err error) {
	defer func() {
		if r := recover(); r != nil {
			err = fmt.Errorf("PANIC decompress: %v", r)
		}
	}()
	if ctx == nil {
		ctx = map[string]any{}
	}
	ctx["jobs"] = jobs
	r, err := kio.NewReaderWithCtx(src, ctx)
	if err != nil {
		return nil, err
	}
	defer r.Close()
	return io.ReadAll(r)
}

func main() {
	r := rand.New(rand.NewSource(7))
	data := gen.Text(r, 300000)

	fmt.Println("== C06 short reads")
	for _, cfg := range [][2]string{{"NONE", "NONE"}, {"LZ", "HUFFMAN"}, {"BWT", "ANS0"}} {
		comp, err := compress(data, cfg[0], cfg[1], 65536, 1, 32, 0)
		if err != nil {
			fmt.Println("comp err", err)
			continue
		}
		for _, sizes := range [][]int{{1 << 20}, {4096}, {1001}, {1}, {7}, {13, 100, 5}, {65536}, {8191}} {
			d, err := readAll(&chunked{b: comp, sizes: sizes}, 1, nil)
			fmt.Printf("  %v sizes=%v err=%v equal=%v\n", cfg, sizes, err, bytes.Equal(d, data))
		}
	}

	fmt.Println("== C15 lowercase")
	for _, cfg := range [][2]string{{"rolzx", "NONE"}, {"ROLZX", "NONE"}, {"none", "tpaqx"}, {"text", "tpaqx"}, {"TEXT", "TPAQX"}, {"Bwt", "ans0"}, {"lz", "huffman"}} {
		c1, err1 := compress(data[:100000], cfg[0], cfg[1], 65536, 1, 0, 0)
		c2, err2 := compress(data[:100000], toUpper(cfg[0]), toUpper(cfg[1]), 65536, 1, 0, 0)
		var d []byte
		var err error
		if err1 == nil {
			d, err = readAll(rc{bytes.NewReader(c1)}, 1, nil)
		}
		fmt.Printf("  %v errs=%v,%v sameStream=%v decodeErr=%v equal=%v\n", cfg, err1, err2, bytes.Equal(c1, c2), err, bytes.Equal(d, data[:100000]))
	}

	fmt.Println("== C09 truncation")
	small := data[:5000]
	for _, ck := range []uint{0, 32} {
		comp, _ := compress(small, "NONE", "NONE", 1024, 1, ck, 0)
		undetected := 0
		for cut := 0; cut < len(comp); cut++ {
			d, err := readAll(rc{bytes.NewReader(comp[:cut])}, 1, nil)
			if err == nil {
				undetected++
				fmt.Printf("  ck=%d cut=%d/%d undetected: got %d bytes equalprefix=%v\n", ck, cut, len(comp), len(d), bytes.HasPrefix(small, d))
			}
		}
		fmt.Println("  ck", ck, "len", len(comp), "undetected", undetected)
	}

	fmt.Println("== C02/C05 read after error")
	{
		big := data[:8192]
		comp, _ := compress(big, "NONE", "NONE", 1024, 1, 32, 0)
		// corrupt payload byte in block 3: find by brute force: flip byte at various positions
		for _, pos := range []int{len(comp) / 2, len(comp) - 600} {
			bad := append([]byte{}, comp...)
			bad[pos] ^= 0x55
			for _, jobs := range []uint{1, 4} {
				ctx := map[string]any{"jobs": jobs}
				rd, _ := kio.NewReaderWithCtx(rc{bytes.NewReader(bad)}, ctx)
				var out []byte
				buf := make([]byte, 700)
				nerr := 0
				var seq []string
				for i := 0; i < 40; i++ {
					n, err := func() (n int, err error) {
						defer func() {
							if r := recover(); r != nil {
								err = fmt.Errorf("PANIC %v", r)
							}
						}()
						return rd.Read(buf)
					}()
					out = append(out, buf[:n]...)
					if err != nil {
						nerr++
						seq = append(seq, fmt.Sprintf("%d:%d,%.30v", i, n, err))
						if errors.Is(err, io.EOF) || nerr > 3 {
							break
						}
					}
				}
				fmt.Printf("  pos=%d jobs=%d total=%d prefixOK=%v seq=%v\n", pos, jobs, len(out), bytes.HasPrefix(big, out), seq)
			}
		}
	}

	fmt.Println("== C11 ranges")
	{
		big := data[:10*1024+300]
		comp, _ := compress(big, "NONE", "NONE", 1024, 2, 0, 0)
		bad := 0
		tot := 0
		for from := 1; from <= 13; from++ {
			for to := from; to <= 14; to++ {
				for _, jobs := range []uint{1, 2, 3, 4, 8} {
					ctx := map[string]any{"from": from, "to": to}
					d, err := readAll(rc{bytes.NewReader(comp)}, jobs, ctx)
					lo := min((from-1)*1024, len(big))
					hi := min((to-1)*1024, len(big))
					tot++
					if err != nil || !bytes.Equal(d, big[lo:hi]) {
						bad++
						if bad < 10 {
							fmt.Printf("  from=%d to=%d jobs=%d err=%v len=%d want=%d\n", from, to, jobs, err, len(d), hi-lo)
						}
					}
				}
			}
		}
		fmt.Println("  ranges", tot, "bad", bad)
	}
}

func toUpper(s string) string { return string(bytes.ToUpper([]byte(s))) }
