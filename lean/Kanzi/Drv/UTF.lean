/-
Line-protocol driver of the `utf` stream (see harness/cmd/kv/utf.go).  Core Lean only.

    uf <dt> <dstlen> <data>     UTFCodec.Forward, then (on success) UTFCodec.Inverse (NewUTFCodec) of the
                                output into a destination of len(data) bytes
         -> ok <out> | inv <res> [ctx=<k|->]    res = ok <out> | err:<class> | panic
          | declined:<class> [ctx=<k|->]        class = small | dst | type | notutf | invalid | noimp
          | panic                                ctx= (unless <dt> = n): the dataType entry after the call
    ui <bsv> <dstlen> <data>    UTFCodec.Inverse on arbitrary input
         -> ok <out> | err:<class> | panic       class = small | mapsize | alias | dstsize | data

`<dt>`:  `n` = NewUTFCodec(), `-` = NewUTFCodecWithCtx without a dataType entry, else the DataType number.
`<bsv>`: `n` = NewUTFCodec(), `-` = ctx without a bsVersion entry, else the bsVersion number (uint).
`<data>`: `-` (empty) or comma separated chunks: lower-case hex | `<hex>*<count>` (the hex string repeated)
          | `u<hex code point>+<count>` (the UTF-8 encodings of `count` consecutive code points, generalised
          UTF-8: 1 byte below 0x80, 2 below 0x800, 3 below 0x10000, else 4; surrogates are not skipped).
`<out>`: `<len> <hex>` up to 64 bytes, else `<len> #<fnv1a-64 of the bytes, hex>`.
-/
import Kanzi.Model.UTF
import Kanzi.Drv.RLT

namespace Kanzi.Drv
open Kanzi.RLT (Out Res)
open Kanzi.UTF

def utfEncodeCp (c : Nat) : List Nat :=
  if c < 0x80 then [c]
  else if c < 0x800 then [0xC0 + c / 64, 0x80 + c % 64]
  else if c < 0x10000 then [0xE0 + c / 4096, 0x80 + c / 64 % 64, 0x80 + c % 64]
  else [0xF0 + c / 262144 % 8, 0x80 + c / 4096 % 64, 0x80 + c / 64 % 64, 0x80 + c % 64]

def hexNat (s : String) : Option Nat :=
  if s.isEmpty then none
  else s.toList.foldlM (fun acc c => (hexVal c).map (fun d => 16 * acc + d)) 0

def utfChunk (s : String) : Option (Array Nat) :=
  if shead s = 'u' then
    match (sdropU s).splitOn "+" with
    | [h, c] =>
      match hexNat h, c.toNat? with
      | some cp, some n => some ((List.range n).foldl (fun (a : Array Nat) k => a ++ utfEncodeCp (cp + k)) #[])
      | _, _ => none
    | _ => none
  else
    match s.splitOn "*" with
    | [h] => (unhex h).map List.toArray
    | [h, c] =>
      match unhex h, c.toNat? with
      | some bs, some n => some ((List.range n).foldl (fun (a : Array Nat) _ => a ++ bs) #[])
      | _, _ => none
    | _ => none
where
  shead (s : String) : Char := s.toList.headD ' '
  sdropU (s : String) : String := String.ofList (s.toList.drop 1)

def utfData (s : String) : Option (List Nat) :=
  if s = "-" then some []
  else ((s.splitOn ",").mapM utfChunk).map (fun ls => (ls.foldl (fun (a : Array Nat) (l : Array Nat) => a ++ l) #[]).toList)

def utfShowInv (r : Res) : String :=
  match r with
  | .ok o => "ok " ++ rltOut o
  | .err e => "err:" ++ e
  | .fault _ => "panic"

def utf (line : String) : String :=
  match (line.splitOn " ").filter (· ≠ "") with
  | ["uf", dts, d, h] =>
    let dt? : Option Nat := if dts = "-" ∨ dts = "n" then some 0 else dts.toNat?
    match dt?, d.toNat?, utfData h with
    | some dt, some d, some b =>
      let ctxs := if dts = "n" then ""
        else if utfCtxWrite dt b d then " ctx=8"
        else if dts = "-" then " ctx=-" else s!" ctx={dt}"
      match utfForward dt b d with
      | .ok t => s!"ok {rltOut t} | inv {utfShowInv (utfInverse false t b.length)}{ctxs}"
      | .err e => "declined:" ++ e ++ ctxs
      | .fault _ => "panic"
    | _, _, _ => "bad-op"
  | ["ui", bsv, d, h] =>
    let v3? : Option Bool := if bsv = "-" ∨ bsv = "n" then some false else (bsv.toNat?).map (· < 4)
    match v3?, d.toNat?, utfData h with
    | some v3, some d, some b => utfShowInv (utfInverse v3 b d)
    | _, _, _ => "bad-op"
  | _ => "bad-op"

end Kanzi.Drv
