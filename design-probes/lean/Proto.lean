namespace Proto

inductive Pc | work | wait | crit | dOk | dErr | done
deriving DecidableEq, Repr

/-- counter: none = cancelled, some c = last published id (ids are 1..N, initial 0) -/
structure St where
  ctr : Option Nat
  pc  : Nat → Pc
  log : List Nat

def upd (f : Nat → Pc) (i : Nat) (p : Pc) : Nat → Pc := fun j => if j = i then p else f j

@[simp] theorem upd_same (f i p) : upd f i p i = p := by simp [upd]
@[simp] theorem upd_other (f i p j) (h : j ≠ i) : upd f i p j = f j := by simp [upd, h]

/-- task `i` (0-based) has id i+1. One atomic step of task i. -/
inductive Step (N : Nat) : St → St → Prop
  | workDone (s i) (hi : i < N) (h : s.pc i = .work) : Step N s { s with pc := upd s.pc i .wait }
  | workFail (s i) (hi : i < N) (h : s.pc i = .work) : Step N s { s with pc := upd s.pc i .dErr }
  | spin     (s i) (hi : i < N) (h : s.pc i = .wait) (c : Nat) (hc : s.ctr = some c) (hne : c ≠ i) : Step N s s
  | sawCancel (s i) (hi : i < N) (h : s.pc i = .wait) (hc : s.ctr = none) : Step N s { s with pc := upd s.pc i .dOk }
  | acquire  (s i) (hi : i < N) (h : s.pc i = .wait) (hc : s.ctr = some i) : Step N s { s with pc := upd s.pc i .crit }
  | ioOk     (s i) (hi : i < N) (h : s.pc i = .crit) : Step N s { s with pc := upd s.pc i .dOk, log := s.log ++ [i+1] }
  | ioFail   (s i) (hi : i < N) (h : s.pc i = .crit) : Step N s { s with pc := upd s.pc i .dErr }
  | casOk    (s i) (hi : i < N) (h : s.pc i = .dOk) (hc : s.ctr = some i) : Step N s { s with pc := upd s.pc i .done, ctr := some (i+1) }
  | casNo    (s i) (hi : i < N) (h : s.pc i = .dOk) (hc : s.ctr ≠ some i) : Step N s { s with pc := upd s.pc i .done }
  | cancel   (s i) (hi : i < N) (h : s.pc i = .dErr) : Step N s { s with pc := upd s.pc i .done, ctr := none }

def init : St := { ctr := some 0, pc := fun _ => .work, log := [] }

/-- invariant -/
structure Inv (N : Nat) (s : St) : Prop where
  /-- at most one task in crit -/
  mutex : ∀ i j, s.pc i = .crit → s.pc j = .crit → i = j
  /-- while not cancelled: tasks below c are done, task in crit / dOk is exactly c -/
  low   : ∀ c, s.ctr = some c → ∀ i, i < c → s.pc i = .done
  high  : ∀ c, s.ctr = some c → ∀ i, c < i → s.pc i = .work ∨ s.pc i = .wait ∨ s.pc i = .dErr
  /-- the task holding or having held the token and not yet published -/
  cur   : ∀ c, s.ctr = some c → ∀ i, s.pc i = .crit → i = c

theorem inv_init (N) : Inv N init := by
  constructor <;> simp [init]

theorem inv_step (N) (s t : St) (hI : Inv N s) (hs : Step N s t) : Inv N t := by
  obtain ⟨hm, hl, hh, hc⟩ := hI
  cases hs <;> (first | exact ⟨hm, hl, hh, hc⟩ | skip)
  all_goals
    refine ⟨?_, ?_, ?_, ?_⟩
    all_goals simp only [upd]
    all_goals (try grind)
  · rename_i i hi h hci
    intro c hc' a ha
    injection hc' with hc'
    subst hc'
    by_cases h1 : a = i
    · simp [h1]
    · simp only [h1, if_false]
      exact hl _ hci a (by omega)
  · rename_i i hi h hci
    intro c hc' a ha
    injection hc' with hc'
    subst hc'
    have h1 : a ≠ i := by omega
    simp only [h1, if_false]
    exact hh _ hci a (by omega)

end Proto
