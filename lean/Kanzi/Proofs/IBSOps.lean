/-
Layer 1, continued: every operation of the concrete stream is simulated by the same operation of
the abstract word machine `A` (defined here by mirroring the model with `A.pull` for `pull`).
-/
import Kanzi.Proofs.IBSSim

namespace Kanzi.IBS

/-- consume `n ≤ avail` bits of the current word -/
def A.take (a : A) (n : Nat) : A := { a with avail := a.avail - n, cnt := a.cnt + n }

def A.readBit (a : A) : Res (BitVec 64) × A :=
  if a.avail = 0 then
    match a.pull.1 with
    | some e => (.panic e, a.pull.2)
    | none => (.val ((a.pull.2.cur >>> (a.pull.2.avail - 1)) &&& 1), a.pull.2.take 1)
  else (.val ((a.cur >>> (a.avail - 1)) &&& 1), a.take 1)

def A.readBitsAux : Nat → A → Nat → Res (BitVec 64) × A
  | 0, a, _ => (.panic .fuel, a)
  | fuel + 1, a, n =>
    if n = 0 ∨ n > 64 then (.panic .invalidCount, a)
    else if n ≤ a.avail then
      (.val ((a.cur >>> (a.avail - n)) &&& mask n), a.take n)
    else
      match a.pull.1 with
      | some e => (.panic e, a.pull.2)
      | none =>
        match (A.readBitsAux fuel a.pull.2 (n - a.avail)).1 with
        | .val v =>
          (.val (((a.cur &&& mask a.avail) <<< (n - a.avail)) ||| v),
            (A.readBitsAux fuel a.pull.2 (n - a.avail)).2)
        | .panic e => (.panic e, (A.readBitsAux fuel a.pull.2 (n - a.avail)).2)

def A.readBits (a : A) (n : Nat) : Res (BitVec 64) × A := A.readBitsAux (n + 2) a n

def A.hasMore (a : A) : Res Unit × A :=
  if a.closed then (.panic .closed, a)
  else if a.rest ≠ [] ∨ a.avail ≠ 0 then (.val (), a)
  else (.panic a.ending, a)

def A.close (a : A) : A :=
  if a.closed then a else { a with closed := true, avail := 0, rest := [] }

/-- simulation of one value-returning operation -/
def SimR {α : Type} (s : St) (r : Res α × St) (r' : Res α × A) : Prop :=
  r.1 = r'.1 ∧ abs r.2 = r'.2 ∧ Inv r.2 ∧ (Fresh s → (∀ e, r.1 ≠ .panic e) → Fresh r.2)

theorem abs_take (s : St) (n : Nat) (hn : n ≤ s.availBits) (hi : Inv s) :
    abs { s with availBits := s.availBits - n } = (abs s).take n ∧
    Inv { s with availBits := s.availBits - n } ∧
    (Fresh s → Fresh { s with availBits := s.availBits - n }) := by
  refine ⟨?_, ?_, fun h => h⟩
  · apply A.ext' <;> try rfl
    simp only [abs, A.take, St.count]; push_cast; omega
  · refine ⟨hi.blen, hi.bpos, hi.mp, hi.lim_le, ?_, hi.ne, hi.pend, hi.al, ?_⟩
    · have := hi.avail_le; simp only; omega
    · intro h; have := hi.cl h; simp only; omega

theorem A.pull_none (a : A) (h : a.pull.1 = none) : a.closed = false ∧ a.rest ≠ [] := by
  unfold A.pull at h
  cases hc : a.closed with
  | true => simp [hc] at h
  | false =>
    refine ⟨rfl, fun hr => ?_⟩
    simp [hc, hr] at h

theorem pull_avail_pos (s : St) (hi : Inv s) (h : (pull s).1 = none) :
    8 ≤ (pull s).2.availBits := by
  obtain ⟨p1, p2, p3, p4⟩ := pull_sim s hi
  have hA : (A.pull (abs s)).1 = none := by rw [← p1]; exact h
  obtain ⟨a1, a2⟩ := A.pull_none _ hA
  have : (abs (pull s).2).avail = (pull s).2.availBits := rfl
  rw [← this, p2, A.pull_ok _ a1 a2]
  have : 0 < ((abs s).rest.take 8).length := by
    simp only [List.length_take]
    have := List.length_pos_iff.mpr a2
    omega
  simp only; omega

theorem readBit_sim (s : St) (hi : Inv s) : SimR s (readBit s) (A.readBit (abs s)) := by
  obtain ⟨p1, p2, p3, p4⟩ := pull_sim s hi
  unfold readBit A.readBit
  have hav : (abs s).avail = s.availBits := rfl
  have hcur : (abs s).cur = s.current := rfl
  rw [hav, hcur]
  by_cases h0 : s.availBits = 0
  · simp only [h0, ↓reduceIte]
    rw [← p1]
    cases hp : (pull s).1 with
    | some e => exact ⟨rfl, p2, p3, fun _ h => absurd rfl (h e)⟩
    | none =>
      have h8 := pull_avail_pos s hi hp
      obtain ⟨t1, t2, t3⟩ := abs_take (pull s).2 1 (by omega) p3
      simp only
      refine ⟨?_, ?_, t2, fun _ _ => t3 (p4 hp).1⟩
      · rw [← p2]; rfl
      · rw [t1, p2]
  · simp only [h0, ↓reduceIte]
    obtain ⟨t1, t2, t3⟩ := abs_take s 1 (by omega) hi
    exact ⟨rfl, t1, t2, fun h _ => t3 h⟩

theorem readBitsAux_sim : ∀ (fuel : Nat) (s : St) (n : Nat), Inv s →
    SimR s (readBitsAux fuel s n) (A.readBitsAux fuel (abs s) n) := by
  intro fuel
  induction fuel with
  | zero => intro s n hi; exact ⟨rfl, rfl, hi, fun h _ => h⟩
  | succ fuel ih =>
    intro s n hi
    obtain ⟨p1, p2, p3, p4⟩ := pull_sim s hi
    unfold readBitsAux A.readBitsAux
    have hav : (abs s).avail = s.availBits := rfl
    have hcur : (abs s).cur = s.current := rfl
    rw [hav, hcur]
    by_cases hn : n = 0 ∨ n > 64
    · simp only [hn, ↓reduceIte]; exact ⟨rfl, rfl, hi, fun h _ => h⟩
    · simp only [hn, ↓reduceIte]
      by_cases hle : n ≤ s.availBits
      · simp only [hle, ↓reduceIte]
        obtain ⟨t1, t2, t3⟩ := abs_take s n hle hi
        exact ⟨rfl, t1, t2, fun h _ => t3 h⟩
      · simp only [hle, ↓reduceIte]
        rw [← p1]
        cases hp : (pull s).1 with
        | some e => exact ⟨rfl, p2, p3, fun _ h => absurd rfl (h e)⟩
        | none =>
          simp only
          obtain ⟨q1, q2, q3, q4⟩ := ih (pull s).2 (n - s.availBits) p3
          rw [← p2, ← q1]
          cases hr : (readBitsAux fuel (pull s).2 (n - s.availBits)).1 with
          | val v =>
            simp only
            refine ⟨rfl, q2, q3, fun _ _ => q4 (p4 hp).1 ?_⟩
            intro e he; rw [hr] at he; cases he
          | panic e =>
            simp only
            exact ⟨rfl, q2, q3, fun _ h => absurd rfl (h e)⟩

theorem readBits_sim (s : St) (n : Nat) (hi : Inv s) :
    SimR s (readBits s n) (A.readBits (abs s) n) := readBitsAux_sim (n + 2) s n hi

theorem hasMore_sim (s : St) (hi : Inv s) :
    (hasMore s).1 = (A.hasMore (abs s)).1 ∧ abs (hasMore s).2 = (A.hasMore (abs s)).2 ∧
    Inv (hasMore s).2 := by
  unfold hasMore A.hasMore
  have hcl : (abs s).closed = s.closed := rfl
  rw [hcl]
  cases hc : s.closed with
  | true => exact ⟨rfl, rfl, hi⟩
  | false =>
    simp only [Bool.false_eq_true, ↓reduceIte]
    have hrest := abs_rest_open s hc
    have hnil := bufRest_nil_iff s hi
    by_cases h1 : (s.position : Int) ≤ s.maxPosition ∨ s.availBits ≠ 0
    · have h2 : (abs s).rest ≠ [] ∨ (abs s).avail ≠ 0 := by
        rcases h1 with h1 | h1
        · left; rw [hrest]
          have : s.bufRest ≠ [] := fun h => by have := hnil.mp h; omega
          simp [this]
        · right; exact h1
      rw [if_pos h1, if_pos h2]; exact ⟨rfl, rfl, hi⟩
    · have hb : s.bufRest = [] := hnil.mpr (by omega)
      rw [if_neg h1]
      cases hp : s.pendingErr with
      | some e =>
        have h2 : ¬ ((abs s).rest ≠ [] ∨ (abs s).avail ≠ 0) := by
          rw [hrest, hb, hp]
          have : (abs s).avail = s.availBits := rfl
          simp only [future, List.append_nil, ne_eq, not_true_eq_false, false_or, this]; omega
        rw [if_neg h2]
        exact ⟨by rw [hi.pend e hp]; rfl, rfl, hi⟩
      | none =>
        simp only
        cases hr : (refill s).1 with
        | some e =>
          obtain ⟨r1, r2, r3, r4, r5, r6, r7, r8, r9, r10⟩ := refill_err s hi hc e hr
          have h2 : ¬ ((abs s).rest ≠ [] ∨ (abs s).avail ≠ 0) := by
            rw [hrest, hb, r2]
            have : (abs s).avail = s.availBits := rfl
            simp only [List.append_nil, ne_eq, not_true_eq_false, false_or, this]; omega
          rw [if_neg h2]
          refine ⟨by rw [r1]; rfl, ?_, r3⟩
          apply A.ext'
          · simp [abs, r4, hc]
          · simp [abs, r5]
          · simp [abs, r6]
          · simp [abs, r7]
          · rw [abs_rest_open _ r4, hrest, r8, r9, hb, r2]
          · simp [abs, r10]
        | none =>
          obtain ⟨r1, r2, r3, r4, r5, r6, r7, r8, r9, r10⟩ := refill_ok s hi hc hr
          have habs : abs (refill s).2 = abs s := by
            apply A.ext'
            · simp [abs, r4, hc]
            · simp [abs, r5]
            · simp [abs, r6]
            · simp [abs, r7]
            · rw [abs_rest_open _ r4, hrest, r9, hb, r1]; rfl
            · simp [abs, r10]
          have h2 : (abs s).rest ≠ [] ∨ (abs s).avail ≠ 0 := by
            left; rw [← habs, abs_rest_open _ r4]; simp [r8]
          rw [if_pos h2]
          exact ⟨rfl, habs, r2⟩

theorem close_sim (s : St) (hi : Inv s) : abs (close s) = A.close (abs s) ∧ Inv (close s) := by
  unfold close A.close
  have hcl : (abs s).closed = s.closed := rfl
  rw [hcl]
  cases hc : s.closed with
  | true => exact ⟨rfl, hi⟩
  | false =>
    simp only [Bool.false_eq_true, ↓reduceIte]
    refine ⟨?_, ?_⟩
    · apply A.ext'
      · rfl
      · simp only [abs, St.count]; push_cast; omega
      · rfl
      · rfl
      · simp [abs]
      · rfl
    · refine ⟨hi.blen, hi.bpos, by simp, by simp [St.lim], by simp, hi.ne, by simp, ?_, by simp⟩
      intro _; simp [St.bufRest, St.lim]

end Kanzi.IBS
