/-
Model of the order-0 range coder of kanzi-go (v2/entropy/RangeCodec.go; property C12), over the
abstract bit strings of `Kanzi.Bits`.  Core Lean only (linked into `kmodel`).

  * `RangeEncoder.Write`  (chunk loop, lowering of the log range for short chunks,
    `rebuildStatistics` = histogram + `NormalizeFrequencies` (model `Kanzi.Normalize.normalize`) +
    `encodeHeader` (model `EntSmall.rangeEncodeHeader`), `encodeByte`, the 60-bit flush of `low`)
  * `RangeDecoder.Read`   (`decodeHeader` (model `EntSmall.rangeDecodeHeader`), the cumulated
    frequencies and the reverse table `f2s`, the 60-bit initial read, `decodeByte`)

Registers.  `low`, `rng` (Go `rng`) and `code` are Go `uint64`: they are `Nat` here and every
operation that can wrap or shift bits out in Go carries an explicit `% 2^64`.  Note that the Go
code never masks `low` / `code` to 60 bits: `low <<= 28` keeps 4 stale bits above bit 59.  The
model keeps them too; the proofs show that they never matter.

The carry-less renormalisation loop `for { … }` of `encodeByte` / `decodeByte` has no bound in
Go.  It is modelled with fuel (`normFuel` = 64); `Kanzi.Range.normLoop_fuel` proves that from
every reachable state the loop leaves through its `break` after at most 2 shifts, so that any
fuel ≥ 3 gives the same result.

Conventions as in `Kanzi.EntSmall`: an encoder produces `Bits`, a decoder is
`Bits → Option (value × Bits)` returning the value and the REST of the bits; `none` = a Go panic
(read past the end, index out of range, division by zero) or an "Invalid bitstream" error.
Not modelled: the decoder keeps its `f2s` slice between chunks and only reallocates it when it is
too short, so on a CORRUPT stream an out-of-range slot (`count ≥ 2^lr`) can read a stale entry
instead of faulting; the model answers `none` in both cases (valid streams never get there:
`Kanzi.C12.C12_range_step`).
-/
import Kanzi.Spec.Bits
import Kanzi.Model.Normalize
import Kanzi.Model.EntSmall

namespace Kanzi.Range
open Kanzi.Bits Kanzi.EntSmall

/-! ### constants -/

def topRange : Nat := 0x0FFFFFFFFFFFFFFF      -- _TOP_RANGE
def bottomRange : Nat := 0x000000000000FFFF   -- _BOTTOM_RANGE
def rangeMask : Nat := 0x0FFFFFFF00000000     -- _RANGE_MASK
def defaultChunkSize : Nat := 32768           -- _DEFAULT_RANGE_CHUNK_SIZE
def defaultLogRange : Nat := 12               -- _DEFAULT_RANGE_LOG_RANGE
def maxChunkSize : Nat := 1073741824          -- _RANGE_MAX_CHUNK_SIZE = 1 << 30

/-- the argument checks of `NewRangeEncoder` / `NewRangeDecoder` -/
def ctorOk (chunkSize logRange : Nat) : Bool :=
  decide (1024 ≤ chunkSize) && decide (chunkSize ≤ maxChunkSize) && decide (8 ≤ logRange) && decide (logRange ≤ 16)

/-! ### the renormalisation shared by `encodeByte` and `decodeByte` -/

/-- Go: `(low ^ (low+rng)) & _RANGE_MASK != 0` (64-bit addition) -/
def topDiffers (low rng : Nat) : Bool :=
  ((low ^^^ ((low + rng) % 2 ^ 64)) &&& rangeMask) != 0

/-- Go: `-low & _BOTTOM_RANGE` (64-bit negation) -/
def negLowBottom (low : Nat) : Nat := ((2 ^ 64 - low % 2 ^ 64) % 2 ^ 64) &&& bottomRange

/-- the head of the loop body:
    `if (low^(low+rng))&MASK != 0 { if rng > BOTTOM { break }; rng = -low & BOTTOM }`.
    `none` = break, `some r` = go on to the shift with range `r`. -/
def normRng (low rng : Nat) : Option Nat :=
  if topDiffers low rng then
    if rng > bottomRange then none else some (negLowBottom low)
  else some rng

/-- fuel given to the (unbounded) Go loop; 3 is enough (`normLoop_fuel`) -/
def normFuel : Nat := 64

/-- the loop of `encodeByte`: returns the bits written (`WriteBits(low>>32, 28)` per round) and
    the new `(low, rng)` -/
def normLoop : Nat → Nat → Nat → Bits × Nat × Nat
  | 0, low, rng => ([], low, rng)
  | fuel + 1, low, rng =>
    match normRng low rng with
    | none => ([], low, rng)
    | some r =>
      let t := normLoop fuel ((low <<< 28) % 2 ^ 64) ((r <<< 28) % 2 ^ 64)
      (natBits (low >>> 32) 28 ++ t.1, t.2)

/-- the loop of `decodeByte`: `code = (code << 28) | ReadBits(28)` per round -/
def decNorm : Nat → Nat → Nat → Nat → Bits → Option ((Nat × Nat × Nat) × Bits)
  | 0, low, rng, code, bs => some ((low, rng, code), bs)
  | fuel + 1, low, rng, code, bs =>
    match normRng low rng with
    | none => some ((low, rng, code), bs)
    | some r =>
      match readBits 28 bs with
      | none => none
      | some (w, bs') =>
        decNorm fuel ((low <<< 28) % 2 ^ 64) ((r <<< 28) % 2 ^ 64) (((code <<< 28) % 2 ^ 64) ||| w) bs'

/-! ### tables -/

def cumList : Nat → List Nat → List Nat
  | c, [] => [c]
  | c, fi :: fs => c :: cumList (c + fi) fs

/-- `cumFreqs[0..256]`: `cumFreqs[0] = 0; cumFreqs[i+1] = cumFreqs[i] + frequencies[i]` -/
def mkCum (f : List Nat) : Array Nat := (cumList 0 f).toArray

def f2sList : List Nat → Nat → List Nat
  | [], _ => []
  | fi :: fs, i => List.replicate fi i ++ f2sList fs (i + 1)

/-- the decoder's reverse mapping `f2s[cumFreqs[i] + j] = i` for `j < frequencies[i]`
    (exactly `Σ f = 2^lr` entries) -/
def mkF2s (f : List Nat) : Array Nat := (f2sList f 0).toArray

/-! ### encoder -/

/-- `encodeByte` for a symbol of cumulated frequency `c` and frequency `fr`
    (`rng >>= shift; low += c*rng; rng *= fr;` then the loop) -/
def encStep (shift low rng c fr : Nat) : Bits × Nat × Nat :=
  normLoop normFuel ((low + c * (rng >>> shift)) % 2 ^ 64) (((rng >>> shift) * fr) % 2 ^ 64)

/-- `for i := range buf { encodeByte(buf[i]) }` followed by the flush `WriteBits(low, 60)`:
    everything the encoder writes for the payload of a chunk, from state `(low, rng)` on -/
def encTail (cum : Array Nat) (shift : Nat) : List Nat → Nat → Nat → Bits
  | [], low, _ => natBits low 60
  | s :: ss, low, rng =>
    let n := encStep shift low rng (cum.getD s 0) (cum.getD (s + 1) 0 - cum.getD s 0)
    n.1 ++ encTail cum shift ss n.2.1 n.2.2

def lowerLr : Nat → Nat → Nat → Nat
  | 0, lr, _ => lr
  | k + 1, lr, len => if lr > 8 ∧ 2 ^ lr > len then lowerLr k (lr - 1) len else lr

/-- Go: `lr := logRange; for lr > 8 && 1<<lr > endChunk-startChunk { lr-- }` -/
def chunkLr (logRange len : Nat) : Nat := lowerLr logRange logRange len

/-- one round of the chunk loop of `Write`; `none` = an error of `NormalizeFrequencies` /
    `EncodeAlphabet` -/
def encodeChunk (c : List Nat) (logRange : Nat) : Option Bits :=
  match Kanzi.Normalize.normalize (histogram c) c.length (2 ^ chunkLr logRange c.length) with
  | .err _ => none
  | .ok o =>
    some (rangeEncodeHeader o.alphabet o.freqs (chunkLr logRange c.length)
          ++ (if o.size ≤ 1 then []
              else encTail (mkCum o.freqs) (chunkLr logRange c.length) c 0 topRange))

def encodeChunks : Nat → Nat → Nat → List Nat → Option Bits
  | 0, _, _, _ => some []
  | fuel + 1, chunkSize, logRange, blk =>
    if blk.length = 0 then some []
    else
      match encodeChunk (blk.take chunkSize) logRange with
      | none => none
      | some b =>
        match encodeChunks fuel chunkSize logRange (blk.drop chunkSize) with
        | none => none
        | some tl => some (b ++ tl)

/-- `RangeEncoder.Write(block)` then `Dispose()` (which writes nothing) -/
def encode (blk : List Nat) (chunkSize logRange : Nat) : Option Bits :=
  encodeChunks blk.length chunkSize logRange blk

/-! ### decoder -/

/-- Go: `count := int((code - low) / rng)` after `rng >>= shift` (64-bit subtraction) -/
def slot (shift low rng code : Nat) : Nat := ((code + 2 ^ 64 - low) % 2 ^ 64) / (rng >>> shift)

/-- the rest of `decodeByte` once `symbol := f2s[count]` is known -/
def decStepSym (cum : Array Nat) (shift low rng code : Nat) (bs : Bits) (s : Nat) :
    Option ((Nat × Nat × Nat × Nat) × Bits) :=
  match decNorm normFuel ((low + cum.getD s 0 * (rng >>> shift)) % 2 ^ 64)
      (((rng >>> shift) * (cum.getD (s + 1) 0 - cum.getD s 0)) % 2 ^ 64) code bs with
  | none => none
  | some ((l, g, cd), bs') => some ((s, l, g, cd), bs')

/-- `decodeByte`: returns the symbol and the new `(low, rng, code)` -/
def decStep (cum f2s : Array Nat) (shift low rng code : Nat) (bs : Bits) :
    Option ((Nat × Nat × Nat × Nat) × Bits) :=
  if rng >>> shift = 0 then none                           -- Go: integer divide by zero
  else if slot shift low rng code ≥ f2s.size then none     -- Go: index out of range
  else decStepSym cum shift low rng code bs (f2s.getD (slot shift low rng code) 0)

/-- `for i := range buf { buf[i] = decodeByte() }` -/
def decSyms (cum f2s : Array Nat) (shift : Nat) : Nat → Nat → Nat → Nat → Bits → Option (List Nat × Bits)
  | 0, _, _, _, bs => some ([], bs)
  | n + 1, low, rng, code, bs =>
    match decStep cum f2s shift low rng code bs with
    | none => none
    | some ((s, l, g, cd), bs') =>
      match decSyms cum f2s shift n l g cd bs' with
      | none => none
      | some (tl, r) => some (s :: tl, r)

/-- the payload of a chunk with more than one symbol:
    `rng = TOP; low = 0; code = ReadBits(60)`, then `len` symbols -/
def decodePayload (f : List Nat) (lr len : Nat) (bs : Bits) : Option (List Nat × Bits) :=
  match readBits 60 bs with
  | none => none
  | some (code, r) => decSyms (mkCum f) (mkF2s f) lr len 0 topRange code r

/-- the chunk loop of `Read`; `count` = bytes still to produce.  An empty alphabet makes `Read`
    return early with what it has (`return startChunk, err` with `err == nil`). -/
def decodeChunks : Nat → Nat → Nat → Bits → Option (List Nat × Bits)
  | 0, _, _, bs => some ([], bs)
  | fuel + 1, chunkSize, count, bs =>
    if count = 0 then some ([], bs)
    else
      match rangeDecodeHeader bs with
      | none => none
      | some ((a, f, lr), r) =>
        if a.length = 0 then some ([], r)
        else
          match (if a.length = 1 then some (List.replicate (min chunkSize count) (a.headD 0), r)
                 else decodePayload f lr (min chunkSize count) r) with
          | none => none
          | some (c, r1) =>
            match decodeChunks fuel chunkSize (count - min chunkSize count) r1 with
            | none => none
            | some (tl, r2) => some (c ++ tl, r2)

/-- `RangeDecoder.Read(block)` with `len(block) = count` -/
def decode (bs : Bits) (count chunkSize : Nat) : Option (List Nat × Bits) :=
  decodeChunks count chunkSize count bs

end Kanzi.Range
