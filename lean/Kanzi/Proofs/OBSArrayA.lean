/-
`WriteArray`, byte-aligned branch: the byte loop, the bulk copy loop and the trailing copy.
-/
import Kanzi.Proofs.OBSCore

namespace Kanzi.OBS
open Kanzi.Bits

theorem Step.refl (s : St) (h : Inv s) : Step s s [] :=
  { toProg := Prog.refl s, inv := h, sabs := by simp }

/-- result of one of the loops of `WriteArray`: on success the bytes `c` were consumed from `rest`
    and appended, and `post` holds -/
def LRes (s : St) (rest : List Byte) (rem : Nat) (l : LS) (post : LS → Prop) : Prop :=
  (l.out = .ok ∧ (∃ c, rest = c ++ l.rest ∧ rem = 8 * c.length + l.rem ∧ Step s l.st (byteBits c)) ∧ post l) ∨
  (l.out = .panic .io ∧ IoFail s l.st)

theorem natBits_byte (b : Byte) : natBits (b.setWidth 64).toNat 8 = byteBits [b] := by
  have : (b.setWidth 64).toNat = b.toNat := by
    simp [BitVec.toNat_setWidth]; omega
  rw [this]
  simp [byteBits, ofBytes_cons, ofBytes_nil]

theorem byteLoop_spec (u : Bool) (rest : List Byte) : ∀ (s : St) (rem : Nat), Inv s → rem ≤ 8 * rest.length →
    LRes s rest rem (byteLoop u s rest rem)
      (fun l => (u = true ∧ l.st.availBits = 64) ∨ l.rem < 8) := by
  induction rest with
  | nil =>
    intro s rem h hr
    have : rem = 0 := by simpa using hr
    subst this
    unfold byteLoop
    simp only [Nat.zero_lt_succ, decide_true, Bool.or_true, if_true]
    left
    exact ⟨rfl, ⟨[], rfl, rfl, Step.refl s h⟩, Or.inr (by simp)⟩
  | cons b tl ih =>
    intro s rem h hr
    unfold byteLoop
    by_cases hc : ((u && s.availBits == 64) || decide (rem < 8)) = true
    · rw [if_pos hc]
      left
      refine ⟨rfl, ⟨[], rfl, by simp, Step.refl s h⟩, ?_⟩
      simp only [Bool.or_eq_true, Bool.and_eq_true, beq_iff_eq, decide_eq_true_eq] at hc
      exact hc
    · rw [if_neg hc]
      simp only [Bool.or_eq_true, Bool.and_eq_true, beq_iff_eq, decide_eq_true_eq, not_or] at hc
      have hrem : 8 ≤ rem := by omega
      have hw := writeBits_spec s (b.setWidth 64) 8 h (by omega)
      rcases hres : writeBits s (b.setWidth 64) 8 with ⟨p, o⟩
      rw [hres] at hw
      rcases hw with ⟨e, f⟩ | ⟨e, f⟩
      · simp only at e f
        subst e
        simp only
        rw [natBits_byte] at f
        have hl : rem - 8 ≤ 8 * tl.length := by simp at hr; omega
        rcases ih p (rem - 8) f.inv hl with ⟨e2, ⟨c, hc1, hc2, hc3⟩, hpost⟩ | ⟨e2, f2⟩
        · left
          refine ⟨e2, ⟨b :: c, by rw [List.cons_append, ← hc1], by simp; omega, ?_⟩, hpost⟩
          have := f.trans hc3
          rwa [← byteBits_append] at this
        · right
          exact ⟨e2, IoFail.after f.toProg f2⟩
      · simp only at e f
        subst e
        right
        exact ⟨rfl, f⟩


theorem curBits_def (s : St) : curBits s = (wordBits s.current).take (64 - s.availBits) := rfl

theorem BStep.toStep {s s' : St} {bits : Bits} (h : Inv s) (hb : BStep s s' bits)
    (hc : s.availBits = 64 ∨ bits = []) : Step s s' bits := by
  refine ⟨hb.toProg, ⟨hb.binv, by rw [hb.av]; exact h.av1, by rw [hb.av]; exact h.av64,
    by rw [hb.av, hb.cur]; exact h.low⟩, ?_⟩
  have e : curBits s' = curBits s := by rw [curBits_def, curBits_def, hb.av, hb.cur]
  unfold abs
  rw [hb.babs, e]
  rcases hc with hc | hc
  · have : curBits s = [] := by rw [curBits_def, hc]; simp
    simp [this]
  · simp [hc]

theorem bulkStep_spec (s : St) (rest : List Byte) (h : BufInv s)
    (hn : s.buffer.length - 8 - s.position ≤ rest.length) :
    ((bulkStep s rest).2 = .ok ∧
        BStep s (bulkStep s rest).1 (byteBits (rest.take (s.buffer.length - 8 - s.position))) ∧
        (bulkStep s rest).1.position = 0) ∨
    ((bulkStep s rest).2 = .panic .io ∧ IoFail s (bulkStep s rest).1) := by
  have hl := h.posle
  have h16 := h.len16
  unfold bulkStep
  have hlen : (rest.take (s.buffer.length - 8 - s.position)).length = s.buffer.length - 8 - s.position := by
    simp; omega
  rcases flush_spec { s with buffer := copyInto s.buffer s.position (rest.take (s.buffer.length - 8 - s.position)),
                             position := s.buffer.length - 8 } h.open_ (by simp) with ⟨e, f⟩ | ⟨e, f⟩
  · left
    refine ⟨e, ⟨⟨by rw [f.len]; simp, f.plan, f.calls, f.nofail, f.counted, f.sinkPre⟩, ?_, ?_, f.cur, f.av⟩, f.pos⟩
    · refine ⟨by rw [f.cl]; exact h.open_, by rw [f.buf]; simpa using h16, by rw [f.buf]; simpa using h.len8,
        by rw [f.pos], by rw [f.pos, f.buf]; simp; omega⟩
    · rw [f.fabs]
      simp only [absBuf_def]
      generalize rest.take (s.buffer.length - 8 - s.position) = src at hlen ⊢
      have e1 : s.buffer.length - 8 = s.position + src.length := by omega
      rw [e1, copyInto_take _ _ _ (by omega), byteBits_append, List.append_assoc]
  · right
    exact ⟨e, f.plan, f.lt, f.failed, f.before⟩

theorem bulkLoop_spec : ∀ (f : Nat) (s : St) (rest : List Byte) (rem : Nat), Inv s →
    (s.availBits = 64 ∨ rem < 8) → rem ≤ 8 * rest.length →
    rest.length + 1 < f + (if s.position = 0 then 1 else 0) →
    LRes s rest rem (bulkLoop f s rest rem)
      (fun l => l.rem / 8 < s.buffer.length - 8 - l.st.position ∧ l.st.availBits = s.availBits) := by
  intro f
  induction f with
  | zero =>
    intro s rest rem h ha hr hf
    split at hf <;> omega
  | succ f ih =>
    intro s rest rem h ha hr hf
    have hl := h.posle
    unfold bulkLoop
    rw [if_neg (by omega)]
    by_cases hx : rem / 8 < s.buffer.length - 8 - s.position
    · rw [if_pos hx]
      left
      exact ⟨rfl, ⟨[], rfl, by simp, Step.refl s h⟩, hx, rfl⟩
    · rw [if_neg hx, if_neg (by omega)]
      have hb := bulkStep_spec s rest h.toBufInv (by omega)
      rcases hres : bulkStep s rest with ⟨p, o⟩
      rw [hres] at hb
      rcases hb with ⟨e, fb, hp0⟩ | ⟨e, fb⟩
      · simp only at e fb hp0
        subst e
        simp only
        have hn0 : s.availBits = 64 ∨ s.buffer.length - 8 - s.position = 0 := by
          rcases ha with ha | ha
          · exact Or.inl ha
          · right; omega
        have st : Step s p (byteBits (rest.take (s.buffer.length - 8 - s.position))) := by
          apply fb.toStep h
          rcases hn0 with h1 | h1
          · exact Or.inl h1
          · right; rw [h1]; rfl
        have hav : p.availBits = s.availBits := fb.av
        have hlen : p.buffer.length = s.buffer.length := fb.len
        have hf' : (rest.drop (s.buffer.length - 8 - s.position)).length + 1 < f + (if p.position = 0 then 1 else 0) := by
          rw [hp0]; simp only [if_true, List.length_drop]
          have := h.len16
          split at hf <;> omega
        rcases ih p (rest.drop (s.buffer.length - 8 - s.position)) (rem - 8 * (s.buffer.length - 8 - s.position))
            st.inv (by rw [hav]; omega) (by simp only [List.length_drop]; omega) hf' with
          ⟨e2, ⟨c, hc1, hc2, hc3⟩, hpost⟩ | ⟨e2, f2⟩
        · left
          refine ⟨e2, ⟨rest.take (s.buffer.length - 8 - s.position) ++ c, ?_, ?_, ?_⟩, ?_⟩
          · rw [List.append_assoc, ← hc1, List.take_append_drop]
          · simp only [List.length_append, List.length_take]; omega
          · rw [byteBits_append]; exact st.trans hc3
          · rw [hlen, hav] at hpost; exact hpost
        · right
          exact ⟨e2, IoFail.after st.toProg f2⟩
      · simp only at e fb
        subst e
        right
        exact ⟨rfl, fb⟩


theorem tailCopy_spec (b : LS) (h : Inv b.st) (ha : b.st.availBits = 64 ∨ b.rem < 8)
    (hr : b.rem ≤ 8 * b.rest.length) (hx : b.rem / 8 < b.st.buffer.length - 8 - b.st.position)
    (ho : b.out = .ok) :
    (tailCopy b).out = .ok ∧ (∃ c, b.rest = c ++ (tailCopy b).rest ∧ b.rem = 8 * c.length + (tailCopy b).rem ∧
      Step b.st (tailCopy b).st (byteBits c)) ∧ (tailCopy b).rem < 64 := by
  unfold tailCopy
  by_cases hpos : b.rem / 64 * 8 > 0
  · rw [if_pos hpos]
    have h64 : b.st.availBits = 64 := by rcases ha with h1 | h1 <;> omega
    have hlen : (b.rest.take (b.rem / 64 * 8)).length = b.rem / 64 * 8 := by simp; omega
    refine ⟨rfl, ⟨b.rest.take (b.rem / 64 * 8), (List.take_append_drop _ _).symm,
      by rw [hlen]; show b.rem = 8 * (b.rem / 64 * 8) + (b.rem - 8 * (b.rem / 64 * 8)); omega, ?_⟩,
      by show b.rem - 8 * (b.rem / 64 * 8) < 64; omega⟩
    apply BStep.toStep h _ (Or.inl h64)
    have hp8 := h.pos8
    have hl8 := h.len8
    refine ⟨⟨by simp, rfl, Nat.le_refl _, fun k a b => by simp at b; omega, id, ⟨[], by simp⟩⟩,
      ⟨h.open_, by simpa using h.len16, by simpa using hl8, by show (b.st.position + b.rem / 64 * 8) % 8 = 0; omega,
        by show b.st.position + b.rem / 64 * 8 + 8 ≤ (copyInto _ _ _).length; simp; omega⟩, ?_, rfl, rfl⟩
    simp only [absBuf_def]
    generalize b.rest.take (b.rem / 64 * 8) = src at hlen ⊢
    rw [← hlen, copyInto_take _ _ _ (by omega), byteBits_append, List.append_assoc]
  · rw [if_neg hpos]
    exact ⟨ho, ⟨[], rfl, by simp, Step.refl _ h⟩, by omega⟩

theorem alignedPart_spec (s : St) (bytes : List Byte) (count : Nat) (h : Inv s)
    (hc : count ≤ 8 * bytes.length) :
    LRes s bytes count (alignedPart s bytes count) (fun l => l.rem < 64) := by
  unfold alignedPart
  have hA := byteLoop_spec true bytes s count h hc
  generalize byteLoop true s bytes count = a at hA
  rcases hA with ⟨ea, ⟨ca, ha1, ha2, ha3⟩, hpa⟩ | ⟨ea, fa⟩
  · simp only [ea]
    have hra : a.rem ≤ 8 * a.rest.length := by
      have := congrArg List.length ha1
      simp at this; omega
    have hav : a.st.availBits = 64 ∨ a.rem < 8 := by
      rcases hpa with ⟨_, h1⟩ | h1
      · exact Or.inl h1
      · exact Or.inr h1
    have hB := bulkLoop_spec (a.rest.length + 2) a.st a.rest a.rem ha3.inv hav hra (by split <;> omega)
    generalize bulkLoop (a.rest.length + 2) a.st a.rest a.rem = b at hB
    rcases hB with ⟨eb, ⟨cb, hb1, hb2, hb3⟩, hpb1, hpb2⟩ | ⟨eb, fb⟩
    · simp only [eb]
      have hrb : b.rem ≤ 8 * b.rest.length := by
        have := congrArg List.length hb1
        simp at this; omega
      have hlen : b.st.buffer.length = a.st.buffer.length := hb3.len
      obtain ⟨et, ⟨ct, ht1, ht2, ht3⟩, hpt⟩ := tailCopy_spec b hb3.inv (by rw [hpb2]; omega) hrb
        (by rw [hlen]; exact hpb1) eb
      left
      refine ⟨et, ⟨ca ++ (cb ++ ct), ?_, ?_, ?_⟩, hpt⟩
      · rw [List.append_assoc, List.append_assoc, ← ht1, ← hb1, ← ha1]
      · simp only [List.length_append]; omega
      · rw [byteBits_append, byteBits_append]
        exact ha3.trans (hb3.trans ht3)
    · right
      simp only [eb]
      exact ⟨trivial, IoFail.after ha3.toProg fb⟩
  · right
    simp only [ea]
    exact ⟨trivial, fa⟩

end Kanzi.OBS
