package main

import (
	"bytes"
	"flag"
	"fmt"
	"io"
	"math/rand"
	"os"
	"time"

	kio "github.com/flanglet/kanzi-go/v2/io"
	"scratch/gen"
)

type sinkBuf struct{ bytes.Buffer }

func (*sinkBuf) Close() error { return nil }

type rc struct{ io.Reader }

func (rc) Close() error { return nil }

var transforms = []string{"NONE", "BWT", "BWTS", "LZ", "LZX", "LZP", "ROLZ", "ROLZX", "RLT", "ZRLT", "MTFT", "RANK", "SRT", "TEXT", "EXE", "MM", "UTF", "PACK", "DNA", "TEXT+UTF+BWT+RANK+ZRLT", "LZP+TEXT+UTF+BWT+LZP", "TEXT+UTF+EXE+PACK+MM+ROLZ"}
var entropies = []string{"NONE", "HUFFMAN", "ANS0", "ANS1", "RANGE", "FPAQ", "CM", "TPAQ"}

func dec(comp []byte, jobs uint) (n int, err error) {
	defer func() {
		if r := recover(); r != nil {
			err = fmt.Errorf("ESCAPED-PANIC %v", r)
		}
	}()
	r, err := kio.NewReader(rc{bytes.NewReader(comp)}, jobs)
	if err != nil {
		return 0, err
	}
	defer r.Close()
	buf := make([]byte, 1<<16)
	for {
		m, err := r.Read(buf)
		n += m
		if err != nil {
			return n, err
		}
	}
}

func main() {
	seed := flag.Int64("seed", 1, "")
	iters := flag.Int("n", 30, "")
	flag.Parse()
	r := rand.New(rand.NewSource(*seed))
	cur := ""
	go func() {
		for {
			time.Sleep(20 * time.Second)
			fmt.Println("progress:", cur)
		}
	}()
	escaped := 0
	total := 0
	for _, t := range transforms {
		for _, e := range entropies {
			var data []byte
			switch r.Intn(4) {
			case 0:
				data = gen.Text(r, 20000)
			case 1:
				data = gen.Runs(r, 20000)
			case 2:
				data = gen.UTF8(r, 20000, 200)
			default:
				data = gen.Exe(r, 20000, true)
			}
			var sb sinkBuf
			w, err := kio.NewWriter(&sb, t, e, 4096, 1, 32*uint(r.Intn(2)), 0, false)
			if err != nil {
				panic(err)
			}
			if _, err := w.Write(data); err != nil {
				fmt.Println("skip (enc err)", t, e, err)
				continue
			}
			w.Close()
			comp := sb.Bytes()
			for it := 0; it < *iters; it++ {
				bad := append([]byte{}, comp...)
				nm := 1 + r.Intn(4)
				for k := 0; k < nm; k++ {
					p := 14 + r.Intn(len(bad)-14)
					switch r.Intn(3) {
					case 0:
						bad[p] ^= 1 << uint(r.Intn(8))
					case 1:
						bad[p] = byte(r.Intn(256))
					default:
						bad[p] = 0xFF
					}
				}
				jobs := uint(1 + r.Intn(4))
				cur = fmt.Sprintf("%s %s it=%d jobs=%d", t, e, it, jobs)
				t0 := time.Now()
				_, err := dec(bad, jobs)
				total++
				if err != nil && len(err.Error()) > 13 && err.Error()[:13] == "ESCAPED-PANIC" {
					escaped++
					fmt.Println("ESCAPED", cur, err)
				}
				if d := time.Since(t0); d > 3*time.Second {
					fmt.Println("SLOW", cur, d)
				}
			}
		}
	}
	fmt.Println("total", total, "escaped", escaped)
	os.Exit(0)
}
