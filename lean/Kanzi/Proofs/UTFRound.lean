/-
Proofs for the `utf` slice, part 8: Inverse restores what Forward encoded.
-/
import Kanzi.Proofs.UTFInv

namespace Kanzi.UTF
open Kanzi.RLT

/-! ## reading an array given as appended lists -/

theorem arr_get0 (pre rest : List Nat) (x : Nat) : (pre ++ x :: rest).toArray[pre.length]? = some x := by
  simp

theorem arr_get1 (pre rest : List Nat) (x y : Nat) : (pre ++ x :: y :: rest).toArray[pre.length + 1]? = some y := by
  have : pre ++ x :: y :: rest = (pre ++ [x]) ++ y :: rest := by simp
  rw [this]
  have := arr_get0 (pre ++ [x]) rest y
  simp

theorem arr_get2 (pre rest : List Nat) (x y z : Nat) :
    (pre ++ x :: y :: z :: rest).toArray[pre.length + 2]? = some z := by
  have : pre ++ x :: y :: z :: rest = (pre ++ [x, y]) ++ z :: rest := by simp
  rw [this]
  have := arr_get0 (pre ++ [x, y]) rest z
  simp

theorem reassemble (v : Nat) (h : v < 16777216) :
    (((v >>> 16) % 256) <<< 16) ||| (((v >>> 8) % 256) <<< 8) ||| (v % 256) = v := by
  rw [Nat.shiftRight_eq_div_pow, Nat.shiftRight_eq_div_pow, Nat.shiftLeft_eq, Nat.shiftLeft_eq]
  have e1 : v / 2 ^ 16 % 256 * 2 ^ 16 ||| v / 2 ^ 8 % 256 * 2 ^ 8 = v / 2 ^ 16 % 256 * 2 ^ 16 + v / 2 ^ 8 % 256 * 2 ^ 8 :=
    or_eq_add _ _ 16 (by omega) (by omega)
  rw [e1, or_eq_add _ _ 8 (by omega) (by omega)]
  omega

/-! ## the inverse map -/

theorem buildMap_enc (rk : List (Nat × Nat)) : ∀ (pre post : List Nat) (m : Array (List Nat)),
    (∀ p ∈ rk, p.2 < 16777216 ∧ unpack1 p.2 ≠ []) →
    buildMap false (pre ++ (mapBytes rk ++ post)).toArray rk.length pre.length m =
      .ok (m ++ rk.map fun p => unpack1 p.2) := by
  induction rk with
  | nil => intro pre post m _; simp [buildMap]
  | cons p tl ih =>
    intro pre post m hall
    obtain ⟨hlt, hne⟩ := hall p (by simp)
    have e : pre ++ (mapBytes (p :: tl) ++ post) =
        pre ++ (p.2 >>> 16) % 256 :: (p.2 >>> 8) % 256 :: p.2 % 256 :: (mapBytes tl ++ post) := by
      simp [mapBytes]
    have e' : pre ++ (mapBytes (p :: tl) ++ post) =
        (pre ++ [(p.2 >>> 16) % 256, (p.2 >>> 8) % 256, p.2 % 256]) ++ (mapBytes tl ++ post) := by
      simp [mapBytes]
    rw [List.length_cons]
    unfold buildMap
    rw [e, arr_get0, arr_get1, arr_get2]
    simp only [Bool.false_eq_true, if_false]
    rw [reassemble p.2 hlt, if_neg (by simpa using hne)]
    rw [← e, e']
    have := ih (pre ++ [(p.2 >>> 16) % 256, (p.2 >>> 8) % 256, p.2 % 256]) post (m.push (unpack1 p.2))
      (fun q hq => hall q (by simp [hq]))
    simp only [List.length_append, List.length_cons, List.length_nil] at this
    rw [this]
    congr 1

/-! ## the main loop on an alias stream -/

theorem alias_decode (k : Nat) (_h1 : 128 ≤ k) : ((k / 128) <<< 7) + ((128 + k % 128) &&& 0x7F) = k := by
  rw [and_7F, Nat.shiftLeft_eq]; omega

theorem invLoop_enc (srcO : Array Nat) (endI dstEnd : Nat) (kof : Nat → Nat) (m : Array (List Nat))
    (hbO : ∀ x ∈ srcO.toList, x < 256) {j jEnd : Nat} {ts : List (Nat × Nat)} (h : Toks srcO endI j ts jEnd) :
    (∀ t ∈ ts, kof t.2 < 32768 ∧ m.getD (kof t.2) [] = unpack1 t.2) → endI ≤ dstEnd →
    ∀ (pre post : List Nat) (f : Nat) (out : Array Nat), out.size = j → (aliasStream kof ts).length ≤ f →
      invLoop (pre ++ (aliasStream kof ts ++ post)).toArray m (pre.length + (aliasStream kof ts).length) dstEnd f
          pre.length out =
        .ok (pre.length + (aliasStream kof ts).length, out ++ ts.flatMap fun t => unpack1 t.2) := by
  induction h with
  | nil i hi =>
    intro _ _ pre post f out _ _
    cases f with
    | zero => unfold invLoop; rw [if_neg (by simp [aliasStream])]; simp [aliasStream]
    | succ f => unfold invLoop; rw [if_neg (by simp [aliasStream])]; simp [aliasStream]
  | cons j ts jEnd hj hok hrest ih =>
    intro hall hde pre post f out hout hf
    obtain ⟨hk, hm⟩ := hall (tokAt srcO j) (by simp)
    have hall' : ∀ t ∈ ts, kof t.2 < 32768 ∧ m.getD (kof t.2) [] = unpack1 t.2 := fun t ht => hall t (by simp [ht])
    have hlen : (unpack1 (tokAt srcO j).2).length = (tokAt srcO j).1 :=
      ((Toks.cons j ts jEnd hj hok hrest).all hbO _ (by simp)).2.2
    have hs : aliasStream kof (tokAt srcO j :: ts) = aliasBytes (kof (tokAt srcO j).2) ++ aliasStream kof ts := by
      simp [aliasStream]
    have hfm : ((tokAt srcO j :: ts).flatMap fun t => unpack1 t.2) =
        unpack1 (tokAt srcO j).2 ++ ts.flatMap fun t => unpack1 t.2 := by simp
    rw [hs] at hf ⊢
    rw [hfm]
    generalize hS : aliasStream kof ts = S at *
    generalize hK : kof (tokAt srcO j).2 = k at *
    by_cases hsm : k < 128
    · have hab : aliasBytes k = [k] := by simp [aliasBytes, hsm]
      rw [hab] at hf ⊢
      have e1 : pre.length + ([k] ++ S).length = (pre ++ [k]).length + S.length := by simp; omega
      have e2 : pre.length + 1 = (pre ++ [k]).length := by simp
      have e : pre ++ ([k] ++ S ++ post) = pre ++ k :: (S ++ post) := by simp
      have e' : pre ++ ([k] ++ S ++ post) = (pre ++ [k]) ++ (S ++ post) := by simp
      rw [e1]
      cases f with
      | zero => simp at hf
      | succ f =>
        unfold invLoop
        rw [if_pos ⟨by simp; omega, by omega⟩]
        rw [e, arr_get0]
        simp only []
        rw [if_neg (by omega), hm, ← e, e', e2]
        rw [ih hall' hde (pre ++ [k]) post f (out ++ unpack1 (tokAt srcO j).2)
          (by rw [size_appendList, hlen]; omega) (by simp at hf; omega), appendList_assoc']
    · have hab : aliasBytes k = [128 + k % 128, k / 128] := by simp [aliasBytes, hsm]
      rw [hab] at hf ⊢
      have e1 : pre.length + ([128 + k % 128, k / 128] ++ S).length = (pre ++ [128 + k % 128, k / 128]).length + S.length := by
        simp; omega
      have e2 : pre.length + 2 = (pre ++ [128 + k % 128, k / 128]).length := by simp
      have e : pre ++ ([128 + k % 128, k / 128] ++ S ++ post) = pre ++ (128 + k % 128) :: (k / 128) :: (S ++ post) := by simp
      have e' : pre ++ ([128 + k % 128, k / 128] ++ S ++ post) = (pre ++ [128 + k % 128, k / 128]) ++ (S ++ post) := by simp
      rw [e1]
      cases f with
      | zero => simp at hf
      | succ f =>
        unfold invLoop
        rw [if_pos ⟨by simp; omega, by omega⟩]
        rw [e, arr_get0, arr_get1]
        simp only []
        rw [if_pos (by omega), if_neg (by simp; omega), alias_decode _ (by omega)]
        rw [if_neg (by unfold MAX_SYMBOLS; omega), hm, ← e, e', e2]
        rw [ih hall' hde (pre ++ [128 + k % 128, k / 128]) post f (out ++ unpack1 (tokAt srcO j).2)
          (by rw [size_appendList, hlen]; omega) (by simp at hf; omega), appendList_assoc']

/-! ## assembly -/

theorem nsplit (n : Nat) (h : n < 32768) : (((n >>> 8) % 256) <<< 8) + n % 256 = n := by
  rw [Nat.shiftRight_eq_div_pow, Nat.shiftLeft_eq]; omega

/-- Inverse (bitstream version 4 and later) restores the block from `encoded`, into any destination at
    least as large as the block -/
theorem utfInverse_encoded (src : List Nat) (start iEnd : Nat) (ts : List (Nat × Nat)) (rk : List (Nat × Nat))
    (hb : ∀ x ∈ src, x < 256) (h : FwdOK src start ts iEnd rk) (dstLen : Nat) (hd : src.length ≤ dstLen) :
    utfInverse false (encoded src start ts iEnd rk) dstLen = .ok src := by
  have hb' : ∀ x ∈ src.toArray.toList, x < 256 := by simpa using hb
  have hbd := h.toks.bounds
  have hlen := h.len
  have hst := h.start_le
  have hn0 := h.n_pos
  have hn1 := h.n_lt
  -- the pieces
  generalize hadj : iEnd - (src.length - 4) = adj
  have hadj3 : adj ≤ 3 := by omega
  have hmb := mapBytes_length rk
  have hhead : (src.take start).length = start := by rw [List.length_take]; omega
  have htail : (src.drop iEnd).length = 4 - adj := by rw [List.length_drop]; omega
  generalize hS : aliasStream (kofOf rk) ts = S
  have henc : encoded src start ts iEnd rk =
      [start, adj, (rk.length >>> 8) % 256, rk.length % 256] ++ (mapBytes rk ++ (src.take start ++ (S ++ src.drop iEnd))) := by
    unfold encoded; rw [hadj, hS]; rfl
  have hel : (encoded src start ts iEnd rk).length = 4 + 3 * rk.length + start + S.length + (4 - adj) := by
    rw [henc]; simp only [List.length_append, List.length_cons, List.length_nil, hmb, hhead, htail]; omega
  -- keys unpack to something
  have hkeys : ∀ p ∈ rk, p.2 < 16777216 ∧ unpack1 p.2 ≠ [] := by
    intro p hp
    obtain ⟨t, ht, hv⟩ := h.key_tok p.2 (List.mem_map.mpr ⟨p, hp, rfl⟩)
    have := h.toks.all hb' t ht
    rw [hv] at this
    refine ⟨by omega, ?_⟩
    intro he
    rw [he] at this
    simp at this
    omega
  unfold utfInverse
  rw [if_neg (by rw [hel]; omega), if_neg (by rw [hel]; omega)]
  simp only [List.size_toArray]
  have g : ∀ k, (encoded src start ts iEnd rk).toArray.getD k 0 = (encoded src start ts iEnd rk).getD k 0 := by
    intro k
    by_cases hk : k < (encoded src start ts iEnd rk).length <;> simp [Array.getD, List.getD, hk]
  have g0 : (encoded src start ts iEnd rk).getD 0 0 = start := by rw [henc]; rfl
  have g1 : (encoded src start ts iEnd rk).getD 1 0 = adj := by rw [henc]; rfl
  have g2 : (encoded src start ts iEnd rk).getD 2 0 = (rk.length >>> 8) % 256 := by rw [henc]; rfl
  have g3 : (encoded src start ts iEnd rk).getD 3 0 = rk.length % 256 := by rw [henc]; rfl
  rw [g 0, g 1, g 2, g 3, g0, g1, g2, g3, nsplit _ hn1, and_03, and_03]
  have es : start % 4 = start := by omega
  have ea : adj % 4 = adj := by omega
  rw [es, ea, hel]
  rw [if_neg (by omega)]
  -- the map
  have hbm := buildMap_enc rk [start, adj, (rk.length >>> 8) % 256, rk.length % 256]
    (src.take start ++ (S ++ src.drop iEnd)) #[] hkeys
  rw [← henc] at hbm
  rw [show ([start, adj, (rk.length >>> 8) % 256, rk.length % 256] : List Nat).length = 4 from rfl] at hbm
  rw [hbm]
  simp only [Out.bind_ok]
  rw [if_neg (by omega), if_neg (by omega)]
  -- head bytes
  have henc2 : encoded src start ts iEnd rk =
      ([start, adj, (rk.length >>> 8) % 256, rk.length % 256] ++ mapBytes rk ++ src.take start) ++ (S ++ src.drop iEnd) := by
    rw [henc]; simp
  have hpre : ([start, adj, (rk.length >>> 8) % 256, rk.length % 256] ++ mapBytes rk ++ src.take start).length =
      4 + 3 * rk.length + start := by
    simp only [List.length_append, List.length_cons, List.length_nil, hmb, hhead]
  rw [copyN_ok _ _ _ _ _ (by simp [hel]; omega) (by simp; omega)]
  simp only [Out.bind_ok]
  have hd1 : ((encoded src start ts iEnd rk).toArray.toList.drop (4 + 3 * rk.length)).take start = src.take start := by
    have : encoded src start ts iEnd rk =
        ([start, adj, (rk.length >>> 8) % 256, rk.length % 256] ++ mapBytes rk) ++ (src.take start ++ (S ++ src.drop iEnd)) := by
      rw [henc]; simp
    rw [List.toList_toArray, this, List.drop_left' (by simp [hmb]; omega), List.take_left' hhead]
  rw [hd1]
  -- the alias stream
  have hm : ∀ t ∈ ts, kofOf rk t.2 < 32768 ∧
      ((#[] : Array (List Nat)) ++ rk.map fun p => unpack1 p.2).getD (kofOf rk t.2) [] = unpack1 t.2 := by
    intro t ht
    have hmem := h.tok_mem t ht
    have hlt := List.idxOf_lt_length_iff.mpr hmem
    rw [List.length_map] at hlt
    refine ⟨by unfold kofOf; omega, ?_⟩
    have hidx : (rk.map (·.2))[kofOf rk t.2]? = some t.2 := by
      unfold kofOf
      rw [List.getElem?_eq_getElem (by simpa using hlt), List.getElem_idxOf]
    rw [Array.getD_eq_getD_getElem?]
    have : ((#[] : Array (List Nat)) ++ rk.map fun p => unpack1 p.2)[kofOf rk t.2]? =
        ((rk.map (·.2)).map unpack1)[kofOf rk t.2]? := by
      rw [← Array.getElem?_toList]; simp; rfl
    rw [this, List.getElem?_map, hidx]; rfl
  have hinv := invLoop_enc src.toArray (src.length - 4) (dstLen - 4) (kofOf rk)
    ((#[] : Array (List Nat)) ++ rk.map fun p => unpack1 p.2) hb' h.toks hm (by omega)
    ([start, adj, (rk.length >>> 8) % 256, rk.length % 256] ++ mapBytes rk ++ src.take start) (src.drop iEnd)
    (4 + 3 * rk.length + start + S.length + (4 - adj)) ((#[] : Array Nat) ++ src.take start)
    (by rw [size_appendList, hhead]; simp) (by rw [hS]; omega)
  rw [hS, ← henc2, hpre] at hinv
  have e3 : 4 + 3 * rk.length + start + S.length + (4 - adj) - 4 + adj = 4 + 3 * rk.length + start + S.length := by omega
  rw [e3, hinv]
  simp only [Out.bind_ok]
  -- the decoded tokens are the middle of the block
  rw [h.toks.bytes hb' (by simp; omega)]
  have hsz : ((#[] : Array Nat) ++ src.take start ++ ((src.toArray.toList.drop start).take (iEnd - start))).size = iEnd := by
    rw [size_appendList, size_appendList, hhead, List.length_take, List.length_drop]; simp; omega
  rw [hsz, if_neg (by omega)]
  have e4 : 4 + 3 * rk.length + start + S.length + (4 - adj) - (4 + 3 * rk.length + start + S.length) = 4 - adj := by omega
  rw [e4, copyN_ok _ _ _ _ _ (by simp [hel] <;> omega) (by rw [hsz]; omega)]
  simp only [Out.bind_ok]
  have hd2 : ((encoded src start ts iEnd rk).toArray.toList.drop (4 + 3 * rk.length + start + S.length)).take (4 - adj) =
      src.drop iEnd := by
    have : encoded src start ts iEnd rk =
        ([start, adj, (rk.length >>> 8) % 256, rk.length % 256] ++ mapBytes rk ++ src.take start ++ S) ++ src.drop iEnd := by
      rw [henc]; simp
    rw [List.toList_toArray, this, List.drop_left' (by simp [hmb, hhead]; omega), List.take_of_length_le (by omega)]
  rw [hd2]
  congr 1
  simp only [Array.toList_appendList, List.nil_append]
  have : src.take start ++ (src.drop start).take (iEnd - start) = src.take iEnd := by
    have : iEnd = start + (iEnd - start) := by omega
    rw [this, List.take_add]; simp
  rw [this, List.take_append_drop]

end Kanzi.UTF
