// Reproducers for the two findings of the blockgen2 slice (F43, repaired by /repo dfafae0: A now round-trips;
// F44, repaired by /repo af780d6: B now prints identical = true) (run: GOFLAGS=-mod=mod GOPROXY=off go run .)
//
//  A. (C01) chains with five or more SRT stages on 1 KiB blocks are written without error but cannot be read
//     back: every SRT stage adds at least 256 header bytes, the post-transform length exceeds the Reader's
//     bound max(1.5 * (B + max(512, B/16)), 2048) on the pre-transform length ("Invalid compressed block
//     size"); encodingTask.encode never checks postTransformLength against that bound.
//  B. (C04) with transform RLT the stream depends on the job count: RLT.Forward uses len(dst) (not
//     MaxEncodedLen) as the end of its output, and ByteTransformSequence.Forward hands it the task's output
//     buffer, which keeps the size of the biggest block the task has seen.  A short last block is therefore
//     accepted by RLT when the same task encoded a full block before (jobs=1) and declined when it lands
//     in a fresh task (jobs=2).
package main

import (
	"bytes"
	"fmt"
	"io"

	kio "github.com/flanglet/kanzi-go/v2/io"
)

type sink struct{ bytes.Buffer }

func (s *sink) Close() error { return nil }

func compress(tr, en string, bs, jobs uint, data []byte) []byte {
	s := &sink{}
	w, err := kio.NewWriter(s, tr, en, bs, jobs, 0, 0, false)
	if err != nil {
		panic(err)
	}
	if _, err := w.Write(data); err != nil {
		panic(err)
	}
	if err := w.Close(); err != nil {
		panic(err)
	}
	return s.Bytes()
}

func mix(i, seed int) uint32 {
	x := uint32(uint64(i+1)*2654435761 + uint64(seed)*40503)
	x ^= x >> 15
	x *= 2246822519
	x ^= x >> 13
	return x
}

func main() {
	// A
	data := make([]byte, 1024)
	for i := range data {
		data[i] = byte(i * 7)
	}
	img := compress("SRT+SRT+SRT+SRT+SRT", "NONE", 1024, 1, data)
	r, _ := kio.NewReader(io.NopCloser(bytes.NewReader(img)), 1)
	got, err := io.ReadAll(r)
	fmt.Printf("A: SRT x5, 1 KiB block: compressed to %d bytes without error; read back %d bytes, err = %v\n", len(img), len(got), err)

	// B: 4096 + 1000 bytes; positions 0..999 of each block: 0 escape symbols (0xFB) early, a run of 6 x 0x55
	// ending at 1000 (seed 32 of family 22 of the imagegen2 stream)
	d := make([]byte, 5096)
	for i := range d {
		q := i % 4096
		if q >= 1000-6 && q < 1000 {
			d[i] = 0x55
		} else {
			d[i] = byte(mix(i, 32) % 250)
		}
	}
	a := compress("RLT", "NONE", 4096, 1, d)
	b := compress("RLT", "NONE", 4096, 2, d)
	fmt.Printf("B: RLT, jobs=1: %d bytes, jobs=2: %d bytes, identical = %v\n", len(a), len(b), bytes.Equal(a, b))
}
