/-
Proofs for `Kanzi/Model/BlockGen2.lean`, part 3: decode ∘ encode for every chain of modelled transforms
and every entropy codec that satisfies the exact-consumption law; the entropy instances.
Property statements: `Kanzi/Properties/C01_blockgen2.lean`.
-/
import Kanzi.Proofs.BlockGen2Kinds
import Kanzi.Proofs.BlockGenInst
import Kanzi.Proofs.BlockGenStream
import Kanzi.Properties.C12_range
import Kanzi.Properties.C12_ans1
import Kanzi.Properties.C12_huffman
import Kanzi.Properties.C12_fpaq
import Kanzi.Properties.C12_cm_codec

namespace Kanzi.BlockGen2
open Kanzi.Bits Kanzi.TrSmall Kanzi.Block Kanzi.BlockGen

/-- the exact-consumption law of an entropy codec at ONE block (of bytes, 1..N of them) -/
def EntLawAt (ent : Ent) (N : Nat) (y : List Nat) : Prop :=
  IsBlock N y → y ≠ [] →
    ∃ e, ent.enc y = some e ∧ ∀ rest : Bits, ent.dec y.length (e ++ rest) = some (y, rest)

theorem entLawAt_of_law (ent : Ent) (N : Nat) (h : EntLaw (IsBlock N) ent) (y : List Nat) : EntLawAt ent N y :=
  fun hy _ => h y hy

/-! ### the block handed to the entropy coder -/

/-- what the sequence and the bound of fix F43 (block size `B` in the ctx) hand to the entropy coder: a
non-empty block of bytes within the decoder's bound, with well-formed skip flags, from which the inverse
sequence restores the block -/
theorem postOf_spec (ks : List Kind) (hn : ks.length ≤ 8) (B obuf : Nat) (b : List Nat)
    (hb : ∀ x ∈ b, x < 256) (hb0 : 0 < b.length) (hB : b.length ≤ B) (hmax : B ≤ 2 ^ 30) :
    (postOf (kindTrs ks) (some B) obuf b).2 < 256 ∧
    ((kindTrs ks).length ≤ 4 → (postOf (kindTrs ks) (some B) obuf b).2 % 16 = 15) ∧
    IsBlock (maxTransformLength B) (postOf (kindTrs ks) (some B) obuf b).1 ∧
    (postOf (kindTrs ks) (some B) obuf b).1 ≠ [] ∧
    ∀ dl, taskBlockLength B ≤ dl →
      seqInverse (invStages (trsOf (kindTrs ks)) dl) (postOf (kindTrs ks) (some B) obuf b).2
        (postOf (kindTrs ks) (some B) obuf b).1 = .ok b := by
  have hne : b ≠ [] := fun h => by rw [h] at hb0; exact Nat.lt_irrefl 0 hb0
  have htrs : kindTrs ks = ltrs (kindLtrs ks) := (ltrs_kindLtrs ks).symm
  have hlen8 : (kindLtrs ks).length ≤ 8 := by simp only [kindLtrs, List.length_map]; exact hn
  have hlaws := kindLtrs_law ks
  have hlim : runG (kindLtrs ks) b.length ≤ lawLim := runG_le_lawLim ks b.length hn (by omega)
  have hbB : b.length ≤ maxTransformLength B := le_maxTransformLength b.length B hB (by omega)
  have hreq0 : 0 < seqMaxLen (trsOf (kindTrs ks)) b.length := by
    rw [htrs, seqMaxLen_ltrs]
    have := le_runMax (kindLtrs ks) b.length
    omega
  have hl0 : 0 < growTo obuf (seqMaxLen (trsOf (kindTrs ks)) b.length) := by
    unfold growTo; split <;> omega
  unfold postOf
  generalize hFdef : forwardOf (kindTrs ks) obuf b = F
  have hrt : ∀ dl, b.length ≤ dl →
      seqInverse (invStages (trsOf (kindTrs ks)) dl) F.2 F.1 = .ok b ∧ Bytes F.1 ∧
        F.1.length ≤ runG (kindLtrs ks) b.length ∧ F.1 ≠ [] := by
    intro dl hdl
    have := seq2_roundtrip lawLim (seqMaxLen (trsOf (kindTrs ks)) b.length)
      (growTo obuf (seqMaxLen (trsOf (kindTrs ks)) b.length)) (max dl (seqMaxLen (trsOf (kindTrs ks)) dl))
      (initDt b) dl (kindLtrs ks) b hlaws hlen8 hreq0 hl0 hb hdl
      (by rw [htrs, seqMaxLen_ltrs]; omega) hlim
    rw [← htrs] at this
    have hF : forwardOf (kindTrs ks) obuf b = seqForward2 (kindTrs ks) (seqMaxLen (trsOf (kindTrs ks)) b.length)
      (growTo obuf (seqMaxLen (trsOf (kindTrs ks)) b.length)) (initDt b) b := rfl
    rw [← hF, hFdef] at this
    obtain ⟨h1, h2, h3, h4⟩ := this
    exact ⟨h1, h2, h3, h4 hne⟩
  obtain ⟨hflt, hflow⟩ := seqForward2_flags_shape (kindTrs ks) (seqMaxLen (trsOf (kindTrs ks)) b.length)
    (growTo obuf (seqMaxLen (trsOf (kindTrs ks)) b.length)) (initDt b) b
    (by rw [htrs]; simp only [ltrs, List.length_map]; exact hlen8)
  have hF : forwardOf (kindTrs ks) obuf b = seqForward2 (kindTrs ks) (seqMaxLen (trsOf (kindTrs ks)) b.length)
    (growTo obuf (seqMaxLen (trsOf (kindTrs ks)) b.length)) (initDt b) b := rfl
  rw [← hF, hFdef] at hflt hflow
  unfold fallback
  have hml : maxLengthOf (some B) = maxTransformLength B := rfl
  rw [hml]
  split
  · -- stored untransformed
    exact ⟨by simp, fun _ => by simp, ⟨hb, hbB⟩, hne, fun dl _ => seqInverse_ff _ b⟩
  · rename_i hnf
    obtain ⟨_, hFb, hFl, hFne⟩ := hrt b.length (Nat.le_refl _)
    have hpm : F.1.length ≤ maxTransformLength B := by
      by_cases h1 : F.1.length ≤ maxTransformLength B
      · exact h1
      · have hreq : seqMaxLen (trsOf (kindTrs ks)) b.length ≤ maxTransformLength B := by
          by_cases h2 : seqMaxLen (trsOf (kindTrs ks)) b.length ≤ maxTransformLength B
          · exact h2
          · exact absurd ⟨by omega, by omega⟩ hnf
        have := runG_le_runMax lawLim (kindLtrs ks) hlaws b.length b.length (Nat.le_refl _) hlim
        rw [htrs, seqMaxLen_ltrs] at hreq
        omega
    refine ⟨hflt, fun h4 => flags_low_nibble _ hflt _ h4 hflow, ⟨hFb, hpm⟩, hFne, fun dl hdl => ?_⟩
    exact (hrt dl (Nat.le_trans (Nat.le_trans hB (taskBlockLength_ge B)) hdl)).1

/-! ### decode ∘ encode, non-copy blocks -/

theorem decode_encode_noncopy2 (c : Cfg2) (ks : List Kind) (hc : c.trs = kindTrs ks) (hn : ks.length ≤ 8)
    (B obuf : Nat) (b : List Nat) (hbs : c.bs = some B)
    (hent : EntLawAt c.ent (maxTransformLength B) (postBlock c.trs c.bs obuf b))
    (hb : ∀ x ∈ b, x < 256) (hb0 : 0 < b.length) (hB : b.length ≤ B) (hmax : B ≤ 2 ^ 30) :
    ∃ p, encodeWith2 c.trs c.ent (ckWidth c.ck) (checksum c.ck b) c.bs obuf b = .ok p ∧
      decodeTaskGen c.toCfg B p = ⟨b.length, .ok b⟩ ∧ (c.ent = noneEnt → FrameFit B p) := by
  obtain ⟨hflt, hlow, hblk, hPne, hinv⟩ := postOf_spec ks hn B obuf b hb hb0 hB hmax
  rw [← hc, ← hbs] at hflt hlow hblk hPne hinv
  unfold postBlock at hent
  obtain ⟨e, he, hdec⟩ := hent hblk hPne
  have hcl : c.toCfg.trs.length = c.trs.length := by simp [Cfg2.toCfg, trsOf]
  obtain ⟨p, hp, hd⟩ := decode_encodeOf c.toCfg B b (postOf c.trs c.bs obuf b) e hflt
    (by rw [hcl]; exact hlow) hPne hblk.2 he hdec hinv hB
  rw [hcl] at hp
  refine ⟨p, hp, hd, fun hne' => ?_⟩
  obtain ⟨e', he', h8, hle⟩ := encodeOf_shape _ _ _ _ _ _ _ hp
  have he'' : c.ent.enc (postOf c.trs c.bs obuf b).1 = some e' := he'
  rw [hne'] at he''
  have he' := he''
  have hel : e'.length = 8 * (postOf c.trs c.bs obuf b).1.length := by
    have : some (EntSmall.nullEncode (postOf c.trs c.bs obuf b).1) = some e' := he'
    injection this with this
    rw [← this, EntSmall.nullEncode_eq, Block.ofBytes_length]
  have hck := ckWidth_le c.ck
  have hpm := hblk.2
  have hc' : ckWidth c.toCfg.ck = ckWidth c.ck := rfl
  have hmt : maxTransformLength B ≤ 2 ^ 30 := by unfold maxTransformLength; omega
  unfold FrameFit
  simp only [maxFrameBits]
  omega

/-- H_codec for every chain of modelled transforms: for a block of 1..B bytes the encoding task of a Writer
with block size `B` succeeds (whatever the length `obuf` of the task's output buffer) and the decoding task
returns the block -/
theorem block_roundtrip2 (c : Cfg2) (ks : List Kind) (hc : c.trs = kindTrs ks) (hn : ks.length ≤ 8)
    (B obuf : Nat) (b : List Nat) (hbs : c.bs = some B)
    (hent : EntLawAt c.ent (maxTransformLength B) (postBlock c.trs c.bs obuf b))
    (hb : ∀ x ∈ b, x < 256) (hb0 : 0 < b.length) (hB : b.length ≤ B) (hmax : B ≤ 2 ^ 30) :
    ∃ p, encodeTaskGen2 c obuf b = .ok p ∧ decodeTaskGen2 c B p = ⟨b.length, .ok b⟩ ∧
      (c.ent = noneEnt → FrameFit B p) := by
  unfold encodeTaskGen2 decodeTaskGen2
  by_cases hcp : isCopy c.toCfg b = true
  · rw [if_pos hcp]
    obtain ⟨p, hp, hd⟩ := decode_encode_copy c.toCfg B b hb hb0 hB hmax
    refine ⟨p, hp, hd, fun _ => ?_⟩
    obtain ⟨e, he, h8, hle⟩ := encodeWith_shape _ _ _ _ _ _ _ _ hp
    have hfb : (fallback c.toCfg.bs (seqMaxLen [nullTr] b.length) b
        (seqForward (fwdStages [nullTr] b.length) b)).1 = b := by
      rcases fallback_null c.toCfg.bs (seqMaxLen [nullTr] b.length) b hb0 with h' | h' <;> rw [h']
    rw [hfb] at he
    have hel : e.length = 8 * b.length := by
      have : some (EntSmall.nullEncode b) = some e := he
      injection this with this
      rw [← this, EntSmall.nullEncode_eq, Block.ofBytes_length]
    have hck := ckWidth_le c.ck
    exact frameFit_of_le B b.length p h8 hB hmax (by show p.length ≤ 48 + 64 + 8 * b.length; have : ckWidth c.toCfg.ck = ckWidth c.ck := rfl; omega)
  · rw [if_neg hcp]
    exact decode_encode_noncopy2 c ks hc hn B obuf b hbs hent hb hb0 hB hmax

/-! ### entropy codecs -/

theorem entLaw_range (N : Nat) : EntLaw (IsBlock N) rangeEnt := by
  intro x hx
  obtain ⟨enc, h1, h2⟩ := Kanzi.C12.C12_range_block x Range.defaultChunkSize Range.defaultLogRange
    (by decide) (by decide) hx.1
  exact ⟨enc, h1, h2⟩

theorem entLaw_ans1 (N : Nat) : EntLaw (IsBlock N) ans1Ent := by
  intro x hx
  obtain ⟨enc, h1, h2⟩ := Kanzi.C12.C12_ans1_block_ctor x 16384 12 ⟨ans1Chunk, ans1LogRange⟩ (by decide)
    (by decide) hx.1
  exact ⟨enc, h1, h2⟩

theorem entLaw_huf (N : Nat) : EntLaw (IsBlock N) hufEnt := by
  intro x hx
  obtain ⟨enc, h1, h2⟩ := Kanzi.C12.C12_huf_block x hx.1 hufChunk (by decide) [] (by intro b hb; cases hb)
  exact ⟨enc, h1, h2⟩

/-- FPAQ at one block: under the decoder's own acceptance test `fFits2` -/
theorem entLawAt_fpaq (N : Nat) (hN : N ≤ 2 ^ 30) (y : List Nat)
    (hfit : Fpaq.fFits2 Fpaq.DEFAULT_CHUNK y = true) : EntLawAt fpaqEnt N y := by
  intro hy hne
  obtain ⟨out, h1, h2⟩ := Kanzi.C12.C12_fpaq_block_real y hne hy.1 (Nat.le_trans hy.2 hN) hfit
  refine ⟨out, ?_, fun rest => ?_⟩
  · show (match Fpaq.fpaqEncode Fpaq.DEFAULT_CHUNK y with | .ok o => some o | .error _ => none) = _
    rw [h1]
  · show (match Fpaq.fpaqDecode Fpaq.DEFAULT_CHUNK (out ++ rest) y.length with
      | .ok r => some r | .error _ => none) = _
    rw [h2 rest]

/-- CM at one block: under the decoder's own acceptance test `fits2` -/
theorem entLawAt_cm (N : Nat) (hN : N ≤ 2 ^ 30) (y : List Nat)
    (hfit : BinEnt.fits2 cmPred BinEnt.MAX_CHUNK (CM.cmInit false) y = true) : EntLawAt cmEnt N y := by
  intro hy hne
  have hpe : cmPred = Kanzi.C12.cmPred := rfl
  rw [hpe] at hfit
  obtain ⟨out, h1, h2⟩ := Kanzi.C12.C12_cm_block false y hne hy.1 (Nat.le_trans hy.2 hN) hfit
  rw [← hpe] at h1 h2
  refine ⟨out, ?_, fun rest => ?_⟩
  · show (match BinEnt.encodeBlock cmPred BinEnt.MAX_CHUNK (CM.cmInit false) y with
      | .ok o => some o | .error _ => none) = _
    rw [h1]
  · show (match BinEnt.decodeBlock cmPred BinEnt.MAX_CHUNK (CM.cmInit false) (out ++ rest) y.length with
      | .ok r => some r | .error _ => none) = _
    rw [h2 rest]

/-- the entropy codecs of `entOf2` -/
def IsModelledEnt (e : Ent) : Prop :=
  e = noneEnt ∨ e = ans0Ent ∨ e = ans1Ent ∨ e = rangeEnt ∨ e = hufEnt

theorem entLaw_modelled (e : Ent) (h : IsModelledEnt e) (N : Nat) : EntLaw (IsBlock N) e := by
  rcases h with h | h | h | h | h <;> subst h
  · exact entLaw_none N
  · exact entLaw_ans0 N
  · exact entLaw_ans1 N
  · exact entLaw_range N
  · exact entLaw_huf N

end Kanzi.BlockGen2
