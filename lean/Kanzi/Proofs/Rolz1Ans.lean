/-
ROLZ (`rolzCodec1`): the ANS coded side buffers survive the trip.  The decoder of `Kanzi/Model/ROLZ1.lean`
reads them with the chunk loops `ans0ChunksB` / `ans1ChunksB`, which are the loops of `Kanzi/Model/EntSmall.lean`
/ `Kanzi/Model/Ans1.lean` plus the test on the payload buffer of `decodeChunkV2` (`ansGuard`).  For what an
encoder wrote the test never fires (the payload of a chunk is at most twice its length: `final_facts`,
`final1_facts`), so the block round trips `C12_ans0_block` / `C12_ans1_block` carry over (their proofs are
repeated here with the extra test).
-/
import Kanzi.Model.ROLZ1
import Kanzi.Proofs.Ans0
import Kanzi.Proofs.Ans1Block

namespace Kanzi.ROLZ
open Kanzi.Bits Kanzi.EntSmall

/-- `oneChunk_facts` of `Kanzi/Proofs/Ans0.lean` with the payload bound -/
theorem oneChunk_factsB (c : List Nat) (lr : Nat) (hlr : 8 ≤ lr ∧ lr ≤ 15) (hne : c ≠ [])
    (hb : ∀ b ∈ c, b < 256) (hsz : c.length < 2 ^ 26) :
    ∃ o, Kanzi.Normalize.normalize (histogram c) c.length (2 ^ lr) = .ok o ∧
      o.alphabet.length = o.size ∧ o.alphabet ≠ [] ∧
      (∀ rest : Bits, ansDecodeHeader (ansEncodeHeader o.alphabet o.freqs lr ++ rest)
          = some ((o.alphabet, o.freqs, lr), rest)) ∧
      (o.alphabet.length = 1 → c = List.replicate c.length (o.alphabet.headD 0)) ∧
      (∀ rest : Bits, ans0DecodeChunk (mkDecTable o.freqs lr) lr c.length
          (ans0EncodeChunk c (mkEncSyms o.freqs lr) ++ rest) = some (c, rest)) ∧
      ans0PayloadLen c o.freqs lr ≤ 2 * c.length := by
  have hp8 : 2 ^ 8 ≤ 2 ^ lr := Nat.pow_le_pow_right (by decide) hlr.1
  have hp16 : 2 ^ lr ≤ 2 ^ 16 := Nat.pow_le_pow_right (by decide) (by omega)
  have hlen := histogram_length c
  have hsumh := histogram_sum c hb
  have hpos : 0 < c.length := List.length_pos_iff.mpr hne
  obtain ⟨o, ho, hl, hsum, hsup, _, hasz, hsorted, hmem⟩ :=
    Kanzi.Normalize.normalize_valid (histogram c) (2 ^ lr) (by omega) ⟨by omega, by omega⟩ (by omega)
  rw [hsumh] at ho
  have hc : ∀ b ∈ c, b < 256 → 0 < (histogram c).getD b 0 := fun b hbc h => histogram_pos c b hbc h
  generalize histogram c = h at *
  have halt : ∀ s ∈ o.alphabet, s < 256 := fun s hs => by have := ((hmem s).mp hs).1; omega
  have hz : ∀ i, i ∉ o.alphabet → o.freqs.getD i 0 = 0 := by
    intro i hi
    by_cases hi256 : i < h.length
    · have hh : h.getD i 0 = 0 := by
        by_contra hc
        exact hi ((hmem i).mpr ⟨hi256, hc⟩)
      have := hsup i hi256
      rw [hh] at this
      have : ¬ 0 < o.freqs.getD i 0 := fun hc => by have := this.mpr hc; omega
      omega
    · have hn : o.freqs[i]? = none := List.getElem?_eq_none (by omega)
      rw [List.getD_eq_getElem?_getD, hn]; rfl
  have hposA : ∀ s ∈ o.alphabet, 1 ≤ o.freqs.getD s 0 := by
    intro s hs
    obtain ⟨h1, h2⟩ := (hmem s).mp hs
    exact (hsup s h1).mp (by omega)
  have hsumA : (o.alphabet.map (fun s => o.freqs.getD s 0)).sum = 2 ^ lr := by
    rw [← sum_over_alphabet o.alphabet o.freqs hsorted (by intro s hs; have := halt s hs; omega) hz, hsum]
  have hle : ∀ s ∈ o.alphabet, o.freqs.getD s 0 ≤ 2 ^ lr := by
    intro s hsa
    rw [← hsumA]
    exact mem_le_sum _ _ (List.mem_map.mpr ⟨s, hsa, rfl⟩)
  have hin : ∀ b ∈ c, b ∈ o.alphabet := by
    intro b hbc
    have h256 := hb b hbc
    refine (hmem b).mpr ⟨by omega, ?_⟩
    have := hc b hbc h256
    omega
  have hneA : o.alphabet ≠ [] := by
    obtain ⟨b, hbc⟩ := List.exists_mem_of_ne_nil c hne
    exact List.ne_nil_of_mem (hin b hbc)
  have ht : FreqTable o.alphabet o.freqs lr := ⟨hsorted, halt, hneA, by omega, hz, hposA, hle⟩
  refine ⟨o, ho, hasz, hneA, fun rest => ans_header_roundtrip _ _ lr hlr ht hsumA rest, ?_, ?_, ?_⟩
  · intro h1
    apply eq_replicate_of_all
    intro b hbc
    have := hin b hbc
    match hal : o.alphabet, h1, this with
    | [s], _, hm => simpa using hm
  · intro rest
    exact chunk_rt c o.freqs lr hlr (by omega) (table_sum _ _ lr ht hsumA)
      (fun b hbc => symOk_of_table _ _ lr ht b (hin b hbc)) hsz rest
  · exact (final_facts c o.freqs lr hlr (by omega) (table_sum _ _ lr ht hsumA)
      (fun b hbc => symOk_of_table _ _ lr ht b (hin b hbc))).2.2

/-- the guard passes on what `encodeChunk` (order 0) wrote -/
theorem ansGuard_enc0 (buf : Nat) (c f : List Nat) (lr : Nat) (hp : ans0PayloadLen c f lr ≤ 2 * c.length)
    (hsz : c.length < 2 ^ 26) (rest : Bits) :
    ansGuard buf c.length (ans0EncodeChunk c (mkEncSyms f lr) ++ rest) = true := by
  unfold ansGuard
  rw [ans0EncodeChunk_eq]
  simp only [List.append_assoc]
  unfold ans0PayloadLen at hp
  rw [varint_roundtrip _ (by omega)]
  simp only [decide_eq_true_eq]
  right
  unfold ansBuf
  split <;> omega

theorem chunksB_rt (chunkSize lr : Nat) (hlr : 8 ≤ lr ∧ lr ≤ 15) (hcs0 : 0 < chunkSize)
    (hcs : chunkSize < 2 ^ 26) : ∀ (fuel : Nat) (blk : List Nat), blk.length ≤ fuel →
    (∀ b ∈ blk, b < 256) →
    ∃ enc, ans0EncodeChunks fuel chunkSize lr blk = some enc ∧
      ∀ (buf : Nat) (rest : Bits), ∃ buf', ans0ChunksB fuel chunkSize blk.length buf (enc ++ rest) = some (blk, rest, buf') := by
  intro fuel
  induction fuel with
  | zero =>
    intro blk hl _
    have : blk = [] := List.length_eq_zero_iff.mp (by omega)
    subst this
    exact ⟨[], rfl, fun buf rest => ⟨buf, rfl⟩⟩
  | succ fuel ih =>
    intro blk hl hb
    by_cases h0 : blk.length = 0
    · have : blk = [] := List.length_eq_zero_iff.mp h0
      subst this
      exact ⟨[], rfl, fun buf rest => ⟨buf, rfl⟩⟩
    · have hclen : (blk.take chunkSize).length = min chunkSize blk.length := List.length_take
      have hcne : blk.take chunkSize ≠ [] := by
        intro h
        rw [h] at hclen
        simp only [List.length_nil] at hclen
        omega
      obtain ⟨o, ho, hasz, hneA, hhdr, hone, hchunk, hpay⟩ := oneChunk_factsB (blk.take chunkSize) lr hlr hcne
        (fun b h => hb b (List.mem_of_mem_take h)) (by omega)
      obtain ⟨tl, htl, hdec⟩ := ih (blk.drop chunkSize) (by rw [List.length_drop]; omega)
        (fun b h => hb b (List.mem_of_mem_drop h))
      have hA0 : ¬ o.alphabet.length = 0 := length_ne_zero_of_ne_nil _ hneA
      have hdl : blk.length - min chunkSize blk.length = (blk.drop chunkSize).length := by
        rw [List.length_drop]; omega
      refine ⟨ansEncodeHeader o.alphabet o.freqs lr
          ++ (if o.size > 1 then ans0EncodeChunk (blk.take chunkSize) (mkEncSyms o.freqs lr) else [])
          ++ tl, ?_, ?_⟩
      · simp only [ans0EncodeChunks, if_neg h0, ans0EncodeOneChunk, ho, htl]
      · intro buf rest
        simp only [ans0ChunksB, if_neg h0, List.append_assoc]
        rw [hhdr]
        simp only [if_neg hA0]
        by_cases h1 : o.alphabet.length = 1
        · have hs : ¬ o.size > 1 := by omega
          simp only [if_pos h1, if_neg hs, List.nil_append]
          obtain ⟨b2, hb2⟩ := hdec buf rest
          rw [hdl, hb2]
          refine ⟨b2, ?_⟩
          simp only
          rw [← hclen, ← hone h1]
          simp only [List.take_append_drop]
        · have hs : o.size > 1 := by omega
          simp only [if_neg h1, if_pos hs]
          have hg := ansGuard_enc0 buf (blk.take chunkSize) o.freqs lr hpay (by omega) (tl ++ rest)
          rw [← hclen, hg]
          simp only [Bool.not_true, Bool.false_eq_true, if_false]
          rw [hchunk]
          simp only
          obtain ⟨b2, hb2⟩ := hdec (ansBuf buf (blk.take chunkSize).length) rest
          rw [hclen] at hb2 ⊢
          rw [hdl, hb2]
          refine ⟨b2, ?_⟩
          simp only [List.take_append_drop]

/-- `ans0DecodeB` (the decoder of ROLZ with its payload buffer) inverts `ans0Encode` -/
theorem ans0B_rt (blk : List Nat) (chunkSize lr : Nat) (hlr : 8 ≤ lr ∧ lr ≤ 15) (hcs0 : 0 < chunkSize)
    (hcs : chunkSize < 2 ^ 26) (hb : ∀ b ∈ blk, b < 256) :
    ∃ enc, ans0Encode blk chunkSize lr = some enc ∧
      ∀ (buf : Nat) (rest : Bits), ∃ buf', ans0DecodeB (enc ++ rest) blk.length chunkSize buf = some (blk, rest, buf') := by
  unfold ans0Encode ans0DecodeB
  by_cases h32 : blk.length ≤ 32
  · simp only [if_pos h32]
    refine ⟨_, rfl, fun buf rest => ⟨buf, ?_⟩⟩
    rw [arrayBits_eq, List.take_of_length_le (Nat.le_refl _), readBytes_ofBytes blk rest hb]
    rfl
  · simp only [if_neg h32]
    exact chunksB_rt chunkSize lr hlr hcs0 hcs blk.length blk (Nat.le_refl _) hb

/-! ## order 1 -/

open Kanzi.Ans1 in
/-- the guard passes on what `encodeChunk` (order 1) wrote -/
theorem ansGuard_enc1 (buf : Nat) (c : List Nat) (fsE fsD : List (List Nat)) (lr : Nat) (hlr : 8 ≤ lr ∧ lr ≤ 15)
    (hok : ChunkOk fsE fsD lr c) (hsz : c.length < 2 ^ 26) (rest : Bits) :
    ansGuard buf c.length (ans1EncodeChunk c (mkEncTabs fsE lr) ++ rest) = true := by
  have hp := (final1_facts c fsE fsD lr hlr hok).2.2
  unfold ansGuard ans1EncodeChunk
  simp only [List.append_assoc]
  unfold ans1PayloadLen at hp
  rw [varint_roundtrip _ (by omega)]
  simp only [decide_eq_true_eq]
  right
  unfold ansBuf
  split <;> omega

open Kanzi.Ans1 in
theorem chunks1B_rt (chunkSize lr : Nat) (hlr : 8 ≤ lr ∧ lr ≤ 15) (hcs0 : 0 < chunkSize)
    (hcs : chunkSize < 2 ^ 26) : ∀ (fuel : Nat) (blk : List Nat), blk.length ≤ fuel →
    (∀ b ∈ blk, b < 256) →
    ∃ enc, ans1EncodeChunks fuel chunkSize lr blk = some enc ∧
      ∀ (prev : List (List Nat)), prev.length = 256 → ∀ (buf : Nat) (rest : Bits),
        ans1ChunksB fuel chunkSize blk.length prev buf (enc ++ rest) = some (blk, rest) := by
  intro fuel
  induction fuel with
  | zero =>
    intro blk hl _
    have : blk = [] := List.length_eq_zero_iff.mp (by omega)
    subst this
    exact ⟨[], rfl, fun _ _ _ rest => rfl⟩
  | succ fuel ih =>
    intro blk hl hb
    by_cases h0 : blk.length = 0
    · have : blk = [] := List.length_eq_zero_iff.mp h0
      subst this
      exact ⟨[], rfl, fun _ _ _ rest => rfl⟩
    · have hclen : (blk.take chunkSize).length = min chunkSize blk.length := List.length_take
      have hcne : blk.take chunkSize ≠ [] := by
        intro h
        rw [h] at hclen
        simp only [List.length_nil] at hclen
        omega
      obtain ⟨ts, hts, htl, hhdr, hsum, hchunk, _⟩ := oneChunk1_facts (blk.take chunkSize) lr hlr hcne
        (fun b h => hb b (List.mem_of_mem_take h))
      obtain ⟨tl, htlenc, hdec⟩ := ih (blk.drop chunkSize) (by rw [List.length_drop]; omega)
        (fun b h => hb b (List.mem_of_mem_drop h))
      have hdl : blk.length - min chunkSize blk.length = (blk.drop chunkSize).length := by
        rw [List.length_drop]; omega
      refine ⟨ans1EncodeHeader ts lr
          ++ ans1EncodeChunk (blk.take chunkSize) (mkEncTabs (ts.map (·.2)) lr) ++ tl, ?_, ?_⟩
      · simp only [ans1EncodeChunks, if_neg h0, ans1EncodeOneChunk, hts, htlenc]
      · intro prev hpl buf rest
        simp only [ans1ChunksB, if_neg h0, List.append_assoc]
        rw [header1_rt lr hlr ts prev (by omega) hhdr]
        simp only
        have hg := ansGuard_enc1 buf (blk.take chunkSize) _ _ lr hlr (hchunk prev hpl) (by omega) (tl ++ rest)
        rw [alph_sum_merge ts prev (by omega), if_neg hsum, ← hclen, hg]
        simp only [Bool.not_true, Bool.false_eq_true, if_false]
        rw [chunk1_rt (blk.take chunkSize) _ _ lr hlr (hchunk prev hpl) (by omega)]
        simp only
        rw [hclen, hdl, hdec _ (by rw [List.length_map, mergeTabs_length ts prev (by omega)]; exact htl) _ rest]
        simp only [List.take_append_drop]

/-- the literal decoder of ROLZ inverts the literal encoder (order 0 below 2^17 bytes, order 1 from there on) -/
theorem ansLit_rt (litOrder : Nat) (blk : List Nat) (hb : ∀ b ∈ blk, b < 256) :
    ∃ enc, ansLitEncode litOrder blk = some enc ∧
      ∀ rest : Bits, ansLitDecode litOrder false (enc ++ rest) blk.length = some (blk, rest) := by
  unfold ansLitEncode ansLitDecode
  by_cases h0 : litOrder = 0
  · simp only [if_pos h0, Bool.false_eq_true, if_false]
    obtain ⟨enc, he, hd⟩ := ans0B_rt blk 16384 12 (by omega) (by omega) (by omega) hb
    refine ⟨enc, he, fun rest => ?_⟩
    obtain ⟨b', hb'⟩ := hd 0 rest
    rw [hb']
    rfl
  · simp only [if_neg h0, Bool.false_eq_true, if_false]
    unfold Kanzi.Ans1.ans1Encode
    by_cases h32 : blk.length ≤ 32
    · simp only [if_pos h32]
      refine ⟨_, rfl, fun rest => ?_⟩
      rw [arrayBits_eq, List.take_of_length_le (Nat.le_refl _)]
      exact readBytes_ofBytes blk rest hb
    · simp only [if_neg h32]
      obtain ⟨enc, he, hd⟩ := chunks1B_rt 4194304 11 (by omega) (by omega) (by omega) blk.length blk (Nat.le_refl _) hb
      exact ⟨enc, he, fun rest => hd _ (by unfold Kanzi.Ans1.freshTables; exact List.length_replicate) 0 rest⟩

end Kanzi.ROLZ
