/-
List combinatorics behind the sorted rank transform (slice `srt`): `firsts` (the distinct symbols
of a list in order of first occurrence) and the facts about `idxOf` in it that make the forward
move-to-front ranks and the inverse "next occurrence" list agree.
-/
import Kanzi.Model.SRT

namespace Kanzi.SRT

/-- distinct elements in order of first occurrence -/
def firsts : List Nat → List Nat
  | [] => []
  | x :: l => x :: (firsts l).erase x

theorem mem_firsts_nodup : ∀ (l : List Nat), (firsts l).Nodup ∧ ∀ a, a ∈ firsts l ↔ a ∈ l := by
  intro l
  induction l with
  | nil => simp [firsts]
  | cons x l ih =>
    obtain ⟨hn, hm⟩ := ih
    refine ⟨?_, ?_⟩
    · simp only [firsts, List.nodup_cons]
      exact ⟨by simp [hn.mem_erase_iff], hn.erase x⟩
    · intro a
      simp only [firsts, List.mem_cons, hn.mem_erase_iff, hm]
      by_cases h : a = x <;> simp [h]

theorem nodup_firsts (l : List Nat) : (firsts l).Nodup := (mem_firsts_nodup l).1
theorem mem_firsts {l : List Nat} {a : Nat} : a ∈ firsts l ↔ a ∈ l := (mem_firsts_nodup l).2 a

theorem firsts_of_nodup : ∀ {l : List Nat}, l.Nodup → firsts l = l := by
  intro l
  induction l with
  | nil => intro _; rfl
  | cons x l ih =>
    intro h
    rw [List.nodup_cons] at h
    simp only [firsts, ih h.2, List.erase_of_not_mem h.1]

theorem firsts_firsts (l : List Nat) : firsts (firsts l) = firsts l := firsts_of_nodup (nodup_firsts l)

/-- `firsts` of a concatenation -/
theorem firsts_append (u v : List Nat) :
    firsts (u ++ v) = firsts u ++ (firsts v).filter (fun y => !(u.contains y)) := by
  induction u with
  | nil =>
    simp only [firsts, List.nil_append, List.contains_nil, Bool.not_false]
    exact (List.filter_eq_self.2 (fun _ _ => rfl)).symm
  | cons x u ih =>
    simp only [List.cons_append, firsts, ih]
    have hnd : (firsts u ++ (firsts v).filter (fun y => !(u.contains y))).Nodup := by
      rw [← ih]; exact nodup_firsts _
    rw [hnd.erase_eq_filter, (nodup_firsts u).erase_eq_filter, List.filter_append, List.filter_filter]
    congr 2
    apply List.filter_congr
    intro y _
    by_cases h : y = x
    · simp [h]
    · simp [h]

theorem firsts_append_cons {u : List Nat} {c : Nat} (v : List Nat) (hc : c ∉ u) :
    ∃ w, firsts (u ++ c :: v) = firsts u ++ c :: w := by
  rw [firsts_append]
  simp only [firsts, List.filter_cons]
  simp [hc]

/-- position of `c` among the distinct symbols = number of distinct symbols before its first
    occurrence -/
theorem idxOf_firsts {u : List Nat} {c : Nat} (v : List Nat) (hc : c ∉ u) :
    (firsts (u ++ c :: v)).idxOf c = (firsts u).length := by
  obtain ⟨w, hw⟩ := firsts_append_cons v hc
  rw [hw, List.idxOf_append]
  simp [mem_firsts, hc]

/-- nodup lists with the same elements have the same length -/
theorem length_eq_of_nodup_mem {l l' : List Nat} (h : l.Nodup) (h' : l'.Nodup)
    (hm : ∀ a, a ∈ l ↔ a ∈ l') : l.length = l'.length :=
  ((List.perm_ext_iff_of_nodup h h').2 hm).length_eq

theorem firsts_length_congr {l l' : List Nat} (hm : ∀ a, a ∈ l ↔ a ∈ l') :
    (firsts l).length = (firsts l').length :=
  length_eq_of_nodup_mem (nodup_firsts l) (nodup_firsts l') (by intro a; simp [mem_firsts, hm])

/-- split a list at the first occurrence of a member -/
theorem split_first {l : List Nat} {c : Nat} (h : c ∈ l) : ∃ u v, l = u ++ c :: v ∧ c ∉ u := by
  induction l with
  | nil => simp at h
  | cons x l ih =>
    by_cases hx : x = c
    · exact ⟨[], l, by simp [hx], by simp⟩
    · have : c ∈ l := by
        rcases List.mem_cons.1 h with h | h
        · exact absurd h.symm hx
        · exact h
      obtain ⟨u, v, huv, hu⟩ := ih this
      refine ⟨x :: u, v, by simp [huv], ?_⟩
      intro hm
      rcases List.mem_cons.1 hm with h | h
      · exact hx h.symm
      · exact hu h

theorem nodup_lt_length_le : ∀ (n : Nat) {l : List Nat}, l.Nodup → (∀ x ∈ l, x < n) → l.length ≤ n := by
  intro n
  induction n with
  | zero =>
    intro l _ hb
    cases l with
    | nil => simp
    | cons x l => exact absurd (hb x (by simp)) (by omega)
  | succ n ih =>
    intro l h hb
    have h1 : (l.erase n).length ≤ n := by
      apply ih (h.erase n)
      intro x hx
      rw [h.mem_erase_iff] at hx
      have := hb x hx.2
      omega
    rw [List.length_erase] at h1
    split at h1 <;> omega

theorem bytes_nodup_length_le {l : List Nat} (h : l.Nodup) (hb : ∀ x ∈ l, x < 256) : l.length ≤ 256 :=
  nodup_lt_length_le 256 h hb

end Kanzi.SRT
