/-
C03, ANS range decoder on forged input: the concrete counter-examples (evaluated in the kernel by
`decide`) that go with `Properties/C03_ans.lean`.  Each is a complete input of a complete `Read` on
a new decoder; the same inputs are in the `ansdec` corpus, where the real decoder must end the
same way.
-/
import Kanzi.Model.AnsDec

namespace Kanzi.C03
open Kanzi.Bits Kanzi.EntSmall Kanzi.AnsDec

/-- a two-symbol header at log range 8 (alphabet {0,1}, frequencies 156 / 100) -/
def exHdr : Bits := natBits 0 3 ++ [true] ++ natBits 0 5 ++ natBits 3 8 ++ natBits 7 4 ++ natBits 99 7

/-- counter-example (order 0, a new default decoder, `Read` of 40 bytes): header, then a forged
payload size 300 > max(2·40, 256) = 256: the real code panics inside `ReadArray` (recovered by the
task); nothing beyond 256 bytes is allocated -/
theorem C03_ans_overrun_example :
    (read ⟨0, 16384, 6⟩ (fresh 0)
      (exHdr ++ writeVarInt 300 ++ natBits 40000 32 ++ natBits 40000 32 ++ natBits 40000 32 ++ natBits 40000 32) 40).cls
      = .stop .overrun := by
  set_option maxRecDepth 100000 in decide

theorem C03_ans_overrun_example_alloc :
    (read ⟨0, 16384, 6⟩ (fresh 0)
      (exHdr ++ writeVarInt 300 ++ natBits 40000 32 ++ natBits 40000 32 ++ natBits 40000 32 ++ natBits 40000 32) 40).bufSz
      = 256 := by
  set_option maxRecDepth 100000 in decide

/-- the same header with a payload size that fits: the forged payload decodes to 40 bytes -/
example : (read ⟨0, 16384, 6⟩ (fresh 0)
      (exHdr ++ writeVarInt 3 ++ natBits 40000 32 ++ natBits 40000 32 ++ natBits 40000 32 ++ natBits 40000 32
        ++ ofBytes [1, 2, 3]) 40).cls = .ret 40 false := by
  set_option maxRecDepth 100000 in decide

/-! ## bitstream version 1 -/

/-- counter-example to "no fault" for version 1: two zero states and three zero payload bytes make
the renormalisation loop `for st < _ANS_TOP` run off the end of `this.buffer` (index panic, recovered
by the task).  An observation, not a violation. -/
theorem C03_ans_v1_fault_example :
    (read ⟨0, 16384, 1⟩ (fresh 0) (exHdr ++ writeVarInt 3 ++ natBits 0 32 ++ natBits 0 32 ++ ofBytes [0, 0, 0]) 40).cls
      = .stop .fault := by
  set_option maxRecDepth 100000 in decide

/-- version 1 used to allocate `sz + sz/8` bytes from the forged size alone (finding: 144 MiB per
decoding task for a 52-byte stream).  Since the repair `decodeChunkV1` rejects `sz > max(2·len, 256)`
before reading the states: the same forged input (size 2000 for a `Read` of 40 bytes) now ends in
the clean error "incorrect chunk size" -/
theorem C03_ans_v1_forged_size_rejected :
    (read ⟨0, 16384, 1⟩ (fresh 0) (exHdr ++ writeVarInt 2000 ++ natBits 0 32 ++ natBits 0 32) 40).cls = .ret 0 true := by
  set_option maxRecDepth 100000 in decide

/-- and nothing has been allocated for it -/
theorem C03_ans_v1_forged_size_no_alloc :
    (read ⟨0, 16384, 1⟩ (fresh 0) (exHdr ++ writeVarInt 2000 ++ natBits 0 32 ++ natBits 0 32) 40).bufSz = 0 := by
  set_option maxRecDepth 100000 in decide

/-- the largest accepted size, `max(2·40, 256) = 256`, allocates `256 + 32` bytes (then the input ends) -/
theorem C03_ans_v1_boundary_size :
    (read ⟨0, 16384, 1⟩ (fresh 0) (exHdr ++ writeVarInt 256 ++ natBits 0 32 ++ natBits 0 32) 40).bufSz = 288 := by
  set_option maxRecDepth 100000 in decide

end Kanzi.C03
