/-
Model of the reduced-offset Lempel-Ziv codec with its own binary range coder, `transform.rolzCodec2`
(transform name "ROLZX", v2/transform/ROLZCodec.go), slice `rolz`, property C13; plus everything the two
ROLZ codecs share (`getKey1`, `getKey2`, `rolzhash`, `emitCopy`, the wrapper `ROLZCodec`).

  * `getKey1`, `getKey2`, `rolzhash`   the context key (16 bits) and the 8-bit hash tag of a position
  * `Enc`, `Enc.encodeBit`, `encBits`  Go `rolzEncoder` (`encodeBit`, `encode9Bits`, `encodeBits`, `dispose`)
  * `Dec`, `Dec.decodeBit`, `decBits`  Go `rolzDecoder` (`newRolzDecoder`, `decodeBit`, `decode9Bits`, `decodeBits`)
  * `probUp`                           the 16-bit adaptive probability update of both
  * `findMatch2`                       Go `rolzCodec2.findMatch` (search of the ring of the last `posChecks`
                                       positions of the key, then registration of the current position)
  * `rolzxForward`                     Go `ROLZCodec.Forward` (wrapper) + `rolzCodec2.Forward`
  * `rolzxInverse`                     Go `ROLZCodec.Inverse` (wrapper) + `rolzCodec2.Inverse`
  * `emitCopy`                         Go `emitCopy` (plain `copy` when the ranges do not overlap, byte loop otherwise)

Core Lean only (linked into `kmodel`).  Bytes are `Nat` (< 256).

Parameters that stand for the codec instance / its ctx map:
  `cs`    the chunk size `_ROLZ_CHUNK_SIZE` (2^24 in the Go code: `CHUNK_SIZE`; positions are stored in 24 bits,
          so only `cs ≤ 2^24` is meaningful)
  `lpc`   `logPosChecks` (5 for ROLZX, 4 for ROLZ built by name; 2..8 through `NewROLZCodec`)
  `dt`    the ctx entry `dataType` as a number (0 = no entry / DT_UNDEFINED, 3 = DT_EXE, 6 = DT_DNA, 2 =
          DT_MULTIMEDIA); `hasCtx = false` is a nil ctx (no detection at all)
  `bsv`   the ctx entry `bsVersion` of Inverse (6 when absent)

Forward writes `dst` front to back and never reads it: the destination is the `Array Nat` of the bytes
written so far (`out.size` is the Go `dstIdx`), every store is checked against `len(dst) = dstLen`.
Inverse reads what it wrote (and, for old bitstream versions, bytes it has not written yet): its
destination is an in-place `Array Nat` of `len(dst)` bytes with arbitrary initial contents.

Outcomes (`Out`): `.ok` = nil error, `.err c` = non-nil Go error of class `c`, `.fault k` = a Go run-time
panic (index / slice bounds out of range) of kind `k`, or exhausted model fuel (`"fuel"`).  Every read of the
source / chunk and every store is modelled with its bounds check; slices have `cap = len` (the slice
expression `buf[pos:pos+4]` of `rolzhash` is checked against the capacity of `buf`, i.e. the end of `src`,
exactly as in Go: it may read up to one byte past the chunk).  Reads of the probability tables and of the
`matches` / `counters` tables use `getD`: their indexes are in range by construction (`key < 65536`,
`c1 < 2^n`, ring index `< posChecks`).

Arithmetic: `low`, `high`, `current` are `uint64` (explicit `% 2^64` where Go can wrap); the hashes are
`uint32` / `uint64` products (explicit `%`).  `x & _ROLZ_HASH_MASK` is `x / 2^24 * 2^24` and
`x & ^_ROLZ_HASH_MASK` is `x % 2^24` (for `x < 2^32`); `hash32 | uint32(pos)` is `hash32 + pos` (`pos < 2^24`,
`hash32` a multiple of `2^24`).

Not modelled: the aliasing test `&src[0] == &dst[0]` (callers own two distinct buffers); a ctx entry of
the wrong dynamic type (type assertion panic).
-/
import Kanzi.Model.RLT

namespace Kanzi.ROLZ

/-- result of a Go call or of a piece of it -/
inductive Out (α : Type) where
  | ok (a : α)
  | err (e : String)
  | fault (kind : String)
deriving Repr, DecidableEq

@[inline] def Out.bind {α β : Type} (x : Out α) (f : α → Out β) : Out β :=
  match x with
  | .ok a => f a
  | .err e => .err e
  | .fault k => .fault k

/-! ## constants -/

def HASH_SIZE : Nat := 65536
def MIN_MATCH3 : Nat := 3
def MIN_MATCH4 : Nat := 4
def MIN_MATCH7 : Nat := 7
def MAX_MATCH1 : Nat := 3 + 65535
def MAX_MATCH2 : Nat := 3 + 255
def LOG_POS_CHECKS1 : Nat := 4
def LOG_POS_CHECKS2 : Nat := 5
def CHUNK_SIZE : Nat := 16777216
def HASH_SEED : Nat := 200002979
def MAX_BLOCK_SIZE : Nat := 1073741824
def MIN_BLOCK_SIZE : Nat := 64
def DST_MARGIN : Nat := 256
def PSCALE : Nat := 65535
def TOP : Nat := 0x00FFFFFFFFFFFFFF
def MASK_0_32 : Nat := 0x00000000FFFFFFFF
def DT_UNDEFINED : Nat := 0
def DT_MULTIMEDIA : Nat := 2
def DT_EXE : Nat := 3
def DT_DNA : Nat := 6

/-- Go: `rolzCodec2.MaxEncodedLen` -/
def maxEncodedLen2 (srcLen : Nat) : Nat := if srcLen ≤ 16384 then srcLen + 1024 else srcLen + srcLen / 32

/-! ## reads -/

/-- Go: `buf[i]` for a slice `buf` that ends at the absolute index `lim` of `a` (`i` absolute) -/
@[inline] def rd1 (a : Array Nat) (lim i : Nat) : Option Nat :=
  if i < lim then some (a.getD i 0) else none

/-- Go: `binary.LittleEndian.Uint16(buf[i:])` -/
@[inline] def le16 (a : Array Nat) (lim i : Nat) : Option Nat :=
  if i + 2 ≤ lim then some (a.getD i 0 + 256 * a.getD (i + 1) 0) else none

/-- Go: `binary.LittleEndian.Uint32(buf[i:])` -/
@[inline] def le32 (a : Array Nat) (lim i : Nat) : Option Nat :=
  if i + 4 ≤ lim then
    some (a.getD i 0 + 256 * a.getD (i + 1) 0 + 65536 * a.getD (i + 2) 0 + 16777216 * a.getD (i + 3) 0)
  else none

/-- Go: `binary.LittleEndian.Uint64(buf[i:])` -/
def le64 (a : Array Nat) (lim i : Nat) : Option Nat :=
  if i + 8 ≤ lim then
    some (a.getD i 0 + 256 * a.getD (i + 1) 0 + 65536 * a.getD (i + 2) 0 + 16777216 * a.getD (i + 3) 0
      + 4294967296 * (a.getD (i + 4) 0 + 256 * a.getD (i + 5) 0 + 65536 * a.getD (i + 6) 0
        + 16777216 * a.getD (i + 7) 0))
  else none

/-- Go: `getKey1(buf[i:])` -/
@[inline] def getKey1 (a : Array Nat) (lim i : Nat) : Option Nat := le16 a lim i

/-- Go: `getKey2(buf[i:])`: `uint32((Uint64(p) * _ROLZ_HASH_SEED) >> 40) & 0xFFFF` -/
def getKey2 (a : Array Nat) (lim i : Nat) : Option Nat :=
  (le64 a lim i).map fun w => (((w * HASH_SEED) % 2 ^ 64) >>> 40) % 65536

/-- Go: `if minMatch == _ROLZ_MIN_MATCH3 { key = getKey1(buf[idx-delta:]) } else { key = getKey2(buf[idx-delta:]) }`
    (`idx`, `lim` absolute, `base` = absolute start of `buf`); `none` = the slice expression panics -/
def getKey (mm delta : Nat) (a : Array Nat) (base lim idx : Nat) : Option Nat :=
  if idx < base + delta then none
  else if mm = MIN_MATCH3 then getKey1 a lim (idx - delta) else getKey2 a lim (idx - delta)

/-- Go: `rolzhash(p)` on the 32-bit little-endian word `w`: `((w << 8) * _ROLZ_HASH_SEED) & _ROLZ_HASH_MASK` -/
def rolzhashW (w : Nat) : Nat := ((((w <<< 8) % 2 ^ 32) * HASH_SEED) % 2 ^ 32) / 2 ^ 24 * 2 ^ 24

/-! ## the adaptive binary range coder `rolzEncoder` / `rolzDecoder` -/

/-- Go: `p -= p >> 5` (bit 0) and `p -= (p - _ROLZ_PSCALE + 32) >> 5` (bit 1; arithmetic shift of a possibly
    negative `int`: floor division) -/
def probUp (p : Nat) (bit : Bool) : Nat :=
  if bit then (if p ≥ 65503 then p - (p - 65503) / 32 else p + (65534 - p) / 32) else p - p / 32

/-- Go: `reset()`: every probability `_ROLZ_PSCALE >> 1` -/
def probs0 (logSize : Nat) : Array Nat := Array.replicate (256 <<< logSize) (PSCALE >>> 1)

/-- the registers of `rolzEncoder` and `dst[0:dstIdx]` -/
structure Enc where
  low : Nat
  high : Nat
  out : Array Nat

/-- Go: `binary.BigEndian.PutUint32(buf[idx:idx+4], w); idx += 4` -/
@[inline] def push32 (out : Array Nat) (w : Nat) : Array Nat :=
  (((out.push ((w >>> 24) % 256)).push ((w >>> 16) % 256)).push ((w >>> 8) % 256)).push (w % 256)

/-- Go: `split := (((high - low) >> 4) * uint64(p >> 4)) >> 8` -/
@[inline] def splitOf (low high p : Nat) : Nat :=
  (((((high + 2 ^ 64 - low) % 2 ^ 64) >>> 4) * (p >>> 4)) % 2 ^ 64) >>> 8

/-- Go: `encodeBit` for the probability `p = this.p[this.c1]` (the caller updates `p` and `c1`).  The `for`
    loop on `(low ^ high) >> 24 == 0` runs at most once: after one pass the low 32 bits of `low` are 0 and
    those of `high` are 1. -/
def Enc.encodeBit (dstLen : Nat) (e : Enc) (p : Nat) (bit : Bool) : Out Enc :=
  let low := e.low
  let high := e.high
  let out := e.out
  let split := splitOf low high p
  let low1 := if bit then low else (low + split + 1) % 2 ^ 64
  let high1 := if bit then (low + split) % 2 ^ 64 else high
  if (low1 ^^^ high1) >>> 24 = 0 then
    if out.size + 4 ≤ dstLen then
      .ok ⟨(low1 <<< 32) % 2 ^ 64, ((high1 <<< 32) % 2 ^ 64) ||| MASK_0_32, push32 out ((high1 >>> 32) % 2 ^ 32)⟩
    else .fault "dst-slice"
  else .ok ⟨low1, high1, out⟩

/-- Go: `encodeBits(val, n)` / `encode9Bits(val)` (`n = 9`) in the table `t = probs[pIdx]` at `ctx`: bits
    `n-1 .. 0` of `val`, most significant first; `c1` starts at 1 -/
def encBits (dstLen ctx val : Nat) : Nat → Nat → Enc → Array Nat → Out (Enc × Array Nat)
  | 0, _, e, t => .ok (e, t)
  | n + 1, c1, e, t =>
    let p := t.getD (ctx + c1) 0
    match e.encodeBit dstLen p (val.testBit n) with
    | .ok e' =>
      encBits dstLen ctx val n (2 * c1 + (val.testBit n).toNat) e' (t.setIfInBounds (ctx + c1) (probUp p (val.testBit n)))
    | .err x => .err x
    | .fault k => .fault k

/-- Go: `dispose()`: `for i := 0; i < 8; i++ { buf[idx+i] = byte(low >> 56); low <<= 8 }; idx += 8` -/
def Enc.dispose (dstLen : Nat) (e : Enc) : Out (Array Nat) :=
  if e.out.size + 8 ≤ dstLen then
    .ok (push32 (push32 e.out ((e.low >>> 32) % 2 ^ 32)) (e.low % 2 ^ 32))
  else .fault "dst-index"

/-- the registers of `rolzDecoder` and `*idx` (the read position in `src`) -/
structure Dec where
  low : Nat
  high : Nat
  current : Nat
  idx : Nat

/-- big-endian value of `a[i .. i+n)` -/
def beN (a : Array Nat) (i : Nat) : Nat → Nat
  | 0 => 0
  | n + 1 => beN a i n * 256 + a.getD (i + n) 0

/-- Go: `newRolzDecoder`: `current` = the 8 bytes at `idx` (big endian), `idx += 8` -/
def Dec.init (src : Array Nat) (idx : Nat) : Out Dec :=
  if idx + 8 ≤ src.size then .ok ⟨0, TOP, beN src idx 8, idx + 8⟩ else .fault "src-index"

/-- Go: `decodeBit` for the probability `p = this.p[this.c1]` -/
def Dec.decodeBit (src : Array Nat) (d : Dec) (p : Nat) : Out (Bool × Dec) :=
  let mid := (d.low + splitOf d.low d.high p) % 2 ^ 64
  let bit := decide (mid ≥ d.current)
  let low1 := if bit then d.low else (mid + 1) % 2 ^ 64
  let high1 := if bit then mid else d.high
  if (low1 ^^^ high1) >>> 24 = 0 then
    if d.idx + 4 ≤ src.size then
      .ok (bit, ⟨((low1 <<< 32) % 2 ^ 64) % 2 ^ 56, (((high1 <<< 32) % 2 ^ 64) ||| MASK_0_32) % 2 ^ 56,
        (((d.current <<< 32) % 2 ^ 64) ||| beN src d.idx 4) % 2 ^ 56, d.idx + 4⟩)
    else .fault "src-slice"
  else .ok (bit, ⟨low1, high1, d.current, d.idx⟩)

/-- Go: `decodeBits(n)` / `decode9Bits()`: returns the final `c1` (the caller masks it) -/
def decBits (src : Array Nat) (ctx : Nat) : Nat → Nat → Dec → Array Nat → Out (Nat × Dec × Array Nat)
  | 0, c1, d, t => .ok (c1, d, t)
  | n + 1, c1, d, t =>
    let p := t.getD (ctx + c1) 0
    match d.decodeBit src p with
    | .ok r => decBits src ctx n (2 * c1 + r.1.toNat) r.2 (t.setIfInBounds (ctx + c1) (probUp p r.1))
    | .err x => .err x
    | .fault k => .fault k

/-! ## match search (Forward) -/

/-- number of equal leading bytes of two 4-byte groups: `bits.TrailingZeros32(x ^ y) >> 3` when they differ, 4 when equal -/
@[inline] def cpl4 (a : Array Nat) (i j : Nat) : Nat :=
  if a.getD i 0 ≠ a.getD j 0 then 0
  else if a.getD (i + 1) 0 ≠ a.getD (j + 1) 0 then 1
  else if a.getD (i + 2) 0 ≠ a.getD (j + 2) 0 then 2
  else if a.getD (i + 3) 0 ≠ a.getD (j + 3) 0 then 3
  else 4

/-- Go: `n := 0; for n < maxMatch { if diff := Uint32(refBuf[n:]) ^ Uint32(curBuf[n:]); diff != 0 { n +=
    TrailingZeros32(diff) >> 3; break }; n += 4 }` (`r`, `p` absolute positions of `refBuf`, `curBuf`; `lim` the
    end of `buf`) -/
def matchLen2 (a : Array Nat) (lim r p maxMatch : Nat) : Nat → Nat → Out Nat
  | 0, _ => .fault "fuel"
  | f + 1, n =>
    if n < maxMatch then
      if r + n + 4 ≤ lim ∧ p + n + 4 ≤ lim then
        if cpl4 a (r + n) (p + n) < 4 then .ok (n + cpl4 a (r + n) (p + n)) else matchLen2 a lim r p maxMatch f (n + 4)
      else .fault "src-slice"
    else .ok n

/-- Go: the candidate loop of `findMatch` (`for i := counter; i > counter-posChecks; i--`), `j = counter - i`;
    `m[k]` is `matches[mb + k]`; returns `(bestLen, counter - bestIdx)` -/
def candLoop2 (a : Array Nat) (base lim pos hash32 maxMatch : Nat) (mts : Array Nat) (mb counter pc : Nat) :
    Nat → Nat → Nat → Nat → Out (Nat × Nat)
  | 0, _, bestLen, bestJ => .ok (bestLen, bestJ)
  | k + 1, j, bestLen, bestJ =>
    let ref := mts.getD (mb + (counter + pc - j) % pc) 0
    if ref / 2 ^ 24 * 2 ^ 24 ≠ hash32 then candLoop2 a base lim pos hash32 maxMatch mts mb counter pc k (j + 1) bestLen bestJ
    else
      let r := base + ref % 2 ^ 24
      match rd1 a lim (r + bestLen), rd1 a lim (pos + bestLen) with
      | some x, some y =>
        if x ≠ y then candLoop2 a base lim pos hash32 maxMatch mts mb counter pc k (j + 1) bestLen bestJ
        else
          match matchLen2 a lim r pos maxMatch (maxMatch / 4 + 2) 0 with
          | .ok n =>
            if n > bestLen then
              if n = maxMatch then .ok (n, j)
              else candLoop2 a base lim pos hash32 maxMatch mts mb counter pc k (j + 1) n j
            else candLoop2 a base lim pos hash32 maxMatch mts mb counter pc k (j + 1) bestLen bestJ
          | .err e => .err e
          | .fault e => .fault e
      | _, _ => .fault "src-index"

/-- the two tables of a codec instance -/
structure Tab where
  mts : Array Nat
  counters : Array Nat

/-- Go: "Register current position": `counters[key] = (counters[key] + 1) & maskChecks; m[counters[key]] = v` -/
def Tab.register (t : Tab) (lpc key v : Nat) : Tab :=
  let m := t.mts
  let cn := t.counters
  let c := (cn.getD key 0 + 1) % 2 ^ lpc
  ⟨m.setIfInBounds (key * 2 ^ lpc + c) v, cn.setIfInBounds key c⟩

/-- Go: `rolzCodec2.findMatch(buf, pos, key)` (`pos`, `lim` absolute; `base` the start of `buf`).  Returns the
    match `(index, length - minMatch)` if any, and the updated tables.  No registration when fewer than
    `minMatch` bytes are left in the chunk. -/
def findMatch2 (a : Array Nat) (base lim pos key mm lpc : Nat) (t : Tab) : Out (Option (Nat × Nat) × Tab) :=
  let maxMatch := min MAX_MATCH2 (lim - pos)
  if maxMatch < mm then .ok (none, t)
  else
    match le32 a a.size pos with
    | none => .fault "src-slice"
    | some w =>
      let hash32 := rolzhashW w
      let counter := t.counters.getD key 0
      match candLoop2 a base lim pos hash32 (maxMatch - 4) t.mts (key * 2 ^ lpc) counter (2 ^ lpc) (2 ^ lpc) 0 0 0 with
      | .ok r =>
        let t' := t.register lpc key (hash32 + (pos - base))
        if r.1 < mm then .ok (none, t') else .ok (some (r.2, r.1 - mm), t')
      | .err e => .err e
      | .fault e => .fault e

/-! ## Forward -/

/-- the mutable state of `rolzCodec2.Forward` -/
structure FSt where
  tab : Tab
  enc : Enc
  /-- `re.probs[_ROLZ_LITERAL_CTX]` -/
  pl : Array Nat
  /-- `re.probs[_ROLZ_MATCH_CTX]` -/
  pm : Array Nat

/-- Go: `re.setContext(_ROLZ_LITERAL_CTX, c); re.encode9Bits(val)` -/
def encLit9 (dstLen c val : Nat) (s : FSt) : Out FSt :=
  let tab := s.tab
  let enc := s.enc
  let pl := s.pl
  let pm := s.pm
  match encBits dstLen (c <<< 9) val 9 1 enc pl with
  | .ok r => .ok ⟨tab, r.1, r.2, pm⟩
  | .err e => .err e
  | .fault k => .fault k

/-- Go: "First literals": `mm := min(8, sizeChunk); for j := 0; j < mm; j++ { re.encode9Bits((_ROLZ_LITERAL_FLAG << 8) |
    int(buf[srcIdx])); srcIdx++ }` in the context 0 (`i` absolute, `lim` the end of `buf`) -/
def fwdFirst (a : Array Nat) (dstLen lim : Nat) : Nat → Nat → FSt → Out FSt
  | 0, _, s => .ok s
  | k + 1, i, s =>
    match rd1 a lim i with
    | none => .fault "src-index"
    | some v =>
      match encLit9 dstLen 0 (256 + v) s with
      | .ok s' => fwdFirst a dstLen lim k (i + 1) s'
      | .err e => .err e
      | .fault e => .fault e

/-- Go: one iteration of the loop "Next chunk" of Forward at the absolute position `i`; returns the new position -/
def fwdStep (a : Array Nat) (dstLen base lim mm delta lpc i : Nat) (s : FSt) : Out (Nat × FSt) :=
  let tab := s.tab
  let enc := s.enc
  let pl := s.pl
  let pm := s.pm
  if enc.out.size + DST_MARGIN > dstLen then .err "nocomp"
  else
    match rd1 a lim (i - 1), getKey mm delta a base lim i with
    | some c, some key =>
      match findMatch2 a base lim i key mm lpc tab with
      | .ok (none, t) =>
        match rd1 a lim i with
        | some v =>
          match encLit9 dstLen c (256 + v) ⟨t, enc, pl, pm⟩ with
          | .ok s' => .ok (i + 1, s')
          | .err e => .err e
          | .fault e => .fault e
        | none => .fault "src-index"
      | .ok (some (mi, ml), t) =>
        match encLit9 dstLen c ml ⟨t, enc, pl, pm⟩ with
        | .ok s1 =>
          let tab1 := s1.tab
          let enc1 := s1.enc
          let pl1 := s1.pl
          let pm1 := s1.pm
          match encBits dstLen (c <<< lpc) mi lpc 1 enc1 pm1 with
          | .ok r => .ok (i + ml + mm, ⟨tab1, r.1, pl1, r.2⟩)
          | .err e => .err e
          | .fault e => .fault e
        | .err e => .err e
        | .fault e => .fault e
      | .err e => .err e
      | .fault e => .fault e
    | _, _ => .fault "src-index"

/-- Go: `for srcIdx < sizeChunk { ... }` -/
def fwdLoop (a : Array Nat) (dstLen base lim mm delta lpc : Nat) : Nat → Nat → FSt → Out (Nat × FSt)
  | 0, _, _ => .fault "fuel"
  | f + 1, i, s =>
    if i < lim then
      match fwdStep a dstLen base lim mm delta lpc i s with
      | .ok r => fwdLoop a dstLen base lim mm delta lpc f r.1 r.2
      | .err e => .err e
      | .fault e => .fault e
    else .ok (i, s)

/-- Go: `clear(this.matches)` -/
def matches0 (lpc : Nat) : Array Nat := Array.replicate (HASH_SIZE * 2 ^ lpc) 0

/-- Go: the main loop `for startChunk < srcEnd` of Forward.  `sizeChunk` is the running variable of the Go code
    (it is overwritten by the size of each chunk).  Returns the last chunk-relative `srcIdx`, `startChunk`,
    `sizeChunk` after the loop and the state. -/
def fwdChunks (a : Array Nat) (dstLen srcEnd mm delta lpc : Nat) :
    Nat → Nat → Nat → Nat → FSt → Out (Nat × Nat × Nat × FSt)
  | 0, _, _, _, _ => .fault "fuel"
  | f + 1, startChunk, sizeChunk, srcIdx, s =>
    if startChunk < srcEnd then
      let endChunk := if startChunk + sizeChunk ≥ srcEnd then srcEnd else startChunk + sizeChunk
      let s0 : FSt := ⟨⟨matches0 lpc, s.tab.counters⟩, s.enc, probs0 9, probs0 lpc⟩
      match fwdFirst a dstLen endChunk (min 8 (endChunk - startChunk)) startChunk s0 with
      | .ok s1 =>
        match fwdLoop a dstLen startChunk endChunk mm delta lpc (endChunk - startChunk + 1)
            (startChunk + min 8 (endChunk - startChunk)) s1 with
        | .ok r => fwdChunks a dstLen srcEnd mm delta lpc f endChunk (endChunk - startChunk) (r.1 - startChunk) r.2
        | .err e => .err e
        | .fault e => .fault e
      | .err e => .err e
      | .fault e => .fault e
    else .ok (srcIdx, startChunk, sizeChunk, s)

/-- Go: "Emit last literals": `for i := 0; i < 4; i++ { re.setContext(_ROLZ_LITERAL_CTX, src[srcIdx-1]);
    re.encode9Bits((_ROLZ_LITERAL_FLAG << 8) | int(src[srcIdx])); srcIdx++ }` -/
def fwdLast (a : Array Nat) (dstLen : Nat) : Nat → Nat → FSt → Out FSt
  | 0, _, s => .ok s
  | k + 1, i, s =>
    if i = 0 then .fault "src-index"
    else
      match rd1 a a.size (i - 1), rd1 a a.size i with
      | some c, some v =>
        match encLit9 dstLen c (256 + v) s with
        | .ok s' => fwdLast a dstLen k (i + 1) s'
        | .err e => .err e
        | .fault e => .fault e
      | _, _ => .fault "src-index"

/-- the data type Forward works with: the ctx entry, or (entry absent / DT_UNDEFINED, ctx present) the result of
    `internal.DetectSimpleType` on the order-0 histogram -/
def effType (hasCtx : Bool) (dt : Nat) (src : List Nat) : Nat :=
  if !hasCtx then DT_UNDEFINED
  else if dt = DT_UNDEFINED then Kanzi.RLT.detectSimpleType src.length (Kanzi.RLT.histogram src)
  else dt

/-- `(minMatch, delta, flags)` chosen by `rolzCodec2.Forward` -/
def fwdParams2 (ty : Nat) : Nat × Nat × Nat :=
  if ty = DT_EXE then (MIN_MATCH3, 3, 8)
  else if ty = DT_DNA then (MIN_MATCH7, 8, 4)
  else (MIN_MATCH3, 2, 0)

/-- Go: `ROLZCodec.Forward(src, dst)` with a `rolzCodec2` delegate; `dstLen = len(dst)`; `.ok` = `dst[0:dstIdx]` -/
def rolzxForward (cs lpc : Nat) (hasCtx : Bool) (dt : Nat) (src : List Nat) (dstLen : Nat) : Out (List Nat) :=
  if src.length = 0 ∨ dstLen = 0 then .ok []
  else if src.length < MIN_BLOCK_SIZE then .err "small"
  else if src.length > MAX_BLOCK_SIZE then .err "big"
  else if dstLen < maxEncodedLen2 src.length then .err "dst"
  else
    let a := src.toArray
    let n := a.size
    let srcEnd := n - 4
    let prm := fwdParams2 (effType hasCtx dt src)
    let out0 : Array Nat := #[(n >>> 24) % 256, (n >>> 16) % 256, (n >>> 8) % 256, n % 256, prm.2.2]
    let s0 : FSt := ⟨⟨matches0 lpc, Array.replicate HASH_SIZE 0⟩, ⟨0, TOP, out0⟩, probs0 9, probs0 lpc⟩
    match fwdChunks a dstLen srcEnd prm.1 prm.2.1 lpc (n / (min n cs) + 2) 0 (min n cs) 0 s0 with
    | .ok (srcIdx, startChunk, sizeChunk, s) =>
      -- Go: `srcIdx += (startChunk - sizeChunk)` (ints; never negative here)
      let i := srcIdx + startChunk - sizeChunk
      match fwdLast a dstLen 4 i s with
      | .ok s' =>
        match s'.enc.dispose dstLen with
        | .ok out =>
          if i + 4 ≠ n then .err "dstsmall"
          else if out.size ≥ n then .err "nocomp"
          else .ok out.toList
        | .err e => .err e
        | .fault e => .fault e
      | .err e => .err e
      | .fault e => .fault e
    | .err e => .err e
    | .fault e => .fault e

/-! ## Inverse -/

/-- Go: the byte loop of `emitCopy`: `for n != 0 { buf[d] = buf[r]; d++; r++; n-- }` without bounds checks
    (`setIfInBounds`; the callers check) -/
def copyLoop (dst : Array Nat) : Nat → Nat → Nat → Array Nat
  | 0, _, _ => dst
  | n + 1, d, r => copyLoop (dst.setIfInBounds d (dst.getD r 0)) n (d + 1) (r + 1)

/-- Go: `emitCopy(buf, dstIdx, ref, matchLen)` for `buf` ending at the absolute index `lim` (`d`, `r` absolute).
    Non-overlapping ranges: `copy(buf[d:], buf[r:r+n])`, silently shortened when fewer than `n` bytes are left in
    `buf`; overlapping: the byte loop, which panics at the end of `buf`.  Returns the new `dstIdx = d + n`. -/
def emitCopy (dst : Array Nat) (lim d r n : Nat) : Out (Array Nat × Nat) :=
  if d ≥ r + n then .ok (copyLoop dst (min n (lim - d)) d r, d + n)
  else if d + n ≤ lim then .ok (copyLoop dst n d r, d + n)
  else .fault "dst-index"

/-- the mutable state of `rolzCodec2.Inverse` -/
structure ISt where
  tab : Tab
  dec : Dec
  pl : Array Nat
  pm : Array Nat
  dst : Array Nat

/-- Go: `rd.setContext(_ROLZ_LITERAL_CTX, c); val := rd.decode9Bits()` -/
def decLit9 (src : Array Nat) (c : Nat) (s : ISt) : Out (Nat × ISt) :=
  let tab := s.tab
  let dec := s.dec
  let pl := s.pl
  let pm := s.pm
  let dst := s.dst
  match decBits src (c <<< 9) 9 1 dec pl with
  | .ok r => .ok (r.1 % 512, ⟨tab, r.2.1, r.2.2, pm, dst⟩)
  | .err e => .err e
  | .fault k => .fault k

/-- Go: "First literals" of Inverse (`i` absolute, `lim` the end of `buf`); a match flag is an error -/
def invFirst (src : Array Nat) (lim : Nat) : Nat → Nat → ISt → Out ISt
  | 0, _, s => .ok s
  | k + 1, i, s =>
    match decLit9 src 0 s with
    | .ok (val, s') =>
      if val >>> 8 = 0 then .err "invalid"
      else if i < lim then
        let tab := s'.tab
        let dec := s'.dec
        let pl := s'.pl
        let pm := s'.pm
        let dst := s'.dst
        invFirst src lim k (i + 1) ⟨tab, dec, pl, pm, dst.setIfInBounds i (val % 256)⟩
      else .fault "dst-index"
    | .err e => .err e
    | .fault e => .fault e

/-- Go: one iteration of the loop "Next chunk" of Inverse at the absolute position `i` -/
def invStep (src : Array Nat) (dstEnd base lim mm delta lpc i : Nat) (s : ISt) : Out (Nat × ISt) :=
  match getKey mm delta s.dst base lim i, rd1 s.dst lim (i - 1) with
  | some key, some c =>
    match decLit9 src c s with
    | .ok (val, s1) =>
      let tab := s1.tab
      let dec := s1.dec
      let pl := s1.pl
      let pm := s1.pm
      let dst := s1.dst
      if val >>> 8 = 1 then
        .ok (i + 1, ⟨tab.register lpc key (i - base), dec, pl, pm, dst.setIfInBounds i (val % 256)⟩)
      else
        let matchLen := val % 256
        if matchLen + 3 > dstEnd then .err "invalid"
        else
          match decBits src (c <<< lpc) lpc 1 dec pm with
          | .ok r =>
            let matchIdx := r.1 % 2 ^ lpc
            let ref := tab.mts.getD (key * 2 ^ lpc + (tab.counters.getD key 0 + 2 ^ lpc - matchIdx) % 2 ^ lpc) 0
            match emitCopy dst lim i (base + ref) (matchLen + mm) with
            | .ok (dst', i') => .ok (i', ⟨tab.register lpc key (i - base), r.2.1, pl, r.2.2, dst'⟩)
            | .err e => .err e
            | .fault e => .fault e
          | .err e => .err e
          | .fault e => .fault e
    | .err e => .err e
    | .fault e => .fault e
  | _, _ => .fault "dst-index"

/-- Go: `for dstIdx < sizeChunk { ... }` -/
def invLoop (src : Array Nat) (dstEnd base lim mm delta lpc : Nat) : Nat → Nat → ISt → Out (Nat × ISt)
  | 0, _, _ => .fault "fuel"
  | f + 1, i, s =>
    if i < lim then
      match invStep src dstEnd base lim mm delta lpc i s with
      | .ok r => invLoop src dstEnd base lim mm delta lpc f r.1 r.2
      | .err e => .err e
      | .fault e => .fault e
    else .ok (i, s)

/-- Go: the main loop `for startChunk < chunksEnd` of Inverse (`fl` = number of first literals: 8, or 2 for
    `bsVersion < 3`; at most the chunk size).  Returns the last chunk-relative `dstIdx`, `startChunk`, `sizeChunk`
    and the state. -/
def invChunks (src : Array Nat) (dstEnd chunksEnd mm delta lpc fl : Nat) :
    Nat → Nat → Nat → Nat → ISt → Out (Nat × Nat × Nat × ISt)
  | 0, _, _, _, _ => .fault "fuel"
  | f + 1, startChunk, sizeChunk, dstIdx, s =>
    if startChunk < chunksEnd then
      let endChunk := if startChunk + sizeChunk > chunksEnd then chunksEnd else startChunk + sizeChunk
      let s0 : ISt := ⟨⟨matches0 lpc, s.tab.counters⟩, s.dec, probs0 9, probs0 lpc, s.dst⟩
      match invFirst src endChunk (min fl (endChunk - startChunk)) startChunk s0 with
      | .ok s1 =>
        match invLoop src dstEnd startChunk endChunk mm delta lpc (endChunk - startChunk + 1)
            (startChunk + min fl (endChunk - startChunk)) s1 with
        | .ok r => invChunks src dstEnd chunksEnd mm delta lpc fl f endChunk (endChunk - startChunk) (r.1 - startChunk) r.2
        | .err e => .err e
        | .fault e => .fault e
      | .err e => .err e
      | .fault e => .fault e
    else .ok (dstIdx, startChunk, sizeChunk, s)

/-- Go: "Last literals" of Inverse: `for i := 0; i < lastLiterals; i++ { rd.setContext(_ROLZ_LITERAL_CTX, dst[dstIdx-1]);
    val := rd.decode9Bits(); if val>>8 == _ROLZ_MATCH_FLAG { return error }; dst[dstIdx] = byte(val); dstIdx++ }`
    (`i` absolute, checked against `len(dst)`) -/
def invLast (src : Array Nat) : Nat → Nat → ISt → Out (Nat × ISt)
  | 0, i, s => .ok (i, s)
  | k + 1, i, s =>
    if i = 0 then .fault "dst-index"
    else
      match rd1 s.dst s.dst.size (i - 1) with
      | none => .fault "dst-index"
      | some c =>
        match decLit9 src c s with
        | .ok (val, s') =>
          if val >>> 8 = 0 then .err "invalid"
          else if i < s'.dst.size then
            let tab := s'.tab
            let dec := s'.dec
            let pl := s'.pl
            let pm := s'.pm
            let dst := s'.dst
            invLast src k (i + 1) ⟨tab, dec, pl, pm, dst.setIfInBounds i (val % 256)⟩
          else .fault "dst-index"
        | .err e => .err e
        | .fault e => .fault e

/-- `(minMatch, delta, srcIdx, first literals)` chosen by `rolzCodec2.Inverse` from `bsVersion` and the flags byte -/
def invParams2 (bsv flags : Nat) : Nat × Nat × Nat × Nat :=
  if bsv ≥ 4 then
    (if flags &&& 0x0E = 8 then (MIN_MATCH3, 3, 5, 8)
     else if flags &&& 0x0E = 4 then (MIN_MATCH7, 8, 5, 8)
     else (MIN_MATCH3, 2, 5, 8))
  else if bsv ≥ 3 then (if flags = 1 then (MIN_MATCH7, 2, 5, 8) else (MIN_MATCH3, 2, 5, 8))
  else (MIN_MATCH3, 2, 4, 2)

/-- Go: `ROLZCodec.Inverse(src, dst)` with a `rolzCodec2` delegate; `dst0` = the destination buffer before the
    call (`len(dst) = dst0.size`).  `.ok (written, dst)`: nil error, the value returned as "bytes written" and
    the destination buffer after the call. -/
def rolzxInverse (cs lpc bsv : Nat) (src : List Nat) (dst0 : Array Nat) : Out (Nat × Array Nat) :=
  if src.length = 0 ∨ dst0.size = 0 then .ok (0, dst0)
  else if src.length < 5 then .err "small"
  else if src.length > MAX_BLOCK_SIZE then .err "big"
  else
    let a := src.toArray
    let dstEnd := beN a 0 4
    if dstEnd = 0 ∨ dstEnd > dst0.size then .err "invalid"
    else
      let prm := invParams2 bsv (a.getD 4 0)
      match Dec.init a prm.2.2.1 with
      | .ok d =>
        -- the encoder's chunk bounds: all but the last 4 bytes (bitstream version 4 and later)
        let last := if bsv ≥ 4 then 4 else 0
        if bsv ≥ 4 ∧ dstEnd < 4 then .err "invalid"
        else
          let s0 : ISt := ⟨⟨matches0 lpc, Array.replicate HASH_SIZE 0⟩, d, probs0 9, probs0 lpc, dst0⟩
          match invChunks a dstEnd (dstEnd - last) prm.1 prm.2.1 lpc prm.2.2.2 (dstEnd / (min dst0.size cs) + 2) 0
              (min dst0.size cs) 0 s0 with
          | .ok (dstIdx, startChunk, sizeChunk, s) =>
            -- Go: `dstIdx += (startChunk - sizeChunk)` (ints: negative when no chunk was decoded)
            if dstIdx + startChunk < sizeChunk then .fault "dst-index"
            else
              match invLast a last (dstIdx + startChunk - sizeChunk) s with
              | .ok (w, s') =>
                if s'.dec.idx ≠ a.size then .err "invalid"
                else .ok (w, s'.dst)
              | .err e => .err e
              | .fault e => .fault e
          | .err e => .err e
          | .fault e => .fault e
      | .err e => .err e
      | .fault e => .fault e

end Kanzi.ROLZ
