/-
C13 for the LZ77 codec `transform.LZXCodec` (transform names LZ and LZX) — property theorems only; proofs in
`Kanzi/Proofs/LZLen.lean`, `LZFormat.lean`, `LZFwd.lean`, `LZTotal.lean`.  The model (`Kanzi/Model/LZ.lean`)
mirrors v2/transform/LZCodec.go (`LZXCodec.Forward` with its hash table match finder, lazy matching, repeat
distances, token layout and the four output sections; `inverseV6`; `MaxEncodedLen`; `emitLengthLZ` /
`readLengthLZ`; `findMatchLZX`) and is tied to /repo by the `lz` correspondence stream (byte-exact outputs).

Conventions: a block is an `Array Nat` of byte values; the last argument of `lzForward` is `len(dst)` of the
Go call; `lzInverse t dst0` decodes into a destination whose initial contents are `dst0` (`len(dst) =
dst0.size`; the result never depends on those contents for a valid stream, it does for forged ones).
`.ok t` is `dst[0:written]` with a nil error, `.err c` a non-nil error (Forward declines / Inverse fails),
`.fault` a Go run-time panic (index or slice out of range), a silently shortened `copy`, a `written` count
beyond `len(dst)`, or exhausted model fuel.  `extra` (LZX) and `dt` (the ctx `dataType`) are the two values
Forward reads from its ctx; the theorems hold for all of them.  "Input left untouched on decline" is not a
theorem here (values are immutable); it is an oracle of the stream on the real code.

The encoder is heuristic and nothing is claimed about the matches it finds, except that each one was
verified byte by byte.  The proof goes through the abstract token stream (`Seq`: literals, distance, length):
  `C13_lz_forward_valid`  a successful Forward outputs `stream mm far n qs fl` for a VALID token stream `qs`
                          and final literals `fl` that together denote the block;
  `C13_lz_format`         the decoder restores what ANY valid token stream denotes;
  `C13_lz`                their composition.
-/
import Kanzi.Model.LZ
import Kanzi.Proofs.LZFwd
import Kanzi.Proofs.LZTotal

namespace Kanzi.C13
open Kanzi.LZ

/-- C13_lz_lengths: the length coding is exact for every value below `2^24 + 255`: wherever the bytes of
`emitLengthLZ(n)` stand in a buffer, `readLengthLZ` returns `n` and the number of bytes written (1, 3 or 4).
Forward only ever encodes literal counts `litLen - 7 < 2^24 - 7` (the in-loop and the final-run declines
"too many literals") and match lengths `<= _LZX_MAX_MATCH`, so it stays inside this range. -/
theorem C13_lz_lengths (src : Array Nat) (i n : Nat) (h : At src i (emitLength n)) (hn : n < 16777216 + 255) :
    readLength src i = .ok (n, (emitLength n).length) ∧ (∀ x ∈ emitLength n, x < 256) := by
  have := readLength_emitLength h
  rw [lengthValue_eq hn] at this
  exact ⟨this, emitLength_bytes n⟩

/-- what goes wrong beyond: from `2^24 + 255` on the 24-bit field wraps and `readLengthLZ` returns a
SMALLER value (`255 + (n - 255) mod 2^24`) - the defect behind fix 2dffa5d (trailing literal run), now
excluded by the two `litLen >= 1<<24` declines of Forward. -/
theorem C13_lz_lengths_wrap (src : Array Nat) (i n : Nat) (h : At src i (emitLength n)) (hn : 16777216 + 255 ≤ n) :
    ∃ v, readLength src i = .ok (v, 4) ∧ v < n ∧ v = 255 + (n - 255) % 16777216 := by
  have h1 := readLength_emitLength h
  have h2 : (emitLength n).length = 4 := by rw [emitLength_length, if_neg (by omega), if_neg (by omega)]
  have h3 : lengthValue n = 255 + (n - 255) % 16777216 := by unfold lengthValue; rw [if_neg (by omega)]
  exact ⟨lengthValue n, by rw [h1, h2], lengthValue_lt hn, h3⟩

/-- C13_lz_format: the `inverseV6` model is correct for EVERY valid token stream: serialising `qs` (each
sequence: literal count below `2^24`, a distance between 1 and the current position and inside the window
selected by the header flag, a match length in `[minMatch, _LZX_MAX_MATCH]`) and a final literal run of at
least 16 bytes into the four sections + 13-byte header, and decoding into ANY destination that can hold the
result, yields exactly the bytes the tokens denote (literals, and matches copied byte by byte - overlapping
copies included). -/
theorem C13_lz_format (mm far N : Nat) (qs : List Seq) (fl : List Nat) (dst0 : Array Nat)
    (hmm : 2 ≤ mm ∧ mm ≤ 9) (hfar : far ≤ 1)
    (hv : ValidSeqs mm (if far = 0 then MAX_DISTANCE1 else MAX_DISTANCE2) N 0 qs)
    (hfl : 16 ≤ fl.length) (hfl2 : fl.length < LIT_LIMIT)
    (hsz : (stream mm far N qs fl).length < 4294967296)
    (hn : (denote [] qs).length + fl.length ≤ dst0.size) :
    lzInverse (stream mm far N qs fl).toArray dst0 = .ok (denote [] qs ++ fl).toArray :=
  lzInverse_stream mm far N qs fl dst0 hmm hfar hv hfl hfl2 hsz hn

/-- C13_lz_forward_valid: whatever the match finder does, a successful Forward returns the serialisation of
a VALID token stream which, followed by the final literals, denotes exactly the source block (every match
was compared byte by byte, points backwards, stays inside the distance limit announced in the header and
has a representable length; every literal run is below `2^24`; the last run has at least 16 bytes). -/
theorem C13_lz_forward_valid (extra : Bool) (dt : Nat) (b t : Array Nat) (dstLen : Nat)
    (hne : b.size ≠ 0) (hd : dstLen ≠ 0) (h : lzForward extra dt b dstLen = .ok t) :
    ∃ (mm far : Nat) (qs : List Seq) (fl : List Nat),
      t = (stream mm far b.size qs fl).toArray ∧ 2 ≤ mm ∧ mm ≤ 9 ∧ far ≤ 1 ∧
      ValidSeqs mm (if far = 0 then MAX_DISTANCE1 else MAX_DISTANCE2) b.size 0 qs ∧
      16 ≤ fl.length ∧ fl.length < LIT_LIMIT ∧ denote [] qs ++ fl = b.toList := by
  obtain ⟨mm, far, qs, fl, e1, e2, e3, e4, e5, e6, e7, e8, _⟩ := lzForward_stream hne hd h
  exact ⟨mm, far, qs, fl, e1, e2, e3, e4, e5, e6, e7, e8⟩

/-- C13_lz: for every block of fewer than `2^32` bytes (kanzi blocks are at most `2^30`; the header stores
section sizes in 32 bits), LZ or LZX, any data type hint, and every destination at least as large as
`MaxEncodedLen`: if Forward succeeds, Inverse of its output into ANY destination of at least the original
block length (whatever it contained before) restores the block exactly. -/
theorem C13_lz (extra : Bool) (dt : Nat) (b t : Array Nat) (dstLen : Nat) (dst0 : Array Nat)
    (hsz : b.size < 4294967296) (hdst : maxEncodedLen b.size ≤ dstLen) (hn : b.size ≤ dst0.size)
    (h : lzForward extra dt b dstLen = .ok t) : lzInverse t dst0 = .ok b :=
  (lz_roundtrip dst0 hsz hdst hn h).1

/-- C13_lz_bound: a successful Forward output fits `MaxEncodedLen`; in fact it is at least 1% shorter
than the block (otherwise Forward declines with "no compression"). -/
theorem C13_lz_bound (extra : Bool) (dt : Nat) (b t : Array Nat) (dstLen : Nat)
    (hdst : maxEncodedLen b.size ≤ dstLen) (h : lzForward extra dt b dstLen = .ok t) :
    t.size ≤ maxEncodedLen b.size ∧ t.size ≤ b.size - b.size / 100 := by
  by_cases hne : b.size = 0
  · have ht : t = #[] := by
      unfold lzForward at h
      simp only [hne, true_or, if_true] at h
      injection h with h; exact h.symm
    subst ht; simp
  · have hd : dstLen ≠ 0 := by unfold maxEncodedLen at hdst; split at hdst <;> omega
    obtain ⟨_, _, _, _, _, _, _, _, _, _, _, _, e9, _⟩ := lzForward_stream hne hd h
    refine ⟨?_, e9⟩
    unfold maxEncodedLen; split <;> omega

/-- C13_lz_total: neither direction faults on any block the compressor can hand it.  Forward: on EVERY block
of byte values, LZ or LZX, any data type hint, into any destination of at least `MaxEncodedLen` bytes, the model
never indexes or slices out of range (source, destination, hash table, and the three side buffers `tkBuf` /
`mBuf` / `mLenBuf`), never has a `copy` cut short by the end of `dst`, and never runs out of fuel.  Inverse: on
every block Forward produced (below `2^32` bytes) and every destination of at least the original size it
returns the block, so it does not fault either.

The side buffer `tkBuf` holds `max(count/5, 256)` tokens and is never grown.  That is enough only because
every sequence covers at least 5 source bytes; for matches found through the hash table this is a property of
the hash function (`C13_lz_hash_fifth_byte`), not of the match finder logic (which accepts 4-byte matches). -/
theorem C13_lz_total (extra : Bool) (dt : Nat) (b : Array Nat) (dstLen : Nat)
    (hb : ∀ x ∈ b, x < 256) (hdst : maxEncodedLen b.size ≤ dstLen) :
    (∀ e, lzForward extra dt b dstLen ≠ .fault e) ∧
    (∀ t dst0, lzForward extra dt b dstLen = .ok t → b.size < 4294967296 → b.size ≤ dst0.size →
      ∀ e, lzInverse t dst0 ≠ .fault e) := by
  have hB : Bytes b := by
    intro i
    rw [Array.getD_eq_getD_getElem?]
    by_cases hi : i < b.size
    · rw [Array.getElem?_eq_getElem hi]; exact hb _ (Array.getElem_mem hi)
    · rw [Array.getElem?_eq_none (by omega)]; decide
  refine ⟨lzForward_nf hB hdst, ?_⟩
  intro t dst0 h hsz hn e
  rw [(lz_roundtrip dst0 hsz hdst hn h).1]
  simp

/-- the reason why 4-byte matches never come out of the hash table: both hash functions (16 bits for LZ, 19
bits for LZX) are injective in the fifth byte of the hashed word once its first four bytes are fixed
(`_LZX_HASH_SEED` is odd, the word is shifted left by 24 bits and the hash is taken from the top bits).
`hashN extra w` is the hash of a word whose low 40 bits are `w` (`hashOf_wordAt` ties it to the `UInt64`
computation of the model). -/
theorem C13_lz_hash_fifth_byte (extra : Bool) (l a b : Nat) (hl : l < 4294967296) (ha : a < 256) (hb : b < 256)
    (h : hashN extra (l + a * 4294967296) = hashN extra (l + b * 4294967296)) : a = b :=
  hash_fifth_byte extra l a b hl ha hb h

/-- C13_lz_inverse_fuel_partial: what is proved about Inverse on ARBITRARY (forged, truncated, mutated) input.
The full statement "Inverse never faults on arbitrary input" is FALSE for the Go code and for the model: the
decoder trusts the section offsets and the tokens (e.g. a token section that ends before a final literal
token is seen runs off the block: `src[tkIdx]` index out of range; a literal length beyond the block:
slice bounds out of range; literal runs beyond `len(dst)` are silently cut and reported as written).  The `lz`
stream compares the model with the real code on thousands of such inputs (identical panics / overruns).
Proved here: such a `.fault` is never exhausted model fuel - both loops of the decoder terminate within the
fuel the model gives them - so the executable predicate "`lzInverse src dst0` is not a `.fault`" IS the exact
no-panic precondition of the decoder. -/
theorem C13_lz_inverse_fuel_partial (src dst0 : Array Nat) : lzInverse src dst0 ≠ .fault "fuel" :=
  lzInverse_ne_fuel src dst0

/-- the hypotheses are satisfiable: a valid token stream (one literal, then a match of 23 bytes at distance 1,
then 16 final literals) and what the decoder makes of its serialisation; declined blocks; the length coding
at its boundaries.  (Accepted blocks are compared byte for byte with the real Forward by the `lz` stream.) -/
example : ValidSeqs 4 MAX_DISTANCE1 40 0 [⟨[7], 1, 23⟩] := by simp [ValidSeqs, LIT_LIMIT, MAX_MATCH, MAX_DISTANCE1]
example : lzInverse (stream 4 0 40 [⟨[7], 1, 23⟩] (List.replicate 16 7)).toArray (Array.replicate 40 0xAA) =
    .ok (denote [] [⟨[7], 1, 23⟩] ++ List.replicate 16 7).toArray :=
  C13_lz_format 4 0 40 [⟨[7], 1, 23⟩] (List.replicate 16 7) (Array.replicate 40 0xAA) (by decide) (by decide)
    (by simp [ValidSeqs, LIT_LIMIT, MAX_MATCH, MAX_DISTANCE1]) (by decide) (by decide) (by decide) (by decide)
example : denote [] [⟨[7], 1, 23⟩] ++ List.replicate 16 7 = List.replicate 40 7 := by decide
example : stream 4 0 40 [⟨[7], 1, 23⟩] (List.replicate 16 7) =
    [31, 0, 0, 0, 2, 0, 0, 0, 1, 0, 0, 0, 4, 7, 9, 7, 7, 7, 7, 7, 7, 7, 7, 7, 7, 7, 7, 7, 7, 7, 7, 47, 224, 1, 12] := by decide
example : lzForward false 0 (Array.replicate 23 7) 39 = .err "small" := by decide
example : lzForward false 0 (Array.replicate 40 7) 55 = .err "dst" := by decide
example : lzForward true 9 (Array.replicate 40 7) 56 = .err "type" := by decide
example : emitLength 253 = [253] ∧ emitLength 254 = [254, 0, 0] ∧ emitLength 65789 = [254, 255, 255] ∧
    emitLength 65790 = [255, 0, 255, 255] ∧ emitLength (16777216 + 254) = [255, 255, 255, 255] := by decide

end Kanzi.C13
