/-
Proofs about the total model of `RangeDecoder.Read`, part 2: one symbol, the payload of a chunk
(failure classes, agreement with `Kanzi.Range`).  Part 1: `Kanzi/Proofs/RangeDec.lean`.
-/
import Kanzi.Proofs.RangeDec

namespace Kanzi.RangeDec
open Kanzi.Bits Kanzi.EntSmall Kanzi.Range

/-! ### B. one symbol, the payload -/

/-- every slot below `Σ f` belongs to exactly one symbol of positive frequency -/
theorem slot_owner : ∀ (f : List Nat) (j : Nat), j < f.sum →
    ∃ s, s < f.length ∧ cumF f s ≤ j ∧ j < cumF f s + f.getD s 0 := by
  intro f
  induction f with
  | nil => intro j h; simp at h
  | cons fi fs ih =>
    intro j h
    by_cases hj : j < fi
    · exact ⟨0, by simp, by simp [cumF], by simpa [cumF] using hj⟩
    · simp only [List.sum_cons] at h
      obtain ⟨s, h1, h2, h3⟩ := ih (j - fi) (by omega)
      refine ⟨s + 1, by simpa using h1, ?_, ?_⟩
      · have hc : cumF (fi :: fs) (s + 1) = fi + cumF fs s := by simp [cumF]
        rw [hc]; omega
      · have hc : cumF (fi :: fs) (s + 1) = fi + cumF fs s := by simp [cumF]
        rw [hc, List.getD_cons_succ]; omega

theorem shift_pos (rng shift : Nat) (hb : bottomRange < rng) (hs : shift ≤ 15) : rng >>> shift ≠ 0 := by
  rw [Nat.shiftRight_eq_div_pow]
  have hp : 2 ^ shift ≤ 2 ^ 15 := Nat.pow_le_pow_right (by decide) hs
  unfold bottomRange at hb
  have : 0 < rng / 2 ^ shift := Nat.div_pos (by omega) (Nat.pow_pos (by decide))
  omega

theorem stepSymC_cls (cum : Array Nat) (shift low rng code : Nat) (bs : Bits) (s0 : Nat) :
    (∀ c, stepSymC cum shift low rng code bs s0 = .fail c → c = .eos) ∧
    (∀ s l g cd bs', stepSymC cum shift low rng code bs s0 = .ok (s, l, g, cd) bs' → bottomRange < g) := by
  unfold stepSymC
  cases hn : normC (normFuelC bs) ((low + cum.getD s0 0 * (rng >>> shift)) % 2 ^ 64)
      (((rng >>> shift) * (cum.getD (s0 + 1) 0 - cum.getD s0 0)) % 2 ^ 64) code bs with
  | fail c =>
    refine ⟨fun c' h => ?_, fun _ _ _ _ _ h => (by cases h)⟩
    cases h
    rcases normC_cls _ _ _ _ _ _ hn with h1 | h1
    · exact h1
    · subst h1
      exact absurd hn (normC_no_hang _ _ _ _ _ (Nat.le_refl _))
  | ok v r =>
    obtain ⟨l, g, cd⟩ := v
    refine ⟨fun c' h => (by cases h), fun s l' g' cd' bs' h => ?_⟩
    cases h
    exact normC_ok_bottom _ _ _ _ _ _ _ _ _ hn

/-- `decodeByte` from a state with `rng > BOTTOM` and `logRange ≤ 15`: never a division by zero,
    never out of fuel; and `rng > BOTTOM` again afterwards -/
theorem stepC_cls (cum f2s : Array Nat) (shift low rng code : Nat) (bs : Bits)
    (hb : bottomRange < rng) (hs : shift ≤ 15) :
    (∀ c, stepC cum f2s shift low rng code bs = .fail c → c = .eos ∨ c = .fault) ∧
    (∀ s l g cd bs', stepC cum f2s shift low rng code bs = .ok (s, l, g, cd) bs' → bottomRange < g) := by
  have h0 := shift_pos rng shift hb hs
  unfold stepC
  rw [if_neg h0]
  by_cases hsl : slot shift low rng code ≥ f2s.size
  · rw [if_pos hsl]
    exact ⟨fun c h => (by cases h; exact Or.inr rfl), fun _ _ _ _ _ h => (by cases h)⟩
  · rw [if_neg hsl]
    obtain ⟨a1, a2⟩ := stepSymC_cls cum shift low rng code bs (f2s.getD (slot shift low rng code) 0)
    exact ⟨fun c h => Or.inl (a1 c h), a2⟩

theorem symsC_cls (cum f2s : Array Nat) (shift : Nat) (hs : shift ≤ 15) : ∀ (n low rng code : Nat) (bs : Bits),
    bottomRange < rng →
    (∀ c, symsC cum f2s shift n low rng code bs = .fail c → c = .eos ∨ c = .fault) ∧
    (∀ out r, symsC cum f2s shift n low rng code bs = .ok out r → out.length = n) := by
  intro n
  induction n with
  | zero =>
    intro low rng code bs _
    simp only [symsC]
    exact ⟨fun c h => (by cases h), fun out r h => (by cases h; rfl)⟩
  | succ n ih =>
    intro low rng code bs hb
    obtain ⟨s1, s2⟩ := stepC_cls cum f2s shift low rng code bs hb hs
    cases hst : stepC cum f2s shift low rng code bs with
    | fail c =>
      simp only [symsC, hst]
      exact ⟨fun c' h => (by cases h; exact s1 c hst), fun _ _ h => (by cases h)⟩
    | ok v bs' =>
      obtain ⟨s, l, g, cd⟩ := v
      obtain ⟨i1, i2⟩ := ih l g cd bs' (s2 s l g cd bs' hst)
      cases hsy : symsC cum f2s shift n l g cd bs' with
      | fail c =>
        simp only [symsC, hst, hsy]
        exact ⟨fun c' h => (by cases h; exact i1 c hsy), fun _ _ h => (by cases h)⟩
      | ok tl r =>
        simp only [symsC, hst, hsy]
        refine ⟨fun c' h => (by cases h), fun out r' h => ?_⟩
        cases h
        simp [i2 tl r hsy]

theorem payloadC_cls (cum f2s : Array Nat) (lr len : Nat) (bs : Bits) (hs : lr ≤ 15) :
    (∀ c, payloadC cum f2s lr len bs = .fail c → c = .eos ∨ c = .fault) ∧
    (∀ out r, payloadC cum f2s lr len bs = .ok out r → out.length = len) := by
  unfold payloadC
  cases hr : readBits 60 bs with
  | none => exact ⟨fun c h => (by cases h; exact Or.inl rfl), fun _ _ h => (by cases h)⟩
  | some p =>
    obtain ⟨code, r⟩ := p
    exact symsC_cls cum f2s lr hs len 0 topRange code r (by decide)

/-- the tables of the old model inside the (possibly longer, possibly stale) slice of this one -/
def F2sExt (f : List Nat) (t : Array Nat) : Prop :=
  ∀ j, j < f.sum → j < t.size ∧ t.getD j 0 = (mkF2s f).getD j 0

theorem stepSym_agree (cum : Array Nat) (shift low rng code : Nat) (bs : Bits) (s0 : Nat)
    (hi : Inv ((low + cum.getD s0 0 * (rng >>> shift)) % 2 ^ 64)
              (((rng >>> shift) * (cum.getD (s0 + 1) 0 - cum.getD s0 0)) % 2 ^ 64))
    (s l g cd : Nat) (bs' : Bits)
    (h : decStepSym cum shift low rng code bs s0 = some ((s, l, g, cd), bs')) :
    stepSymC cum shift low rng code bs s0 = .ok (s, l, g, cd) bs' ∧ Inv l g ∧ bottomRange < g := by
  unfold decStepSym at h
  unfold stepSymC
  cases hd : decNorm normFuel ((low + cum.getD s0 0 * (rng >>> shift)) % 2 ^ 64)
      (((rng >>> shift) * (cum.getD (s0 + 1) 0 - cum.getD s0 0)) % 2 ^ 64) code bs with
  | none => rw [hd] at h; cases h
  | some p =>
    obtain ⟨v, r⟩ := p
    obtain ⟨l0, g0, cd0⟩ := v
    rw [hd] at h
    simp only [Option.some.injEq, Prod.mk.injEq] at h
    obtain ⟨⟨rfl, rfl, rfl, rfl⟩, rfl⟩ := h
    have hn := norm_agree _ _ code bs hi _ _ hd
    rw [hn]
    exact ⟨rfl, normC_ok_inv _ _ _ _ _ _ _ _ _ hi hn, normC_ok_bottom _ _ _ _ _ _ _ _ _ hn⟩

/-- **one symbol agrees.**  When `decodeByte` of `Kanzi.Range` succeeds (its slot lies in the fresh
    part of `f2s`), this model returns the same symbol and registers, and the invariant goes on. -/
theorem step_agree (f : List Nat) (t : Array Nat) (lr low rng code : Nat) (bs : Bits)
    (hi : Inv low rng) (hb : bottomRange < rng) (hlr : lr ≤ 16) (hsum : f.sum ≤ 2 ^ lr) (ht : F2sExt f t)
    (s l g cd : Nat) (bs' : Bits)
    (h : decStep (mkCum f) (mkF2s f) lr low rng code bs = some ((s, l, g, cd), bs')) :
    stepC (mkCum f) t lr low rng code bs = .ok (s, l, g, cd) bs' ∧ Inv l g ∧ bottomRange < g := by
  unfold decStep at h
  split at h
  · cases h
  · rename_i h0
    split at h
    · cases h
    · rename_i hsl
      rw [mkF2s_size] at hsl
      have hj : slot lr low rng code < f.sum := by omega
      obtain ⟨s1, q1, q2, q3⟩ := slot_owner f _ hj
      have hs0 : (mkF2s f).getD (slot lr low rng code) 0 = s1 := mkF2s_getD f s1 _ q1 q2 q3
      obtain ⟨t1, t2⟩ := ht _ hj
      rw [hs0] at h t2
      have c1 := mkCum_getD f s1 (by omega)
      have c2 := mkCum_getD f (s1 + 1) (by omega)
      rw [cumF_succ f s1 q1] at c2
      have c3 := cumF_add_le f s1 q1
      have hfr : 0 < (mkCum f).getD (s1 + 1) 0 - (mkCum f).getD s1 0 := by omega
      have hcs : (mkCum f).getD s1 0 + ((mkCum f).getD (s1 + 1) 0 - (mkCum f).getD s1 0) ≤ 2 ^ lr := by omega
      obtain ⟨_, _, _, _, _, p6⟩ := step_pre low rng lr _ _ hi hb hlr hfr hcs
      have hsym := stepSym_agree (mkCum f) lr low rng code bs s1 p6 s l g cd bs' h
      refine ⟨?_, hsym.2⟩
      unfold stepC
      rw [if_neg h0, if_neg (by omega), t2]
      exact hsym.1

theorem syms_agree (f : List Nat) (t : Array Nat) (lr : Nat) (hlr : lr ≤ 16) (hsum : f.sum ≤ 2 ^ lr)
    (ht : F2sExt f t) : ∀ (n low rng code : Nat) (bs : Bits) (out : List Nat) (r : Bits),
    Inv low rng → bottomRange < rng →
    decSyms (mkCum f) (mkF2s f) lr n low rng code bs = some (out, r) →
    symsC (mkCum f) t lr n low rng code bs = .ok out r := by
  intro n
  induction n with
  | zero =>
    intro low rng code bs out r _ _ h
    simp only [decSyms, Option.some.injEq, Prod.mk.injEq] at h
    obtain ⟨rfl, rfl⟩ := h
    rfl
  | succ n ih =>
    intro low rng code bs out r hi hb h
    cases hst : decStep (mkCum f) (mkF2s f) lr low rng code bs with
    | none => simp only [decSyms, hst] at h; cases h
    | some p =>
      obtain ⟨⟨s, l, g, cd⟩, bs'⟩ := p
      obtain ⟨a1, a2, a3⟩ := step_agree f t lr low rng code bs hi hb hlr hsum ht s l g cd bs' hst
      cases hsy : decSyms (mkCum f) (mkF2s f) lr n l g cd bs' with
      | none => simp only [decSyms, hst, hsy] at h; cases h
      | some q =>
        obtain ⟨tl, r'⟩ := q
        simp only [decSyms, hst, hsy, Option.some.injEq, Prod.mk.injEq] at h
        obtain ⟨rfl, rfl⟩ := h
        simp only [symsC, a1, ih l g cd bs' tl r' a2 a3 hsy]

theorem payload_agree (f : List Nat) (t : Array Nat) (lr len : Nat) (bs : Bits) (hlr : lr ≤ 16)
    (hsum : f.sum ≤ 2 ^ lr) (ht : F2sExt f t) (out : List Nat) (r : Bits)
    (h : decodePayload f lr len bs = some (out, r)) :
    payloadC (mkCum f) t lr len bs = .ok out r := by
  unfold decodePayload at h
  unfold payloadC
  cases hr : readBits 60 bs with
  | none => simp only [hr] at h; cases h
  | some p =>
    obtain ⟨code, r1⟩ := p
    simp only [hr] at h ⊢
    exact syms_agree f t lr hlr hsum ht len 0 topRange code r1 out r inv_init (by decide) h

end Kanzi.RangeDec
