/-
C12 (CM entropy codec, whole codec) — the CM codec of kanzi-go is the generic binary arithmetic
coder (`BinaryEntropyEncoder` / `BinaryEntropyDecoder`, `Kanzi/Properties/C12_binary.lean`) with a
fresh `CMPredictor` (`Kanzi/Properties/C12_cm.lean`) plugged in, exactly as
`entropy.NewEntropyEncoder` / `NewEntropyDecoder` build it for `CM_TYPE`
(`NewCMPredictor(&ctx)` then `NewBinaryEntropyEncoder(bs, predictor)`), one encoder per block.

This file only composes the two slices: the CM predictor model is an instance of the coder's
predictor interface (`Pred.ofImpure cmGet cmUpdate`: `Get()` stores `idx`, which `Update` uses), it
satisfies the coder's contract on the invariant `Kanzi.CM.R` (`Get() ≤ 4095`, both
bitstream-version branches), hence the encoder of the CM codec never fails and the codec round-trips
every non-empty block with exact consumption — under the one condition the repaired decoder itself
imposes (f731923): no chunk flushes twice the chunk length or more (`fits2`, decidable, computed
from the two models).  That condition is NOT discharged here: it would need a bound on the code
length CM assigns to arbitrary data (the per-bit bound alone, 12 bits for a probability in
`[1/4096, 4095/4096]`, only gives 12 bytes per byte); the adversaries of the `binent` stream reach
an expansion of about 1.1 against CM, far from 2.
-/
import Kanzi.Properties.C12_binary
import Kanzi.Properties.C12_cm

namespace Kanzi.C12
open Kanzi.Bits Kanzi.BinEnt Kanzi.CM

/-- the CM predictor as a predictor of the binary coder (state = the state before `Get()`) -/
def cmPred : Pred CM := Pred.ofImpure cmGet cmUpdate

theorem cmPred_get (s : CM) : cmPred.get s = cmPredGet s := rfl
theorem cmPred_update (s : CM) (b : Bool) : cmPred.update s b = cmPredUpdate s b := rfl

/-- **C12_cm_codec_safe.**  The CM predictor satisfies the contract of the binary coder on the
invariant `CM.R`: `R` is preserved by `Get(); Update(bit)` and `Get() ≤ 4095` on `R`. -/
theorem C12_cm_codec_safe : cmPred.Safe R :=
  Pred.Safe.of12 rfl (fun s b h => C12_cm_pred_safe.1 s b h) (fun s h => C12_cm_pred_safe.2 s h)

/-- **C12_cm_encode_total.**  The encoder of the CM codec never fails, whatever the block (≤ 2^30 bytes). -/
theorem C12_cm_encode_total (v3 : Bool) (blk : List Nat) (hlen : blk.length ≤ 2 ^ 30) :
    ∃ out, encodeBlock cmPred MAX_CHUNK (cmInit v3) blk = .ok out :=
  C12_binary_encode_total cmPred C12_cm_codec_safe MAX_CHUNK (cmInit v3) (C12_cm_init v3) blk hlen

/-- **C12_cm_block.**  The CM entropy codec (binary coder + fresh CM predictor of either bitstream
version `v3`, the same on both sides; `_BINARY_ENTROPY_MAX_CHUNK = 1 << 26`): for every NON-EMPTY
block of bytes of length `≤ 2^30` of which no chunk doubles in size (`fits2`, the decoder's own
acceptance test), `Write` + `Dispose` succeed and `Read` of the same length on the written bits
followed by ANY bits `rest` returns the block and leaves exactly `rest` unread. -/
theorem C12_cm_block (v3 : Bool) (blk : List Nat) (hne : blk ≠ []) (hb : ∀ v ∈ blk, v < 256)
    (hlen : blk.length ≤ 2 ^ 30) (hfit : fits2 cmPred MAX_CHUNK (cmInit v3) blk = true) :
    ∃ out, encodeBlock cmPred MAX_CHUNK (cmInit v3) blk = .ok out ∧
      ∀ rest : Bits, decodeBlock cmPred MAX_CHUNK (cmInit v3) (out ++ rest) blk.length = .ok (blk, rest) :=
  C12_binary_block_real cmPred C12_cm_codec_safe (cmInit v3) (C12_cm_init v3) blk hne hb hlen hfit

/-- … and otherwise the decoder rejects the encoder's output: `fits2` is exactly what is missing -/
theorem C12_cm_reject (v3 : Bool) (blk : List Nat) (hne : blk ≠ []) (hb : ∀ v ∈ blk, v < 256)
    (hlen : blk.length ≤ 2 ^ 30) (hfit : fits2 cmPred MAX_CHUNK (cmInit v3) blk = false) :
    ∃ out, encodeBlock cmPred MAX_CHUNK (cmInit v3) blk = .ok out ∧
      ∀ rest : Bits, decodeBlock cmPred MAX_CHUNK (cmInit v3) (out ++ rest) blk.length = .error .invalid :=
  C12_binary_reject cmPred C12_cm_codec_safe MAX_CHUNK (by decide) (by decide) (cmInit v3) (C12_cm_init v3)
    blk hne hb hlen hfit

/-- with the final states: after `Read` the decoder's CM predictor is in the same state as the
encoder's (so is the interval) -/
theorem C12_cm_block_states (v3 : Bool) (blk : List Nat) (hne : blk ≠ []) (hb : ∀ v ∈ blk, v < 256)
    (hlen : blk.length ≤ 2 ^ 30) (hfit : fits2 cmPred MAX_CHUNK (cmInit v3) blk = true) (rest : Bits) :
    ∃ bits e', (Enc.init (cmInit v3)).write cmPred MAX_CHUNK blk = .ok (bits, e') ∧ e'.dispose.1 = e'.trailer ∧
    ∃ d' lf hf, (Dec.init (cmInit v3)).readBlock cmPred MAX_CHUNK (bits ++ e'.dispose.1 ++ rest) blk.length
        = .ok (blk, d', rest) ∧
      d'.ps = e'.ps ∧ ERel e' lf hf ∧ Inv lf hf ∧ d'.low = lf ∧ d'.high = hf :=
  C12_binary_block_states cmPred C12_cm_codec_safe MAX_CHUNK (by decide) (by decide) (cmInit v3) (C12_cm_init v3)
    blk hne hb hlen hfit rest

end Kanzi.C12
