/-
Model of the LZ77 codec `transform.LZXCodec` (v2/transform/LZCodec.go; transform names LZ and LZX),
slice `lz`, property C13.

  * `maxEncodedLen`                      Go `LZXCodec.MaxEncodedLen`
  * `emitLength` / `readLength`          Go `emitLengthLZ` (the bytes it stores) / `readLengthLZ`
  * `findMatch`                          Go `findMatchLZX`
  * `hashOf`                             Go `LZXCodec.hash` (64-bit wrap-around multiply, `UInt64`)
  * `lzForward extra dt src dstLen`      Go `LZXCodec.Forward(src, dst)` with `len(dst) = dstLen`, on a fresh codec
  * `lzInverse src dst0`                 Go `LZXCodec.Inverse(src, dst)` = `inverseV6` (bitstream version 6, the
                                         default), `dst0` = the initial contents of `dst` (`len(dst) = dst0.size`)
Not modelled: `inverseV4` (bitstream versions < 6; it exists, same structure, different token layout), the
`LZCodec` wrapper (delegation + the aliasing test `&src[0] == &dst[0]`), `LZPCodec` (other slice).

Core Lean only (linked into `kmodel`).  Bytes are `Nat` (< 256), blocks are `Array Nat`.

The ctx of `NewLZXCodecWithCtx` enters through two explicit parameters:
  `extra`  the `lz` entry is `LZX_TYPE` (19-bit hash, third lazy candidate at position+2);
  `dt`     the `dataType` entry (0 = no ctx / no entry / DT_UNDEFINED; 6 = DT_DNA: minMatch 6;
           9 = DT_SMALL_ALPHABET: Forward declines).

Outcomes (`Out`): `.ok` = nil error; `.err c` = non-nil Go error of class `c` (Forward declines, Inverse
fails); `.fault c` = the Go code misbehaves:
  * a run-time panic: EVERY slice index / slice expression of the Go code is modelled with its bounds
    check (`src[i]` beyond `len(src)`, `src[a:b]` with `b > cap(src)` - the model takes `cap = len` -,
    `dst[i:]` with `i > len(dst)`, `binary.LittleEndian.UintNN` on a short slice, stores into the fixed
    size side buffers `tkBuf` / `mBuf` / `mLenBuf` of Forward);
  * `"short-copy"` (Forward only): a `copy` into `dst` that Go would silently cut short because `dst` ends;
  * `"overrun"` (Inverse only): Go returns a nil error and a `written` count larger than `len(dst)`;
  * `"fuel"`: the model ran out of loop fuel (so "never `.fault`" also says the fuel is sufficient).

`findMatch` compares the two 8-byte windows byte by byte and adds the number of equal leading bytes; the Go
code loads two little-endian words, XORs them and adds `TrailingZeros64(diff) >> 3`, which is the same number.
Subtractions that can go negative in Go (`ref = srcIdx1 - repd`, `dstEnd = len(dst) - 16`, `srcEnd = tkIdx - 13`)
are only ever used in comparisons; the model states each comparison in the equivalent addition form.
`dist := srcIdx - ref` in Forward is a truncated subtraction here: `ref < srcIdx` always holds (every hash
table entry is an earlier position; proved as part of `C13_lz`).
-/
namespace Kanzi.LZ

/-- result of a Go call or of a piece of it -/
inductive Out (α : Type) where
  | ok (a : α)
  | err (e : String)
  | fault (e : String)
deriving Repr, DecidableEq

@[inline] def Out.bind {α β : Type} (x : Out α) (f : α → Out β) : Out β :=
  match x with
  | Out.ok a => f a
  | Out.err e => Out.err e
  | Out.fault e => Out.fault e

abbrev Res := Out (Array Nat)

/-! ## constants -/

def HASH_SEED : UInt64 := 0x1E35A7BD
def MAX_DISTANCE1 : Nat := 65534          -- (1 << 16) - 2
def MAX_DISTANCE2 : Nat := 16777214       -- (1 << 24) - 2
def MIN_MATCH4 : Nat := 4
def MIN_MATCH6 : Nat := 6
def MAX_MATCH : Nat := 65793              -- 65535 + 254 + _LZX_MIN_MATCH4
def MIN_BLOCK_LENGTH : Nat := 24
def LIT_LIMIT : Nat := 16777216           -- 1 << 24
def DT_DNA : Nat := 6
def DT_SMALL_ALPHABET : Nat := 9

/-- Go: `LZXCodec.MaxEncodedLen` -/
def maxEncodedLen (srcLen : Nat) : Nat := if srcLen ≤ 1024 then srcLen + 16 else srcLen + srcLen / 64

/-! ## length coding -/

/-- Go: `emitLengthLZ(block, length)`: the bytes stored -/
def emitLength (n : Nat) : List Nat :=
  if n < 254 then [n % 256]
  else if n < 65536 + 254 then [254, ((n - 254) >>> 8) % 256, (n - 254) % 256]
  else [255, ((n - 255) >>> 16) % 256, ((n - 255) >>> 8) % 256, (n - 255) % 256]

/-- Go: `readLengthLZ(src[i:])`: `(length, bytes consumed)` -/
def readLength (src : Array Nat) (i : Nat) : Out (Nat × Nat) :=
  match src[i]? with
  | none => Out.fault "src-index"
  | some b0 =>
    if b0 < 254 then Out.ok (b0, 1)
    else if b0 = 254 then
      match src[i + 1]?, src[i + 2]? with
      | some b1, some b2 => Out.ok (b0 + (b1 <<< 8) + b2, 3)
      | _, _ => Out.fault "src-index"
    else
      match src[i + 1]?, src[i + 2]?, src[i + 3]? with
      | some b1, some b2, some b3 => Out.ok (b0 + (b1 <<< 16) + (b2 <<< 8) + b3, 4)
      | _, _, _ => Out.fault "src-index"

/-! ## little-endian loads and the hash -/

def byteU (src : Array Nat) (i : Nat) : UInt64 := UInt64.ofNat (src.getD i 0)

/-- Go: `binary.LittleEndian.Uint64(src[i:])` -/
def le64 (src : Array Nat) (i : Nat) : Option UInt64 :=
  if i + 8 ≤ src.size then
    some (byteU src i ||| (byteU src (i + 1) <<< 8) ||| (byteU src (i + 2) <<< 16) ||| (byteU src (i + 3) <<< 24)
      ||| (byteU src (i + 4) <<< 32) ||| (byteU src (i + 5) <<< 40) ||| (byteU src (i + 6) <<< 48)
      ||| (byteU src (i + 7) <<< 56))
  else none

/-- Go: `binary.LittleEndian.Uint32(src[i:])` (zero-extended) -/
def le32 (src : Array Nat) (i : Nat) : Option UInt64 :=
  if i + 4 ≤ src.size then
    some (byteU src i ||| (byteU src (i + 1) <<< 8) ||| (byteU src (i + 2) <<< 16) ||| (byteU src (i + 3) <<< 24))
  else none

/-- Go: `uint32(v)` -/
def lo32 (v : UInt64) : UInt64 := v &&& 0xFFFFFFFF

/-- Go: `LZXCodec.hash` on the word `v` (and the inlined copies of it in the hash fill loops) -/
def hashOf (extra : Bool) (v : UInt64) : Nat :=
  if extra then (((v <<< 24) * HASH_SEED) >>> 45).toNat else (((v <<< 24) * HASH_SEED) >>> 48).toNat

/-! ## findMatchLZX -/

/-- number of equal leading bytes of the windows of `k` bytes at `i` and `r` -/
def cmpN (src : Array Nat) : Nat → Nat → Nat → Nat
  | 0, _, _ => 0
  | k + 1, i, r => if src.getD i 0 = src.getD r 0 then 1 + cmpN src k (i + 1) (r + 1) else 0

/-- Go: `findMatchLZX(src, i, r, maxMatch)`; `bl` is the running `bestLen` -/
def findMatchGo (src : Array Nat) (i r maxMatch : Nat) : Nat → Nat → Out Nat
  | 0, bl => if bl + 8 ≤ maxMatch then Out.fault "fuel" else Out.ok bl
  | f + 1, bl =>
    if bl + 8 ≤ maxMatch then
      if i + bl + 8 ≤ src.size ∧ r + bl + 8 ≤ src.size then
        let c := cmpN src 8 (i + bl) (r + bl)
        if c = 8 then findMatchGo src i r maxMatch f (bl + 8) else Out.ok (bl + c)
      else Out.fault "src-index"
    else Out.ok bl

def findMatch (src : Array Nat) (i r maxMatch : Nat) : Out Nat :=
  findMatchGo src i r maxMatch (maxMatch / 8 + 1) 0

/-! ## Forward -/

/-- the constants of one `Forward` call -/
structure Cfg where
  src : Array Nat
  extra : Bool
  minMatch : Nat
  maxDist : Nat
  /-- `count - 16 - 2` -/
  srcEnd : Nat
  dstLen : Nat
  /-- `len(this.tkBuf)` (never grown) -/
  tkCap : Nat

/-- the four output sections under construction and the sizes of the two growable side buffers -/
structure Bufs where
  /-- `dst[13:dstIdx]` -/
  lit : Array Nat
  /-- `tkBuf[0:tkIdx]` -/
  tk : Array Nat
  /-- `mBuf[0:mIdx]` -/
  m : Array Nat
  /-- `mLenBuf[0:mLenIdx]` -/
  ml : Array Nat
  /-- `len(this.mBuf)` -/
  mCap : Nat
  /-- `len(this.mLenBuf)` -/
  mlCap : Nat

/-- the scalar state of the main loop of Forward -/
structure FSt where
  srcIdx : Nat
  anchor : Nat
  repd0 : Nat
  repd1 : Nat
  repdIdx : Nat
  srcInc : Nat

/-- a match candidate: position, reference, length -/
structure Mt where
  srcIdx : Nat
  ref : Nat
  bestLen : Nat
deriving Repr, DecidableEq

/-- Go: `ref > minRef && uint32(p>>8) == binary.LittleEndian.Uint32(src[ref:])` for `ref = srcIdx1 - r`;
    `some ref` when it holds -/
def repCand (c : Cfg) (p : UInt64) (srcIdx1 minRef r : Nat) : Out (Option Nat) :=
  if r + minRef < srcIdx1 then
    match le32 c.src (srcIdx1 - r) with
    | none => Out.fault "src-index"
    | some w => if lo32 (p >>> 8) = w then Out.ok (some (srcIdx1 - r)) else Out.ok none
  else Out.ok none

/-- Go: "Check repd first": `(ref, bestLen)`; `bestLen = 0` when neither repeat distance passes its test -/
def repStage (c : Cfg) (p : UInt64) (srcIdx1 minRef maxMatch ra rb : Nat) : Out (Nat × Nat) :=
  (repCand c p srcIdx1 minRef ra).bind fun ca =>
    match ca with
    | some ref => (findMatch c.src srcIdx1 ref maxMatch).bind fun bl => Out.ok (ref, bl)
    | none =>
      (repCand c p srcIdx1 minRef rb).bind fun cb =>
        match cb with
        | some ref => (findMatch c.src srcIdx1 ref maxMatch).bind fun bl => Out.ok (ref, bl)
        | none => Out.ok (0, 0)

/-- Go: `if ref > minRef && uint32(p) == LE32(src[ref:]) { bestLen = findMatchLZX(src, srcIdx, ref, ...) }`
    for `ref = ref0`; the length found (0 when the test fails) -/
def hashStage (c : Cfg) (p : UInt64) (srcIdx ref0 minRef : Nat) : Out Nat :=
  if ref0 > minRef then
    match le32 c.src ref0 with
    | none => Out.fault "src-index"
    | some w =>
      if lo32 p = w then findMatch c.src srcIdx ref0 (min (c.srcEnd - srcIdx) MAX_MATCH) else Out.ok 0
  else Out.ok 0

/-- Go: one lazy candidate ("Check if better match at next position" / "at position+2"): `pos` is
    `srcIdx1` / `srcIdx2`, `k` is 1 / 2, `cur` the best match so far -/
def lazyCand (c : Cfg) (tbl : Array Nat) (pos k minRef : Nat) (cur : Mt) : Out (Array Nat × Mt) :=
  match le64 c.src pos with
  | none => Out.fault "src-index"
  | some v =>
    let h := hashOf c.extra v
    let r := tbl.getD h 0
    let tbl := tbl.setIfInBounds h pos
    if r > minRef + k then
      match le32 c.src (pos + cur.bestLen - 3), le32 c.src (r + cur.bestLen - 3) with
      | some a, some b =>
        if a = b then
          (findMatch c.src pos r (min (c.srcEnd - pos) MAX_MATCH)).bind fun bl =>
            if bl ≥ cur.bestLen then Out.ok (tbl, ⟨pos, r, bl⟩) else Out.ok (tbl, cur)
        else Out.ok (tbl, cur)
      | _, _ => Out.fault "src-index"
    else Out.ok (tbl, cur)

/-- Go: "Extend backwards" -/
def backExtend (c : Cfg) (anchor minRef : Nat) : Nat → Mt → Out Mt
  | 0, m => if m.srcIdx > anchor ∧ m.ref > minRef then Out.fault "fuel" else Out.ok m
  | f + 1, m =>
    if m.srcIdx > anchor ∧ m.ref > minRef then
      match c.src[m.srcIdx - 1]?, c.src[m.ref - 1]? with
      | some a, some b =>
        if a = b then backExtend c anchor minRef f ⟨m.srcIdx - 1, m.ref - 1, m.bestLen + 1⟩ else Out.ok m
      | _, _ => Out.fault "src-index"
    else Out.ok m

/-- Go: `if bestLen > _LZX_MAX_MATCH { srcIdx += excess; ref += excess; bestLen = _LZX_MAX_MATCH }` -/
def clampMatch (m : Mt) : Mt :=
  if m.bestLen > MAX_MATCH then
    ⟨m.srcIdx + (m.bestLen - MAX_MATCH), m.ref + (m.bestLen - MAX_MATCH), MAX_MATCH⟩
  else m

/-- append to one of the fixed size side buffers (`cap` = its Go length) -/
def pushCap (cap : Nat) (buf : Array Nat) (bs : List Nat) (what : String) : Out (Array Nat) :=
  if bs.isEmpty ∨ buf.size + bs.length ≤ cap then Out.ok (buf ++ bs) else Out.fault what

/-- the distance part of the token and the bytes stored in `mBuf`: `(token, mLenTh, bytes)` -/
def distCode (dist repd0 repd1 : Nat) : Nat × Nat × List Nat :=
  if dist = repd0 then (0x00, 3, [])
  else if dist = repd1 then (0x04, 3, [])
  else if dist ≥ 256 then
    if dist ≥ 65536 then (0x18, 7, [(dist >>> 16) % 256, (dist >>> 8) % 256, dist % 256])
    else (0x10, 7, [(dist >>> 8) % 256, dist % 256])
  else (0x08, 7, [dist % 256])

/-- Go: "Emit match" up to and including the growth of the side buffers: the bytes appended to the four
    sections for the literals `src[anchor:srcIdx]` and the match `(dist, bestLen)` -/
def emitSeq (c : Cfg) (b : Bufs) (repd0 repd1 anchor srcIdx dist bestLen : Nat) : Out Bufs :=
  let mLen := bestLen - c.minMatch
  let dc := distCode dist repd0 repd1
  let mLenTh := dc.2.1
  (pushCap b.mCap b.m dc.2.2 "mbuf").bind fun m =>
  (if mLen ≥ mLenTh then pushCap b.mlCap b.ml (emitLength (mLen - mLenTh)) "mlenbuf" else Out.ok b.ml).bind fun ml =>
  let token := if mLen ≥ mLenTh then dc.1 + mLenTh else dc.1 + mLen
  let litLen := srcIdx - anchor
  if litLen ≥ 7 ∧ litLen ≥ LIT_LIMIT then Out.err "lits"
  else
    (pushCap c.tkCap b.tk [((min litLen 7) * 32 + token) % 256] "tkbuf").bind fun tk =>
    (if litLen ≥ 7 then
        (if 13 + b.lit.size + (emitLength (litLen - 7)).length ≤ c.dstLen
          then Out.ok (b.lit ++ emitLength (litLen - 7)) else Out.fault "dst-index")
      else Out.ok b.lit).bind fun lit =>
    (if litLen = 0 then Out.ok lit
      else if 13 + lit.size > c.dstLen then Out.fault "dst-slice"
      else if 13 + lit.size + litLen > c.dstLen then Out.fault "short-copy"
      else Out.ok (lit ++ c.src.extract anchor (anchor + litLen))).bind fun lit =>
    let grow := decide (m.size + 8 ≥ b.mCap)
    let mCap := if grow then b.mCap + b.mCap / 2 else b.mCap
    let mlCap := if grow ∧ ml.size + 8 ≥ b.mlCap then b.mlCap + b.mlCap / 2 else b.mlCap
    Out.ok ⟨lit, tk, m, ml, mCap, mlCap⟩

/-- Go: the 4-positions-per-iteration hash fill loop after a match (`for srcIdx+4 < anchor`) -/
def fill4 (c : Cfg) (anchor : Nat) : Nat → Nat → Array Nat → Out (Nat × Array Nat)
  | 0, i, tbl => if i + 4 < anchor then Out.fault "fuel" else Out.ok (i, tbl)
  | f + 1, i, tbl =>
    if i + 4 < anchor then
      match le64 c.src (i + 4 - 3) with
      | none => Out.fault "src-index"
      | some v =>
        let tbl := tbl.setIfInBounds (hashOf c.extra v) (i + 4 - 3)
        let tbl := tbl.setIfInBounds (hashOf c.extra (v >>> 8)) (i + 4 - 2)
        let tbl := tbl.setIfInBounds (hashOf c.extra (v >>> 16)) (i + 4 - 1)
        let tbl := tbl.setIfInBounds (hashOf c.extra (v >>> 24)) (i + 4)
        fill4 c anchor f (i + 4) tbl
    else Out.ok (i, tbl)

/-- Go: `for srcIdx < anchor { this.hashes[this.hash(src[srcIdx:])] = int32(srcIdx); srcIdx++ }` -/
def fill1 (c : Cfg) (anchor : Nat) : Nat → Nat → Array Nat → Out (Nat × Array Nat)
  | 0, i, tbl => if i < anchor then Out.fault "fuel" else Out.ok (i, tbl)
  | f + 1, i, tbl =>
    if i < anchor then
      match le64 c.src i with
      | none => Out.fault "src-index"
      | some v => fill1 c anchor f (i + 1) (tbl.setIfInBounds (hashOf c.extra v) i)
    else Out.ok (i, tbl)

/-- Go: from "Emit match" to the end of the loop body, for the match `mt` -/
def emitMatch (c : Cfg) (tbl : Array Nat) (s : FSt) (b : Bufs) (mt : Mt) : Out (Array Nat × FSt × Bufs) :=
  let dist := mt.srcIdx - mt.ref
  (emitSeq c b s.repd0 s.repd1 s.anchor mt.srcIdx dist mt.bestLen).bind fun b' =>
    let anchor := mt.srcIdx + mt.bestLen
    (fill4 c anchor (mt.bestLen / 4 + 1) mt.srcIdx tbl).bind fun r4 =>
      (fill1 c anchor (mt.bestLen + 1) (r4.1 + 1) r4.2).bind fun r1 =>
        Out.ok (r1.2, ⟨r1.1, anchor, dist, s.repd0, 1, 0⟩, b')

/-- Go: one iteration of the main loop of Forward (`srcIdx < srcEnd`) -/
def fwdStep (c : Cfg) (tbl : Array Nat) (s : FSt) (b : Bufs) : Out (Array Nat × FSt × Bufs) :=
  match le64 c.src s.srcIdx with
  | none => Out.fault "src-index"
  | some p =>
    let h0 := hashOf c.extra p
    let ref0 := tbl.getD h0 0
    let tbl := tbl.setIfInBounds h0 s.srcIdx
    let srcIdx1 := s.srcIdx + 1
    let maxMatch := min (c.srcEnd - srcIdx1) MAX_MATCH
    let minRef := s.srcIdx - c.maxDist
    let ra := if s.repdIdx = 0 then s.repd0 else s.repd1
    let rb := if s.repdIdx = 0 then s.repd1 else s.repd0
    (repStage c p srcIdx1 minRef maxMatch ra rb).bind fun rm =>
      if rm.2 < c.minMatch then
        (hashStage c p s.srcIdx ref0 minRef).bind fun bl0 =>
          if bl0 ≥ c.minMatch then
            -- checkNext
            (if ref0 + s.repd0 ≠ s.srcIdx ∧ ref0 + s.repd1 ≠ s.srcIdx then
                (lazyCand c tbl srcIdx1 1 minRef ⟨s.srcIdx, ref0, bl0⟩).bind fun l1 =>
                  if c.extra then lazyCand c l1.1 (srcIdx1 + 1) 2 minRef l1.2 else Out.ok l1
              else Out.ok (tbl, ⟨s.srcIdx, ref0, bl0⟩)).bind fun lz =>
            (backExtend c s.anchor minRef lz.2.srcIdx lz.2).bind fun mb =>
              emitMatch c lz.1 s b (clampMatch mb)
          else
            Out.ok (tbl, ⟨srcIdx1 + (s.srcInc >>> 6), s.anchor, s.repd0, s.repd1, 0, s.srcInc + 1⟩, b)
      else
        match c.src[s.srcIdx]?, (if rm.1 = 0 then none else c.src[rm.1 - 1]?) with
        | some a, some x =>
          if a = x ∧ rm.2 < MAX_MATCH then emitMatch c tbl s b ⟨s.srcIdx, rm.1 - 1, rm.2 + 1⟩
          else
            match le64 c.src srcIdx1 with
            | none => Out.fault "src-index"
            | some v => emitMatch c (tbl.setIfInBounds (hashOf c.extra v) srcIdx1) s b ⟨srcIdx1, rm.1, rm.2⟩
        | _, _ => Out.fault "src-index"

/-- Go: the main loop `for srcIdx < srcEnd` (one unit of fuel per iteration) -/
def fwdLoop (c : Cfg) : Nat → Array Nat → FSt → Bufs → Out (FSt × Bufs)
  | 0, _, s, b => if s.srcIdx < c.srcEnd then Out.fault "fuel" else Out.ok (s, b)
  | f + 1, tbl, s, b =>
    if s.srcIdx < c.srcEnd then (fwdStep c tbl s b).bind fun r => fwdLoop c f r.1 r.2.1 r.2.2
    else Out.ok (s, b)

/-- little-endian 32-bit store -/
def put32 (v : Nat) : List Nat := [v % 256, (v >>> 8) % 256, (v >>> 16) % 256, (v >>> 24) % 256]

/-- Go: Forward after the main loop ("Emit last literals" ... the end) -/
def fwdFinish (c : Cfg) (flag : Nat) (anchor : Nat) (b : Bufs) : Res :=
  let count := c.src.size
  let litLen := count - anchor
  if 13 + b.lit.size + litLen + b.tk.size + b.m.size ≥ count then Out.err "nocomp"
  else if litLen ≥ 7 ∧ litLen ≥ LIT_LIMIT then Out.err "lits"
  else
    (pushCap c.tkCap b.tk [((min litLen 7) * 32) % 256] "tkbuf").bind fun tk =>
    (if litLen ≥ 7 then
        (if 13 + b.lit.size + (emitLength (litLen - 7)).length ≤ c.dstLen
          then Out.ok (b.lit ++ emitLength (litLen - 7)) else Out.fault "dst-index")
      else Out.ok b.lit).bind fun lit =>
    (if 13 + lit.size > c.dstLen then Out.fault "dst-slice"
      else if 13 + lit.size + litLen > c.dstLen then Out.fault "short-copy"
      else Out.ok (lit ++ c.src.extract anchor (anchor + litLen))).bind fun lit =>
    let dstIdx := 13 + lit.size
    -- PutUint32 x 3, then the three copies (each `dst[dstIdx:]` slice and each cut-short copy is flagged)
    if dstIdx + tk.size + b.m.size > c.dstLen then Out.fault "dst-slice"
    else
      let hdr : Array Nat := (put32 dstIdx ++ put32 tk.size ++ put32 b.m.size ++ [flag]).toArray
      let out := hdr ++ lit ++ tk ++ b.m ++ b.ml
      if out.size > count - count / 100 then Out.err "nocomp"
      else if out.size > c.dstLen then Out.fault "short-copy"
      else Out.ok out

/-- Go: `LZXCodec.Forward(src, dst)` with `len(dst) = dstLen`, on a fresh codec -/
def lzForward (extra : Bool) (dt : Nat) (src : Array Nat) (dstLen : Nat) : Res :=
  let count := src.size
  if count = 0 ∨ dstLen = 0 then Out.ok #[]
  else if dstLen < maxEncodedLen count then Out.err "dst"
  else if count < MIN_BLOCK_LENGTH then Out.err "small"
  else
    let srcEnd := count - 16 - 2
    let far := decide (¬ srcEnd < 4 * MAX_DISTANCE1)
    let maxDist := if far then MAX_DISTANCE2 else MAX_DISTANCE1
    if dt = DT_SMALL_ALPHABET then Out.err "type"
    else
      let minMatch := if dt = DT_DNA then MIN_MATCH6 else MIN_MATCH4
      let flag := (if far then 1 else 0) + ((minMatch - 2) % 8) * 2
      let bufSize := max (count / 5) 256
      let c : Cfg := ⟨src, extra, minMatch, maxDist, srcEnd, dstLen, bufSize⟩
      let tbl := Array.replicate (if extra then 524288 else 65536) 0
      (fwdLoop c count tbl ⟨0, 0, count, count, 0, 0⟩ ⟨#[], #[], #[], #[], bufSize, bufSize⟩).bind fun r =>
        fwdFinish c flag r.1.anchor r.2

/-! ## Inverse (inverseV6) -/

/-- the cursors of the decoding loop -/
structure ISt where
  tkIdx : Nat
  mIdx : Nat
  mLenIdx : Nat
  srcIdx : Nat
  dstIdx : Nat
  repd0 : Nat
  repd1 : Nat
deriving Repr, DecidableEq

/-- Go: `copy(dst[at:], src[from:from+k])` byte by byte; bytes that do not fit are dropped like `copy` does -/
def blit (src : Array Nat) : Nat → Nat → Nat → Array Nat → Array Nat
  | 0, _, _, dst => dst
  | k + 1, from_, at_, dst => blit src k (from_ + 1) (at_ + 1) (dst.setIfInBounds at_ (src.getD from_ 0))

/-- Go: `for i := 0; i < k; i++ { dst[at+i] = dst[ref+i] }` (also one 16-byte `copy` of the no-overlap loop:
    with `ref + 16 <= at` a forward byte copy is what `copy` does) -/
def selfCopy : Nat → Nat → Nat → Array Nat → Array Nat
  | 0, _, _, dst => dst
  | k + 1, ref, at_, dst => selfCopy k (ref + 1) (at_ + 1) (dst.setIfInBounds at_ (dst.getD ref 0))

/-- Go: the no-overlap copy loop `for { copy(dst[dstIdx:], dst[ref:ref+16]); ref += 16; dstIdx += 16;
    if dstIdx >= mEnd { break } }` -/
def copy16 (mEnd : Nat) : Nat → Nat → Nat → Array Nat → Out (Array Nat)
  | 0, _, _, _ => Out.fault "fuel"
  | f + 1, ref, di, dst =>
    if di + 16 ≥ mEnd then Out.ok (selfCopy 16 ref di dst) else copy16 mEnd f (ref + 16) (di + 16) (selfCopy 16 ref di dst)

/-- result of the literal part of one token -/
structure LitR where
  srcIdx : Nat
  dstIdx : Nat
  done : Bool

/-- Go: `if token >= 32 { ... }` of the decoding loop -/
def litStage (src : Array Nat) (tk0 token : Nat) (s : ISt) (dst : Array Nat) : Out (LitR × Array Nat) :=
  if token ≥ 32 then
    (if token ≥ 0xE0 then (readLength src s.srcIdx).bind fun r => Out.ok (7 + r.1, s.srcIdx + r.2)
      else Out.ok (token >>> 5, s.srcIdx)).bind fun ll =>
      -- copy(dst[dstIdx:], src[srcIdx:srcIdx+litLen])
      if s.dstIdx > dst.size then Out.fault "dst-slice"
      else if ll.2 + ll.1 > src.size then Out.fault "src-slice"
      else
        Out.ok (⟨ll.2 + ll.1, s.dstIdx + ll.1, decide (ll.2 + ll.1 + 13 ≥ tk0)⟩, blit src ll.1 ll.2 s.dstIdx dst)
  else Out.ok (⟨s.srcIdx, s.dstIdx, false⟩, dst)

/-- result of decoding the match part of a token: `(mLen, dist, mIdx, mLenIdx)` -/
structure MatR where
  mLen : Nat
  dist : Nat
  mIdx : Nat
  mLenIdx : Nat

/-- Go: "Get match length and distance" -/
def matStage (src : Array Nat) (minMatch token : Nat) (s : ISt) : Out MatR :=
  let ff := token / 8 % 4     -- (token & 0x18) >> 3
  if ff = 0 then
    let m0 := token % 4
    (if m0 = 3 then (readLength src s.mLenIdx).bind fun r => Out.ok (m0 + (minMatch + r.1), s.mLenIdx + r.2)
      else Out.ok (m0 + minMatch, s.mLenIdx)).bind fun ml =>
      Out.ok ⟨ml.1, if token / 4 % 2 = 0 then s.repd0 else s.repd1, s.mIdx, ml.2⟩
  else
    let m0 := token % 8
    (if m0 = 7 then (readLength src s.mLenIdx).bind fun r => Out.ok (m0 + (minMatch + r.1), s.mLenIdx + r.2)
      else Out.ok (m0 + minMatch, s.mLenIdx)).bind fun ml =>
      match src[s.mIdx]? with
      | none => Out.fault "src-index"
      | some d0 =>
        if ff ≥ 2 then
          match src[s.mIdx + 1]? with
          | none => Out.fault "src-index"
          | some d1 =>
            if ff = 3 then
              match src[s.mIdx + 2]? with
              | none => Out.fault "src-index"
              | some d2 => Out.ok ⟨ml.1, (((d0 <<< 8) ||| d1) <<< 8) ||| d2, s.mIdx + 3, ml.2⟩
            else Out.ok ⟨ml.1, (d0 <<< 8) ||| d1, s.mIdx + 2, ml.2⟩
        else Out.ok ⟨ml.1, d0, s.mIdx + 1, ml.2⟩

/-- Go: the decoding loop of `inverseV6`; one unit of fuel per token.  Returns the final cursors and `dst`. -/
def invLoop (src : Array Nat) (tk0 maxDist minMatch : Nat) : Nat → ISt → Array Nat → Out (ISt × Array Nat)
  | 0, _, _ => Out.fault "fuel"
  | f + 1, s, dst =>
    match src[s.tkIdx]? with
    | none => Out.fault "src-index"
    | some token =>
      (litStage src tk0 token s dst).bind fun lr =>
        if lr.1.done then Out.ok (⟨s.tkIdx + 1, s.mIdx, s.mLenIdx, lr.1.srcIdx, lr.1.dstIdx, s.repd0, s.repd1⟩, lr.2)
        else
          (matStage src minMatch token s).bind fun mr =>
            -- `ref < 0 || dist > maxDist || mEnd > dstEnd`
            if mr.dist > lr.1.dstIdx ∨ mr.dist > maxDist ∨ lr.1.dstIdx + mr.mLen + 16 > lr.2.size then Out.err "dist"
            else
              (if mr.dist ≥ 16 then copy16 (lr.1.dstIdx + mr.mLen) (mr.mLen / 16 + 1) (lr.1.dstIdx - mr.dist) lr.1.dstIdx lr.2
                else Out.ok (selfCopy mr.mLen (lr.1.dstIdx - mr.dist) lr.1.dstIdx lr.2)).bind fun dst' =>
                invLoop src tk0 maxDist minMatch f
                  ⟨s.tkIdx + 1, mr.mIdx, mr.mLenIdx, lr.1.srcIdx, lr.1.dstIdx + mr.mLen, mr.dist, s.repd0⟩ dst'

/-- little-endian 32-bit load as a Nat -/
def get32 (src : Array Nat) (i : Nat) : Nat :=
  src.getD i 0 + (src.getD (i + 1) 0 <<< 8) + (src.getD (i + 2) 0 <<< 16) + (src.getD (i + 3) 0 <<< 24)

/-- Go: `LZXCodec.inverseV6(src, dst)`; `dst0` is `dst` before the call -/
def lzInverse (src : Array Nat) (dst0 : Array Nat) : Res :=
  let count := src.size
  if count = 0 ∨ dst0.size = 0 then Out.ok #[]
  else if count < 13 then Out.err "data"
  else
    let tk0 := get32 src 0
    let mIdx := get32 src 4 + tk0
    let mLenIdx := get32 src 8 + mIdx
    if tk0 > count ∨ mIdx > count ∨ mLenIdx > count then Out.err "data"
    else
      let maxDist := if src.getD 12 0 % 2 = 0 then MAX_DISTANCE1 else MAX_DISTANCE2
      let minMatch := (src.getD 12 0 >>> 1) % 8 + 2
      (invLoop src tk0 maxDist minMatch (count + 1) ⟨tk0, mIdx, mLenIdx, 13, 0, count, count⟩ dst0).bind fun r =>
        if r.1.srcIdx ≠ tk0 then Out.err "end"
        else if r.1.dstIdx > r.2.size then Out.fault "overrun"
        else Out.ok (r.2.extract 0 r.1.dstIdx)

end Kanzi.LZ
