/-
Line-protocol driver of the `jobs` correspondence stream (core Lean only).

  jp <jobs> <tasks>   → ok a b c …  (the `tasks` entries of jobsPerTask)
                        | err tasks | err jobs   (the two Go errors)
                        | cap                    (tasks > 2^22: neither side allocates the slice)
-/
import Kanzi.Model.Jobs

namespace Kanzi.Drv

namespace JobsDrv

def cap : Nat := 2 ^ 22

def joinNat (l : List Nat) : String := " ".intercalate (l.map toString)

end JobsDrv

open JobsDrv in
def jobs (line : String) : String :=
  match (line.splitOn " ").filter (· ≠ "") with
  | ["jp", j, t] =>
    match j.toNat?, t.toNat? with
    | some j, some t =>
      if j ≥ 2 ^ 64 ∨ t ≥ 2 ^ 64 then "bad-op"
      else if t > cap then "cap"
      else match Kanzi.Jobs.computeJobsPerTask j t with
        | .ok l => "ok " ++ joinNat l
        | .error e => if e = Kanzi.Jobs.errTasks then "err tasks" else "err jobs"
    | _, _ => "bad-op"
  | _ => "bad-op"

end Kanzi.Drv
