/-
Slice `texttotal` (C03): `TextCodec.Inverse` on a codec object that has ALREADY processed blocks.
After an expansion during an earlier call `dictList` is longer than the `dictSize` chosen by the next `reset`; the
entries beyond `dictSize` are stale.  `RSim d e`: `d` (the real object) and `e` (a well-formed dictionary with
`len(dictList) = dictSize`) agree on everything the codec reads; every step of Inverse preserves `RSim` and
gives the same results on both, so all theorems about fresh objects carry over.
-/
import Kanzi.Proofs.TextDecCall

namespace Kanzi.Text
open Kanzi.RLT (Out Res)

structure RSim (d e : Dict) : Prop where
  map : d.map = e.map
  size : d.size = e.size
  ssz : d.ssz = e.ssz
  hsz : d.hsz = e.hsz
  len_d : d.size ≤ d.list.size
  len_e : e.size ≤ e.list.size
  ent : ∀ k, k < d.size → entryAt d k = entryAt e k

theorem RSim.refl (d : Dict) (h : d.size ≤ d.list.size) : RSim d d := ⟨rfl, rfl, rfl, rfl, h, h, fun _ _ => rfl⟩

theorem findEntry_rsim {d e : Dict} (h : RSim d e) (x : Nat) : findEntry d x = findEntry e x := by
  unfold findEntry
  rw [h.map, h.hsz]

theorem expand_entry_gen (d : Dict) (hl : d.size ≤ d.list.size) (k : Nat) (hk : k < 2 * d.size) :
    entryAt (expand d) k = if k < d.size then entryAt d k else Entry.fresh k := by
  obtain ⟨_, h2⟩ := foldl_set_range Entry.fresh d.size Entry.zero d.size
    (d.list ++ Array.replicate d.size Entry.zero)
  unfold entryAt expand
  simp only
  rw [h2 k, Array.size_append, Array.size_replicate]
  by_cases c : k < d.size
  · rw [if_neg (by omega), if_pos c, getD_append, if_pos (by omega)]
  · rw [if_pos ⟨by omega, by omega, by omega⟩, if_neg c]

theorem expand_list_size (d : Dict) : (expand d).list.size = d.list.size + d.size := by
  obtain ⟨h1, _⟩ := foldl_set_range Entry.fresh d.size Entry.zero d.size
    (d.list ++ Array.replicate d.size Entry.zero)
  unfold expand
  simp only
  rw [h1, Array.size_append, Array.size_replicate]

theorem expand_rsim {d e : Dict} (h : RSim d e) : RSim (expand d) (expand e) := by
  have hd := h.len_d
  have he := h.len_e
  have hs := h.size
  refine ⟨h.map, by rw [td_expand_size, td_expand_size, hs], h.ssz, h.hsz, ?_, ?_, ?_⟩
  · rw [expand_list_size, td_expand_size]; omega
  · rw [expand_list_size, td_expand_size]; omega
  · intro k hk
    rw [td_expand_size] at hk
    rw [expand_entry_gen d hd k (by omega), expand_entry_gen e he k (by omega), ← hs]
    by_cases c : k < d.size
    · rw [if_pos c, if_pos c]; exact h.ent k c
    · rw [if_neg c, if_neg c]

theorem entryAt_set (d : Dict) (w k : Nat) (v : Entry) :
    (d.list.setIfInBounds w v).getD k Entry.zero = if w = k ∧ w < d.list.size then v else entryAt d k := by
  unfold entryAt
  rw [getD_set]

theorem learnCore_rsim {d e : Dict} (h : RSim d e) (words : Nat) (word : List Nat) (h1 : Nat) (hw : words < d.size) :
    RSim (learnCore d words word h1) (learnCore e words word h1) := by
  have hd := h.len_d
  have he := h.len_e
  have hs := h.size
  refine ⟨?_, hs, h.ssz, h.hsz, ?_, ?_, ?_⟩
  · show (d.map.setIfInBounds ((entryAt d words).hash % d.hsz) 0).setIfInBounds (h1 % d.hsz) (words + 1) =
      (e.map.setIfInBounds ((entryAt e words).hash % e.hsz) 0).setIfInBounds (h1 % e.hsz) (words + 1)
    rw [h.map, h.hsz, h.ent words hw]
  · show d.size ≤ (d.list.setIfInBounds words _).size
    rw [Array.size_setIfInBounds]; exact hd
  · show e.size ≤ (e.list.setIfInBounds words _).size
    rw [Array.size_setIfInBounds]; exact he
  · intro k hk
    have hk' : k < d.size := hk
    show (d.list.setIfInBounds words _).getD k Entry.zero = (e.list.setIfInBounds words _).getD k Entry.zero
    rw [entryAt_set, entryAt_set]
    by_cases c : words = k
    · rw [if_pos ⟨c, by omega⟩, if_pos ⟨c, by omega⟩]
    · rw [if_neg (fun x => c x.1), if_neg (fun x => c x.1)]; exact h.ent k hk'

theorem learnNext_rsim {d e : Dict} (h : RSim d e) (words : Nat) :
    RSim (learnNext d words).1 (learnNext e words).1 ∧ (learnNext d words).2 = (learnNext e words).2 := by
  unfold learnNext
  rw [h.size, h.ssz]
  by_cases c1 : words + 1 ≥ e.size
  · rw [if_pos c1, if_pos c1]
    by_cases c2 : e.size ≥ MAX_DICT_SIZE
    · rw [if_pos c2, if_pos c2]; exact ⟨h, rfl⟩
    · rw [if_neg c2, if_neg c2]; exact ⟨expand_rsim h, rfl⟩
  · rw [if_neg c1, if_neg c1]; exact ⟨h, rfl⟩

/-- `learn` on the real object and on the well-formed copy: both succeed, same ring index, related results -/
theorem learn_rsim2 {d e : Dict} (h : RSim d e) (words : Nat) (word : List Nat) (h1 : Nat) (he : DictOK e words) :
    ∃ p q, learn d words word h1 = .ok p ∧ learn e words word h1 = .ok q ∧ p.2 = q.2 ∧ RSim p.1 q.1 := by
  have hw : words < d.size := by rw [h.size]; exact he.words_lt
  have hwl : words < d.list.size := Nat.lt_of_lt_of_le hw h.len_d
  have hidx : (entryAt d words).idx = words := by
    rw [h.ent words hw]; exact (he.entry words (by rw [he.size_eq]; exact he.words_lt)).1
  have hM : MASK_LENGTH + 1 = MAX_DICT_SIZE := by decide
  have hmod : words % (MASK_LENGTH + 1) = words := Nat.mod_eq_of_lt (by
    rw [hM]; exact Nat.lt_of_lt_of_le he.words_lt he.size_le)
  have hd : learn d words word h1 = .ok (learnNext (learnCore d words word h1) words) := by
    unfold learn
    rw [if_neg (by omega)]
    simp only [hidx, hmod]
    have hssz : d.ssz ≤ words := by rw [h.ssz]; exact he.ssz_le
    rw [if_pos hssz]
    unfold learnNext learnCore
    simp only
    by_cases c1 : words + 1 ≥ d.size
    · rw [if_pos c1, if_pos c1]
      by_cases c2 : d.size ≥ MAX_DICT_SIZE
      · rw [if_pos c2, if_pos c2]
      · rw [if_neg c2, if_neg c2]
    · rw [if_neg c1, if_neg c1]
  have hs := learnNext_rsim (learnCore_rsim h words word h1 hw) words
  exact ⟨_, _, hd, learn_eq e words word h1 he, hs.2, hs.1⟩

end Kanzi.Text

namespace Kanzi.Text
open Kanzi.RLT (Out Res)

/-- the same state with another dictionary -/
def ISt.withD (s : ISt) (e : Dict) : ISt := { s with d := e }

/-- related results of the token part: same class; on success the same state up to related dictionaries -/
def RSimO (r r' : Out ISt) : Prop :=
  match r, r' with
  | .ok s, .ok s' => s' = s.withD s'.d ∧ RSim s.d s'.d
  | .err a, .err b => a = b
  | .fault a, .fault b => a = b
  | _, _ => False

/-- related results of the traced iteration / loop -/
def RSimT (r r' : ITr) : Prop :=
  match r, r' with
  | .ok s, .ok s' => s' = s.withD s'.d ∧ RSim s.d s'.d
  | .err a d, .err b d' => a = b ∧ RSim d d'
  | .fault a d, .fault b d' => a = b ∧ RSim d d'
  | _, _ => False

theorem invLearnW_rsim {d e : Dict} (h : RSim d e) (word : List Nat) (words : Nat) (he : DictOK e words)
    (hl : 2 ≤ word.length) :
    ∃ p q, invLearnW word words d = .ok p ∧ invLearnW word words e = .ok q ∧ p.2 = q.2 ∧ RSim p.1 q.1 := by
  unfold invLearnW
  simp only
  rw [findEntry_rsim h]
  have fin : ∀ (c : Prop) [Decidable c], ∃ p q,
      (if c then learn d words word (hashWord word) else .ok (d, words)) = .ok p ∧
      (if c then learn e words word (hashWord word) else .ok (e, words)) = .ok q ∧ p.2 = q.2 ∧ RSim p.1 q.1 := by
    intro c _
    by_cases hc : c
    · rw [if_pos hc, if_pos hc]; exact learn_rsim2 h words word _ he
    · rw [if_neg hc, if_neg hc]; exact ⟨_, _, rfl, rfl, rfl, h⟩
  cases hf : findEntry e (hashWord word) with
  | none => exact fin _
  | some k =>
    simp only
    have hk : k < d.size := by
      have := (he.map _ _ (findEntry_some e _ k hf)).1
      rw [he.size_eq] at this
      rw [h.size]; exact this
    rw [h.ent k hk]
    by_cases c : (entryAt e k).hash = hashWord word ∧ (entryAt e k).len = word.length
    · rw [if_pos c]
      obtain ⟨w, hw, _⟩ := entry_ptr_of_map e words _ k _ he hf c.2 hl
      rw [hw]
      exact fin _
    · rw [if_neg c]
      exact fin _

theorem invLearn_rsim {d e : Dict} (h : RSim d e) (a : Array Nat) (i ws words cur : Nat) (he : DictOK e words)
    (hi : i ≤ a.size) :
    ∃ p q, invLearn a i ws words d cur = .ok p ∧ invLearn a i ws words e cur = .ok q ∧ p.2 = q.2 ∧ RSim p.1 q.1 := by
  unfold invLearn
  by_cases c : i ≥ ws + 3 ∧ isDelimiter cur = true ∧ i - ws ≤ MAX_WORD_LENGTH
  · rw [if_pos c, if_pos c]
    exact invLearnW_rsim h _ words he (by rw [extract_length a ws i hi]; omega)
  · rw [if_neg c, if_neg c]
    exact ⟨_, _, rfl, rfl, rfl, h⟩

theorem emitWord_rsim (dstLen : Nat) (s : ISt) (e : Dict) (hs : RSim s.d e) (i2 idx flip : Nat) (hidx : idx < e.size) :
    RSimO (emitWord dstLen s i2 idx flip) (emitWord dstLen (s.withD e) i2 idx flip) := by
  have h1 : ¬ idx ≥ s.d.list.size := by have := hs.len_d; have := hs.size; omega
  have h2 : ¬ idx ≥ e.list.size := by have := hs.len_e; omega
  unfold emitWord ISt.withD
  simp only
  rw [if_neg h1, if_neg h2, hs.ent idx (by rw [hs.size]; exact hidx)]
  cases (entryAt e idx).ptr with
  | none => exact rfl
  | some w =>
    simp only
    generalize (if (entryAt e idx).len % 256 > 1 ∧ s.run = true then s.out.push 32 else s.out) = o1
    by_cases hlt : o1.size + (entryAt e idx).len % 256 ≥ dstLen
    · rw [if_pos hlt, if_pos hlt]; exact rfl
    · rw [if_neg hlt, if_neg hlt]; exact ⟨rfl, hs⟩

theorem invLit_rsim (dstLen : Nat) (crlf : Bool) (s : ISt) (e : Dict) (hs : RSim s.d e) (cur : Nat) :
    RSimO (invLit dstLen crlf s cur) (invLit dstLen crlf (s.withD e) cur) := by
  unfold invLit ISt.withD
  simp only
  split
  · split
    · exact rfl
    · exact ⟨rfl, hs⟩
  · exact ⟨rfl, hs⟩

theorem invTok1_rsim (a : Array Nat) (dstLen : Nat) (crlf : Bool) (s : ISt) (e : Dict) (hs : RSim s.d e)
    (h128 : 128 ≤ e.size) (cur : Nat) :
    RSimO (invTok1 a dstLen crlf s cur) (invTok1 a dstLen crlf (s.withD e) cur) := by
  unfold invTok1
  split
  · have e0 : (s.withD e).i = s.i := rfl
    have e1 : (s.withD e).d = e := rfl
    rw [e0, e1, hs.size]
    rcases readIdx1_cases a s.i e.size with h | h | ⟨idx, i2, h, _, _, h3⟩
    · rw [h]; exact rfl
    · rw [h]; exact rfl
    · rw [h]
      exact emitWord_rsim dstLen s e hs i2 idx _ (by omega)
  · exact invLit_rsim dstLen crlf s e hs cur

theorem invTok2_rsim (old : Bool) (a : Array Nat) (dstLen : Nat) (crlf : Bool) (s : ISt) (e : Dict) (hs : RSim s.d e)
    (h128 : 128 ≤ e.size) (hi : s.i ≤ a.size) (cur : Nat) :
    RSimO (invTok2 old a dstLen crlf s cur) (invTok2 old a dstLen crlf (s.withD e) cur) := by
  unfold invTok2
  have e0 : (s.withD e).i = s.i := rfl
  have e1 : (s.withD e).d = e := rfl
  split
  · rw [e0, e1, hs.size]
    cases old with
    | true =>
      simp only [if_true]
      rcases readIdx2Old_cases a s.i cur e.size hi with h | h | ⟨idx, i2, fl, h, _, _, h3⟩
      · rw [h]; exact rfl
      · rw [h]; exact rfl
      · rw [h]
        exact emitWord_rsim dstLen s e hs i2 idx fl (by omega)
    | false =>
      simp only [Bool.false_eq_true, if_false]
      rcases readIdx2_cases a s.i cur e.size hi with h | h | h | ⟨idx, i2, fl, h, _, _, h3⟩
      · rw [h]; exact rfl
      · rw [h]; exact rfl
      · rw [h]; exact rfl
      · rw [h]
        exact emitWord_rsim dstLen s e hs i2 idx fl (by omega)
  · split
    · rw [e0]
      cases a[s.i]? with
      | none => exact rfl
      | some b => exact ⟨rfl, hs⟩
    · exact invLit_rsim dstLen crlf s e hs cur

end Kanzi.Text

namespace Kanzi.Text
open Kanzi.RLT (Out Res)

/-- the state handed to the token part after a successful learning step satisfies `TokPre` -/
theorem learn_tokPre {a : Array Nat} {dstLen D0 z hz : Nat} {s : ISt} (hI : TInv a dstLen D0 z hz s)
    (hi : s.i < a.size) (ho : s.out.size < dstLen) (p : Dict × Nat)
    (hp : invLearn a s.i s.ws s.words s.d (a.getD s.i 0) = .ok p) :
    TokPre a dstLen D0 z hz ⟨s.i + 1, s.ws, p.2, s.run, p.1, s.out⟩ := by
  obtain ⟨p', hp', hl, hcase⟩ := invLearn_ok a s.i s.ws s.words s.d (a.getD s.i 0) hI.dok (by omega) hI.text
  rw [hp] at hp'
  cases hp'
  have hws := hI.ws_le
  have hgw := hI.gw
  have hgs := hI.gs
  have hsz := hI.size_ge
  have hwle := hl.w_le
  have hsize := hl.size
  refine ⟨hl.dok, by show s.i + 1 ≤ a.size; omega, ho, by show p.1.ssz = z; rw [hl.ssz]; exact hI.ssz_eq,
    by show p.1.hsz = hz; rw [hl.hsz]; exact hI.hsz_eq, ?_, ?_, ?_⟩
  · show 128 ≤ p.1.size
    omega
  · show 4 * p.2 ≤ 4 * z + (s.i + 1)
    rcases hcase with hc | hc
    · rw [hc]; show 4 * s.words ≤ 4 * z + (s.i + 1); omega
    · omega
  · show p.1.size = D0 ∨ 2 * p.1.size ≤ 4 * z + (s.i + 1)
    rcases hcase with hc | hc
    · rw [hc]; show s.d.size = D0 ∨ 2 * s.d.size ≤ 4 * z + (s.i + 1); omega
    · omega

/-- one iteration on the real object and on the well-formed copy -/
theorem invStepT_rsim (tc2 old : Bool) (a : Array Nat) (dstLen D0 z hz : Nat) (crlf : Bool) (s : ISt) (e : Dict)
    (hs : RSim s.d e) (hI : TInv a dstLen D0 z hz (s.withD e)) (hi : s.i < a.size) (ho : s.out.size < dstLen) :
    RSimT (invStepT tc2 old a dstLen crlf s) (invStepT tc2 old a dstLen crlf (s.withD e)) := by
  unfold invStepT ISt.withD
  simp only
  by_cases c0 : isText (a.getD s.i 0) = true
  · rw [if_pos c0, if_pos c0]; exact ⟨rfl, hs⟩
  · rw [if_neg c0, if_neg c0]
    obtain ⟨p, q, hp, hq, hpq, hsim⟩ := invLearn_rsim hs a s.i s.ws s.words (a.getD s.i 0) hI.dok (by omega)
    have hpre := learn_tokPre hI hi ho q hq
    rw [hp, hq]
    simp only
    rw [hpq]
    have hto : RSimO
        (if tc2 = true then invTok2 old a dstLen crlf ⟨s.i + 1, s.ws, q.2, s.run, p.1, s.out⟩ (a.getD s.i 0)
         else invTok1 a dstLen crlf ⟨s.i + 1, s.ws, q.2, s.run, p.1, s.out⟩ (a.getD s.i 0))
        (if tc2 = true then invTok2 old a dstLen crlf ⟨s.i + 1, s.ws, q.2, s.run, q.1, s.out⟩ (a.getD s.i 0)
         else invTok1 a dstLen crlf ⟨s.i + 1, s.ws, q.2, s.run, q.1, s.out⟩ (a.getD s.i 0)) := by
      cases tc2 with
      | true =>
        simp only [if_true]
        exact invTok2_rsim old a dstLen crlf ⟨s.i + 1, s.ws, q.2, s.run, p.1, s.out⟩ q.1 hsim hpre.size_ge
          (by show s.i + 1 ≤ a.size; omega) _
      | false =>
        simp only [Bool.false_eq_true, if_false]
        exact invTok1_rsim a dstLen crlf ⟨s.i + 1, s.ws, q.2, s.run, p.1, s.out⟩ q.1 hsim hpre.size_ge _
    generalize (if tc2 = true then invTok2 old a dstLen crlf ⟨s.i + 1, s.ws, q.2, s.run, p.1, s.out⟩ (a.getD s.i 0)
         else invTok1 a dstLen crlf ⟨s.i + 1, s.ws, q.2, s.run, p.1, s.out⟩ (a.getD s.i 0)) = r at hto ⊢
    generalize (if tc2 = true then invTok2 old a dstLen crlf ⟨s.i + 1, s.ws, q.2, s.run, q.1, s.out⟩ (a.getD s.i 0)
         else invTok1 a dstLen crlf ⟨s.i + 1, s.ws, q.2, s.run, q.1, s.out⟩ (a.getD s.i 0)) = r' at hto ⊢
    cases r <;> cases r' <;> first | exact ⟨hto, hsim⟩ | exact hto

/-- the loop on the real object and on the well-formed copy -/
theorem invLoopT_rsim (tc2 old : Bool) (a : Array Nat) (dstLen D0 z hz : Nat) (crlf : Bool) :
    ∀ (f : Nat) (s : ISt) (e : Dict), RSim s.d e → TInv a dstLen D0 z hz (s.withD e) →
      RSimT (invLoopT tc2 old a dstLen crlf f s) (invLoopT tc2 old a dstLen crlf f (s.withD e))
  | 0, s, e, hs, _ => ⟨rfl, hs⟩
  | f + 1, s, e, hs, hI => by
    unfold invLoopT
    have e0 : (s.withD e).i = s.i := rfl
    have e1 : (s.withD e).out = s.out := rfl
    rw [e0, e1]
    by_cases c : s.i < a.size ∧ s.out.size < dstLen
    · rw [if_pos c, if_pos c]
      have hst := invStepT_rsim tc2 old a dstLen D0 z hz crlf s e hs hI c.1 c.2
      have hsp := invStepT_spec tc2 old a dstLen D0 z hz crlf (s.withD e) hI c.1 c.2
      cases h1 : invStepT tc2 old a dstLen crlf s with
      | ok s1 =>
        cases h2 : invStepT tc2 old a dstLen crlf (s.withD e) with
        | ok s2 =>
          rw [h1, h2] at hst
          rw [h2] at hsp
          simp only
          have hst1 : s2 = s1.withD s2.d := hst.1
          rw [hst1]
          exact invLoopT_rsim tc2 old a dstLen D0 z hz crlf f s1 s2.d hst.2 (by rw [← hst1]; exact hsp.1)
        | err x d => rw [h1, h2] at hst; exact hst.elim
        | fault x d => rw [h1, h2] at hst; exact hst.elim
      | err x d =>
        cases h2 : invStepT tc2 old a dstLen crlf (s.withD e) with
        | ok s2 => rw [h1, h2] at hst; exact hst.elim
        | err y d' => rw [h1, h2] at hst; exact hst
        | fault y d' => rw [h1, h2] at hst; exact hst.elim
      | fault x d =>
        cases h2 : invStepT tc2 old a dstLen crlf (s.withD e) with
        | ok s2 => rw [h1, h2] at hst; exact hst.elim
        | err y d' => rw [h1, h2] at hst; exact hst.elim
        | fault y d' => rw [h1, h2] at hst; exact hst
    · rw [if_neg c, if_neg c]
      exact ⟨rfl, hs⟩

end Kanzi.Text

namespace Kanzi.Text
open Kanzi.RLT (Out Res)

/-! ## a call from any well-formed dictionary, and from a dictionary related to one -/

theorem init_inv_gen (e0 : Dict) (hok : DictOK e0 e0.ssz) (h128 : 128 ≤ e0.size) (a : Array Nat) (dstLen ws : Nat)
    (h1 : 1 ≤ a.size) (hws1 : 1 ≤ ws) (hws2 : ws ≤ 2) :
    TInv a dstLen e0.size e0.ssz e0.hsz ⟨1, ws, e0.ssz, false, e0, #[]⟩ := by
  refine ⟨hok, h1, by show ws ≤ 1 + 1; omega, fun k k1 k2 => ?_, Nat.zero_le _, rfl, rfl, h128, ?_, Or.inl rfl⟩
  · have : k < 1 := k2
    have : ws ≤ k := k1
    omega
  · show 4 * e0.ssz ≤ 4 * e0.ssz + ws
    omega

theorem invCall_gen (tc2 old : Bool) (e0 : Dict) (hok : DictOK e0 e0.ssz) (h128 : 128 ≤ e0.size)
    (src : List Nat) (dstLen : Nat) :
    CallPost tc2 old dstLen (invCall tc2 old e0 src dstLen).1 ∧
    DB src.length e0.size e0.ssz e0.hsz (invCall tc2 old e0 src dstLen).2 := by
  have hdb0 : DB src.length e0.size e0.ssz e0.hsz e0 :=
    ⟨hok.size_eq, hok.size_le, rfl, rfl, hok.map_size, ⟨_, hok⟩, h128, Or.inl rfl⟩
  unfold invCall
  simp only
  cases h0 : src.toArray[0]? with
  | none => exact ⟨Or.inl rfl, hdb0⟩
  | some m =>
    cases h1 : src.toArray[1]? with
    | none => exact ⟨Or.inl rfl, hdb0⟩
    | some c1 =>
      simp only
      have l1 := lt_of_getElem?_some _ _ _ h1
      have hinv := init_inv_gen e0 hok h128 src.toArray dstLen (if isText c1 = true then 1 else 2)
        (by omega) (by split <;> omega) (by split <;> omega)
      have hT := invLoopT_spec tc2 old src.toArray dstLen e0.size e0.ssz e0.hsz
        (m &&& MASK_CRLF ≠ 0) (src.toArray.size + 1) _ hinv (by show src.toArray.size < src.toArray.size + 1 + 1; omega)
      have hsize : src.toArray.size = src.length := List.size_toArray
      cases hl : invLoopT tc2 old src.toArray dstLen (decide (m &&& MASK_CRLF ≠ 0)) (src.toArray.size + 1)
          ⟨1, if isText c1 = true then 1 else 2, e0.ssz, false, e0, #[]⟩ with
      | ok s =>
        rw [hl] at hT
        simp only
        refine ⟨?_, by have := hT.1.db; rw [hsize] at this; exact this⟩
        split
        · exact Or.inr (Or.inr rfl)
        · show s.out.toList.length ≤ dstLen
          rw [Array.length_toList]; exact hT.1.out_le
      | err e d =>
        rw [hl] at hT
        simp only
        refine ⟨?_, by have := hT.2; rw [hsize] at this; exact this⟩
        rcases hT.1 with e1 | e1
        · exact Or.inl e1
        · exact Or.inr (Or.inl e1)
      | fault e d =>
        rw [hl] at hT
        simp only
        exact ⟨hT.1, by have := hT.2; rw [hsize] at this; exact this⟩

/-- the call on the real object returns what the call on the well-formed copy returns, and leaves a related
    dictionary -/
theorem invCall_rsim (tc2 old : Bool) (d0 e0 : Dict) (hs : RSim d0 e0) (hok : DictOK e0 e0.ssz) (h128 : 128 ≤ e0.size)
    (src : List Nat) (dstLen : Nat) :
    (invCall tc2 old d0 src dstLen).1 = (invCall tc2 old e0 src dstLen).1 ∧
    RSim (invCall tc2 old d0 src dstLen).2 (invCall tc2 old e0 src dstLen).2 := by
  unfold invCall
  simp only
  cases h0 : src.toArray[0]? with
  | none => exact ⟨rfl, hs⟩
  | some m =>
    cases h1 : src.toArray[1]? with
    | none => exact ⟨rfl, hs⟩
    | some c1 =>
      simp only
      have l1 := lt_of_getElem?_some _ _ _ h1
      have hinv := init_inv_gen e0 hok h128 src.toArray dstLen (if isText c1 = true then 1 else 2)
        (by omega) (by split <;> omega) (by split <;> omega)
      rw [hs.ssz]
      have hsim := invLoopT_rsim tc2 old src.toArray dstLen e0.size e0.ssz e0.hsz (m &&& MASK_CRLF ≠ 0)
        (src.toArray.size + 1) ⟨1, if isText c1 = true then 1 else 2, e0.ssz, false, d0, #[]⟩ e0 hs hinv
      have ew : (ISt.withD ⟨1, if isText c1 = true then 1 else 2, e0.ssz, false, d0, #[]⟩ e0) =
          ⟨1, if isText c1 = true then 1 else 2, e0.ssz, false, e0, #[]⟩ := rfl
      rw [ew] at hsim
      generalize invLoopT tc2 old src.toArray dstLen (decide (m &&& MASK_CRLF ≠ 0)) (src.toArray.size + 1)
          ⟨1, if isText c1 = true then 1 else 2, e0.ssz, false, d0, #[]⟩ = r at hsim ⊢
      generalize invLoopT tc2 old src.toArray dstLen (decide (m &&& MASK_CRLF ≠ 0)) (src.toArray.size + 1)
          ⟨1, if isText c1 = true then 1 else 2, e0.ssz, false, e0, #[]⟩ = r' at hsim ⊢
      cases r with
      | ok s =>
        cases r' with
        | ok s' =>
          have h1 : s' = s.withD s'.d := hsim.1
          have hi : s'.i = s.i := by rw [h1]; rfl
          have ho : s'.out = s.out := by rw [h1]; rfl
          simp only
          rw [hi, ho]
          exact ⟨rfl, hsim.2⟩
        | err x d => exact hsim.elim
        | fault x d => exact hsim.elim
      | err x d =>
        cases r' with
        | ok s' => exact hsim.elim
        | err y d' => have hx : x = y := hsim.1; rw [hx]; exact ⟨rfl, hsim.2⟩
        | fault y d' => exact hsim.elim
      | fault x d =>
        cases r' with
        | ok s' => exact hsim.elim
        | err y d' => exact hsim.elim
        | fault y d' => have hx : x = y := hsim.1; rw [hx]; exact ⟨rfl, hsim.2⟩

end Kanzi.Text

namespace Kanzi.Text
open Kanzi.RLT (Out Res)

/-! ## `reset` on a used object -/

/-- the dictionary without the stale entries beyond `dictSize` -/
def truncD (d : Dict) : Dict :=
  { d with list := Array.ofFn (n := d.size) fun i => d.list.getD i.val Entry.zero }

theorem truncD_entry (d : Dict) (k : Nat) (hk : k < d.size) : entryAt (truncD d) k = entryAt d k := by
  unfold entryAt truncD
  simp only
  rw [Array.getD_eq_getD_getElem?, Array.getElem?_ofFn, dif_pos hk]
  rfl

theorem truncD_rsim (d : Dict) (h : d.size ≤ d.list.size) : RSim d (truncD d) :=
  ⟨rfl, rfl, rfl, rfl, h, by show d.size ≤ (Array.ofFn _).size; rw [Array.size_ofFn]; exact Nat.le_refl _,
    fun k hk => (truncD_entry d k hk).symm⟩

/-- what is known about a codec object that has processed any number of blocks: its dictionary agrees with a
    well-formed one (`RSim`), `staticDictSize` and `hashMask` are those of the constructor -/
structure GoodD (sw : Nat) (tc2 : Bool) (hsz : Nat) (d : Dict) : Prop where
  sim : ∃ e w, RSim d e ∧ DictOK e w
  ssz : d.ssz = staticSize sw tc2
  hsz : d.hsz = hsz
  size_ge : 128 ≤ d.size

theorem resetReuse_entry (sw : Nat) (sd : Array Entry) (tc2 : Bool) (prev : Dict) (count k : Nat)
    (hk : k < (resetReuse sw sd tc2 prev count).size) :
    entryAt (resetReuse sw sd tc2 prev count) k =
      if prev.list.size < (resetReuse sw sd tc2 prev count).size then
        (resetList sw sd tc2 (resetReuse sw sd tc2 prev count).size).getD k Entry.zero
      else if k < prev.ssz then entryAt prev k else Entry.fresh k := by
  unfold entryAt resetReuse
  simp only
  by_cases c : prev.list.size < (if count ≥ 1024 then dictSizeFor count else prev.size)
  · rw [if_pos c, if_pos c]
  · rw [if_neg c, if_neg c]
    have hk' : k < prev.list.size := by
      have : k < (if count ≥ 1024 then dictSizeFor count else prev.size) := hk
      omega
    rw [Array.getD_eq_getD_getElem?, Array.getElem?_ofFn, dif_pos hk']
    simp only [Option.getD_some]
    have hk2 : k < (if count ≥ 1024 then dictSizeFor count else prev.size) := hk
    by_cases c2 : k < prev.ssz
    · rw [if_pos (Or.inl c2), if_pos c2]
    · rw [if_neg (by omega), if_neg c2]

theorem resetReuse_len (sw : Nat) (sd : Array Entry) (tc2 : Bool) (prev : Dict) (count : Nat) :
    (resetReuse sw sd tc2 prev count).size ≤ (resetReuse sw sd tc2 prev count).list.size := by
  unfold resetReuse
  simp only
  by_cases c : prev.list.size < (if count ≥ 1024 then dictSizeFor count else prev.size)
  · rw [if_pos c, resetList_size]; exact Nat.le_refl _
  · rw [if_neg c, Array.size_ofFn]; omega

/-- Go `reset` on a used object: the new dictionary agrees with a well-formed one whose ring index is
    `staticDictSize` -/
theorem resetReuse_ok (sw : Nat) (sd : Array Entry) (hs : StaticOK sw sd) (tc2 : Bool) (hsz : Nat) (prev : Dict)
    (hg : GoodD sw tc2 hsz prev) (count : Nat) :
    RSim (resetReuse sw sd tc2 prev count) (truncD (resetReuse sw sd tc2 prev count)) ∧
    DictOK (truncD (resetReuse sw sd tc2 prev count)) (truncD (resetReuse sw sd tc2 prev count)).ssz ∧
    128 ≤ (truncD (resetReuse sw sd tc2 prev count)).size ∧
    (truncD (resetReuse sw sd tc2 prev count)).ssz = staticSize sw tc2 ∧
    (truncD (resetReuse sw sd tc2 prev count)).hsz = hsz := by
  obtain ⟨pe, w, hsim, hpe⟩ := hg.sim
  have hss := staticSize_le sw tc2 hs.le
  have hssz : prev.ssz ≤ 1026 := by rw [hg.ssz]; exact hss
  have hpw : prev.ssz ≤ w := by rw [hsim.ssz]; exact hpe.ssz_le
  have hwl : w < prev.size := by rw [hsim.size]; exact hpe.words_lt
  have hrs : (resetReuse sw sd tc2 prev count).size = if count ≥ 1024 then dictSizeFor count else prev.size := rfl
  have hrz : (resetReuse sw sd tc2 prev count).ssz = prev.ssz := rfl
  have hrh : (resetReuse sw sd tc2 prev count).hsz = prev.hsz := rfl
  have hge := dictSizeFor_ge count
  have hle := dictSizeFor_le count
  have hM : MAX_DICT_SIZE = 2 ^ 19 := by decide
  have h18 : (2 : Nat) ^ 18 ≤ 2 ^ 19 := by decide
  have hlt : prev.ssz < (resetReuse sw sd tc2 prev count).size := by rw [hrs]; split <;> omega
  have hpos : 0 < prev.hsz := by rw [hsim.hsz]; exact hpe.hsz_pos
  have hm := resetMap_spec prev.hsz (resetReuse sw sd tc2 prev count).list prev.ssz
  have hent : ∀ k, k < (resetReuse sw sd tc2 prev count).size →
      EntryOK k (entryAt (resetReuse sw sd tc2 prev count) k) := by
    intro k hk
    rw [resetReuse_entry sw sd tc2 prev count k hk]
    split
    · exact resetList_entry sw sd tc2 _ k hs hk
    · by_cases c2 : k < prev.ssz
      · rw [if_pos c2, hsim.ent k (by omega)]
        exact hpe.entry k (by rw [hpe.size_eq, ← hsim.size]; omega)
      · rw [if_neg c2]; exact EntryOK_fresh k
  refine ⟨truncD_rsim _ (resetReuse_len sw sd tc2 prev count), ?_, ?_, hg.ssz, hg.hsz⟩
  · refine ⟨by show (Array.ofFn _).size = _; rw [Array.size_ofFn]; rfl, Nat.le_refl _, hlt, ?_, ?_, ?_, hm.1, hpos, ?_⟩
    · show (resetReuse sw sd tc2 prev count).size ≤ MAX_DICT_SIZE
      rw [hrs]
      split
      · omega
      · rw [hsim.size]; exact hpe.size_le
    · show ∃ a, (resetReuse sw sd tc2 prev count).size = 2 ^ a
      rw [hrs]
      split
      · obtain ⟨a, _, _, ea⟩ := dictSizeFor_spec count
        exact ⟨a, ea⟩
      · rw [hsim.size]; exact hpe.size_pow
    · intro k hk
      have hk' : k < (resetReuse sw sd tc2 prev count).size := by
        have : k < (Array.ofFn (n := (resetReuse sw sd tc2 prev count).size) _).size := hk
        rwa [Array.size_ofFn] at this
      rw [truncD_entry _ k hk']
      exact hent k hk'
    · intro s p hp
      obtain ⟨h1, h2⟩ := hm.2 s p hp
      have hp' : p < (resetReuse sw sd tc2 prev count).size := by omega
      refine ⟨by show p < (Array.ofFn _).size; rw [Array.size_ofFn]; exact hp', ?_⟩
      rw [truncD_entry _ p hp']
      exact h2
  · show 128 ≤ (resetReuse sw sd tc2 prev count).size
    rw [hrs]
    have := hg.size_ge
    split <;> omega

end Kanzi.Text

namespace Kanzi.Text
open Kanzi.RLT (Out Res)

/-! ## any number of calls on one object -/

/-- the codec object is in a state reachable by calls (or unused) -/
def GoodC (sw : Nat) (tc2 : Bool) (hsz : Nat) (c : Codec) : Prop :=
  match c with
  | none => True
  | some d => GoodD sw tc2 hsz d

theorem CallPost.wrap {tc2 old : Bool} {n : Nat} {r : Res} (h : CallPost tc2 old n r) : WrapPost tc2 old n r := by
  cases r with
  | ok o => exact h
  | err e => exact Or.inr (Or.inr h)
  | fault e => exact h

theorem GoodD_of_db {sw : Nat} {tc2 : Bool} {hsz n D0 : Nat} {d e : Dict} (hs : RSim d e)
    (hdb : DB n D0 (staticSize sw tc2) hsz e) : GoodD sw tc2 hsz d := by
  obtain ⟨w, hw⟩ := hdb.dok
  exact ⟨⟨e, w, hs, hw⟩, by rw [hs.ssz]; exact hdb.ssz_eq, by rw [hs.hsz]; exact hdb.hsz_eq,
    by rw [hs.size]; exact hdb.size_ge⟩

/-- `TextCodec.Inverse` on an object in ANY reachable state: same outcome classes as on a fresh object, and the
    object stays in a reachable state -/
theorem codecCallS_reuse (sw : Nat) (sd : Array Entry) (hs : StaticOK sw sd) (tc2 old : Bool) (hsz : Nat)
    (hpos : 0 < hsz) (c : Codec) (hc : GoodC sw tc2 hsz c) (src : List Nat) (n : Nat) :
    WrapPost tc2 old n (codecCallS sw sd tc2 old hsz c src n).1 ∧
    GoodC sw tc2 hsz (codecCallS sw sd tc2 old hsz c src n).2 := by
  unfold codecCallS
  split
  · exact ⟨Nat.zero_le _, hc⟩
  · split
    · exact ⟨Or.inl rfl, hc⟩
    · split
      · exact ⟨Or.inr (Or.inl rfl), hc⟩
      · cases c with
        | none =>
          simp only
          have h := invCall_spec sw sd hs tc2 old hsz hpos src n
          exact ⟨h.1.wrap, GoodD_of_db (RSim.refl _ (by rw [h.2.size_eq]; exact Nat.le_refl _)) h.2⟩
        | some prev =>
          simp only
          obtain ⟨h1, h2, h3, h4, h5⟩ := resetReuse_ok sw sd hs tc2 hsz prev hc n
          have hsim := invCall_rsim tc2 old _ _ h1 h2 h3 src n
          have hgen := invCall_gen tc2 old _ h2 h3 src n
          rw [h4, h5] at hgen
          refine ⟨by rw [hsim.1]; exact hgen.1.wrap, GoodD_of_db hsim.2 hgen.2⟩

theorem runCallsS_good (sw : Nat) (sd : Array Entry) (hs : StaticOK sw sd) (tc2 old : Bool) (hsz : Nat)
    (hpos : 0 < hsz) : ∀ (calls : List (List Nat × Nat)) (c : Codec), GoodC sw tc2 hsz c →
      GoodC sw tc2 hsz (runCallsS sw sd tc2 old hsz c calls)
  | [], c, hc => hc
  | x :: r, c, hc =>
    runCallsS_good sw sd hs tc2 old hsz hpos r _ (codecCallS_reuse sw sd hs tc2 old hsz hpos c hc x.1 x.2).2

/-- what reflection sees on an object in a reachable state: `dictSize <= 2^19`, `len(dictMap) = 1 << logHashSize`,
    `len(dictList) >= dictSize` (NOT bounded: see `resetReuse`) -/
theorem GoodD.sizes {sw : Nat} {tc2 : Bool} {hsz : Nat} {d : Dict} (h : GoodD sw tc2 hsz d) :
    d.size ≤ MAX_DICT_SIZE ∧ d.map.size = hsz ∧ d.size ≤ d.list.size := by
  obtain ⟨e, w, hs, he⟩ := h.sim
  exact ⟨by rw [hs.size]; exact he.size_le, by rw [hs.map, he.map_size, ← hs.hsz]; exact h.hsz, hs.len_d⟩

end Kanzi.Text
