package main

// rlt: correspondence stream for the run-length transform transform.RLT (Forward / Inverse /
// MaxEncodedLen), model lean/Kanzi/Model/RLT.lean, driver lean/Kanzi/Drv/RLT.lean (op grammar there).
//
// Exec runs the REAL transform on caller-owned buffers (trCall of trsmall.go: source with cap == len,
// destination dst[:dstLen] followed by a canary) and evaluates the C13 oracle on the real code,
// independently of the Lean model: no panic, source buffer unchanged (success or decline), canary
// intact, and when Forward succeeds into a destination of at least MaxEncodedLen bytes: everything
// consumed, output length <= MaxEncodedLen, Inverse(Forward(x)) == x into a destination of exactly
// len(x) bytes and of len(x)+extra bytes.

import (
	"bytes"
	"encoding/hex"
	"fmt"
	"math/rand"
	"reflect"
	"strconv"
	"strings"
	"sync"

	"github.com/flanglet/kanzi-go/v2/transform"

	"kverif/internal/gen"
)

func init() {
	registerStream(&Stream{
		Name: "rlt",
		Rule: "one op = one RLT.Forward (+ Inverse of its output) or one RLT.Inverse call on a caller-owned block, with NewRLT or NewRLTWithCtx (dataType / entropy entries); families: empty and tiny blocks, one run of every special length (1..12, around 224+3, 7936+3, 0xFFFF, MAX_RUN4, MAX_RUN, 2*MAX_RUN) of a plain byte / of the escape byte at every offset from the start and from the end of the block, several long runs, random, skewed, all 256 symbols present, 0xFB-heavy with the default escape, blocks whose output ends within a few bytes of len(dst), short destinations, typed data (DNA, base64, numeric), valid / truncated / mutated / arbitrary / exhaustive short inverse inputs with all destination sizes; distinct_nontrivial = distinct ops with a non-empty block",
		Gen:  rltGen,
		Exec: rltExec,
	})
}

const (
	rltMaxRun  = 0xFFFF + (31 << 8) + 3 - 1
	rltMaxRun4 = rltMaxRun - 4
)

// ---- data <-> text: "-" or comma separated chunks, hex or HH*count

func rltEnc(b []byte) string {
	if len(b) == 0 {
		return "-"
	}
	var parts []string
	lit := 0
	flush := func(end int) {
		if end > lit {
			parts = append(parts, hex.EncodeToString(b[lit:end]))
		}
	}
	for i := 0; i < len(b); {
		j := i
		for j < len(b) && b[j] == b[i] {
			j++
		}
		if j-i >= 8 {
			flush(i)
			parts = append(parts, fmt.Sprintf("%02x*%d", b[i], j-i))
			lit = j
		}
		i = j
	}
	flush(len(b))
	return strings.Join(parts, ",")
}

func rltDec(s string) ([]byte, bool) {
	if s == "-" {
		return []byte{}, true
	}
	var out []byte
	for _, c := range strings.Split(s, ",") {
		if k := strings.IndexByte(c, '*'); k >= 0 {
			h, err := hex.DecodeString(c[:k])
			n, err2 := strconv.Atoi(c[k+1:])
			if err != nil || err2 != nil || len(h) != 1 || n < 0 || n > 1<<24 {
				return nil, false
			}
			out = append(out, bytes.Repeat(h, n)...)
		} else {
			h, err := hex.DecodeString(c)
			if err != nil {
				return nil, false
			}
			out = append(out, h...)
		}
	}
	return out, true
}

func rltOut(b []byte) string {
	if len(b) <= 64 {
		return fmt.Sprintf("%d %s", len(b), trHex(b))
	}
	h := uint64(14695981039346656037)
	for _, c := range b {
		h = (h ^ uint64(c)) * 1099511628211
	}
	return fmt.Sprintf("%d #%016x", len(b), h)
}

// ---- internal.DataType values without importing kanzi's internal package: let RLT itself store one
// in a ctx (numeric data => DT_NUMERIC) and build the others by reflection from its type.

var (
	rltDTOnce sync.Once
	rltDTType reflect.Type
)

func rltDataType(k int) any {
	rltDTOnce.Do(func() {
		ctx := map[string]any{}
		t, _ := transform.NewRLTWithCtx(&ctx)
		src := []byte("0123456789012345678901234567890123456789")
		dst := make([]byte, t.MaxEncodedLen(len(src)))
		t.Forward(src, dst)
		if v, ok := ctx["dataType"]; ok {
			rltDTType = reflect.TypeOf(v)
		}
	})
	if rltDTType == nil {
		return nil
	}
	v := reflect.New(rltDTType).Elem()
	v.SetInt(int64(k))
	return v.Interface()
}

func rltFwdClass(err error) string {
	m := err.Error()
	switch {
	case strings.Contains(m, "input buffer is too small"):
		return "small"
	case strings.Contains(m, "output buffer is too small"):
		return "dst"
	case strings.Contains(m, "no compression"):
		return "nocomp"
	case m == "RLT forward transform skip":
		return "type"
	}
	return "other(" + m + ")"
}

func rltInvClass(err error) string {
	m := err.Error()
	switch {
	case strings.Contains(m, "invalid data"):
		return "data"
	case strings.Contains(m, "invalid run length"):
		return "run"
	case strings.Contains(m, "starts with a run"):
		return "starts-run"
	}
	return "other(" + m + ")"
}

func rltInvLine(res *Result, o trOut, dstLen int) string {
	site := "transform.RLT.Inverse"
	if o.panicMsg != "" {
		trViolate(res, site, "panic", o.panicMsg)
		return "panic"
	}
	if o.inputMod {
		trViolate(res, site, "input-modified", "source buffer changed by the call")
	}
	if o.canary {
		trViolate(res, site, "dst-overrun", "bytes after dst[:len] were written")
	}
	if o.err != nil {
		return "err:" + rltInvClass(o.err)
	}
	if int(o.written) > dstLen {
		trViolate(res, site, "written>len(dst)", fmt.Sprintf("written=%d len(dst)=%d", o.written, dstLen))
		return "overrun"
	}
	return "ok " + rltOut(o.out)
}

func rltNew(c, dts, ent string) (*transform.RLT, *map[string]any, bool) {
	if c == "0" {
		if dts != "-" || ent != "-" {
			return nil, nil, false
		}
		t, _ := transform.NewRLT()
		return t, nil, true
	}
	ctx := map[string]any{}
	if dts != "-" {
		k, err := strconv.Atoi(dts)
		if err != nil || k < 0 || k > 64 {
			return nil, nil, false
		}
		v := rltDataType(k)
		if v == nil {
			return nil, nil, false
		}
		ctx["dataType"] = v
	}
	if ent != "-" {
		ctx["entropy"] = ent
	}
	t, _ := transform.NewRLTWithCtx(&ctx)
	return t, &ctx, true
}

func rltExec(op string, res *Result) string {
	w := strings.Fields(op)
	atoi := func(s string) (int, bool) {
		v, err := strconv.Atoi(s)
		return v, err == nil && v >= 0 && v <= 1<<24
	}
	switch {
	case len(w) == 6 && w[0] == "rf":
		dstLen, ok1 := atoi(w[4])
		data, ok2 := rltDec(w[5])
		t, ctx, ok3 := rltNew(w[1], w[2], w[3])
		if !ok1 || !ok2 || !ok3 {
			return "bad-op"
		}
		site := "transform.RLT.Forward"
		res.Nontrivial = len(data) > 0
		res.Sample = map[string]any{"op": "rf", "len": len(data), "dst": dstLen, "prefix": op[:min(len(op), 80)]}
		o := trCall(t.Forward, data, dstLen)
		ctxs := ""
		if ctx != nil {
			ctxs = " ctx=-"
			if v, ok := (*ctx)["dataType"]; ok {
				ctxs = fmt.Sprintf(" ctx=%d", reflect.ValueOf(v).Int())
			}
		}
		if o.panicMsg != "" {
			trViolate(res, site, "panic", o.panicMsg)
			res.Tags = append(res.Tags, "rf:panic")
			return "panic"
		}
		if o.inputMod {
			trViolate(res, site, "input-modified", "source buffer changed by the call")
		}
		if o.canary {
			trViolate(res, site, "dst-overrun", "bytes after dst[:len] were written")
		}
		if o.err != nil {
			cl := rltFwdClass(o.err)
			res.Tags = append(res.Tags, "rf:declined:"+cl)
			return "declined:" + cl + ctxs
		}
		if int(o.written) > dstLen {
			trViolate(res, site, "written>len(dst)", fmt.Sprintf("written=%d len(dst)=%d", o.written, dstLen))
			return "overrun"
		}
		res.Tags = append(res.Tags, "rf:ok")
		maxLen := t.MaxEncodedLen(len(data))
		inScope := len(data) > 0 && dstLen >= maxLen
		if inScope {
			if int(o.written) > maxLen {
				trViolate(res, site, "output>MaxEncodedLen", fmt.Sprintf("written=%d max=%d", o.written, maxLen))
			}
			if int(o.read) != len(data) {
				trViolate(res, site, "short-read", fmt.Sprintf("read=%d len=%d with nil error", o.read, len(data)))
			}
		}
		// Inverse of the output into a destination of the original size (part of the canonical line)
		// and into a larger one (oracle only)
		isite := "transform.RLT.Inverse"
		line := ""
		for k, extra := range []int{0, 1 + len(data)/16, 70000} {
			ti, _ := transform.NewRLT()
			b := trCall(ti.Inverse, o.out, len(data)+extra)
			if k == 0 {
				var r2 Result
				line = rltInvLine(&r2, b, len(data))
				if r2.Violation != nil && inScope {
					res.Violation = r2.Violation
				}
			}
			if !inScope {
				break
			}
			switch {
			case b.panicMsg != "":
				trViolate(res, isite, "panic", b.panicMsg)
			case b.err != nil:
				trViolate(res, isite, "roundtrip-error", fmt.Sprintf("Inverse(Forward(x)) failed (dst=len+%d): %v", extra, b.err))
			case !bytes.Equal(b.out, data):
				trViolate(res, site, "roundtrip-mismatch", fmt.Sprintf("Inverse(Forward(x)) != x (dst=len+%d, got %d bytes, want %d)", extra, len(b.out), len(data)))
			case b.inputMod || b.canary:
				trViolate(res, isite, "buffer-integrity", "inverse modified its input or wrote past dst")
			}
		}
		return "ok " + rltOut(o.out) + " | inv " + line + ctxs
	case len(w) == 3 && w[0] == "ri":
		dstLen, ok1 := atoi(w[1])
		data, ok2 := rltDec(w[2])
		if !ok1 || !ok2 {
			return "bad-op"
		}
		res.Nontrivial = len(data) > 0
		res.Sample = map[string]any{"op": "ri", "len": len(data), "dst": dstLen, "prefix": op[:min(len(op), 80)]}
		t, _ := transform.NewRLT()
		o := trCall(t.Inverse, data, dstLen)
		line := rltInvLine(res, o, dstLen)
		res.Tags = append(res.Tags, "ri:"+strings.Fields(line)[0])
		return line
	}
	return "bad-op"
}

// ------------------------------------------------------------------------------------------
// generators

func rltRealForward(data []byte, fast bool) ([]byte, bool) {
	var t *transform.RLT
	if fast {
		ctx := map[string]any{"entropy": "NONE"}
		t, _ = transform.NewRLTWithCtx(&ctx)
	} else {
		t, _ = transform.NewRLT()
	}
	if len(data) == 0 {
		return nil, false
	}
	dst := make([]byte, t.MaxEncodedLen(len(data)))
	_, n, err := t.Forward(append([]byte{}, data...), dst)
	if err != nil {
		return nil, false
	}
	return dst[:n], true
}

// distinct neighbours, never 0xFB, never `avoid`
func rltLits(r *rand.Rand, n int, avoid byte) []byte {
	b := make([]byte, n)
	prev := -1
	for i := range b {
		for {
			c := byte(1 + r.Intn(250))
			if int(c) != prev && c != avoid && c != 0xFB {
				b[i] = c
				prev = int(c)
				break
			}
		}
	}
	return b
}

func rltSpecialRuns(thorough bool) (small, big []int) {
	for l := 1; l <= 13; l++ {
		small = append(small, l)
	}
	for _, c := range []int{224 + 3, 255, 256, (31 << 8) + 3, 1000} {
		for d := -3; d <= 3; d++ {
			small = append(small, c+d)
		}
	}
	cs := []int{0xFFFF, 0x10000 + 3, rltMaxRun4, rltMaxRun, 2 * rltMaxRun}
	w := 2
	if thorough {
		w = 6
		cs = append(cs, rltMaxRun+0xFFFF, 3*rltMaxRun)
	}
	for _, c := range cs {
		for d := -w; d <= w; d++ {
			big = append(big, c+d)
		}
	}
	return
}

func rltGen(r *rand.Rand, tier string, n int, emit func(op string, tags ...string)) {
	thorough := tier == "thorough"
	ctxVariants := [][3]string{{"0", "-", "-"}, {"1", "-", "-"}, {"1", "-", "NONE"}, {"1", "0", "-"}, {"1", "7", "-"}, {"1", "-", "CM"}, {"1", "1", "huffman"}}
	rf := func(cv [3]string, b []byte, dst int, fam string) {
		emit(fmt.Sprintf("rf %s %s %s %d %s", cv[0], cv[1], cv[2], dst, rltEnc(b)), "family:"+fam)
	}
	ri := func(b []byte, dst int, fam string) { emit(fmt.Sprintf("ri %d %s", dst, rltEnc(b)), "family:"+fam) }
	maxLen := func(n int) int {
		if n <= 512 {
			return n + 32
		}
		return n
	}
	plain, fast := ctxVariants[0], ctxVariants[2]
	// Inverse of the real Forward output: exact / larger / smaller destination, truncated, mutated
	riFrom := func(b []byte, useFast bool, fam string) {
		enc, ok := rltRealForward(b, useFast)
		if !ok {
			return
		}
		ri(enc, len(b), fam+"-exact")
		switch r.Intn(6) {
		case 0:
			ri(enc, len(b)+1+r.Intn(100), fam+"-larger")
		case 1:
			ri(enc, len(b)-1-r.Intn(min(len(b)-1, 8)), fam+"-smaller")
		case 2:
			m := append([]byte{}, enc...)
			m[r.Intn(len(m))] = []byte{0, 1, enc[0], 0xE0, 0xFF, byte(r.Intn(256))}[r.Intn(6)]
			ri(m, len(b)+r.Intn(2)*80000, fam+"-mutated")
		case 3:
			ri(enc[:1+r.Intn(len(enc))], len(b), fam+"-truncated")
		case 4:
			// cut inside the last token / append a dangling escape
			ri(append(append([]byte{}, enc...), enc[0]), len(b)+2, fam+"-dangling-escape")
		default:
			ri(enc[:len(enc)-1], len(b), fam+"-truncated1")
		}
	}

	// ---- 1. empty / tiny blocks (Forward declines below 16 bytes), every ctx variant
	for l := 0; l <= 17; l++ {
		for _, cv := range ctxVariants {
			b := bytes.Repeat([]byte{0x55}, l)
			rf(cv, b, maxLen(l), "tiny-equal")
			rf(cv, rltLits(r, l, 0), maxLen(l), "tiny-lits")
		}
		rf(plain, bytes.Repeat([]byte{7}, l), 0, "tiny-dst0")
	}
	// ---- 2. one run of every special length at every offset from the start / the end of the block
	small, big := rltSpecialRuns(thorough)
	oneRun := func(l int, pres, posts []int, fam string) {
		for _, pre := range pres {
			for _, post := range posts {
				for v := 0; v < 4; v++ {
					var c byte
					cv := plain
					switch v {
					case 0:
						c = 0x41 + byte(r.Intn(20)) // plain byte, escape = 0 (absent)
					case 1:
						c = 0 // the run byte is 0: the escape becomes the next absent symbol
					case 2:
						c, cv = 0xFB, fast // run of the (default) escape symbol
					default:
						c, cv = 0x30+byte(r.Intn(9)), fast // default escape, absent from the block
					}
					if pre+l+post < 16 && r.Intn(3) != 0 {
						// pad in front so that the block is accepted
						pre2 := 16 - l - post + r.Intn(3)
						b := append(append(rltLits(r, pre2, c), bytes.Repeat([]byte{c}, l)...), rltLits(r, post, c)...)
						rf(cv, b, maxLen(len(b)), fam)
						continue
					}
					b := append(append(rltLits(r, pre, c), bytes.Repeat([]byte{c}, l)...), rltLits(r, post, c)...)
					rf(cv, b, maxLen(len(b)), fam)
					if r.Intn(4) == 0 {
						riFrom(b, cv == fast, "ri-"+fam)
					}
				}
			}
		}
	}
	for _, l := range small {
		oneRun(l, []int{0, 1, 2, 3, 4, 5, 12}, []int{0, 1, 2, 3, 4, 5, 6, 7, 11}, "one-run-small")
	}
	for _, l := range big {
		if thorough {
			oneRun(l, []int{0, 1, 2, 3, 4}, []int{0, 1, 2, 3, 4, 5, 6, 9}, "one-run-big")
		} else {
			oneRun(l, []int{0, 1 + r.Intn(4)}, []int{0, 4, 5, 1 + r.Intn(8)}, "one-run-big")
		}
	}
	// ---- 3. several runs, structured and random blocks
	cnt := 1500
	nbig := 40
	if thorough {
		cnt, nbig = 12000, 400
	}
	if n > 0 {
		cnt = n
	}
	all := append(append([]int{}, small...), big...)
	for i := 0; i < cnt; i++ {
		sz := 16 + r.Intn(1<<uint(4+r.Intn(8)))
		if i < nbig {
			sz = 60000 + r.Intn(200000)
		}
		if i%7 == 0 {
			sz = []int{16, 17, 18, 19, 20, 21, 510, 511, 512, 513, 514}[r.Intn(11)]
		}
		var b []byte
		fam := ""
		cv := ctxVariants[r.Intn(len(ctxVariants))]
		switch i % 8 {
		case 0: // runs of special lengths separated by literals
			esc := byte(r.Intn(256))
			for len(b) < sz {
				if r.Intn(2) == 0 {
					l := all[r.Intn(len(all))]
					if l > sz && i >= nbig {
						l = 1 + r.Intn(40)
					}
					b = append(b, bytes.Repeat([]byte{[]byte{esc, 0, 0xFB, byte(r.Intn(256))}[r.Intn(4)]}, l)...)
				} else {
					b = append(b, gen.Random(r, 1+r.Intn(6))...)
				}
			}
			fam = "multi-run"
		case 1:
			b, fam = gen.Random(r, sz), "random"
		case 2:
			b, fam = gen.Runs(r, sz), "gen-runs"
		case 3: // default escape everywhere
			b = gen.Runs(r, sz)
			for k := range b {
				if r.Intn(5) == 0 {
					b[k] = 0xFB
				}
			}
			cv, fam = fast, "fb-heavy"
		case 4: // all 256 symbols present: the escape is a symbol of the block
			b = gen.Runs(r, max(sz, 300))
			perm := r.Perm(256)
			at := r.Intn(len(b) - 255)
			for k, p := range perm {
				b[at+k] = byte(p)
			}
			if r.Intn(2) == 0 {
				b[0], b[len(b)-1-r.Intn(6)] = byte(perm[0]), byte(perm[1])
			}
			fam = "all-256"
		case 5:
			b, fam = gen.Skewed(r, sz, 3, 2), "skewed"
		case 6: // short runs 1..6 of two symbols: exercises the 4-byte / 3-step scanning
			for len(b) < sz {
				b = append(b, bytes.Repeat([]byte{byte(r.Intn(3)) * 0x7D}, 1+r.Intn(6))...)
			}
			b = append(b, 9, 8, 7, 6, 5)
			cv, fam = ctxVariants[r.Intn(3)], "short-runs"
		default:
			b = bytes.Repeat([]byte{byte(r.Intn(256))}, sz)
			for k := 0; k < r.Intn(4); k++ {
				b[r.Intn(len(b))] ^= byte(1 + r.Intn(255))
			}
			fam = "one-symbol-noise"
		}
		dst := maxLen(len(b))
		switch r.Intn(14) {
		case 0:
			dst, fam = dst-1, fam+"/dst-1"
		case 1:
			dst, fam = dst+1+r.Intn(64), fam+"/dst+"
		case 2:
			dst, fam = []int{0, 1, 2, 3, len(b) / 2}[r.Intn(5)], fam+"/dst-small"
		}
		rf(cv, b, dst, fam)
		if i%3 == 0 {
			riFrom(b, cv[2] == "NONE", "ri-"+strings.Split(fam, "/")[0])
		}
	}
	// ---- 4. tight: blocks above 512 bytes (MaxEncodedLen = len) whose output ends within a few
	// bytes of len(dst): literals + one short run + k escape literals near the end / everywhere
	tcnt := 600
	if thorough {
		tcnt = 6000
	}
	for i := 0; i < tcnt; i++ {
		sz := 513 + r.Intn(300)
		b := rltLits(r, sz, 0)
		rl := 4 + r.Intn(6) // saves rl-3 bytes
		at := 1 + r.Intn(sz-rl-20)
		if i%5 == 0 {
			at = sz - rl - r.Intn(8) // the run ends in the last bytes
		}
		for k := 0; k < rl; k++ {
			b[at+k] = b[at]
		}
		k := rl - 3 - 1 - 2 + r.Intn(5) // header costs 1: total = sz + 1 - (rl-3) + k
		for ; k > 0; k-- {
			p := sz - 1 - r.Intn(9)
			if i%3 == 0 {
				p = r.Intn(sz)
			}
			if p < at || p >= at+rl {
				b[p] = 0xFB
			}
		}
		dst := sz + []int{0, 0, 0, 1, 2, 3}[r.Intn(6)]
		rf(fast, b, dst, "tight-end")
		if i%4 == 0 {
			// same block with the computed escape: the escape symbol is absent (0)
			rf(plain, b, dst, "tight-end-plain")
		}
	}
	// ---- 4b. the pending last byte does not fit: default escape, K isolated 0xFB literals, then a run
	// of R >= 7939 0xFB up to the end of the block, R = 2 mod 4 (the scan stops one byte before the
	// end), K = R-8: the six-byte run token ends at len(dst)-1 and the pending byte has no room.
	// Near misses in K and R around it.
	prs := []int{7942, 7946, 8002}
	if thorough {
		prs = append(prs, 7950, 9002, 20002, 70002, 73462, 73466)
	}
	for _, R0 := range prs {
		for dR := -1; dR <= 2; dR++ {
			for dK := -2; dK <= 2; dK++ {
				R, K := R0+dR, R0-8+dK
				b := make([]byte, 0, 2*K+R+8)
				for k := 0; k < K; k++ {
					b = append(b, 0xFB, byte(1+(k*7)%250))
				}
				b = append(b, bytes.Repeat([]byte{0xFB}, R)...)
				rf(fast, b, len(b), "pending-byte-no-room")
				if dR == 0 {
					rf(fast, b, len(b)+1+r.Intn(3), "pending-byte-no-room/dst+")
					rf(ctxVariants[r.Intn(2)], b, len(b), "pending-byte-no-room/computed-escape")
				}
			}
		}
	}
	// ---- 5. typed data and explicit dataType / entropy entries
	for i := 0; i < 60; i++ {
		sz := 16 + r.Intn(600)
		for _, d := range [][]byte{gen.DNA(r, sz), gen.Base64(r, sz), gen.Numeric(r, sz), gen.Text(r, sz), gen.SmallAlpha(r, sz, 3)} {
			rf(ctxVariants[r.Intn(2)], d, maxLen(len(d)), "typed-data")
		}
	}
	for dt := 0; dt <= 10; dt++ {
		for _, ent := range []string{"-", "NONE", "none", "Ans0", "HUFFMAN", "range", "FPAQ", "CM", "TPAQ", "x"} {
			b := append(bytes.Repeat([]byte{0xFB}, 9+r.Intn(5)), gen.Runs(r, 40+r.Intn(40))...)
			emit(fmt.Sprintf("rf 1 %d %s %d %s", dt, ent, maxLen(len(b)), rltEnc(b)), "family:ctx-entries")
		}
	}
	// ---- 6. arbitrary inverse inputs
	alpha := []byte{7, 0, 1, 0xDF, 0xE0, 0xFE, 0xFF}
	depth := 4
	if thorough {
		depth = 5
	}
	var rec func(b []byte)
	rec = func(b []byte) {
		if len(b) > 0 {
			full := append([]byte{7}, b...) // escape = 7
			for _, d := range []int{1, 2, 3, 4, 5, 300, 80000} {
				ri(full, d, "ri-exhaustive")
			}
		}
		if len(b) == depth {
			return
		}
		for _, c := range alpha {
			rec(append(b, c))
		}
	}
	rec(nil)
	ri([]byte{7}, 10, "ri-one-byte")
	ri([]byte{}, 10, "ri-empty")
	ri([]byte{7, 8, 9}, 0, "ri-dst0")
	icnt := 1500
	if thorough {
		icnt = 15000
	}
	for i := 0; i < icnt; i++ {
		sz := 2 + r.Intn(40)
		b := make([]byte, sz)
		e := byte(r.Intn(256))
		b[0] = e
		for k := 1; k < sz; k++ {
			switch r.Intn(8) {
			case 0, 1:
				b[k] = e
			case 2:
				b[k] = []byte{0, 0xFF, 0xE0, 0xE1, 0xFE, 1, 2}[r.Intn(7)]
			default:
				b[k] = byte(r.Intn(256))
			}
		}
		ri(b, []int{1, 2, sz, 3 * sz, 300, 8000, 80000, 200000}[r.Intn(8)], "ri-arbitrary")
	}
	// forged maximal runs: escape, literal, escape, 0xFF hi lo ... with destinations around the run
	for _, hl := range [][2]byte{{0xFF, 0xFF}, {0xFF, 0xFE}, {0, 0}, {0x80, 0}} {
		run := (int(hl[0])<<8 | int(hl[1])) + (31 << 8) + 2
		for d := -2; d <= 2; d++ {
			ri([]byte{9, 5, 9, 0xFF, hl[0], hl[1]}, 1+run+d, "ri-forged-long-run")
			ri([]byte{9, 5, 9, 0xFF, hl[0], hl[1], 6}, 2+run+d, "ri-forged-long-run")
			ri([]byte{9, 9, 0, 9, 0xFF, hl[0], hl[1]}, 1+run+d, "ri-forged-long-run")
		}
	}
	for _, b := range [][]byte{{9, 9}, {9, 9, 0}, {9, 9, 1}, {9, 9, 0xFF}, {9, 9, 0, 9}, {9, 9, 0, 9, 0}, {9, 5, 9}, {9, 5, 9, 0xFF}, {9, 5, 9, 0xFF, 1}, {9, 5, 9, 0xE0}, {9, 5, 9, 0xE0, 0}, {9, 9, 9, 9}} {
		for _, d := range []int{1, 2, 3, 4, 10, 300} {
			ri(b, d, "ri-directed")
		}
	}
}
