/-
ROLZ (`rolzCodec1`): the chunk loop and the whole block (`rolz_roundtrip`).
-/
import Kanzi.Proofs.Rolz1Chunk

namespace Kanzi.ROLZ
open Kanzi.Bits

theorem chunks1_sim {a Sarr : Array Nat} {sz0E zD dstLen srcEnd mm delta lpc litOrder : Nat}
    (hpar : ParamsOk mm delta) (hmm : 3 ≤ mm ∧ mm ≤ 7) (hlpc : lpc ≤ 8) (ha : ∀ k, a.getD k 0 < 256)
    (hea : srcEnd + 4 ≤ a.size) (hz : sz0E ≤ zD) (hz64 : 64 ≤ zD) (hzmax : zD ≤ 2 ^ 24) :
    ∀ (f st szE : Nat) (tab : Tab) (out : Array Nat) (r : Nat × Nat × Tab × Array Nat),
    fwd1Chunks a (capsOf sz0E) dstLen srcEnd mm delta lpc litOrder f st szE tab out = .ok r → Pre r.2.2.2 Sarr →
    (8 ≤ szE ∨ st + szE ≥ srcEnd) → szE ≤ sz0E → 0 < szE → st ≤ srcEnd → tab.counters.size = HASH_SIZE →
    ∀ (fD szD dI : Nat) (sd : Side) (tabD : Tab) (dst : Array Nat),
    (szE = szD ∨ (st + szE ≥ srcEnd ∧ st + szD ≥ srcEnd)) → 0 < szD → (srcEnd - st) + szD ≤ fD * szD →
    SdSize sd zD → TabOk tabD lpc → (∀ k, k < st → dst.getD k 0 = a.getD k 0) → srcEnd ≤ dst.size →
    (st < srcEnd ∨ dI = szD) →
    ∃ rD, inv1Chunks Sarr srcEnd mm delta lpc litOrder 8 false fD st szD dI out.size sd tabD dst = .ok rD ∧
      rD.1 = rD.2.2.1 ∧ rD.2.1 = srcEnd ∧ rD.2.2.2.1 = r.2.2.2.size ∧ rD.2.2.2.2.size = dst.size ∧
      (∀ k, k < srcEnd → rD.2.2.2.2.getD k 0 = a.getD k 0) ∧ r.1 = srcEnd := by
  intro f
  induction f with
  | zero => intro st szE tab out r h; simp [fwd1Chunks] at h
  | succ f ih =>
    intro st szE tab out r h hS h8 hszle hE0 hst hcnt fD szD dI sd tabD dst hsz hD0 hfuel hsd htab hag hdst hpos
    have hfD : 0 < fD := by
      rcases Nat.eq_zero_or_pos fD with h0 | h0
      · rw [h0, Nat.zero_mul] at hfuel; omega
      · exact h0
    obtain ⟨g, rfl⟩ : ∃ g, fD = g + 1 := ⟨fD - 1, by omega⟩
    have hsm : (g + 1) * szD = g * szD + szD := by rw [Nat.add_mul, Nat.one_mul]
    simp only [fwd1Chunks] at h
    split at h
    · rename_i hlt
      generalize hedef : (if st + szE ≥ srcEnd then srcEnd else st + szE) = e at h
      have hest : st < e ∧ e ≤ srcEnd ∧ e - st ≤ szE ∧ (e = srcEnd ∨ (e = st + szE ∧ szE = szD)) ∧
          (8 ≤ e - st ∨ e = srcEnd) := by
        rw [← hedef]
        by_cases hc : st + szE ≥ srcEnd
        · rw [if_pos hc]; exact ⟨hlt, Nat.le_refl _, by omega, Or.inl rfl, Or.inr rfl⟩
        · rw [if_neg hc]
          refine ⟨by omega, by omega, by omega, Or.inr ⟨rfl, ?_⟩, Or.inl (by omega)⟩
          rcases hsz with hsz | ⟨h1, _⟩
          · exact hsz
          · omega
      obtain ⟨he1, he2, he3, he4, he8⟩ := hest
      have hszD : (if st + szD > srcEnd then srcEnd else st + szD) = e := by
        rcases he4 with he4 | ⟨he4, he5⟩
        · rcases hsz with hsz | ⟨h1, h2⟩
          · subst hsz
            have : st + szE ≥ srcEnd := by
              by_cases hc : st + szE ≥ srcEnd
              · exact hc
              · rw [if_neg hc] at hedef; omega
            by_cases hc2 : st + szE > srcEnd
            · rw [if_pos hc2, he4]
            · rw [if_neg hc2, he4]; omega
          · by_cases hc2 : st + szD > srcEnd
            · rw [if_pos hc2, he4]
            · rw [if_neg hc2, he4]; omega
        · subst he5
          rw [if_neg (by omega), he4]
      split at h
      · cases h
      · rename_i lit0 hlit0
        split at h
        · rename_i lfin hloop
          split at h
          · rename_i sfin htail
            split at h
            · cases h
            · rename_i bits hbits
              split at h
              · cases h
              · -- the rest of the output is a prefix of the final one
                have hpre := pre_trans (fwd1Chunks_pre _ _ _ _ _ _ h) hS
                have hsrc := extract_of_pre hpre
                have hstab : sfin.tab.counters.size = HASH_SIZE := by
                  -- counters keep their size
                  have hcap : CapOk (capsOf sz0E) st e := capsOf_ok (by omega)
                  have hn8 : min (srcEnd - st) 8 = min (e - st) 8 := by rcases he8 with h | h <;> omega
                  obtain ⟨elit0, _⟩ := pushLits_eq hlit0
                  have hlit0sz : lit0.size = min (e - st) 8 := by
                    rw [elit0, Array.size_append, Array.size_extract, hn8]; simp only [Array.size_empty]; omega
                  have hl0 : LInv ⟨st + min (srcEnd - st) 8, st + min (srcEnd - st) 8, 0,
                      ⟨⟨matches0 lpc, tab.counters⟩, lit0, #[], #[], #[]⟩⟩ (capsOf sz0E) lpc st e := by
                    refine ⟨⟨⟨tabOk_clear _ _ hcnt, fun k => ?_⟩, by simp only; omega, by simp, Or.inl (by simp)⟩,
                      by simp only; omega, Nat.le_refl _, by simp only; omega⟩
                    simp only [matches0, Array.getD_eq_getD_getElem?, Array.getElem?_replicate]
                    split <;> simp
                  obtain ⟨_, hlfin, _⟩ := fwd1Loop_grow hpar hmm hcap (by omega) _ _ _ hloop (by simp only; omega) hl0
                  rw [(fwd1Tail_spec htail hlfin.fl).1]
                  exact hlfin.b.tab.ok.cnt
                obtain ⟨sd1, tab1, dst1, hstep, hsd1, htab1, hsz1, hag1⟩ := chunk1_step (Sarr := Sarr) (zD := zD) (szD := szD)
                  (dI := dI) (fD := g) hpar hmm hlpc ha he1 he2 (by omega) hea he8 hszD (by omega) hz hz64 hzmax hcnt hlit0 hloop
                  htail hbits hsrc hsd htab hag hdst
                have hfuel' : (srcEnd - e) + (e - st) ≤ g * (e - st) := by
                  rcases he4 with he4 | ⟨he4, he5⟩
                  · have hg1 : 0 < g := by
                      rcases Nat.eq_zero_or_pos g with h0 | h0
                      · have h1 : (g + 1) * szD = szD := by rw [h0, Nat.zero_add, Nat.one_mul]
                        omega
                      · exact h0
                    have := Nat.le_mul_of_pos_left (e - st) hg1
                    omega
                  · have e1 : e - st = szD := by omega
                    rw [e1]; omega
                obtain ⟨rD, hrD, q1, q2, q3, q4, q5, q6⟩ := ih e (e - st) sfin.tab _ r h hS (by omega) (by omega) (by omega) he2
                  hstab g (e - st) (e - st) sd1 tab1 dst1 (Or.inl rfl) (by omega) hfuel' hsd1 htab1 hag1
                  (by rw [hsz1]; exact hdst) (Or.inr rfl)
                refine ⟨rD, ?_, q1, q2, q3, by rw [q4, hsz1], q5, q6⟩
                rw [hstep]
                rw [Array.size_append] at hrD
                exact hrD
          · cases h
          · cases h
        · cases h
        · cases h
    · rename_i hge
      injection h with h
      subst h
      simp only [inv1Chunks]
      rw [if_neg hge]
      rcases hpos with hp | hp
      · omega
      · refine ⟨(dI, st, szD, out.size, dst), rfl, ?_, ?_, rfl, rfl, fun k hk => hag k (by omega), ?_⟩
        · show dI = szD; exact hp
        · show st = srcEnd; omega
        · show st = srcEnd; omega

/-! ## the whole block -/

/-- the flags byte written by Forward gives Inverse (bitstream version 4 or later) the same parameters -/
theorem flags_spec (lo ty lpc : Nat) (hlo : lo ≤ 1) (hlpc : 2 ≤ lpc ∧ lpc ≤ 8) :
    ((lo ||| (fwdParams1 ty).2.2 ||| (lpc <<< 4)) % 256) >>> 4 = lpc ∧
    ((lo ||| (fwdParams1 ty).2.2 ||| (lpc <<< 4)) % 256) % 2 = lo ∧
    ParamsOk (fwdParams1 ty).1 (fwdParams1 ty).2.1 ∧ 3 ≤ (fwdParams1 ty).1 ∧ (fwdParams1 ty).1 ≤ 7 ∧
    ∀ v, 4 ≤ v → invParams1 v ((lo ||| (fwdParams1 ty).2.2 ||| (lpc <<< 4)) % 256)
      = ((fwdParams1 ty).1, (fwdParams1 ty).2.1, 8) := by
  have hl : lo = 0 ∨ lo = 1 := by omega
  have hp : lpc = 2 ∨ lpc = 3 ∨ lpc = 4 ∨ lpc = 5 ∨ lpc = 6 ∨ lpc = 7 ∨ lpc = 8 := by omega
  unfold fwdParams1
  split
  · refine ⟨?_, ?_, Or.inl ⟨rfl, Or.inr rfl⟩, by decide, by decide, fun v hv => ?_⟩
    · rcases hl with rfl | rfl <;> rcases hp with rfl | rfl | rfl | rfl | rfl | rfl | rfl <;> rfl
    · rcases hl with rfl | rfl <;> rcases hp with rfl | rfl | rfl | rfl | rfl | rfl | rfl <;> rfl
    · unfold invParams1
      rw [if_pos hv]
      rcases hl with rfl | rfl <;> rcases hp with rfl | rfl | rfl | rfl | rfl | rfl | rfl <;> rfl
  · split
    · refine ⟨?_, ?_, Or.inr ⟨by decide, rfl⟩, by decide, by decide, fun v hv => ?_⟩
      · rcases hl with rfl | rfl <;> rcases hp with rfl | rfl | rfl | rfl | rfl | rfl | rfl <;> rfl
      · rcases hl with rfl | rfl <;> rcases hp with rfl | rfl | rfl | rfl | rfl | rfl | rfl <;> rfl
      · unfold invParams1
        rw [if_pos hv]
        rcases hl with rfl | rfl <;> rcases hp with rfl | rfl | rfl | rfl | rfl | rfl | rfl <;> rfl
    · split
      · refine ⟨?_, ?_, Or.inr ⟨by decide, rfl⟩, by decide, by decide, fun v hv => ?_⟩
        · rcases hl with rfl | rfl <;> rcases hp with rfl | rfl | rfl | rfl | rfl | rfl | rfl <;> rfl
        · rcases hl with rfl | rfl <;> rcases hp with rfl | rfl | rfl | rfl | rfl | rfl | rfl <;> rfl
        · unfold invParams1
          rw [if_pos hv]
          rcases hl with rfl | rfl <;> rcases hp with rfl | rfl | rfl | rfl | rfl | rfl | rfl <;> rfl
      · refine ⟨?_, ?_, Or.inl ⟨rfl, Or.inl rfl⟩, by decide, by decide, fun v hv => ?_⟩
        · rcases hl with rfl | rfl <;> rcases hp with rfl | rfl | rfl | rfl | rfl | rfl | rfl <;> rfl
        · rcases hl with rfl | rfl <;> rcases hp with rfl | rfl | rfl | rfl | rfl | rfl | rfl <;> rfl
        · unfold invParams1
          rw [if_pos hv]
          rcases hl with rfl | rfl <;> rcases hp with rfl | rfl | rfl | rfl | rfl | rfl | rfl <;> rfl

theorem getD_push4 (out : Array Nat) (b0 b1 b2 b3 k : Nat) :
    ((((out.push b0).push b1).push b2).push b3).getD k 0 =
      if k < out.size then out.getD k 0 else if k = out.size then b0 else if k = out.size + 1 then b1
      else if k = out.size + 2 then b2 else if k = out.size + 3 then b3 else 0 := by
  rw [getD_push, getD_push, getD_push, getD_push]
  simp only [Array.size_push]
  repeat' split
  all_goals first | rfl | omega

/-- **ROLZ round trip.**  If Forward accepts the block, Inverse (codec of the same `logPosChecks`, bitstream
    version 4 or later) of its output into any destination of at least the original size restores the block. -/
theorem rolz_roundtrip {cs lpc : Nat} {hasCtx : Bool} {dt : Nat} {src t : List Nat} {dstLen : Nat} (hasBsv : Bool)
    (bsv : Nat) (dst0 : Array Nat) (hcs : 64 ≤ cs ∧ cs ≤ 2 ^ 24) (hlpc : 2 ≤ lpc ∧ lpc ≤ 8) (hb : ∀ x ∈ src, x < 256)
    (hbsv : hasBsv = true → 4 ≤ bsv) (hdst : maxEncodedLen1 src.length ≤ dstLen) (hd : src.length ≤ dst0.size)
    (h : rolzForward cs lpc hasCtx dt src dstLen = .ok t) :
    ∃ dst, rolzInverse cs lpc hasBsv bsv t dst0 = .ok (src.length, dst) ∧ dst.size = dst0.size ∧
      ∀ k, k < src.length → dst.getD k 0 = src.getD k 0 := by
  unfold rolzForward at h
  by_cases h0 : src.length = 0 ∨ dstLen = 0
  · rw [if_pos h0] at h
    injection h with h
    subst h
    have hn : src.length = 0 := by
      rcases h0 with h0 | h0
      · exact h0
      · unfold maxEncodedLen1 at hdst; split at hdst <;> omega
    refine ⟨dst0, ?_, rfl, fun k hk => by omega⟩
    unfold rolzInverse
    rw [if_pos (Or.inl List.length_nil), hn]
  · rw [if_neg h0] at h
    split at h
    · cases h
    · rename_i hmin
      split at h
      · cases h
      · rename_i hmax
        split at h
        · cases h
        · dsimp only at h
          have hn : src.toArray.size = src.length := List.size_toArray
          rw [hn] at h
          have hn64 : 64 ≤ src.length := by unfold MIN_BLOCK_SIZE at hmin; omega
          have hnmax : src.length ≤ 1073741824 := by unfold MAX_BLOCK_SIZE at hmax; omega
          have hlo : (if src.length < 2 ^ 17 then 0 else 1) ≤ 1 := by split <;> omega
          obtain ⟨hf1, hf2, hpar, hmm3, hmm7, hinv⟩ := flags_spec (if src.length < 2 ^ 17 then 0 else 1)
            (effType hasCtx dt src) lpc hlo hlpc
          generalize hprm : fwdParams1 (effType hasCtx dt src) = prm at h hf1 hf2 hpar hmm3 hmm7 hinv
          generalize hlodef : (if src.length < 2 ^ 17 then 0 else 1) = lo at h hf1 hf2 hinv hlo
          have ha : ∀ k, src.toArray.getD k 0 < 256 := by
            intro k
            rw [toArray_getD]
            by_cases hk : k < src.length
            · rw [List.getD_eq_getElem?_getD, List.getElem?_eq_getElem hk]
              exact hb _ (List.getElem_mem hk)
            · rw [List.getD_eq_getElem?_getD, List.getElem?_eq_none (by omega)]
              decide
          split at h
          · rename_i startChunk szf tabf out hch
            have hstart : startChunk = src.length - 4 := by
              have hm : 0 < min src.length cs := by omega
              have hfuel : (src.length - 4 - 0) + min src.length cs ≤ (src.length / min src.length cs + 2) * min src.length cs := by
                have h1 := Nat.div_add_mod src.length (min src.length cs)
                have h2 := Nat.mod_lt src.length hm
                rw [Nat.add_mul, Nat.mul_comm (src.length / min src.length cs)]
                omega
              rcases fwd1Chunks_nf (a := src.toArray) (sz0 := min src.length cs) (dstLen := dstLen) (srcEnd := src.length - 4)
                  (lpc := lpc) (litOrder := lo) hpar ⟨hmm3, hmm7⟩ (by rw [hn]; omega) _ 0 (min src.length cs)
                  ⟨matches0 lpc, Array.replicate HASH_SIZE 0⟩
                  #[(src.length >>> 24) % 256, (src.length >>> 16) % 256, (src.length >>> 8) % 256, src.length % 256,
                    (lo ||| prm.2.2 ||| (lpc <<< 4)) % 256] hm
                  (Or.inl (by omega)) (Nat.le_refl _) (by omega) hfuel (Array.size_replicate ..) with ⟨e, he⟩ | ⟨r, hr, hr1⟩
              · rw [he] at hch; cases hch
              · rw [hr] at hch
                injection hch with hch
                rw [hch] at hr1
                exact hr1
            subst hstart
            split at h
            · cases h
            · rename_i hroom
              rw [rd1_eq (by omega), rd1_eq (by omega), rd1_eq (by omega), rd1_eq (by omega)] at h
              simp only at h
              split at h
              · cases h
              · split at h
                · cases h
                · rename_i hpos hlen
                  injection h with h
                  subst h
                  have hcap5 : (#[(src.length >>> 24) % 256, (src.length >>> 16) % 256, (src.length >>> 8) % 256,
                      src.length % 256, (lo ||| prm.2.2 ||| (lpc <<< 4)) % 256] : Array Nat).size = 5 := rfl
                  have hpre0 := fwd1Chunks_pre _ _ _ _ _ _ hch
                  simp only at hpre0
                  have hout5 := hpre0.1
                  rw [hcap5] at hout5
                  -- the output as the decoder sees it
                  generalize hOUT : (((out.push (src.toArray.getD (src.length - 4) 0)).push
                    (src.toArray.getD (src.length - 4 + 1) 0)).push (src.toArray.getD (src.length - 4 + 2) 0)).push
                    (src.toArray.getD (src.length - 4 + 3) 0) = OUT at hlen ⊢
                  have hOsz : OUT.size = out.size + 4 := by rw [← hOUT]; simp
                  have hOget : ∀ k, OUT.getD k 0 = if k < out.size then out.getD k 0
                      else if k = out.size then src.toArray.getD (src.length - 4) 0
                      else if k = out.size + 1 then src.toArray.getD (src.length - 4 + 1) 0
                      else if k = out.size + 2 then src.toArray.getD (src.length - 4 + 2) 0
                      else if k = out.size + 3 then src.toArray.getD (src.length - 4 + 3) 0 else 0 := by
                    intro k; rw [← hOUT]; exact getD_push4 _ _ _ _ _ _
                  have hS : Pre out OUT := ⟨by omega, fun k hk => by rw [hOget k, if_pos hk]⟩
                  have hhdr : ∀ k, k < 5 → OUT.getD k 0 = (#[(src.length >>> 24) % 256, (src.length >>> 16) % 256,
                      (src.length >>> 8) % 256, src.length % 256, (lo ||| prm.2.2 ||| (lpc <<< 4)) % 256] : Array Nat).getD k 0 := by
                    intro k hk
                    rw [hS.2 k (by omega), hpre0.2 k (by rw [hcap5]; exact hk)]
                  have q0 := hhdr 0 (by omega)
                  have q1 := hhdr 1 (by omega)
                  have q2 := hhdr 2 (by omega)
                  have q3 := hhdr 3 (by omega)
                  have q4 := hhdr 4 (by omega)
                  have hv0 : (#[(src.length >>> 24) % 256, (src.length >>> 16) % 256, (src.length >>> 8) % 256,
                      src.length % 256, (lo ||| prm.2.2 ||| (lpc <<< 4)) % 256] : Array Nat).getD 0 0
                      = (src.length >>> 24) % 256 := rfl
                  have hv1 : (#[(src.length >>> 24) % 256, (src.length >>> 16) % 256, (src.length >>> 8) % 256,
                      src.length % 256, (lo ||| prm.2.2 ||| (lpc <<< 4)) % 256] : Array Nat).getD 1 0
                      = (src.length >>> 16) % 256 := rfl
                  have hv2 : (#[(src.length >>> 24) % 256, (src.length >>> 16) % 256, (src.length >>> 8) % 256,
                      src.length % 256, (lo ||| prm.2.2 ||| (lpc <<< 4)) % 256] : Array Nat).getD 2 0
                      = (src.length >>> 8) % 256 := rfl
                  have hv3 : (#[(src.length >>> 24) % 256, (src.length >>> 16) % 256, (src.length >>> 8) % 256,
                      src.length % 256, (lo ||| prm.2.2 ||| (lpc <<< 4)) % 256] : Array Nat).getD 3 0
                      = src.length % 256 := rfl
                  have hv4 : (#[(src.length >>> 24) % 256, (src.length >>> 16) % 256, (src.length >>> 8) % 256,
                      src.length % 256, (lo ||| prm.2.2 ||| (lpc <<< 4)) % 256] : Array Nat).getD 4 0
                      = (lo ||| prm.2.2 ||| (lpc <<< 4)) % 256 := rfl
                  rw [hv0] at q0
                  rw [hv1] at q1
                  rw [hv2] at q2
                  rw [hv3] at q3
                  rw [hv4] at q4
                  simp only [Nat.shiftRight_eq_div_pow] at q0 q1 q2 q3
                  have hlenS : OUT.toList.length = OUT.size := Array.length_toList
                  have hde : beN OUT.toList.toArray 0 4 = src.length := by
                    rw [beN4]
                    simp only [Nat.zero_add, toList_getD]
                    rw [q0, q1, q2, q3]
                    omega
                  have hfl : OUT.toList.toArray.getD 4 0 = (lo ||| prm.2.2 ||| (lpc <<< 4)) % 256 := by
                    rw [toArray_getD, toList_getD, q4]
                  have hv4' : 4 ≤ (if hasBsv = true then bsv else 6) := by
                    split
                    · rename_i hb'; exact hbsv hb'
                    · omega
                  have hold : decide (hasBsv = true ∧ bsv < 4) = false := by
                    rw [decide_eq_false_iff_not]
                    intro hc
                    have := hbsv hc.1
                    omega
                  -- the chunk loop
                  have hzD : 64 ≤ min dst0.size cs ∧ min dst0.size cs ≤ 2 ^ 24 ∧ min src.length cs ≤ min dst0.size cs := by
                    omega
                  have hfuelD : (src.length - 4 - 0) + min dst0.size cs ≤ (src.length - 4) / min dst0.size cs * min dst0.size cs
                      + 2 * min dst0.size cs := by
                    have hm : 0 < min dst0.size cs := by omega
                    have h1 := Nat.div_add_mod (src.length - 4) (min dst0.size cs)
                    have h2 := Nat.mod_lt (src.length - 4) hm
                    rw [Nat.mul_comm] at h1
                    omega
                  obtain ⟨rD, hdc, c1, c2, c3, c4, c5, _⟩ := chunks1_sim (Sarr := OUT.toList.toArray) (zD := min dst0.size cs)
                    hpar ⟨hmm3, hmm7⟩ hlpc.2 ha (by rw [hn]; omega) hzD.2.2 hzD.1 hzD.2.1 _ 0 (min src.length cs) _ _ _ hch
                    (by simp only; rw [Array.toArray_toList]; exact hS) (Or.inl (by omega)) (Nat.le_refl _) (by omega) (by omega)
                    (Array.size_replicate ..) ((src.length - 4) / min dst0.size cs + 2) (min dst0.size cs) 0
                    ⟨Array.replicate (min dst0.size cs) 0, Array.replicate (min dst0.size cs / 5) 0,
                      Array.replicate (min dst0.size cs / 4) 0, Array.replicate (min dst0.size cs / 4) 0⟩
                    ⟨Array.replicate (HASH_SIZE * 2 ^ lpc) 0, Array.replicate HASH_SIZE 0⟩ dst0
                    (by
                      by_cases hc : src.length ≤ cs
                      · right; constructor <;> omega
                      · left; omega)
                    (by omega) (by rw [Nat.add_mul]; exact hfuelD)
                    ⟨Array.size_replicate .., Array.size_replicate .., Array.size_replicate .., Array.size_replicate ..⟩
                    ⟨Array.size_replicate .., Array.size_replicate ..⟩ (fun k hk => by omega) (by omega) (Or.inl (by omega))
                  simp only at c3
                  rw [hcap5] at hdc
                  obtain ⟨rd1, rd2, rd3, rd4, rd5⟩ := rD
                  simp only at c1 c2 c3 c4 c5 hdc
                  subst c1; subst c2; subst c3
                  have hb4 : ∀ j, j < 4 → OUT.toList.toArray.getD (out.size + j) 0 = src.toArray.getD (src.length - 4 + j) 0 := by
                    intro j hj
                    rw [toArray_getD, toList_getD, hOget, if_neg (by omega)]
                    have : j = 0 ∨ j = 1 ∨ j = 2 ∨ j = 3 := by omega
                    rcases this with rfl | rfl | rfl | rfl
                    · rw [if_pos (by omega)]; rfl
                    · rw [if_neg (by omega), if_pos (by omega)]
                    · rw [if_neg (by omega), if_neg (by omega), if_pos (by omega)]
                    · rw [if_neg (by omega), if_neg (by omega), if_neg (by omega), if_pos (by omega)]
                  refine ⟨(((rd5.setIfInBounds (src.length - 4) (OUT.toList.toArray.getD out.size 0)).setIfInBounds
                    (src.length - 4 + 1) (OUT.toList.toArray.getD (out.size + 1) 0)).setIfInBounds (src.length - 4 + 2)
                    (OUT.toList.toArray.getD (out.size + 2) 0)).setIfInBounds (src.length - 4 + 3)
                    (OUT.toList.toArray.getD (out.size + 3) 0), ?_, ?_, ?_⟩
                  · unfold rolzInverse
                    rw [if_neg (by rw [hlenS]; omega), if_neg (by rw [hlenS]; omega),
                      if_neg (by rw [hlenS]; unfold MAX_BLOCK_SIZE; omega)]
                    dsimp only
                    rw [hde, if_neg (by omega), hfl, hf1, if_neg (by omega), hf2, hinv _ hv4', hold]
                    simp only
                    rw [show src.length - 4 = src.length - 4 from rfl, hdc]
                    simp only
                    rw [if_neg (by simp only [List.size_toArray, hlenS]; omega)]
                    have hi : rd1 + (src.length - 4) - rd1 = src.length - 4 := by omega
                    rw [hi]
                    have : src.length - 4 + 4 = src.length := by omega
                    rw [this]
                  · simp only [Array.size_setIfInBounds]; exact c4
                  · intro k hk
                    simp only [getD_setIfInBounds, Array.size_setIfInBounds]
                    have hbb := hb4
                    by_cases h3 : k = src.length - 4 + 3
                    · rw [if_pos ⟨h3, by omega⟩, show out.size + 3 = out.size + 3 from rfl, hbb 3 (by omega), h3, toArray_getD]
                    · rw [if_neg (fun hc => h3 hc.1)]
                      by_cases h2 : k = src.length - 4 + 2
                      · rw [if_pos ⟨h2, by omega⟩, hbb 2 (by omega), h2, toArray_getD]
                      · rw [if_neg (fun hc => h2 hc.1)]
                        by_cases h1 : k = src.length - 4 + 1
                        · rw [if_pos ⟨h1, by omega⟩, hbb 1 (by omega), h1, toArray_getD]
                        · rw [if_neg (fun hc => h1 hc.1)]
                          by_cases h0' : k = src.length - 4
                          · rw [if_pos ⟨h0', by omega⟩]
                            have := hbb 0 (by omega)
                            rw [Nat.add_zero, Nat.add_zero] at this
                            rw [this, h0', toArray_getD]
                          · rw [if_neg (fun hc => h0' hc.1), c5 k (by omega), toArray_getD]
          · cases h
          · cases h

/-- a successful Forward output is shorter than the block -/
theorem rolzForward_len {cs lpc : Nat} {hasCtx : Bool} {dt : Nat} {src t : List Nat} {dstLen : Nat}
    (h : rolzForward cs lpc hasCtx dt src dstLen = .ok t) : t = [] ∨ t.length < src.length := by
  unfold rolzForward at h
  split at h
  · injection h with h; exact Or.inl h.symm
  · split at h
    · cases h
    · split at h
      · cases h
      · split at h
        · cases h
        · dsimp only at h
          split at h
          · split at h
            · cases h
            · split at h
              · split at h
                · cases h
                · split at h
                  · cases h
                  · rename_i hlen
                    injection h with h
                    subst h
                    right
                    rw [Array.length_toList]
                    have : src.toArray.size = src.length := List.size_toArray
                    omega
              · cases h
          · cases h
          · cases h

end Kanzi.ROLZ
