/-
Proofs for the Huffman codec, part 4c: the register machine of `decodeChunkV6` equals the plain
table walk `specDec` on the bits of the buffer.
-/
import Kanzi.Model.Huffman
import Kanzi.Proofs.HufDec

namespace Kanzi.Huffman
open Kanzi.Bits Kanzi.EntSmall

/-! ### the plain walk -/

/-- number of bits consumed by the first `n` look-ups of `specDec` -/
def specLen (tbl : List Nat) : Nat → Bits → Nat
  | 0, _ => 0
  | n + 1, sb =>
    tbl.getD (peek 12 sb) 0 % 256 + specLen tbl n (sb.drop (tbl.getD (peek 12 sb) 0 % 256))

theorem specDec_add (tbl : List Nat) : ∀ (a b : Nat) (sb : Bits),
    specDec tbl (a + b) sb = specDec tbl a sb ++ specDec tbl b (sb.drop (specLen tbl a sb)) := by
  intro a
  induction a with
  | zero => intro b sb; simp [specDec, specLen]
  | succ a ih =>
    intro b sb
    rw [show a + 1 + b = (a + b) + 1 by omega]
    simp only [specDec, specLen, List.cons_append]
    rw [ih, List.drop_drop]

theorem specLen_add (tbl : List Nat) : ∀ (a b : Nat) (sb : Bits),
    specLen tbl (a + b) sb = specLen tbl a sb + specLen tbl b (sb.drop (specLen tbl a sb)) := by
  intro a
  induction a with
  | zero => intro b sb; simp [specLen]
  | succ a ih =>
    intro b sb
    rw [show a + 1 + b = (a + b) + 1 by omega]
    simp only [specLen]
    rw [ih, List.drop_drop, Nat.add_assoc]

/-- every entry an index can reach carries a length in 1..12 -/
def TblOk (tbl : List Nat) : Prop := ∀ w, w < 4096 → 1 ≤ tbl.getD w 0 % 256 ∧ tbl.getD w 0 % 256 ≤ 12

/-- the final `bs` of `k` look-ups (`uint8` arithmetic) -/
def walkBs (tbl : Array Nat) (state : Nat) : Nat → Nat → Nat
  | 0, bs => bs
  | k + 1, bs => walkBs tbl state k (subBs bs (look tbl state bs))

theorem decGroup_eq (tbl buf : Array Nat) (d : DS) :
    decGroup tbl buf d =
      (decSingles tbl (readState buf d).1.state 4 (readState buf d).2,
       ⟨(readState buf d).1.state, (readState buf d).1.idx,
        (walkBs tbl (readState buf d).1.state 4 (readState buf d).2 + 12) % 256⟩) := rfl

/-! ### `readState` -/

theorem rsShift_eq : ∀ b, b ≤ 56 → rsShift b = (56 - b) / 8 * 8 := by decide

structure DInv (B : Bits) (d : DS) (pos : Nat) : Prop where
  idx : 8 * d.idx = pos + d.bits
  le : d.bits ≤ 56
  st : d.state % 2 ^ d.bits = peekAt B pos d.bits

theorem readState_spec (buf : Array Nat) (hb : ∀ b ∈ buf.toList, b < 256) (d : DS) (pos : Nat)
    (h : DInv (ofBytes buf.toList) d pos) :
    49 ≤ d.bits + rsShift d.bits ∧ d.bits + rsShift d.bits ≤ 56 ∧
    8 * (readState buf d).1.idx = pos + (d.bits + rsShift d.bits) ∧
    (readState buf d).1.state % 2 ^ (d.bits + rsShift d.bits)
      = peekAt (ofBytes buf.toList) pos (d.bits + rsShift d.bits) ∧
    (readState buf d).2 = d.bits + rsShift d.bits - 12 := by
  obtain ⟨hidx, hle, hst⟩ := h
  simp only [readState]
  have hsh := rsShift_eq d.bits hle
  generalize rsShift d.bits = sh at hsh ⊢
  have h1 : sh ≤ 56 - d.bits := by omega
  have h2 : 56 - d.bits < sh + 8 := by omega
  have h8 : 8 * (sh >>> 3) = sh := by rw [Nat.shiftRight_eq_div_pow]; omega
  refine ⟨by omega, by omega, by omega, ?_, by omega⟩
  -- the bits taken from the buffer
  have hw : word64 buf d.idx >>> (64 - sh) = peekAt (ofBytes buf.toList) (8 * d.idx) sh := by
    rw [word64_eq buf hb, Nat.shiftRight_eq_div_pow]
    have := peekAt_split (ofBytes buf.toList) (8 * d.idx) sh (64 - sh)
    rw [show sh + (64 - sh) = 64 by omega] at this
    rw [this, Nat.add_comm, Nat.add_mul_div_right _ _ (Nat.pow_pos (by decide)),
      Nat.div_eq_of_lt (peekAt_lt _ _ _), Nat.zero_add]
  rw [hw]
  have hwlt := peekAt_lt (ofBytes buf.toList) (8 * d.idx) sh
  rw [shl_or _ _ _ hwlt (by omega)]
  have hdvd : 2 ^ (d.bits + sh) ∣ 2 ^ 64 := Nat.pow_dvd_pow 2 (by omega)
  rw [Nat.add_mod, Nat.mod_mod_of_dvd _ hdvd, ← Nat.add_mod, Nat.shiftLeft_eq, Nat.pow_add,
    mod_concat _ _ _ _ hwlt, hst, hidx, ← peekAt_split]

/-! ### look-ups -/

theorem look_eq (tbl : List Nat) (state bs : Nat) :
    look tbl.toArray state bs = tbl.getD ((state >>> bs) &&& 0xFFF) 0 := by
  simp [look, Array.getD_eq_getD_getElem?, List.getD_eq_getElem?_getD]

theorem singles_spec (tbl : List Nat) (ht : TblOk tbl) (B : Bits) (s pos nb : Nat)
    (hs : s % 2 ^ nb = peekAt B pos nb) (hnb : nb ≤ 56) :
    ∀ (k c bs : Nat), c + 12 + bs = nb → 12 * k ≤ bs + 12 →
      decSingles tbl.toArray s k bs = specDec tbl k (B.drop (pos + c)) ∧
      specLen tbl k (B.drop (pos + c)) ≤ 12 * k ∧
      (walkBs tbl.toArray s k bs + 12) % 256 = bs + 12 - specLen tbl k (B.drop (pos + c)) := by
  intro k
  induction k with
  | zero =>
    intro c bs hc _
    refine ⟨rfl, Nat.le_refl _, ?_⟩
    simp only [walkBs, specLen]; omega
  | succ k ih =>
    intro c bs hc hk
    have hv : look tbl.toArray s bs = tbl.getD (peek 12 (B.drop (pos + c))) 0 := by
      rw [look_eq, window B s pos nb c bs hs hc, peek_drop]
    have hlen := ht (peek 12 (B.drop (pos + c))) (by rw [peek_drop]; exact peekAt_lt _ _ 12)
    simp only [decSingles, specDec, specLen, walkBs]
    rw [hv]
    generalize tbl.getD (peek 12 (B.drop (pos + c))) 0 = v at hlen ⊢
    by_cases hk0 : k = 0
    · subst hk0
      refine ⟨rfl, by simp only [specLen]; omega, ?_⟩
      simp only [walkBs, specLen, subBs]; omega
    · have hsub : subBs bs v = bs - v % 256 := by simp only [subBs]; omega
      rw [hsub, List.drop_drop]
      obtain ⟨i1, i2, i3⟩ := ih (c + v % 256) (bs - v % 256) (by omega) (by omega)
      rw [show pos + (c + v % 256) = pos + c + v % 256 by omega] at i1 i2 i3
      exact ⟨by rw [i1], by omega, by rw [i3]; omega⟩

theorem mod_low (A R m : Nat) (hR : R < 2 ^ m) : (A * 2 ^ m + R) % 2 ^ m = R := by
  rw [Nat.add_comm, Nat.add_mul_mod_self_right, Nat.mod_eq_of_lt hR]

theorem decGroup_spec (tbl : List Nat) (ht : TblOk tbl) (buf : Array Nat) (hb : ∀ b ∈ buf.toList, b < 256)
    (d : DS) (pos : Nat) (h : DInv (ofBytes buf.toList) d pos) :
    (decGroup tbl.toArray buf d).1 = specDec tbl 4 ((ofBytes buf.toList).drop pos) ∧
    DInv (ofBytes buf.toList) (decGroup tbl.toArray buf d).2
      (pos + specLen tbl 4 ((ofBytes buf.toList).drop pos)) := by
  obtain ⟨r1, r2, r3, r4, r5⟩ := readState_spec buf hb d pos h
  rw [decGroup_eq]
  generalize d.bits + rsShift d.bits = nb at r1 r2 r3 r4 r5
  obtain ⟨s1, s2, s3⟩ := singles_spec tbl ht (ofBytes buf.toList) _ pos nb r4 r2 4 0 (nb - 12) (by omega) (by omega)
  simp only [Nat.add_zero] at s1 s2 s3
  rw [r5]
  refine ⟨s1, ⟨?_, ?_, ?_⟩⟩
  · simp only; rw [s3]; omega
  · simp only; rw [s3]; omega
  · simp only
    rw [s3]
    generalize specLen tbl 4 ((ofBytes buf.toList).drop pos) = t at s2 ⊢
    have hsplit := peekAt_split (ofBytes buf.toList) pos t (nb - t)
    rw [show t + (nb - t) = nb by omega] at hsplit
    have hdvd : 2 ^ (nb - 12 + 12 - t) ∣ 2 ^ nb := Nat.pow_dvd_pow 2 (by omega)
    rw [← Nat.mod_mod_of_dvd _ hdvd, r4, hsplit, show nb - 12 + 12 - t = nb - t by omega]
    exact mod_low _ _ _ (peekAt_lt _ _ _)

theorem decFragLoop_spec (tbl : List Nat) (ht : TblOk tbl) (buf : Array Nat) (hb : ∀ b ∈ buf.toList, b < 256) :
    ∀ (f rem : Nat) (d : DS) (pos : Nat), rem ≤ 4 * f + 4 → DInv (ofBytes buf.toList) d pos →
      decFragLoop tbl.toArray buf f rem d = specDec tbl rem ((ofBytes buf.toList).drop pos) := by
  have tail : ∀ (rem : Nat) (d : DS) (pos : Nat), rem ≤ 4 → DInv (ofBytes buf.toList) d pos →
      decSingles tbl.toArray (readState buf d).1.state rem (readState buf d).2
        = specDec tbl rem ((ofBytes buf.toList).drop pos) := by
    intro rem d pos hrem h
    obtain ⟨r1, r2, r3, r4, r5⟩ := readState_spec buf hb d pos h
    generalize d.bits + rsShift d.bits = nb at r1 r2 r3 r4 r5
    have := (singles_spec tbl ht (ofBytes buf.toList) _ pos nb r4 r2 rem 0 (nb - 12) (by omega) (by omega)).1
    simp only [Nat.add_zero] at this
    rw [r5]; exact this
  intro f
  induction f with
  | zero =>
    intro rem d pos hrem h
    simp only [decFragLoop]
    exact tail rem d pos (by omega) h
  | succ f ih =>
    intro rem d pos hrem h
    simp only [decFragLoop]
    by_cases h4 : rem > 4
    · rw [if_pos h4]
      obtain ⟨g1, g2⟩ := decGroup_spec tbl ht buf hb d pos h
      rw [g1, ih (rem - 4) _ _ (by omega) g2]
      have := specDec_add tbl 4 (rem - 4) ((ofBytes buf.toList).drop pos)
      rw [show 4 + (rem - 4) = rem by omega, List.drop_drop] at this
      exact this.symm
    · rw [if_neg h4]
      exact tail rem d pos (by omega) h

/-- where `readState` reads: never more than 56 bits ahead of what the walk has consumed -/
theorem decFragReads_bound (tbl : List Nat) (ht : TblOk tbl) (buf : Array Nat) (hb : ∀ b ∈ buf.toList, b < 256) :
    ∀ (f rem : Nat) (d : DS) (pos : Nat), DInv (ofBytes buf.toList) d pos →
      ∀ i ∈ decFragReads tbl.toArray buf f rem d,
        8 * i ≤ pos + specLen tbl rem ((ofBytes buf.toList).drop pos) + 56 := by
  intro f
  induction f with
  | zero =>
    intro rem d pos h i hi
    simp only [decFragReads, List.mem_singleton] at hi
    subst hi
    have := h.idx; have := h.le
    omega
  | succ f ih =>
    intro rem d pos h i hi
    simp only [decFragReads] at hi
    by_cases h4 : rem > 4
    · rw [if_pos h4] at hi
      rcases List.mem_cons.mp hi with rfl | hi
      · have := h.idx; have := h.le
        omega
      · obtain ⟨_, g2⟩ := decGroup_spec tbl ht buf hb d pos h
        have := ih (rem - 4) _ _ g2 i hi
        have hadd := specLen_add tbl 4 (rem - 4) ((ofBytes buf.toList).drop pos)
        rw [show 4 + (rem - 4) = rem by omega, List.drop_drop] at hadd
        omega
    · rw [if_neg h4] at hi
      simp only [List.mem_singleton] at hi
      subst hi
      have := h.idx; have := h.le
      omega

/-- **decoder fragment.**  For every table with lengths in 1..12 and every buffer of bytes the
    register machine decodes what the plain table walk decodes from the bits of the buffer. -/
theorem decFrag_spec (tbl : List Nat) (ht : TblOk tbl) (buf : Array Nat) (hb : ∀ b ∈ buf.toList, b < 256)
    (n : Nat) : decFrag tbl.toArray buf n = specDec tbl n (ofBytes buf.toList) := by
  unfold decFrag
  have := decFragLoop_spec tbl ht buf hb n n ⟨0, 0, 0⟩ 0 (by omega)
    ⟨rfl, Nat.zero_le _, by simp [peekAt_zero]⟩
  rw [this, List.drop_zero]

end Kanzi.Huffman
