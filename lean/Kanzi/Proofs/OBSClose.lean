/-
`Close`: the padding loop, the final flush, success and failure (restore) cases.
-/
import Kanzi.Proofs.OBSArrayU

namespace Kanzi.OBS
open Kanzi.Bits

/-! ### Close -/

theorem flush_written (s : St) (ho : s.closed = false) (h : (flush s).2 = .ok) :
    (flush s).1.written = s.written + 8 * (s.position : Int) := by
  unfold flush at h ⊢
  rw [if_neg (by simp [ho])] at h ⊢
  by_cases hpos : s.position > 0
  · rw [if_pos hpos] at h ⊢
    by_cases hf : s.failAt (s.sinkCalls + 1) = true
    · rw [if_pos hf] at h; simp at h
    · rw [if_neg hf]
  · rw [if_neg hpos]
    have : s.position = 0 := by omega
    simp [this]

theorem flush_io (s : St) (h : (flush s).2 = .panic .io) :
    (flush s).1 = { s with sinkCalls := s.sinkCalls + 1 } := by
  unfold flush at h ⊢
  by_cases hc : s.closed = true
  · rw [if_pos hc] at h; simp at h
  · rw [if_neg hc] at h ⊢
    by_cases hpos : s.position > 0
    · rw [if_pos hpos] at h ⊢
      by_cases hf : s.failAt (s.sinkCalls + 1) = true
      · rw [if_pos hf]
      · rw [if_neg hf] at h; simp at h
    · rw [if_neg hpos] at h; simp at h

theorem wordBytes_drop (w : BitVec 64) (j : Nat) (hj : j < 8) :
    (wordBytes w).drop j = (w >>> (56 - 8 * j)).setWidth 8 :: (wordBytes w).drop (j + 1) := by
  have : j = 0 ∨ j = 1 ∨ j = 2 ∨ j = 3 ∨ j = 4 ∨ j = 5 ∨ j = 6 ∨ j = 7 := by omega
  rcases this with rfl | rfl | rfl | rfl | rfl | rfl | rfl | rfl <;> simp [wordBytes]

structure PadOk (s s' : St) (j k : Nat) : Prop where
  pos : s'.position = s.position + k
  av : s'.availBits = s.availBits + 8 * k
  av64 : 64 ≤ s'.availBits
  av72 : s.availBits < 72 → s'.availBits < 72
  len : s'.buffer.length = s.buffer.length
  buf : s'.buffer.take s'.position = s.buffer.take s.position ++ ((wordBytes s.current).drop j).take k
  cur : s'.current = s.current
  sink : s'.sink = s.sink
  calls : s'.sinkCalls = s.sinkCalls
  plan : s'.failAt = s.failAt
  wr : s'.written = s.written
  cl : s'.closed = s.closed

theorem padLoop_spec : ∀ (f j : Nat) (s : St), f + j = 8 → s.position + f ≤ s.buffer.length →
    64 ≤ s.availBits + 8 * f →
    ∃ k, k ≤ f ∧ (padLoop f (56 - 8 * j) s).2 = .ok ∧ PadOk s (padLoop f (56 - 8 * j) s).1 j k := by
  intro f
  induction f with
  | zero =>
    intro j s _ _ h64
    exact ⟨0, Nat.le_refl _, rfl, ⟨rfl, rfl, by show 64 ≤ s.availBits; omega, id, rfl, by simp [padLoop], rfl, rfl, rfl, rfl, rfl, rfl⟩⟩
  | succ f ih =>
    intro j s hj hp h64
    unfold padLoop
    by_cases hlt : s.availBits < 64
    · rw [if_pos hlt, if_neg (by omega)]
      have e : 56 - 8 * j - 8 = 56 - 8 * (j + 1) := by omega
      rw [e]
      obtain ⟨k, hk, hok, P⟩ := ih (j + 1)
        { s with buffer := copyInto s.buffer s.position [(s.current >>> (56 - 8 * j)).setWidth 8],
                 position := s.position + 1, availBits := s.availBits + 8 }
        (by omega) (by simp; omega) (by show 64 ≤ s.availBits + 8 + 8 * f; omega)
      refine ⟨k + 1, by omega, hok, ⟨?_, ?_, P.av64, ?_, ?_, ?_, P.cur, P.sink, P.calls, P.plan, P.wr, P.cl⟩⟩
      · rw [P.pos]; show s.position + 1 + k = _; omega
      · rw [P.av]; show s.availBits + 8 + 8 * k = _; omega
      · intro h72; apply P.av72; show s.availBits + 8 < 72; omega
      · rw [P.len]; simp
      · rw [P.buf]
        show List.take (s.position + 1) (copyInto s.buffer s.position [(s.current >>> (56 - 8 * j)).setWidth 8]) ++ _ = _
        have := copyInto_take s.buffer s.position [(s.current >>> (56 - 8 * j)).setWidth 8] (by simp; omega)
        simp only [List.length_cons, List.length_nil] at this
        rw [this, wordBytes_drop s.current j (by omega), List.take_succ_cons]
        simp
    · rw [if_neg hlt]
      exact ⟨0, by omega, rfl, ⟨rfl, rfl, by show 64 ≤ s.availBits; omega, id, rfl, by simp, rfl, rfl, rfl, rfl, rfl, rfl⟩⟩


theorem mk_false (n : Nat) : mk n (fun _ => false) = List.replicate n false := by
  apply List.ext_getElem?
  intro i
  rw [mk_getElem?, List.getElem?_replicate]

/-- the bytes stored by the padding loop: the pending bits, zero padded to a byte boundary -/
theorem pad_bits (cur : BitVec 64) (a k : Nat) (ha : a ≤ 64) (hz : LowZero cur a)
    (h1 : 64 ≤ a + 8 * k) (h2 : a + 8 * k < 72) :
    byteBits ((wordBytes cur).take k) = (wordBits cur).take (64 - a) ++ List.replicate (a + 8 * k - 64) false := by
  rw [← byteBits_take, byteBits_wordBytes, wordBits_eq, ← mk_false]
  unfold bvBits
  rw [mk_take _ _ _ (by omega), mk_take _ _ _ (by omega), mk_append]
  have e : 64 - a + (a + 8 * k - 64) = 8 * k := by omega
  rw [e]
  apply mk_congr
  intro i hi
  by_cases h : i < 64 - a
  · simp [h]
  · simp only [h, if_false]
    exact hz i (by omega) (by omega)

structure CloseOk (s s' : St) : Prop where
  cl : s'.closed = true
  pos : s'.position = 0
  av : s'.availBits = 0
  len : s'.buffer.length = 8
  image : s'.sink.map BitVec.toNat = packBytes (abs s)
  wr : writtenOf s' = writtenOf s
  plan : s'.failAt = s.failAt
  calls : s.sinkCalls ≤ s'.sinkCalls
  nofail : ∀ k, s.sinkCalls < k → k ≤ s'.sinkCalls → s.failAt k = false
  sinkPre : ∃ t, s'.sink = s.sink ++ t

structure CloseErr (s s' : St) : Prop where
  inv : Inv s'
  sabs : abs s' = abs s
  sink : s'.sink = s.sink
  wr : s'.written = s.written
  wo : writtenOf s' = writtenOf s
  len : s'.buffer.length = s.buffer.length
  calls : s'.sinkCalls = s.sinkCalls + 1
  io : IoFail s s'

theorem close_spec (s : St) (h : Inv s) :
    ((close s).2 = .ok ∧ CloseOk s (close s).1) ∨ ((close s).2 = .err ∧ CloseErr s (close s).1) := by
  have hl := h.posle
  unfold close
  rw [if_neg (by simp [h.open_])]
  dsimp only
  obtain ⟨k, hk, hok, P⟩ := padLoop_spec 8 0 s rfl (by omega) (by omega)
  rw [show 56 - 8 * 0 = 56 from rfl] at hok P
  rcases hres : padLoop 8 56 s with ⟨p, o⟩
  rw [hres] at hok P
  simp only at hok P
  subst hok
  simp only
  have ha72 : p.availBits < 72 := P.av72 (by have := h.av64; omega)
  have hpl : p.position ≤ p.buffer.length := by rw [P.pos, P.len]; omega
  have hf := flush_spec { p with written := p.written - ((p.availBits : Int) - 64), availBits := 64 }
    (by show p.closed = false; rw [P.cl]; exact h.open_) hpl
  have hfw := flush_written { p with written := p.written - ((p.availBits : Int) - 64), availBits := 64 }
    (by show p.closed = false; rw [P.cl]; exact h.open_)
  have hfi := flush_io { p with written := p.written - ((p.availBits : Int) - 64), availBits := 64 }
  rcases hres2 : flush { p with written := p.written - ((p.availBits : Int) - 64), availBits := 64 } with ⟨q, o2⟩
  rw [hres2] at hf hfw hfi
  rcases hf with ⟨e, f⟩ | ⟨e, f⟩
  · left
    simp only at e f hfw
    subst e
    simp only
    have hw := hfw rfl
    refine ⟨trivial, ⟨rfl, rfl, rfl, by simp, ?_, ?_, by show q.failAt = _; rw [f.plan]; exact P.plan,
      by have := f.calls; simp only at this; show s.sinkCalls ≤ q.sinkCalls; rw [← P.calls]; exact this,
      ?_, ?_⟩⟩
    · -- image
      show q.sink.map BitVec.toNat = packBytes (abs s)
      symm
      apply packBytes_of_padded (abs s) (p.availBits - 64) _ (by omega)
      · intro b hb
        simp only [List.mem_map] at hb
        obtain ⟨x, _, rfl⟩ := hb
        exact x.isLt
      · have fb := f.fabs
        simp only [absBuf_def, f.pos, List.take_zero, byteBits_nil, List.append_nil] at fb
        show _ = byteBits q.sink
        rw [fb, P.buf, P.sink, byteBits_append]
        simp only [List.drop_zero]
        rw [pad_bits s.current s.availBits k h.av64 h.low (by rw [← P.av]; exact P.av64) (by rw [← P.av]; exact ha72)]
        rw [abs_def, P.av]
        simp only [List.append_assoc]
    · show writtenOf _ = writtenOf s
      simp only [writtenOf]
      rw [hw, P.wr, P.pos, P.av]
      push_cast
      omega
    · intro i h1 h2
      have := f.nofail i (by show p.sinkCalls < i; rw [P.calls]; exact h1) h2
      simp only at this
      rw [P.plan] at this
      exact this
    · obtain ⟨t, ht⟩ := f.sinkPre
      exact ⟨t, by show q.sink = _; rw [ht]; show p.sink ++ t = _; rw [P.sink]⟩
  · right
    simp only at e f hfi
    subst e
    simp only
    have hq := hfi rfl
    subst hq
    have hbuf : p.buffer.take s.position = s.buffer.take s.position := by
      have := congrArg (List.take s.position) P.buf
      rw [List.take_take, P.pos, Nat.min_eq_left (by omega)] at this
      rw [this, List.take_append_of_le_length (by simp; omega), List.take_take, Nat.min_self]
    refine ⟨trivial, ⟨⟨⟨by show p.closed = false; rw [P.cl]; exact h.open_, by show 16 ≤ p.buffer.length; rw [P.len]; exact h.len16,
        by show p.buffer.length % 8 = 0; rw [P.len]; exact h.len8, h.pos8, by show s.position + 8 ≤ p.buffer.length; rw [P.len]; exact hl⟩,
        h.av1, h.av64, h.low⟩, ?_, P.sink, rfl, rfl, P.len,
        by show p.sinkCalls + 1 = _; rw [P.calls], ?_⟩⟩
    · simp only [abs_def]
      rw [hbuf, P.sink]
    · refine ⟨by show p.failAt = _; exact P.plan, by show s.sinkCalls < p.sinkCalls + 1; rw [P.calls]; omega, ?_, ?_⟩
      · have := f.failed; simp only at this; rw [P.plan, P.calls] at this; show s.failAt (p.sinkCalls + 1) = true; rw [P.calls]; exact this
      · intro i h1 h2
        simp only at h2
        rw [P.calls] at h2
        omega

end Kanzi.OBS
