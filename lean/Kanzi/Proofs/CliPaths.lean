/-
Proofs about the path model `Kanzi.CliPaths` (lean/Kanzi/Model/CliPaths.lean).
-/
import Kanzi.Model.CliPaths

namespace Kanzi.CliPaths

/-! ### split / join -/

theorem splitSep_ne_nil (s : Str) : splitSep s ≠ [] := by
  cases s with
  | nil => simp [splitSep]
  | cons c cs =>
    unfold splitSep
    split
    · simp
    · cases splitSep cs <;> simp [consHead]

theorem splitSep_append_sep (a b : Str) : splitSep (a ++ SEP :: b) = splitSep a ++ splitSep b := by
  induction a with
  | nil => simp [splitSep]
  | cons c cs ih =>
    by_cases hc : c = SEP
    · simp [splitSep, hc, ih]
    · simp only [List.cons_append, splitSep, hc, if_false, ih]
      cases hs : splitSep cs with
      | nil => exact absurd hs (splitSep_ne_nil cs)
      | cons w ws => simp [consHead]

theorem splitSep_noSep (n : Str) (h : SEP ∉ n) : splitSep n = [n] := by
  induction n with
  | nil => simp [splitSep]
  | cons c cs ih =>
    have hc : c ≠ SEP := fun e => h (by simp [e])
    have hcs : SEP ∉ cs := fun e => h (by simp [e])
    simp [splitSep, hc, ih hcs, consHead]

theorem joinSep_cons_cons (w v : Str) (ws : List Str) :
    joinSep (w :: v :: ws) = w ++ SEP :: joinSep (v :: ws) := rfl

theorem joinSep_append_single (l : List Str) (hl : l ≠ []) (n : Str) :
    joinSep (l ++ [n]) = joinSep l ++ SEP :: n := by
  induction l with
  | nil => exact absurd rfl hl
  | cons w ws ih =>
    cases ws with
    | nil => simp [joinSep]
    | cons v vs =>
      have := ih (by simp)
      simp only [List.cons_append] at this ⊢
      rw [joinSep_cons_cons, this, joinSep_cons_cons]
      simp

theorem splitSep_joinSep (l : List Str) (hl : l ≠ []) (h : ∀ c ∈ l, SEP ∉ c) :
    splitSep (joinSep l) = l := by
  induction l with
  | nil => exact absurd rfl hl
  | cons w ws ih =>
    cases ws with
    | nil => simpa [joinSep] using splitSep_noSep w (h w (by simp))
    | cons v vs =>
      rw [joinSep_cons_cons, splitSep_append_sep, splitSep_noSep w (h w (by simp)),
        ih (by simp) (fun c hc => h c (by simp [hc]))]
      simp

theorem joinSep_inj (l m : List Str) (hl : l ≠ []) (hm : m ≠ []) (h1 : ∀ c ∈ l, SEP ∉ c)
    (h2 : ∀ c ∈ m, SEP ∉ c) (h : joinSep l = joinSep m) : l = m := by
  rw [← splitSep_joinSep l hl h1, ← splitSep_joinSep m hm h2, h]

/-! ### `filepath.Clean` on a path extended by one directory entry name -/

/-- a directory entry name: not empty, not `.`, not `..`, no separator -/
def ValidName (n : Str) : Prop := n ≠ [] ∧ n ≠ [DOT] ∧ n ≠ DOTDOT ∧ SEP ∉ n

instance (n : Str) : Decidable (ValidName n) := by unfold ValidName; infer_instance

theorem cleanStep_valid (r : Bool) (st : List Str) (n : Str) (h : ValidName n) :
    cleanStep r st n = n :: st := by
  simp [cleanStep, h.1, h.2.1, h.2.2.1]

theorem cleanStep_empty (r : Bool) (st : List Str) : cleanStep r st [] = st := by
  simp [cleanStep]

theorem isRooted_append (p q : Str) (hp : p ≠ []) : isRooted (p ++ q) = isRooted p := by
  cases p with
  | nil => exact absurd rfl hp
  | cons c cs => simp [isRooted]

theorem stackOf_nil : stackOf [] = [] := by
  simp [stackOf, splitSep, cleanStep]

theorem stackOf_append_name (p n : Str) (hp : p ≠ []) (hn : ValidName n) :
    stackOf (p ++ SEP :: n) = n :: stackOf p := by
  unfold stackOf
  rw [isRooted_append p _ hp, splitSep_append_sep, splitSep_noSep n hn.2.2.2, List.foldl_append]
  simp [cleanStep_valid _ _ _ hn]

theorem stackOf_append_sep_name (p n : Str) (hp : p ≠ []) (hn : ValidName n) :
    stackOf (p ++ SEP :: SEP :: n) = n :: stackOf p := by
  unfold stackOf
  rw [isRooted_append p _ hp, splitSep_append_sep]
  have : splitSep (SEP :: n) = [[], n] := by
    simp [splitSep, splitSep_noSep n hn.2.2.2]
  rw [this, List.foldl_append]
  simp [cleanStep_valid _ _ _ hn, cleanStep_empty]

theorem render_cons (r : Bool) (st : List Str) (n : Str) :
    render r (n :: st) =
      if st = [] then (if r then SEP :: n else n) else render r st ++ SEP :: n := by
  by_cases hst : st = []
  · subst hst
    cases r <;> simp [render, joinSep]
  · have hrev : st.reverse ≠ [] := by simpa using hst
    cases r <;> simp [render, hst, joinSep_append_single _ hrev]

/-- `p` is its own `Clean` and is neither `/` nor `.` -/
theorem SEP_ne_DOT : SEP ≠ DOT := by decide

theorem dropLast_snoc_of_getLast? {α : Type} (l : List α) (a : α) (h : l.getLast? = some a) :
    l.dropLast ++ [a] = l := by
  induction l with
  | nil => simp at h
  | cons x xs ih =>
    cases xs with
    | nil => simp at h; simp [h]
    | cons y ys =>
      have h' : (y :: ys).getLast? = some a := by simpa [List.getLast?_cons_cons] using h
      simpa using ih h'

theorem nonRec_shape (inp : Str) (h : isNonRec inp = true) :
    targetOf inp = inp.dropLast ∧ finOf inp = inp.dropLast ∧ ∃ x, inp = x ++ [SEP, DOT] := by
  unfold isNonRec at h
  have h' : inp.length > 2 ∧ inp.drop (inp.length - 2) = [SEP, DOT] := by simpa using h
  have hx : inp = inp.take (inp.length - 2) ++ [SEP, DOT] := by
    rw [← h'.2, List.take_append_drop]
  refine ⟨by simp [targetOf, isNonRec, h'.1, h'.2], ?_, _, hx⟩
  rw [hx]
  have e : (inp.take (inp.length - 2) ++ [SEP, DOT]).dropLast = inp.take (inp.length - 2) ++ [SEP] := by
    rw [show [SEP, DOT] = [SEP] ++ [DOT] from rfl, ← List.append_assoc, List.dropLast_concat]
  rw [e]
  unfold finOf
  have h1 : (inp.take (inp.length - 2) ++ [SEP, DOT]).getLast? = some DOT := by simp
  have h2 : (inp.take (inp.length - 2) ++ [SEP, DOT]).length > 1 := by simp
  simp [h1, e]

/-- the directory the entries of which are listed -/
def rootOf (inp : Str) : Str := if isNonRec inp then targetOf inp else addSep inp

/-- the input name of the entry `rel` below the root -/
def pathOf (inp : Str) (rel : List Str) : Str :=
  if isNonRec inp then targetOf inp ++ joinSep rel else walkPath (addSep inp) rel

/-- `formattedOutName` -/
def foutEff (a : Args) : Str := if a.out ≠ [] ∧ ¬ isSpecial a.out then foutOf a.out else a.out

/-- the input is a directory, for both `Stat` calls the tool makes on it -/
def DirInput (fs : FS) (a : Args) : Prop :=
  (∃ n, fs.stat a.inp = some (.dir, n)) ∧
  (∃ m, (if a.noLinks then fs.lstat (targetOf a.inp) else fs.stat (targetOf a.inp)) = some (.dir, m))

theorem targetOf_rec (inp : Str) (h : isNonRec inp = false) : targetOf inp = inp := by
  simp [targetOf, h]

/-! ### name mapping -/

theorem KNZ_length : KNZ.length = 4 := rfl

theorem dName_knz (p : Str) : dName (p ++ KNZ) = p := by
  unfold dName
  have h1 : (p ++ KNZ).length - 4 = p.length := by simp [KNZ_length]
  have h2 : eqFold KNZ KNZU = true := by decide
  rw [h1]
  simp [KNZ_length, h2]

theorem dName_cName (p : Str) : dName (cName p) = p := dName_knz p

def unKnz (s : Str) : Str := s.take (s.length - 4)

theorem unKnz_knz (q : Str) : unKnz (q ++ KNZ) = q := by
  simp [unKnz, KNZ_length]

theorem joinSep_snoc_append (init : List Str) (x y : Str) :
    joinSep (init ++ [x ++ y]) = joinSep (init ++ [x]) ++ y := by
  by_cases h : init = []
  · subst h; simp [joinSep]
  · rw [joinSep_append_single _ h, joinSep_append_single _ h]; simp

theorem valid_append_knz (n : Str) (h : ValidName n) : ValidName (n ++ KNZ) := by
  have hl : (n ++ KNZ).length ≥ 5 := by
    have : n.length ≥ 1 := by
      cases n with
      | nil => exact absurd rfl h.1
      | cons _ _ => simp
    simp [KNZ_length]; omega
  refine ⟨?_, ?_, ?_, ?_⟩
  · intro e; rw [e] at hl; simp at hl
  · intro e; rw [e] at hl; simp at hl
  · intro e; rw [e] at hl; simp [DOTDOT] at hl
  · intro hm
    rcases List.mem_append.mp hm with hm | hm
    · exact h.2.2.2 hm
    · revert hm; decide

/-! ### hypotheses about the directory walk -/

/-- what the directory walk is assumed to report below the root: every entry once, under names
that are directory entry names -/
def TreeOK (l : List (List Str × Kind)) : Prop :=
  (l.map (·.1)).Nodup ∧ ∀ e ∈ l, e.1 ≠ [] ∧ ∀ n ∈ e.1, ValidName n

/-- every entry name ends with `.knz` after a directory entry name (what a compression run produces) -/
def KnzTree (l : List (List Str × Kind)) : Prop :=
  ∀ e ∈ l, ∃ init stem, e.1 = init ++ [stem ++ KNZ] ∧ ValidName stem ∧ ∀ n ∈ init, ValidName n

theorem foutOf_ne_nil (o : Str) (h : o ≠ []) : foutOf o ≠ [] := by
  unfold foutOf
  split <;> simp [h]

theorem knz_rel (e : List Str × Kind) (init : List Str) (stem : Str) (he : e.1 = init ++ [stem ++ KNZ])
    (hs : ValidName stem) (hi : ∀ n ∈ init, ValidName n) :
    e.1 ≠ [] ∧ (∀ n ∈ e.1, ValidName n) ∧ joinSep e.1 = joinSep (init ++ [stem]) ++ KNZ ∧
      unKnz (joinSep e.1) = joinSep (init ++ [stem]) := by
  have hj : joinSep e.1 = joinSep (init ++ [stem]) ++ KNZ := by rw [he, joinSep_snoc_append]
  refine ⟨by rw [he]; simp, ?_, hj, by rw [hj, unKnz_knz]⟩
  intro n hn
  rw [he] at hn
  rcases List.mem_append.mp hn with hn | hn
  · exact hi n hn
  · have : n = stem ++ KNZ := by simpa using hn
    rw [this]; exact valid_append_knz stem hs

theorem nodup_map_on {α β : Type} (f : α → β) (l : List α) (hl : l.Nodup)
    (hf : ∀ x ∈ l, ∀ y ∈ l, f x = f y → x = y) : (l.map f).Nodup := by
  induction l with
  | nil => simp
  | cons a l ih =>
    rw [List.nodup_cons] at hl
    rw [List.map_cons, List.nodup_cons]
    refine ⟨?_, ih hl.2 (fun x hx y hy => hf x (by simp [hx]) y (by simp [hy]))⟩
    intro hm
    obtain ⟨y, hy, hfy⟩ := List.mem_map.mp hm
    have := hf a (by simp) y (by simp [hy]) hfy.symm
    exact hl.1 (this ▸ hy)

theorem kept_rels (tree kept : List (List Str × Kind)) (hsub : kept.Sublist tree) (ht : TreeOK tree) :
    (kept.map (·.1)).Nodup ∧ ∀ r ∈ kept.map (·.1), r ≠ [] ∧ ∀ n ∈ r, ValidName n := by
  refine ⟨(hsub.map _).nodup ht.1, ?_⟩
  intro r hr
  obtain ⟨e, he, rfl⟩ := List.mem_map.mp hr
  exact ht.2 e (hsub.subset he)

theorem knz_tree_ok (tree : List (List Str × Kind)) (hk : KnzTree tree) :
    ∀ e ∈ tree, e.1 ≠ [] ∧ ∀ n ∈ e.1, ValidName n := by
  intro e he
  obtain ⟨init, stem, h1, h2, h3⟩ := hk e he
  obtain ⟨k1, k2, _, _⟩ := knz_rel e init stem h1 h2 h3
  exact ⟨k1, k2⟩

theorem noSep_of_valid {r : List Str} (h : ∀ n ∈ r, ValidName n) : ∀ c ∈ r, SEP ∉ c :=
  fun c hc => (h c hc).2.2.2

/-- `o` is `dir` followed by a relative path made of directory entry names -/
def Under (dir o : Str) : Prop :=
  ∃ comps : List Str, comps ≠ [] ∧ (∀ c ∈ comps, ValidName c) ∧ o = dir ++ joinSep comps

theorem rel_split (r : List Str) (h : r ≠ []) : ∃ init last, r = init ++ [last] := by
  refine ⟨r.dropLast, r.getLast h, ?_⟩
  exact (List.dropLast_concat_getLast h).symm

/-- the input is a regular file, for both `Stat` calls the tool makes on it -/
def FileInput (fs : FS) (a : Args) : Prop :=
  (∃ n, fs.stat a.inp = some (.file, n)) ∧
  (∃ m, (if a.noLinks then fs.lstat (targetOf a.inp) else fs.stat (targetOf a.inp)) = some (.file, m))

end Kanzi.CliPaths
