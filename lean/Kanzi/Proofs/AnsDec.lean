/-
Proofs about the total ANS decoder model `Kanzi/Model/AnsDec.lean` (property C03, slice `anstotal`):
sizes and byte invariants of the decoder object, absence of faults on arbitrary input, bound on the
chunk loop, bound on the allocations.  Core Lean only.
-/
import Kanzi.Model.AnsDec
import Kanzi.Proofs.EntSmall
import Kanzi.Proofs.Ans0

namespace Kanzi.AnsDec
open Kanzi.Bits Kanzi.EntSmall

/-! ### A. the outcome type -/

/-- Hoare-style predicate: the piece did not fault (nor overrun), and a value satisfies `P` -/
def R.Safe {α : Type} (P : α → Prop) : R α → Prop
  | .ok a => P a
  | .err => True
  | .eos => True
  | .fault => False
  | .overrun => False

theorem R.Safe.bind {α β : Type} {P : α → Prop} {Q : β → Prop} {x : R α} {f : α → R β}
    (hx : x.Safe P) (hf : ∀ a, P a → (f a).Safe Q) : (x.bind f).Safe Q := by
  cases x with
  | ok a => exact hf a hx
  | err => trivial
  | eos => trivial
  | fault => exact hx
  | overrun => exact hx

theorem R.Safe.mono {α : Type} {P Q : α → Prop} {x : R α} (hx : x.Safe P) (h : ∀ a, P a → Q a) :
    x.Safe Q := by
  cases x with
  | ok a => exact h a hx
  | err => trivial
  | eos => trivial
  | fault => exact hx
  | overrun => exact hx

theorem R.Safe.of_ok {α : Type} {P : α → Prop} {x : R α} {a : α} (hx : x.Safe P) (h : x = .ok a) : P a := by
  subst h; exact hx

theorem rBits_safe (n : Nat) (bs : Bits) : (rBits n bs).Safe (fun _ => True) := by
  unfold rBits
  cases readBits n bs <;> trivial

/-! ### B. arrays: sizes and bytes -/

theorem fill_size (start v : Nat) : ∀ (c : Nat) (arr : Array Nat), (fill start v c arr).size = arr.size := by
  intro c
  induction c with
  | zero => intro arr; rfl
  | succ c ih => intro arr; simp only [fill]; rw [ih]; simp

theorem writePrefix_size : ∀ (bs : List Nat) (i : Nat) (arr : Array Nat), (writePrefix bs i arr).size = arr.size := by
  intro bs
  induction bs with
  | nil => intro i arr; rfl
  | cons b bs ih => intro i arr; simp only [writePrefix]; rw [ih]; simp

/-- every entry is a byte (Go: the element type of `this.f2s` / `this.buffer`) -/
def Bytes (a : Array Nat) : Prop := ∀ i, a.getD i 0 < 256

theorem getD_setIfInBounds (a : Array Nat) (i j v : Nat) :
    (a.setIfInBounds i v).getD j 0 = if i = j ∧ i < a.size then v else a.getD j 0 := by
  simp only [Array.getD_eq_getD_getElem?, Array.getElem?_setIfInBounds]
  by_cases h : i = j
  · subst h
    by_cases h2 : i < a.size
    · simp [h2]
    · simp [h2]
  · simp [h]

theorem Bytes.set {a : Array Nat} (h : Bytes a) (i v : Nat) (hv : v < 256) : Bytes (a.setIfInBounds i v) := by
  intro j
  rw [getD_setIfInBounds]
  split
  · exact hv
  · exact h j

theorem Bytes.fill {start v : Nat} (hv : v < 256) : ∀ (c : Nat) (a : Array Nat), Bytes a → Bytes (fill start v c a) := by
  intro c
  induction c with
  | zero => intro a h; exact h
  | succ c ih => intro a h; simp only [AnsDec.fill]; exact ih _ (h.set _ _ hv)

theorem Bytes.replicate (n : Nat) : Bytes (Array.replicate n 0) := by
  intro i
  simp only [Array.getD_eq_getD_getElem?, Array.getElem?_replicate]
  split <;> simp

theorem Bytes.empty : Bytes #[] := by
  intro i; simp [Array.getD_eq_getD_getElem?]

theorem Bytes.writePrefix : ∀ (bs : List Nat) (i : Nat) (a : Array Nat), (∀ b ∈ bs, b < 256) → Bytes a →
    Bytes (writePrefix bs i a) := by
  intro bs
  induction bs with
  | nil => intro i a _ h; exact h
  | cons b bs ih =>
    intro i a hb h
    simp only [AnsDec.writePrefix]
    exact ih _ _ (fun x hx => hb x (List.mem_cons_of_mem _ hx)) (h.set _ _ (hb b List.mem_cons_self))

/-! ### C. the frequency table of one context on ARBITRARY input -/

theorem decFreqsR_safe (logMax scale : Nat) : ∀ (n : Nat) (bs : Bits),
    (decFreqsR n logMax scale bs).Safe (fun p => p.1.length = n ∧ ∀ x ∈ p.1, 1 ≤ x) := by
  intro n
  induction n with
  | zero => intro bs; simp [decFreqsR, R.Safe]
  | succ n ih =>
    intro bs
    simp only [decFreqsR]
    split
    · refine (ih bs).bind ?_
      intro p hp
      simp only [R.Safe, List.length_cons, List.mem_cons]
      refine ⟨by omega, ?_⟩
      intro x hx
      rcases hx with rfl | hx
      · omega
      · exact hp.2 x hx
    · cases readBits logMax bs with
      | none => trivial
      | some q =>
        obtain ⟨v, r⟩ := q
        simp only
        split
        · trivial
        · refine (ih r).bind ?_
          intro p hp
          simp only [R.Safe, List.length_cons, List.mem_cons]
          refine ⟨by omega, ?_⟩
          intro x hx
          rcases hx with rfl | hx
          · omega
          · exact hp.2 x hx

theorem decFreqChunksR_safe (chk llr scale : Nat) (hchk : 0 < chk) : ∀ (fuel count : Nat) (bs : Bits),
    count ≤ fuel → (decFreqChunksR fuel chk llr scale count bs).Safe (fun p => p.1.length = count) := by
  intro fuel
  induction fuel with
  | zero =>
    intro count bs h
    have : count = 0 := by omega
    subst this
    simp [decFreqChunksR, R.Safe]
  | succ fuel ih =>
    intro count bs h
    simp only [decFreqChunksR]
    split
    · rename_i h0; simp [R.Safe, h0]
    · rename_i h0
      cases readBits llr bs with
      | none => trivial
      | some q =>
        obtain ⟨logMax, r⟩ := q
        simp only
        split
        · trivial
        · refine (decFreqsR_safe logMax scale _ r).bind ?_
          intro c hc
          refine (ih (count - min chk count) c.2 (by omega)).bind ?_
          intro t ht
          simp only [R.Safe, List.length_append]
          omega

theorem sum_set_zero : ∀ (l : List Nat) (i v : Nat), i < l.length → l.getD i 0 = 0 →
    (l.set i v).sum = l.sum + v := by
  intro l
  induction l with
  | nil => intro i v h; simp at h
  | cons x xs ih =>
    intro i v h h0
    cases i with
    | zero =>
      simp only [List.getD_cons_zero] at h0
      subst h0
      simp only [List.set_cons_zero, List.sum_cons]
      omega
    | succ i =>
      simp only [List.getD_cons_succ] at h0
      simp only [List.length_cons] at h
      simp only [List.set_cons_succ, List.sum_cons]
      rw [ih i v (by omega) h0]
      omega

theorem setFreqs_cons (t : List Nat) (s : Nat) (a : List Nat) (f : Nat) (fs : List Nat) :
    setFreqs t (s :: a) (f :: fs) = setFreqs (t.set s f) a fs := by
  simp [setFreqs]

theorem setFreqs_nil_left (t fs : List Nat) : setFreqs t [] fs = t := by simp [setFreqs]
theorem setFreqs_nil_right (t a : List Nat) : setFreqs t a [] = t := by simp [setFreqs]

/-- entries outside the alphabet are untouched -/
theorem setFreqs_getD_notMem : ∀ (a fs t : List Nat) (i : Nat), i ∉ a →
    (setFreqs t a fs).getD i 0 = t.getD i 0 := by
  intro a
  induction a with
  | nil => intro fs t i _; rw [setFreqs_nil_left]
  | cons s a ih =>
    intro fs t i hi
    cases fs with
    | nil => rw [setFreqs_nil_right]
    | cons f fs =>
      rw [setFreqs_cons, ih fs _ i (fun h => hi (List.mem_cons_of_mem _ h))]
      exact getD_set_ne _ _ _ _ (fun e => hi (e ▸ List.mem_cons_self))

/-- distinct symbols, all zero before: the sum grows by the frequencies written -/
theorem setFreqs_sum : ∀ (a fs t : List Nat), a.Nodup → (∀ s ∈ a, s < t.length) → (∀ s ∈ a, t.getD s 0 = 0) →
    fs.length = a.length → (setFreqs t a fs).sum = t.sum + fs.sum := by
  intro a
  induction a with
  | nil =>
    intro fs t _ _ _ hl
    have : fs = [] := List.length_eq_zero_iff.mp (by simpa using hl)
    subst this
    rw [setFreqs_nil_left]; simp
  | cons s a ih =>
    intro fs t hnd hlt hz hl
    cases fs with
    | nil => simp at hl
    | cons f fs =>
      rw [setFreqs_cons]
      have hsn : s ∉ a := (List.nodup_cons.mp hnd).1
      rw [ih fs (t.set s f) (List.nodup_cons.mp hnd).2
        (by intro x hx; rw [List.length_set]; exact hlt x (List.mem_cons_of_mem _ hx))
        (by
          intro x hx
          rw [getD_set_ne _ _ _ _ (fun e => by subst e; exact hsn hx)]
          exact hz x (List.mem_cons_of_mem _ hx))
        (by simpa using hl)]
      rw [sum_set_zero t s f (hlt s List.mem_cons_self) (hz s List.mem_cons_self)]
      simp only [List.sum_cons]
      omega

theorem bytesOf_length : ∀ (n : Nat) (bs : Bits), (bytesOf n bs).length = n := by
  intro n
  induction n with
  | zero => intro bs; rfl
  | succ n ih => intro bs; simp [bytesOf, ih]

theorem bytesOf_lt : ∀ (n : Nat) (bs : Bits), ∀ b ∈ bytesOf n bs, b < 256 := by
  intro n
  induction n with
  | zero => intro bs b hb; simp [bytesOf] at hb
  | succ n ih =>
    intro bs b hb
    simp only [bytesOf, List.mem_cons] at hb
    rcases hb with rfl | hb
    · have := bitsNat_lt (List.take 8 bs)
      have hl : (List.take 8 bs).length ≤ 8 := by simp
      have : 2 ^ (List.take 8 bs).length ≤ 2 ^ 8 := Nat.pow_le_pow_right (by omega) hl
      omega
    · exact ih _ b hb

theorem sorted_nodup (a : List Nat) (h : a.Pairwise (· < ·)) : a.Nodup :=
  List.Pairwise.imp (fun hlt => Nat.ne_of_lt hlt) h

/-- what `decodeAlphabet` returns on ANY input: a strictly increasing list of bytes -/
theorem decodeAlphabet_facts (bs : Bits) (a : List Nat) (r : Bits) (h : decodeAlphabet bs = some (a, r)) :
    a.Pairwise (· < ·) ∧ (∀ s ∈ a, s < 256) := by
  unfold decodeAlphabet at h
  cases h1 : readBit bs with
  | none => rw [h1] at h; cases h
  | some q =>
    obtain ⟨b, r1⟩ := q
    rw [h1] at h
    cases b with
    | false =>
      simp only at h
      cases h2 : readBit r1 with
      | none => rw [h2] at h; cases h
      | some q2 =>
        obtain ⟨b2, r2⟩ := q2
        rw [h2] at h
        cases b2 with
        | true =>
          simp only [Option.some.injEq, Prod.mk.injEq] at h
          rw [← h.1]; exact ⟨List.Pairwise.nil, by simp⟩
        | false =>
          simp only [Option.some.injEq, Prod.mk.injEq] at h
          rw [← h.1]
          exact ⟨List.pairwise_lt_range, by intro s hs; exact List.mem_range.mp hs⟩
    | true =>
      simp only at h
      cases h2 : readBits 5 r1 with
      | none => rw [h2] at h; cases h
      | some q2 =>
        obtain ⟨lastMask, r2⟩ := q2
        rw [h2] at h
        simp only at h
        cases h3 : readBytes (lastMask + 1) r2 with
        | none => rw [h3] at h; cases h
        | some q3 =>
          obtain ⟨masks, r3⟩ := q3
          rw [h3] at h
          simp only [Option.some.injEq, Prod.mk.injEq] at h
          rw [← h.1]
          refine ⟨decodeMasksAux_sorted _ _, ?_⟩
          intro s hs
          rw [mem_decodeMasksAux] at hs
          obtain ⟨k, j, hk, hj, _, rfl⟩ := hs
          -- masks has lastMask+1 ≤ 32 entries
          have hlm : lastMask < 32 := by
            unfold readBits at h2
            split at h2
            · simp only [Option.some.injEq, Prod.mk.injEq] at h2
              rw [← h2.1]
              have := bitsNat_lt (List.take 5 r1)
              have hl : (List.take 5 r1).length ≤ 5 := by simp
              have : 2 ^ (List.take 5 r1).length ≤ 2 ^ 5 := Nat.pow_le_pow_right (by omega) hl
              omega
            · cases h2
          have hml : masks.length = lastMask + 1 := by
            unfold readBytes at h3
            split at h3
            · simp only [Option.some.injEq, Prod.mk.injEq] at h3
              rw [← h3.1]
              exact bytesOf_length _ _
            · cases h3
          omega

theorem freqTableR_safe (a : List Nat) (lr : Nat) (bs : Bits) (hs : a.Pairwise (· < ·))
    (hlt : ∀ s ∈ a, s < 256) (hne : a ≠ []) :
    (freqTableR a lr bs).Safe (fun p => p.1.length = 256 ∧ p.1.sum = 2 ^ lr) := by
  unfold freqTableR
  refine (decFreqChunksR_safe (chkSizeOf a.length) (llrOf lr) (2 ^ lr) (chkSizeOf_pos _) a.length (a.length - 1)
    bs (by omega)).bind ?_
  intro p hp
  split
  · trivial
  · rename_i hsum
    simp only [R.Safe]
    have hnd : (a.drop 1).Nodup := sorted_nodup _ (List.Pairwise.sublist (List.drop_sublist 1 a) hs)
    have hlt' : ∀ s ∈ a.drop 1, s < (List.replicate 256 0).length := by
      intro s h; rw [List.length_replicate]; exact hlt s (List.mem_of_mem_drop h)
    have hlen : (setFreqs (List.replicate 256 0) (a.drop 1) p.1).length = 256 := by
      rw [setFreqs_length, List.length_replicate]
    have hsumS := setFreqs_sum (a.drop 1) p.1 (List.replicate 256 0) hnd hlt'
      (fun s _ => getD_replicate_zero 256 s) (by rw [hp, List.length_drop])
    have ha0 : a.headD 0 < 256 := by
      cases a with
      | nil => exact absurd rfl hne
      | cons x xs => exact hlt x List.mem_cons_self
    have ha0n : a.headD 0 ∉ a.drop 1 := by
      cases a with
      | nil => exact absurd rfl hne
      | cons x xs =>
        simp only [List.headD_cons, List.drop_succ_cons, List.drop_zero]
        exact (List.nodup_cons.mp (sorted_nodup _ hs)).1
    refine ⟨by rw [List.length_set, hlen], ?_⟩
    rw [sum_set_zero _ _ _ (by rw [hlen]; exact ha0)
      (by rw [setFreqs_getD_notMem _ _ _ _ ha0n]; exact getD_replicate_zero 256 _), hsumS]
    have : (List.replicate 256 0).sum = 0 := sum_replicate_zero 256
    omega

/-! ### D. `decodeHeader` never faults -/

theorem mapLoop_safe (base sbase lr : Nat) : ∀ (fs : List Nat) (i sum : Nat) (f2s : Array Nat) (syms : Array DecSym),
    sum + fs.sum ≤ 2 ^ lr → i + fs.length ≤ 256 → Bytes f2s →
    (mapLoop base sbase lr fs i sum f2s syms).Safe
      (fun m => m.1.size = f2s.size ∧ m.2.size = syms.size ∧ Bytes m.1) := by
  intro fs
  induction fs with
  | nil => intro i sum f2s syms _ _ hb; exact ⟨rfl, rfl, hb⟩
  | cons fi fs ih =>
    intro i sum f2s syms hsum hi hb
    simp only [List.sum_cons, List.length_cons] at hsum hi
    simp only [mapLoop]
    split
    · exact ih (i + 1) sum f2s syms (by omega) (by omega) hb
    · split
      · omega
      · refine (ih (i + 1) (sum + fi) _ _ (by omega) (by omega) (Bytes.fill (by omega) _ _ hb)).mono ?_
        intro m hm
        rw [fill_size] at hm
        simp only [Array.size_setIfInBounds] at hm
        exact hm

theorem hdrCtx_safe (k lr : Nat) (f2s : Array Nat) (syms : Array DecSym) (bs : Bits)
    (hsy : (k + 1) * 256 ≤ syms.size) (hf : (k + 1) * 2 ^ lr ≤ f2s.size) (hb : Bytes f2s) :
    (hdrCtx k lr f2s syms bs).Safe
      (fun c => c.f2s.size = f2s.size ∧ c.syms.size = syms.size ∧ Bytes c.f2s) := by
  unfold hdrCtx
  cases hd : decodeAlphabet bs with
  | none => trivial
  | some q =>
    obtain ⟨a, r⟩ := q
    simp only
    obtain ⟨hs, hlt⟩ := decodeAlphabet_facts bs a r hd
    split
    · exact ⟨rfl, rfl, hb⟩
    · rename_i hne
      have hne' : a ≠ [] := fun e => hne (by rw [e]; rfl)
      refine (freqTableR_safe a lr r hs hlt hne').bind ?_
      intro t ht
      rw [if_neg (by omega), if_neg (by omega)]
      refine (mapLoop_safe (k * 2 ^ lr) (k * 256) lr t.1 0 0 f2s syms (by omega) (by omega) hb).bind ?_
      intro m hm
      exact hm

theorem hdrCtxs_safe (lr : Nat) : ∀ (m k res a0 : Nat) (f2s : Array Nat) (syms : Array DecSym) (bs : Bits),
    (k + m) * 256 ≤ syms.size → (k + m) * 2 ^ lr ≤ f2s.size → Bytes f2s →
    (hdrCtxs lr m k res a0 f2s syms bs).Safe
      (fun h => h.f2s.size = f2s.size ∧ h.syms.size = syms.size ∧ Bytes h.f2s) := by
  intro m
  induction m with
  | zero => intro k res a0 f2s syms bs _ _ hb; exact ⟨rfl, rfl, hb⟩
  | succ m ih =>
    intro k res a0 f2s syms bs hsy hf hb
    simp only [hdrCtxs]
    have hk : k + 1 ≤ k + (m + 1) := by omega
    have h1 : (k + 1) * 256 ≤ syms.size := Nat.le_trans (Nat.mul_le_mul_right 256 hk) hsy
    have h2 : (k + 1) * 2 ^ lr ≤ f2s.size := Nat.le_trans (Nat.mul_le_mul_right (2 ^ lr) hk) hf
    refine (hdrCtx_safe k lr f2s syms bs h1 h2 hb).bind ?_
    intro c hc
    refine (ih (k + 1) _ _ c.f2s c.syms c.rest (by rw [hc.2.1]; rw [show k + 1 + m = k + (m + 1) by omega]; exact hsy)
      (by rw [hc.1]; rw [show k + 1 + m = k + (m + 1) by omega]; exact hf) hc.2.2).mono ?_
    intro h hh
    rw [hc.1, hc.2.1] at hh
    exact hh

theorem f2sAlloc_size (dim lr : Nat) (f2s : Array Nat) :
    (f2sAlloc dim lr f2s).size = f2sSizeAfter dim lr f2s.size := by
  unfold f2sAlloc f2sSizeAfter
  split <;> simp

theorem f2sSizeAfter_ge (dim lr sz : Nat) : dim * 2 ^ lr ≤ f2sSizeAfter dim lr sz := by
  unfold f2sSizeAfter; split <;> omega

theorem f2sAlloc_bytes (dim lr : Nat) (f2s : Array Nat) (hb : Bytes f2s) : Bytes (f2sAlloc dim lr f2s) := by
  unfold f2sAlloc
  split
  · exact Bytes.replicate _
  · exact hb

/-- **`decodeHeader` is fault free on every input**, keeps `len(this.symbols)`, leaves
    `len(this.f2s) = max-rule ≥ dim·2^lr`, bytes in `f2s` -/
theorem hdrBody_safe (dim lr : Nat) (f2s : Array Nat) (syms : Array DecSym) (bs : Bits)
    (hsy : dim * 256 ≤ syms.size) (hb : Bytes f2s) :
    (hdrBody dim lr f2s syms bs).Safe
      (fun h => h.f2s.size = f2sSizeAfter dim lr f2s.size ∧ h.syms.size = syms.size ∧ Bytes h.f2s) := by
  unfold hdrBody
  have := hdrCtxs_safe lr dim 0 0 0 (f2sAlloc dim lr f2s) syms bs (by rw [Nat.zero_add]; exact hsy)
    (by rw [f2sAlloc_size, Nat.zero_add]; exact f2sSizeAfter_ge dim lr f2s.size) (f2sAlloc_bytes dim lr f2s hb)
  rw [f2sAlloc_size] at this
  exact this

/-! ### E. the main loop of `decodeChunkV2` never faults -/

theorem slot_lt (st : Int) (lr : Nat) : (st % (2 ^ lr : Int)).toNat < 2 ^ lr := by
  have hpos : (0 : Int) < 2 ^ lr := Int.pow_pos (by decide)
  have h1 := Int.emod_nonneg st (Int.ne_of_gt hpos)
  have h2 := Int.emod_lt_of_pos st hpos
  have h3 : ((2 ^ lr : Nat) : Int) = (2 : Int) ^ lr := by simp
  omega

theorem stepSym_safe (lr : Nat) (buf : Array Nat) (n : Nat) (st : Int) (sym : DecSym) (h : n + 1 < buf.size) :
    (stepSym lr buf n st sym).Safe (fun d => n ≤ d.1 ∧ d.1 ≤ n + 2) := by
  unfold stepSym
  simp only
  split <;> simp only [R.Safe] <;> omega

theorem look_safe (lr : Nat) (f2s : Array Nat) (syms : Array DecSym) (prv : Nat) (st : Int)
    (hf : (prv + 1) * 2 ^ lr ≤ f2s.size) (hs : (prv + 1) * 256 ≤ syms.size) (hb : Bytes f2s) :
    (look lr f2s syms prv st).Safe (fun c => c.1 < 256) := by
  unfold look
  simp only
  have hslot := slot_lt st lr
  have hidx : prv * 2 ^ lr + (st % (2 ^ lr : Int)).toNat < f2s.size := by
    have : (prv + 1) * 2 ^ lr = prv * 2 ^ lr + 2 ^ lr := by rw [Nat.add_mul, Nat.one_mul]
    omega
  rw [if_pos hidx]
  have hcur := hb (prv * 2 ^ lr + (st % (2 ^ lr : Int)).toNat)
  have : (prv + 1) * 256 = prv * 256 + 256 := by omega
  rw [if_pos ⟨hcur, by omega⟩]
  exact hcur

/-- all four contexts are below `dim` -/
def QuadLt (p : Quad) (d : Nat) : Prop := p.1 < d ∧ p.2.1 < d ∧ p.2.2.1 < d ∧ p.2.2.2 < d

theorem round_safe (lr dim : Nat) (f2s : Array Nat) (syms : Array DecSym) (buf : Array Nat) (p : Quad) (s : Sts)
    (hf : dim * 2 ^ lr ≤ f2s.size) (hs : dim * 256 ≤ syms.size) (hb : Bytes f2s) (hp : QuadLt p dim)
    (hn : s.n + 8 ≤ buf.size) :
    (round lr f2s syms buf p s).Safe (fun r => QuadLt r.1 256 ∧ s.n ≤ r.2.n ∧ r.2.n ≤ s.n + 8) := by
  have hfk : ∀ k, k < dim → (k + 1) * 2 ^ lr ≤ f2s.size := fun k hk =>
    Nat.le_trans (Nat.mul_le_mul_right _ hk) hf
  have hsk : ∀ k, k < dim → (k + 1) * 256 ≤ syms.size := fun k hk =>
    Nat.le_trans (Nat.mul_le_mul_right _ hk) hs
  unfold round
  refine (look_safe lr f2s syms _ _ (hfk _ hp.2.2.2) (hsk _ hp.2.2.2) hb).bind ?_
  intro c3 h3
  refine (stepSym_safe lr buf s.n s.st3 c3.2 (by omega)).bind ?_
  intro d3 hd3
  refine (look_safe lr f2s syms _ _ (hfk _ hp.2.2.1) (hsk _ hp.2.2.1) hb).bind ?_
  intro c2 h2
  refine (stepSym_safe lr buf d3.1 s.st2 c2.2 (by omega)).bind ?_
  intro d2 hd2
  refine (look_safe lr f2s syms _ _ (hfk _ hp.2.1) (hsk _ hp.2.1) hb).bind ?_
  intro c1 h1
  refine (stepSym_safe lr buf d2.1 s.st1 c1.2 (by omega)).bind ?_
  intro d1 hd1
  refine (look_safe lr f2s syms _ _ (hfk _ hp.1) (hsk _ hp.1) hb).bind ?_
  intro c0 h0
  refine (stepSym_safe lr buf d1.1 s.st0 c0.2 (by omega)).bind ?_
  intro d0 hd0
  simp only [R.Safe, QuadLt]
  omega

theorem rounds0_safe (lr : Nat) (f2s : Array Nat) (syms : Array DecSym) (buf : Array Nat)
    (hf : 2 ^ lr ≤ f2s.size) (hs : 256 ≤ syms.size) (hb : Bytes f2s) : ∀ (m : Nat) (s : Sts),
    s.n + 8 * m ≤ buf.size →
    (rounds0 lr f2s syms buf m s).Safe (fun d => d.1.length = 4 * m ∧ d.2.n ≤ s.n + 8 * m) := by
  intro m
  induction m with
  | zero => intro s _; simp [rounds0, R.Safe]
  | succ m ih =>
    intro s hn
    simp only [rounds0]
    refine (round_safe lr 1 f2s syms buf (0, 0, 0, 0) s (by omega) (by omega) hb
      (by simp [QuadLt]) (by omega)).bind ?_
    intro r hr
    refine (ih r.2 (by omega)).bind ?_
    intro t ht
    simp only [R.Safe, List.length_cons]
    omega

theorem rounds1_safe (lr : Nat) (f2s : Array Nat) (syms : Array DecSym) (buf : Array Nat)
    (hf : 256 * 2 ^ lr ≤ f2s.size) (hs : 256 * 256 ≤ syms.size) (hb : Bytes f2s) : ∀ (m : Nat) (p : Quad) (s : Sts),
    QuadLt p 256 → s.n + 8 * m ≤ buf.size →
    (rounds1 lr f2s syms buf m p s).Safe (fun d => d.1.length = m ∧ d.2.n ≤ s.n + 8 * m) := by
  intro m
  induction m with
  | zero => intro p s _ _; simp [rounds1, R.Safe]
  | succ m ih =>
    intro p s hp hn
    simp only [rounds1]
    refine (round_safe lr 256 f2s syms buf p s hf hs hb hp (by omega)).bind ?_
    intro r hr
    refine (ih r.1 r.2 hr.1 (by omega)).bind ?_
    intro t ht
    simp only [R.Safe, List.length_cons]
    omega

theorem tailBytes_safe (buf : Array Nat) : ∀ (c n : Nat), n + c ≤ buf.size →
    (tailBytes buf c n).Safe (fun t => t.length = c) := by
  intro c
  induction c with
  | zero => intro n _; simp [tailBytes, R.Safe]
  | succ c ih =>
    intro n h
    simp only [tailBytes]
    rw [if_pos (by omega)]
    refine (ih (n + 1) (by omega)).bind ?_
    intro t ht
    simp only [R.Safe, List.length_cons]
    omega

theorem quartersOf_length (rows : List Quad) : (Kanzi.Ans1.quartersOf rows).length = 4 * rows.length := by
  simp only [Kanzi.Ans1.quartersOf, List.length_append, List.length_map]
  omega

theorem dimOf_zero : dimOf 0 = 1 := rfl

theorem dimOf_ge (order : Nat) (h : order ≠ 0) : 256 ≤ dimOf order := by
  unfold dimOf; omega

/-- **the decoding part of `decodeChunkV2` is fault free** whatever the states, the payload and the
    tables contain, as soon as the object has the sizes `decodeHeader` and the buffer rule give it -/
theorem chunkBody_safe (order lr len : Nat) (f2s : Array Nat) (syms : Array DecSym) (buf : Array Nat) (p : Pre)
    (hf : dimOf order * 2 ^ lr ≤ f2s.size) (hs : dimOf order * 256 ≤ syms.size) (hb : Bytes f2s)
    (hbuf : 2 * len ≤ buf.size) :
    (chunkBody order lr len f2s syms buf p).Safe (fun c => c.length = len) := by
  unfold chunkBody
  simp only
  have hq : 8 * (len / 4) + len % 4 ≤ buf.size := by omega
  split
  · rename_i h0
    subst h0
    rw [dimOf_zero] at hf hs
    rw [if_neg (by omega)]
    refine (rounds0_safe lr f2s syms buf (by omega) (by omega) hb (len / 4) _ (by simp only; omega)).bind ?_
    intro d hd
    refine (tailBytes_safe buf (len % 4) d.2.n (by simp only at hd; omega)).bind ?_
    intro t ht
    simp only [R.Safe, List.length_append]
    omega
  · rename_i h0
    have hd := dimOf_ge order h0
    have hf' : 256 * 2 ^ lr ≤ f2s.size := Nat.le_trans (Nat.mul_le_mul_right _ hd) hf
    have hs' : 256 * 256 ≤ syms.size := Nat.le_trans (Nat.mul_le_mul_right _ hd) hs
    refine (rounds1_safe lr f2s syms buf hf' hs' hb (len / 4) (0, 0, 0, 0) _ (by simp [QuadLt])
      (by simp only; omega)).bind ?_
    intro d hd
    refine (tailBytes_safe buf (len % 4) d.2.n (by simp only at hd; omega)).bind ?_
    intro t ht
    simp only [R.Safe, List.length_append, quartersOf_length]
    omega

/-! ### E'. the decoding part has no clean error return -/

theorem R.bind_ne_err {α β : Type} {x : R α} {f : α → R β} (hx : x ≠ .err) (hf : ∀ a, f a ≠ .err) :
    x.bind f ≠ .err := by
  cases x with
  | ok a => exact hf a
  | err => exact absurd rfl hx
  | eos => intro h; cases h
  | fault => intro h; cases h
  | overrun => intro h; cases h

theorem look_ne_err (lr : Nat) (f2s : Array Nat) (syms : Array DecSym) (prv : Nat) (st : Int) :
    look lr f2s syms prv st ≠ .err := by
  unfold look
  simp only
  split
  · split <;> (intro h; cases h)
  · intro h; cases h

theorem stepSym_ne_err (lr : Nat) (buf : Array Nat) (n : Nat) (st : Int) (sym : DecSym) :
    stepSym lr buf n st sym ≠ .err := by
  unfold stepSym
  simp only
  split
  · split <;> (intro h; cases h)
  · intro h; cases h

theorem round_ne_err (lr : Nat) (f2s : Array Nat) (syms : Array DecSym) (buf : Array Nat) (p : Quad) (s : Sts) :
    round lr f2s syms buf p s ≠ .err := by
  unfold round
  refine R.bind_ne_err (look_ne_err _ _ _ _ _) fun c3 => R.bind_ne_err (stepSym_ne_err _ _ _ _ _) fun d3 =>
    R.bind_ne_err (look_ne_err _ _ _ _ _) fun c2 => R.bind_ne_err (stepSym_ne_err _ _ _ _ _) fun d2 =>
    R.bind_ne_err (look_ne_err _ _ _ _ _) fun c1 => R.bind_ne_err (stepSym_ne_err _ _ _ _ _) fun d1 =>
    R.bind_ne_err (look_ne_err _ _ _ _ _) fun c0 => R.bind_ne_err (stepSym_ne_err _ _ _ _ _) fun d0 => ?_
  intro h; cases h

theorem rounds0_ne_err (lr : Nat) (f2s : Array Nat) (syms : Array DecSym) (buf : Array Nat) :
    ∀ (m : Nat) (s : Sts), rounds0 lr f2s syms buf m s ≠ .err := by
  intro m
  induction m with
  | zero => intro s h; cases h
  | succ m ih =>
    intro s
    simp only [rounds0]
    exact R.bind_ne_err (round_ne_err _ _ _ _ _ _) fun r => R.bind_ne_err (ih _) fun t => by intro h; cases h

theorem rounds1_ne_err (lr : Nat) (f2s : Array Nat) (syms : Array DecSym) (buf : Array Nat) :
    ∀ (m : Nat) (p : Quad) (s : Sts), rounds1 lr f2s syms buf m p s ≠ .err := by
  intro m
  induction m with
  | zero => intro p s h; cases h
  | succ m ih =>
    intro p s
    simp only [rounds1]
    exact R.bind_ne_err (round_ne_err _ _ _ _ _ _) fun r => R.bind_ne_err (ih _ _) fun t => by intro h; cases h

theorem tailBytes_ne_err (buf : Array Nat) : ∀ (c n : Nat), tailBytes buf c n ≠ .err := by
  intro c
  induction c with
  | zero => intro n h; cases h
  | succ c ih =>
    intro n
    simp only [tailBytes]
    split
    · exact R.bind_ne_err (ih _) fun t => by intro h; cases h
    · intro h; cases h

theorem chunkBody_ne_err (order lr len : Nat) (f2s : Array Nat) (syms : Array DecSym) (buf : Array Nat) (p : Pre) :
    chunkBody order lr len f2s syms buf p ≠ .err := by
  unfold chunkBody
  simp only
  split
  · split
    · intro h; cases h
    · exact R.bind_ne_err (rounds0_ne_err _ _ _ _ _ _) fun d => R.bind_ne_err (tailBytes_ne_err _ _ _) fun t => by
        intro h; cases h
  · exact R.bind_ne_err (rounds1_ne_err _ _ _ _ _ _ _) fun d => R.bind_ne_err (tailBytes_ne_err _ _ _) fun t => by
      intro h; cases h

/-! ### F. one iteration of `Read`'s loop, and the loop -/

theorem bufAlloc_size (len : Nat) (buf : Array Nat) : (bufAlloc len buf).size = bufSizeAfter len buf.size := by
  unfold bufAlloc bufSizeAfter
  split <;> simp

theorem bufSizeAfter_ge (len sz : Nat) : max (2 * len) 256 ≤ bufSizeAfter len sz := by
  unfold bufSizeAfter; split <;> omega

theorem bufSizeAfter_le (len sz B : Nat) (h1 : sz ≤ B) (h2 : max (2 * len) 256 ≤ B) : bufSizeAfter len sz ≤ B := by
  unfold bufSizeAfter; split <;> omega

theorem f2sSizeAfter_le (dim lr sz F : Nat) (h1 : sz ≤ F) (h2 : dim * 2 ^ lr ≤ F) : f2sSizeAfter dim lr sz ≤ F := by
  unfold f2sSizeAfter; split <;> omega

theorem loadPayload_ok (sz : Nat) (buf : Array Nat) (bs : Bits) (pl : Array Nat × Bits)
    (h : loadPayload sz buf bs = .ok pl) : pl.1.size = buf.size := by
  unfold loadPayload at h
  split at h
  · cases h
  · cases hr : readBytes sz bs with
    | none => rw [hr] at h; cases h
    | some q =>
      rw [hr] at h
      simp only [R.ok.injEq] at h
      rw [← h]
      simp only [fill_size, writePrefix_size]

theorem loadPayload_ne_fault (sz : Nat) (buf : Array Nat) (bs : Bits) :
    loadPayload sz buf bs ≠ .fault ∧ loadPayload sz buf bs ≠ .err := by
  unfold loadPayload
  split
  · constructor <;> (intro h; cases h)
  · cases readBytes sz bs <;> (constructor <;> (intro h; cases h))

theorem chunkPre_ne_fault (bs : Bits) : chunkPre bs ≠ .fault ∧ chunkPre bs ≠ .overrun := by
  have : (chunkPre bs).Safe (fun _ => True) := by
    unfold chunkPre
    cases readVarInt bs with
    | none => trivial
    | some q =>
      obtain ⟨sz, r⟩ := q
      simp only
      split
      · trivial
      · refine (rBits_safe 32 r).bind ?_
        intro x0 _
        refine (rBits_safe 32 x0.2).bind ?_
        intro x1 _
        refine (rBits_safe 32 x1.2).bind ?_
        intro x2 _
        refine (rBits_safe 32 x2.2).bind ?_
        intro x3 _
        trivial
  constructor <;> (intro h; rw [h] at this; exact this)

/-- the 3 bits of the log range: `lr = 8 + l ≤ 15` -/
theorem readBits3_lt (bs : Bits) (l : Nat) (r : Bits) (h : readBits 3 bs = some (l, r)) : l < 8 := by
  unfold readBits at h
  split at h
  · simp only [Option.some.injEq, Prod.mk.injEq] at h
    rw [← h.1]
    have := bitsNat_lt (List.take 3 bs)
    have hl : (List.take 3 bs).length ≤ 3 := by simp
    have : 2 ^ (List.take 3 bs).length ≤ 2 ^ 3 := Nat.pow_le_pow_right (by omega) hl
    omega
  · cases h

/-- invariant of the decoder object: `len(this.symbols) ≥ dim*256` (it is `= dim*256`, never
    reallocated) and `this.f2s` holds bytes -/
structure Inv (order : Nat) (syms : Array DecSym) (f2s : Array Nat) : Prop where
  syms : dimOf order * 256 ≤ syms.size
  bytes : Bytes f2s

/-- what is claimed of a finished `Read` (bitstream version other than 1) -/
structure ResGood (p : Params) (F B : Nat) (r : Result) : Prop where
  noFault : r.cls ≠ .stop .fault
  noErrStop : r.cls ≠ .stop .err
  noFuel : r.cls ≠ .fuel
  f2sLe : r.f2sSz ≤ F
  bufLe : r.bufSz ≤ B
  inv : ∀ n, r.cls = .ret n false → Inv p.order r.st.syms r.st.f2s ∧ r.st.f2s.size = r.f2sSz ∧ r.st.buf.size = r.bufSz

def StepGood (p : Params) (F B : Nat) : Step → Prop
  | .done r => ResGood p F B r
  | .next _ _ s f b _ => Inv p.order s f ∧ f.size ≤ F ∧ b.size ≤ B

theorem stopOf_ne_err {α : Type} (e : R α) (h : e ≠ .err) : stopOf e ≠ .err := by
  cases e <;> simp [stopOf] at * 

theorem stepV2_good (p : Params) (F B lr len rem : Nat) (acc : List Nat) (h : Hdr) (buf : Array Nat) (bs0 : Bits)
    (fsz : Nat) (hinv : Inv p.order h.syms h.f2s) (hf : dimOf p.order * 2 ^ lr ≤ h.f2s.size)
    (hfs : h.f2s.size ≤ F) (hfsz : fsz ≤ F) (hB : buf.size ≤ B) (hB2 : max (2 * len) 256 ≤ B) :
    StepGood p F B (stepV2 p.order lr len rem acc h buf bs0 fsz) := by
  unfold stepV2
  simp only
  have hpre := chunkPre_ne_fault h.rest
  cases hq : chunkPre h.rest with
  | err => exact ⟨by simp, by simp, by simp, hfsz, hB, by intro n hn; simp at hn⟩
  | eos => exact ⟨by simp [stopOf], by simp [stopOf], by simp, hfsz, hB, by intro n hn; simp at hn⟩
  | fault => exact absurd hq hpre.1
  | overrun => exact absurd hq hpre.2
  | ok q =>
    simp only
    have hbs := bufSizeAfter_le len buf.size B hB hB2
    cases hl : loadPayload q.sz (bufAlloc len buf) q.rest with
    | err => exact absurd hl (loadPayload_ne_fault _ _ _).2
    | eos => exact ⟨by simp [stopOf], by simp [stopOf], by simp, hfsz, hbs, by intro n hn; simp at hn⟩
    | fault => exact absurd hl (loadPayload_ne_fault _ _ _).1
    | overrun => exact ⟨by simp [stopOf], by simp [stopOf], by simp, hfsz, hbs, by intro n hn; simp at hn⟩
    | ok pl =>
      simp only
      have hps : pl.1.size = bufSizeAfter len buf.size := by
        rw [loadPayload_ok _ _ _ _ hl, bufAlloc_size]
      have hge := bufSizeAfter_ge len buf.size
      have hsafe := chunkBody_safe p.order lr len h.f2s h.syms pl.1 q hf hinv.syms hinv.bytes (by omega)
      cases hc : chunkBody p.order lr len h.f2s h.syms pl.1 q with
      | ok c => exact ⟨hinv, hfs, by omega⟩
      | err => exact absurd hc (chunkBody_ne_err _ _ _ _ _ _ _)
      | eos => exact ⟨by simp [stopOf], by simp [stopOf], by simp, hfsz, hbs, by intro n hn; simp at hn⟩
      | fault => rw [hc] at hsafe; exact absurd hsafe (by simp [R.Safe])
      | overrun => rw [hc] at hsafe; exact absurd hsafe (by simp [R.Safe])

theorem hdrBody_ne_overrun (dim lr : Nat) (f2s : Array Nat) (syms : Array DecSym) (bs : Bits)
    (hsy : dim * 256 ≤ syms.size) (hb : Bytes f2s) :
    hdrBody dim lr f2s syms bs ≠ .fault ∧ hdrBody dim lr f2s syms bs ≠ .overrun := by
  have := hdrBody_safe dim lr f2s syms bs hsy hb
  constructor <;> (intro h; rw [h] at this; exact this)

theorem two_pow_le_15 (l : Nat) (h : l < 8) : 2 ^ (8 + l) ≤ 2 ^ 15 := Nat.pow_le_pow_right (by omega) (by omega)

/-- one iteration of the loop (bitstream version other than 1) keeps the invariant, does not fault,
    and allocates within `F` / `B` -/
theorem chunkStep_good (p : Params) (hv : p.bsVersion ≠ 1) (F B count : Nat) (acc : List Nat)
    (syms : Array DecSym) (f2s buf : Array Nat) (bs : Bits) (hinv : Inv p.order syms f2s)
    (hF : f2s.size ≤ F) (hF2 : dimOf p.order * 2 ^ 15 ≤ F) (hB : buf.size ≤ B)
    (hB2 : max (2 * min p.chunkSize count) 256 ≤ B) :
    StepGood p F B (chunkStep p count acc syms f2s buf bs) := by
  unfold chunkStep
  simp only
  cases h3 : readBits 3 bs with
  | none => exact ⟨by simp, by simp, by simp, hF, hB, by intro n hn; simp at hn⟩
  | some q =>
    obtain ⟨l, r⟩ := q
    simp only
    have hl := readBits3_lt bs l r h3
    have hdim : dimOf p.order * 2 ^ (8 + l) ≤ F :=
      Nat.le_trans (Nat.mul_le_mul_left _ (two_pow_le_15 l hl)) hF2
    have hfa := f2sSizeAfter_le (dimOf p.order) (8 + l) f2s.size F hF hdim
    have hsafe := hdrBody_safe (dimOf p.order) (8 + l) f2s syms r hinv.syms hinv.bytes
    have hne := hdrBody_ne_overrun (dimOf p.order) (8 + l) f2s syms r hinv.syms hinv.bytes
    cases hh : hdrBody (dimOf p.order) (8 + l) f2s syms r with
    | err => exact ⟨by simp, by simp, by simp, hfa, hB, by intro n hn; simp at hn⟩
    | eos => exact ⟨by simp [stopOf], by simp [stopOf], by simp, hfa, hB, by intro n hn; simp at hn⟩
    | fault => exact absurd hh hne.1
    | overrun => exact absurd hh hne.2
    | ok h =>
      rw [hh] at hsafe
      simp only [R.Safe] at hsafe
      have hinv' : Inv p.order h.syms h.f2s := ⟨by rw [hsafe.2.1]; exact hinv.syms, hsafe.2.2⟩
      have hfs : h.f2s.size ≤ F := by rw [hsafe.1]; exact hfa
      have hfge : dimOf p.order * 2 ^ (8 + l) ≤ h.f2s.size := by
        rw [hsafe.1]; exact f2sSizeAfter_ge _ _ _
      simp only
      split
      · exact ⟨by simp, by simp, by simp, hfa, hB, by
          intro n _
          exact ⟨hinv', hsafe.1, rfl⟩⟩
      · split
        · exact ⟨hinv', hfs, hB⟩
        · exact stepV2_good p F B (8 + l) _ _ acc h buf bs _ hinv' hfge hfs hfa hB hB2

/-- the loop needs `ceil(count/chunkSize) + 1` units of fuel -/
theorem fuel_step (cs count fuel : Nat) (hcs : 0 < cs) (hc : count ≠ 0)
    (h : (count + cs - 1) / cs + 1 ≤ fuel + 1) :
    (count - min cs count + cs - 1) / cs + 1 ≤ fuel := by
  by_cases hlt : count < cs
  · have e : count - min cs count = 0 := by omega
    rw [e]
    have : 1 ≤ (count + cs - 1) / cs := by
      rw [Nat.le_div_iff_mul_le hcs]; omega
    have : (0 + cs - 1) / cs = 0 := Nat.div_eq_of_lt (by omega)
    omega
  · have e : count - min cs count + cs - 1 = count - 1 := by omega
    have e2 : count + cs - 1 = (count - 1) + cs := by omega
    rw [e2, Nat.add_div_right _ hcs] at h
    rw [e]
    omega

theorem readLoop_good (p : Params) (hv : p.bsVersion ≠ 1) (hcs : 0 < p.chunkSize) (F B : Nat)
    (hF2 : dimOf p.order * 2 ^ 15 ≤ F) : ∀ (fuel count : Nat) (acc : List Nat) (syms : Array DecSym)
    (f2s buf : Array Nat) (bs : Bits), Inv p.order syms f2s → f2s.size ≤ F → buf.size ≤ B →
    max (2 * min p.chunkSize count) 256 ≤ B → (count + p.chunkSize - 1) / p.chunkSize + 1 ≤ fuel →
    ResGood p F B (readLoop p fuel count acc syms f2s buf bs) := by
  intro fuel
  induction fuel with
  | zero => intro count acc syms f2s buf bs _ _ _ _ hfu; exact (Nat.not_succ_le_zero _ hfu).elim
  | succ fuel ih =>
    intro count acc syms f2s buf bs hinv hF hB hB2 hfu
    simp only [readLoop]
    split
    · exact ⟨by simp, by simp, by simp, hF, hB, by intro n _; exact ⟨hinv, rfl, rfl⟩⟩
    · rename_i hc
      have hg := chunkStep_good p hv F B count acc syms f2s buf bs hinv hF hF2 hB hB2
      cases hstep : chunkStep p count acc syms f2s buf bs with
      | done r => rw [hstep] at hg; exact hg
      | next c a s f b r =>
        rw [hstep] at hg
        simp only
        -- the new count
        have hcnt : c = count - min p.chunkSize count := by
          unfold chunkStep at hstep
          simp only at hstep
          split at hstep
          · cases hstep
          · split at hstep
            · split at hstep
              · cases hstep
              · split at hstep
                · simp only [Step.next.injEq] at hstep; exact hstep.1.symm
                · unfold stepV2 at hstep
                  simp only at hstep
                  split at hstep
                  · cases hstep
                  · split at hstep
                    · split at hstep
                      · simp only [Step.next.injEq] at hstep; exact hstep.1.symm
                      · cases hstep
                    · cases hstep
                  · cases hstep
            · cases hstep
            · cases hstep
        refine ih c a s f b r hg.1 hg.2.1 hg.2.2 ?_ ?_
        · have : min p.chunkSize c ≤ min p.chunkSize count := by rw [hcnt]; omega
          omega
        · rw [hcnt]; exact fuel_step p.chunkSize count fuel hcs hc hfu

/-! ### G. termination of the chunk loop for EVERY bitstream version -/

def StepShape (p : Params) (count : Nat) : Step → Prop
  | .done r => r.cls ≠ .fuel
  | .next c _ _ _ _ _ => c = count - min p.chunkSize count

theorem stepV2_shape (p : Params) (count lr : Nat) (acc : List Nat) (h : Hdr) (buf : Array Nat) (bs0 : Bits) (fsz : Nat) :
    StepShape p count (stepV2 p.order lr (min p.chunkSize count) (count - min p.chunkSize count) acc h buf bs0 fsz) := by
  unfold stepV2
  simp only
  split
  · simp [StepShape]
  · split
    · split <;> simp [StepShape]
    · simp [StepShape]
  · simp [StepShape]

theorem stepV1_shape (p : Params) (count lr : Nat) (acc : List Nat) (h : Hdr) (buf : Array Nat) (bs0 : Bits) (fsz : Nat) :
    StepShape p count (stepV1 p.order lr (min p.chunkSize count) (count - min p.chunkSize count) acc h buf bs0 fsz) := by
  unfold stepV1
  simp only
  split
  · simp [StepShape]
  · split
    · simp [StepShape]
    · split
      · split <;> simp [StepShape]
      · simp [StepShape]
  · simp [StepShape]

theorem chunkStep_shape (p : Params) (count : Nat) (acc : List Nat) (syms : Array DecSym) (f2s buf : Array Nat)
    (bs : Bits) : StepShape p count (chunkStep p count acc syms f2s buf bs) := by
  unfold chunkStep
  simp only
  split
  · simp [StepShape]
  · split
    · split
      · simp [StepShape]
      · split
        · simp [StepShape]
        · split
          · exact stepV1_shape p count _ acc _ buf bs _
          · exact stepV2_shape p count _ acc _ buf bs _
    · simp [StepShape]
    · simp [StepShape]

/-- **the chunk loop of `Read` ends within `ceil(count/chunkSize) + 1` iterations**, whatever the
    input and the bitstream version -/
theorem readLoop_terminates (p : Params) (hcs : 0 < p.chunkSize) : ∀ (fuel count : Nat) (acc : List Nat)
    (syms : Array DecSym) (f2s buf : Array Nat) (bs : Bits),
    (count + p.chunkSize - 1) / p.chunkSize + 1 ≤ fuel →
    (readLoop p fuel count acc syms f2s buf bs).cls ≠ .fuel := by
  intro fuel
  induction fuel with
  | zero => intro count acc syms f2s buf bs hfu; exact (Nat.not_succ_le_zero _ hfu).elim
  | succ fuel ih =>
    intro count acc syms f2s buf bs hfu
    simp only [readLoop]
    split
    · simp
    · rename_i hc
      have hs := chunkStep_shape p count acc syms f2s buf bs
      cases hstep : chunkStep p count acc syms f2s buf bs with
      | done r => rw [hstep] at hs; exact hs
      | next c a s f b r =>
        rw [hstep] at hs
        simp only [StepShape] at hs
        simp only
        exact ih c a s f b r (by rw [hs]; exact fuel_step p.chunkSize count fuel hcs hc hfu)

theorem chunksOf_enough (cs count : Nat) (hcs : 0 < cs) : (count + cs - 1) / cs + 1 ≤ chunksOf cs count := by
  unfold chunksOf
  have : (count + cs - 1) / cs ≤ count / cs + 1 := by
    have e : count + cs - 1 ≤ count + cs := by omega
    have := Nat.div_le_div_right (c := cs) e
    rw [Nat.add_div_right _ hcs] at this
    exact this
  omega

/-! ### H. `Read` -/

theorem read_terminates (p : Params) (hcs : 0 < p.chunkSize) (s : St) (bs : Bits) (count : Nat) :
    (read p s bs count).cls ≠ .fuel := by
  unfold read
  split
  · cases readBytes count bs <;> simp
  · exact readLoop_terminates p hcs _ count [] s.syms s.f2s s.buf bs (chunksOf_enough _ _ hcs)

theorem read_good (p : Params) (hv : p.bsVersion ≠ 1) (hcs : 0 < p.chunkSize) (s : St) (bs : Bits) (count : Nat)
    (hinv : Inv p.order s.syms s.f2s) :
    ResGood p (max s.f2s.size (dimOf p.order * 2 ^ 15)) (max s.buf.size (max (2 * min p.chunkSize count) 256))
      (read p s bs count) := by
  unfold read
  split
  · cases readBytes count bs with
    | none => exact ⟨by simp, by simp, by simp, by simp, by simp, by intro n hn; simp at hn⟩
    | some q =>
      exact ⟨by simp, by simp, by simp, by simp, by simp, by intro n _; exact ⟨hinv, rfl, rfl⟩⟩
  · exact readLoop_good p hv hcs _ _ (by omega) _ count [] s.syms s.f2s s.buf bs hinv (by omega) (by omega)
      (by omega) (chunksOf_enough _ _ hcs)

theorem fresh_inv (order : Nat) : Inv order (fresh order).syms (fresh order).f2s :=
  ⟨by simp [fresh], Bytes.empty⟩

/-! ### I. the constructors -/

theorem mkParams_facts (o c v : Option Nat) (p : Params) (h : mkParams o c v = some p) :
    (p.order = 0 ∨ p.order = 1) ∧ 1024 ≤ p.chunkSize ∧ p.chunkSize ≤ 2 ^ 27 ∧ p.bsVersion = v.getD 6 := by
  unfold mkParams at h
  simp only at h
  cases o with
  | none =>
    simp only [Option.some.injEq] at h
    rw [← h]
    refine ⟨Or.inl rfl, ?_, ?_, rfl⟩ <;> (simp only; split <;> omega)
  | some order =>
    simp only at h
    split at h
    · cases h
    · rename_i ho
      have ho' : order = 0 ∨ order = 1 := by omega
      cases c with
      | none =>
        simp only [Option.some.injEq] at h
        rw [← h]
        refine ⟨ho', ?_, ?_, rfl⟩ <;> (simp only; split <;> split <;> omega)
      | some chk =>
        simp only at h
        split at h
        · cases h
        · simp only [Option.some.injEq] at h
          rw [← h]
          refine ⟨ho', ?_, ?_, rfl⟩ <;> (simp only; split <;> omega)

/-! ### J. the oversize payload: exact condition -/

theorem loadPayload_overrun_iff (sz : Nat) (buf : Array Nat) (bs : Bits) :
    loadPayload sz buf bs = .overrun ↔ buf.size < sz := by
  unfold loadPayload
  constructor
  · intro h
    split at h
    · assumption
    · cases hr : readBytes sz bs <;> rw [hr] at h <;> cases h
  · intro h
    rw [if_pos h]

/-- `decodeChunkV2` ends in the oversize `ReadArray` exactly when the VarInt is accepted (`< 2^27`),
    the four states are present, and the size exceeds the buffer the code has just (re)allocated -/
theorem stepV2_overrun_iff (p : Params) (lr len rem : Nat) (acc : List Nat) (h : Hdr) (buf : Array Nat) (bs0 : Bits)
    (fsz : Nat) (hinv : Inv p.order h.syms h.f2s) (hf : dimOf p.order * 2 ^ lr ≤ h.f2s.size) :
    (∃ r, stepV2 p.order lr len rem acc h buf bs0 fsz = .done r ∧ r.cls = .stop .overrun) ↔
    ∃ q, chunkPre h.rest = .ok q ∧ bufSizeAfter len buf.size < q.sz := by
  unfold stepV2
  simp only
  have hpre := chunkPre_ne_fault h.rest
  cases hq : chunkPre h.rest with
  | err => simp
  | eos => simp [stopOf]
  | fault => exact absurd hq hpre.1
  | overrun => exact absurd hq hpre.2
  | ok q =>
    simp only [R.ok.injEq, exists_eq_left']
    rw [← bufAlloc_size, ← loadPayload_overrun_iff q.sz (bufAlloc len buf) q.rest]
    cases hl : loadPayload q.sz (bufAlloc len buf) q.rest with
    | err => exact absurd hl (loadPayload_ne_fault _ _ _).2
    | eos => simp [stopOf]
    | fault => exact absurd hl (loadPayload_ne_fault _ _ _).1
    | overrun => simp [stopOf]
    | ok pl =>
      simp only
      have hps : pl.1.size = bufSizeAfter len buf.size := by
        rw [loadPayload_ok _ _ _ _ hl, bufAlloc_size]
      have hge := bufSizeAfter_ge len buf.size
      have hsafe := chunkBody_safe p.order lr len h.f2s h.syms pl.1 q hf hinv.syms hinv.bytes (by omega)
      cases hc : chunkBody p.order lr len h.f2s h.syms pl.1 q with
      | ok c => simp
      | err => simp [stopOf]
      | eos => simp [stopOf]
      | fault => rw [hc] at hsafe; exact absurd hsafe (by simp [R.Safe])
      | overrun => rw [hc] at hsafe; exact absurd hsafe (by simp [R.Safe])

end Kanzi.AnsDec
