package main

// Stream `levels` (C19, oracle only: no Lean driver): the level table extracted from the SOURCE of
// v2/app (levels_facts.go, the same extractor that writes lean/Kanzi/Generated/Levels.lean, about
// which the theorems of lean/Kanzi/Properties/C19_levels.lean are proved) against the behaviour of
// the REAL binary $VERIF_BUILD/kanzi.  The table is re-extracted from $VERIF_REPO (default /repo)
// when the first scenario runs.
//
//   level  l=<n> opt=<short|long> shape= size= seed= j=<jobs>
//          `kanzi -c -l n -v 3` (or --level=n): exit 0; the printed "Block size", "Using <T> transform
//          (stage 1)", "Using <E> entropy codec (stage 2)" equal the table row (NONE is printed as
//          "no"); the header of the produced file (parsed by harness/internal/container) carries
//          transform.GetType(T), entropy.GetType(E) and the block size; `kanzi -d -v 3` prints the
//          same codecs back and restores the input byte for byte
//   nolevel shape= size= seed= j=    no -l / -t / -e: same checks against the row of `defaultLevel`
//   reject l=<text> opt=<short|long>   a level outside every extracted range check (or not a number):
//          the run must fail (exit status != 0) and must not create the output file
//
// Violations: Site "app.getTransformAndCodec"; Symptom "level-table-mismatch" (printed / header
// values differ from the table), "level-roundtrip-mismatch", "level-not-rejected", "exit-status",
// "process-panic", "hang".
// Output line: `ok l=<n> t=<T> e=<E> bs=<block size>` / `ok rejected` / `violation:<symptom>`.

import (
	"bytes"
	"fmt"
	"math/rand"
	"os"
	"path/filepath"
	"strconv"
	"strings"
	"sync"

	"kverif/internal/container"
)

const levelsSite = "app.getTransformAndCodec"

var (
	levelsOnce  sync.Once
	levelsTable *levelFacts
	levelsErr   error
)

func levelsRepo() string {
	if r := os.Getenv("VERIF_REPO"); r != "" {
		return r
	}
	return "/repo"
}

func levelsFacts() (*levelFacts, error) {
	levelsOnce.Do(func() { levelsTable, levelsErr = levelFactsOf(levelsRepo()) })
	return levelsTable, levelsErr
}

type levelsPrinted struct {
	transform, entropy string
	blockSize          int64
	nT, nE, nB         int // how many such lines were printed
}

// the lines printed with -v 3 by the compressor (stage 1 = transform) and by the decompressor
// (stage 1 = entropy); "no" stands for NONE
func levelsParse(out []byte) levelsPrinted {
	p := levelsPrinted{blockSize: -1}
	for _, l := range strings.Split(string(out), "\n") {
		l = strings.TrimSpace(l)
		if rest, ok := strings.CutPrefix(l, "Block size: "); ok {
			if num, ok := strings.CutSuffix(rest, " bytes"); ok {
				if v, err := strconv.ParseInt(num, 10, 64); err == nil {
					p.blockSize = v
					p.nB++
				}
			}
			continue
		}
		rest, ok := strings.CutPrefix(l, "Using ")
		if !ok {
			continue
		}
		if i := strings.Index(rest, " transform (stage "); i >= 0 {
			p.transform = rest[:i]
			p.nT++
		} else if i := strings.Index(rest, " entropy codec (stage "); i >= 0 {
			p.entropy = rest[:i]
			p.nE++
		}
	}
	if p.transform == "no" {
		p.transform = "NONE"
	}
	if p.entropy == "no" {
		p.entropy = "NONE"
	}
	return p
}

func (p levelsPrinted) String() string {
	return fmt.Sprintf("transform=%q entropy=%q blockSize=%d", p.transform, p.entropy, p.blockSize)
}

func levelsExec(op string, res *Result) string {
	ws := strings.Fields(op)
	if len(ws) == 0 {
		return "bad-op"
	}
	tbl, err := levelsFacts()
	if err != nil {
		res.Violation = &Violation{Kind: "input", Site: "harness", Symptom: "level-table-extraction", What: err.Error()}
		return "harness-error"
	}
	root, err := cliScratch()
	if err != nil {
		res.Violation = &Violation{Kind: "input", Site: "harness", Symptom: "scratch", What: err.Error()}
		return "harness-error"
	}
	defer os.RemoveAll(root)
	c := &cliCtx{res: res, root: root, m: g5ParseKV(ws[1:])}
	if _, err := os.Stat(cliBin()); err != nil {
		c.viol("harness", "cli-binary-missing", "cannot find the CLI binary "+cliBin()+" (build it with `go build -o .build/kanzi ./app` in /repo/v2)")
		return c.out()
	}
	res.Tags = append(res.Tags, "kind:"+ws[0])
	levelArgs := func(l string) []string {
		if c.str("opt") == "long" {
			return []string{"--level=" + l}
		}
		return []string{"-l", l}
	}
	switch ws[0] {
	case "level":
		l, err := strconv.ParseInt(c.str("l"), 10, 64)
		if err != nil {
			return "bad-op"
		}
		row, ok := tbl.lookup(l)
		if !ok {
			c.viol(levelsSite, "level-table-mismatch", fmt.Sprintf("level %d has no case in getTransformAndCodec", l))
			return c.out()
		}
		return levelsRoundTrip(c, tbl, row, tbl.blockSize(l), levelArgs(c.str("l")))
	case "nolevel":
		row, ok := tbl.lookup(tbl.defLevel)
		if !ok {
			c.viol(levelsSite, "level-table-mismatch", fmt.Sprintf("default level %d has no case in getTransformAndCodec", tbl.defLevel))
			return c.out()
		}
		res.Tags = append(res.Tags, "level:default")
		return levelsRoundTrip(c, tbl, row, tbl.bsDefault, nil)
	case "reject":
		if v, err := strconv.ParseInt(c.str("l"), 10, 64); err == nil {
			for _, b := range tbl.bounds {
				if v >= b.lo && v <= b.hi {
					return "bad-op" // not outside every range check: not a rejection scenario
				}
			}
		}
		in, out := filepath.Join(root, "in.dat"), filepath.Join(root, "out.knz")
		if err := os.WriteFile(in, cliData("text", 3000, 7), 0o644); err != nil {
			c.viol("harness", "scratch", err.Error())
			return c.out()
		}
		r := cliRun(append([]string{"-c", "-i", in, "-o", out, "-f", "-v", "3"}, levelArgs(c.str("l"))...), cliRunOpt{})
		c.crashCheck(levelsSite, "compress with invalid level "+c.str("l"), r)
		if r.timeout {
			c.viol(levelsSite, "hang", "compress with invalid level "+c.str("l")+": no exit within 300 s")
		}
		_, statErr := os.Stat(out)
		if r.rc == 0 || statErr == nil {
			c.viol(levelsSite, "level-not-rejected", fmt.Sprintf("level %q is outside the accepted range but the run exited with %d (output file created: %v): %s",
				c.str("l"), r.rc, statErr == nil, r.tail()))
		}
		res.Nontrivial = true
		res.Sample = map[string]any{"op": op, "rc": r.rc}
		if res.Violation != nil {
			return c.out()
		}
		return "ok rejected"
	}
	return "bad-op"
}

func levelsRoundTrip(c *cliCtx, tbl *levelFacts, row levelRow, wantBS int64, levelArgs []string) string {
	res := c.res
	data := cliData(c.str("shape"), c.num("size"), int64(c.num("seed")))
	in, out, back := filepath.Join(c.root, "in.dat"), filepath.Join(c.root, "out.knz"), filepath.Join(c.root, "back.dat")
	if err := os.WriteFile(in, data, 0o644); err != nil {
		c.viol("harness", "scratch", err.Error())
		return c.out()
	}
	jobs := c.str("j")
	if jobs == "" {
		jobs = "1"
	}
	what := fmt.Sprintf("level %d", row.level)
	if levelArgs == nil {
		what = fmt.Sprintf("no level option (default level %d)", row.level)
	}
	res.Tags = append(res.Tags, fmt.Sprintf("level:%d", row.level))
	want := levelsPrinted{transform: row.transform, entropy: row.entropy, blockSize: wantBS}

	// 1. compress, compare what the tool says it uses
	args := append([]string{"-c", "-i", in, "-o", out, "-f", "-v", "3", "-j", jobs}, levelArgs...)
	r := cliRun(args, cliRunOpt{})
	if !c.must(levelsSite, "compress, "+what, r) {
		return c.out()
	}
	got := levelsParse(r.out)
	if got.nT != 1 || got.nE != 1 || got.nB != 1 {
		c.viol(levelsSite, "level-table-mismatch", fmt.Sprintf("%s: expected one 'Block size', one 'Using .. transform' and one 'Using .. entropy codec' line with -v 3, got %d/%d/%d: %s",
			what, got.nB, got.nT, got.nE, r.tail()))
		return c.out()
	}
	if got.transform != want.transform || got.entropy != want.entropy || got.blockSize != want.blockSize {
		c.viol(levelsSite, "level-table-mismatch", fmt.Sprintf("%s: the compressor prints %v, the source table says %v", what, got, want))
		return c.out()
	}

	// 2. the header of the produced file (independent parser) carries the same codecs
	raw, err := os.ReadFile(out)
	if err != nil {
		c.viol(levelsSite, "level-table-mismatch", what+": no output file: "+err.Error())
		return c.out()
	}
	h, err := container.ParseHeader(container.NewBitReader(raw))
	if err != nil {
		c.viol(levelsSite, "level-table-mismatch", what+": cannot parse the header of the output: "+err.Error())
		return c.out()
	}
	tt, okT := realTransformType(row.transform)
	et, okE := realEntropyType(row.entropy)
	if !okT || !okE {
		c.viol(levelsSite, "level-table-mismatch", fmt.Sprintf("%s: the library rejects the names of the table: transform.GetType(%q) ok=%v, entropy.GetType(%q) ok=%v",
			what, row.transform, okT, row.entropy, okE))
		return c.out()
	}
	if h.Transform != tt || uint32(h.EntropyType) != et || int64(h.BlockSize) != wantBS || !h.CrcOK {
		c.viol(levelsSite, "level-table-mismatch", fmt.Sprintf("%s: header has transform=%#x entropy=%d blockSize=%d crcOK=%v, the table gives transform=%#x (%s) entropy=%d (%s) blockSize=%d",
			what, h.Transform, h.EntropyType, h.BlockSize, h.CrcOK, tt, row.transform, et, row.entropy, wantBS))
		return c.out()
	}
	if h.SzMask > 0 && h.OrigSize != uint64(len(data)) {
		c.viol(levelsSite, "level-table-mismatch", fmt.Sprintf("%s: header original size %d, input has %d bytes", what, h.OrigSize, len(data)))
		return c.out()
	}
	// names printed by the library for the header types (what the decompressor must show)
	tn, _ := realTransformName(tt)
	en, _ := realEntropyName(et)

	// 3. decompress: same codecs printed back, same bytes
	r = cliRun([]string{"-d", "-i", out, "-o", back, "-f", "-v", "3", "-j", jobs}, cliRunOpt{})
	if !c.must(levelsSite, "decompress, "+what, r) {
		return c.out()
	}
	gd := levelsParse(r.out)
	if gd.nT != 1 || gd.nE != 1 || gd.nB != 1 || gd.transform != want.transform || gd.entropy != want.entropy || gd.blockSize != want.blockSize ||
		tn != row.transform || en != row.entropy {
		c.viol(levelsSite, "level-table-mismatch", fmt.Sprintf("%s: the decompressor prints %v (lines %d/%d/%d), GetName gives %q / %q, the source table says %v",
			what, gd, gd.nB, gd.nT, gd.nE, tn, en, want))
		return c.out()
	}
	b, err := os.ReadFile(back)
	if err != nil || !bytes.Equal(b, data) {
		c.viol(levelsSite, "level-roundtrip-mismatch", fmt.Sprintf("%s (%s&%s): decompressed output differs from the input (%d bytes in, %d bytes back, err=%v)",
			what, row.transform, row.entropy, len(data), len(b), err))
		return c.out()
	}
	res.Nontrivial = true
	res.Key = fmt.Sprintf("%s|%s|%s|%s|%d", what, c.str("opt"), c.str("shape"), c.str("size"), c.num("seed"))
	res.Tags = append(res.Tags, "shape:"+c.str("shape"))
	res.Sample = map[string]any{"shape": c.str("shape"), "level": row.level, "transform": got.transform, "entropy": got.entropy,
		"blockSize": got.blockSize, "in": len(data), "out": len(raw)}
	return fmt.Sprintf("ok l=%d t=%s e=%s bs=%d", row.level, got.transform, got.entropy, got.blockSize)
}

func levelsGen(r *rand.Rand, tier string, n int, emit func(op string, tags ...string)) {
	// the levels come from the source table when it can be extracted (so that a level added to /repo
	// is exercised at once); 0..9 otherwise (Exec then reports the extraction failure)
	lv := []int64{0, 1, 2, 3, 4, 5, 6, 7, 8, 9}
	var rejects []string
	if tbl, err := levelsFacts(); err == nil {
		lv = lv[:0]
		for _, row := range tbl.rows {
			lv = append(lv, row.level)
		}
		lo, hi := tbl.bounds[0].lo, tbl.bounds[0].hi
		for _, b := range tbl.bounds {
			lo, hi = min(lo, b.lo), max(hi, b.hi)
		}
		// a level accepted by a range check without a case in the table is exercised too (Exec reports it)
		for l := lo; l <= hi && l < lo+64; l++ {
			if _, ok := tbl.lookup(l); !ok {
				lv = append(lv, l)
			}
		}
		rejects = []string{strconv.FormatInt(lo-1, 10), strconv.FormatInt(hi+1, 10), strconv.FormatInt(hi+2, 10), "99", "x", "1.5"}
	} else {
		rejects = []string{"-1", "10", "11", "99", "x", "1.5"}
	}
	if n == 0 {
		n = 2 // a TPAQX (level 9) run costs about 4 s whatever the input size
		if tier == "thorough" {
			n = 24
		}
	}
	opts := []string{"short", "long"}
	// directed: every level once with a fixed small text, both option spellings; no option; rejections
	for i, l := range lv {
		emit(fmt.Sprintf("level l=%d opt=%s shape=text size=20000 seed=1 j=1", l, opts[i%2]), "family:directed")
		emit(fmt.Sprintf("level l=%d opt=%s shape=random size=0 seed=1 j=1", l, opts[(i+1)%2]), "family:empty")
	}
	emit("nolevel shape=text size=20000 seed=1 j=1", "family:nolevel")
	emit("nolevel shape=mixed size=70000 seed=2 j=2", "family:nolevel")
	for i, l := range rejects {
		emit(fmt.Sprintf("reject l=%s opt=%s", l, opts[i%2]), "family:reject")
	}
	// random: n rounds over all levels
	for k := 0; k < n; k++ {
		for _, l := range lv {
			shape := cliShapes[r.Intn(len(cliShapes))]
			max := 300000
			if tier == "thorough" {
				max = 3000000
			}
			if l >= 8 { // TPAQ / TPAQX: slow and memory hungry
				max /= 8
			}
			size := 1 + r.Intn(max)
			if r.Intn(3) == 0 {
				size = 1 + r.Intn(2000)
			}
			emit(fmt.Sprintf("level l=%d opt=%s shape=%s size=%d seed=%d j=%d", l, opts[r.Intn(2)], shape, size, 1+r.Intn(1<<30), 1+r.Intn(4)),
				"family:random")
		}
	}
}

func init() {
	registerStream(&Stream{
		Name: "levels",
		Rule: "for every level of the table extracted from the source of v2/app (getTransformAndCodec, default block size switch, range checks), " +
			"`kanzi -c -l <n> -v 3` prints exactly that transform chain, entropy codec and block size, the header of the output carries their types, " +
			"`kanzi -d -v 3` prints them back and restores the input; without -l the default level's row is used; levels outside the range are refused",
		Gen:      levelsGen,
		Exec:     levelsExec,
		Parallel: 4,
	})
}
