/-
Bit-level lemmas for the output bitstream proofs: bits of bytes and 64-bit words, the accumulator
merge of `WriteBits` (by `getMsbD` extensionality).
-/
import Kanzi.Model.OBS
import Kanzi.Proofs.Bits

namespace Kanzi.OBS
open Kanzi.Bits

/-- bits of a bit vector, most significant first -/
def bvBits {n : Nat} (x : BitVec n) : Bits := mk n (fun i => x.getMsbD i)

def byteBits (l : List Byte) : Bits := ofBytes (l.map BitVec.toNat)
def wordBits (w : BitVec 64) : Bits := natBits w.toNat 64

theorem natBits_toNat {n : Nat} (x : BitVec n) : natBits x.toNat n = bvBits x := by
  rw [natBits_eq_mk, bvBits]
  apply mk_congr
  intro i hi
  rw [BitVec.testBit_toNat, BitVec.getMsbD_eq_getLsbD]
  simp [hi]

theorem wordBits_eq (w : BitVec 64) : wordBits w = bvBits w := natBits_toNat w

theorem bvBits_append {n m : Nat} (x : BitVec n) (y : BitVec m) :
    bvBits (x ++ y) = bvBits x ++ bvBits y := by
  unfold bvBits
  rw [mk_append]
  apply mk_congr
  intro i hi
  rw [BitVec.getMsbD_append]
  by_cases h : n ≤ i
  · have : ¬ i < n := by omega
    simp [h, this]
  · have : i < n := by omega
    simp [h, this]

theorem byteBits_nil : byteBits [] = [] := rfl
theorem byteBits_cons (b : Byte) (l : List Byte) : byteBits (b :: l) = bvBits b ++ byteBits l := by
  simp [byteBits, ofBytes_cons, natBits_toNat]
theorem byteBits_append (l₁ l₂ : List Byte) : byteBits (l₁ ++ l₂) = byteBits l₁ ++ byteBits l₂ := by
  simp [byteBits, ofBytes_append]
@[simp] theorem byteBits_length (l : List Byte) : (byteBits l).length = 8 * l.length := by
  simp [byteBits]
theorem byteBits_take (l : List Byte) (k : Nat) : (byteBits l).take (8 * k) = byteBits (l.take k) := by
  simp [byteBits, ofBytes_take, List.map_take]
theorem byteBits_drop (l : List Byte) (k : Nat) : (byteBits l).drop (8 * k) = byteBits (l.drop k) := by
  simp [byteBits, ofBytes_drop, List.map_drop]

/-- `binary.BigEndian.Uint64` reads the first eight bytes -/
theorem wordBits_be64 (l : List Byte) (h : 8 ≤ l.length) : wordBits (be64 l) = byteBits (l.take 8) := by
  match l, h with
  | b0 :: b1 :: b2 :: b3 :: b4 :: b5 :: b6 :: b7 :: tl, _ =>
    rw [wordBits_eq]
    simp only [be64, List.getD_cons_zero, List.getD_cons_succ, List.take_succ_cons, List.take_zero,
      byteBits_cons, byteBits_nil, List.append_nil]
    simp only [bvBits_append, List.append_assoc]

/-- one byte stored by `PutUint64` / the padding loop of `Close` -/
theorem bvBits_byte (w : BitVec 64) (sh : Nat) (hsh : sh ≤ 56) :
    bvBits ((w >>> sh).setWidth 8) = mk 8 (fun j => w.getMsbD (56 - sh + j)) := by
  unfold bvBits
  apply mk_congr
  intro j hj
  rw [BitVec.getMsbD_eq_getLsbD, BitVec.getLsbD_setWidth, BitVec.getLsbD_ushiftRight,
    BitVec.getMsbD_eq_getLsbD]
  have h1 : 56 - sh + j < 64 := by omega
  have h2 : 8 - 1 - j < 8 := by omega
  simp only [hj, h1, h2, decide_true, Bool.true_and]
  congr 1
  omega

theorem byteBits_wordBytes (w : BitVec 64) : byteBits (wordBytes w) = wordBits w := by
  rw [wordBits_eq]
  have e : w.setWidth 8 = (w >>> 0).setWidth 8 := by simp
  simp only [wordBytes, byteBits_cons, byteBits_nil, List.append_nil]
  rw [e]
  rw [bvBits_byte w 56 (by omega), bvBits_byte w 48 (by omega), bvBits_byte w 40 (by omega),
    bvBits_byte w 32 (by omega), bvBits_byte w 24 (by omega), bvBits_byte w 16 (by omega),
    bvBits_byte w 8 (by omega), bvBits_byte w 0 (by omega)]
  unfold bvBits
  have h64 : mk 64 (fun i => w.getMsbD i) = mk (8 + (8 + (8 + (8 + (8 + (8 + (8 + 8))))))) (fun i => w.getMsbD i) := rfl
  rw [h64]
  simp only [mk_split 8]
  simp only [Nat.sub_self, Nat.zero_add]
  rfl


/-! ### the accumulator -/

/-- the low `a` bits of `w` are zero -/
def LowZero (w : BitVec 64) (a : Nat) : Prop := ∀ j, 64 - a ≤ j → j < 64 → w.getMsbD j = false

theorem merge_bit (cur v : BitVec 64) (a n i : Nat) (_ha : a ≤ 64) (hn : n ≤ 64) (hi : i < 64)
    (hz : LowZero cur a) :
    (merge cur v a n).getMsbD i =
      if i < 64 - a then cur.getMsbD i
      else if i < 64 - a + n then v.getMsbD (64 - n + (i - (64 - a)))
      else false := by
  unfold merge
  simp only [BitVec.getMsbD_or, BitVec.getMsbD_ushiftRight, BitVec.getMsbD_shiftLeft]
  by_cases h1 : i < 64 - a
  · simp [h1]
  · have := hz i (by omega) hi
    simp only [h1, if_false, this, Bool.false_or]
    by_cases h2 : i < 64 - a + n
    · simp only [hi, h2, if_true, decide_true, Bool.true_and, Bool.not_false, decide_false]
      congr 1; omega
    · simp only [h2, if_false]
      have : v.getMsbD (i - (64 - a) + (64 - n)) = false := by
        apply BitVec.getMsbD_of_ge; omega
      simp [this]

theorem natBits_word (v : BitVec 64) (n : Nat) (hn : n ≤ 64) :
    natBits v.toNat n = mk n (fun j => v.getMsbD (64 - n + j)) := by
  rw [natBits_eq_mk]
  apply mk_congr
  intro i hi
  rw [BitVec.testBit_toNat, BitVec.getMsbD_eq_getLsbD]
  have : 64 - n + i < 64 := by omega
  simp only [this, decide_true, Bool.true_and]
  congr 1; omega

/-- (A) `count < availBits`: the new bits land below the pending ones -/
theorem curBits_merge_lt (cur v : BitVec 64) (a n : Nat) (ha : a ≤ 64) (hn : n < a) (hz : LowZero cur a) :
    (wordBits (merge cur v a n)).take (64 - a + n) = (wordBits cur).take (64 - a) ++ natBits v.toNat n := by
  rw [wordBits_eq, wordBits_eq, natBits_word v n (by omega)]
  unfold bvBits
  rw [mk_take _ _ _ (by omega), mk_take _ _ _ (by omega), mk_append]
  apply mk_congr
  intro i hi
  rw [merge_bit cur v a n i ha (by omega) (by omega) hz]
  by_cases h1 : i < 64 - a
  · simp [h1]
  · simp [h1, hi]

/-- (B) -/
theorem lowZero_merge_lt (cur v : BitVec 64) (a n : Nat) (ha : a ≤ 64) (hn : n < a) (hz : LowZero cur a) :
    LowZero (merge cur v a n) (a - n) := by
  intro j h1 h2
  rw [merge_bit cur v a n j ha (by omega) h2 hz]
  have : ¬ j < 64 - a := by omega
  have : ¬ j < 64 - a + n := by omega
  simp [*]

/-- (C) `count ≥ availBits`: the accumulator is filled with the first `availBits` new bits -/
theorem wordBits_merge_ge (cur v : BitVec 64) (a n : Nat) (han : a ≤ n) (hn : n ≤ 64) (hz : LowZero cur a) :
    wordBits (merge cur v a n) = (wordBits cur).take (64 - a) ++ (natBits v.toNat n).take a := by
  rw [wordBits_eq, wordBits_eq, natBits_word v n hn]
  unfold bvBits
  rw [mk_take _ _ _ (by omega), mk_take _ _ _ han, mk_append]
  have : 64 - a + a = 64 := by omega
  rw [this]
  apply mk_congr
  intro i hi
  rw [merge_bit cur v a n i (by omega) hn hi hz]
  by_cases h1 : i < 64 - a
  · simp [h1]
  · have : i < 64 - a + n := by omega
    simp [h1, this]

/-- (D) the remaining new bits start the next accumulator -/
theorem curBits_shift (v : BitVec 64) (a n : Nat) (han : a ≤ n) (hn : n ≤ 64) :
    (wordBits (v <<< (64 - (n - a)))).take (n - a) = (natBits v.toNat n).drop a := by
  rw [wordBits_eq, natBits_word v n hn]
  unfold bvBits
  rw [mk_take _ _ _ (by omega), mk_drop]
  apply mk_congr
  intro i hi
  rw [BitVec.getMsbD_shiftLeft]
  congr 1; omega

/-- (E) -/
theorem lowZero_shift (v : BitVec 64) (k : Nat) : LowZero (v <<< k) k := by
  intro j h1 h2
  rw [BitVec.getMsbD_shiftLeft]
  apply BitVec.getMsbD_of_ge; omega

theorem lowZero_zero (a : Nat) : LowZero 0 a := by
  intro j _ _; simp

theorem lowZero_mono (w : BitVec 64) (a b : Nat) (h : b ≤ a) (hz : LowZero w a) : LowZero w b := by
  intro j h1 h2; exact hz j (by omega) h2

theorem bitWord_shift (b : Bool) (a : Nat) (ha1 : 1 ≤ a) (ha : a ≤ 64) :
    bitWord b <<< (a - 1) = (bitWord b <<< (64 - 1)) >>> (64 - a) := by
  apply BitVec.eq_of_getMsbD_eq
  intro i hi
  simp only [BitVec.getMsbD_ushiftRight, BitVec.getMsbD_shiftLeft]
  cases b
  · simp [bitWord]
  · simp only [bitWord, if_true]
    by_cases h : i < 64 - a
    · have : (1#64).getMsbD (i + (a - 1)) = false := by
        rw [BitVec.getMsbD_eq_getLsbD]; simp; omega
      simp [h, this]
    · simp only [hi, h, decide_true, decide_false, Bool.not_false, Bool.true_and]
      congr 1; omega

theorem natBits_bitWord (b : Bool) : natBits (bitWord b).toNat 1 = [b] := by
  cases b <;> decide

theorem bitWord_merge (cur : BitVec 64) (b : Bool) : cur ||| bitWord b = merge cur (bitWord b) 1 1 := by
  unfold merge
  congr 1
  have := bitWord_shift b 1 (by omega) (by omega)
  simpa using this

end Kanzi.OBS
