package main

// Stream `det` (C04): the compressed output is a pure function of (data, transform, entropy, block
// size, checksum, hint, header mode): the same input compressed by the REAL Writer with different
// numbers of jobs, different partitions of the input into Write calls and (build tag verif)
// different schedules of the block tasks must give byte-identical streams.
//
// Scenario line:
//   det shape=<name> size=<n> dseed=<s> t=<chain> e=<entropy> bs=<blocksize> ck=<0|32|64>
//       hint=<none|exact|half|double|huge|<n>> hl=<0|1> j=<j1,j2,...> wsplit=<w1/w2/...> sched=<k> sseed=<s> [pert=rot]
// Reference = 1 job, one Write, unperturbed.  Variants = every j x every wsplit x (unperturbed +
// k perturbed schedules).  Perturbation = io.VerifHook yielding / sleeping at the protocol points
// of the encoding tasks (mode 1: random yields everywhere; mode 2: early blocks start late so
// that later blocks finish first and have to wait; mode 3: long stays inside the shared-stream
// section so that all other tasks pile up spinning), decisions drawn from sseed.
// The hook is process-global: scenarios running concurrently perturb each other as well, which is
// harmless (the property quantifies over all schedules).

import (
	"fmt"
	"math/rand"
	"runtime"
	"strconv"
	"strings"
	"sync"
	"sync/atomic"
	"time"

	"kverif/internal/gen"

	kio "github.com/flanglet/kanzi-go/v2/io"
)

var detHook struct {
	once   sync.Once
	active int32
	mode   int32
	seed   uint64
	ctr    uint64
	calls  uint64
}

func detMix(x uint64) uint64 {
	x += 0x9E3779B97F4A7C15
	x = (x ^ (x >> 30)) * 0xBF58476D1CE4E5B9
	x = (x ^ (x >> 27)) * 0x94D049BB133111EB
	return x ^ (x >> 31)
}

func detHookFn(side, point int, id int32, ctr *int32) {
	if atomic.LoadInt32(&detHook.active) == 0 || side != kio.VERIF_ENC {
		return
	}
	atomic.AddUint64(&detHook.calls, 1)
	x := detMix(atomic.AddUint64(&detHook.ctr, 1) ^ atomic.LoadUint64(&detHook.seed))
	mode := atomic.LoadInt32(&detHook.mode)
	spin := point == kio.VERIF_PRE_LOAD || point == kio.VERIF_POST_LOAD
	switch mode {
	case 2:
		if point == kio.VERIF_START {
			// the lower the block id within its batch, the later it starts
			time.Sleep(time.Duration(40*(63-int(id&63))) * time.Microsecond / 4)
			return
		}
	case 3:
		if point == kio.VERIF_IO_BEGIN || point == kio.VERIF_IO_END || point == kio.VERIF_PRE_PUB {
			time.Sleep(time.Duration(50+x%200) * time.Microsecond)
			return
		}
	}
	k := x % 16
	if spin {
		// inside the wait loop: mostly yield, rarely sleep
		if k < 4 {
			runtime.Gosched()
		} else if k == 4 {
			time.Sleep(time.Duration(1+x>>60) * time.Microsecond)
		}
		return
	}
	switch {
	case k < 6:
		runtime.Gosched()
	case k < 8:
		time.Sleep(time.Duration(1+k) * time.Microsecond)
	case k == 8:
		time.Sleep(200 * time.Microsecond)
	}
}

// detPerturbed runs f with the perturbation active (mode, seed).
func detPerturbed(mode int, seed uint64, f func()) {
	detHook.once.Do(func() { kio.VerifHook = detHookFn })
	atomic.StoreUint64(&detHook.seed, seed)
	atomic.StoreInt32(&detHook.mode, int32(mode))
	atomic.AddInt32(&detHook.active, 1)
	defer atomic.AddInt32(&detHook.active, -1)
	f()
}

func detExec(op string, res *Result) string {
	c, err := g1Parse(op)
	if err != nil {
		res.Violation = &Violation{Kind: "input", Site: "harness", Symptom: "bad-scenario", What: err.Error()}
		return "bad-scenario"
	}
	data, err := c.data()
	if err != nil {
		res.Violation = &Violation{Kind: "input", Site: "harness", Symptom: "bad-scenario", What: err.Error()}
		return "bad-scenario"
	}
	return g1Guard(op, res, g1Limit(c.Size)*2, func() string { return detRun(c, data, res) })
}

func detRun(c *g1Cfg, data []byte, res *Result) string {
	var js []int
	for _, s := range strings.Split(c.KV["j"], ",") {
		if x, err := strconv.Atoi(s); err == nil && x > 0 {
			js = append(js, x)
		}
	}
	if len(js) == 0 {
		js = []int{1, 2, 4}
	}
	ws := strings.Split(c.KV["wsplit"], "/")
	if len(ws) == 0 || ws[0] == "" {
		ws = []string{"one"}
	}
	sched, _ := strconv.Atoi(c.KV["sched"])
	ss, _ := strconv.Atoi(c.KV["sseed"])
	hint := g1Hint(c.Hint, len(data))
	nblocks := (len(data) + c.BS - 1) / c.BS
	res.Tags = append(res.Tags, "e:"+strings.ToUpper(c.E), "shape:"+c.Shape, "hint:"+g1HintClass(c.Hint), "bs:"+strconv.Itoa(c.BS), "ck:"+strconv.Itoa(c.CK), "hl:"+strconv.FormatBool(c.HL), "blocks:"+g1SizeClass(len(data), c.BS))
	for _, t := range strings.Split(strings.ToUpper(c.T), "+") {
		res.Tags = append(res.Tags, "t:"+t)
	}
	comp := func(j int, w string, mode int) g1Comp {
		p := g1Params{T: c.T, E: c.E, BS: c.BS, J: j, CK: c.CK, Hint: hint, HL: c.HL, API: c.API, WSplit: w, Seed: c.DSeed + int64(j)}
		var out g1Comp
		if mode == 0 {
			return g1Compress(data, p)
		}
		detPerturbed(mode, uint64(ss)*1000003+uint64(j)*131+uint64(mode), func() { out = g1Compress(data, p) })
		return out
	}
	ref := comp(1, "one", 0)
	if ref.CtorErr != nil {
		res.Tags = append(res.Tags, "outcome:rejected")
		return "rejected " + g1ErrClass(ref.CtorErr)
	}
	if ref.Err != nil {
		// the reference itself fails: a round-trip (C01) matter, reported by the rt stream
		res.Tags = append(res.Tags, "outcome:ref-error")
		return "ref-error"
	}
	errText := ""
	same := func(x g1Comp) (bool, string) {
		if x.CtorErr != nil {
			return false, "constructor error " + x.CtorErr.Error()
		}
		if x.Err != nil {
			if errText == "" {
				errText = x.Err.Error()
			}
			return false, fmt.Sprintf("%s returned %q while the 1-job single-write reference succeeded", x.Where, x.Err.Error())
		}
		if i := g1FirstDiff(x.Out, ref.Out); i >= 0 {
			return false, fmt.Sprintf("stream of %d bytes differs from the reference of %d bytes at offset %d", len(x.Out), len(ref.Out), i)
		}
		return true, ""
	}
	variants, bad := 0, 0
	var first string
	var firstSym string
	maxJ := 1
	for ji, j := range js {
		maxJ = max(maxJ, j)
		for wi, w := range ws {
			for s := 0; s <= sched; s++ {
				if j == 1 && w == "one" && s == 0 {
					continue
				}
				if s > 0 && c.KV["pert"] == "rot" && wi != (ji+s)%len(ws) {
					continue // quick tier: the perturbed schedules rotate over the partitions instead of multiplying them
				}
				variants++
				ok, why := same(comp(j, w, s))
				if ok {
					continue
				}
				bad++
				if first != "" {
					continue
				}
				// which parameter is responsible: change one at a time from the reference
				sym := "output-depends-on-schedule"
				if okj, _ := same(comp(j, "one", 0)); !okj {
					sym = "output-depends-on-jobs"
				} else if okw, _ := same(comp(1, w, 0)); !okw {
					sym = "output-depends-on-partition"
				} else if okjw, _ := same(comp(j, w, 0)); !okjw {
					sym = "output-depends-on-jobs"
					why += " (only with this jobs/partition combination)"
				}
				firstSym = sym
				first = fmt.Sprintf("j=%d wsplit=%s schedule=%d: %s", j, w, s, why)
			}
		}
	}
	res.Key = strings.Join([]string{strings.ToUpper(c.T), strings.ToUpper(c.E), c.Shape, g1SizeClass(len(data), c.BS), g1HintClass(c.Hint), c.KV["j"], c.KV["wsplit"]}, "|")
	res.Nontrivial = nblocks >= 2 && maxJ > 1 && variants > 0
	if nblocks > maxJ {
		res.Tags = append(res.Tags, "more-blocks-than-jobs")
	}
	si := g1Analyse(ref.Out, c.HL, c.T, c.CK)
	if si.Applied > 0 {
		res.Tags = append(res.Tags, "applied:yes")
	}
	res.Sample = map[string]any{"scenario": c.Raw, "variants": variants, "ref_len": len(ref.Out), "blocks": nblocks, "applied_blocks": si.Applied, "hook_calls_so_far": atomic.LoadUint64(&detHook.calls)}
	if bad > 0 {
		kind := "schedule"
		if firstSym != "output-depends-on-schedule" {
			kind = "input"
		}
		site := "io.Writer"
		if errText != "" {
			// a variant FAILED where the reference succeeded: locate the stage that faults (a block
			// codec whose behaviour depends on the buffers it is handed is the usual cause)
			if ds, how := g1Diagnose(data, c.T, c.E, c.BS); ds != "" {
				site = g1QualifySite(ds, errText)
				first += " [" + how + "]"
			}
		}
		g1SetViolation(res, &Violation{Kind: kind, Site: site, Symptom: firstSym, What: fmt.Sprintf("%d of %d variants differ from the 1-job single-write reference; first: %s", bad, variants, first)})
		res.Tags = append(res.Tags, "outcome:violation")
		return "violation " + firstSym
	}
	res.Tags = append(res.Tags, "outcome:ok")
	return fmt.Sprintf("ok variants=%d len=%d", variants, len(ref.Out))
}

func detGen(r *rand.Rand, tier string, n int, emit func(op string, tags ...string)) {
	thorough := tier == "thorough"
	allJ := "1,2,3,4,7,8,16,32,63,64"
	allW := "one/1/bs/bsm1/bsp1/rand/zero"
	jl := []int{1, 2, 3, 4, 7, 8, 16, 32, 63, 64}
	wl := []string{"one", "1", "bs", "bsm1", "bsp1", "rand", "zero"}
	sampleJ := func(k int, heavy bool) string {
		if heavy {
			return "1,2,3,4"
		}
		p := r.Perm(len(jl))[:k]
		out := []string{}
		for _, i := range p {
			out = append(out, strconv.Itoa(jl[i]))
		}
		return strings.Join(out, ",")
	}
	sampleW := func(k int) string {
		p := r.Perm(len(wl))[:k]
		out := []string{}
		for _, i := range p {
			out = append(out, wl[i])
		}
		return strings.Join(out, "/")
	}
	pert := ""
	if !thorough {
		pert = " pert=rot"
	}
	mk := func(fam, shape string, size int, t, e string, bs, ck int, hint string, hl int, j, w string, sched int) {
		if g1Heavy(e) && e != "CM" && !thorough {
			// TPAQ/TPAQX allocate > 100 MB per block task: two job counts, two partitions, one perturbed schedule
			jj, ww := strings.Split(j, ","), strings.Split(w, "/")
			j, w, sched = strings.Join(jj[:min(2, len(jj))], ","), strings.Join(ww[:min(2, len(ww))], "/"), 1
		}
		emit(fmt.Sprintf("det shape=%s size=%d dseed=%d t=%s e=%s bs=%d ck=%d hint=%s hl=%d j=%s wsplit=%s sched=%d sseed=%d%s",
			shape, size, r.Intn(1<<30), t, e, bs, ck, hint, hl, j, w, sched, r.Intn(1<<30), pert), "family:"+fam)
	}
	hints := []string{"none", "exact", "half", "double", "huge", "1", "3000"}
	dtChains := []string{"TEXT", "TEXT+LZ", "RLT", "LZ", "PACK", "NONE", "EXE+TEXT+UTF", "MM+LZ", "TEXT+UTF+PACK+MM+LZX", "UTF", "DNA+LZ", "LZX", "LZP", "EXE"}
	// 1. full cross on MIXED content with more blocks than jobs (bs = 1024, > 64 blocks)
	reps := 1
	if thorough {
		reps = 6
	} else {
		dtChains = []string{"TEXT+LZ", "RLT", "LZ", "PACK", "NONE", "TEXT", "MM+LZ", "EXE+TEXT+UTF"}
	}
	for rep := 0; rep < reps; rep++ {
		for _, t := range dtChains {
			e := pick(r, g1LightEntropies)
			mk("full-cross", "mixedsafe", 66*1024+r.Intn(6*1024), t, e, 1024, pick(r, []int{0, 32, 64}), pick(r, hints), r.Intn(4)/3, allJ, allW, 3)
		}
	}
	// 1b. short last block + data on which a stage barely expands: whether a stage is applied must
	// not depend on the size or the reuse of the task's output buffer (hence not on jobs / hint)
	for _, t := range g1Transforms {
		for _, sh := range []string{"uniqwords", "random"} {
			if !thorough && sh == "random" && t != "ROLZX" && t != "LZ" && t != "RLT" && t != "ZRLT" && t != "SRT" {
				continue
			}
			bs := pick(r, []int{4096, 65536})
			size := bs + bs/3 + r.Intn(64)
			mk("short-last-block", sh, size, t, pick(r, g1LightEntropies), bs, 32, pick(r, []string{"exact", "none"}), 0, "1,2,3,4,8", "one/bs", 1)
		}
	}
	// 1c. skipBlocks (the CLI's --skip): the copy-or-compress decision of every block, in particular of a
	// short last block whose length is not a multiple of 16, must depend on the block alone - not on
	// what an earlier block left in the task slot it lands in (hence not on jobs / partition).  Random
	// tails of 200..700 bytes have an order-0 entropy near the decision threshold.
	nskip := 40
	if thorough {
		nskip = 600
	}
	for i := 0; i < nskip; i++ {
		bs := pick(r, []int{1024, 1024, 2048})
		tail := 200 + r.Intn(500)
		if tail%16 == 0 {
			tail++
		}
		size := bs*(1+r.Intn(3)) + tail
		sh := pick(r, []string{"random", "random", "mixedsafe"})
		emit(fmt.Sprintf("det shape=%s size=%d dseed=%d t=%s e=%s bs=%d ck=%d hint=%s hl=0 j=1,2,3,4 wsplit=one/bs/rand sched=1 sseed=%d api=ctxskip%s",
			sh, size, r.Intn(1<<30), pick(r, []string{"NONE", "NONE", "LZ", "RLT"}), pick(r, []string{"HUFFMAN", "ANS0", "FPAQ", "NONE"}), bs, pick(r, []int{0, 32}), pick(r, []string{"none", "exact"}), r.Intn(1<<30), pert), "family:skip-blocks")
	}
	// 2. every entropy codec (dataType-dependent chains in front), sampled J / partitions
	reps = 1
	if thorough {
		reps = 12
	}
	for rep := 0; rep < reps; rep++ {
		for _, e := range g1Entropies {
			chains := []string{"NONE", "TEXT", "TEXT+LZ", "RLT", "PACK", "LZ"}
			if !thorough {
				r.Shuffle(len(chains), func(i, j int) { chains[i], chains[j] = chains[j], chains[i] })
				chains = chains[:3]
			}
			for _, t := range chains {
				heavy := g1Heavy(e)
				bs := pick(r, []int{1024, 4096})
				size := 5*bs + r.Intn(12*bs)
				if heavy {
					size = 3*bs + r.Intn(4*bs)
				}
				mk("entropy", pick(r, []string{"mixedsafe", "text", "mixedsafe", "fib", "runs"}), size, t, e, bs, pick(r, []int{0, 32, 64}), pick(r, hints), r.Intn(4)/3, sampleJ(4, heavy), sampleW(3), 3)
			}
		}
	}
	// 3. every single transform and the CLI levels
	reps = 1
	if thorough {
		reps = 10
	}
	for rep := 0; rep < reps; rep++ {
		for _, t := range g1Transforms {
			sh := pick(r, append([]string{"mixedsafe"}, g1Favourable[t]...))
			if t == "ROLZX" && (sh == "dna" || sh == "dnarep") {
				sh = "reptext"
			}
			if t == "EXE" {
				sh = pick(r, []string{"exe-elfsec", "exe-pe", "mixedsafe"})
			}
			if t == "UTF" {
				sh = pick(r, []string{"utf8-50", "mixedsafe"})
			}
			bs := pick(r, []int{1024, 4096, 65536})
			size := 4*bs + r.Intn(8*bs)
			if size > 300000 {
				size = 200000 + r.Intn(100000)
			}
			mk("single-t", sh, size, t, pick(r, g1LightEntropies), bs, pick(r, []int{0, 32, 64}), pick(r, hints), r.Intn(4)/3, sampleJ(4, false), sampleW(3), 3)
		}
		for lvl, te := range g1Levels {
			bs := pick(r, []int{1024, 4096, 65536})
			size := 4*bs + r.Intn(8*bs)
			if size > 200000 || g1Heavy(te[1]) {
				size = min(size, 40000+r.Intn(20000))
			}
			mk(fmt.Sprintf("level%d", lvl), pick(r, []string{"mixedsafe", "text", "exe-elfsec", "utf8-50"}), size, te[0], te[1], bs, pick(r, []int{0, 32, 64}), pick(r, hints), 0, sampleJ(4, g1Heavy(te[1])), sampleW(3), 3)
		}
	}
	// 4. random chains / pairs
	cnt := 70
	if thorough {
		cnt = 3000
	}
	if n > 0 {
		cnt = n
	}
	shapes := []string{}
	for _, s := range gen.ShapeNames() {
		switch s {
		case "dna", "dnarep", "mixed", "exe-elf", "exe-elfwild", "exe-pewild", "utf8-3000", "utf8-40000":
			// shapes on which forward transforms are known to fail today (rt reports those)
		default:
			shapes = append(shapes, s)
		}
	}
	for k := 0; k < cnt; k++ {
		e := pick(r, g1Entropies)
		bs := pick(r, []int{1024, 4096, 65536})
		size := 2*bs + r.Intn(10*bs)
		if size > 300000 {
			size = 150000 + r.Intn(150000)
		}
		if g1Heavy(e) {
			size = min(size, 20000+r.Intn(40000))
		}
		mk("chain", pick(r, shapes), size, g1RandomChain(r, 1+r.Intn(8), false), e, bs, pick(r, []int{0, 32, 64}), pick(r, hints), r.Intn(4)/3, sampleJ(3, g1Heavy(e)), sampleW(2), 3)
	}
}

func init() {
	registerStream(&Stream{
		Name: "det",
		Rule: "same data and parameters compressed by the real Writer with J in {1,2,3,4,7,8,16,32,63,64} x write partitions {one,1,bs,bs-1,bs+1,rand,with empty writes} x (unperturbed + 3 schedules perturbed through io.VerifHook: random yields, reversed start order, long critical sections); " +
			"every output must be byte-identical to the J=1 single-write reference (same hint); MIXED per-block content with more blocks than jobs, chains reading ctx[dataType] (TEXT, TEXT+LZ, RLT, LZ, PACK, EXE, MM, UTF, DNA), all 19 transforms, all 9 entropy codecs, ten CLI levels, random chains <= 8, hints none/exact/half/double/huge/n, header and headerless; family skip-blocks: ctx skipBlocks=true with near-threshold short last blocks; " +
			"distinct_nontrivial = distinct (chain, entropy, shape, size-class, hint-class, J list, partition list) with >= 2 blocks and some J > 1",
		Gen:  detGen,
		Exec: detExec,
	})
}
