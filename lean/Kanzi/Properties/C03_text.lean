/-
C03 ("the decoder is total: arbitrary input never crashes or hangs the process; allocation / time bounded by the
declared block sizes") for the INVERSE side of the dictionary text transform `transform.TextCodec`
(v2/transform/TextCodec.go: `TextCodec.Inverse`, `textCodec1.Inverse`, `textCodec2.Inverse` (current and old
token format), `reset`, `expandDictionary`, the hash map and the static dictionary) on ARBITRARY (forged) input.
Property theorems only; proofs in `Kanzi/Proofs/TextDec.lean`, `TextDecLoop.lean`, `TextDecCall.lean` (on top of
the invariants of the `text` slice, `Kanzi/Proofs/TextDict.lean`).

The model is the one of the `text` slice (`Kanzi/Model/Text.lean`: `textInverse tc2 old hsz src n` is
`TextCodec.Inverse(src, dst)` with `len(dst) = n` on a codec object that has not been used before; `tc2` = codec
2, `old` = `bsVersion < 6`, `hsz = 1 << logHashSize`), extended by `Kanzi/Model/TextDec.lean` with the object
state a call leaves behind (`codecCall ... none src n`: result and dictionary).  Both are tied to /repo by the
streams `text` (op `ti`) and `textdec` (forged input, `dictSize` / `len(dictList)` read by reflection, two calls
on one object).

Outcomes: `.ok o` = nil error and `dst[0:written] = o`; `.err c` = non-nil Go error of class `c` (`small`, `big`:
the wrapper; `index` = "Invalid index", `data` = "Invalid input data", `srcidx` = "Source index: .., expected");
`.fault k` = a Go run-time panic: `src-index` = `src[srcIdx]` beyond the end of the source, `dict-index` =
`dictList[-1]`; `fuel` = the model's loop fuel exhausted (a hang), `nil-ptr` = slicing a nil `ptr`.

What is proved, for EVERY source, destination size, mode byte and hash table size:
  * termination: the loop ends within `len(src)` iterations (`fuel` is unreachable; every iteration advances
    `srcIdx`), `C03_text_iterations`;
  * no write beyond `dst`: a success returns at most `len(dst)` bytes and every state of the loop has
    `dstIdx <= len(dst)` (`out_le` of the invariant `Kanzi.Text.TInv`; every Go write is `dst[dstIdx] = ..; dstIdx++`);
  * the only run-time panics are: codec 1 and old codec 2: `src-index`; current codec 2: `src-index` or
    `dict-index`.  Tasks of the decompressor recover panics, so these are observations, not findings; for
    codec 1 the condition is exact (`C03_text1_panic_iff`);
  * allocation: the dictionary a call on a fresh object leaves behind has `len(dictList) = dictSize <= 2^19`
    entries and `dictSize` is the value chosen by `reset` from `len(dst)` (at most 2^18) or at most
    `2 staticDictSize + (len(src)+1)/2`: a forged input cannot make the dictionary grow beyond what its own
    length pays for (a word is only learnt after 3 letters and a delimiter).  `dictMap` is allocated by `reset`
    with `1 << logHashSize` entries (ctx `blockSize` / 8 resp. / 32, at least 2^13) and never resized;
  * agreement with `C13_text1` / `C13_text2`: on encoder output the traced call returns the original block.
  * any prior object state: the same outcome classes hold for a call on an object that has already processed ANY
    sequence of blocks (`C03_text_reuse_total`; `reset` on a used object = `resetReuse`), and `dictSize`,
    `len(dictMap)` stay bounded (`C03_text_reuse_sizes`).  `len(dictList)` does NOT stay bounded over calls: an
    expansion appends to the end of a `dictList` that is already longer than `dictSize` (observation of the slice
    report, reproducer design-probes/go/textdict-reuse-growth, directed line of the `textdec` stream); the
    stream API builds a new transform per block, so only direct users of the transform API are concerned.
-/
import Kanzi.Model.TextDec
import Kanzi.Proofs.TextDecCall
import Kanzi.Proofs.TextDecReuse
import Kanzi.Properties.C13_text

namespace Kanzi.C03
open Kanzi.Text Kanzi.RLT

/-- C03_text1_total: `TextCodec.Inverse` with the delegate `textCodec1` on ANY source into a destination of ANY
size, any hash table size: it returns a success with at most `len(dst)` bytes, or one of five error classes, or
panics with an index out of range of the SOURCE.  Nothing else: no hang (`fuel`), no nil slice, no dictionary
index out of range, no write beyond `dst`. -/
theorem C03_text1_total (old : Bool) (hsz : Nat) (hpos : 0 < hsz) (src : List Nat) (dstLen : Nat) :
    (∃ o, textInverse false old hsz src dstLen = .ok o ∧ o.length ≤ dstLen) ∨
    (∃ e, textInverse false old hsz src dstLen = .err e ∧
      (e = "small" ∨ e = "big" ∨ e = "index" ∨ e = "data" ∨ e = "srcidx")) ∨
    textInverse false old hsz src dstLen = .fault "src-index" := by
  have h := textInverseS_total staticInit.1 staticInit.2 staticOK false old hsz hpos src dstLen
  unfold textInverse
  cases hc : textInverseS staticInit.1 staticInit.2 false old hsz src dstLen with
  | ok o => rw [hc] at h; exact Or.inl ⟨o, rfl, h⟩
  | err e => rw [hc] at h; exact Or.inr (Or.inl ⟨e, rfl, h⟩)
  | fault e =>
    rw [hc] at h
    rcases h with h | ⟨h, _⟩
    · rw [h]; exact Or.inr (Or.inr rfl)
    · cases h

/-- C03_text2_total: the same for the delegate `textCodec2`; the current token format (`old = false`) has one more
panic: a forged index 0 in the two / three byte form is not rejected and indexes `dictList[-1]`. -/
theorem C03_text2_total (old : Bool) (hsz : Nat) (hpos : 0 < hsz) (src : List Nat) (dstLen : Nat) :
    (∃ o, textInverse true old hsz src dstLen = .ok o ∧ o.length ≤ dstLen) ∨
    (∃ e, textInverse true old hsz src dstLen = .err e ∧
      (e = "small" ∨ e = "big" ∨ e = "index" ∨ e = "data" ∨ e = "srcidx")) ∨
    textInverse true old hsz src dstLen = .fault "src-index" ∨
    (old = false ∧ textInverse true old hsz src dstLen = .fault "dict-index") := by
  have h := textInverseS_total staticInit.1 staticInit.2 staticOK true old hsz hpos src dstLen
  unfold textInverse
  cases hc : textInverseS staticInit.1 staticInit.2 true old hsz src dstLen with
  | ok o => rw [hc] at h; exact Or.inl ⟨o, rfl, h⟩
  | err e => rw [hc] at h; exact Or.inr (Or.inl ⟨e, rfl, h⟩)
  | fault e =>
    rw [hc] at h
    rcases h with h | ⟨_, h2, h3⟩
    · rw [h]; exact Or.inr (Or.inr (Or.inl rfl))
    · rw [h3]; exact Or.inr (Or.inr (Or.inr ⟨h2, rfl⟩))

/-- C03_text_iterations (both delegates): termination with the bound.  The loop of Inverse, started as the Go
function starts it (`srcIdx = 1`, fresh dictionary), given ANY fuel `f >= len(src)` never runs out of fuel: a
result `.fault e` is one of the two panics.  (Every iteration advances `srcIdx` by at least 1:
`C03_text_step`.  Work of one iteration, read off the model, not a theorem: one hash over at most 31 bytes, one
look-up, at most one copied word of `(data >> 24) & 0xFF <= 255` bytes, and - at most 6 times per call, 2^13 ->
2^19 - one `expandDictionary` of `dictSize` entries.) -/
theorem C03_text_iterations (tc2 old : Bool) (hsz : Nat) (hpos : 0 < hsz) (src : List Nat) (dstLen c1 : Nat)
    (crlf : Bool) (h1 : src.toArray[1]? = some c1) (f : Nat) (hf : src.length ≤ f) (e : String)
    (h : invLoop tc2 old src.toArray dstLen crlf f
      ⟨1, if isText c1 = true then 1 else 2, (reset staticInit.1 staticInit.2 tc2 hsz dstLen).ssz, false,
        reset staticInit.1 staticInit.2 tc2 hsz dstLen, #[]⟩ = .fault e) :
    e ≠ "fuel" ∧ e ≠ "nil-ptr" ∧ (e = "src-index" ∨ (tc2 = true ∧ old = false ∧ e = "dict-index")) :=
  have hf := invLoop_fuel staticInit.1 staticInit.2 staticOK tc2 old hsz hpos src dstLen c1 crlf h1 f hf e h
  ⟨hf.ne_fuel.1, hf.ne_fuel.2, hf⟩

/-- C03_text_step: one iteration of the loop from ANY state that satisfies the invariant `TInv` (well-formed
dictionary, current word made of letters, `dstIdx <= len(dst)`, dictionary size paid for by source bytes) and
the loop condition: it re-establishes the invariant with `srcIdx` advanced, or stops with an error / a panic and
a bounded dictionary. -/
theorem C03_text_step (tc2 old : Bool) (a : Array Nat) (dstLen D0 z hz : Nat) (crlf : Bool) (s : ISt)
    (hI : TInv a dstLen D0 z hz s) (hi : s.i < a.size) (ho : s.out.size < dstLen) :
    match invStepT tc2 old a dstLen crlf s with
    | .ok s' => TInv a dstLen D0 z hz s' ∧ s.i + 1 ≤ s'.i
    | .err e d => (e = "index" ∨ e = "data") ∧ DB a.size D0 z hz d
    | .fault e d => (e = "src-index" ∨ (tc2 = true ∧ old = false ∧ e = "dict-index")) ∧ DB a.size D0 z hz d :=
  invStepT_spec tc2 old a dstLen D0 z hz crlf s hI hi ho

/-- C03_text_trace: the traced call (`codecCall`, used for the allocation theorems and by the `textdec` stream)
returns exactly what `textInverse` returns. -/
theorem C03_text_trace (tc2 old : Bool) (hsz : Nat) (src : List Nat) (dstLen : Nat) :
    (codecCall tc2 old hsz none src dstLen).1 = textInverse tc2 old hsz src dstLen :=
  codecCallS_fst staticInit.1 staticInit.2 tc2 old hsz src dstLen

/-- C03_text1_alloc_bound: the dictionary `TextCodec.Inverse` (delegate `textCodec1`) leaves behind on a fresh
object, whatever the outcome (success, error, panic): `len(dictList) = dictSize`, at most 2^19 entries,
`len(dictMap) = 1 << logHashSize` (the table `reset` allocated; never resized), and
`dictSize` is the initial size (a function of `len(dst)` only, between 2^13 and 2^18) or at most
`2052 + (len(src)+1)/2`. -/
theorem C03_text1_alloc_bound (old : Bool) (hsz : Nat) (hpos : 0 < hsz) (src : List Nat) (dstLen : Nat) (d : Dict)
    (h : (codecCall false old hsz none src dstLen).2 = some d) :
    d.list.size = d.size ∧ d.size ≤ 2 ^ 19 ∧ d.map.size = hsz ∧
      d.size ≤ max (dictSizeFor dstLen) (2052 + (src.length + 1) / 2) ∧ dictSizeFor dstLen ≤ 2 ^ 18 := by
  have hd := codecCallS_alloc staticInit.1 staticInit.2 staticOK false old hsz hpos src dstLen d h
  have hz : staticSize staticInit.1 false ≤ 1026 := staticSize_le _ _ staticOK.le
  have hM : MAX_DICT_SIZE = 2 ^ 19 := by decide
  refine ⟨hd.size_eq, by rw [← hM]; exact hd.size_le, hd.map_size, ?_, dictSizeFor_le dstLen⟩
  rcases hd.grow with g | g
  · rw [g]; exact Nat.le_max_left _ _
  · exact Nat.le_trans (by omega) (Nat.le_max_right _ _)

/-- C03_text2_alloc_bound: the same for the delegate `textCodec2` (static dictionary of 1024 entries). -/
theorem C03_text2_alloc_bound (old : Bool) (hsz : Nat) (hpos : 0 < hsz) (src : List Nat) (dstLen : Nat) (d : Dict)
    (h : (codecCall true old hsz none src dstLen).2 = some d) :
    d.list.size = d.size ∧ d.size ≤ 2 ^ 19 ∧ d.map.size = hsz ∧
      d.size ≤ max (dictSizeFor dstLen) (2048 + (src.length + 1) / 2) ∧ dictSizeFor dstLen ≤ 2 ^ 18 := by
  have hd := codecCallS_alloc staticInit.1 staticInit.2 staticOK true old hsz hpos src dstLen d h
  have hz : staticSize staticInit.1 true ≤ 1024 := by unfold staticSize; simp only [if_true]; exact staticOK.le
  have hM : MAX_DICT_SIZE = 2 ^ 19 := by decide
  refine ⟨hd.size_eq, by rw [← hM]; exact hd.size_le, hd.map_size, ?_, dictSizeFor_le dstLen⟩
  rcases hd.grow with g | g
  · rw [g]; exact Nat.le_max_left _ _
  · exact Nat.le_trans (by omega) (Nat.le_max_right _ _)

/-- C03_text1_panic_iff: the EXACT condition of a panic of `textCodec1.Inverse`.  In an iteration from a state
that satisfies the invariant, the token part panics if and only if the current byte is an escape byte (0x0F or
0x0E) and its index is cut off by the end of the source (`trunc1`: no byte behind the escape, or a first index
byte >= 0x80 with no second byte, or a second byte >= 0x80 with no third byte); the panic then is the
index-out-of-range of `src[srcIdx]`. -/
theorem C03_text1_panic_iff {a : Array Nat} {dstLen D0 z hz : Nat} {t : ISt} (h : TokPre a dstLen D0 z hz t) (crlf : Bool)
    (cur : Nat) (e : String) :
    invTok1 a dstLen crlf t cur = .fault e ↔
      ((cur = ESCAPE_TOKEN1 ∨ cur = ESCAPE_TOKEN2) ∧ e = "src-index" ∧ trunc1 a t.i = true) :=
  invTok1_fault_iff h crlf cur e

/-- ... and the index reader alone (no hypothesis): it panics iff the index is cut off -/
theorem C03_text1_readidx_panic_iff (a : Array Nat) (i dsize : Nat) (e : String) :
    readIdx1 a i dsize = .fault e ↔ (e = "src-index" ∧ trunc1 a i = true) :=
  readIdx1_fault_iff a i dsize e

/-- C03_text2_readidx: every outcome of the index reader of `textCodec2` (current format): panic by a cut-off
index or by the unchecked index 0 of the multi-byte forms, "Invalid index", or an index below `dictSize` (or
below 128 <= `dictSize`) and a position inside the source. -/
theorem C03_text2_readidx (a : Array Nat) (i cur dsize : Nat) (hi : i ≤ a.size) :
    readIdx2 a i cur dsize = .fault "src-index" ∨ readIdx2 a i cur dsize = .fault "dict-index" ∨
    readIdx2 a i cur dsize = .err "index" ∨
    ∃ idx i2 fl, readIdx2 a i cur dsize = .ok (idx, i2, fl) ∧ i ≤ i2 ∧ i2 ≤ a.size ∧ (idx < dsize ∨ idx < 128) :=
  readIdx2_cases a i cur dsize hi

/-- C03_text2_readidx_panic_iff: the EXACT condition of the two panics of the index reader of `textCodec2` (current
format; `c` = the first index byte, i.e. the token byte itself or the byte behind the flip marker 0x80, `i` =
the position behind it): `src-index` iff a byte of the 2-byte (low bits 64..111) / 3-byte (112..127) form lies
beyond the end of the source (`cut2Core`); `dict-index` iff the multi-byte index is complete and 0 (`zero2Core`:
the Go code tests `idx > dictSize` before "Adjust index" and then reads `dictList[-1]`).  Independent of the
dictionary.  (Behind the flip marker 0x80 the reader first needs `src[i]` itself: `readIdx2`.) -/
theorem C03_text2_readidx_panic_iff (a : Array Nat) (c i flip dsize : Nat) (e : String) :
    readIdx2Core a c i flip dsize = .fault e ↔
      ((e = "src-index" ∧ cut2Core a c i = true) ∨ (e = "dict-index" ∧ zero2Core a c i = true)) :=
  readIdx2Core_fault_iff a c i flip dsize e

/-- C03_text_reuse_total (both delegates): FROM ANY PRIOR OBJECT STATE.  `calls` = any sequence of earlier
`TextCodec.Inverse` calls `(src, len(dst))` on the object (arbitrary sources: successes, errors, panics recovered
by the caller).  The next call on ANY source into a destination of ANY size has the same outcome classes as on
a fresh object: success with at most `len(dst)` bytes, one of five errors, a panic by an index out of range of
the source or (current codec 2) `dictList[-1]`; no hang, no nil slice, no write beyond `dst`.  (Proof: the
used object agrees with a well-formed dictionary on everything below `dictSize`, `Kanzi.Text.RSim`; the stale
entries beyond `dictSize` left by an earlier expansion are never read before being re-initialised.) -/
theorem C03_text_reuse_total (tc2 old : Bool) (hsz : Nat) (hpos : 0 < hsz) (calls : List (List Nat × Nat))
    (src : List Nat) (dstLen : Nat) :
    (∃ o, (codecCall tc2 old hsz (runCalls tc2 old hsz none calls) src dstLen).1 = .ok o ∧ o.length ≤ dstLen) ∨
    (∃ e, (codecCall tc2 old hsz (runCalls tc2 old hsz none calls) src dstLen).1 = .err e ∧
      (e = "small" ∨ e = "big" ∨ e = "index" ∨ e = "data" ∨ e = "srcidx")) ∨
    (codecCall tc2 old hsz (runCalls tc2 old hsz none calls) src dstLen).1 = .fault "src-index" ∨
    (tc2 = true ∧ old = false ∧
      (codecCall tc2 old hsz (runCalls tc2 old hsz none calls) src dstLen).1 = .fault "dict-index") := by
  have hg := runCallsS_good staticInit.1 staticInit.2 staticOK tc2 old hsz hpos calls none trivial
  have h := (codecCallS_reuse staticInit.1 staticInit.2 staticOK tc2 old hsz hpos _ hg src dstLen).1
  unfold codecCall runCalls
  cases hc : (codecCallS staticInit.1 staticInit.2 tc2 old hsz
      (runCallsS staticInit.1 staticInit.2 tc2 old hsz none calls) src dstLen).1 with
  | ok o => rw [hc] at h; exact Or.inl ⟨o, rfl, h⟩
  | err e => rw [hc] at h; exact Or.inr (Or.inl ⟨e, rfl, h⟩)
  | fault e =>
    rw [hc] at h
    rcases h with h | ⟨h1, h2, h3⟩
    · rw [h]; exact Or.inr (Or.inr (Or.inl rfl))
    · rw [h3]; exact Or.inr (Or.inr (Or.inr ⟨h1, h2, rfl⟩))

/-- C03_text_reuse_sizes: after ANY sequence of calls the object has `dictSize <= 2^19`, `len(dictMap) = 1 <<
logHashSize` (allocated once) and `len(dictList) >= dictSize`.  (No upper bound of `len(dictList)` holds: it
grows by up to `2^19 - 2^13` entries per call on a used object.) -/
theorem C03_text_reuse_sizes (tc2 old : Bool) (hsz : Nat) (hpos : 0 < hsz) (calls : List (List Nat × Nat)) (d : Dict)
    (h : runCalls tc2 old hsz none calls = some d) :
    d.size ≤ 2 ^ 19 ∧ d.map.size = hsz ∧ d.size ≤ d.list.size := by
  have hg := runCallsS_good staticInit.1 staticInit.2 staticOK tc2 old hsz hpos calls none trivial
  unfold runCalls at h
  rw [h] at hg
  have hM : MAX_DICT_SIZE = 2 ^ 19 := by decide
  have := GoodD.sizes hg
  rw [hM] at this
  exact this

/-- C03_text1_agrees: on encoder output the traced call is the Inverse of `C13_text1`: it restores the block
(hypotheses of `C13_text1`, including its exception for a block that ends with 0x0E / 0x0F). -/
theorem C03_text1_agrees (hsz lh dt : Nat) (hh : hsz = 2 ^ lh) (h6 : 6 ≤ lh) (h32 : lh ≤ 32) (b t : List Nat)
    (dstLen : Nat) (hb : ∀ x ∈ b, x < 256) (hdst : textMaxEncodedLen b.length ≤ dstLen)
    (h : textForward false hsz dt b dstLen = .ok t) (n : Nat) (hn : b.length ≤ n) (hn39 : n < 2 ^ 39)
    (hesc : Kanzi.C13.lastIsEscape b = true → b.length < n) :
    (codecCall false false hsz none t n).1 = .ok b := by
  rw [C03_text_trace]
  exact (Kanzi.C13.C13_text1 hsz lh dt hh h6 h32 b t dstLen hb hdst h).2 n hn hn39 hesc

/-- C03_text2_agrees: the same for codec 2 (no exception). -/
theorem C03_text2_agrees (hsz lh dt : Nat) (hh : hsz = 2 ^ lh) (h6 : 6 ≤ lh) (h32 : lh ≤ 32) (b t : List Nat)
    (dstLen : Nat) (hb : ∀ x ∈ b, x < 256) (hdst : textMaxEncodedLen b.length ≤ dstLen)
    (h : textForward true hsz dt b dstLen = .ok t) (n : Nat) (hn : b.length ≤ n) (hn39 : n < 2 ^ 39) :
    (codecCall true false hsz none t n).1 = .ok b := by
  rw [C03_text_trace]
  exact (Kanzi.C13.C13_text2 hsz lh dt hh h6 h32 b t dstLen hb hdst h).2 n hn hn39

/-! Examples.  The index readers are evaluated by the kernel (`decide`); whole calls by the compiler (`#guard`:
the kernel needs minutes to build the static dictionary); the same inputs are the first lines of
corpus/C03/textdec.ops and run against the real code in the `textdec` stream. -/

-- codec 1: escape byte at the end / cut inside a 2-byte / a 3-byte index: panic
example : trunc1 #[0, 0x61, 0x20, 0x0F] 4 = true := by decide
example : readIdx1 #[0, 0x61, 0x20, 0x0F] 4 8192 = .fault "src-index" := by decide
example : readIdx1 #[0, 0x61, 0x20, 0x0F, 0x88] 4 8192 = .fault "src-index" := by decide
example : readIdx1 #[0, 0x61, 0x20, 0x0F, 0xE0, 0x80] 4 8192 = .fault "src-index" := by decide
-- complete indexes: 3-byte form 8192 = dictSize rejected, 2-byte form 1025 accepted
example : readIdx1 #[0, 0x61, 0x20, 0x0F, 0xE0, 0xC0, 0x00] 4 8192 = .err "index" := by decide
example : readIdx1 #[0, 0x61, 0x20, 0x0F, 0x88, 0x01, 0x41] 4 8192 = .ok (1025, 6) := by decide
example : trunc1 #[0, 0x61, 0x20, 0x0F, 0x88, 0x01, 0x41] 4 = false := by decide
-- codec 2: index 0 in the 2-byte and 3-byte form: `dictList[-1]`; in the 1-byte form: "Invalid index"
example : readIdx2 #[0, 0x61, 0x20, 0xC0, 0x00] 4 0xC0 8192 = .fault "dict-index" := by decide
example : readIdx2 #[0, 0x61, 0x20, 0xF0, 0x00, 0x00] 4 0xF0 8192 = .fault "dict-index" := by decide
example : readIdx2 #[0, 0x61, 0x20, 0x81] 4 0x81 8192 = .ok (0, 4, 0) := by decide
example : readIdx2 #[0, 0x61, 0x20, 0x80] 4 0x80 8192 = .fault "src-index" := by decide
example : zero2Core #[0, 0x61, 0x20, 0xC0, 0x00] 0xC0 4 = true ∧ cut2Core #[0, 0x61, 0x20, 0xC0, 0x00] 0xC0 4 = false := by decide
example : cut2Core #[0, 0x61, 0x20, 0xF0, 0x00] 0xF0 4 = true ∧ zero2Core #[0, 0x61, 0x20, 0xF0, 0x00] 0xF0 4 = false := by decide

#guard (codecCall false false 8192 none [0, 0x41, 0x62, 0x63, 0x64, 0x20, 0x4F, 0x0F, 0x88, 0x02] 64).1 =
  .ok [0x41, 0x62, 0x63, 0x64, 0x20, 0x4F, 0x41, 0x62, 0x63, 0x64]
#guard textInverse false false 8192 [0, 0x61, 0x62, 0x63, 0x64, 0x20, 0x0F, 0x88, 0x03] 64 = .err "data"
#guard textInverse false false 8192 [0, 0x61, 0x20, 0x0F] 64 = .fault "src-index"
#guard textInverse false false 8192 [0, 0x61, 0x20, 0x0F, 0xE0, 0xC0, 0x00] 64 = .err "index"
#guard textInverse false false 8192 [0x40, 0x0A, 0x0A, 0x0A, 0x0A, 0x0A] 5 = .err "data"
#guard textInverse true false 8192 [0, 0x61, 0x20, 0xC0, 0x00] 64 = .fault "dict-index"
#guard textInverse true true 8192 [0, 0x61, 0x20, 0xC1] 64 = .fault "src-index"
#guard textInverse false false 8192 [0x41] 8 = .err "small"
#guard ((codecCall false false 8192 none [0, 0x61, 0x20, 0x0F] 64).2.map fun d => (d.size, d.list.size)) = some (8192, 8192)

end Kanzi.C03
