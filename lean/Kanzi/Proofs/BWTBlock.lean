/-
BWTBlockCodec level: `blockForward` (header + SPEC of the forward BWT) has the advertised length and
`blockInverse` of it restores the block (blocks of at most 4 MiB: the `inverseMergeTPSI` route).
-/
import Kanzi.Proofs.BWTHeader
import Kanzi.Proofs.BWTMergeThm
import Kanzi.Proofs.BWTTotal

namespace Kanzi.BWT

theorem getBWTChunks_cases (n : Nat) : getBWTChunks n = 1 ∨ getBWTChunks n = 8 := by
  unfold getBWTChunks; split <;> simp

theorem bwtIndexes_length (s : List Nat) : (bwtIndexes s).length = getBWTChunks s.length := by
  simp [bwtIndexes]

theorem rowOf_bounds (s : List Nat) (i : Nat) (hi : i < s.length) : 1 ≤ rowOf s i ∧ rowOf s i ≤ s.length := by
  have := List.idxOf_lt_length_iff.2 (mem_sa.2 hi)
  rw [sa_length] at this
  unfold rowOf; omega

theorem chunk_pos_lt (n k : Nat) (h2 : 1 ≤ n) (hk : k < getBWTChunks n) : k * chunkSize n (getBWTChunks n) < n := by
  rcases getBWTChunks_cases n with h | h
  · rw [h] at hk
    have : k = 0 := by omega
    subst this; omega
  · rw [h] at hk ⊢
    have hn : 256 ≤ n := by
      unfold getBWTChunks THRESHOLD1 at h; split at h <;> omega
    have := chunkSize8_bounds n hn
    have : k * chunkSize n 8 ≤ 7 * chunkSize n 8 := Nat.mul_le_mul_right _ (by omega)
    omega

theorem indexes_bounds (s : List Nat) (hs : 1 ≤ s.length) (rest : List Nat) (i : Nat) (hi : i < getBWTChunks s.length) :
    1 ≤ (bwtIndexes s ++ rest).getD i 0 ∧ (bwtIndexes s ++ rest).getD i 0 ≤ s.length := by
  rw [indexes_getD s rest i hi]
  have := rowOf_bounds s _ (chunk_pos_lt s.length i hs hi)
  unfold rowOf at this
  exact this

theorem range_map_getD_append (l r : List Nat) :
    (List.range l.length).map (fun i => (l ++ r).getD i 0) = l := by
  apply List.ext_getElem
  · simp
  · intro i h1 h2
    have hi : i < l.length := by simpa using h1
    simp [List.getD_eq_getElem?_getD, List.getElem?_append_left hi, hi]

/-- `BWTBlockCodec.Forward` on a block of 2 .. 2^30 bytes into a destination of at least
`MaxEncodedLen` bytes: mode byte, the indexes on `pIndexSizeOf n` bytes each, then the BWT bytes. -/
theorem blockForward_eq (s : List Nat) (h2 : 2 ≤ s.length) (hmax : s.length ≤ MAX_BLOCK_SIZE) (dstLen : Nat)
    (hd : maxEncodedLen s.length ≤ dstLen) :
    blockForward s dstLen = .ok (headerBytes (getBWTChunks s.length) (pIndexSizeOf s.length)
      (bwtIndexes s ++ (List.replicate 8 0).drop (getBWTChunks s.length)) ++ bwtData s) := by
  have hp := pIndexSize_range s.length h2 hmax
  have h1 : ¬ (s.length = 0 ∨ dstLen = 0) := by unfold maxEncodedLen at hd; omega
  have h3 : ¬ dstLen < maxEncodedLen s.length := by omega
  have h4 : ¬ (pIndexSizeOf s.length = 0 ∨ pIndexSizeOf s.length ≥ 5) := by omega
  have h5 : ¬ log2 (getBWTChunks s.length) > 7 := by
    rcases getBWTChunks_cases s.length with h | h <;> rw [h] <;> decide
  have h6 : ¬ s.length > MAX_BLOCK_SIZE := by omega
  have h7 : ¬ s.length ≤ 1 := by omega
  simp only [blockForward, h1, h3, h4, h5, h6, ite_false, bwtSpec, h7]

/-- the output of `Forward` is exactly `len + 1 + chunks * width` bytes, at most `MaxEncodedLen` -/
theorem blockForward_length (s : List Nat) (h2 : 2 ≤ s.length) (hmax : s.length ≤ MAX_BLOCK_SIZE) (dstLen : Nat)
    (hd : maxEncodedLen s.length ≤ dstLen) :
    ∃ enc, blockForward s dstLen = .ok enc ∧
      enc.length = s.length + 1 + getBWTChunks s.length * pIndexSizeOf s.length ∧
      enc.length ≤ maxEncodedLen s.length := by
  refine ⟨_, blockForward_eq s h2 hmax dstLen hd, ?_, ?_⟩
  · rw [List.length_append, headerBytes_length, bwtData_length s (by omega)]; omega
  · rw [List.length_append, headerBytes_length, bwtData_length s (by omega)]
    have hp := pIndexSize_range s.length h2 hmax
    unfold maxEncodedLen MAX_HEADER_SIZE
    rcases getBWTChunks_cases s.length with h | h <;> rw [h] <;> omega

theorem bwtData_lt (s : List Nat) (hb : ∀ x ∈ s, x < 256) : ∀ b ∈ bwtData s, b < 256 := by
  intro b hb'
  rw [← entries_keys] at hb'
  obtain ⟨e, he, rfl⟩ := List.mem_map.1 hb'
  exact entries_keys_lt s hb e he

/-- `parseHeaderN` only looks at the first `MAX_HEADER_SIZE` bytes -/
theorem parseHeaderN_take (old src : List Nat) (len : Nat) :
    parseHeaderN old (src.take MAX_HEADER_SIZE) len = parseHeaderN old src len := by
  have hhead : (src.take MAX_HEADER_SIZE).headD 0 = src.headD 0 := by
    cases src <;> simp [MAX_HEADER_SIZE]
  simp only [parseHeaderN, hhead]
  generalize src.headD 0 = mode
  generalize hl : (mode >>> 2) &&& 7 = l
  generalize hp : (mode &&& 3) = p
  have hp3 : p ≤ 3 := by rw [← hp]; exact Nat.and_le_right
  split
  · rfl
  · split
    · rfl
    · next h1 h2 =>
      have hc18 : 1 <<< l = 1 ∨ 1 <<< l = 8 := by
        have : 1 <<< l = getBWTChunks (len - (1 <<< l * (p + 1) + 1)) := by simpa using h2
        rw [this]; exact getBWTChunks_cases _
      congr 2
      congr 1
      apply List.map_congr_left
      intro i hi
      have hi' := List.mem_range.1 hi
      congr 2
      rw [List.drop_take, List.take_take]
      congr 1
      unfold MAX_HEADER_SIZE
      have : i * (p + 1) + (p + 1) ≤ 1 <<< l * (p + 1) := by
        rw [← Nat.succ_mul]; exact Nat.mul_le_mul_right _ hi'
      rcases hc18 with h | h <;> rw [h] at this <;> omega

/-- BLOCK ROUND TRIP for blocks of 2 bytes .. 4 MiB: whatever instance state (stale buffer shorter than
2^31 entries, old index slots), job count and destination size (at least the block), the inverse of
the forward output is the block. -/
theorem block_roundtrip_small (s : List Nat) (h2 : 2 ≤ s.length) (hmax : s.length ≤ THRESHOLD2)
    (hb : ∀ x ∈ s, x < 256) (fdst : Nat) (hfd : maxEncodedLen s.length ≤ fdst)
    (buf : Array Nat) (hbuf : buf.size < 2 ^ 31) (old : List Nat) (jobs idst : Nat) (hid : s.length ≤ idst) :
    ∃ enc, blockForward s fdst = .ok enc ∧ enc.length ≤ maxEncodedLen s.length ∧
      (blockInverse buf old jobs enc.toArray idst).1 = .ok s.toArray := by
  have hmax' : s.length ≤ MAX_BLOCK_SIZE := by unfold THRESHOLD2 at hmax; unfold MAX_BLOCK_SIZE; omega
  obtain ⟨enc, hf, hlen, hle⟩ := blockForward_length s h2 hmax' fdst hfd
  refine ⟨enc, hf, hle, ?_⟩
  have henc := blockForward_eq s h2 hmax' fdst hfd
  rw [hf] at henc
  injection henc with henc
  have hp := pIndexSize_range s.length h2 hmax'
  have hdl := bwtData_length s (by omega)
  -- the header parses back
  have hparse := parseHeader_headerBytes old
    (bwtIndexes s ++ (List.replicate 8 0).drop (getBWTChunks s.length)) (bwtData s) (pIndexSizeOf s.length) hp
    (by
      intro i hi
      rw [hdl] at hi
      have := indexes_bounds s (by omega) ((List.replicate 8 0).drop (getBWTChunks s.length)) i hi
      have hpow := le_pow_pIndexSize s.length (by omega)
      omega)
  rw [hdl] at hparse
  rw [← henc] at hparse
  have hpidx : (List.range (getBWTChunks s.length)).map
      (fun i => (bwtIndexes s ++ (List.replicate 8 0).drop (getBWTChunks s.length)).getD i 0)
      = bwtIndexes s := by
    rw [← bwtIndexes_length]; exact range_map_getD_append _ _
  rw [hpidx] at hparse
  have henc2 : 2 ≤ enc.length := by rw [hlen]; omega
  have h1 : ¬ (enc.toArray.size = 0 ∨ idst = 0) := by rw [List.size_toArray]; omega
  have h3 : ¬ enc.toArray.size = 1 := by rw [List.size_toArray]; omega
  have hpre : (enc.toArray.extract 0 MAX_HEADER_SIZE).toList = enc.take MAX_HEADER_SIZE := by simp
  simp only [blockInverse, h1, h3, ite_false, hpre, parseHeaderN_take]
  have : parseHeaderN old enc enc.toArray.size = parseHeader old enc := by simp [parseHeader]
  rw [this, hparse]
  simp only
  have hdata : enc.toArray.extract (getBWTChunks s.length * pIndexSizeOf s.length + 1) enc.toArray.size
      = (bwtData s).toArray := by
    apply Array.ext'
    simp only [Array.toList_extract, List.toList_toArray, List.size_toArray]
    rw [henc, List.extract_eq_take_drop, List.drop_left' (headerBytes_length _ _ _)]
    apply List.take_of_length_le
    rw [List.length_append, headerBytes_length]; omega
  rw [hdata]
  have hsz : (bwtData s).toArray.size = s.length := by simp [hdl]
  have c1 : ¬ ((bwtData s).toArray.size = 0 ∨ idst = 0) := by rw [hsz]; omega
  have c2 : ¬ (bwtData s).toArray.size > MAX_BLOCK_SIZE := by rw [hsz]; omega
  have c3 : ¬ (bwtData s).toArray.size > idst := by rw [hsz]; omega
  have c4 : ¬ (bwtData s).toArray.size = 1 := by rw [hsz]; omega
  have c5 : (bwtData s).toArray.size ≤ THRESHOLD2 := by rw [hsz]; exact hmax
  simp only [bwtInverse, c1, c2, c3, c4, c5, ite_false, ite_true]
  exact mergeTPSI_spec s h2 (by unfold THRESHOLD2 at hmax; omega) hb buf hbuf _

end Kanzi.BWT
