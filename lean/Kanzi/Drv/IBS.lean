/-
Line-protocol driver for `Kanzi.Model.IBS` (`kmodel ibs`).  Core Lean only.

  ibs bs=<bufsize> data=<hex> chunks=<c1,c2,...> end=<eof|fail> [errwith=<i>] ; <op> ; ...

`chunks`: the sizes are used cyclically until the data is exhausted (a size 0 is an empty chunk,
i.e. a `(0, nil)` read; a list without a positive size means "one chunk").  `errwith=i`: chunk i
(0-based) is returned together with the terminal error.  Ops: `b` ReadBit, `r <n>` ReadBits,
`a <k>` ReadArray into ⌈k/8⌉ fresh bytes, `m` HasMoreToRead, `c` Close, `n` Read().
Output: per op `v:<hex>` | `a:<hex bytes>` | `m:1` | `m:err:<class>` | `panic:<class>` | `ok` | `n`,
each followed by `@<Read() after the op, as uint64>`.
-/
import Kanzi.Model.IBS

namespace Kanzi.Drv
open Kanzi.IBS

namespace IBSDrv

def hexVal (c : Char) : Option Nat :=
  if '0' ≤ c ∧ c ≤ '9' then some (c.toNat - '0'.toNat)
  else if 'a' ≤ c ∧ c ≤ 'f' then some (c.toNat - 'a'.toNat + 10)
  else if 'A' ≤ c ∧ c ≤ 'F' then some (c.toNat - 'A'.toNat + 10)
  else none

def parseHex : List Char → Option (List Byte)
  | [] => some []
  | [_] => none
  | a :: b :: rest =>
    match hexVal a, hexVal b, parseHex rest with
    | some x, some y, some l => some (BitVec.ofNat 8 (16 * x + y) :: l)
    | _, _, _ => none

def hexDigit (n : Nat) : Char :=
  if n < 10 then Char.ofNat ('0'.toNat + n) else Char.ofNat ('a'.toNat + (n - 10))

def byteHex (b : Byte) : String := String.ofList [hexDigit (b.toNat / 16), hexDigit (b.toNat % 16)]

def natHex (n : Nat) : String := String.ofList (Nat.toDigits 16 n)

def className : ErrKind → String
  | .eos => "eos"
  | .io => "io"
  | .closed => "closed"
  | .invalidCount => "invalid-count"
  | .runtime => "runtime"
  | .fuel => "fuel"

/-- cut `data` following `sizes` cyclically -/
def cut (sizes : List Nat) : Nat → List Nat → List Byte → List (List Byte)
  | 0, _, _ => []
  | fuel + 1, cur, data =>
    if data.isEmpty then []
    else match cur with
      | [] => cut sizes fuel sizes data
      | c :: cs => data.take c :: cut sizes fuel cs (data.drop c)

def mkChunks (sizes : List Nat) (data : List Byte) (errwith : Option Nat) : List Chunk :=
  let parts : List (List Byte) :=
    if sizes.all (· = 0) then (if data.isEmpty then [] else [data])
    else cut sizes ((data.length + 1) * (sizes.length + 2) + 2) sizes data
  (List.zip parts (List.range parts.length)).map
    (fun p => { bytes := p.1, err := errwith = some p.2 })

def getv (ws : List String) (k : String) : Option String :=
  (ws.filterMap (fun w =>
    if w.startsWith (k ++ "=") then some (String.ofList (w.toList.drop (k.length + 1))) else none)).head?

def parseOp (s : String) : Option Op :=
  match (s.splitOn " ").filter (· ≠ "") with
  | ["b"] => some .readBit
  | ["r", n] => n.toNat?.map .readBits
  | ["a", k] => k.toNat?.map .readArray
  | ["m"] => some .hasMore
  | ["c"] => some .close
  | ["n"] => some .read
  | _ => none

def showOut (o : Outcome × Int) : String :=
  let c := (o.2 % (2 ^ 64 : Int)).toNat
  let body := match o.1 with
    | .val v => "v:" ++ natHex v
    | .arr bs => "a:" ++ String.join (bs.map byteHex)
    | .more => "m:1"
    | .moreErr e => "m:err:" ++ className e
    | .ok => "ok"
    | .cnt => "n"
    | .panic e => "panic:" ++ className e
  body ++ " @" ++ toString c

end IBSDrv

open IBSDrv in
def ibs (line : String) : String :=
  match line.splitOn ";" with
  | [] => "bad-op"
  | hd :: opss =>
    let ws := (hd.splitOn " ").filter (· ≠ "")
    if ws.head? ≠ some "ibs" then "bad-op" else
    match (getv ws "bs").bind String.toNat?, (getv ws "data").bind (fun d => parseHex d.toList),
          getv ws "end" with
    | some bs, some data, some en =>
      if bs < 1024 ∨ bs > 2 ^ 29 ∨ bs % 8 ≠ 0 then "err:ctor" else
      let sizes := match getv ws "chunks" with
        | some c => (c.splitOn ",").filterMap String.toNat?
        | none => []
      let errwith := (getv ws "errwith").bind String.toNat?
      let term := if en = "fail" then Term.fail else Term.eof
      match opss.mapM parseOp with
      | none => "bad-op"
      | some ops =>
        let s := init bs { chunks := mkChunks sizes data errwith, term := term }
        " ".intercalate ((run s ops).map showOut)
    | _, _, _ => "bad-op"

end Kanzi.Drv
