/-
Proofs about `Kanzi.Model.IBS`.

Layer 1 (this file): the concrete stream (buffer, refills, chunked source) is simulated by
the abstract word machine `A` (no buffer, no chunks: the remaining bytes as one list).
Layer 2 (part B): the word machine refines `Kanzi.Bits` (take/drop on a bit string).
-/
import Kanzi.Model.IBS
import Kanzi.Spec.Bits

namespace Kanzi.IBS

/-! ## the source -/

/-- bytes the source will deliver: all chunks up to and including the first one tagged `err` -/
def srcBytes : List Chunk → List Byte
  | [] => []
  | c :: cs => if c.err then c.bytes else c.bytes ++ srcBytes cs

/-- bytes still to come from the source, given the error already recorded -/
def future (err : Option ErrKind) (src : Src) : List Byte :=
  match err with
  | some _ => []
  | none => srcBytes src.chunks

def NE (cs : List Chunk) : Prop := ∀ c ∈ cs, c.bytes ≠ []

/-- what one result of `Src.read` / `complete` guarantees with respect to the source `s0` -/
structure RdOk (s0 : Src) (r : RdRes) : Prop where
  bytes : r.data ++ future r.err r.src = srcBytes s0.chunks
  err : ∀ e, r.err = some e → e = s0.term.err
  term : r.src.term = s0.term
  ne : NE r.src.chunks

theorem read_ok (s : Src) (n : Nat) (hne : NE s.chunks) : RdOk s (s.read n) := by
  obtain ⟨chunks, term⟩ := s
  unfold Src.read
  cases chunks with
  | nil => exact ⟨by simp [future, srcBytes], by simp, rfl, by simpa using hne⟩
  | cons c cs =>
    have hne' : NE cs := fun x hx => hne x (by simp [hx])
    simp only
    split
    · refine ⟨?_, ?_, rfl, hne'⟩
      · cases he : c.err <;> simp [future, srcBytes, he]
      · intro e; cases c.err <;> simp; exact fun h => h.symm
    · refine ⟨?_, by simp, rfl, ?_⟩
      · cases he : c.err <;> simp [future, srcBytes, he, ← List.append_assoc]
      · intro x hx
        simp only [List.mem_cons] at hx
        rcases hx with rfl | hx
        · simp only [ne_eq, List.drop_eq_nil_iff]; omega
        · exact hne' x hx

theorem read_len (s : Src) (n : Nat) : (s.read n).data.length ≤ n := by
  unfold Src.read
  cases s.chunks with
  | nil => simp
  | cons c cs =>
    simp only
    split
    · assumption
    · simp; omega

theorem read_nil (s : Src) (n : Nat) (hn : 0 < n) (hne : NE s.chunks)
    (h : (s.read n).data = []) :
    s.chunks = [] ∧ (s.read n).err = some s.term.err ∧ (s.read n).src.chunks = [] := by
  obtain ⟨chunks, term⟩ := s
  unfold Src.read at h ⊢
  cases chunks with
  | nil => simp
  | cons c cs =>
    have : c.bytes ≠ [] := hne c (by simp)
    simp only at h
    split at h
    · exact absurd h this
    · simp only [List.take_eq_nil_iff] at h
      rcases h with h | h
      · omega
      · exact absurd h this

theorem RdOk.trans {s0 s1 : Src} {r : RdRes} (h0 : srcBytes s1.chunks = srcBytes s0.chunks)
    (ht : s1.term = s0.term) (h : RdOk s1 r) : RdOk s0 r :=
  ⟨h.bytes.trans h0, fun e he => (h.err e he).trans (by rw [ht]), h.term.trans ht, h.ne⟩

/-- the loop condition of `complete` no longer holds -/
def Done (count : Nat) (r : RdRes) : Prop :=
  r.data = [] ∨ r.data.length % 8 = 0 ∨ r.data.length = count ∨ r.err ≠ none

theorem complete_ok (s0 : Src) (count : Nat) : ∀ (fuel : Nat) (r : RdRes),
    RdOk s0 r → r.data.length ≤ count →
    RdOk s0 (complete count fuel r) ∧ (complete count fuel r).data.length ≤ count ∧
    (r.data = [] → complete count fuel r = r) ∧
    (r.data ≠ [] → (complete count fuel r).data ≠ []) ∧
    (count - r.data.length ≤ fuel → Done count (complete count fuel r)) := by
  intro fuel
  induction fuel with
  | zero =>
    intro r hr hl
    refine ⟨hr, hl, fun _ => rfl, fun h => h, fun h => ?_⟩
    simp only [complete]
    right; right; left; omega
  | succ fuel ih =>
    intro r hr hl
    unfold complete
    split
    next hc =>
      obtain ⟨hpos, hmod, hlt, herr⟩ := hc
      have hrne : r.data ≠ [] := by intro h; simp [h] at hpos
      have hfut : future r.err r.src = srcBytes r.src.chunks := by simp [future, herr]
      have hq := read_ok r.src (count - r.data.length) hr.ne
      have hql := read_len r.src (count - r.data.length)
      split
      next hz =>
        have hz' : (r.src.read (count - r.data.length)).data = [] := List.eq_nil_of_length_eq_zero hz
        have hn := read_nil r.src (count - r.data.length) (by omega) hr.ne hz'
        refine ⟨⟨?_, ?_, ?_, hq.ne⟩, hl, fun h => absurd h hrne, fun _ => hrne, fun _ => ?_⟩
        · have := hr.bytes
          rw [hfut, hn.1] at this
          simpa [future, hn.2.1, srcBytes] using this
        · intro e; simp only [hn.2.1, Option.getD_some, Option.some.injEq]
          intro h; rw [← h, hr.term]
        · exact hq.term.trans hr.term
        · right; right; right; simp [hn.2.1]
      next hz =>
        have hr' : RdOk s0 ⟨r.data ++ (r.src.read (count - r.data.length)).data,
            (r.src.read (count - r.data.length)).err, (r.src.read (count - r.data.length)).src⟩ := by
          refine ⟨?_, ?_, hq.term.trans hr.term, hq.ne⟩
          · have h1 := hr.bytes
            have h2 := hq.bytes
            rw [hfut] at h1
            simp only [List.append_assoc]
            rw [h2, h1]
          · intro e he; rw [hq.err e he, hr.term]
        have hl' : (r.data ++ (r.src.read (count - r.data.length)).data).length ≤ count := by
          simp only [List.length_append]; omega
        obtain ⟨i1, i2, _, i4, i5⟩ := ih _ hr' hl'
        refine ⟨i1, i2, fun h => absurd h hrne, fun _ => i4 (by simp [hrne]), fun hf => i5 ?_⟩
        simp only [List.length_append]; omega
    next hc =>
      refine ⟨hr, hl, fun _ => rfl, fun h => h, fun _ => ?_⟩
      unfold Done
      by_cases h1 : r.data = []
      · left; exact h1
      · have : 0 < r.data.length := List.length_pos_iff.mpr h1
        by_cases h2 : r.data.length % 8 = 0
        · right; left; exact h2
        · by_cases h3 : r.err = none
          · right; right; left
            have : ¬ r.data.length < count := fun h => hc ⟨this, h2, h, h3⟩
            omega
          · right; right; right; exact h3


/-! ## invariant, abstraction, the abstract word machine -/

structure Inv (s : St) : Prop where
  blen : s.buffer.length % 8 = 0
  bpos : 0 < s.buffer.length
  mp : -1 ≤ s.maxPosition
  lim_le : s.lim ≤ s.buffer.length
  avail_le : s.availBits ≤ 64
  ne : NE s.src.chunks
  pend : ∀ e, s.pendingErr = some e → e = s.src.term.err
  al : s.pendingErr = none → s.bufRest.length % 8 = 0
  cl : s.closed = true → s.availBits = 0 ∧ s.maxPosition = -1

/-- open, and `availBytes ≥ 0` in `ReadArray` (lost only when a panic went through the
    `pendingErr` path, or by `Close`) -/
def Fresh (s : St) : Prop := s.closed = false ∧ s.position ≤ s.lim

/-- abstract state: no buffer, no chunks -/
structure A where
  closed : Bool
  cnt : Int
  avail : Nat
  cur : BitVec 64
  rest : List Byte
  ending : ErrKind

def abs (s : St) : A :=
  { closed := s.closed, cnt := s.count, avail := s.availBits, cur := s.current,
    rest := if s.closed then [] else s.bufRest ++ future s.pendingErr s.src,
    ending := s.src.term.err }

def A.pull (a : A) : Option ErrKind × A :=
  if a.closed then (some .closed, a)
  else if a.rest = [] then (some a.ending, a)
  else (none, { a with cur := beWord (a.rest.take 8), avail := 8 * (a.rest.take 8).length,
                       rest := a.rest.drop 8, cnt := a.cnt + a.avail })

theorem A.pull_closed (a : A) (hc : a.closed = true) : a.pull = (some .closed, a) := by
  unfold A.pull; simp [hc]

theorem A.pull_nil (a : A) (hc : a.closed = false) (hr : a.rest = []) :
    a.pull = (some a.ending, a) := by
  unfold A.pull; simp [hc, hr]

theorem A.pull_ok (a : A) (hc : a.closed = false) (hr : a.rest ≠ []) :
    a.pull = (none, ⟨a.closed, a.cnt + a.avail, 8 * (a.rest.take 8).length,
      beWord (a.rest.take 8), a.rest.drop 8, a.ending⟩) := by
  unfold A.pull; simp [hc, hr]

theorem fetch_ok (s : St) (hi : Inv s) :
    RdOk s.src (fetch s) ∧ (fetch s).data.length ≤ s.buffer.length ∧
    ((fetch s).data = [] → srcBytes s.src.chunks = [] ∧ (fetch s).err = some s.src.term.err ∧
        srcBytes (fetch s).src.chunks = []) ∧
    ((fetch s).data ≠ [] → (fetch s).data.length % 8 = 0 ∨ (fetch s).err ≠ none) := by
  have h0 := read_ok s.src s.buffer.length hi.ne
  have hl := read_len s.src s.buffer.length
  obtain ⟨c1, c2, c3, c4, c5⟩ := complete_ok s.src s.buffer.length s.buffer.length _ h0 hl
  refine ⟨c1, c2, ?_, ?_⟩
  · intro h
    by_cases hd : (s.src.read s.buffer.length).data = []
    · have hn := read_nil s.src s.buffer.length hi.bpos hi.ne hd
      unfold fetch
      rw [c3 hd]
      exact ⟨by rw [hn.1]; rfl, hn.2.1, by rw [hn.2.2]; rfl⟩
    · exact absurd h (c4 hd)
  · intro h
    have hd := c5 (by omega)
    rcases hd with hd | hd | hd | hd
    · exact absurd hd h
    · left; exact hd
    · left; unfold fetch; rw [hd]; exact hi.blen
    · right; exact hd

theorem lim_of_max (s : St) (n : Nat) (h : s.maxPosition = (n : Int) - 1) : s.lim = n := by
  unfold St.lim; omega

theorem refill_pend (s : St) (hc : s.closed = false) (hb : s.buffer.length ≠ 0) (e : ErrKind)
    (hp : s.pendingErr = some e) : refill s = (some e, { s with maxPosition := -1 }) := by
  unfold refill; simp [hc, hb, hp]

theorem refill_empty (s : St) (hc : s.closed = false) (hb : s.buffer.length ≠ 0)
    (hp : s.pendingErr = none) (hz : (fetch s).data.length = 0) :
    refill s = (some (((fetch s).err).getD .eos),
          { s with read := s.read + 8 * (s.position : Int), position := 0, maxPosition := -1,
                   src := (fetch s).src }) := by
  unfold refill; simp [hc, hb, hp, hz]

theorem refill_data (s : St) (hc : s.closed = false) (hb : s.buffer.length ≠ 0)
    (hp : s.pendingErr = none) (hz : (fetch s).data.length ≠ 0) :
    refill s = (none,
          { s with read := s.read + 8 * (s.position : Int), position := 0,
                   maxPosition := ((fetch s).data.length : Int) - 1,
                   pendingErr := (fetch s).err, src := (fetch s).src,
                   buffer := (fetch s).data ++ s.buffer.drop (fetch s).data.length }) := by
  unfold refill; simp [hc, hb, hp, hz]

/-- a failed refill -/
theorem refill_err (s : St) (hi : Inv s) (hc : s.closed = false) (e : ErrKind)
    (h : (refill s).1 = some e) :
    e = s.src.term.err ∧ future s.pendingErr s.src = [] ∧ Inv (refill s).2 ∧
    (refill s).2.closed = false ∧ (refill s).2.count = s.count ∧
    (refill s).2.availBits = s.availBits ∧ (refill s).2.current = s.current ∧
    (refill s).2.bufRest = [] ∧ future (refill s).2.pendingErr (refill s).2.src = [] ∧
    (refill s).2.src.term = s.src.term := by
  have hb : s.buffer.length ≠ 0 := by have := hi.bpos; omega
  cases hp : s.pendingErr with
  | some e' =>
    rw [refill_pend s hc hb e' hp] at h ⊢
    simp only [Option.some.injEq] at h
    subst h
    refine ⟨hi.pend _ hp, by simp [future], ?_, hc, rfl, rfl, rfl, ?_, by simp [future, hp], rfl⟩
    · refine ⟨hi.blen, hi.bpos, by simp, ?_, hi.avail_le, hi.ne, ?_, ?_, ?_⟩
      · simp [St.lim]
      · simpa [hp] using hi.pend
      · simp [hp]
      · simp [hc]
    · simp [St.bufRest, St.lim]
  | none =>
    obtain ⟨f1, f2, f3, f4⟩ := fetch_ok s hi
    by_cases hz : (fetch s).data.length = 0
    · have hz' : (fetch s).data = [] := List.eq_nil_of_length_eq_zero hz
      obtain ⟨g1, g2, g3⟩ := f3 hz'
      rw [refill_empty s hc hb hp hz] at h ⊢
      simp only [g2, Option.getD_some, Option.some.injEq] at h
      refine ⟨h.symm, by simp [future, g1], ?_, hc, ?_, rfl, rfl, ?_, by simp [hp, future, g3],
        f1.term⟩
      · refine ⟨hi.blen, hi.bpos, by simp, ?_, hi.avail_le, f1.ne, ?_, ?_, ?_⟩
        · simp [St.lim]
        · simp [hp]
        · simp [St.bufRest, St.lim]
        · simp [hc]
      · simp [St.count]
      · simp [St.bufRest, St.lim]
    · rw [refill_data s hc hb hp hz] at h
      simp at h

/-- a successful refill -/
theorem refill_ok (s : St) (hi : Inv s) (hc : s.closed = false) (h : (refill s).1 = none) :
    s.pendingErr = none ∧ Inv (refill s).2 ∧ (refill s).2.position = 0 ∧
    (refill s).2.closed = false ∧ (refill s).2.count = s.count ∧
    (refill s).2.availBits = s.availBits ∧ (refill s).2.current = s.current ∧
    (refill s).2.bufRest ≠ [] ∧
    (refill s).2.bufRest ++ future (refill s).2.pendingErr (refill s).2.src = srcBytes s.src.chunks ∧
    (refill s).2.src.term = s.src.term := by
  have hb : s.buffer.length ≠ 0 := by have := hi.bpos; omega
  cases hp : s.pendingErr with
  | some e' => rw [refill_pend s hc hb e' hp] at h; simp at h
  | none =>
    obtain ⟨f1, f2, f3, f4⟩ := fetch_ok s hi
    by_cases hz : (fetch s).data.length = 0
    · rw [refill_empty s hc hb hp hz] at h; simp at h
    · rw [refill_data s hc hb hp hz]
      have hne : (fetch s).data ≠ [] := fun h0 => hz (by simp [h0])
      have hbr : ∀ (t : St), t.buffer = (fetch s).data ++ s.buffer.drop (fetch s).data.length →
          t.position = 0 → t.maxPosition = ((fetch s).data.length : Int) - 1 →
          t.bufRest = (fetch s).data := by
        intro t h1 h2 h3
        simp only [St.bufRest, lim_of_max t _ h3, h1, h2, List.drop_zero, List.take_left']
      refine ⟨rfl, ?_, rfl, hc, ?_, rfl, rfl, ?_, ?_, f1.term⟩
      · refine ⟨?_, ?_, ?_, ?_, hi.avail_le, f1.ne, fun e he => (f1.err e he).trans (by rw [← f1.term]), ?_, ?_⟩
        · simp only [List.length_append, List.length_drop]
          have := hi.blen; omega
        · simp only [List.length_append, List.length_drop]
          have := hi.bpos; omega
        · simp only; omega
        · rw [lim_of_max _ (fetch s).data.length rfl]
          simp only [List.length_append, List.length_drop]; omega
        · rw [hbr _ rfl rfl rfl]
          intro hf
          rcases f4 hne with h8 | h8
          · exact h8
          · exact absurd hf h8
        · simp [hc]
      · simp [St.count]
      · rw [hbr _ rfl rfl rfl]; exact hne
      · rw [hbr _ rfl rfl rfl]; exact f1.bytes


theorem A.ext' {a b : A} (h1 : a.closed = b.closed) (h2 : a.cnt = b.cnt) (h3 : a.avail = b.avail)
    (h4 : a.cur = b.cur) (h5 : a.rest = b.rest) (h6 : a.ending = b.ending) : a = b := by
  cases a; cases b; simp_all

theorem bufRest_len (s : St) (h : s.lim ≤ s.buffer.length) :
    s.bufRest.length = s.lim - s.position := by
  simp only [St.bufRest, List.length_drop, List.length_take]; omega

theorem bufRest_nil_iff (s : St) (hi : Inv s) :
    s.bufRest = [] ↔ (s.position : Int) > s.maxPosition := by
  rw [← List.length_eq_zero_iff, bufRest_len s hi.lim_le]
  have := hi.mp
  unfold St.lim; omega

theorem abs_rest_open (s : St) (hc : s.closed = false) :
    (abs s).rest = s.bufRest ++ future s.pendingErr s.src := by simp [abs, hc]

theorem pullWord_fields (t : St) :
    (pullWord t).buffer = t.buffer ∧ (pullWord t).maxPosition = t.maxPosition ∧
    (pullWord t).pendingErr = t.pendingErr ∧ (pullWord t).src = t.src ∧
    (pullWord t).closed = t.closed ∧ (pullWord t).read = t.read := by
  unfold pullWord; split <;> simp

theorem pullWord_partial (t : St) (h : (t.position : Int) + 7 > t.maxPosition) :
    (pullWord t).position = t.position + t.bufRest.length ∧
    (pullWord t).availBits = 8 * t.bufRest.length ∧ (pullWord t).current = beWord t.bufRest := by
  unfold pullWord; simp [h]

theorem pullWord_full (t : St) (h : ¬ (t.position : Int) + 7 > t.maxPosition) :
    (pullWord t).position = t.position + 8 ∧
    (pullWord t).availBits = 64 ∧
    (pullWord t).current = beWord ((t.buffer.drop t.position).take 8) := by
  unfold pullWord; simp [h]

theorem bufRest_of_eq (u t : St) (h1 : u.buffer = t.buffer) (h2 : u.maxPosition = t.maxPosition) :
    u.bufRest = t.bufRest.drop (u.position - t.position) ∨ u.position < t.position := by
  by_cases h : u.position < t.position
  · right; exact h
  · left
    simp only [St.bufRest, St.lim, h1, h2, List.drop_drop]
    congr 1; omega

/-- the word extraction of `pull` on a non-empty buffer -/
theorem pullWord_sim (t : St) (hi : Inv t) (hc : t.closed = false) (hne : t.bufRest ≠ []) :
    A.pull (abs t) = (none, abs (pullWord t)) ∧ Inv (pullWord t) ∧ Fresh (pullWord t) ∧
    (pullWord t).pendingErr = t.pendingErr ∧ (pullWord t).closed = false ∧
    ((pullWord t).availBits = 64 ∨
      ((pullWord t).pendingErr ≠ none ∧ (pullWord t).bufRest = [])) := by
  have hlen := bufRest_len t hi.lim_le
  have hpos : 0 < t.bufRest.length := List.length_pos_iff.mpr hne
  have hmp := hi.mp
  have hA := A.pull_ok (abs t) hc (by rw [abs_rest_open t hc]; simp [hne])
  obtain ⟨e1, e2, e3, e4, e5, e6⟩ := pullWord_fields t
  have hlimdef : t.lim = (t.maxPosition + 1).toNat := rfl
  rw [hA, abs_rest_open t hc]
  by_cases hcase : (t.position : Int) + 7 > t.maxPosition
  · -- partial last word: the source is exhausted
    obtain ⟨p1, p2, p3⟩ := pullWord_partial t hcase
    generalize pullWord t = u at *
    have hlt : t.bufRest.length < 8 := by omega
    have hpe : t.pendingErr ≠ none := by
      intro h; have := hi.al h; omega
    have hfut : future t.pendingErr t.src = [] := by
      cases hp : t.pendingErr with
      | none => exact absurd hp hpe
      | some e => rfl
    have hul : u.lim = t.lim := by simp only [St.lim, e2]
    have hbr' : u.bufRest = [] := by
      rw [← List.length_eq_zero_iff, bufRest_len u (by rw [hul, e1]; exact hi.lim_le), hul]
      omega
    have huc : u.closed = false := by rw [e5, hc]
    refine ⟨?_, ?_, ?_, e3, huc, Or.inr ⟨by rw [e3]; exact hpe, hbr'⟩⟩
    · congr 1
      apply A.ext'
      · simp [abs, e5]
      · simp only [abs, St.count, e6, p1, p2]; push_cast; omega
      · simp only [abs, hfut, List.append_nil, p2]
        rw [List.take_of_length_le (by omega)]
      · simp only [abs, hfut, List.append_nil, p3]
        rw [List.take_of_length_le (by omega)]
      · rw [abs_rest_open u huc, hbr', e3, e4, hfut]
        simp only [List.append_nil]
        rw [List.drop_of_length_le (by omega)]
      · simp [abs, e4]
    · refine ⟨by rw [e1]; exact hi.blen, by rw [e1]; exact hi.bpos, by rw [e2]; exact hi.mp,
        by rw [hul, e1]; exact hi.lim_le, by omega, by rw [e4]; exact hi.ne,
        by rw [e3, e4]; exact hi.pend, ?_, ?_⟩
      · intro _; rw [hbr']; rfl
      · intro h; rw [huc] at h; cases h
    · refine ⟨huc, ?_⟩; rw [hul]; omega
  · -- a full word
    obtain ⟨p1, p2, p3⟩ := pullWord_full t hcase
    generalize pullWord t = u at *
    have hge : 8 ≤ t.bufRest.length := by omega
    have htake : (t.buffer.drop t.position).take 8 = t.bufRest.take 8 := by
      simp only [St.bufRest, List.drop_take, List.take_take]
      congr 1; omega
    have hul : u.lim = t.lim := by simp only [St.lim, e2]
    have hbr' : u.bufRest = t.bufRest.drop 8 := by
      rcases bufRest_of_eq u t e1 e2 with h | h
      · rw [h]; congr 1; omega
      · omega
    have huc : u.closed = false := by rw [e5, hc]
    refine ⟨?_, ?_, ?_, e3, huc, Or.inl p2⟩
    · congr 1
      apply A.ext'
      · simp [abs, e5]
      · simp only [abs, St.count, e6, p1, p2]; push_cast; omega
      · simp only [abs, p2]
        rw [List.take_append_of_le_length hge, List.length_take]; omega
      · simp only [abs, p3]
        rw [List.take_append_of_le_length hge, htake]
      · rw [abs_rest_open u huc, hbr', e3, e4, List.drop_append_of_le_length hge]
      · simp [abs, e4]
    · refine ⟨by rw [e1]; exact hi.blen, by rw [e1]; exact hi.bpos, by rw [e2]; exact hi.mp,
        by rw [hul, e1]; exact hi.lim_le, by omega, by rw [e4]; exact hi.ne,
        by rw [e3, e4]; exact hi.pend, ?_, ?_⟩
      · intro h; rw [hbr']
        have := hi.al (by rw [← e3]; exact h)
        simp only [List.length_drop]; omega
      · intro h; rw [huc] at h; cases h
    · refine ⟨huc, ?_⟩; rw [hul]; omega

theorem pull_sim (s : St) (hi : Inv s) :
    (pull s).1 = (A.pull (abs s)).1 ∧ abs (pull s).2 = (A.pull (abs s)).2 ∧ Inv (pull s).2 ∧
    ((pull s).1 = none → Fresh (pull s).2 ∧ (pull s).2.closed = false ∧
      ((pull s).2.availBits = 64 ∨
        ((pull s).2.pendingErr ≠ none ∧ (pull s).2.bufRest = []))) := by
  cases hc : s.closed with
  | true =>
    obtain ⟨_, hm⟩ := hi.cl hc
    have h1 : (s.position : Int) > s.maxPosition := by omega
    have hr : refill s = (some .closed, s) := by unfold refill; simp [hc]
    have hp : pull s = (some .closed, s) := by unfold pull; simp [h1, hr]
    have ha : A.pull (abs s) = (some .closed, abs s) := A.pull_closed _ hc
    rw [hp, ha]; exact ⟨rfl, rfl, hi, by simp⟩
  | false =>
    by_cases h1 : (s.position : Int) > s.maxPosition
    · have hbn : s.bufRest = [] := (bufRest_nil_iff s hi).mpr h1
      cases hr : (refill s).1 with
      | some e =>
        obtain ⟨r1, r2, r3, r4, r5, r6, r7, r8, r9, r10⟩ := refill_err s hi hc e hr
        have hp : pull s = (some e, (refill s).2) := by unfold pull; simp [h1, hr]
        have ha : A.pull (abs s) = (some s.src.term.err, abs s) :=
          A.pull_nil _ hc (by rw [abs_rest_open s hc, hbn, r2]; rfl)
        rw [hp, ha]
        refine ⟨by rw [r1], ?_, r3, by simp⟩
        apply A.ext'
        · simp [abs, r4, hc]
        · simp [abs, r5]
        · simp [abs, r6]
        · simp [abs, r7]
        · rw [abs_rest_open _ r4, abs_rest_open s hc, r8, r9, hbn, r2]
        · simp [abs, r10]
      | none =>
        obtain ⟨r1, r2, r3, r4, r5, r6, r7, r8, r9, r10⟩ := refill_ok s hi hc hr
        have hp : pull s = (none, pullWord (refill s).2) := by unfold pull; simp [h1, hr]
        obtain ⟨w1, w2, w3, w4, w5, w6⟩ := pullWord_sim (refill s).2 r2 r4 r8
        have habs : abs (refill s).2 = abs s := by
          apply A.ext'
          · simp [abs, r4, hc]
          · simp [abs, r5]
          · simp [abs, r6]
          · simp [abs, r7]
          · rw [abs_rest_open _ r4, abs_rest_open s hc, r9, hbn, r1]; rfl
          · simp [abs, r10]
        rw [hp, ← habs, w1]
        exact ⟨rfl, rfl, w2, fun _ => ⟨w3, w5, w6⟩⟩
    · have hbn : s.bufRest ≠ [] := fun h => h1 ((bufRest_nil_iff s hi).mp h)
      have hp : pull s = (none, pullWord s) := by unfold pull; simp [h1]
      obtain ⟨w1, w2, w3, w4, w5, w6⟩ := pullWord_sim s hi hc hbn
      rw [hp, w1]
      exact ⟨rfl, rfl, w2, fun _ => ⟨w3, w5, w6⟩⟩

end Kanzi.IBS
