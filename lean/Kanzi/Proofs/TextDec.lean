/-
Slice `texttotal` (C03): `TextCodec.Inverse` on arbitrary input - the loop invariant and its consequences.
Part 1: the learning step and the token readers.  (Model: Kanzi/Model/Text.lean, Kanzi/Model/TextDec.lean.)
-/
import Kanzi.Model.TextDec
import Kanzi.Proofs.TextTotal

namespace Kanzi.Text
open Kanzi.RLT (Out Res)

/-! ## small facts -/

theorem lt_of_getElem?_some (a : Array Nat) (i b : Nat) (h : a[i]? = some b) : i < a.size := by
  by_cases c : i < a.size
  · exact c
  · rw [Array.getElem?_eq_none (by omega)] at h; cases h

theorem flipHead_length (flip : Nat) (l : List Nat) : (flipHead flip l).length = l.length := by
  cases l <;> rfl

theorem td_expand_size (d : Dict) : (expand d).size = d.size * 2 := rfl
theorem td_expand_ssz (d : Dict) : (expand d).ssz = d.ssz := rfl
theorem learnCore_size (d : Dict) (words : Nat) (word : List Nat) (h1 : Nat) :
    (learnCore d words word h1).size = d.size := rfl
theorem learnCore_ssz (d : Dict) (words : Nat) (word : List Nat) (h1 : Nat) :
    (learnCore d words word h1).ssz = d.ssz := rfl

/-- how `learnNext` moves the ring index and the size: the index advances by one or wraps to the static size;
    the size stays or doubles, and it doubles only when the dictionary is full (`size <= words + 1`) -/
theorem learnNext_grow (d2 : Dict) (words : Nat) (hs : d2.ssz ≤ words) :
    (learnNext d2 words).2 ≤ words + 1 ∧
    ((learnNext d2 words).1.size = d2.size ∨
      ((learnNext d2 words).1.size = 2 * d2.size ∧ d2.size ≤ words + 1 ∧ (learnNext d2 words).2 = words + 1)) := by
  unfold learnNext
  by_cases c1 : words + 1 ≥ d2.size
  · rw [if_pos c1]
    by_cases c2 : d2.size ≥ MAX_DICT_SIZE
    · rw [if_pos c2]; exact ⟨by simp only; omega, Or.inl rfl⟩
    · rw [if_neg c2]
      exact ⟨Nat.le_refl _, Or.inr ⟨by rw [td_expand_size]; omega, c1, rfl⟩⟩
  · rw [if_neg c1]; exact ⟨Nat.le_refl _, Or.inl rfl⟩

/-- what the learning step guarantees about its result `(d', w')` -/
structure LearnOK (d : Dict) (words : Nat) (d' : Dict) (w' : Nat) : Prop where
  dok : DictOK d' w'
  ssz : d'.ssz = d.ssz
  hsz : d'.hsz = d.hsz
  w_le : w' ≤ words + 1
  size : d'.size = d.size ∨ (d'.size = 2 * d.size ∧ d.size ≤ words + 1 ∧ w' = words + 1)

theorem LearnOK.refl (d : Dict) (words : Nat) (h : DictOK d words) : LearnOK d words d words :=
  ⟨h, rfl, rfl, Nat.le_succ _, Or.inl rfl⟩

theorem learn_learnOK (d : Dict) (words : Nat) (word : List Nat) (h : DictOK d words)
    (ht : ∀ b ∈ word, isText b = true) :
    ∃ p, learn d words word (hashWord word) = .ok p ∧ LearnOK d words p.1 p.2 := by
  refine ⟨_, learn_eq d words word _ h, ?_⟩
  have hc := learnCore_ok d words word h ht
  have hg := learnNext_grow (learnCore d words word (hashWord word)) words (by rw [learnCore_ssz]; exact h.ssz_le)
  rw [learnCore_size] at hg
  exact ⟨learnNext_ok _ _ hc, by rw [learnNext_ssz, learnCore_ssz], by rw [learnNext_hsz]; rfl, hg.1, hg.2⟩

/-- `invLearnW` (look-up, then `learn` when the word is absent and its slot free) never fails on a well-formed
    dictionary for a word of at least 2 letters -/
theorem invLearnW_ok (word : List Nat) (words : Nat) (d : Dict) (h : DictOK d words) (hl : 2 ≤ word.length)
    (ht : ∀ b ∈ word, isText b = true) :
    ∃ p, invLearnW word words d = .ok p ∧ LearnOK d words p.1 p.2 := by
  unfold invLearnW
  simp only
  have fin : ∀ (c : Prop) [Decidable c], ∃ p,
      (if c then learn d words word (hashWord word) else .ok (d, words)) = .ok p ∧ LearnOK d words p.1 p.2 := by
    intro c _
    by_cases hc : c
    · rw [if_pos hc]; exact learn_learnOK d words word h ht
    · rw [if_neg hc]; exact ⟨(d, words), rfl, LearnOK.refl d words h⟩
  cases hf : findEntry d (hashWord word) with
  | none => exact fin _
  | some k =>
    simp only
    by_cases c : (entryAt d k).hash = hashWord word ∧ (entryAt d k).len = word.length
    · rw [if_pos c]
      obtain ⟨w, hw, _⟩ := entry_ptr_of_map d words _ k _ h hf c.2 hl
      rw [hw]
      exact fin _
    · rw [if_neg c]
      exact fin _

/-- the learning step of one Inverse iteration at the non-letter byte `cur = src[i]`: it never fails when the
    bytes `[ws, i)` are letters -/
theorem invLearn_ok (a : Array Nat) (i ws words : Nat) (d : Dict) (cur : Nat) (h : DictOK d words) (hi : i ≤ a.size)
    (ht : ∀ k, ws ≤ k → k < i → isText (a.getD k 0) = true) :
    ∃ p, invLearn a i ws words d cur = .ok p ∧ LearnOK d words p.1 p.2 ∧
      (p = (d, words) ∨ ws + 3 ≤ i) := by
  unfold invLearn
  by_cases c : i ≥ ws + 3 ∧ isDelimiter cur = true ∧ i - ws ≤ MAX_WORD_LENGTH
  · rw [if_pos c]
    obtain ⟨p, hp, hl⟩ := invLearnW_ok (a.extract ws i).toList words d h
      (by rw [extract_length a ws i hi]; omega)
      (fun b hb => by
        obtain ⟨k, h1, h2, e⟩ := extract_mem a ws i b hi hb
        rw [e]; exact ht k h1 h2)
    exact ⟨p, hp, hl, Or.inr c.1⟩
  · rw [if_neg c]
    exact ⟨(d, words), rfl, LearnOK.refl d words h, Or.inl rfl⟩

/-! ## the token readers: every outcome -/

/-- codec 1: the index reader either panics (a byte of the index lies beyond the end of the source), or rejects
    the index (`>= dictSize`, only checked in the 2 / 3 byte forms), or returns an index below `dictSize` or
    below 128 and a position inside the source -/
theorem readIdx1_cases (a : Array Nat) (i dsize : Nat) :
    readIdx1 a i dsize = .fault "src-index" ∨ readIdx1 a i dsize = .err "index" ∨
    ∃ idx i2, readIdx1 a i dsize = .ok (idx, i2) ∧ i < i2 ∧ i2 ≤ a.size ∧ (idx < dsize ∨ idx < 128) := by
  unfold readIdx1
  cases h0 : a[i]? with
  | none => exact Or.inl rfl
  | some b0 =>
    have l0 := lt_of_getElem?_some a i b0 h0
    simp only
    by_cases c0 : b0 ≥ 128
    · rw [if_pos c0]
      cases h1 : a[i + 1]? with
      | none => exact Or.inl rfl
      | some b1 =>
        have l1 := lt_of_getElem?_some a _ b1 h1
        simp only
        by_cases c1 : b1 ≥ 0x80
        · rw [if_pos c1]
          cases h2 : a[i + 2]? with
          | none => exact Or.inl rfl
          | some b2 =>
            have l2 := lt_of_getElem?_some a _ b2 h2
            simp only
            split
            · exact Or.inr (Or.inl rfl)
            · exact Or.inr (Or.inr ⟨_, _, rfl, by omega, by omega, Or.inl (by omega)⟩)
        · rw [if_neg c1]
          split
          · exact Or.inr (Or.inl rfl)
          · exact Or.inr (Or.inr ⟨_, _, rfl, by omega, by omega, Or.inl (by omega)⟩)
    · rw [if_neg c0]
      exact Or.inr (Or.inr ⟨_, _, rfl, by omega, by omega, Or.inr (by omega)⟩)

theorem and7F_lt (c : Nat) : c &&& 0x7F < 128 := by rw [and7F]; omega

/-- codec 2, current format: panic (index byte beyond the source, or the unchecked index 0 of the multi-byte
    forms: `dictList[-1]`), rejected index, or an index below `dictSize` or below 63 -/
theorem readIdx2Core_cases (a : Array Nat) (c i flip dsize : Nat) (hi : i ≤ a.size) :
    readIdx2Core a c i flip dsize = .fault "src-index" ∨ readIdx2Core a c i flip dsize = .fault "dict-index" ∨
    readIdx2Core a c i flip dsize = .err "index" ∨
    ∃ idx i2 fl, readIdx2Core a c i flip dsize = .ok (idx, i2, fl) ∧ i ≤ i2 ∧ i2 ≤ a.size ∧ (idx < dsize ∨ idx < 128) := by
  unfold readIdx2Core
  by_cases c0 : c &&& 0x7F ≥ 64
  · rw [if_pos c0]
    have hm : readIdx2Multi a (c &&& 0x7F) i = .fault "src-index" ∨
        ∃ v i2, readIdx2Multi a (c &&& 0x7F) i = .ok (v, i2) ∧ i ≤ i2 ∧ i2 ≤ a.size := by
      unfold readIdx2Multi
      by_cases c1 : c &&& 0x7F ≥ 112
      · rw [if_pos c1]
        cases h1 : a[i]? with
        | none => exact Or.inl rfl
        | some b1 =>
          cases h2 : a[i + 1]? with
          | none => exact Or.inl rfl
          | some b2 =>
            have l2 := lt_of_getElem?_some a _ b2 h2
            exact Or.inr ⟨_, _, rfl, by omega, by omega⟩
      · rw [if_neg c1]
        cases h1 : a[i]? with
        | none => exact Or.inl rfl
        | some b1 =>
          have l1 := lt_of_getElem?_some a _ b1 h1
          exact Or.inr ⟨_, _, rfl, by omega, by omega⟩
    rcases hm with hm | ⟨v, i2, hm, h1, h2⟩
    · rw [hm]; exact Or.inl rfl
    · rw [hm]
      simp only
      by_cases c2 : v > dsize
      · rw [if_pos c2]; exact Or.inr (Or.inr (Or.inl rfl))
      · rw [if_neg c2]
        by_cases c3 : v = 0
        · rw [if_pos c3]; exact Or.inr (Or.inl rfl)
        · rw [if_neg c3]
          exact Or.inr (Or.inr (Or.inr ⟨_, _, _, rfl, h1, h2, Or.inl (by omega)⟩))
  · rw [if_neg c0]
    by_cases c1 : c &&& 0x7F = 0
    · rw [if_pos c1]; exact Or.inr (Or.inr (Or.inl rfl))
    · rw [if_neg c1]
      exact Or.inr (Or.inr (Or.inr ⟨_, _, _, rfl, Nat.le_refl _, hi, Or.inr (by omega)⟩))

theorem readIdx2_cases (a : Array Nat) (i cur dsize : Nat) (hi : i ≤ a.size) :
    readIdx2 a i cur dsize = .fault "src-index" ∨ readIdx2 a i cur dsize = .fault "dict-index" ∨
    readIdx2 a i cur dsize = .err "index" ∨
    ∃ idx i2 fl, readIdx2 a i cur dsize = .ok (idx, i2, fl) ∧ i ≤ i2 ∧ i2 ≤ a.size ∧ (idx < dsize ∨ idx < 128) := by
  unfold readIdx2
  by_cases c : cur = MASK_FLIP_CASE
  · rw [if_pos c]
    cases h0 : a[i]? with
    | none => exact Or.inl rfl
    | some b =>
      have l0 := lt_of_getElem?_some a _ b h0
      simp only
      rcases readIdx2Core_cases a b (i + 1) 0x20 dsize (by omega) with h | h | h | ⟨idx, i2, fl, h, h1, h2, h3⟩
      · exact Or.inl h
      · exact Or.inr (Or.inl h)
      · exact Or.inr (Or.inr (Or.inl h))
      · exact Or.inr (Or.inr (Or.inr ⟨idx, i2, fl, h, by omega, h2, h3⟩))
  · rw [if_neg c]
    exact readIdx2Core_cases a cur i 0 dsize hi

/-- codec 2, old format (bsVersion < 6): panic only by reading beyond the source -/
theorem readIdx2Old_cases (a : Array Nat) (i cur dsize : Nat) (hi : i ≤ a.size) :
    readIdx2Old a i cur dsize = .fault "src-index" ∨ readIdx2Old a i cur dsize = .err "index" ∨
    ∃ idx i2 fl, readIdx2Old a i cur dsize = .ok (idx, i2, fl) ∧ i ≤ i2 ∧ i2 ≤ a.size ∧ (idx < dsize ∨ idx < 128) := by
  unfold readIdx2Old
  simp only
  have h1F : cur &&& 0x1F < 32 := by rw [and1F]; omega
  by_cases c : cur &&& 0x40 ≠ 0
  · rw [if_pos c]
    cases h0 : a[i]? with
    | none => exact Or.inl rfl
    | some b1 =>
      have l0 := lt_of_getElem?_some a _ b1 h0
      simp only
      by_cases c1 : b1 ≥ 128
      · rw [if_pos c1]
        cases h1 : a[i + 1]? with
        | none => exact Or.inl rfl
        | some b2 =>
          have l1 := lt_of_getElem?_some a _ b2 h1
          simp only [Out.bind]
          split
          · exact Or.inr (Or.inl rfl)
          · exact Or.inr (Or.inr ⟨_, _, _, rfl, by omega, by omega, Or.inl (by omega)⟩)
      · rw [if_neg c1]
        simp only [Out.bind]
        split
        · exact Or.inr (Or.inl rfl)
        · exact Or.inr (Or.inr ⟨_, _, _, rfl, by omega, by omega, Or.inl (by omega)⟩)
  · rw [if_neg c]
    exact Or.inr (Or.inr ⟨_, _, _, rfl, Nat.le_refl _, hi, Or.inr (by omega)⟩)

end Kanzi.Text
