package main

import (
	"bytes"
	"fmt"
	"io"
	"math/rand"
	"sync"

	kio "github.com/flanglet/kanzi-go/v2/io"
	"scratch/gen"
)

type sinkBuf struct{ bytes.Buffer }

func (*sinkBuf) Close() error { return nil }

type rc struct{ io.Reader }

func (rc) Close() error { return nil }

func pipeline(id int, tr, en string, data []byte, bs, jobs uint) error {
	var sb sinkBuf
	w, err := kio.NewWriter(&sb, tr, en, bs, jobs, 32, 0, false)
	if err != nil {
		return err
	}
	if _, err := w.Write(data); err != nil {
		return err
	}
	if err := w.Close(); err != nil {
		return err
	}
	r, _ := kio.NewReader(rc{bytes.NewReader(sb.Bytes())}, jobs)
	d, err := io.ReadAll(r)
	if err != nil {
		return err
	}
	if !bytes.Equal(d, data) {
		return fmt.Errorf("mismatch")
	}
	return nil
}

func main() {
	r := rand.New(rand.NewSource(1))
	text := gen.Text(r, 200000)
	big := gen.Text(r, 5<<20)
	cfgs := [][2]string{{"TEXT+UTF+BWT+RANK+ZRLT", "ANS0"}, {"LZX", "HUFFMAN"}, {"ROLZ", "NONE"}, {"TEXT", "TPAQ"}, {"BWT", "CM"}, {"TEXT+UTF+PACK+MM+LZX", "HUFFMAN"}, {"RLT+TEXT", "FPAQ"}, {"BWTS+SRT", "RANGE"}, {"LZP+TEXT+UTF+BWT+LZP", "ANS1"}}
	var wg sync.WaitGroup
	for i, c := range cfgs {
		for k := 0; k < 2; k++ {
			wg.Add(1)
			go func(i, k int, c [2]string) {
				defer wg.Done()
				if err := pipeline(i, c[0], c[1], text, 16384, uint(1+k*3)); err != nil {
					fmt.Println("ERR", c, err)
				}
			}(i, k, c)
		}
	}
	wg.Add(1)
	go func() {
		defer wg.Done()
		// multi-chunk BWT inverse with several jobs
		if err := pipeline(99, "BWT", "NONE", big, 8<<20, 4); err != nil {
			fmt.Println("ERR big", err)
		}
	}()
	wg.Wait()
	fmt.Println("done")
}
