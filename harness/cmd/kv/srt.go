package main

// srt: correspondence stream for the sorted rank transform transform.SRT (v2/transform/SRT.go),
// model lean/Kanzi/Model/SRT.lean, driver lean/Kanzi/Drv/SRT.lean.
//
//	f <dstlen> <hex>           Forward(src, dst[:dstlen])                       -> <res>
//	i <dstlen> <hex>           Inverse(src, dst[:dstlen])                       -> <res>
//	r <dstlen> <invlen> <hex>  Forward, then (if ok) Inverse into invlen bytes  -> <res> <res'> | <res>
//
// <res> = "ok <hex>" (nil error; dst[0:written]) | "err" (non-nil error) | "panic" (recovered).
//
// Exec runs the REAL transform on caller-owned buffers (source with cap == len, destination
// dst[:dstLen] of a larger buffer whose tail holds a canary) and evaluates the C13 oracle on the real
// code independently of the model: no panic in either direction (also on forged Inverse input),
// source unchanged, canary intact, and when len(dst) >= MaxEncodedLen(len(src)): Forward succeeds or
// leaves no trace, written <= MaxEncodedLen, read == len(src), Inverse(Forward(x)) == x into
// destinations of len(x) and of len(x)+extra bytes.

import (
	"bytes"
	"fmt"
	"math/rand"
	"strconv"
	"strings"

	"github.com/flanglet/kanzi-go/v2/transform"

	"kverif/internal/gen"
)

func init() {
	registerStream(&Stream{
		Name: "srt",
		Rule: "one op = one SRT.Forward, one SRT.Inverse, or Forward followed by Inverse on a caller-owned block; families: empty/1 byte, exhaustive short blocks, one symbol (lengths around the varint thresholds 128, 16384, 2^21), two symbols, all 256 symbols, frequency ties, alphabet sizes around the Shell-sort gaps (4,13,40,121), skewed/text/random/run-structured, long blocks (thorough: up to 2 MiB + 1), destination size variants (0, 1, len, len+1024, MaxEncodedLen-1, MaxEncodedLen = len+1280, larger), Inverse into exact/larger/smaller destinations, forged Inverse inputs (truncated, random, huge and 5-byte varints, header sum > / < data, zero header, mutated ranks / header); distinct_nontrivial = distinct ops with a non-empty block",
		Gen:  srtGen,
		Exec: srtExec,
	})
}

const srtMaxHdr = 5 * 256

type srtOut struct {
	trOut
	tailTouched bool // dst[written:dstLen] modified by a successful call
}

func srtCall(f func(src, dst []byte) (uint, uint, error), data []byte, dstLen int) (o srtOut) {
	src := make([]byte, len(data))
	copy(src, data)
	buf := make([]byte, dstLen+trCanary)
	for i := range buf {
		if i < dstLen {
			buf[i] = 0xAA
		} else {
			buf[i] = byte(0xC5 ^ i)
		}
	}
	func() {
		defer func() {
			if r := recover(); r != nil {
				o.panicMsg = fmt.Sprint(r)
			}
		}()
		o.read, o.written, o.err = f(src, buf[:dstLen])
	}()
	o.inputMod = !bytes.Equal(src, data)
	for i := dstLen; i < len(buf); i++ {
		if buf[i] != byte(0xC5^i) {
			o.canary = true
		}
	}
	if o.panicMsg == "" && o.err == nil && int(o.written) <= dstLen {
		o.out = buf[:o.written]
		for i := int(o.written); i < dstLen; i++ {
			if buf[i] != 0xAA {
				o.tailTouched = true
			}
		}
	}
	return o
}

func srtNew() *transform.SRT { t, _ := transform.NewSRT(); return t }

func srtForwardOracle(res *Result, data []byte, dstLen int, o srtOut) {
	t := srtNew()
	max := t.MaxEncodedLen(len(data))
	if len(data) == 0 || dstLen < max || o.panicMsg != "" {
		return
	}
	site := "transform.SRT.Forward"
	if o.err != nil {
		res.Tags = append(res.Tags, "fwd:declined-with-room")
		return
	}
	if int(o.written) > max {
		trViolate(res, site, "output>MaxEncodedLen", fmt.Sprintf("written=%d max=%d", o.written, max))
	}
	if int(o.read) != len(data) {
		trViolate(res, site, "short-read", fmt.Sprintf("read=%d len=%d with nil error", o.read, len(data)))
	}
	isite := "transform.SRT.Inverse"
	for _, extra := range []int{0, 1 + len(data)/16} {
		b := srtCall(srtNew().Inverse, o.out, len(data)+extra)
		switch {
		case b.panicMsg != "":
			trViolate(res, isite, "panic", b.panicMsg)
		case b.err != nil:
			trViolate(res, isite, "roundtrip-error", fmt.Sprintf("Inverse(Forward(x)) failed (dst=len+%d): %v", extra, b.err))
		case !bytes.Equal(b.out, data):
			trViolate(res, site, "roundtrip-mismatch", fmt.Sprintf("Inverse(Forward(x)) != x (dst=len+%d, got %d bytes, want %d)", extra, len(b.out), len(data)))
		case b.inputMod || b.canary:
			trViolate(res, isite, "buffer-integrity", "inverse modified its input or wrote past dst")
		}
	}
}

func srtExec(op string, res *Result) string {
	w := strings.Fields(op)
	atoi := func(s string) (int, bool) {
		v, err := strconv.Atoi(s)
		return v, err == nil && v >= 0 && v <= 1<<26
	}
	if len(w) < 3 {
		return "bad-op"
	}
	data, okd := trUnhex(w[len(w)-1])
	dstLen, ok1 := atoi(w[1])
	if !okd || !ok1 {
		return "bad-op"
	}
	res.Nontrivial = len(data) > 0
	res.Sample = map[string]any{"op": w[0], "len": len(data), "dst": dstLen, "prefix": op[:min(len(op), 80)]}
	fsite, isite := "transform.SRT.Forward", "transform.SRT.Inverse"
	switch {
	case w[0] == "f" && len(w) == 3:
		o := srtCall(srtNew().Forward, data, dstLen)
		line := trLine(res, o.trOut, fsite, "err", dstLen)
		srtForwardOracle(res, data, dstLen, o)
		res.Tags = append(res.Tags, "f:"+strings.Fields(line)[0])
		return line
	case w[0] == "i" && len(w) == 3:
		o := srtCall(srtNew().Inverse, data, dstLen)
		line := trLine(res, o.trOut, isite, "err", dstLen)
		if o.panicMsg != "" && !srtWellFormed(data) && res.Violation != nil && res.Violation.Symptom == "panic" {
			// A fault of Inverse on input that is NOT a well-formed SRT block (header does not parse, or announces more
			// symbols than there are data bytes) is outside C13 ("any block the compressor can hand it") and is recovered by
			// the decoding task (C03): recorded as an observation, not as a violation.  The model predicts these faults
			// exactly (C13_srt_inverse_faults_*), and C13_srt_total_inverse_partial proves there is no fault on well-formed input.
			res.Violation = nil
			res.Tags = append(res.Tags, "i:fault-on-malformed-input(observation)")
		}
		res.Tags = append(res.Tags, "i:"+strings.Fields(line)[0])
		if o.tailTouched {
			res.Tags = append(res.Tags, "i:wrote-past-written")
		}
		return line
	case w[0] == "r" && len(w) == 4:
		invLen, ok2 := atoi(w[2])
		if !ok2 {
			return "bad-op"
		}
		o := srtCall(srtNew().Forward, data, dstLen)
		line := trLine(res, o.trOut, fsite, "err", dstLen)
		srtForwardOracle(res, data, dstLen, o)
		res.Tags = append(res.Tags, "r:fwd-"+strings.Fields(line)[0])
		if !strings.HasPrefix(line, "ok") {
			return line
		}
		b := srtCall(srtNew().Inverse, o.out, invLen)
		line2 := trLine(res, b.trOut, isite, "err", invLen)
		res.Tags = append(res.Tags, "r:inv-"+strings.Fields(line2)[0])
		if b.tailTouched {
			res.Tags = append(res.Tags, "i:wrote-past-written")
		}
		if invLen >= len(data) && len(data) > 0 && b.panicMsg == "" {
			if b.err != nil {
				trViolate(res, isite, "roundtrip-error", b.err.Error())
			} else if !bytes.Equal(b.out, data) {
				trViolate(res, fsite, "roundtrip-mismatch", fmt.Sprintf("got %d bytes want %d", len(b.out), len(data)))
			}
		}
		return line + " " + line2
	}
	return "bad-op"
}

// srtWellFormed: the hypothesis of C13_srt_total_inverse_partial — the 256 varints (1..5 bytes each) of the header lie
// inside the input and the announced frequencies sum to at most the number of data bytes that follow.
func srtWellFormed(src []byte) bool {
	n, sum := 0, 0
	for i := 0; i < 256; i++ {
		f, shift := 0, 0
		for k := 0; ; k++ {
			if n >= len(src) {
				return false
			}
			v := int(src[n])
			n++
			if k == 4 {
				f |= (v & 0x07) << shift
				break
			}
			f |= (v & 0x7F) << shift
			shift += 7
			if v < 128 {
				break
			}
		}
		sum += f
	}
	return sum <= len(src)-n
}

// ------------------------------------------------------------------------------------------
// generators

func srtRealForward(data []byte) []byte {
	if len(data) == 0 {
		return nil
	}
	t := srtNew()
	dst := make([]byte, t.MaxEncodedLen(len(data)))
	var n uint
	var err error
	func() {
		defer func() { recover() }()
		_, n, err = t.Forward(append([]byte{}, data...), dst)
	}()
	if err != nil {
		return nil
	}
	return dst[:n]
}

// a block with exactly the given (symbol, count) pairs, in a shuffled / grouped / interleaved order
func srtFromCounts(r *rand.Rand, syms []byte, counts []int, order int) []byte {
	var b []byte
	for i, s := range syms {
		for k := 0; k < counts[i]; k++ {
			b = append(b, s)
		}
	}
	switch order {
	case 0: // grouped (runs)
	case 1:
		r.Shuffle(len(b), func(i, j int) { b[i], b[j] = b[j], b[i] })
	default: // short runs
		for k := 0; k < len(b)/3; k++ {
			i, j := r.Intn(len(b)), r.Intn(len(b))
			b[i], b[j] = b[j], b[i]
		}
	}
	return b
}

func srtPickSyms(r *rand.Rand, k int) []byte {
	p := r.Perm(256)
	s := make([]byte, k)
	for i := range s {
		s[i] = byte(p[i])
	}
	return s
}

func srtVarint(v int) []byte {
	var b []byte
	for v >= 128 {
		b = append(b, byte(0x80|(v&0x7F)))
		v >>= 7
	}
	return append(b, byte(v))
}

func srtGen(r *rand.Rand, tier string, n int, emit func(op string, tags ...string)) {
	thorough := tier == "thorough"
	scale := 1
	if thorough {
		scale = 4
	}
	if n > 0 {
		scale = 1 + n/2000
	}
	max := func(l int) int { return l + srtMaxHdr }
	rt := func(b []byte, fam string) {
		il := len(b)
		switch r.Intn(4) {
		case 0:
			il += 1 + r.Intn(40)
		case 1:
			il += 1 + len(b)/3
		}
		emit(fmt.Sprintf("r %d %d %s", max(len(b))+[]int{0, 0, 1, 7, 1000}[r.Intn(5)], il, trHex(b)), "family:"+fam)
	}
	fw := func(b []byte, dst int, fam string) { emit(fmt.Sprintf("f %d %s", dst, trHex(b)), "family:"+fam) }
	inv := func(b []byte, dst int, fam string) { emit(fmt.Sprintf("i %d %s", dst, trHex(b)), "family:"+fam) }

	// ---- 1. empty, single bytes, exhaustive short blocks
	rt(nil, "empty")
	fw(nil, 0, "empty")
	inv(nil, 0, "empty")
	inv(nil, 10, "empty")
	for _, c := range []byte{0, 1, 2, 0x7F, 0x80, 0xFE, 0xFF} {
		rt([]byte{c}, "one-byte")
	}
	var rec func(b []byte, f func([]byte), al []byte, ml int)
	rec = func(b []byte, f func([]byte), al []byte, ml int) {
		if len(b) > 0 {
			f(b)
		}
		if len(b) == ml {
			return
		}
		for _, c := range al {
			rec(append(b, c), f, al, ml)
		}
	}
	ml := 5
	if thorough {
		ml = 6
	}
	rec(nil, func(b []byte) { rt(append([]byte{}, b...), "exhaustive-short") }, []byte{0, 1, 7, 0xFF}, ml)
	rec(nil, func(b []byte) { rt(append([]byte{}, b...), "exhaustive-short3") }, []byte{5, 3, 9}, ml+2)

	// ---- 2. one distinct symbol: lengths around the varint thresholds
	lens := []int{2, 3, 100, 126, 127, 128, 129, 130, 255, 256, 257, 1000, 16382, 16383, 16384, 16385, 16386, 40000}
	if thorough {
		lens = append(lens, 1<<20, 1<<21-1, 1<<21, 1<<21+1)
	}
	for _, l := range lens {
		for _, c := range []byte{0, 0x41, 0xFF} {
			if l > 100000 && c != 0x41 {
				continue
			}
			rt(bytes.Repeat([]byte{c}, l), "one-symbol")
		}
	}
	// ---- 3. two symbols
	for k := 0; k < 60*scale; k++ {
		s := srtPickSyms(r, 2)
		a, b := 1+r.Intn(300), 1+r.Intn(300)
		if k%4 == 0 {
			b = a // tie
		}
		if k%7 == 0 {
			a = []int{127, 128, 129, 16383, 16384}[r.Intn(5)]
		}
		rt(srtFromCounts(r, s, []int{a, b}, r.Intn(3)), "two-symbols")
	}
	// ---- 4. all 256 symbols
	for k := 0; k < 12*scale; k++ {
		s := srtPickSyms(r, 256)
		c := make([]int, 256)
		for i := range c {
			switch k % 4 {
			case 0:
				c[i] = 1
			case 1:
				c[i] = 1 + r.Intn(3)
			case 2:
				c[i] = 1 + i%5
			default:
				c[i] = 1 + r.Intn(200)
			}
		}
		rt(srtFromCounts(r, s, c, r.Intn(3)), "all-256")
	}
	// ---- 5. alphabet sizes around the Shell-sort gaps, tie-heavy and distinct frequencies
	for _, k := range []int{1, 2, 3, 4, 5, 6, 12, 13, 14, 15, 39, 40, 41, 42, 120, 121, 122, 123, 200, 254, 255, 256} {
		for v := 0; v < 3*scale; v++ {
			s := srtPickSyms(r, k)
			c := make([]int, k)
			for i := range c {
				switch v % 3 {
				case 0:
					c[i] = 1 + r.Intn(4) // many ties
				case 1:
					c[i] = 1 + i // all distinct, increasing with the pick order
				default:
					c[i] = 1 + r.Intn(60)
				}
			}
			rt(srtFromCounts(r, s, c, r.Intn(3)), "alphabet-size")
		}
	}
	// ---- 6. data shapes
	sizes := []int{10, 100, 1000, 5000, 20000, 65536}
	if thorough {
		sizes = append(sizes, 200000, 1<<20)
	}
	for v := 0; v < 6*scale; v++ {
		for _, sz := range sizes {
			if sz >= 200000 && v > 0 {
				continue
			}
			l := sz/2 + r.Intn(sz/2+1)
			if sz == 1<<20 {
				l = sz
			}
			switch r.Intn(6) {
			case 0:
				rt(gen.Random(r, l), "random")
			case 1:
				rt(gen.Text(r, l), "text")
			case 2:
				rt(gen.Skewed(r, l, 1+r.Intn(40), 1+r.Intn(3)), "skewed")
			case 3:
				rt(gen.Runs(r, l), "runs")
			case 4:
				rt(gen.SmallAlpha(r, l, 2+r.Intn(14)), "small-alphabet")
			default:
				rt(gen.DNA(r, l), "dna")
			}
		}
	}
	// ---- 7. destination size variants of Forward
	for v := 0; v < 40*scale; v++ {
		l := 1 + r.Intn(2000)
		b := gen.SmallAlpha(r, l, 1+r.Intn(30))
		for _, d := range []int{0, 1, l, l + 255, l + 256, l + 1024, l + srtMaxHdr - 1, l + srtMaxHdr, l + srtMaxHdr + 1 + r.Intn(5000)} {
			fw(b, d, "forward-dst-size")
		}
	}
	// ---- 8. Inverse: valid encodings into exact / larger / smaller destinations
	for v := 0; v < 60*scale; v++ {
		l := 1 + r.Intn(3000)
		var b []byte
		if v%2 == 0 {
			b = gen.SmallAlpha(r, l, 1+r.Intn(40))
		} else {
			b = gen.Text(r, l)
		}
		enc := srtRealForward(b)
		if enc == nil {
			continue
		}
		inv(enc, l, "inverse-valid-exact")
		inv(enc, l+1+r.Intn(500), "inverse-valid-larger")
		inv(enc, r.Intn(l), "inverse-valid-smaller")
		// ---- 9. forged: truncations
		for _, cut := range []int{r.Intn(256), 255, 256, 256 + r.Intn(len(enc)-255), len(enc) - 1} {
			if cut >= 0 && cut < len(enc) {
				inv(enc[:cut], l, "forged-truncated")
			}
		}
		// mutated data byte (rank) / header byte
		m := append([]byte{}, enc...)
		hs := len(enc) - l
		m[hs+r.Intn(l)] = byte(r.Intn(256))
		inv(m, l+r.Intn(3), "forged-mutated-rank")
		m = append([]byte{}, enc...)
		m[r.Intn(hs)] = []byte{0, 1, 2, 0x7F, 0x80, 0xFF, byte(r.Intn(256))}[r.Intn(7)]
		inv(m, l+r.Intn(3), "forged-mutated-header")
		// extra / missing data bytes
		inv(append(append([]byte{}, enc...), byte(r.Intn(4))), l+8, "forged-extra-data")
	}
	// ---- 10. forged: random bytes
	for v := 0; v < 150*scale; v++ {
		l := []int{1, 2, 10, 100, 255, 256, 257, 300, 600, 1500}[r.Intn(10)]
		b := gen.Random(r, l)
		if v%3 == 0 {
			for i := range b {
				b[i] &= 0x7F // one-byte varints
			}
		}
		if v%3 == 1 {
			for i := range b {
				b[i] &= 0x03
			}
		}
		inv(b, 1+r.Intn(2*l+10), "forged-random")
	}
	// ---- 11. forged: synthetic headers
	hdr := func(freq map[int]int) []byte {
		var h []byte
		for i := 0; i < 256; i++ {
			h = append(h, srtVarint(freq[i])...)
		}
		return h
	}
	for v := 0; v < 100*scale; v++ {
		k := 1 + r.Intn(5)
		fr := map[int]int{}
		sum := 0
		for i := 0; i < k; i++ {
			f := 1 + r.Intn(6)
			if r.Intn(10) == 0 {
				f = []int{127, 128, 16384, 1 << 21, 1<<28 - 1}[r.Intn(5)]
			}
			fr[r.Intn(256)] = f
		}
		for _, f := range fr {
			sum += f
		}
		h := hdr(fr)
		dl := sum
		fam := "forged-header-sum=data"
		switch v % 4 {
		case 1:
			dl = r.Intn(min(sum, 50) + 1)
			fam = "forged-header-sum>data"
		case 2:
			dl = min(sum, 50) + 1 + r.Intn(20)
			fam = "forged-header-sum<data"
		}
		if dl > 4000 {
			dl = 1 + r.Intn(50)
			fam = "forged-header-sum>data"
		}
		d := make([]byte, dl)
		for i := range d {
			d[i] = byte(r.Intn(k + 1))
		}
		inv(append(h, d...), dl+r.Intn(4), fam)
	}
	// zero header, huge varints
	for _, dl := range []int{0, 1, 5, 40} {
		inv(append(make([]byte, 256), gen.Random(r, dl)...), dl+2, "forged-zero-header")
		h := bytes.Repeat([]byte{0xFF, 0xFF, 0xFF, 0xFF}, 256)
		inv(append(h, gen.Random(r, dl)...), dl+2, "forged-huge-varints")
		h = bytes.Repeat([]byte{0xFF, 0xFF, 0xFF, 0x7F}, 256)
		inv(append(h, gen.Random(r, dl)...), dl+2, "forged-huge-varints")
		h = bytes.Repeat([]byte{0xFF}, 600)
		inv(append(h, gen.Random(r, dl)...), dl+2, "forged-huge-varints")
		// 5-byte varints: 2^28, 2^31-1, fifth byte with continuation bit / high bits, value 0 in five bytes
		for _, v5 := range [][]byte{{0x80, 0x80, 0x80, 0x80, 0x01}, {0xFF, 0xFF, 0xFF, 0xFF, 0x07}, {0xFF, 0xFF, 0xFF, 0xFF, 0xFF},
			{0x80, 0x80, 0x80, 0x80, 0x08}, {0x80, 0x80, 0x80, 0x80, 0x80}, {0x81, 0x80, 0x80, 0x80, 0x00}} {
			pos := r.Intn(256)
			h = append(append(make([]byte, pos), v5...), make([]byte, 255-pos)...)
			inv(append(h, make([]byte, dl)...), dl+2, "forged-5-byte-varint")
			h2 := append([]byte{}, h...)
			h2[(pos+7)%len(h2)] |= 1 // a second symbol
			inv(append(h2, gen.Random(r, dl)...), dl+2, "forged-5-byte-varint")
			inv(h[:pos+4], 4, "forged-5-byte-varint") // input ends before the fifth byte
		}
		inv(append(bytes.Repeat([]byte{0x81, 0x80, 0x80, 0x80, 0x00}, 256), gen.Random(r, dl)...), dl+2, "forged-5-byte-varint")
	}
}
