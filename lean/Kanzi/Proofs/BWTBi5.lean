/-
inverseBiPSIv2, part 5: the tables when the decoding tasks start, for ARBITRARY source bytes and
`1 <= pIdx <= n`: `buckets[x<<8|y]` = one past the last row of bigram `x y` (`endK`), `data[start + j]` =
the row written for the j-th source index of that bigram, and no step of the table construction
leaves its arrays.
-/
import Kanzi.Proofs.BWTBi4

namespace Kanzi.BWT

/-! ### the transposition -/

theorem rd_swap (a : Array Nat) (i j k : Nat) (hi : i < a.size) (hj : j < a.size) :
    rd (a.swapIfInBounds i j) k = if k = i then rd a j else if k = j then rd a i else rd a k := by
  rw [Array.swapIfInBounds_def, dif_pos hi, dif_pos hj]
  simp only [rd, Array.getD_eq_getD_getElem?, Array.getElem?_swap]
  by_cases h1 : k = i
  · subst h1
    by_cases h2 : j = k
    · subst h2; simp [hi]
    · simp [h2, hj]
  · by_cases h2 : k = j
    · subst h2; simp [hi, h1]
    · have h1' : ¬ i = k := fun e => h1 e.symm
      have h2' : ¬ j = k := fun e => h2 e.symm
      simp [h1, h2, h1', h2']

/-- swaps of row `c`: `d` runs over the first `m` columns (`m <= c`) -/
def swapRow (bk : Array Nat) (c m : Nat) : Array Nat :=
  (List.range m).foldl (fun bk d => bk.swapIfInBounds ((d <<< 8) ||| c) ((c <<< 8) ||| d)) bk

theorem swapRow_spec (bk : Array Nat) (hs : bk.size = 65536) (c : Nat) (hc : c < 256) (m : Nat) (hm : m ≤ c) :
    (swapRow bk c m).size = 65536 ∧
    ∀ x y, x < 256 → y < 256 →
      rd (swapRow bk c m) (x * 256 + y)
        = if (x = c ∧ y < m) ∨ (y = c ∧ x < m) then rd bk (y * 256 + x) else rd bk (x * 256 + y) := by
  induction m with
  | zero =>
    refine ⟨hs, ?_⟩
    intro x y _ _
    have : ¬ ((x = c ∧ y < 0) ∨ (y = c ∧ x < 0)) := by omega
    simp only [swapRow, List.range_zero, List.foldl_nil, this, ite_false]
  | succ m ih =>
    obtain ⟨h1, h2⟩ := ih (by omega)
    have hstep : swapRow bk c (m + 1)
        = (swapRow bk c m).swapIfInBounds ((m <<< 8) ||| c) ((c <<< 8) ||| m) := by
      simp only [swapRow, List.range_succ, List.foldl_append, List.foldl_cons, List.foldl_nil]
    have e1 : (m <<< 8) ||| c = m * 256 + c := shl8_or m c hc
    have e2 : (c <<< 8) ||| m = c * 256 + m := shl8_or c m (by omega)
    rw [hstep, e1, e2]
    refine ⟨by rw [Array.size_swapIfInBounds]; exact h1, ?_⟩
    intro x y hx hy
    rw [rd_swap _ _ _ _ (by rw [h1]; omega) (by rw [h1]; omega)]
    by_cases ha : x * 256 + y = m * 256 + c
    · have hxm : x = m := by omega
      have hyc : y = c := by omega
      subst hxm; subst hyc
      rw [if_pos rfl, h2 y x hy hx]
      have n1 : ¬ ((y = y ∧ x < x) ∨ (x = y ∧ y < x)) := by omega
      have p1 : (x = y ∧ y < x + 1) ∨ (y = y ∧ x < x + 1) := by omega
      rw [if_neg n1, if_pos p1]
    · rw [if_neg ha]
      by_cases hb' : x * 256 + y = c * 256 + m
      · have hxc : x = c := by omega
        have hym : y = m := by omega
        subst hxc; subst hym
        rw [if_pos rfl, h2 y x hy hx]
        have n1 : ¬ ((y = x ∧ x < y) ∨ (x = x ∧ y < y)) := by omega
        have p1 : (x = x ∧ y < y + 1) ∨ (y = x ∧ x < y + 1) := by omega
        rw [if_neg n1, if_pos p1]
      · rw [if_neg hb', h2 x y hx hy]
        by_cases h3 : (x = c ∧ y < m) ∨ (y = c ∧ x < m)
        · have : (x = c ∧ y < m + 1) ∨ (y = c ∧ x < m + 1) := by omega
          rw [if_pos h3, if_pos this]
        · have : ¬ ((x = c ∧ y < m + 1) ∨ (y = c ∧ x < m + 1)) := by omega
          rw [if_neg h3, if_neg this]

/-- the first `m` rows of the transposition done -/
def transposeUpTo (bk : Array Nat) (m : Nat) : Array Nat :=
  (List.range m).foldl (fun bk c => swapRow bk c c) bk

theorem transposeUpTo_spec (bk : Array Nat) (hs : bk.size = 65536) (m : Nat) (hm : m ≤ 256) :
    (transposeUpTo bk m).size = 65536 ∧
    ∀ x y, x < 256 → y < 256 →
      rd (transposeUpTo bk m) (x * 256 + y)
        = if x < m ∧ y < m then rd bk (y * 256 + x) else rd bk (x * 256 + y) := by
  induction m with
  | zero =>
    refine ⟨hs, ?_⟩
    intro x y _ _
    have : ¬ (x < 0 ∧ y < 0) := by omega
    simp only [transposeUpTo, List.range_zero, List.foldl_nil, this, ite_false]
  | succ m ih =>
    obtain ⟨h1, h2⟩ := ih (by omega)
    have hstep : transposeUpTo bk (m + 1) = swapRow (transposeUpTo bk m) m m := by
      simp only [transposeUpTo, List.range_succ, List.foldl_append, List.foldl_cons, List.foldl_nil]
    obtain ⟨h3, h4⟩ := swapRow_spec (transposeUpTo bk m) h1 m (by omega) m (Nat.le_refl _)
    rw [hstep]
    refine ⟨h3, ?_⟩
    intro x y hx hy
    rw [h4 x y hx hy]
    by_cases h5 : (x = m ∧ y < m) ∨ (y = m ∧ x < m)
    · rw [if_pos h5, h2 y x hy hx]
      have n1 : ¬ (y < m ∧ x < m) := by omega
      have p1 : x < m + 1 ∧ y < m + 1 := by omega
      rw [if_neg n1, if_pos p1]
    · rw [if_neg h5, h2 x y hx hy]
      by_cases h6 : x < m ∧ y < m
      · have : x < m + 1 ∧ y < m + 1 := by omega
        rw [if_pos h6, if_pos this]
      · rw [if_neg h6]
        by_cases h7 : x < m + 1 ∧ y < m + 1
        · -- then x = y = m
          have : x = m ∧ y = m := by omega
          rw [if_pos h7, this.1, this.2]
        · rw [if_neg h7]

theorem transpose_eq (bk : Array Nat) : transpose bk = transposeUpTo bk 256 := rfl

/-- `buckets[kk]` after the swap loop is `buckets[Tix kk]` before -/
theorem transpose_spec (bk : Array Nat) (hs : bk.size = 65536) :
    (transpose bk).size = 65536 ∧ ∀ kk, kk < 65536 → rd (transpose bk) kk = rd bk (Tix kk) := by
  obtain ⟨h1, h2⟩ := transposeUpTo_spec bk hs 256 (Nat.le_refl _)
  rw [transpose_eq]
  refine ⟨h1, ?_⟩
  intro kk hk
  have hx : kk / 256 < 256 := Nat.div_lt_of_lt_mul (by omega)
  have := h2 (kk / 256) (kk % 256) hx (Nat.mod_lt _ (by decide))
  have e : kk / 256 * 256 + kk % 256 = kk := Nat.div_add_mod' kk 256
  rw [e] at this
  rw [this, if_pos ⟨hx, Nat.mod_lt _ (by decide)⟩]
  unfold Tix
  rw [Nat.add_comm]

/-! ### the scattered entries -/

theorem filterMap_entOf (src : Array Nat) (p0 off : Nat) (l : List Nat) :
    l.filterMap (entOf src p0 off)
      = (l.filter (fun j => posOf src j ≠ p0)).map (fun j => (Tix (keyOf src p0 j), j + off)) := by
  induction l with
  | nil => rfl
  | cons j l ih =>
    rw [List.filterMap_cons, List.filter_cons]
    by_cases h : posOf src j = p0
    · simp [entOf, h, ih]
    · simp [entOf, h, ih]

/-- all entries, in the order the two loops scatter them -/
def entries2 (src : Array Nat) (p0 : Nat) : List (Nat × Nat) :=
  (liveIdx src p0).map (fun j => (Tix (keyOf src p0 j), rowOfIdx p0 j))

theorem entries2_eq (src : Array Nat) (p0 : Nat) (hp0 : p0 ≤ src.size) :
    (List.range' 0 p0).filterMap (entOf src p0 0) ++ (List.range' p0 (src.size - p0)).filterMap (entOf src p0 1)
      = entries2 src p0 := by
  rw [filterMap_entOf, filterMap_entOf, entries2, liveIdx]
  have hsplit : List.range src.size = List.range' 0 p0 ++ List.range' p0 (src.size - p0) := by
    rw [List.range_eq_range']
    have : src.size = p0 + (src.size - p0) := by omega
    conv => lhs; rw [this]
    rw [← List.range'_append_1]; simp
  rw [hsplit, List.filter_append, List.map_append]
  congr 1
  · apply List.map_congr_left
    intro j hj
    have := (List.mem_filter.1 hj).1
    rw [List.mem_range'_1] at this
    have h2 : j < p0 := by omega
    simp [rowOfIdx, h2]
  · apply List.map_congr_left
    intro j hj
    have := (List.mem_filter.1 hj).1
    rw [List.mem_range'_1] at this
    have : ¬ j < p0 := by omega
    simp [rowOfIdx, this]

theorem ebucket_entries2 (src : Array Nat) (hb : ∀ b ∈ src.toList, b < 256) (p0 t : Nat) (ht : t < 65536) :
    (ebucket (entries2 src p0) t).length = cntK src p0 (Tix t) := by
  rw [cntK_eq src hb p0 (Tix t) (Tix_lt t ht)]
  simp only [ebucket, bucket, entries2, List.filter_map, List.length_map]
  congr 1
  apply List.filter_congr
  intro j _
  simp only [Function.comp]
  have hk := keyOf_lt src hb p0 j
  by_cases h : keyOf src p0 j = Tix t
  · have hA : Tix (keyOf src p0 j) = t := by rw [h, Tix_Tix t ht]
    simp [h, Tix_Tix t ht]
  · have : ¬ Tix (keyOf src p0 j) = t := by
      intro e
      apply h
      rw [← e, Tix_Tix _ hk]
    simp [h, this]

/-- the state of `buckets`, `data` when the tasks start -/
structure Tables (src : Array Nat) (p0 : Nat) (data0 bk data : Array Nat) : Prop where
  bksize : bk.size = 65536
  dsize : data.size = data0.size
  ends : ∀ kk, kk < 65536 → rd bk kk = endK src p0 kk
  rows : ∀ kk, kk < 65536 → ∀ j, j < cntK src p0 kk →
    rd data (startK src p0 kk + j)
      = ((ebucket (entries2 src p0) (Tix kk)).getD j (0, 0)).2
  rest : ∀ r, (∀ kk, kk < 65536 → ¬ (startK src p0 kk ≤ r ∧ r < endK src p0 kk)) → rd data r = rd data0 r

/-- THE TABLES for arbitrary bytes and `1 <= pIdx <= n`: the three construction loops and the
transposition run without leaving their arrays and produce `Tables`. -/
theorem tables_spec (src : Array Nat) (hb : ∀ b ∈ src.toList, b < 256) (p0 : Nat) (hp : 1 ≤ p0 ∧ p0 ≤ src.size)
    (hn : src.size < 2 ^ 64) (data0 : Array Nat) (hd : src.size + 1 ≤ data0.size) :
    ∃ fr bk1 bk2 fbs v fr3 bk3 d3 fr4 bk4 d4,
      biHist src (histogram src) p0 256 0 1 (Array.emptyWithCapacity 256) (Array.replicate 65536 0) = some (fr, bk1) ∧
      biStarts (rd src 0) (shiftOf src.size) 256 0 0 1 bk1 (Array.replicate (MASK_FASTBITS + 1) 0) = some (bk2, fbs) ∧
      biFill src p0 0 p0 0 fr bk2 data0 = some (fr3, bk3, d3) ∧
      biFill src p0 1 (src.size - p0) p0 fr3 bk3 d3 = some (fr4, bk4, d4) ∧
      StInv src p0 (shiftOf src.size) 65536 v bk2 fbs ∧
      Tables src p0 data0 (transpose bk4) d4 := by
  obtain ⟨fr, bk1, r1, hinv1⟩ := biHist_run src hb p0 hp.2
  have hshift := shiftOf_spec src.size hn
  -- the invariant of the second loop holds initially
  have hst0 : StInv src p0 (shiftOf src.size) (0 * 256) 0 bk1 (Array.replicate (MASK_FASTBITS + 1) 0) := by
    refine ⟨hinv1.bksize, by simp [MASK_FASTBITS, NB_FASTBITS], ?_, ?_, ?_, ?_, ?_⟩
    · intro t ht; omega
    · intro t _ ht
      have := hinv1.done (t % 256) (t / 256) (Nat.mod_lt _ (by decide)) (by omega)
      unfold Tix cntK
      rw [← this]; congr 1; omega
    · intro t ht; omega
    · intro u; rw [rd_replicate]; split <;> decide
    · intro u hu; omega
  obtain ⟨v, bk2, fbs, r2, hst⟩ := biStarts_spec src hb p0 hp (shiftOf src.size) hshift 256 0 0 rfl bk1 _ hst0
  have hsum0 : 1 + (if rd src 0 < 0 then 1 else 0) + psum (cntK src p0) (0 * 256) = 1 := by
    simp [psum]
  rw [hsum0] at r2
  -- level 2 scatter
  have hC : ∀ c, c < bk2.size → rd bk2 c = startK src p0 (Tix c) := by
    intro c hc
    rw [hst.bksize] at hc
    have := hst.done (Tix c) (Tix_lt c hc)
    rwa [Tix_Tix c hc] at this
  obtain ⟨bk4, d4, hrun, hdsz, hbsz, hB, hD, hU⟩ := putListG_spec (entries2 src p0)
    (fun c => startK src p0 (Tix c)) bk2 data0
    (by
      intro e he
      obtain ⟨j, _, rfl⟩ := List.mem_map.1 he
      rw [hst.bksize]
      exact Tix_lt _ (keyOf_lt src hb p0 j))
    hC
    (by
      intro c c2 hc hc2 hne
      rw [hst.bksize] at hc hc2
      rw [ebucket_entries2 src hb p0 c hc, ebucket_entries2 src hb p0 c2 hc2]
      have hne' : Tix c ≠ Tix c2 := fun e => hne (Tix_inj c c2 hc hc2 e)
      rcases Nat.lt_or_gt_of_ne hne' with h | h
      · exact Or.inl (endK_le_startK src p0 h)
      · exact Or.inr (endK_le_startK src p0 h))
    (by
      intro c hc
      rw [hst.bksize] at hc
      rw [ebucket_entries2 src hb p0 c hc]
      have := endK_le src hb p0 hp (Tix c) (Tix_lt c hc)
      unfold endK at this
      omega)
  rw [← entries2_eq src p0 hp.2] at hrun
  obtain ⟨m, hm1, hm2⟩ := putList_append_some hrun
  have hfr0 : FrAt src fr 0 := by
    refine ⟨hinv1.frsize, ?_⟩
    intro c hc
    rw [hinv1.fr c hc]
    simp [seen]
  obtain ⟨fr3, hfr3, f1⟩ := biFill_eq src hb p0 0 hp.2 p0 0 (by omega) fr bk2 data0 hfr0 m hm1
  rw [Nat.zero_add] at hfr3
  obtain ⟨fr4, _, f2⟩ := biFill_eq src hb p0 1 hp.2 (src.size - p0) p0 (by omega) fr3 m.1 m.2 hfr3 (bk4, d4) hm2
  refine ⟨fr, bk1, bk2, fbs, v, fr3, m.1, m.2, fr4, bk4, d4, r1, r2, f1, f2, hst, ?_⟩
  rw [hst.bksize] at hbsz hB hD hU
  obtain ⟨t1, t2⟩ := transpose_spec bk4 hbsz
  refine ⟨t1, hdsz, ?_, ?_, ?_⟩
  · intro kk hk
    rw [t2 kk hk, hB (Tix kk) (Tix_lt kk hk), ebucket_entries2 src hb p0 _ (Tix_lt kk hk), Tix_Tix kk hk]
    rfl
  · intro kk hk j hj
    have := hD (Tix kk) (Tix_lt kk hk) j (by rw [ebucket_entries2 src hb p0 _ (Tix_lt kk hk), Tix_Tix kk hk]; exact hj)
    simp only [Tix_Tix kk hk] at this
    exact this
  · intro r hr
    apply hU
    intro c hc ⟨h1, h2⟩
    rw [ebucket_entries2 src hb p0 c hc] at h2
    exact hr (Tix c) (Tix_lt c hc) ⟨h1, h2⟩

end Kanzi.BWT
