package main

// Stream `golden` (C10, format stability) and sub-command `goldengen`.
//
//  (i)  differential against the vendored pinned snapshot ref/kanzi-go-v2 (module kanziref/v2,
//       commit 76efab5, never edited): a reference-encoded stream must decode with the CURRENT
//       Reader to exactly the bytes the reference decoder returns (only configurations for which
//       the reference itself round-trips are used: the snapshot has the known defects).
//       current-encoder -> reference-decoder is run too but only logged (tag forward:*).
//  (ii) golden corpus verif/golden (generated ONCE by `kv goldengen` with the reference encoder):
//       every archived stream is decoded by the current Reader and the SHA-256 compared.
//
// op lines:
//   ref tf=<chain> en=<entropy> bs=<n> ck=<0|32|64> hl=<0|1> fs=<0|1> shape=<name> size=<n> ds=<seed>
//   gold <id>
//   goldindex

import (
	"bytes"
	"crypto/sha256"
	"encoding/hex"
	"encoding/json"
	"flag"
	"fmt"
	"io"
	"math/rand"
	"os"
	"path/filepath"
	"sort"
	"strconv"
	"strings"
	"sync"
	"time"

	kio "github.com/flanglet/kanzi-go/v2/io"
	rio "kanziref/v2/io"
	"kverif/internal/gen"
)

var g5Transforms = []string{"NONE", "TEXT", "BWT", "BWTS", "ROLZ", "ROLZX", "LZ", "LZX", "LZP", "UTF", "MM", "SRT", "RANK", "MTFT", "ZRLT", "RLT", "EXE", "PACK", "DNA"}
var g5Entropies = []string{"NONE", "HUFFMAN", "ANS0", "ANS1", "RANGE", "FPAQ", "CM", "TPAQ", "TPAQX"}

// the CLI level table (app/BlockCompressor.go getTransformAndCodec), identical in the snapshot
var g5Levels = [][2]string{
	{"NONE", "NONE"}, {"LZX", "NONE"}, {"DNA+LZ", "HUFFMAN"}, {"TEXT+UTF+PACK+MM+LZX", "HUFFMAN"},
	{"TEXT+UTF+EXE+PACK+MM+ROLZ", "NONE"}, {"TEXT+UTF+BWT+RANK+ZRLT", "ANS0"}, {"TEXT+UTF+BWT+SRT+ZRLT", "FPAQ"},
	{"LZP+TEXT+UTF+BWT+LZP", "CM"}, {"EXE+RLT+TEXT+UTF+DNA", "TPAQ"}, {"EXE+RLT+TEXT+UTF+DNA", "TPAQX"},
}

type g5Cfg struct {
	Tf    string `json:"transform"`
	En    string `json:"entropy"`
	Bs    uint   `json:"blockSize"`
	Ck    uint   `json:"checksum"`
	Hl    bool   `json:"headerless"`
	Fs    bool   `json:"sizeHint"`
	Shape string `json:"shape"`
	Size  int    `json:"size"`
	DS    int64  `json:"dataSeed"`
}

func b01(b bool) string {
	if b {
		return "1"
	}
	return "0"
}

func (c g5Cfg) op() string {
	return fmt.Sprintf("ref tf=%s en=%s bs=%d ck=%d hl=%s fs=%s shape=%s size=%d ds=%d", c.Tf, c.En, c.Bs, c.Ck, b01(c.Hl), b01(c.Fs), c.Shape, c.Size, c.DS)
}

func g5ParseKV(ws []string) map[string]string {
	m := map[string]string{}
	for _, w := range ws {
		if i := strings.IndexByte(w, '='); i > 0 {
			m[w[:i]] = w[i+1:]
		}
	}
	return m
}

func g5ParseCfg(ws []string) (c g5Cfg, ok bool) {
	m := g5ParseKV(ws)
	u := func(k string) uint64 { v, err := strconv.ParseUint(m[k], 10, 63); ok = ok && err == nil; return v }
	ok = true
	c.Tf, c.En, c.Shape = m["tf"], m["en"], m["shape"]
	c.Bs, c.Ck, c.Size, c.DS = uint(u("bs")), uint(u("ck")), int(u("size")), int64(u("ds"))
	c.Hl, c.Fs = m["hl"] == "1", m["fs"] == "1"
	return c, ok && c.Tf != "" && c.En != "" && c.Shape != ""
}

// g5Data is a pure function of (shape, size, seed).
func g5Data(shape string, size int, seed int64) []byte {
	r := rand.New(rand.NewSource(seed))
	if size == 0 {
		return []byte{}
	}
	if shape == "mixed" {
		var b []byte
		for len(b) < size {
			s := gen.Shapes[r.Intn(len(gen.Shapes))]
			n := 1 + r.Intn(size/3+1)
			b = append(b, s.F(r, n)...)
		}
		return b[:size]
	}
	if s := gen.ShapeByName(shape); s != nil {
		b := s.F(r, size)
		if len(b) > size { // UTF8 generator may overshoot by a partial rune
			b = b[:size]
		}
		return b
	}
	return gen.Random(r, size)
}

type g5Sink struct{ bytes.Buffer }

func (*g5Sink) Close() error { return nil }

// one library (current or reference) behind the same closures
type g5Lib struct {
	name      string
	newWriter func(w io.WriteCloser, c g5Cfg, jobs uint, hint int64) (io.WriteCloser, error)
	newReader func(r io.ReadCloser, c g5Cfg, jobs uint, orig int64) (io.ReadCloser, error)
}

var g5Cur = g5Lib{"current",
	func(w io.WriteCloser, c g5Cfg, jobs uint, hint int64) (io.WriteCloser, error) {
		x, err := kio.NewWriter(w, c.Tf, c.En, c.Bs, jobs, c.Ck, hint, c.Hl)
		if err != nil {
			return nil, err
		}
		return x, nil
	},
	func(r io.ReadCloser, c g5Cfg, jobs uint, orig int64) (io.ReadCloser, error) {
		if c.Hl {
			x, err := kio.NewHeaderlessReader(r, jobs, c.Tf, c.En, c.Bs, c.Ck, orig, 6)
			if err != nil {
				return nil, err
			}
			return x, nil
		}
		x, err := kio.NewReader(r, jobs)
		if err != nil {
			return nil, err
		}
		return x, nil
	}}

var g5Ref = g5Lib{"reference",
	func(w io.WriteCloser, c g5Cfg, jobs uint, hint int64) (io.WriteCloser, error) {
		x, err := rio.NewWriter(w, c.Tf, c.En, c.Bs, jobs, c.Ck, hint, c.Hl)
		if err != nil {
			return nil, err
		}
		return x, nil
	},
	func(r io.ReadCloser, c g5Cfg, jobs uint, orig int64) (io.ReadCloser, error) {
		if c.Hl {
			x, err := rio.NewHeaderlessReader(r, jobs, c.Tf, c.En, c.Bs, c.Ck, orig, 6)
			if err != nil {
				return nil, err
			}
			return x, nil
		}
		x, err := rio.NewReader(r, jobs)
		if err != nil {
			return nil, err
		}
		return x, nil
	}}

func g5ErrClass(err error) string {
	if e, ok := err.(interface{ ErrorCode() int }); ok {
		return "err:" + strconv.Itoa(e.ErrorCode())
	}
	return "err:other"
}

func (l g5Lib) encode(data []byte, c g5Cfg, jobs uint) (out []byte, cls string) {
	defer func() {
		if r := recover(); r != nil {
			out, cls = nil, "panic"
		}
	}()
	hint := int64(0)
	if c.Fs {
		hint = int64(len(data))
	}
	sink := &g5Sink{}
	w, err := l.newWriter(sink, c, jobs, hint)
	if err != nil {
		return nil, "new-" + g5ErrClass(err)
	}
	// two writes of uneven size (the second possibly empty) so that the writer's buffering is exercised
	cut := len(data) / 3
	if _, err := w.Write(data[:cut]); err != nil {
		w.Close()
		return nil, "write-" + g5ErrClass(err)
	}
	if _, err := w.Write(data[cut:]); err != nil {
		w.Close()
		return nil, "write-" + g5ErrClass(err)
	}
	if err := w.Close(); err != nil {
		return nil, "close-" + g5ErrClass(err)
	}
	return sink.Bytes(), ""
}

func (l g5Lib) decode(stream []byte, c g5Cfg, jobs uint, orig int64) (out []byte, cls string) {
	defer func() {
		if r := recover(); r != nil {
			cls = "panic"
		}
	}()
	r, err := l.newReader(io.NopCloser(bytes.NewReader(stream)), c, jobs, orig)
	if err != nil {
		return nil, "new-" + g5ErrClass(err)
	}
	defer r.Close()
	buf := make([]byte, 1<<16)
	for {
		n, err := r.Read(buf)
		out = append(out, buf[:n]...)
		if err == io.EOF {
			return out, ""
		}
		if err != nil {
			return out, "read-" + g5ErrClass(err)
		}
		if n == 0 {
			return out, "read-zero-progress"
		}
	}
}

func g5Sha(b []byte) string { h := sha256.Sum256(b); return hex.EncodeToString(h[:]) }

// with a watchdog: a decoder that does not return within the limit counts as a hang
func g5Watch(limit time.Duration, f func()) bool {
	done := make(chan struct{})
	go func() { defer close(done); f() }()
	select {
	case <-done:
		return true
	case <-time.After(limit):
		return false
	}
}

func g5HeavyEntropy(en string) bool { return en == "TPAQ" || en == "TPAQX" }

// TPAQ/TPAQX allocate >= 100 MB per instance: at most four scenarios with them at a time
var g5HeavySem = make(chan struct{}, 4)

func g5ExecRef(ws []string, res *Result) string {
	c, ok := g5ParseCfg(ws)
	if !ok {
		return "bad-op"
	}
	if g5HeavyEntropy(c.En) {
		g5HeavySem <- struct{}{}
		defer func() { <-g5HeavySem }()
	}
	data := g5Data(c.Shape, c.Size, c.DS)
	res.Tags = append(res.Tags, "entropy:"+c.En, "ck:"+strconv.Itoa(int(c.Ck)), "headerless:"+b01(c.Hl))
	orig := int64(0)
	if c.Fs {
		orig = int64(len(data))
	}
	limit := 120*time.Second + time.Duration(len(data)/1000)*time.Second
	var line string
	finished := g5Watch(limit, func() {
		stream, cls := g5Ref.encode(data, c, 1)
		if cls != "" {
			res.Tags = append(res.Tags, "ref:encoder-fails")
			line = "ref=enc-" + cls
			return
		}
		refOut, cls := g5Ref.decode(stream, c, 1, orig)
		if cls != "" {
			res.Tags = append(res.Tags, "ref:decoder-fails")
			line = "ref=dec-" + cls
			return
		}
		if !bytes.Equal(refOut, data) {
			res.Tags = append(res.Tags, "ref:no-roundtrip")
			line = "ref=no-roundtrip"
			return
		}
		res.Tags = append(res.Tags, "ref:roundtrips")
		res.Nontrivial = true
		nblk := (len(data) + int(c.Bs) - 1) / int(c.Bs)
		if nblk > 1 {
			res.Tags = append(res.Tags, "multi-block")
		}
		line = fmt.Sprintf("ref=ok n=%d sha=%s", len(refOut), g5Sha(refOut)[:16])
		for _, j := range []uint{1, 4} {
			if j > 1 && nblk < 2 {
				line += " cur4=skip"
				continue
			}
			curOut, cls := g5Cur.decode(stream, c, j, orig)
			tok := "same"
			if cls != "" || !bytes.Equal(curOut, refOut) {
				tok = "DIFF"
				if cls != "" {
					tok = "DIFF:" + cls
				}
				if res.Violation == nil {
					first := 0
					for first < len(curOut) && first < len(refOut) && curOut[first] == refOut[first] {
						first++
					}
					res.Violation = &Violation{Kind: "input", Site: "format", Symptom: "reference-stream-decodes-differently",
						What: fmt.Sprintf("stream encoded by the pinned reference (%d bytes) decodes with the reference to %d bytes (sha %s) but with the current Reader (jobs %d) to %d bytes, status %q, first difference at %d",
							len(stream), len(refOut), g5Sha(refOut)[:16], j, len(curOut), cls, first)}
				}
			}
			line += fmt.Sprintf(" cur%d=%s", j, tok)
		}
		// forward direction: logged only
		fstream, cls := g5Cur.encode(data, c, 1)
		fwd := "ok"
		if cls != "" {
			fwd = "cur-enc-" + cls
		} else {
			fout, cls := g5Ref.decode(fstream, c, 1, orig)
			if cls != "" {
				fwd = "ref-dec-" + cls
			} else if !bytes.Equal(fout, data) {
				fwd = "differs"
			} else if bytes.Equal(fstream, stream) {
				res.Tags = append(res.Tags, "forward:bit-identical")
			}
		}
		if fwd == "ok" {
			res.Tags = append(res.Tags, "forward:ok")
		} else {
			res.Tags = append(res.Tags, "forward:FAIL")
		}
		line += " fwd=" + fwd
	})
	if !finished {
		res.Abort = true
		res.Violation = &Violation{Kind: "input", Site: "format", Symptom: "hang", What: fmt.Sprintf("scenario did not finish within %v", limit)}
		return "hang"
	}
	res.Sample = map[string]any{"cfg": c, "result": line}
	return line
}

// ---------------------------------------------------------------------------------------------
// golden corpus

type g5GoldEntry struct {
	ID     string `json:"id"`
	File   string `json:"file"`
	Sha256 string `json:"sha256"`
	g5Cfg
}

type g5GoldIndex struct {
	Generator string        `json:"generator"`
	Entries   []g5GoldEntry `json:"entries"`
}

func g5GoldenDir() string {
	if d := os.Getenv("VERIF_GOLDEN"); d != "" {
		return d
	}
	if d := os.Getenv("VERIF_DIR"); d != "" {
		return filepath.Join(d, "golden")
	}
	if exe, err := os.Executable(); err == nil {
		return filepath.Join(filepath.Dir(filepath.Dir(exe)), "golden")
	}
	return "golden"
}

var g5GoldOnce sync.Once
var g5Gold *g5GoldIndex
var g5GoldErr error

func g5LoadGolden() (*g5GoldIndex, error) {
	g5GoldOnce.Do(func() {
		b, err := os.ReadFile(filepath.Join(g5GoldenDir(), "index.json"))
		if err != nil {
			g5GoldErr = err
			return
		}
		var ix g5GoldIndex
		if err := json.Unmarshal(b, &ix); err != nil {
			g5GoldErr = err
			return
		}
		g5Gold = &ix
	})
	return g5Gold, g5GoldErr
}

func g5ExecGold(ws []string, res *Result) string {
	ix, err := g5LoadGolden()
	if err != nil {
		return "index-missing"
	}
	if len(ws) < 2 {
		return "bad-op"
	}
	var e *g5GoldEntry
	for i := range ix.Entries {
		if ix.Entries[i].ID == ws[1] {
			e = &ix.Entries[i]
		}
	}
	if e == nil {
		return "unknown-id"
	}
	if g5HeavyEntropy(e.En) {
		g5HeavySem <- struct{}{}
		defer func() { <-g5HeavySem }()
	}
	stream, err := os.ReadFile(filepath.Join(g5GoldenDir(), e.File))
	if err != nil {
		res.Violation = &Violation{Kind: "input", Site: "harness", Symptom: "golden-corpus-missing", What: err.Error()}
		return "file-missing"
	}
	res.Nontrivial = true
	res.Tags = append(res.Tags, "golden-entropy:"+e.En)
	orig := int64(0)
	if e.Fs {
		orig = int64(e.Size)
	}
	line := "gold"
	finished := g5Watch(300*time.Second, func() {
		nblk := (e.Size + int(e.Bs) - 1) / int(e.Bs)
		for _, j := range []uint{1, 3} {
			if j > 1 && nblk < 2 {
				continue
			}
			out, cls := g5Cur.decode(stream, e.g5Cfg, j, orig)
			if cls == "" && g5Sha(out) == e.Sha256 {
				line += fmt.Sprintf(" j%d=ok", j)
				continue
			}
			line += fmt.Sprintf(" j%d=MISMATCH", j)
			if res.Violation == nil {
				res.Violation = &Violation{Kind: "input", Site: "format", Symptom: "golden-mismatch",
					What: fmt.Sprintf("golden stream %s (%s&%s bs=%d ck=%d headerless=%v, original %d bytes sha256 %s) decodes with the current Reader (jobs %d) to %d bytes sha256 %s, status %q",
						e.File, e.Tf, e.En, e.Bs, e.Ck, e.Hl, e.Size, e.Sha256, j, len(out), g5Sha(out), cls),
					Scenario: map[string]any{"stream": "golden", "op": strings.Join(ws, " "), "entry": e}}
			}
		}
	})
	if !finished {
		res.Abort = true
		res.Violation = &Violation{Kind: "input", Site: "format", Symptom: "hang", What: "golden stream " + e.File + " did not decode within 300 s"}
		return "hang"
	}
	return line
}

func g5FriendlyShape(tf string) string {
	switch tf {
	case "TEXT":
		return "text"
	case "UTF":
		return "utf8-50"
	case "DNA":
		return "dna"
	case "EXE":
		return "exe-mz"
	case "MM":
		return "wave"
	case "PACK":
		return "alpha4"
	case "RLT", "ZRLT":
		return "runs"
	case "NONE", "SRT", "RANK", "MTFT":
		return "skew-100-2"
	}
	return "mixed"
}

// the fixed families shared by the stream generator (fresh seeds) and goldengen (seed 1)
func g5Directed(r *rand.Rand, emit func(c g5Cfg, fam string)) {
	cks := []uint{0, 32, 64}
	k := 0
	for _, tf := range g5Transforms {
		for _, en := range g5Entropies {
			emit(g5Cfg{Tf: tf, En: en, Bs: 4096, Ck: cks[k%3], Hl: k%4 == 3, Fs: k%2 == 0, Shape: g5FriendlyShape(tf),
				Size: 3000 + r.Intn(3000), DS: r.Int63n(1 << 40)}, "pairs")
			k++
		}
	}
	for lvl, te := range g5Levels {
		for _, ck := range cks {
			for _, hl := range []bool{false, true} {
				emit(g5Cfg{Tf: te[0], En: te[1], Bs: 8192, Ck: ck, Hl: hl, Fs: (lvl+int(ck))%2 == 0, Shape: "mixed",
					Size: 12000 + r.Intn(8000), DS: r.Int63n(1 << 40)}, "levels")
			}
		}
	}
}

// blocks whose size sits exactly on an internal threshold of the codec (constants re-read from /repo): a symmetric
// change of such a threshold in encoder and decoder alters the format only for these sizes
func g5Thresholds(r *rand.Rand, limit int, emit func(c g5Cfg, fam string)) {
	k := 0
	for _, tf := range g5Transforms {
		if tf == "NONE" {
			continue
		}
		for _, size := range thresholdSizes(tf, limit) {
			bs := uint((max(size, 1024) + 15) &^ 15)
			emit(g5Cfg{Tf: tf, En: "NONE", Bs: bs, Ck: []uint{0, 32, 64}[k%3], Hl: false, Fs: k%2 == 0, Shape: g5FriendlyShape(tf),
				Size: size, DS: r.Int63n(1 << 40)}, "thresholds")
			k++
		}
	}
	for _, en := range g5Entropies {
		if en == "NONE" {
			continue
		}
		lim := limit
		if g5HeavyEntropy(en) {
			lim = min(limit, 70000)
		}
		for _, size := range thresholdSizes(en, lim) {
			bs := uint((max(size, 1024) + 15) &^ 15)
			emit(g5Cfg{Tf: "NONE", En: en, Bs: bs, Ck: []uint{0, 32, 64}[k%3], Hl: false, Fs: k%2 == 0, Shape: "text",
				Size: size, DS: r.Int63n(1 << 40)}, "thresholds")
			k++
		}
	}
}

// text in which every punctuation character touches words, through TEXT alone and through the level chains that
// contain TEXT: a symmetric change of the word-delimiter classification alters the dynamic dictionary
func g5TextPunct(r *rand.Rand, emit func(c g5Cfg, fam string)) {
	k := 0
	for _, tf := range []string{"TEXT", "TEXT+UTF+PACK+MM+LZX", "TEXT+UTF+BWT+RANK+ZRLT", "LZP+TEXT+UTF+BWT+LZP", "EXE+RLT+TEXT+UTF+DNA"} {
		for _, en := range []string{"NONE", "HUFFMAN", "ANS0", "FPAQ"} {
			for _, size := range []int{3000, 20000, 70000} {
				emit(g5Cfg{Tf: tf, En: en, Bs: 65536, Ck: []uint{0, 32, 64}[k%3], Hl: false, Fs: k%2 == 0, Shape: "textpunct",
					Size: size, DS: r.Int63n(1 << 40)}, "text-punct")
				k++
			}
		}
	}
}

var g5EdgeSizes = []int{0, 1, 2, 15, 16, 17, 100, 1023, 1024, 1025, 4095, 4096, 4097, 8192}

func g5Shapes(r *rand.Rand, emit func(c g5Cfg, fam string)) {
	// every data shape through levels 0..7 with edge sizes
	k := 0
	for _, s := range gen.Shapes {
		for lvl := 0; lvl <= 7; lvl++ {
			size := g5EdgeSizes[(k*5+lvl)%len(g5EdgeSizes)]
			if k%3 == 0 {
				size = 2000 + r.Intn(9000)
			}
			emit(g5Cfg{Tf: g5Levels[lvl][0], En: g5Levels[lvl][1], Bs: 1024 << uint(k%3), Ck: []uint{32, 64, 0}[k%3], Hl: k%7 == 0, Fs: k%2 == 1,
				Shape: s.Name, Size: size, DS: r.Int63n(1 << 40)}, "shapes")
			k++
		}
	}
}

func g5RandomCfg(r *rand.Rand, maxSize int) g5Cfg {
	var c g5Cfg
	if r.Intn(3) == 0 {
		l := g5Levels[r.Intn(len(g5Levels))]
		c.Tf, c.En = l[0], l[1]
	} else {
		n := 1 + r.Intn(4)
		var ts []string
		for i := 0; i < n; i++ {
			ts = append(ts, g5Transforms[1+r.Intn(len(g5Transforms)-1)])
		}
		c.Tf = strings.Join(ts, "+")
		c.En = g5Entropies[r.Intn(len(g5Entropies))]
		if g5HeavyEntropy(c.En) && r.Intn(2) == 0 {
			c.En = g5Entropies[r.Intn(6)]
		}
	}
	c.Bs = []uint{1024, 2048, 4096, 65536, 1 << 20}[r.Intn(5)]
	c.Ck = []uint{0, 32, 64}[r.Intn(3)]
	c.Hl = r.Intn(4) == 0
	c.Fs = r.Intn(2) == 0
	shapes := append([]string{"mixed"}, func() (o []string) {
		for _, s := range gen.Shapes {
			o = append(o, s.Name)
		}
		return
	}()...)
	c.Shape = shapes[r.Intn(len(shapes))]
	switch r.Intn(4) {
	case 0:
		c.Size = g5EdgeSizes[r.Intn(len(g5EdgeSizes))]
	case 1:
		c.Size = int(c.Bs)*(1+r.Intn(5)) + r.Intn(3) - 1
	default:
		c.Size = r.Intn(maxSize)
	}
	if c.Size > 40*int(c.Bs) {
		c.Size = 40*int(c.Bs) - r.Intn(int(c.Bs))
	}
	if g5HeavyEntropy(c.En) && c.Size > 60000 {
		c.Size = 60000
	}
	c.DS = r.Int63n(1 << 40)
	return c
}

func init() {
	registerStream(&Stream{
		Name:     "golden",
		Parallel: 8,
		Rule: "ref ops: (transform chain, entropy, block size, checksum, headerless, size hint, data shape/size/seed): all 19x9 single-transform pairs, the ten CLI levels x checksum {0,32,64} x {headered, headerless}, 19 data shapes x levels 0-7 at edge sizes, every single transform / entropy codec at the block sizes v-1,v,v+1 around each named integer constant v of its source (re-read from /repo), then random chains of 1-4 transforms; gold ops: every stream of golden/index.json. " +
			"distinct_nontrivial = distinct scenarios in which the reference encoder+decoder round-trip (so the current decoder is actually compared) plus golden streams decoded",
		Gen: func(r *rand.Rand, tier string, n int, emit func(op string, tags ...string)) {
			emit("goldindex", "family:golden-index")
			if ix, err := g5LoadGolden(); err == nil {
				for _, e := range ix.Entries {
					emit("gold "+e.ID, "family:golden")
				}
			}
			e := func(c g5Cfg, fam string) { emit(c.op(), "family:"+fam) }
			g5Directed(r, e)
			g5Shapes(r, e)
			g5TextPunct(r, e)
			if tier == "thorough" {
				g5Thresholds(r, 1<<23, e)
			} else {
				g5Thresholds(r, 1<<17, e)
			}
			maxSize := 100000
			if n == 0 {
				n = 250
				if tier == "thorough" {
					n = 6000
				}
			}
			if tier == "thorough" {
				maxSize = 3 << 20
			}
			for i := 0; i < n; i++ {
				e(g5RandomCfg(r, maxSize), "random")
			}
		},
		Exec: func(op string, res *Result) string {
			ws := strings.Fields(op)
			if len(ws) == 0 {
				return "bad-op"
			}
			switch ws[0] {
			case "ref":
				return g5ExecRef(ws[1:], res)
			case "gold":
				return g5ExecGold(ws, res)
			case "goldindex":
				ix, err := g5LoadGolden()
				if err != nil {
					res.Violation = &Violation{Kind: "input", Site: "harness", Symptom: "golden-corpus-missing",
						What: "cannot load " + filepath.Join(g5GoldenDir(), "index.json") + ": " + err.Error() + " (generate once with `kv goldengen -out <verif>/golden`)"}
					return "index missing"
				}
				return fmt.Sprintf("index n=%d", len(ix.Entries))
			}
			return "bad-op"
		},
	})
	register("goldengen", g5GoldenGen)
}

// kv goldengen -out <dir>: encode the fixed families with the REFERENCE encoder (jobs 1), keep the
// streams the reference decoder restores exactly, write <dir>/<id>.knz and <dir>/index.json.
func g5GoldenGen(args []string) int {
	fs := flag.NewFlagSet("goldengen", flag.ExitOnError)
	out := fs.String("out", "", "output directory (verif/golden)")
	seed := fs.Int64("seed", 20260923, "seed of the data generators")
	fs.Parse(args)
	if *out == "" {
		fmt.Fprintln(os.Stderr, "goldengen: -out required")
		return 2
	}
	if _, err := os.Stat(filepath.Join(*out, "index.json")); err == nil {
		fmt.Fprintln(os.Stderr, "goldengen: index.json already exists in", *out, "- the corpus is generated once; refusing to overwrite")
		return 2
	}
	if err := os.MkdirAll(*out, 0o755); err != nil {
		fmt.Fprintln(os.Stderr, err)
		return 3
	}
	r := rand.New(rand.NewSource(*seed))
	ix := g5GoldIndex{Generator: "kv goldengen: reference kanziref/v2 (kanzi-go v2 at commit 76efab5), jobs 1, seed " + strconv.FormatInt(*seed, 10)}
	skipped := map[string]int{}
	var total int
	add := func(c g5Cfg, fam string) {
		data := g5Data(c.Shape, c.Size, c.DS)
		c.Size = len(data)
		stream, cls := g5Ref.encode(data, c, 1)
		if cls == "" {
			orig := int64(0)
			if c.Fs {
				orig = int64(len(data))
			}
			var back []byte
			back, cls = g5Ref.decode(stream, c, 1, orig)
			if cls == "" && !bytes.Equal(back, data) {
				cls = "no-roundtrip"
			}
		}
		if cls != "" {
			skipped[fam+" "+c.Tf+"&"+c.En+" "+c.Shape+": "+cls]++
			return
		}
		id := fmt.Sprintf("g%04d", len(ix.Entries)+1)
		e := g5GoldEntry{ID: id, File: id + ".knz", Sha256: g5Sha(data), g5Cfg: c}
		if err := os.WriteFile(filepath.Join(*out, e.File), stream, 0o644); err != nil {
			fmt.Fprintln(os.Stderr, err)
			os.Exit(3)
		}
		total += len(stream)
		ix.Entries = append(ix.Entries, e)
	}
	g5Directed(r, add)
	g5Shapes(r, add)
	b, _ := json.MarshalIndent(ix, "", " ")
	if err := os.WriteFile(filepath.Join(*out, "index.json"), append(b, '\n'), 0o644); err != nil {
		fmt.Fprintln(os.Stderr, err)
		return 3
	}
	keys := make([]string, 0, len(skipped))
	for k := range skipped {
		keys = append(keys, k)
	}
	sort.Strings(keys)
	for _, k := range keys {
		fmt.Printf("skipped (reference does not round-trip): %s x%d\n", k, skipped[k])
	}
	fmt.Printf("golden: %d streams, %d bytes, %d skipped\n", len(ix.Entries), total, len(keys))
	return 0
}
