/-
Line-protocol drivers for the Writer (`sw`) and Reader (`sr`) models.  Core Lean only.

Data is position coded: the byte at global offset p of the plain data is `pat p`; both sides
derive the data from lengths only.  Blocks are reported as `len:hash` with
hash = fold (h·31 + b) mod 2^32, computed the same way by the Go harness from the frames it finds
in the sink with the independent container parser.
-/
import Kanzi.Model.Writer
import Kanzi.Model.Reader
import Kanzi.Model.Container

namespace Kanzi.Drv

def pat (p : Nat) : Nat := (p * 7 + p / 256 + p / 65536 * 13) % 256

def patRange (off len : Nat) : List Nat := (List.range len).map (fun i => pat (off + i))

def hash32 (l : List Nat) : Nat := l.foldl (fun h b => (h * 31 + b) % 4294967296) 0

def words (s : String) : List String := (s.splitOn " ").filter (· ≠ "")

def kvs (ws : List String) (k : String) : Option String :=
  (ws.filterMap (fun w => if w.startsWith (k ++ "=") then some (String.ofList (w.toList.drop (k.length + 1))) else none)).head?

def kvNat (ws : List String) (k : String) (d : Nat) : Nat :=
  match (kvs ws k).bind String.toNat? with
  | some n => n
  | none => d

def optNat (ws : List String) (k : String) : Option Nat := (kvs ws k).bind String.toNat?

/-! ### Writer -/

open Writer in
def werr : Option Writer.Err → String
  | none => "ok"
  | some .closed => "closed"
  | some .failedState => "failed"
  | some .task => "task"
  | some .io => "io"

/-- NONE/NONE payload size in bits for a block of `n` bytes with a checksum of `ck` bits -/
def nonePayloadBits (n ck : Nat) : Nat :=
  let dataSize := if n < 256 then 1 else Nat.log2 n / 8 + 1
  8 + 8 * dataSize + ck + 8 * n

def noneFrameBits (ck : Nat) (blk : List Nat) : Nat :=
  let p := nonePayloadBits blk.length ck
  5 + Container.lenWidth p + p

def szMask (hint : Nat) : Nat :=
  if hint = 0 then 0 else if hint ≥ 2 ^ 48 then 0 else if hint ≥ 2 ^ 32 then 3 else if hint ≥ 2 ^ 16 then 2 else 1

open Writer in
def parseFault (w : Option String) : Fault :=
  match w with
  | none => .none
  | some f =>
    if f = "!e" then .endMarker else if f = "!f" then .finalFlush else if f = "!s" then .closer
    else if f.startsWith "!t" then
      match (String.ofList (f.toList.drop 2)).toNat? with
      | some b => .task b
      | none => .none
    else .none

/-- `sw bs=.. j=.. hint=.. hl=.. ck=.. ; w 5000 [!t1] ; g ; c [!e|!f|!s|!t0] ; ...` -/
def sw (line : String) : String :=
  match line.splitOn ";" with
  | [] => "bad-op"
  | hd :: opsS =>
    let ws := words hd
    let B := kvNat ws "bs" 1024
    let J := kvNat ws "j" 1
    let hint := kvNat ws "hint" 0
    let ck := kvNat ws "ck" 0
    let hl := kvNat ws "hl" 0
    let cfg : Writer.Cfg :=
      { B := B, J := J, nbIn := min ((hint + B - 1) / B) 63, headless := hl = 1,
        headerBits := 160 + 16 * szMask hint, frameBits := noneFrameBits ck }
    let rec go (ops : List String) (s : Writer.St) (off : Nat) (acc : List String) : Writer.St × List String :=
      match ops with
      | [] => (s, acc.reverse)
      | o :: rest =>
        match words o with
        | "w" :: n :: f =>
          match n.toNat? with
          | some len =>
            let r := Writer.write cfg s (patRange off len) (parseFault f.head?)
            go rest r.1 (off + r.2.1) (s!"w:{r.2.1}:{werr r.2.2}" :: acc)
          | none => (s, ["bad-op"])
        | "c" :: f =>
          let r := Writer.close cfg s (parseFault f.head?)
          go rest r.1 off (s!"c:{werr r.2}" :: acc)
        | ["g"] => go rest s off ((if s.failed then "g:?" else s!"g:{Writer.getWritten s}") :: acc)
        | [] => go rest s off acc
        | _ => (s, ["bad-op"])
    let r := go opsS (Writer.init cfg) 0 []
    let s := r.1
    let tail :=
      if s.closed then
        let blocks := " ".intercalate (s.emitted.map (fun b => s!"{b.length}:{hash32 b}"))
        s!" | closed hdr={if s.headerOut then 1 else 0} end={if s.endOut then 1 else 0} bytes={Writer.getWritten s} blocks={blocks}"
      else " | open"
    " ; ".intercalate r.2 ++ tail

/-! ### Reader -/

def rerr : Option Reader.Err → String
  | none => "ok"
  | some .closed => "closed"
  | some .block => "block"
  | some .header => "header"

/-- frames spec: comma separated `b<len>` | `P` (fails after hand-off) | `T` (source ends here) |
`O<len>` (decodes to len > B bytes) | `E` (end marker).  Everything after `T` is unreachable. -/
def parseFrames (spec : String) : List Reader.Frame :=
  let rec go (items : List String) (off : Nat) (acc : List Reader.Frame) : List Reader.Frame :=
    match items with
    | [] => acc.reverse
    | it :: rest =>
      if it = "E" then (Reader.Frame.endMarker :: acc).reverse
      else if it = "T" then acc.reverse
      else if it = "P" then go rest off (Reader.Frame.badPost :: acc)
      else if it.startsWith "b" then
        match (String.ofList (it.toList.drop 1)).toNat? with
        | some len => go rest (off + len) (Reader.Frame.block (patRange off len) :: acc)
        | none => acc.reverse
      else if it.startsWith "O" then
        match (String.ofList (it.toList.drop 1)).toNat? with
        | some len => go rest (off + len) (Reader.Frame.oversize len :: acc)
        | none => acc.reverse
      else acc.reverse
  go ((spec.splitOn ",").filter (· ≠ "")) 0 []

/-- `sr bs=.. j=.. hint=.. from=.. to=.. frames=b1024,b1024,b10,E ; r 100 ; c ; r 1` -/
def sr (line : String) : String :=
  match line.splitOn ";" with
  | [] => "bad-op"
  | hd :: opsS =>
    let ws := words hd
    let B := kvNat ws "bs" 1024
    let hint := kvNat ws "hint" 0
    let cfg : Reader.Cfg :=
      { B := B, J := kvNat ws "j" 1, nbIn := if szMask hint = 0 then 0 else min ((hint + B - 1) / B) 63,
        from_ := optNat ws "from", to_ := optNat ws "to" }
    let frames := parseFrames ((kvs ws "frames").getD "")
    let rec go (ops : List String) (s : Reader.St) (acc : List String) : Reader.St × List String :=
      match ops with
      | [] => (s, acc.reverse)
      | o :: rest =>
        match words o with
        | ["r", n] =>
          match n.toNat? with
          | some len =>
            let r := Reader.read cfg s len
            let out := match r.2 with
              | .eof => "r:0:0:eof"
              | .stale => "r:stale"
              | .data bytes e => s!"r:{bytes.length}:{hash32 bytes}:{rerr e}"
            go rest r.1 (out :: acc)
          | none => (s, ["bad-op"])
        | ["c"] => go rest (Reader.close s) ("c:ok" :: acc)
        -- the wrapped source's Close failed: the error is returned, the Reader is closed all the same
        | ["c", "!s"] => go rest (Reader.close s) ("c:err" :: acc)
        | [] => go rest s acc
        | _ => (s, ["bad-op"])
    let r := go opsS (Reader.init frames) []
    -- ids decoded beyond a failing block are schedule dependent: report ids up to the first failing
    -- block inside the range only
    let limit : Nat :=
      let rec find (fs : List Reader.Frame) (id : Nat) : Nat :=
        match fs with
        | [] => 1073741824
        | f :: rest =>
          let bad := match f with
            | .badPost => true
            | .oversize _ => true
            | _ => false
          if bad && Reader.inRange cfg id then id else find rest (id + 1)
      find frames 1
    " ; ".intercalate r.2 ++ " | dec=" ++ ",".intercalate ((r.1.decodedIds.filter (· ≤ limit)).map toString)

end Kanzi.Drv
