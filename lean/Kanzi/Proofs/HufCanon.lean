/-
Proofs for the Huffman codec, part 2: canonical codes.  For a length table that satisfies
Kraft's inequality (in units of 2^-12) the codes produced by `generateCanonicalCodes` tile the
interval [0, K) of the 12-bit index space, the decoding table maps every index of the tile of a
symbol to (symbol, length), and decoding a concatenation of codes by table look-up returns the
symbols.  Restated in `Kanzi/Properties/C12_huffman.lean`.
-/
import Kanzi.Model.Huffman
import Kanzi.Proofs.EntSmall
import Mathlib.Data.List.Perm.Basic
import Mathlib.Data.List.Nodup

namespace Kanzi.Huffman
open Kanzi.Bits Kanzi.EntSmall

/-! ### vocabulary -/

/-- number of 12-bit indexes that start with the code of `s` -/
def slotW (sizes : List Nat) (s : Nat) : Nat := 2 ^ (12 - sizes.getD s 0)

/-- Kraft sum of the symbols `l` in units of 2^-12 -/
def kraft12 (sizes : List Nat) (l : List Nat) : Nat := (l.map (slotW sizes)).sum

/-- lengths non decreasing along the list (starting at `cur`) and at most 12 -/
def Chain (sizes : List Nat) : List Nat → Nat → Prop
  | [], _ => True
  | s :: ss, cur => cur ≤ sizes.getD s 0 ∧ sizes.getD s 0 ≤ 12 ∧ Chain sizes ss (sizes.getD s 0)

/-- the code of each symbol of the list, left aligned on 12 bits, is the sum of the widths of
    the symbols before it (starting at `P`) -/
def CodesOk (sizes codes : List Nat) : List Nat → Nat → Prop
  | [], _ => True
  | s :: ss, P => codes.getD s 0 * slotW sizes s = P ∧ CodesOk sizes codes ss (P + slotW sizes s)

/-- the symbol whose tile contains index `w` -/
def findSlot (sizes : List Nat) : List Nat → Nat → Nat → Option Nat
  | [], _, _ => none
  | s :: ss, P, w =>
    if w < P + slotW sizes s then (if P ≤ w then some s else none)
    else findSlot sizes ss (P + slotW sizes s) w

theorem slotW_pos (sizes : List Nat) (s : Nat) : 0 < slotW sizes s := Nat.pow_pos (by decide)

theorem kraft12_cons (sizes : List Nat) (s : Nat) (l : List Nat) :
    kraft12 sizes (s :: l) = slotW sizes s + kraft12 sizes l := by
  simp [kraft12]

theorem kraft12_perm (sizes : List Nat) {l1 l2 : List Nat} (h : l1.Perm l2) :
    kraft12 sizes l1 = kraft12 sizes l2 := (h.map _).sum_nat

theorem slotW_le_kraft12 (sizes : List Nat) (s : Nat) : ∀ (l : List Nat), s ∈ l →
    slotW sizes s ≤ kraft12 sizes l := by
  intro l
  induction l with
  | nil => intro h; cases h
  | cons x xs ih =>
    intro h
    rw [kraft12_cons]
    rcases List.mem_cons.mp h with rfl | h
    · omega
    · have := ih h; omega

/-! ### `assignCodes` -/

theorem assignCodes_length (sizes : List Nat) : ∀ (ord : List Nat) (code cur : Nat) (codes : List Nat),
    (assignCodes sizes ord code cur codes).length = codes.length := by
  intro ord
  induction ord with
  | nil => intros; rfl
  | cons s ss ih => intro code cur codes; simp only [assignCodes]; rw [ih]; simp

theorem assignCodes_frame (sizes : List Nat) : ∀ (ord : List Nat) (code cur : Nat) (codes : List Nat) (x : Nat),
    x ∉ ord → (assignCodes sizes ord code cur codes).getD x 0 = codes.getD x 0 := by
  intro ord
  induction ord with
  | nil => intros; rfl
  | cons s ss ih =>
    intro code cur codes x hx
    simp only [assignCodes]
    rw [ih _ _ _ x (fun h => hx (List.mem_cons_of_mem _ h))]
    exact getD_set_ne _ _ _ _ (fun h => hx (h ▸ List.mem_cons_self))

theorem CodesOk_congr (sizes c1 c2 : List Nat) : ∀ (ord : List Nat) (P : Nat),
    (∀ s ∈ ord, c1.getD s 0 = c2.getD s 0) → CodesOk sizes c1 ord P → CodesOk sizes c2 ord P := by
  intro ord
  induction ord with
  | nil => intros; trivial
  | cons s ss ih =>
    intro P h hc
    exact ⟨by rw [← h s List.mem_cons_self]; exact hc.1,
           ih _ (fun x hx => h x (List.mem_cons_of_mem _ hx)) hc.2⟩

theorem assignCodes_ok (sizes : List Nat) : ∀ (ord : List Nat) (code cur P : Nat) (codes : List Nat),
    Chain sizes ord cur → cur ≤ 12 → code * 2 ^ (12 - cur) = P → P + kraft12 sizes ord ≤ 4096 →
    ord.Nodup → (∀ s ∈ ord, s < codes.length) →
    CodesOk sizes (assignCodes sizes ord code cur codes) ord P := by
  intro ord
  induction ord with
  | nil => intros; trivial
  | cons s ss ih =>
    intro code cur P codes hch hcur hP hK hnd hlen
    obtain ⟨h1, h2, h3⟩ := hch
    rw [kraft12_cons] at hK
    have hs : s < codes.length := hlen s List.mem_cons_self
    have hnd' := List.nodup_cons.mp hnd
    simp only [assignCodes]
    have hk : (sizes.getD s 0 + 256 - cur) % 256 = sizes.getD s 0 - cur := by omega
    rw [hk]
    have hc0 : (code <<< (sizes.getD s 0 - cur)) * slotW sizes s = P := by
      rw [Nat.shiftLeft_eq, slotW, Nat.mul_assoc, ← Nat.pow_add,
        show sizes.getD s 0 - cur + (12 - sizes.getD s 0) = 12 - cur by omega]
      exact hP
    have hpos := slotW_pos sizes s
    have hlt : code <<< (sizes.getD s 0 - cur) < 4096 := by
      have : code <<< (sizes.getD s 0 - cur) ≤ (code <<< (sizes.getD s 0 - cur)) * slotW sizes s :=
        Nat.le_mul_of_pos_right _ hpos
      omega
    rw [Nat.mod_eq_of_lt (show code <<< (sizes.getD s 0 - cur) < 65536 by omega),
        Nat.mod_eq_of_lt (show code <<< (sizes.getD s 0 - cur) + 1 < 65536 by omega)]
    have ihh := ih (code <<< (sizes.getD s 0 - cur) + 1) (sizes.getD s 0) (P + slotW sizes s)
      (codes.set s (code <<< (sizes.getD s 0 - cur))) h3 h2
      (by rw [Nat.add_mul, Nat.one_mul]; rw [slotW] at hc0; rw [hc0, slotW]) (by omega) hnd'.2
      (fun x hx => by rw [List.length_set]; exact hlen x (List.mem_cons_of_mem _ hx))
    refine ⟨?_, ihh⟩
    rw [assignCodes_frame _ _ _ _ _ _ hnd'.1, getD_set_self _ _ _ hs]
    exact hc0

/-! ### tiles -/

theorem CodesOk_ge (sizes codes : List Nat) (s : Nat) : ∀ (ord : List Nat) (P : Nat),
    CodesOk sizes codes ord P → s ∈ ord → P ≤ codes.getD s 0 * slotW sizes s := by
  intro ord
  induction ord with
  | nil => intro _ _ h; cases h
  | cons x xs ih =>
    intro P hc hs
    rcases List.mem_cons.mp hs with rfl | hs
    · exact Nat.le_of_eq hc.1.symm
    · have := ih _ hc.2 hs; omega

theorem CodesOk_le (sizes codes : List Nat) (s : Nat) : ∀ (ord : List Nat) (P : Nat),
    CodesOk sizes codes ord P → s ∈ ord →
    codes.getD s 0 * slotW sizes s + slotW sizes s ≤ P + kraft12 sizes ord := by
  intro ord
  induction ord with
  | nil => intro _ _ h; cases h
  | cons x xs ih =>
    intro P hc hs
    rw [kraft12_cons]
    rcases List.mem_cons.mp hs with rfl | hs
    · have := hc.1; omega
    · have := ih _ hc.2 hs; omega

theorem findSlot_none_lt (sizes : List Nat) : ∀ (ord : List Nat) (P w : Nat), w < P →
    findSlot sizes ord P w = none := by
  intro ord
  induction ord with
  | nil => intros; rfl
  | cons s ss ih =>
    intro P w h
    simp only [findSlot]
    have := slotW_pos sizes s
    rw [if_pos (by omega), if_neg (by omega)]

theorem findSlot_hit (sizes codes : List Nat) (s w : Nat) : ∀ (ord : List Nat) (P : Nat),
    CodesOk sizes codes ord P → s ∈ ord →
    codes.getD s 0 * slotW sizes s ≤ w → w < codes.getD s 0 * slotW sizes s + slotW sizes s →
    findSlot sizes ord P w = some s := by
  intro ord
  induction ord with
  | nil => intro _ _ h; cases h
  | cons x xs ih =>
    intro P hc hs h1 h2
    simp only [findSlot]
    by_cases hx : s = x
    · subst hx
      have := hc.1
      rw [if_pos (by omega), if_pos (by omega)]
    · have hs' : s ∈ xs := by
        rcases List.mem_cons.mp hs with h | h
        · exact absurd h hx
        · exact h
      have := CodesOk_ge sizes codes s xs _ hc.2 hs'
      rw [if_neg (by omega)]
      exact ih _ hc.2 hs' h1 h2

/-- a code of length `l ≤ 12` whose tile ends inside the 4096 indexes has no bit above `l` -/
theorem code_lt_of_tile (c l : Nat) (hl : l ≤ 12) (h : c * 2 ^ (12 - l) + 2 ^ (12 - l) ≤ 4096) :
    c < 2 ^ l := by
  have h4096 : (4096 : Nat) = 2 ^ l * 2 ^ (12 - l) := by
    rw [← Nat.pow_add, show l + (12 - l) = 12 by omega]
  rw [h4096, ← Nat.succ_mul] at h
  have := Nat.le_of_mul_le_mul_right h (Nat.pow_pos (by decide))
  omega

/-! ### the decoding table -/

theorem fillTable_length (tbl : List Nat) (i e v : Nat) (hie : i ≤ e) (he : e ≤ tbl.length) :
    (fillTable tbl i e v).length = tbl.length := by
  simp only [fillTable, List.length_append, List.length_take, List.length_replicate, List.length_drop]
  omega

theorem fillTable_getD (tbl : List Nat) (i e v w : Nat) (hie : i ≤ e) (he : e ≤ tbl.length) :
    (fillTable tbl i e v).getD w 0 = if i ≤ w ∧ w < e then v else tbl.getD w 0 := by
  simp only [fillTable, List.getD_eq_getElem?_getD]
  by_cases h1 : w < i
  · rw [List.getElem?_append_left (by simp; omega), List.getElem?_append_left (by simp; omega),
      List.getElem?_take_of_lt h1, if_neg (by omega)]
  · by_cases h2 : w < e
    · rw [List.getElem?_append_left (by simp; omega), List.getElem?_append_right (by simp; omega),
        if_pos (by omega)]
      simp only [List.length_take]
      rw [List.getElem?_replicate, if_pos (by omega)]
      rfl
    · rw [List.getElem?_append_right (by simp; omega), if_neg (by omega)]
      simp only [List.length_append, List.length_take, List.length_replicate, List.getElem?_drop]
      congr 2
      omega

theorem buildTableLoop_spec (sizes codes : List Nat) : ∀ (ord : List Nat) (len P : Nat) (tbl : List Nat),
    Chain sizes ord len → tbl.length = 4096 → P + kraft12 sizes ord ≤ 4096 →
    CodesOk sizes codes ord P →
    ∃ t, buildTableLoop sizes codes ord len tbl = some t ∧ t.length = 4096 ∧
      ∀ w, t.getD w 0 = match findSlot sizes ord P w with
                        | some s => (s <<< 8) ||| sizes.getD s 0
                        | none => tbl.getD w 0 := by
  intro ord
  induction ord with
  | nil =>
    intro len P tbl _ hl _ _
    exact ⟨tbl, rfl, hl, fun w => rfl⟩
  | cons s ss ih =>
    intro len P tbl hch hl hK hc
    obtain ⟨h1, h2, h3⟩ := hch
    rw [kraft12_cons] at hK
    have hmax : max len (sizes.getD s 0) = sizes.getD s 0 := Nat.max_eq_right h1
    have hidx : (codes.getD s 0 <<< (12 - sizes.getD s 0)) % 65536 = P := by
      rw [Nat.shiftLeft_eq]
      have := hc.1
      rw [slotW] at this
      rw [this]
      exact Nat.mod_eq_of_lt (by omega)
    have hpos := slotW_pos sizes s
    have hend : (P + 2 ^ (12 - sizes.getD s 0)) % 65536 = P + slotW sizes s := by
      rw [slotW]; rw [slotW] at hK
      exact Nat.mod_eq_of_lt (by omega)
    simp only [buildTableLoop, hmax, hidx, hend]
    rw [if_neg (by omega), if_neg (by omega), if_neg (by omega)]
    obtain ⟨t, ht, htl, htw⟩ := ih (sizes.getD s 0) (P + slotW sizes s)
      (fillTable tbl P (P + slotW sizes s) ((s <<< 8) ||| sizes.getD s 0)) h3
      (by rw [fillTable_length _ _ _ _ (by omega) (by omega)]; exact hl) (by omega) hc.2
    refine ⟨t, ht, htl, fun w => ?_⟩
    rw [htw w]
    simp only [findSlot]
    by_cases hw1 : w < P + slotW sizes s
    · rw [findSlot_none_lt _ _ _ _ hw1, if_pos hw1]
      simp only
      rw [fillTable_getD _ _ _ _ _ (by omega) (by omega)]
      by_cases hw2 : P ≤ w
      · rw [if_pos ⟨hw2, hw1⟩, if_pos hw2]
      · rw [if_neg (by omega), if_neg hw2]
    · rw [if_neg hw1]
      cases findSlot sizes ss (P + slotW sizes s) w with
      | some x => rfl
      | none =>
        simp only
        rw [fillTable_getD _ _ _ _ _ (by omega) (by omega), if_neg (by omega)]

/-! ### decoding by table look-up -/

/-- the next `n` bits of a bit string, zero padded (Go: what `(state >> bs) & mask` sees) -/
def peek (n : Nat) (sb : Bits) : Nat := bitsNat ((sb ++ List.replicate n false).take n)

/-- `n` symbols decoded by look-up in `tbl` from the bit string `sb`, each look-up consuming
    the number of bits stored in the low byte of the entry -/
def specDec (tbl : List Nat) : Nat → Bits → List Nat
  | 0, _ => []
  | n + 1, sb =>
    ((tbl.getD (peek 12 sb) 0 >>> 8) % 256) :: specDec tbl n (sb.drop (tbl.getD (peek 12 sb) 0 % 256))

theorem peek_code (c l : Nat) (hl : l ≤ 12) (hc : c < 2 ^ l) (rest : Bits) :
    c * 2 ^ (12 - l) ≤ peek 12 (natBits c l ++ rest) ∧
    peek 12 (natBits c l ++ rest) < c * 2 ^ (12 - l) + 2 ^ (12 - l) := by
  unfold peek
  rw [List.append_assoc, List.take_append, natBits_length, List.take_of_length_le (by rw [natBits_length]; exact hl),
    bitsNat_append, bitsNat_natBits, Nat.mod_eq_of_lt hc]
  have hlen : ((rest ++ List.replicate 12 false).take (12 - l)).length = 12 - l := by
    rw [List.length_take, List.length_append, List.length_replicate]; omega
  rw [hlen]
  have := bitsNat_lt ((rest ++ List.replicate 12 false).take (12 - l))
  rw [hlen] at this
  omega

theorem entry_sym (s l : Nat) (hl : l < 256) : (((s <<< 8) ||| l) >>> 8) = s ∧ ((s <<< 8) ||| l) % 256 = l := by
  rw [Nat.or_comm, or_shiftLeft l s 8 (by simpa using hl)]
  constructor
  · rw [Nat.shiftRight_eq_div_pow]; omega
  · omega

/-- the bits the encoder emits for symbol `b` -/
def codeBits (sizes codes : List Nat) (b : Nat) : Bits := natBits (codes.getD b 0) (sizes.getD b 0)

/-- a table is good for the symbols `ord` when every index of the tile of a symbol holds
    (symbol, length) -/
def TableFor (sizes codes ord tbl : List Nat) : Prop :=
  ∀ s ∈ ord, ∀ w, codes.getD s 0 * slotW sizes s ≤ w → w < codes.getD s 0 * slotW sizes s + slotW sizes s →
    tbl.getD w 0 = (s <<< 8) ||| sizes.getD s 0

theorem specDec_codes (sizes codes ord tbl : List Nat) (ht : TableFor sizes codes ord tbl)
    (h256 : ∀ s ∈ ord, s < 256) (hsz : ∀ s ∈ ord, sizes.getD s 0 ≤ 12)
    (hcode : ∀ s ∈ ord, codes.getD s 0 < 2 ^ sizes.getD s 0) :
    ∀ (syms : List Nat) (rest : Bits), (∀ b ∈ syms, b ∈ ord) →
      specDec tbl syms.length (syms.flatMap (codeBits sizes codes) ++ rest) = syms := by
  intro syms
  induction syms with
  | nil => intros; rfl
  | cons b bs ih =>
    intro rest hb
    have hbo := hb b List.mem_cons_self
    simp only [List.flatMap_cons, List.length_cons, specDec, List.append_assoc]
    have hp := peek_code (codes.getD b 0) (sizes.getD b 0) (hsz b hbo) (hcode b hbo)
      (bs.flatMap (codeBits sizes codes) ++ rest)
    have he := ht b hbo _ (by rw [slotW]; exact hp.1) (by rw [slotW]; exact hp.2)
    have hes := entry_sym b (sizes.getD b 0) (by have := hsz b hbo; omega)
    simp only [codeBits] at he hp ⊢
    rw [he, hes.1, hes.2, Nat.mod_eq_of_lt (h256 b hbo)]
    rw [List.drop_append_of_le_length (by simp [natBits_length]), List.drop_of_length_le (by simp [natBits_length]),
      List.nil_append]
    rw [ih rest (fun x hx => hb x (List.mem_cons_of_mem _ hx))]

/-! ### `canonOrder` -/

theorem mem_canonOrder (sizes symbols : List Nat) (x : Nat) :
    x ∈ canonOrder sizes symbols ↔
      x < 256 ∧ x ∈ symbols ∧ 1 ≤ sizes.getD x 0 ∧ sizes.getD x 0 ≤ 13 := by
  simp only [canonOrder, List.mem_flatMap, List.mem_range, List.mem_filter, List.contains_iff_mem,
    beq_iff_eq]
  constructor
  · rintro ⟨l, hl, ⟨hx, hm⟩, he⟩
    exact ⟨hx, hm, by omega, by omega⟩
  · rintro ⟨hx, hm, h1, h13⟩
    exact ⟨sizes.getD x 0 - 1, by omega, ⟨hx, hm⟩, by omega⟩

/-- sorted by (length, symbol) -/
theorem canonOrder_pairwise (sizes symbols : List Nat) :
    (canonOrder sizes symbols).Pairwise
      (fun a b => sizes.getD a 0 < sizes.getD b 0 ∨ (sizes.getD a 0 = sizes.getD b 0 ∧ a < b)) := by
  unfold canonOrder
  rw [List.pairwise_flatMap]
  constructor
  · intro l _
    have h : ((List.range 256).filter (fun s => symbols.contains s)).Pairwise (· < ·) :=
      List.Pairwise.filter _ List.pairwise_lt_range
    have h2 := List.Pairwise.filter (fun s => sizes.getD s 0 == l + 1) h
    refine List.Pairwise.imp_of_mem ?_ h2
    intro a b ha hb hab
    simp only [List.mem_filter, beq_iff_eq] at ha hb
    exact Or.inr ⟨by omega, hab⟩
  · refine List.Pairwise.imp ?_ (List.pairwise_lt_range (n := 13))
    intro l1 l2 hl x hx y hy
    simp only [List.mem_filter, beq_iff_eq] at hx hy
    exact Or.inl (by omega)

theorem canonOrder_nodup (sizes symbols : List Nat) : (canonOrder sizes symbols).Nodup := by
  refine List.Pairwise.imp ?_ (canonOrder_pairwise sizes symbols)
  intro a b h hab
  subst hab
  omega

theorem canonOrder_perm (sizes symbols : List Nat) (hn : symbols.Nodup) (h256 : ∀ s ∈ symbols, s < 256)
    (hsz : ∀ s ∈ symbols, 1 ≤ sizes.getD s 0 ∧ sizes.getD s 0 ≤ 12) :
    (canonOrder sizes symbols).Perm symbols := by
  rw [List.perm_ext_iff_of_nodup (canonOrder_nodup sizes symbols) hn]
  intro x
  rw [mem_canonOrder]
  constructor
  · exact fun h => h.2.1
  · intro h
    have := hsz x h
    exact ⟨h256 x h, h, this.1, by omega⟩

theorem chain_of_pairwise (sizes : List Nat) : ∀ (l : List Nat) (cur : Nat),
    l.Pairwise (fun a b => sizes.getD a 0 ≤ sizes.getD b 0) → (∀ s ∈ l, cur ≤ sizes.getD s 0 ∧ sizes.getD s 0 ≤ 12) →
    Chain sizes l cur := by
  intro l
  induction l with
  | nil => intros; trivial
  | cons s ss ih =>
    intro cur hp hb
    rw [List.pairwise_cons] at hp
    have := hb s List.mem_cons_self
    exact ⟨this.1, this.2, ih _ hp.2 (fun x hx =>
      ⟨hp.1 x hx, (hb x (List.mem_cons_of_mem _ hx)).2⟩)⟩

theorem canonOrder_chain (sizes symbols : List Nat)
    (hsz : ∀ s ∈ symbols, 1 ≤ sizes.getD s 0 ∧ sizes.getD s 0 ≤ 12) :
    Chain sizes (canonOrder sizes symbols) (sizes.getD ((canonOrder sizes symbols).headD 0) 0) := by
  have hp : (canonOrder sizes symbols).Pairwise (fun a b => sizes.getD a 0 ≤ sizes.getD b 0) :=
    List.Pairwise.imp (fun h => by omega) (canonOrder_pairwise sizes symbols)
  have hm : ∀ s ∈ canonOrder sizes symbols, sizes.getD s 0 ≤ 12 := fun s hs =>
    (hsz s ((mem_canonOrder sizes symbols s).mp hs).2.1).2
  cases hc : canonOrder sizes symbols with
  | nil => trivial
  | cons x xs =>
    rw [hc] at hp hm
    simp only [List.headD_cons]
    rw [List.pairwise_cons] at hp
    exact ⟨Nat.le_refl _, hm x List.mem_cons_self,
      chain_of_pairwise sizes xs _ hp.2 (fun s hs => ⟨hp.1 s hs, hm s (List.mem_cons_of_mem _ hs)⟩)⟩

/-! ### `generateCanonicalCodes` -/

/-- what both sides need to know about a code table: lengths in 1..12 on the alphabet, Kraft -/
structure LensOk (sizes symbols : List Nat) : Prop where
  nodup : symbols.Nodup
  lt256 : ∀ s ∈ symbols, s < 256
  range : ∀ s ∈ symbols, 1 ≤ sizes.getD s 0 ∧ sizes.getD s 0 ≤ 12
  kraft : kraft12 sizes symbols ≤ 4096

theorem genCodes_ok (sizes symbols : List Nat) (h : LensOk sizes symbols) (h2 : 2 ≤ symbols.length) :
    ∃ codes, generateCanonicalCodes sizes (List.replicate 256 0) symbols
        = some (codes, canonOrder sizes symbols) ∧
      codes.length = 256 ∧ CodesOk sizes codes (canonOrder sizes symbols) 0 ∧
      (∀ x, x ∉ symbols → codes.getD x 0 = 0) := by
  have hperm := canonOrder_perm sizes symbols h.nodup h.lt256 h.range
  unfold generateCanonicalCodes
  rw [if_neg (by omega), if_neg (by omega)]
  have hany : (symbols.any fun s => decide (s > 255) || decide (sizes.getD s 0 > 12) || decide (sizes.getD s 0 = 0)) = false := by
    rw [List.any_eq_false]
    intro s hs
    have h1 := h.lt256 s hs
    have h2 := h.range s hs
    simp only [Bool.or_eq_true, decide_eq_true_eq]
    omega
  rw [hany]
  simp only [Bool.false_eq_true, if_false]
  rw [if_neg (by rw [hperm.length_eq]; exact fun hh => hh rfl)]
  refine ⟨_, rfl, ?_, ?_, ?_⟩
  · rw [assignCodes_length, List.length_replicate]
  · refine assignCodes_ok sizes _ 0 _ 0 _ (canonOrder_chain sizes symbols h.range) ?_ (Nat.zero_mul _)
      (by rw [Nat.zero_add, kraft12_perm sizes hperm]; exact h.kraft) (canonOrder_nodup _ _) ?_
    · cases hc : canonOrder sizes symbols with
      | nil =>
        have := hperm.length_eq
        rw [hc] at this
        simp only [List.length_nil] at this
        omega
      | cons x xs =>
        have : x ∈ canonOrder sizes symbols := by rw [hc]; exact List.mem_cons_self
        exact (h.range x ((mem_canonOrder _ _ _).mp this).2.1).2
    · intro s hs
      simp only [List.length_replicate]
      exact ((mem_canonOrder _ _ _).mp hs).1
  · intro x hx
    rw [assignCodes_frame _ _ _ _ _ _ (fun hm => hx (hperm.mem_iff.mp hm))]
    exact getD_replicate_zero 256 x

/-- the result depends on `sizes` through the entries of the alphabet only, and on `symbols`
    as a set only (more than one symbol) -/
theorem canonOrder_congr (s1 s2 a1 a2 : List Nat) (hm : ∀ x, x ∈ a1 ↔ x ∈ a2)
    (hs : ∀ x ∈ a1, s1.getD x 0 = s2.getD x 0) : canonOrder s1 a1 = canonOrder s2 a2 := by
  unfold canonOrder
  have h1 : (List.range 256).filter (fun s => a1.contains s) = (List.range 256).filter (fun s => a2.contains s) := by
    apply List.filter_congr
    intro x _
    rw [Bool.eq_iff_iff]
    simp only [List.contains_iff_mem]
    exact hm x
  rw [h1]
  congr 1
  funext l
  apply List.filter_congr
  intro x hx
  simp only [List.mem_filter, List.contains_iff_mem] at hx
  rw [hs x ((hm x).mpr hx.2)]

theorem assignCodes_congr (s1 s2 : List Nat) : ∀ (ord : List Nat) (code cur : Nat) (codes : List Nat),
    (∀ x ∈ ord, s1.getD x 0 = s2.getD x 0) →
    assignCodes s1 ord code cur codes = assignCodes s2 ord code cur codes := by
  intro ord
  induction ord with
  | nil => intros; rfl
  | cons s ss ih =>
    intro code cur codes h
    simp only [assignCodes]
    rw [h s List.mem_cons_self]
    exact ih _ _ _ (fun x hx => h x (List.mem_cons_of_mem _ hx))

theorem genCodes_congr (s1 s2 a1 a2 : List Nat) (hm : ∀ x, x ∈ a1 ↔ x ∈ a2) (hl : a1.length = a2.length)
    (h2 : 2 ≤ a1.length) (hs : ∀ x ∈ a1, s1.getD x 0 = s2.getD x 0) :
    generateCanonicalCodes s1 (List.replicate 256 0) a1 = generateCanonicalCodes s2 (List.replicate 256 0) a2 := by
  have hco := canonOrder_congr s1 s2 a1 a2 hm hs
  have hany : (a1.any fun s => decide (s > 255) || decide (s1.getD s 0 > 12) || decide (s1.getD s 0 = 0))
      = (a2.any fun s => decide (s > 255) || decide (s2.getD s 0 > 12) || decide (s2.getD s 0 = 0)) := by
    rw [Bool.eq_iff_iff, List.any_eq_true, List.any_eq_true]
    constructor
    · rintro ⟨x, hx, hp⟩
      exact ⟨x, (hm x).mp hx, by rw [← hs x hx]; exact hp⟩
    · rintro ⟨x, hx, hp⟩
      exact ⟨x, (hm x).mpr hx, by rw [hs x ((hm x).mpr hx)]; exact hp⟩
  unfold generateCanonicalCodes
  rw [if_neg (show ¬ a1.length = 0 by omega), if_neg (show ¬ a1.length = 1 by omega),
    if_neg (show ¬ a2.length = 0 by omega), if_neg (show ¬ a2.length = 1 by omega), hany, hco, hl]
  have hmem : ∀ x ∈ canonOrder s2 a2, s1.getD x 0 = s2.getD x 0 := fun x hx =>
    hs x ((hm x).mpr ((mem_canonOrder _ _ _).mp hx).2.1)
  rw [assignCodes_congr s1 s2 _ _ _ _ hmem]
  cases hc : canonOrder s2 a2 with
  | nil => rfl
  | cons y ys =>
    have : y ∈ canonOrder s2 a2 := by rw [hc]; exact List.mem_cons_self
    simp only [List.headD_cons]
    rw [hmem y this]

end Kanzi.Huffman
