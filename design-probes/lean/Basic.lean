namespace Lt

/-- rANS one-step: encode symbol with freq f, cum c at state x, scale 2^n -/
def ansEnc (n f c x : Nat) : Nat := (x / f) * 2^n + (x % f) + c
def ansDecState (n f c x' : Nat) : Nat := f * (x' / 2^n) + (x' % 2^n) - c

theorem ans_step (n f c x : Nat) (hf : 0 < f) (hc : c + f ≤ 2^n) :
    ansDecState n f c (ansEnc n f c x) = x ∧ c ≤ (ansEnc n f c x) % 2^n ∧ (ansEnc n f c x) % 2^n < c + f := by
  unfold ansDecState ansEnc
  have hlt : x % f + c < 2^n := by
    have := Nat.mod_lt x hf
    omega
  have h2 : 0 < 2^n := Nat.two_pow_pos n
  have hm : (x / f * 2 ^ n + x % f + c) % 2^n = x % f + c := by
    rw [Nat.add_assoc, Nat.mul_comm, Nat.mul_add_mod, Nat.mod_eq_of_lt hlt]
  have hd : (x / f * 2 ^ n + x % f + c) / 2^n = x / f := by
    rw [Nat.add_assoc, Nat.mul_comm, Nat.mul_add_div h2, Nat.div_eq_of_lt hlt, Nat.add_zero]
  rw [hm, hd]
  refine ⟨?_, by omega, ?_⟩
  · have := Nat.div_add_mod x f
    omega
  · have := Nat.mod_lt x hf
    omega

def wbits (acc : List Bool) (v : Nat) : Nat → List Bool
  | 0 => acc
  | k+1 => wbits (acc ++ [v.testBit k]) v k

end Lt
