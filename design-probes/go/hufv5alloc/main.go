package main

// FINDING (C03, slice huftotal): HuffmanDecoder.decodeChunkV5 (bitstream versions below 6, a 4-bit field of
// the stream header) sizes this.buffer from the VarInt it has just read: sz + sz>>3 bytes with
// sz = (szBits+7)>>3, up to 603 979 773 bytes, BEFORE reading the payload.  A 36-byte stream declaring
// 1024-byte blocks makes every decoding task allocate 576 MiB, then fail with "No more data to read".
// Expected: the size is checked against the block (12-bit codes: at most 3*count/2 bytes) and the
// stream is rejected with an error, as decodeChunkV6 does by construction (fixed 2*chunkSize buffer).
// Repaired in /repo 97146d4 (sz > max(2*count,1024) rejected before the allocation): now about 0.3 MiB.
// Model: lean/Kanzi/Properties/C03_huffman.lean, C03_huf_v5_forged_size_rejected, C03_huf_v5_alloc_bound.  args: <version 1|2> <jobs>
import (
	"bytes"
	"fmt"
	"io"
	"os"
	"runtime"
	"strconv"

	kio "github.com/flanglet/kanzi-go/v2/io"
)

type bw struct {
	b  []byte
	nb uint64
}

func (w *bw) put(v uint64, n uint) {
	for i := int(n) - 1; i >= 0; i-- {
		if w.nb%8 == 0 {
			w.b = append(w.b, 0)
		}
		if (v>>uint(i))&1 != 0 {
			w.b[w.nb/8] |= 0x80 >> (w.nb % 8)
		}
		w.nb++
	}
}

type rc struct{ *bytes.Reader }

func (rc) Close() error { return nil }

func main() {
	ver := uint64(2)
	_ = ver
	if len(os.Args) > 1 {
		v, _ := strconv.Atoi(os.Args[1])
		ver = uint64(v)
	}
	// block payload: mode 0, length 40, Huffman chunk: alphabet {0,1}, lengths 1 and 1, stream count 0,
	// VarInt 0xFFFFFFF0 (5 bytes), nothing behind
	blk := &bw{}
	blk.put(0, 8)  // mode: no transform, 1 length byte
	blk.put(40, 8) // preTransformLength
	blk.put(1, 1)  // partial alphabet
	blk.put(0, 5)  // lastMask 0
	blk.put(3, 8)  // symbols 0 and 1
	blk.put(5, 4)  // Exp-Golomb: delta -1 (2 -> 1)
	blk.put(1, 1)  // Exp-Golomb: delta 0
	blk.put(0, 2)  // one stream
	for _, c := range []uint64{0xF0, 0xFF, 0xFF, 0xFF, 0x0F} {
		blk.put(c, 8)
	}
	s := &bw{}
	s.put(0x4B414E5A, 32)
	s.put(ver, 4)
	s.put(0, 1)     // no checksum
	s.put(1, 5)     // HUFFMAN
	s.put(0, 48)    // no transform
	s.put(1024>>4, 28)
	s.put(63, 6) // nbInputBlocks
	s.put(0, 4) // reserved
	// frame: 5 bits (lr-3), then length in bits
	nbits := uint64(len(blk.b)) * 8
	lr := uint(3)
	for nbits >= 1<<lr {
		lr++
	}
	jobs := 1
	if len(os.Args) > 2 {
		jobs, _ = strconv.Atoi(os.Args[2])
	}
	for k := 0; k < jobs; k++ {
		s.put(uint64(lr-3), 5)
		s.put(nbits, lr)
		for _, c := range blk.b {
			s.put(uint64(c), 8)
		}
	}
	s.put(0, 64)
	fmt.Println("stream bytes:", len(s.b), "declared block size: 1024")
	var m0, m1 runtime.MemStats
	runtime.ReadMemStats(&m0)
	r, err := kio.NewReader(rc{bytes.NewReader(s.b)}, uint(jobs))
	if err != nil {
		fmt.Println("NewReader:", err)
		return
	}
	out := make([]byte, 4096)
	n, err := io.ReadFull(r, out)
	runtime.ReadMemStats(&m1)
	fmt.Println("read", n, "err:", err)
	fmt.Printf("bytes allocated while decoding: %d (%.1f MiB)\n", m1.TotalAlloc-m0.TotalAlloc, float64(m1.TotalAlloc-m0.TotalAlloc)/1048576)
}
