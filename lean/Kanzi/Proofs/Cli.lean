/-
Proofs about `Kanzi.Model.Cli` (core Lean only, no Mathlib).
-/
import Kanzi.Model.Cli

namespace Kanzi.Cli

/-- acceptance from a phase, without the position counter -/
def acc : Ph → List Effect → Bool
  | _, [] => true
  | ph, e :: es => match accStep ph e with
    | some ph' => acc ph' es
    | none => false

theorem accRun_isNone (es : List Effect) : ∀ ph k, (accRun ph k es).isNone = acc ph es := by
  induction es with
  | nil => intros; rfl
  | cons e es ih =>
    intro ph k
    cases h : accStep ph e <;> simp [accRun, acc, h, ih]

theorem cliAccepts_eq (es : List Effect) : cliAccepts es = acc .start es := accRun_isNone es _ _

def Ph.srcIntact : Ph → Bool
  | .removed => false
  | _ => true

def Ph.outDone : Ph → Bool
  | .closed | .removed => true
  | _ => false

variable {i o : Path}

theorem step_src {ph ph' : Ph} {e : Effect} {s : St} {orig : Option Content} (hio : i ≠ o)
    (h : accStep ph e = some ph') (h1 : ph.srcIntact = true → s.fs i = orig) :
    ph'.srcIntact = true → (step i o s e).fs i = orig := by
  rcases e with t | ⟨t, b⟩ | ⟨t, c⟩ | t | t <;> cases t <;> cases ph <;>
    simp [accStep] at h <;> subst h <;> simp_all [step, upd, tpath, Ph.srcIntact]

theorem step_out {ph ph' : Ph} {e : Effect} {s : St}
    (h : accStep ph e = some ph') (h2 : ph.outDone = true → s.outOpen = false) :
    ph'.outDone = true → (step i o s e).outOpen = false := by
  rcases e with t | ⟨t, b⟩ | ⟨t, c⟩ | t | t <;> cases t <;> cases ph <;>
    simp [accStep] at h <;> subst h <;> simp_all [step, Ph.outDone]

/-- Safety of every prefix of an accepted trace: the source is intact, or the destination already
holds exactly what it holds after the complete trace and its descriptor is closed. -/
theorem acc_prefix_safe (hio : i ≠ o) (orig : Option Content) :
    ∀ (r : List Effect) (ph : Ph) (s : St), acc ph r = true →
      (ph.srcIntact = true → s.fs i = orig) → (ph.outDone = true → s.outOpen = false) →
      ∀ k, (exec i o s (r.take k)).fs i = orig ∨
        ((exec i o s (r.take k)).fs o = (exec i o s r).fs o ∧ (exec i o s (r.take k)).outOpen = false) := by
  intro r
  induction r with
  | nil => intro ph s _ h1 h2 k; cases ph <;> simp_all [exec, Ph.srcIntact, Ph.outDone]
  | cons e r ih =>
    intro ph s ha h1 h2 k
    cases hst : accStep ph e with
    | none => simp [acc, hst] at ha
    | some ph' =>
      have ha' : acc ph' r = true := by simpa [acc, hst] using ha
      cases k with
      | zero => cases ph <;> simp_all [exec, Ph.srcIntact, accStep]
      | succ k =>
        simpa [exec] using ih ph' (step i o s e) ha' (step_src hio hst h1) (step_out hst h2) k

/-- in an accepted trace the source keeps its content until the `unlink`, which is the last effect -/
theorem acc_src_untouched (hio : i ≠ o) (orig : Option Content) :
    ∀ (r : List Effect) (ph : Ph) (s : St), acc ph r = true → ph.srcIntact = true → s.fs i = orig →
      ∀ k, (k < r.length ∨ Effect.unlink .inp ∉ r) → (exec i o s (r.take k)).fs i = orig := by
  intro r
  induction r with
  | nil => intro ph s _ _ h _ _; simpa [exec] using h
  | cons e r ih =>
    intro ph s ha hp h1 k hk
    cases hst : accStep ph e with
    | none => simp [acc, hst] at ha
    | some ph' =>
      have ha' : acc ph' r = true := by simpa [acc, hst] using ha
      cases k with
      | zero => simpa [exec] using h1
      | succ k =>
        have hs := step_src (s := s) (orig := orig) hio hst (fun _ => h1)
        by_cases hr : ph' = .removed
        · subst hr
          have hnil : r = [] := by
            cases r with
            | nil => rfl
            | cons e' r' => simp [acc, accStep] at ha'
          have he : e = .unlink .inp := by
            rcases e with t | ⟨t, b⟩ | ⟨t, c⟩ | t | t <;> cases t <;> cases ph <;> simp [accStep] at hst ⊢
          subst hnil he
          simp at hk
        · have hp' : ph'.srcIntact = true := by cases ph' <;> simp_all [Ph.srcIntact]
          have hk' : k < r.length ∨ Effect.unlink .inp ∉ r := by
            rcases hk with hk | hk
            · exact Or.inl (by simpa using hk)
            · exact Or.inr (fun hm => hk (List.mem_cons_of_mem _ hm))
          simpa [exec] using ih ph' (step i o s e) ha' hp' (hs hp') k hk'

/-! ### the task model -/

theorem acc_writes (ws : List Nat) (rest : List Effect) :
    acc .opened (ws.map (Effect.write .out) ++ rest) = acc .opened rest := by
  induction ws with
  | nil => rfl
  | cons w ws ih => simpa [acc, accStep] using ih

theorem trace_accepted (t : Task) (fs : FS) : cliAccepts (t.trace fs) = true := by
  rw [cliAccepts_eq]
  unfold Task.trace
  split
  · rfl
  · cases t.remove <;> simp [acc, accStep, acc_writes, List.append_assoc]

theorem exec_writes (s : St) (ws : List Nat) :
    (exec i o s (ws.map (Effect.write .out))).fs o = some (((s.fs o).getD []) ++ ws) ∨ ws = [] := by
  induction ws generalizing s with
  | nil => exact Or.inr rfl
  | cons w ws ih =>
    left
    rcases ih (step i o s (.write .out w)) with h | h
    · simpa [exec, step, upd, tpath] using h
    · subst h; simp [exec, step, upd, tpath]

theorem exec_append (s : St) (a b : List Effect) : exec i o s (a ++ b) = exec i o (exec i o s a) b := by
  simp [exec, List.foldl_append]

/-- after the complete trace of a task that was not refused, the destination holds all chunks -/
theorem trace_output (t : Task) (fs : FS) (hio : t.inp ≠ t.out) (hne : t.trace fs ≠ []) :
    (exec t.inp t.out ⟨fs, false⟩ (t.trace fs)).fs t.out = some t.chunks := by
  unfold Task.trace at hne ⊢
  split at hne
  · exact absurd rfl hne
  · rename_i hc
    simp only [hc]
    have hoi : ¬ t.out = t.inp := fun h => hio h.symm
    rw [if_neg (by simp), exec_append, exec_append]
    rcases exec_writes (i := t.inp) (o := t.out)
        (exec t.inp t.out ⟨fs, false⟩ [.openWr .out (!t.force), .openRd .inp]) t.chunks with h | h
    · cases hr : t.remove <;> simp [exec, step, upd, tpath, hoi] at h ⊢ <;> exact h
    · cases hr : t.remove <;> simp [h, exec, step, upd, tpath, hoi]

end Kanzi.Cli
