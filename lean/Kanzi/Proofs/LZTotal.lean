/-
Proofs for the `lz` slice, part 4: the `Forward` model never faults (`C13_lz_total`): no read or write out of
range, no shortened copy, enough fuel.  The only non-trivial bound is the token buffer `tkBuf`, which is
allocated once with `max(count/5, 256)` entries and never grown: it suffices because every sequence covers
at least 5 source bytes, and THAT holds because the hash of a position is an injective function of its
fifth byte once the first four are fixed (`hash_fifth_byte`) - a 4-byte match can never come out of the table.
-/
import Kanzi.Proofs.LZFwd

namespace Kanzi.LZ

theorem Out.bind_ne_fault {α β : Type} {x : Out α} {f : α → Out β} (hx : ∀ e, x ≠ .fault e)
    (hf : ∀ a, x = .ok a → ∀ e, f a ≠ .fault e) : ∀ e, x.bind f ≠ .fault e := by
  intro e
  cases x with
  | ok a => exact hf a rfl e
  | err e' => simp
  | fault e' => exact absurd rfl (hx e')

/-! ## findMatch -/

theorem findMatchGo_nf (src : Array Nat) (i r mx : Nat) (hi : i + mx ≤ src.size) (hr : r ≤ i) :
    ∀ (f bl : Nat), mx < bl + 8 * f → ∀ e, findMatchGo src i r mx f bl ≠ .fault e := by
  intro f
  induction f with
  | zero =>
    intro bl hf e
    unfold findMatchGo
    rw [if_neg (by omega)]; simp
  | succ f ih =>
    intro bl hf e
    unfold findMatchGo
    split
    · rename_i h8
      rw [if_pos (by omega)]
      simp only []
      split
      · exact ih (bl + 8) (by omega) e
      · simp
    · simp

theorem findMatch_nf {src : Array Nat} {i r mx : Nat} (hi : i + mx ≤ src.size) (hr : r ≤ i) :
    ∀ e, findMatch src i r mx ≠ .fault e :=
  findMatchGo_nf src i r mx hi hr _ 0 (by omega)

theorem cmpN_max (src : Array Nat) : ∀ (k i r : Nat), cmpN src k i r < k →
    src.getD (i + cmpN src k i r) 0 ≠ src.getD (r + cmpN src k i r) 0 := by
  intro k
  induction k with
  | zero => intro i r h; simp [cmpN] at h
  | succ k ih =>
    intro i r h
    unfold cmpN at h ⊢
    split
    · rename_i heq
      rw [if_pos heq] at h
      have := ih (i + 1) (r + 1) (by omega)
      have e1 : i + (1 + cmpN src k (i + 1) (r + 1)) = i + 1 + cmpN src k (i + 1) (r + 1) := by omega
      have e2 : r + (1 + cmpN src k (i + 1) (r + 1)) = r + 1 + cmpN src k (i + 1) (r + 1) := by omega
      rw [e1, e2]; exact this
    · rename_i hne; simpa using hne

/-- a match length that is not a multiple of 8 was stopped by a differing byte -/
theorem findMatchGo_max (src : Array Nat) (i r mx : Nat) : ∀ (f bl L : Nat), bl % 8 = 0 →
    findMatchGo src i r mx f bl = .ok L → L % 8 ≠ 0 → src.getD (i + L) 0 ≠ src.getD (r + L) 0 := by
  intro f
  induction f with
  | zero =>
    intro bl L hb h hL
    unfold findMatchGo at h
    split at h
    · simp at h
    · injection h with h; omega
  | succ f ih =>
    intro bl L hb h hL
    unfold findMatchGo at h
    split at h
    · split at h
      · simp only [] at h
        split at h
        · exact ih (bl + 8) L (by omega) h hL
        · rename_i hc
          injection h with h; subst h
          have h1 := (cmpN_spec src 8 (i + bl) (r + bl)).1
          have := cmpN_max src 8 (i + bl) (r + bl) (by omega)
          simpa [Nat.add_assoc] using this
      · simp at h
    · injection h with h; omega

theorem findMatch_max {src : Array Nat} {i r mx L : Nat} (h : findMatch src i r mx = .ok L) (hL : L % 8 ≠ 0) :
    src.getD (i + L) 0 ≠ src.getD (r + L) 0 :=
  findMatchGo_max src i r mx _ 0 L rfl h hL

/-! ## the candidate stages never fault -/

theorem le32_some {src : Array Nat} {i : Nat} (h : i + 4 ≤ src.size) : ∃ w, le32 src i = some w := by
  unfold le32; rw [if_pos h]; exact ⟨_, rfl⟩

theorem le64_some {src : Array Nat} {i : Nat} (h : i + 8 ≤ src.size) : ∃ w, le64 src i = some w := by
  unfold le64; rw [if_pos h]; exact ⟨_, rfl⟩

theorem repCand_nf {c : Cfg} {p : UInt64} {srcIdx1 minRef r : Nat} (h : srcIdx1 + 4 ≤ c.src.size) :
    ∀ e, repCand c p srcIdx1 minRef r ≠ .fault e := by
  intro e
  unfold repCand
  split
  · obtain ⟨w, hw⟩ := le32_some (src := c.src) (i := srcIdx1 - r) (by omega)
    rw [hw]; simp only []; split <;> simp
  · simp

theorem repStage_nf {c : Cfg} (hc : CfgOK c) {p : UInt64} {srcIdx ra rb : Nat} (hlt : srcIdx < c.srcEnd) :
    ∀ e, repStage c p (srcIdx + 1) (srcIdx - c.maxDist) (min (c.srcEnd - (srcIdx + 1)) MAX_MATCH) ra rb ≠ .fault e := by
  have hsz := hc.size
  have key : ∀ (r ref : Nat), ref = srcIdx + 1 - r → ∀ e,
      ((findMatch c.src (srcIdx + 1) ref (min (c.srcEnd - (srcIdx + 1)) MAX_MATCH)).bind
        (fun bl => (Out.ok (ref, bl) : Out (Nat × Nat)))) ≠ .fault e := by
    intro r ref href
    apply Out.bind_ne_fault (findMatch_nf (by omega) (by omega))
    intro a _ e; simp
  unfold repStage
  apply Out.bind_ne_fault (repCand_nf (by omega))
  intro ca hca
  cases ca with
  | some ref => exact key _ ref (repCand_spec hca ref rfl).1
  | none =>
    simp only []
    apply Out.bind_ne_fault (repCand_nf (by omega))
    intro cb hcb
    cases cb with
    | some ref => exact key _ ref (repCand_spec hcb ref rfl).1
    | none => intro e; simp

theorem hashStage_nf {c : Cfg} (hc : CfgOK c) {p : UInt64} {srcIdx ref0 : Nat} (hlt : srcIdx < c.srcEnd)
    (hback : ref0 = 0 ∨ ref0 < srcIdx) : ∀ e, hashStage c p srcIdx ref0 (srcIdx - c.maxDist) ≠ .fault e := by
  have hsz := hc.size
  intro e
  unfold hashStage
  split
  · obtain ⟨w, hw⟩ := le32_some (src := c.src) (i := ref0) (by omega)
    rw [hw]; simp only []
    split
    · exact findMatch_nf (by omega) (by omega) e
    · simp
  · simp

theorem lazyCand_nf {c : Cfg} (hc : CfgOK c) {tbl : Array Nat} {s0 k : Nat} {cur : Mt}
    (ht : TblLt tbl (s0 + k)) (hcur : Cand c cur) (hpos : s0 + k ≤ cur.srcIdx + 2) (hs : s0 < c.srcEnd) (hk : k ≤ 2)
    (hbl : 3 ≤ cur.bestLen) : ∀ e, lazyCand c tbl (s0 + k) k (s0 - c.maxDist) cur ≠ .fault e := by
  have hsz := hc.size
  have hfin := hcur.fin
  intro e
  unfold lazyCand
  obtain ⟨v, hv⟩ := le64_some (src := c.src) (i := s0 + k) (by omega)
  rw [hv]; simp only []
  have hr := ht (hashOf c.extra v)
  split
  · rename_i hgt
    obtain ⟨a, ha⟩ := le32_some (src := c.src) (i := s0 + k + cur.bestLen - 3) (by omega)
    obtain ⟨b, hb⟩ := le32_some (src := c.src) (i := tbl.getD (hashOf c.extra v) 0 + cur.bestLen - 3) (by omega)
    rw [ha, hb]; simp only []
    split
    · apply Out.bind_ne_fault (findMatch_nf (by omega) (by omega))
      intro bl _ e; split <;> simp
    · simp
  · simp

theorem backExtend_nf {c : Cfg} {anchor minRef : Nat} : ∀ (f : Nat) (m : Mt), m.srcIdx ≤ anchor + f →
    m.srcIdx ≤ c.src.size → m.ref < m.srcIdx → ∀ e, backExtend c anchor minRef f m ≠ .fault e := by
  intro f
  induction f with
  | zero =>
    intro m h1 h2 h3 e
    unfold backExtend
    rw [if_neg (by omega)]; simp
  | succ f ih =>
    intro m h1 h2 h3 e
    unfold backExtend
    split
    · rename_i hg
      have ha : c.src[m.srcIdx - 1]? = some (c.src[m.srcIdx - 1]'(by omega)) := Array.getElem?_eq_getElem (by omega)
      have hb : c.src[m.ref - 1]? = some (c.src[m.ref - 1]'(by omega)) := Array.getElem?_eq_getElem (by omega)
      rw [ha, hb]; simp only []
      split
      · exact ih _ (by simp only []; omega) (by simp only []; omega) (by simp only []; omega) e
      · simp
    · simp

theorem fill4_nf {c : Cfg} (hc : CfgOK c) {anchor : Nat} (ha : anchor ≤ c.srcEnd) : ∀ (f i : Nat) (tbl : Array Nat),
    anchor ≤ i + 4 * f + 4 → ∀ e, fill4 c anchor f i tbl ≠ .fault e := by
  have hsz := hc.size
  intro f
  induction f with
  | zero =>
    intro i tbl h e
    unfold fill4
    rw [if_neg (by omega)]; simp
  | succ f ih =>
    intro i tbl h e
    unfold fill4
    split
    · obtain ⟨v, hv⟩ := le64_some (src := c.src) (i := i + 4 - 3) (by omega)
      rw [hv]; simp only []
      exact ih (i + 4) _ (by omega) e
    · simp

theorem fill1_nf {c : Cfg} (hc : CfgOK c) {anchor : Nat} (ha : anchor ≤ c.srcEnd) : ∀ (f i : Nat) (tbl : Array Nat),
    anchor ≤ i + f → ∀ e, fill1 c anchor f i tbl ≠ .fault e := by
  have hsz := hc.size
  intro f
  induction f with
  | zero =>
    intro i tbl h e
    unfold fill1
    rw [if_neg (by omega)]; simp
  | succ f ih =>
    intro i tbl h e
    unfold fill1
    split
    · obtain ⟨v, hv⟩ := le64_some (src := c.src) (i := i) (by omega)
      rw [hv]; simp only []
      exact ih (i + 1) _ (by omega) e
    · simp

/-! ## the hash function -/

/-- `binary.LittleEndian.Uint64(src[i:])` without the bounds check -/
def wordAt (src : Array Nat) (i : Nat) : UInt64 :=
  byteU src i ||| (byteU src (i + 1) <<< 8) ||| (byteU src (i + 2) <<< 16) ||| (byteU src (i + 3) <<< 24)
      ||| (byteU src (i + 4) <<< 32) ||| (byteU src (i + 5) <<< 40) ||| (byteU src (i + 6) <<< 48)
      ||| (byteU src (i + 7) <<< 56)

theorem le64_wordAt {src : Array Nat} {i : Nat} {w : UInt64} (h : le64 src i = some w) : w = wordAt src i := by
  unfold le64 at h
  split at h
  · injection h with h; rw [← h]; rfl
  · simp at h

theorem or_shl (lo hi i : Nat) (h : lo < 2 ^ i) : lo ||| (hi <<< i) = lo + hi * 2 ^ i := by
  rw [Nat.or_comm, ← Nat.shiftLeft_add_eq_or_of_lt h, Nat.shiftLeft_eq]; omega

/-- all entries are byte values -/
def Bytes (src : Array Nat) : Prop := ∀ i, src.getD i 0 < 256

theorem wordAt_toNat {src : Array Nat} (hb : Bytes src) (i : Nat) :
    (wordAt src i).toNat = src.getD i 0 + src.getD (i + 1) 0 * 2 ^ 8 + src.getD (i + 2) 0 * 2 ^ 16 +
      src.getD (i + 3) 0 * 2 ^ 24 + src.getD (i + 4) 0 * 2 ^ 32 + src.getD (i + 5) 0 * 2 ^ 40 +
      src.getD (i + 6) 0 * 2 ^ 48 + src.getD (i + 7) 0 * 2 ^ 56 := by
  have h0 := hb i; have h1 := hb (i + 1); have h2 := hb (i + 2); have h3 := hb (i + 3)
  have h4 := hb (i + 4); have h5 := hb (i + 5); have h6 := hb (i + 6); have h7 := hb (i + 7)
  unfold wordAt byteU
  simp only [UInt64.toNat_or, UInt64.toNat_shiftLeft, UInt64.toNat_ofNat', UInt64.toNat_ofNat]
  generalize src.getD i 0 = b0 at *
  generalize src.getD (i + 1) 0 = b1 at *
  generalize src.getD (i + 2) 0 = b2 at *
  generalize src.getD (i + 3) 0 = b3 at *
  generalize src.getD (i + 4) 0 = b4 at *
  generalize src.getD (i + 5) 0 = b5 at *
  generalize src.getD (i + 6) 0 = b6 at *
  generalize src.getD (i + 7) 0 = b7 at *
  have e8 : ∀ b, b < 256 → (b % 2 ^ 64) <<< 8 % 2 ^ 64 = b * 2 ^ 8 := by
    intro b hb; rw [Nat.mod_eq_of_lt (by omega), Nat.shiftLeft_eq]; omega
  have e16 : ∀ b, b < 256 → (b % 2 ^ 64) <<< 16 % 2 ^ 64 = b * 2 ^ 16 := by
    intro b hb; rw [Nat.mod_eq_of_lt (by omega), Nat.shiftLeft_eq]; omega
  have e24 : ∀ b, b < 256 → (b % 2 ^ 64) <<< 24 % 2 ^ 64 = b * 2 ^ 24 := by
    intro b hb; rw [Nat.mod_eq_of_lt (by omega), Nat.shiftLeft_eq]; omega
  have e32 : ∀ b, b < 256 → (b % 2 ^ 64) <<< 32 % 2 ^ 64 = b * 2 ^ 32 := by
    intro b hb; rw [Nat.mod_eq_of_lt (by omega), Nat.shiftLeft_eq]; omega
  have e40 : ∀ b, b < 256 → (b % 2 ^ 64) <<< 40 % 2 ^ 64 = b * 2 ^ 40 := by
    intro b hb; rw [Nat.mod_eq_of_lt (by omega), Nat.shiftLeft_eq]; omega
  have e48 : ∀ b, b < 256 → (b % 2 ^ 64) <<< 48 % 2 ^ 64 = b * 2 ^ 48 := by
    intro b hb; rw [Nat.mod_eq_of_lt (by omega), Nat.shiftLeft_eq]; omega
  have e56 : ∀ b, b < 256 → (b % 2 ^ 64) <<< 56 % 2 ^ 64 = b * 2 ^ 56 := by
    intro b hb; rw [Nat.mod_eq_of_lt (by omega), Nat.shiftLeft_eq]; omega
  skip
  rw [e8 b1 h1, e16 b2 h2, e24 b3 h3, e32 b4 h4, e40 b5 h5, e48 b6 h6, e56 b7 h7, Nat.mod_eq_of_lt (by omega : b0 < 2 ^ 64)]
  rw [← Nat.shiftLeft_eq b1 8, or_shl _ b1 8 (by omega)]
  rw [← Nat.shiftLeft_eq b2 16, or_shl _ b2 16 (by omega)]
  rw [← Nat.shiftLeft_eq b3 24, or_shl _ b3 24 (by omega)]
  rw [← Nat.shiftLeft_eq b4 32, or_shl _ b4 32 (by omega)]
  rw [← Nat.shiftLeft_eq b5 40, or_shl _ b5 40 (by omega)]
  rw [← Nat.shiftLeft_eq b6 48, or_shl _ b6 48 (by omega)]
  rw [← Nat.shiftLeft_eq b7 56, or_shl _ b7 56 (by omega)]
  simp only [Nat.shiftLeft_eq]


/-- the hash as a function of the low 40 bits of the word (Nat arithmetic) -/
def hashN (extra : Bool) (w : Nat) : Nat :=
  if extra then (w * 16777216 % 18446744073709551616 * 506832829 % 18446744073709551616) / 35184372088832
  else (w * 16777216 % 18446744073709551616 * 506832829 % 18446744073709551616) / 281474976710656

theorem hashOf_toNat (extra : Bool) (v : UInt64) : hashOf extra v = hashN extra v.toNat := by
  unfold hashOf hashN HASH_SEED
  cases extra
  · simp only [Bool.false_eq_true, if_false, UInt64.toNat_shiftRight, UInt64.toNat_mul, UInt64.toNat_shiftLeft,
      UInt64.toNat_ofNat, Nat.shiftLeft_eq, Nat.shiftRight_eq_div_pow, Nat.reducePow, Nat.reduceMod]
  · simp only [if_true, UInt64.toNat_shiftRight, UInt64.toNat_mul, UInt64.toNat_shiftLeft,
      UInt64.toNat_ofNat, Nat.shiftLeft_eq, Nat.shiftRight_eq_div_pow, Nat.reducePow, Nat.reduceMod]

theorem hashN_mod (extra : Bool) (w : Nat) : hashN extra w = hashN extra (w % 1099511627776) := by
  unfold hashN
  have : w * 16777216 % 18446744073709551616 = w % 1099511627776 * 16777216 % 18446744073709551616 := by omega
  rw [this]

/-- the five bytes the hash of position `i` depends on -/
def lo40 (src : Array Nat) (i : Nat) : Nat :=
  src.getD i 0 + src.getD (i + 1) 0 * 256 + src.getD (i + 2) 0 * 65536 + src.getD (i + 3) 0 * 16777216 +
    src.getD (i + 4) 0 * 4294967296

/-- the hash fill loop after a match computes the hashes of four consecutive positions from one word -/
theorem hashOf_wordAt {src : Array Nat} (hb : Bytes src) (extra : Bool) (i : Nat) :
    hashOf extra (wordAt src i) = hashN extra (lo40 src i) ∧
    hashOf extra (wordAt src i >>> 8) = hashN extra (lo40 src (i + 1)) ∧
    hashOf extra (wordAt src i >>> 16) = hashN extra (lo40 src (i + 2)) ∧
    hashOf extra (wordAt src i >>> 24) = hashN extra (lo40 src (i + 3)) := by
  have h0 := hb i; have h1 := hb (i + 1); have h2 := hb (i + 2); have h3 := hb (i + 3)
  have h4 := hb (i + 4); have h5 := hb (i + 5); have h6 := hb (i + 6); have h7 := hb (i + 7)
  simp only [hashOf_toNat, UInt64.toNat_shiftRight, wordAt_toNat hb, lo40, Nat.shiftRight_eq_div_pow, UInt64.toNat_ofNat,
    show (8 : Nat) % 2 ^ 64 % 64 = 8 from by decide, show (16 : Nat) % 2 ^ 64 % 64 = 16 from by decide,
    show (24 : Nat) % 2 ^ 64 % 64 = 24 from by decide, Nat.reducePow]
  generalize src.getD i 0 = b0 at *
  generalize src.getD (i + 1) 0 = b1 at *
  generalize src.getD (i + 2) 0 = b2 at *
  generalize src.getD (i + 3) 0 = b3 at *
  generalize src.getD (i + 4) 0 = b4 at *
  generalize src.getD (i + 5) 0 = b5 at *
  generalize src.getD (i + 6) 0 = b6 at *
  generalize src.getD (i + 7) 0 = b7 at *
  refine ⟨?_, ?_, ?_, ?_⟩
  · rw [hashN_mod]; congr 1; omega
  · rw [hashN_mod]; congr 1
    simp only [Nat.add_assoc]
    show _ = b1 + (b2 * 256 + (b3 * 65536 + (b4 * 16777216 + b5 * 4294967296)))
    omega
  · rw [hashN_mod]; congr 1
    simp only [Nat.add_assoc]
    show _ = b2 + (b3 * 256 + (b4 * 65536 + (b5 * 16777216 + b6 * 4294967296)))
    omega
  · rw [hashN_mod]; congr 1
    simp only [Nat.add_assoc]
    show _ = b3 + (b4 * 256 + (b5 * 65536 + (b6 * 16777216 + b7 * 4294967296)))
    omega

theorem hash_top8 (u a : Nat) :
    ((u * 16777216 + a * 36521154237176549101010944) % 18446744073709551616) / 72057594037927936 = (u / 4294967296 + a * 506832829) % 256 := by omega

theorem hash_expand (l a : Nat) (hl : l < 4294967296) (ha : a < 256) :
    (l + a * 4294967296) * 16777216 % 18446744073709551616 * 506832829 = (l * 506832829) * 16777216 + a * 36521154237176549101010944 := by omega

theorem div_coarsen48 (p q : Nat) (h : p / 281474976710656 = q / 281474976710656) :
    p / 72057594037927936 = q / 72057594037927936 := by omega

theorem div_coarsen45 (p q : Nat) (h : p / 35184372088832 = q / 35184372088832) :
    p / 72057594037927936 = q / 72057594037927936 := by omega

theorem seed_cancel (t a b : Nat) (ha : a < 256) (hb : b < 256)
    (h : (t + a * 506832829) % 256 = (t + b * 506832829) % 256) : a = b := by omega

/-- with the first four bytes fixed the hash is an injective function of the fifth byte
    (`_LZX_HASH_SEED` is odd and the fifth byte only reaches the top 8 bits of the 40-bit product) -/
theorem hash_fifth_byte (extra : Bool) (l a b : Nat) (hl : l < 4294967296) (ha : a < 256) (hb : b < 256)
    (h : hashN extra (l + a * 4294967296) = hashN extra (l + b * 4294967296)) : a = b := by
  unfold hashN at h
  have hq : (l * 506832829 * 16777216 + a * 36521154237176549101010944) % 18446744073709551616 / 72057594037927936
      = (l * 506832829 * 16777216 + b * 36521154237176549101010944) % 18446744073709551616 / 72057594037927936 := by
    cases extra
    · simp only [Bool.false_eq_true, if_false] at h
      rw [hash_expand l a hl ha, hash_expand l b hl hb] at h
      exact div_coarsen48 _ _ h
    · simp only [if_true] at h
      rw [hash_expand l a hl ha, hash_expand l b hl hb] at h
      exact div_coarsen45 _ _ h
  exact seed_cancel _ a b ha hb ((hash_top8 (l * 506832829) a).symm.trans (hq.trans (hash_top8 (l * 506832829) b)))


/-! ## the table holds positions under their own hash; table matches have at least 5 bytes -/

/-- slot `h` only ever holds positions whose hash is `h` -/
def TblH (c : Cfg) (tbl : Array Nat) : Prop :=
  ∀ h, tbl.getD h 0 ≠ 0 → hashN c.extra (lo40 c.src (tbl.getD h 0)) = h

theorem TblH_set {c : Cfg} {tbl : Array Nat} (pos : Nat) (ht : TblH c tbl) :
    TblH c (tbl.setIfInBounds (hashN c.extra (lo40 c.src pos)) pos) := by
  intro h hne
  rw [Array.getD_eq_getD_getElem?, Array.getElem?_setIfInBounds] at hne ⊢
  split at hne
  · rename_i heq
    rw [if_pos heq] 
    split at hne
    · rename_i hin
      rw [if_pos hin]; simpa using heq
    · simp at hne
  · rename_i heq
    rw [if_neg heq]
    have := ht h
    rw [Array.getD_eq_getD_getElem?] at this
    exact this hne

theorem TblH_replicate (c : Cfg) (n : Nat) : TblH c (Array.replicate n 0) := by
  intro h hne
  exfalso; apply hne
  rw [Array.getD_eq_getD_getElem?, Array.getElem?_replicate]
  split <;> rfl

theorem hashOf_le64 {c : Cfg} (hb : Bytes c.src) {i : Nat} {v : UInt64} (h : le64 c.src i = some v) :
    hashOf c.extra v = hashN c.extra (lo40 c.src i) := by
  rw [le64_wordAt h]; exact (hashOf_wordAt hb c.extra i).1

/-- two positions with the same hash and the same first four bytes have the same fifth byte, so a match
    found through the table is never exactly 4, 12, 20 ... bytes long because of its fifth byte; with a
    length of at least 4 it has at least 5 -/
theorem hash_match_ge5 {c : Cfg} (hb : Bytes c.src) {i r L mx : Nat}
    (hh : hashN c.extra (lo40 c.src i) = hashN c.extra (lo40 c.src r))
    (hf : findMatch c.src i r mx = .ok L) (h4 : 4 ≤ L) : 5 ≤ L := by
  by_cases h5 : 5 ≤ L
  · exact h5
  · exfalso
    have hL : L = 4 := by omega
    subst hL
    obtain ⟨_, hs⟩ := findMatch_spec hf
    have hm := findMatch_max hf (by omega)
    have s0 := hs 0 (by omega); have s1 := hs 1 (by omega); have s2 := hs 2 (by omega); have s3 := hs 3 (by omega)
    simp only [Nat.add_zero] at s0
    unfold lo40 at hh
    rw [s0, s1, s2, s3] at hh
    have b0 := hb r; have b1 := hb (r + 1); have b2 := hb (r + 2); have b3 := hb (r + 3)
    have := hash_fifth_byte c.extra
      (c.src.getD r 0 + c.src.getD (r + 1) 0 * 256 + c.src.getD (r + 2) 0 * 65536 + c.src.getD (r + 3) 0 * 16777216)
      (c.src.getD (i + 4) 0) (c.src.getD (r + 4) 0) (by omega) (hb _) (hb _) hh
    exact hm this

theorem fill4_H {c : Cfg} (hb : Bytes c.src) {anchor : Nat} : ∀ (f i : Nat) (tbl : Array Nat) (r : Nat × Array Nat),
    TblH c tbl → fill4 c anchor f i tbl = .ok r → TblH c r.2 ∧ i ≤ r.1 := by
  intro f
  induction f with
  | zero =>
    intro i tbl r ht h
    unfold fill4 at h
    split at h
    · simp at h
    · injection h with h; subst h; exact ⟨ht, Nat.le_refl _⟩
  | succ f ih =>
    intro i tbl r ht h
    unfold fill4 at h
    split at h
    · split at h
      · simp at h
      · rename_i v hv
        simp only [] at h
        have hw := le64_wordAt hv
        obtain ⟨w0, w1, w2, w3⟩ := hashOf_wordAt hb c.extra (i + 4 - 3)
        rw [hw, w0, w1, w2, w3] at h
        have e1 : i + 4 - 3 + 1 = i + 4 - 2 := by omega
        have e2 : i + 4 - 3 + 2 = i + 4 - 1 := by omega
        have e3 : i + 4 - 3 + 3 = i + 4 := by omega
        rw [e1, e2, e3] at h
        obtain ⟨k1, k2⟩ := ih (i + 4) _ r (TblH_set _ (TblH_set _ (TblH_set _ (TblH_set _ ht)))) h
        exact ⟨k1, by omega⟩
    · injection h with h; subst h; exact ⟨ht, Nat.le_refl _⟩

theorem fill1_H {c : Cfg} (hb : Bytes c.src) {anchor : Nat} : ∀ (f i : Nat) (tbl : Array Nat) (r : Nat × Array Nat),
    TblH c tbl → fill1 c anchor f i tbl = .ok r → TblH c r.2 := by
  intro f
  induction f with
  | zero =>
    intro i tbl r ht h
    unfold fill1 at h
    split at h
    · simp at h
    · injection h with h; subst h; exact ht
  | succ f ih =>
    intro i tbl r ht h
    unfold fill1 at h
    split at h
    · split at h
      · simp at h
      · rename_i v hv
        rw [hashOf_le64 hb hv] at h
        exact ih (i + 1) _ r (TblH_set _ ht) h
    · injection h with h; subst h; exact ht

theorem lazyCand_H {c : Cfg} (hb : Bytes c.src) {tbl tbl' : Array Nat} {pos k minRef : Nat} {cur m' : Mt}
    (ht : TblH c tbl) (h : lazyCand c tbl pos k minRef cur = .ok (tbl', m')) : TblH c tbl' := by
  unfold lazyCand at h
  split at h
  · simp at h
  · rename_i v hv
    simp only [] at h
    rw [hashOf_le64 hb hv] at h
    have ht' := TblH_set (c := c) pos ht
    split at h
    · split at h
      · split at h
        · obtain ⟨bl, _, h⟩ := Out.bind_eq_ok h
          split at h <;> (injection h with h; injection h with h1 h2; subst h1; exact ht')
        · injection h with h; injection h with h1 h2; subst h1; exact ht'
      · simp at h
    · injection h with h; injection h with h1 h2; subst h1; exact ht'

/-! ## buffer bounds -/

/-- the constants of a call as `lzForward` sets them up -/
structure CfgT (c : Cfg) : Prop where
  ok : CfgOK c
  bytes : Bytes c.src
  tkc : c.tkCap = max (c.src.size / 5) 256
  dst : c.src.size + 16 ≤ c.dstLen

/-- sizes of the four sections relative to the anchor, and the capacities of the side buffers -/
structure BInv (c : Cfg) (s : FSt) (b : Bufs) : Prop where
  lit : b.lit.size ≤ s.anchor
  tk : 5 * b.tk.size ≤ s.anchor
  m : b.m.size + 8 < b.mCap
  mc : 256 ≤ b.mCap
  ml : 7 * b.ml.size ≤ s.anchor
  mlc : c.tkCap ≤ b.mlCap

theorem pushCap_nf {cap : Nat} {buf : Array Nat} {bs : List Nat} {w : String} (h : buf.size + bs.length ≤ cap) :
    ∀ e, pushCap cap buf bs w ≠ .fault e := by
  intro e; unfold pushCap; rw [if_pos (Or.inr h)]; simp

theorem distCode_len (d r0 r1 : Nat) : (distCode d r0 r1).2.2.length ≤ 3 := by
  unfold distCode
  split
  · simp
  · split
    · simp
    · split
      · split <;> simp
      · simp

theorem distCode_th_ge (d r0 r1 : Nat) : 3 ≤ (distCode d r0 r1).2.1 := by
  rw [distCode_th]; split <;> omega

theorem emitSeq_nf {c : Cfg} {b : Bufs} {r0 r1 anchor srcIdx dist bestLen : Nat} (ht : CfgT c)
    (hlit : b.lit.size ≤ anchor) (ha : anchor ≤ srcIdx) (hs : srcIdx ≤ c.srcEnd)
    (htk : b.tk.size + 1 ≤ c.tkCap) (hm : b.m.size + 3 ≤ b.mCap) (hml : b.ml.size + 4 ≤ b.mlCap) :
    ∀ e, emitSeq c b r0 r1 anchor srcIdx dist bestLen ≠ .fault e := by
  have hsz := ht.ok.size
  have hdst := ht.dst
  unfold emitSeq
  simp only []
  apply Out.bind_ne_fault (pushCap_nf (by have := distCode_len dist r0 r1; omega))
  intro m _
  apply Out.bind_ne_fault
  · intro e
    split
    · exact pushCap_nf (by have := (emitLength_length_le (bestLen - c.minMatch - (distCode dist r0 r1).2.1)).2; omega) e
    · simp
  intro ml _ e
  split
  · simp
  · revert e
    apply Out.bind_ne_fault (pushCap_nf (by simpa using htk))
    intro tk _
    have h4 := (emitLength_length_le (srcIdx - anchor - 7)).2
    apply Out.bind_ne_fault
    · intro e
      split
      · rw [if_pos (by omega)]; simp
      · simp
    intro lit1 hl1
    have hl1s : lit1.size ≤ b.lit.size + 4 := by
      split at hl1
      · rw [if_pos (by omega)] at hl1
        injection hl1 with hl1; rw [← hl1, size_appendList]; omega
      · injection hl1 with hl1; rw [← hl1]; omega
    apply Out.bind_ne_fault
    · intro e
      split
      · simp
      · rw [if_neg (by omega), if_neg (by omega)]; simp
    intro lit2 _ e
    simp

/-- sizes after one more sequence -/
theorem emitSeq_sizes {c : Cfg} {b b' : Bufs} {r0 r1 anchor srcIdx dist bestLen : Nat} (hmm : 4 ≤ c.minMatch)
    (ha : anchor ≤ srcIdx) (hs : srcIdx ≤ c.src.size) (h : emitSeq c b r0 r1 anchor srcIdx dist bestLen = .ok b') :
    b'.lit.size ≤ b.lit.size + (srcIdx - anchor) + 4 ∧ b'.tk.size = b.tk.size + 1 ∧ b'.m.size ≤ b.m.size + 3 ∧
      7 * b'.ml.size ≤ 7 * b.ml.size + bestLen ∧
      b'.mCap = (if b'.m.size + 8 ≥ b.mCap then b.mCap + b.mCap / 2 else b.mCap) ∧ b.mlCap ≤ b'.mlCap := by
  obtain ⟨e1, e2, e3, e4, _, e6, e7⟩ := emitSeq_spec ha hs h
  have hlen : (c.src.extract anchor srcIdx).toList.length = srcIdx - anchor := by
    simp only [Array.length_toList, Array.size_extract]; omega
  have l1 := congrArg List.length e1
  have l2 := congrArg List.length e2
  have l3 := congrArg List.length e3
  have l4 := congrArg List.length e4
  simp only [Array.length_toList, List.length_append, List.length_cons, List.length_nil, litBytes_length, hlen] at l1 l2 l3 l4
  refine ⟨?_, l2, ?_, ?_, e6, e7⟩
  · rw [l1]
    have := (emitLength_length_le (srcIdx - anchor - 7)).2
    split <;> omega
  · rw [l3]; unfold seqM; have := distCode_len dist r0 r1; simp only [] at this ⊢; omega
  · rw [l4]; unfold seqMl
    simp only []
    have hth := distCode_th_ge dist r0 r1
    split
    · rename_i hge
      rw [emitLength_length]
      split
      · omega
      · split <;> omega
    · simp

/-! ## emitMatch -/

theorem fill4_ge {c : Cfg} {anchor : Nat} : ∀ (f i : Nat) (tbl : Array Nat) (r : Nat × Array Nat),
    fill4 c anchor f i tbl = .ok r → i ≤ r.1 := by
  intro f
  induction f with
  | zero =>
    intro i tbl r h
    unfold fill4 at h
    split at h
    · simp at h
    · injection h with h; subst h; exact Nat.le_refl _
  | succ f ih =>
    intro i tbl r h
    unfold fill4 at h
    split at h
    · split at h
      · simp at h
      · simp only [] at h
        have := ih (i + 4) _ r h
        omega
    · injection h with h; subst h; exact Nat.le_refl _

theorem emitMatch_nf {c : Cfg} (ht : CfgT c) {tbl : Array Nat} {s : FSt} {b : Bufs} {mt : Mt} (hb : BInv c s b)
    (ha : s.anchor ≤ mt.srcIdx) (hfin : mt.srcIdx + mt.bestLen ≤ c.srcEnd) :
    ∀ e, emitMatch c tbl s b mt ≠ .fault e := by
  have hsz := ht.ok.size
  have htk := ht.tkc
  have h1 := hb.lit; have h2 := hb.tk; have h3 := hb.m; have h5 := hb.ml; have h6 := hb.mlc
  unfold emitMatch
  simp only []
  apply Out.bind_ne_fault (emitSeq_nf ht h1 ha (by omega) (by omega) (by omega) (by omega))
  intro b' _
  apply Out.bind_ne_fault (fill4_nf ht.ok hfin _ _ _ (by omega))
  intro r4 hr4
  have hge := fill4_ge _ _ _ _ hr4
  apply Out.bind_ne_fault (fill1_nf ht.ok hfin _ _ _ (by omega))
  intro r1 _ e
  simp

/-- the bounds after one more sequence that covers at least 5 bytes -/
theorem emitMatch_bounds {c : Cfg} (ht : CfgT c) {tbl tbl' : Array Nat} {s s' : FSt} {b b' : Bufs} {mt : Mt}
    (hb : BInv c s b) (ha : s.anchor ≤ mt.srcIdx) (hfin : mt.srcIdx + mt.bestLen ≤ c.srcEnd)
    (hmin : c.minMatch ≤ mt.bestLen) (hspan : s.anchor + 5 ≤ mt.srcIdx + mt.bestLen) (hH : TblH c tbl)
    (h : emitMatch c tbl s b mt = .ok (tbl', s', b')) :
    BInv c s' b' ∧ TblH c tbl' ∧ s'.anchor = mt.srcIdx + mt.bestLen := by
  have hsz := ht.ok.size
  have hmm := ht.ok.mm4
  unfold emitMatch at h
  simp only [] at h
  obtain ⟨b1, hb1, h⟩ := Out.bind_eq_ok h
  obtain ⟨r4, hr4, h⟩ := Out.bind_eq_ok h
  obtain ⟨r1, hr1, h⟩ := Out.bind_eq_ok h
  injection h with h; injection h with h1 h2; injection h2 with h2 h3
  subst h1; subst h2; subst h3
  obtain ⟨z1, z2, z3, z4, z5, z6⟩ := emitSeq_sizes hmm ha (by omega) hb1
  have h1 := hb.lit; have h2 := hb.tk; have h3 := hb.m; have h4 := hb.mc; have h5 := hb.ml; have h6 := hb.mlc
  refine ⟨⟨by simp only []; omega, by simp only []; omega, ?_, ?_, by simp only []; omega, by omega⟩,
    fill1_H ht.bytes _ _ _ _ (fill4_H ht.bytes _ _ _ _ hH hr4).1 hr1, rfl⟩
  · rw [z5]; split <;> omega
  · rw [z5]; split <;> omega

/-! ## one iteration of the main loop -/

theorem hashStage_pos {c : Cfg} {p : UInt64} {srcIdx ref0 minRef bl : Nat}
    (h : hashStage c p srcIdx ref0 minRef = .ok bl) (hnz : bl ≠ 0) :
    0 < ref0 ∧ findMatch c.src srcIdx ref0 (min (c.srcEnd - srcIdx) MAX_MATCH) = .ok bl := by
  unfold hashStage at h
  split at h
  · split at h
    · simp at h
    · split at h
      · exact ⟨by omega, h⟩
      · injection h with h; omega
  · injection h with h; omega

theorem lazyBlock_H {c : Cfg} (hb : Bytes c.src) {tbl1 : Array Nat} {s0 r0 r1 ref0 bl0 minRef : Nat} {lz : Array Nat × Mt}
    (ht : TblH c tbl1)
    (h : (if ref0 + r0 ≠ s0 ∧ ref0 + r1 ≠ s0 then
            (lazyCand c tbl1 (s0 + 1) 1 minRef ⟨s0, ref0, bl0⟩).bind fun l1 =>
              if c.extra then lazyCand c l1.1 (s0 + 1 + 1) 2 minRef l1.2 else Out.ok l1
          else Out.ok (tbl1, ⟨s0, ref0, bl0⟩)) = .ok lz) : TblH c lz.1 := by
  split at h
  · obtain ⟨l1, hl1, h⟩ := Out.bind_eq_ok h
    have a1 := lazyCand_H (tbl' := l1.1) (m' := l1.2) hb ht hl1
    split at h
    · exact lazyCand_H (tbl' := lz.1) (m' := lz.2) hb a1 h
    · injection h with h; subst h; exact a1
  · injection h with h; subst h; exact ht

theorem lazyBlock_nf {c : Cfg} (hc : CfgOK c) {tbl1 : Array Nat} {s0 r0 r1 ref0 bl0 : Nat}
    (ht : TblLt tbl1 (s0 + 1)) (hcur : Cand c ⟨s0, ref0, bl0⟩) (hbl : 3 ≤ bl0) (hs : s0 < c.srcEnd) :
    ∀ e, (if ref0 + r0 ≠ s0 ∧ ref0 + r1 ≠ s0 then
            (lazyCand c tbl1 (s0 + 1) 1 (s0 - c.maxDist) ⟨s0, ref0, bl0⟩).bind fun l1 =>
              if c.extra then lazyCand c l1.1 (s0 + 1 + 1) 2 (s0 - c.maxDist) l1.2 else Out.ok l1
          else Out.ok (tbl1, ⟨s0, ref0, bl0⟩)) ≠ .fault e := by
  intro e
  split
  · revert e
    apply Out.bind_ne_fault (lazyCand_nf hc ht hcur (by simp only []; omega) hs (by omega) hbl)
    intro l1 hl1 e
    obtain ⟨a1, a2, a3, a4⟩ := lazyCand_spec (tbl' := l1.1) (m' := l1.2) ht hcur (by simp only []; omega) hl1
    simp only [] at a3
    split
    · have e2 : s0 + 1 + 1 = s0 + 2 := rfl
      rw [e2] at a1 ⊢
      refine lazyCand_nf hc a1 a2 ?_ hs (by omega) (by omega) e
      rcases a4 with a4 | a4
      · rw [a4]; simp only []; omega
      · omega
    · simp
  · simp

/-- bounds, table and progress after one iteration -/
theorem fwdStep_bounds {c : Cfg} (ht : CfgT c) {tbl tbl' : Array Nat} {s s' : FSt} {b b' : Bufs} {qs : List Seq}
    (hi : SInv c s b qs) (hb : BInv c s b) (hlt : TblLt tbl s.srcIdx) (hH : TblH c tbl) (hs : s.srcIdx < c.srcEnd)
    (h : fwdStep c tbl s b = .ok (tbl', s', b')) :
    BInv c s' b' ∧ TblH c tbl' ∧ s.srcIdx < s'.srcIdx := by
  have hc := ht.ok
  have hmm4 := hc.mm4
  have hmm9 := hc.mm9
  obtain ⟨qs', hi', _⟩ := fwdStep_spec hc hi hlt hs h
  have hanc' := hi'.anc
  have hanc := hi.anc
  unfold fwdStep at h
  split at h
  · simp at h
  · rename_i p hp
    simp only [] at h
    rw [hashOf_le64 ht.bytes hp] at h
    have hH1 : TblH c (tbl.setIfInBounds (hashN c.extra (lo40 c.src s.srcIdx)) s.srcIdx) := TblH_set _ hH
    have ht1 : TblLt (tbl.setIfInBounds (hashN c.extra (lo40 c.src s.srcIdx)) s.srcIdx) (s.srcIdx + 1) :=
      TblLt_set hlt (by omega) (by omega)
    have hra : 1 ≤ (if s.repdIdx = 0 then s.repd0 else s.repd1) := by
      split
      · exact hi.r0
      · exact hi.r1
    have hrb : 1 ≤ (if s.repdIdx = 0 then s.repd1 else s.repd0) := by
      split
      · exact hi.r1
      · exact hi.r0
    obtain ⟨rm, hrm, h⟩ := Out.bind_eq_ok h
    have hrep := repStage_spec hra hrb hs hrm
    split at h
    · obtain ⟨bl0, hbl0, h⟩ := Out.bind_eq_ok h
      have hr0 := hlt (hashN c.extra (lo40 c.src s.srcIdx))
      have hhs := hashStage_spec hs hr0 hbl0
      split at h
      · rename_i hge
        obtain ⟨hcand, hmax0⟩ := hhs (by omega)
        obtain ⟨hpos, hfm⟩ := hashStage_pos hbl0 (by omega)
        have h5 : 5 ≤ bl0 := by
          refine hash_match_ge5 ht.bytes ?_ hfm (by omega)
          exact (hH _ (by omega)).symm
        obtain ⟨lz, hlz, h⟩ := Out.bind_eq_ok h
        obtain ⟨l1, l2, l3, l4⟩ := lazyBlock_spec ht1 hcand (by omega) hlz
        have hHl := lazyBlock_H ht.bytes hH1 hlz
        obtain ⟨mb, hmb, h⟩ := Out.bind_eq_ok h
        obtain ⟨e1, e2, e3, e4⟩ := backExtend_spec _ _ _ l1 (by omega) hmb
        obtain ⟨k1, k2, k3, k4, k5⟩ := clampMatch_spec e1
        have hfin := k1.fin
        obtain ⟨z1, z2, z3⟩ := emitMatch_bounds ht hb (by omega) hfin
          (by rcases k5 with k5 | k5
              · omega
              · rw [k5]; simp only [MAX_MATCH]; omega)
          (by rcases k5 with k5 | k5
              · omega
              · rw [k5]; simp only [MAX_MATCH]; omega)
          hHl h
        exact ⟨z1, z2, by omega⟩
      · injection h with h; injection h with h1 h2; injection h2 with h2 h3
        subst h1; subst h2; subst h3
        exact ⟨⟨hb.lit, hb.tk, hb.m, hb.mc, hb.ml, hb.mlc⟩, hH1, by simp only []; omega⟩
    · rename_i hge
      obtain ⟨hcand, hr1, hmaxr, _⟩ := hrep (by omega)
      have hcb := hcand.back
      have hcf := hcand.fin
      simp only [] at hcb hcf
      split at h
      · rename_i a x ea ex
        split at h
        · obtain ⟨z1, z2, z3⟩ := emitMatch_bounds ht hb (by simp only []; omega) (by simp only []; omega)
            (by simp only []; omega) (by simp only []; omega) hH1 h
          simp only [] at z3
          exact ⟨z1, z2, by omega⟩
        · split at h
          · simp at h
          · rename_i v hv
            rw [hashOf_le64 ht.bytes hv] at h
            obtain ⟨z1, z2, z3⟩ := emitMatch_bounds ht hb (by simp only []; omega) (by simp only []; omega)
              (by simp only []; omega) (by simp only []; omega) (TblH_set _ hH1) h
            simp only [] at z3
            exact ⟨z1, z2, by omega⟩
      · simp at h

/-- one iteration of the main loop never faults -/
theorem fwdStep_nf {c : Cfg} (ht : CfgT c) {tbl : Array Nat} {s : FSt} {b : Bufs} {qs : List Seq}
    (hi : SInv c s b qs) (hb : BInv c s b) (hlt : TblLt tbl s.srcIdx) (hs : s.srcIdx < c.srcEnd) :
    ∀ e, fwdStep c tbl s b ≠ .fault e := by
  have hc := ht.ok
  have hsz := hc.size
  have hmm4 := hc.mm4
  have hanc := hi.anc
  unfold fwdStep
  obtain ⟨p, hp⟩ := le64_some (src := c.src) (i := s.srcIdx) (by omega)
  rw [hp]; simp only []
  have ht1 : TblLt (tbl.setIfInBounds (hashOf c.extra p) s.srcIdx) (s.srcIdx + 1) :=
    TblLt_set hlt (by omega) (by omega)
  have hra : 1 ≤ (if s.repdIdx = 0 then s.repd0 else s.repd1) := by
    split
    · exact hi.r0
    · exact hi.r1
  have hrb : 1 ≤ (if s.repdIdx = 0 then s.repd1 else s.repd0) := by
    split
    · exact hi.r1
    · exact hi.r0
  apply Out.bind_ne_fault (repStage_nf hc hs)
  intro rm hrm
  have hrep := repStage_spec hra hrb hs hrm
  intro e
  split
  · revert e
    have hr0 := hlt (hashOf c.extra p)
    apply Out.bind_ne_fault (hashStage_nf hc hs hr0)
    intro bl0 hbl0 e
    have hhs := hashStage_spec hs hr0 hbl0
    split
    · rename_i hge
      obtain ⟨hcand, hmax0⟩ := hhs (by omega)
      revert e
      apply Out.bind_ne_fault (lazyBlock_nf hc ht1 hcand (by omega) hs)
      intro lz hlz
      obtain ⟨l1, l2, l3, l4⟩ := lazyBlock_spec ht1 hcand (by omega) hlz
      have hl1f := l1.fin
      have hl1b := l1.back
      apply Out.bind_ne_fault (backExtend_nf _ _ (by omega) (by omega) hl1b)
      intro mb hmb
      obtain ⟨e1, e2, e3, e4⟩ := backExtend_spec _ _ _ l1 (by omega) hmb
      obtain ⟨k1, k2, k3, k4, k5⟩ := clampMatch_spec e1
      exact emitMatch_nf ht hb (by omega) k1.fin
    · simp
  · rename_i hge
    obtain ⟨hcand, hr1, hmaxr, _⟩ := hrep (by omega)
    have hcb := hcand.back
    have hcf := hcand.fin
    simp only [] at hcb hcf
    have ha : c.src[s.srcIdx]? = some (c.src[s.srcIdx]'(by omega)) := Array.getElem?_eq_getElem (by omega)
    have hx : (if rm.1 = 0 then none else c.src[rm.1 - 1]?) = some (c.src[rm.1 - 1]'(by omega)) := by
      rw [if_neg (by omega)]; exact Array.getElem?_eq_getElem (by omega)
    rw [ha, hx]; simp only []
    split
    · exact emitMatch_nf ht hb (by simp only []; omega) (by simp only []; omega) e
    · obtain ⟨v, hv⟩ := le64_some (src := c.src) (i := s.srcIdx + 1) (by omega)
      rw [hv]; simp only []
      exact emitMatch_nf ht hb (by simp only []; omega) (by simp only []; omega) e

/-- the main loop never faults (and its fuel suffices) -/
theorem fwdLoop_nf {c : Cfg} (ht : CfgT c) : ∀ (f : Nat) (tbl : Array Nat) (s : FSt) (b : Bufs) (qs : List Seq),
    SInv c s b qs → BInv c s b → TblLt tbl s.srcIdx → TblH c tbl → c.srcEnd ≤ s.srcIdx + f →
    (∀ e, fwdLoop c f tbl s b ≠ .fault e) ∧
    (∀ r, fwdLoop c f tbl s b = .ok r → BInv c r.1 r.2) := by
  intro f
  induction f with
  | zero =>
    intro tbl s b qs hi hb hlt hH hf
    unfold fwdLoop
    rw [if_neg (by omega)]
    exact ⟨by intro e; simp, by intro r h; injection h with h; subst h; exact hb⟩
  | succ f ih =>
    intro tbl s b qs hi hb hlt hH hf
    unfold fwdLoop
    split
    · rename_i hs
      constructor
      · apply Out.bind_ne_fault (fwdStep_nf ht hi hb hlt hs)
        intro x hx
        obtain ⟨qs', h1, h2⟩ := fwdStep_spec (tbl' := x.1) (s' := x.2.1) (b' := x.2.2) ht.ok hi hlt hs hx
        obtain ⟨b1, b2, b3⟩ := fwdStep_bounds (tbl' := x.1) (s' := x.2.1) (b' := x.2.2) ht hi hb hlt hH hs hx
        exact (ih _ _ _ qs' h1 b1 h2 b2 (by omega)).1
      · intro r h
        obtain ⟨x, hx, h⟩ := Out.bind_eq_ok h
        obtain ⟨qs', h1, h2⟩ := fwdStep_spec (tbl' := x.1) (s' := x.2.1) (b' := x.2.2) ht.ok hi hlt hs hx
        obtain ⟨b1, b2, b3⟩ := fwdStep_bounds (tbl' := x.1) (s' := x.2.1) (b' := x.2.2) ht hi hb hlt hH hs hx
        exact (ih _ _ _ qs' h1 b1 h2 b2 (by omega)).2 r h
    · exact ⟨by intro e; simp, by intro r h; injection h with h; subst h; exact hb⟩

/-- the end of Forward never faults -/
theorem fwdFinish_nf {c : Cfg} (ht : CfgT c) {flag : Nat} {s : FSt} {b : Bufs} (hb : BInv c s b) (hae : s.anchor ≤ c.srcEnd) :
    ∀ e, fwdFinish c flag s.anchor b ≠ .fault e := by
  have hsz := ht.ok.size
  have hdst := ht.dst
  have htk := ht.tkc
  have h1 := hb.lit; have h2 := hb.tk
  intro e
  unfold fwdFinish
  simp only []
  split
  · simp
  · rename_i hguard
    split
    · simp
    · revert e
      apply Out.bind_ne_fault (pushCap_nf (by simp only [List.length_cons, List.length_nil]; omega))
      intro tk htkk
      have etk := pushCap_ok htkk
      have h4 := (emitLength_length_le (c.src.size - s.anchor - 7)).2
      apply Out.bind_ne_fault
      · intro e
        split
        · rw [if_pos (by omega)]; simp
        · simp
      intro lit1 hl1
      have hl1s : lit1.size ≤ b.lit.size + 4 := by
        split at hl1
        · rw [if_pos (by omega)] at hl1
          injection hl1 with hl1; rw [← hl1, size_appendList]; omega
        · injection hl1 with hl1; rw [← hl1]; omega
      apply Out.bind_ne_fault
      · intro e
        rw [if_neg (by omega), if_neg (by omega)]; simp
      intro lit2 hl2 e
      rw [if_neg (by omega), if_neg (by omega)] at hl2
      injection hl2 with hl2
      have hl2s : lit2.size = lit1.size + (c.src.size - s.anchor) := by
        rw [← hl2, Array.size_append, Array.size_extract]; omega
      have htks : tk.size = b.tk.size + 1 := by rw [etk, size_appendList]; rfl
      rw [if_neg (by omega)]
      split
      · simp
      · rename_i hnc
        rw [if_neg (by omega)]
        simp

/-- C13_lz_total (Forward): on a block of byte values and a destination of at least `MaxEncodedLen` bytes the
    Forward model never faults -/
theorem lzForward_nf {extra : Bool} {dt : Nat} {src : Array Nat} {dstLen : Nat} (hb : Bytes src)
    (hdst : maxEncodedLen src.size ≤ dstLen) : ∀ e, lzForward extra dt src dstLen ≠ .fault e := by
  intro e
  unfold lzForward
  simp only []
  split
  · simp
  · split
    · simp
    · split
      · simp
      · rename_i hsmall
        simp only [MIN_BLOCK_LENGTH] at hsmall
        split
        · simp
        · generalize hfar : decide (¬ src.size - 16 - 2 < 4 * MAX_DISTANCE1) = far
          generalize hmm : (if dt = DT_DNA then MIN_MATCH6 else MIN_MATCH4) = mm
          have hmm' : mm = 4 ∨ mm = 6 := by
            rw [← hmm]; split
            · right; rfl
            · left; rfl
          generalize hcfg : (⟨src, extra, mm, if far = true then MAX_DISTANCE2 else MAX_DISTANCE1, src.size - 16 - 2,
            dstLen, max (src.size / 5) 256⟩ : Cfg) = c
          have hcs : c.src = src := by rw [← hcfg]
          have hcm : c.minMatch = mm := by rw [← hcfg]
          have hce : c.srcEnd = src.size - 16 - 2 := by rw [← hcfg]
          have hct : c.tkCap = max (src.size / 5) 256 := by rw [← hcfg]
          have hcdl : c.dstLen = dstLen := by rw [← hcfg]
          have hc : CfgOK c := ⟨by rw [hce, hcs]; omega, by rw [hcm]; omega, by rw [hcm]; omega⟩
          have hT : CfgT c := ⟨hc, by rw [hcs]; exact hb, by rw [hct, hcs], by
            rw [hcs, hcdl]; unfold maxEncodedLen at hdst; split at hdst <;> omega⟩
          have hi0 : SInv c ⟨0, 0, src.size, src.size, 0, 0⟩
              ⟨#[], #[], #[], #[], max (src.size / 5) 256, max (src.size / 5) 256⟩ [] :=
            ⟨Nat.le_refl _, Nat.zero_le _, by simp only []; omega, by simp only []; omega, rfl, rfl, rfl, rfl,
              by rw [hcs]; rfl, trivial, by simp [denote]⟩
          have hb0 : BInv c ⟨0, 0, src.size, src.size, 0, 0⟩
              ⟨#[], #[], #[], #[], max (src.size / 5) 256, max (src.size / 5) 256⟩ :=
            ⟨by simp, by simp, by simp only []; simp; omega, by simp only []; omega, by simp, by rw [hct]; exact Nat.le_refl _⟩
          obtain ⟨n1, n2⟩ := fwdLoop_nf hT src.size (Array.replicate (if extra = true then 524288 else 65536) 0) _ _ []
            hi0 hb0 (TblLt_replicate _ _) (TblH_replicate c _) (by rw [hce]; simp only []; omega)
          revert e
          apply Out.bind_ne_fault n1
          intro r hr
          obtain ⟨qs, hi⟩ := fwdLoop_spec hc _ _ _ _ [] r hi0 (TblLt_replicate _ _) hr
          exact fwdFinish_nf hT (n2 r hr) hi.ancEnd

/-! ## Inverse: the fuel of the model always suffices

`lzInverse` does fault on forged input (the Go code panics there: tokens that run off the end of the block,
literal lengths beyond the block, ...).  What is proved for ARBITRARY input is that such a `.fault` is never
the model running out of fuel: the token loop and the 16-byte copy loop terminate within their fuel, so
every `.fault` of the model stands for a Go panic (or a `written` count beyond `len(dst)`). -/

theorem Out.bind_ne_fault1 {α β : Type} {x : Out α} {f : α → Out β} {e : String} (hx : x ≠ .fault e)
    (hf : ∀ a, x = .ok a → f a ≠ .fault e) : x.bind f ≠ .fault e := by
  cases x with
  | ok a => exact hf a rfl
  | err e' => simp
  | fault e' => intro h; apply hx; simpa using h

theorem readLength_ne_fuel (src : Array Nat) (i : Nat) : readLength src i ≠ .fault "fuel" := by
  unfold readLength
  split
  · simp
  · split
    · simp
    · split
      · split <;> simp
      · split <;> simp

theorem litStage_ne_fuel (src : Array Nat) (tk0 token : Nat) (s : ISt) (dst : Array Nat) :
    litStage src tk0 token s dst ≠ .fault "fuel" := by
  unfold litStage
  split
  · apply Out.bind_ne_fault1
    · split
      · apply Out.bind_ne_fault1 (readLength_ne_fuel _ _)
        intro a _; simp
      · simp
    · intro ll _
      split
      · simp
      · split <;> simp
  · simp

theorem matStage_ne_fuel (src : Array Nat) (mm token : Nat) (s : ISt) : matStage src mm token s ≠ .fault "fuel" := by
  unfold matStage
  simp only []
  split
  · apply Out.bind_ne_fault1
    · split
      · apply Out.bind_ne_fault1 (readLength_ne_fuel _ _)
        intro a _; simp
      · simp
    · intro ml _; simp
  · apply Out.bind_ne_fault1
    · split
      · apply Out.bind_ne_fault1 (readLength_ne_fuel _ _)
        intro a _; simp
      · simp
    · intro ml _
      split
      · simp
      · split
        · split
          · simp
          · split
            · split <;> simp
            · simp
        · simp

/-- a decoded match length is at least `minMatch` -/
theorem matStage_mLen {src : Array Nat} {mm token : Nat} {s : ISt} {mr : MatR} (h : matStage src mm token s = .ok mr) :
    mm ≤ mr.mLen := by
  unfold matStage at h
  simp only [] at h
  have key : ∀ (m0 th : Nat) (ml : Nat × Nat),
      (if m0 = th then (readLength src s.mLenIdx).bind fun r => Out.ok (m0 + (mm + r.1), s.mLenIdx + r.2)
        else Out.ok (m0 + mm, s.mLenIdx)) = .ok ml → mm ≤ ml.1 := by
    intro m0 th ml hml
    split at hml
    · obtain ⟨r, _, hml⟩ := Out.bind_eq_ok hml
      injection hml with hml; rw [← hml]; simp only []; omega
    · injection hml with hml; rw [← hml]; simp only []; omega
  split at h
  · obtain ⟨ml, hml, h⟩ := Out.bind_eq_ok h
    have := key _ _ ml hml
    injection h with h; rw [← h]; exact this
  · obtain ⟨ml, hml, h⟩ := Out.bind_eq_ok h
    have := key _ _ ml hml
    split at h
    · simp at h
    · split at h
      · split at h
        · simp at h
        · split at h
          · split at h
            · simp at h
            · injection h with h; rw [← h]; exact this
          · injection h with h; rw [← h]; exact this
      · injection h with h; rw [← h]; exact this

/-- the decoding loop never runs out of fuel -/
theorem invLoop_ne_fuel (src : Array Nat) (tk0 maxDist mm : Nat) (hmm : 1 ≤ mm) : ∀ (f : Nat) (s : ISt) (dst : Array Nat),
    s.tkIdx ≤ src.size → src.size + 1 ≤ s.tkIdx + f → invLoop src tk0 maxDist mm f s dst ≠ .fault "fuel" := by
  intro f
  induction f with
  | zero => intro s dst h1 h2; omega
  | succ f ih =>
    intro s dst h1 h2
    unfold invLoop
    split
    · simp
    · rename_i token htok
      have hlt : s.tkIdx < src.size := (Array.getElem?_eq_some_iff.mp htok).1
      apply Out.bind_ne_fault1 (litStage_ne_fuel _ _ _ _ _)
      intro lr _
      split
      · simp
      · apply Out.bind_ne_fault1 (matStage_ne_fuel _ _ _ _)
        intro mr hmr
        have hml := matStage_mLen hmr
        split
        · simp
        · apply Out.bind_ne_fault1
          · split
            · obtain ⟨j, hj, _⟩ := copy16_spec (lr.1.dstIdx + mr.mLen) (mr.mLen / 16 + 1) (lr.1.dstIdx - mr.dist)
                lr.1.dstIdx lr.2 (by omega) (by omega)
              rw [hj]; simp
            · simp
          · intro dst' _
            exact ih _ dst' (by simp only []; omega) (by simp only []; omega)

/-- on ARBITRARY input a `.fault` of the Inverse model is never exhausted fuel -/
theorem lzInverse_ne_fuel (src dst0 : Array Nat) : lzInverse src dst0 ≠ .fault "fuel" := by
  unfold lzInverse
  simp only []
  split
  · simp
  · split
    · simp
    · split
      · simp
      · rename_i h1 h2 h3
        apply Out.bind_ne_fault1
        · exact invLoop_ne_fuel src _ _ _ (by omega) _ _ _ (by simp only []; omega) (by simp only []; omega)
        · intro r _
          split
          · simp
          · split <;> simp

end Kanzi.LZ
