/-
The refinement statements about the concrete stream `Kanzi.IBS.St`, obtained by composing the
simulation (layer 1) with the bit-level specification of the word machine (layer 2).
-/
import Kanzi.Proofs.IBSProg
import Kanzi.Proofs.IBSArrShort

namespace Kanzi.IBS
open Kanzi.Bits Kanzi.BitsIbs

theorem remaining_init (bs : Nat) (src : Src) :
    remaining (init bs src) = bytesBits (srcBytes src.chunks) := by
  unfold remaining
  rw [abs_init]
  simp [A.remaining, wordBits, natBits_zero]

/-- `ReadBits(n)`, enough bits -/
theorem readBits_refines (s : St) (hi : Inv s) (hc : s.closed = false) (n : Nat)
    (h1 : 1 ≤ n) (h64 : n ≤ 64) (hen : n ≤ (remaining s).length) :
    ∃ v s', readBits s n = (.val v, s') ∧ v.toNat = bitsNat ((remaining s).take n) ∧
      remaining s' = (remaining s).drop n ∧ Inv s' ∧ s'.count = s.count + n ∧
      s'.closed = false ∧ (Fresh s → Fresh s') := by
  obtain ⟨q1, q2, q3, q4⟩ := readBits_sim s n hi
  obtain ⟨v, a', e1, e2, e3, e4, e5, e6, e7⟩ :=
    A.readBits_spec (abs s) (AInv_abs s hi) hc n h1 h64 hen
  rw [e1] at q1 q2
  refine ⟨v, (readBits s n).2, Prod.ext q1 rfl, e2, ?_, q3, ?_, ?_, ?_⟩
  · unfold remaining; rw [q2]; exact e3
  · have : (abs (readBits s n).2).cnt = (readBits s n).2.count := rfl
    rw [← this, q2]; exact e4
  · have : (abs (readBits s n).2).closed = (readBits s n).2.closed := rfl
    rw [← this, q2]; exact e6
  · intro hf; exact q4 hf (by intro e he; rw [q1] at he; cases he)

/-- `ReadBit`, at least one bit -/
theorem readBit_refines (s : St) (hi : Inv s) (hc : s.closed = false)
    (hen : 1 ≤ (remaining s).length) :
    ∃ v s', readBit s = (.val v, s') ∧ v.toNat = bitsNat ((remaining s).take 1) ∧
      remaining s' = (remaining s).drop 1 ∧ Inv s' ∧ s'.count = s.count + 1 ∧
      s'.closed = false ∧ (Fresh s → Fresh s') := by
  obtain ⟨q1, q2, q3, q4⟩ := readBit_sim s hi
  obtain ⟨v, a', e1, e2, e3, e4, e5, e6, e7⟩ :=
    A.readBit_spec (abs s) (AInv_abs s hi) hc hen
  rw [e1] at q1 q2
  refine ⟨v, (readBit s).2, Prod.ext q1 rfl, e2, ?_, q3, ?_, ?_, ?_⟩
  · unfold remaining; rw [q2]; exact e3
  · have : (abs (readBit s).2).cnt = (readBit s).2.count := rfl
    rw [← this, q2]; exact e4
  · have : (abs (readBit s).2).closed = (readBit s).2.closed := rfl
    rw [← this, q2]; exact e6
  · intro hf; exact q4 hf (by intro e he; rw [q1] at he; cases he)

/-- `ReadArray(k)`, enough bits -/
theorem readArray_refines (s : St) (hi : Inv s) (hf : Fresh s) (k : Nat)
    (hen : k ≤ (remaining s).length) :
    ∃ out s', readArray s k = (.val out, s') ∧
      out.map BitVec.toNat = packBytes ((remaining s).take k) ∧
      remaining s' = (remaining s).drop k ∧ Inv s' ∧ s'.count = s.count + k ∧ Fresh s' := by
  obtain ⟨q1, q2, q3, q4⟩ := readArray_sim s k hi (Or.inr hf)
  obtain ⟨out, a', e1, e2, e3, e4, e5, e6, e7⟩ :=
    A.readArray_spec (abs s) (AInv_abs s hi) hf.1 k hen
  rw [e1] at q1 q2
  refine ⟨out, (readArray s k).2, Prod.ext q1 rfl, e2, ?_, q3, ?_, ?_⟩
  · unfold remaining; rw [q2]; exact e3
  · have : (abs (readArray s k).2).cnt = (readArray s k).2.count := rfl
    rw [← this, q2]; exact e4
  · exact q4 hf (by intro e he; rw [q1] at he; cases he)

/-- asking for more bits than remain: panic with the ending of the source (`eos` for a source
    that ends with EOF, `io` for a failing source), never a value -/
theorem readBits_short (s : St) (hi : Inv s) (hc : s.closed = false) (n : Nat)
    (h1 : 1 ≤ n) (h64 : n ≤ 64) (hen : (remaining s).length < n) :
    (readBits s n).1 = .panic s.src.term.err := by
  obtain ⟨q1, _, _, _⟩ := readBits_sim s n hi
  rw [q1]
  exact A.readBits_eos (abs s) hc n h1 h64 hen

theorem readBit_short (s : St) (hi : Inv s) (hc : s.closed = false)
    (hen : (remaining s).length = 0) : (readBit s).1 = .panic s.src.term.err := by
  obtain ⟨q1, _, _, _⟩ := readBit_sim s hi
  rw [q1]
  exact A.readBit_eos (abs s) hc hen

theorem hasMore_spec (s : St) (hi : Inv s) (hc : s.closed = false) :
    (hasMore s).1 = (if (remaining s).length = 0 then .panic s.src.term.err else .val ()) ∧
    remaining (hasMore s).2 = remaining s ∧ (hasMore s).2.count = s.count := by
  obtain ⟨q1, q2, _⟩ := hasMore_sim s hi
  have hA : A.hasMore (abs s) =
      (if (remaining s).length = 0 then .panic s.src.term.err else .val (), abs s) := by
    unfold A.hasMore remaining
    rw [A.remaining_length]
    have : (abs s).closed = false := hc
    rw [this]
    simp only [Bool.false_eq_true, ↓reduceIte]
    by_cases h : (abs s).rest ≠ [] ∨ (abs s).avail ≠ 0
    · rw [if_pos h, if_neg]
      rcases h with h | h
      · have := List.length_pos_iff.mpr h; omega
      · omega
    · rw [if_neg h, if_pos]
      · rfl
      · have h1 : (abs s).rest = [] := by
          apply Classical.byContradiction; intro hh; exact h (Or.inl hh)
        have h2 : (abs s).avail = 0 := by
          apply Classical.byContradiction; intro hh; exact h (Or.inr hh)
        rw [h1, h2]; rfl
  rw [hA] at q1 q2
  refine ⟨q1, ?_, ?_⟩
  · unfold remaining; rw [q2]
  · have : (abs (hasMore s).2).cnt = (hasMore s).2.count := rfl
    rw [← this, q2]; rfl

/-! ### after `Close` -/

theorem pull_closed (s : St) (hi : Inv s) (hc : s.closed = true) : pull s = (some .closed, s) := by
  obtain ⟨_, hm⟩ := hi.cl hc
  have h1 : (s.position : Int) > s.maxPosition := by omega
  have hr : refill s = (some .closed, s) := by unfold refill; simp [hc]
  unfold pull; simp [h1, hr]

theorem close_closed (s : St) : (close s).closed = true := by
  unfold close; split
  · assumption
  · rfl

theorem close_idem (s : St) : close (close s) = close s := by
  have := close_closed s
  rw [close, if_pos this]

theorem close_count (s : St) : (close s).count = s.count := by
  unfold close; split
  · rfl
  · simp only [St.count]; push_cast; omega

theorem readBit_after_close (s : St) (hi : Inv s) (hc : s.closed = true) :
    readBit s = (.panic .closed, s) := by
  unfold readBit
  rw [if_pos (hi.cl hc).1, pull_closed s hi hc]

theorem readBits_after_close (s : St) (hi : Inv s) (hc : s.closed = true) (n : Nat)
    (h1 : 1 ≤ n) (h64 : n ≤ 64) : readBits s n = (.panic .closed, s) := by
  unfold readBits
  have hf : n + 2 = (n + 1) + 1 := rfl
  rw [hf, readBitsAux, if_neg (by omega), if_neg (by rw [(hi.cl hc).1]; omega),
    pull_closed s hi hc]

theorem readArray_after_close (s : St) (hc : s.closed = true) (k : Nat) :
    readArray s k = (.panic .closed, s) := by
  unfold readArray; rw [if_pos hc]

theorem hasMore_after_close (s : St) (hc : s.closed = true) :
    hasMore s = (.panic .closed, s) := by
  unfold hasMore; rw [if_pos hc]

theorem readBits_invalid (s : St) (n : Nat) (h : n = 0 ∨ n > 64) :
    readBits s n = (.panic .invalidCount, s) := by
  unfold readBits; rw [readBitsAux, if_pos h]


theorem readArray_short (s : St) (hi : Inv s) (hf : Fresh s) (k : Nat)
    (hen : (remaining s).length < k) : (readArray s k).1 = .panic s.src.term.err := by
  obtain ⟨q1, _, _, _⟩ := readArray_sim s k hi (Or.inr hf)
  rw [q1]
  exact A.readArray_short (abs s) (AInv_abs s hi) hf.1 k hen

/-! ### the reader mirrors the writer -/

/-- expected outcomes of reading back the fields `ws` (value, size), counter starting at `c` -/
def mirrorOut (c : Int) : List (Nat × Nat) → List (Outcome × Int)
  | [] => []
  | w :: ws => (.val w.1, c + w.2) :: mirrorOut (c + w.2) ws

theorem run_mirror : ∀ (ws : List (Nat × Nat)) (s : St) (tail : Bits), Inv s → s.closed = false →
    (∀ w ∈ ws, 1 ≤ w.2 ∧ w.2 ≤ 64 ∧ w.1 < 2 ^ w.2) →
    remaining s = bitsOfWrites ws ++ tail →
    run s (ws.map (fun w => Op.readBits w.2)) = mirrorOut s.count ws := by
  intro ws
  induction ws with
  | nil => intro s tail _ _ _ _; rfl
  | cons w ws ih =>
    intro s tail hi hc hw hrem
    obtain ⟨h1, h64, hv⟩ := hw w List.mem_cons_self
    rw [bitsOfWrites_cons, List.append_assoc] at hrem
    have hlen : w.2 ≤ (remaining s).length := by
      rw [hrem, List.length_append, natBits_length]; omega
    obtain ⟨v, s', e1, e2, e3, e4, e5, e6, _⟩ := readBits_refines s hi hc w.2 h1 h64 hlen
    rw [hrem, List.take_left' (natBits_length _ _), bitsNat_natBits, Nat.mod_eq_of_lt hv] at e2
    rw [hrem, List.drop_left' (natBits_length _ _)] at e3
    simp only [List.map_cons, run, mirrorOut, step, e1, resOut, e2, e5]
    congr 1
    have := ih s' tail e4 e6 (fun x hx => hw x (List.mem_cons_of_mem _ hx)) e3
    rw [e5] at this
    exact this


/-! ### independence of the chunking of the source (and of the buffer size) -/

theorem abs_init_plain (bs : Nat) (chunks : List (List Byte)) (term : Term) :
    abs (init bs (plainSrc chunks term)) = ⟨false, 0, 0, 0, chunks.flatten, term.err⟩ := by
  rw [abs_init]; simp only [plainSrc]; rw [srcBytes_plain]

theorem chunking_runP (bs1 bs2 : Nat) (hb1 : bs1 % 8 = 0 ∧ 0 < bs1) (hb2 : bs2 % 8 = 0 ∧ 0 < bs2)
    (c1 c2 : List (List Byte)) (h1 : ∀ c ∈ c1, c ≠ []) (h2 : ∀ c ∈ c2, c ≠ [])
    (heq : c1.flatten = c2.flatten) (term : Term) (ops : List Op) :
    runP (init bs1 (plainSrc c1 term)) ops = runP (init bs2 (plainSrc c2 term)) ops := by
  rw [runP_sim ops _ (init_good bs1 _ hb1.1 hb1.2 (plain_ne c1 h1 term)),
    runP_sim ops _ (init_good bs2 _ hb2.1 hb2.2 (plain_ne c2 h2 term)),
    abs_init_plain, abs_init_plain, heq]

theorem chunking_run (bs1 bs2 : Nat) (hb1 : bs1 % 8 = 0 ∧ 0 < bs1) (hb2 : bs2 % 8 = 0 ∧ 0 < bs2)
    (c1 c2 : List (List Byte)) (h1 : ∀ c ∈ c1, c ≠ []) (h2 : ∀ c ∈ c2, c ≠ [])
    (heq : c1.flatten = c2.flatten) (term : Term) (ops : List Op)
    (hops : ∀ op ∈ ops, isArray op = false) :
    run (init bs1 (plainSrc c1 term)) ops = run (init bs2 (plainSrc c2 term)) ops := by
  rw [run_sim ops _ (init_inv bs1 _ hb1.1 hb1.2 (plain_ne c1 h1 term)) hops,
    run_sim ops _ (init_inv bs2 _ hb2.1 hb2.2 (plain_ne c2 h2 term)) hops,
    abs_init_plain, abs_init_plain, heq]

/-- a chunk delivered together with the error still counts: the deliverable bytes are the plain
    chunks before it and the chunk itself -/
theorem srcBytes_tagged (pre : List (List Byte)) (c : List Byte) (post : List Chunk) :
    srcBytes (pre.map (fun b => (⟨b, false⟩ : Chunk)) ++ ⟨c, true⟩ :: post) = pre.flatten ++ c := by
  induction pre with
  | nil => simp [srcBytes]
  | cons p ps ih => simp [srcBytes, ih]

end Kanzi.IBS
