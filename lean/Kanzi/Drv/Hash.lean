/-
Line-protocol driver of the `hash` correspondence stream (core Lean only).

  h32 <hex>                                   → 8 hex digits  (xxh32, seed 0x4B414E5A)
  h64 <hex>                                   → 16 hex digits (xxh64, seed 0x4B414E5A)
  hd <ckSize> <entropy> <transform hex> <blockSize> <origSize|->
                                              → hex of packBytes (headerBits (mkHeader …)) | err ctor
  hp <hex header bytes>                       → ok <ck> <entropy> <transform hex, canonical> <blockSize> <origSize|->
                                                | err <class>
-/
import Kanzi.Model.XXHash
import Kanzi.Model.Header

namespace Kanzi.Drv

open Kanzi.Header Kanzi.Bits

-- helpers live in their own namespace: other drivers define `hexVal`, `hexDigit`, … too
namespace HashDrv

def hexVal (c : Char) : Option Nat :=
  if '0' ≤ c ∧ c ≤ '9' then some (c.toNat - '0'.toNat)
  else if 'a' ≤ c ∧ c ≤ 'f' then some (c.toNat - 'a'.toNat + 10)
  else if 'A' ≤ c ∧ c ≤ 'F' then some (c.toNat - 'A'.toNat + 10)
  else none

/-- bytes of an even-length hex string (tail recursive: inputs reach 100 KiB) -/
def hexBytesAux : List Char → List Nat → Option (List Nat)
  | [], acc => some acc.reverse
  | [_], _ => none
  | a :: b :: rest, acc =>
    match hexVal a, hexVal b with
    | some x, some y => hexBytesAux rest ((16 * x + y) :: acc)
    | _, _ => none

def hexBytes (s : String) : Option (List Nat) := hexBytesAux s.toList []

def hexNat (s : String) : Option Nat :=
  if s.isEmpty then none
  else s.toList.foldl (fun a c => match a, hexVal c with
    | some v, some d => some (16 * v + d)
    | _, _ => none) (some 0)

def hexDigit (d : Nat) : Char := if d < 10 then Char.ofNat ('0'.toNat + d) else Char.ofNat ('a'.toNat + d - 10)

/-- `n` lower-case hex digits of `v`, most significant first -/
def toHex (v n : Nat) : String :=
  String.ofList ((List.range n).map (fun i => hexDigit ((v >>> (4 * (n - 1 - i))) % 16)))

def bytesHex (l : List Nat) : String := String.join (l.map (fun b => toHex b 2))

/-- what `transform.GetType (transform.GetName t)` returns: the non-NONE slots moved to the front -/
def canonTransform (t : Nat) : Nat :=
  let toks := ((List.range 8).map (slot t)).filter (· ≠ 0)
  (toks ++ List.replicate (8 - toks.length) 0).foldl (fun a x => a * 64 + x) 0

def errName : Err → String
  | .eos => "eos" | .magic => "magic" | .version => "version" | .unsupported => "unsupported"
  | .ckSize => "cksize" | .entropy => "entropy" | .transform => "transform"
  | .blockSize => "blocksize" | .crc => "crc"

def hashData (w : List String) : Option (List XXHash.Byte) :=
  match w with
  | [] => some []
  | [x] => (hexBytes x).map (fun l => l.map (BitVec.ofNat 8))
  | _ => none

end HashDrv

open HashDrv in
def hash (line : String) : String :=
  match (line.splitOn " ").filter (· ≠ "") with
  | "h32" :: w =>
    match hashData w with
    | some d => toHex (XXHash.xxh32 (BitVec.ofNat 32 XXHash.streamSeed) d).toNat 8
    | none => "bad-op"
  | "h64" :: w =>
    match hashData w with
    | some d => toHex (XXHash.xxh64 (BitVec.ofNat 64 XXHash.streamSeed) d).toNat 16
    | none => "bad-op"
  | ["hd", ck, e, t, b, sz] =>
    match ck.toNat?, e.toNat?, hexNat t, b.toNat?, (if sz = "-" then some 0 else sz.toNat?) with
    | some ck, some e, some t, some b, some sz =>
      let h := mkHeader ck e t b sz
      if decide (WF h) ∧ canonTransform t = t ∧ sz < 2 ^ 63 then bytesHex (packBytes (headerBits h))
      else "err ctor"
    | _, _, _, _, _ => "bad-op"
  | ["hp", x] =>
    match hexBytes x with
    | some bytes =>
      match parseHeader (ofBytes bytes) with
      | .ok (h, _) =>
        let sz := if h.szMask = 0 then "-" else toString h.origSize
        s!"ok {h.ckSize} {h.entropyType} {toHex (canonTransform h.transformType) 12} {h.blockSize} {sz}"
      | .error e => s!"err {errName e}"
    | none => "bad-op"
  | ["hp"] =>
    match parseHeader [] with
    | .ok _ => "bad-op"
    | .error e => s!"err {errName e}"
  | _ => "bad-op"

end Kanzi.Drv
