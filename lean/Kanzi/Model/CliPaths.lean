/-
Model of the file-name / path logic of the command-line tool (/repo/v2/app):
`BlockCompressor.Compress`, `BlockDecompressor.Decompress` (how the list of (input, output) file
tasks is computed from `-i`, `-o` and the options: `relativeToInputDir` = `filepath.Rel` with the
`filepath.Base` fallback, `fileOutputName`, and the pre-flight `checkOutputNames` of the
multi-file branch, which refuses with status 7 before any file is opened) and
`internal.CreateFileList` (how the list of input files is built from a file or a directory tree).
State of /repo: commits df40178, ffa444d, 35270d9, f45672a.  Core Lean only.

Strings are lists of BYTES (`List UInt8`), because the Go code slices strings by byte offsets
(`tmpName[len(tmpName)-4:]`).

The file system is abstract: four oracles (`FS`) answer what `os.Stat`, `os.Lstat`, the directory
walk and `os.MkdirAll` answer.  The path strings that `filepath.Walk` reports are NOT part of the
oracle: they are computed here, as Go does, by iterating `filepath.Join(path, name)` (which is
`filepath.Clean(path + "/" + name)`), with a model of `filepath.Clean` (Unix).

Not modelled: option parsing in Kanzi.go (the model starts from the trimmed `-i` / `-o` strings
and the flags), standard input as source, the info mode `-y`, Windows, the Unicode simple folding
of `strings.EqualFold` beyond ASCII (U+017F folds to S: `ſtdout`), hard links, the order of the
task list (the tool sorts it by (directory, size) with an unstable sort and runs tasks
concurrently: only the SET of tasks is modelled).
-/
namespace Kanzi.CliPaths

abbrev Str := List UInt8

def SEP : UInt8 := 47  -- '/'
def DOT : UInt8 := 46  -- '.'

/-- `.knz` -/
def KNZ : Str := [46, 107, 110, 122]
/-- `.KNZ` -/
def KNZU : Str := [46, 75, 78, 90]
/-- `.bak` -/
def BAK : Str := [46, 98, 97, 107]
def NONE : Str := [78, 79, 78, 69]
def STDOUT : Str := [83, 84, 68, 79, 85, 84]
def STDIN : Str := [83, 84, 68, 73, 78]

/-- ASCII lower case -/
def lower (b : UInt8) : UInt8 := if 65 ≤ b ∧ b ≤ 90 then b + 32 else b

/-- `strings.EqualFold` restricted to ASCII folding -/
def eqFold (a b : Str) : Bool := a.map lower == b.map lower

/-! ### `strings.Split(s, "/")`, `strings.Join(l, "/")`, `filepath.Clean`, `filepath.Join` -/

def consHead (c : UInt8) : List Str → List Str
  | [] => [[c]]
  | w :: ws => (c :: w) :: ws

def splitSep : Str → List Str
  | [] => [[]]
  | c :: cs => if c = SEP then [] :: splitSep cs else consHead c (splitSep cs)

def joinSep : List Str → Str
  | [] => []
  | [w] => w
  | w :: ws => w ++ SEP :: joinSep ws

def DOTDOT : Str := [DOT, DOT]

/-- one component of `filepath.Clean`; `st` is the stack of kept components, last one first -/
def cleanStep (rooted : Bool) (st : List Str) (c : Str) : List Str :=
  if c = [] ∨ c = [DOT] then st
  else if c = DOTDOT then
    match st with
    | [] => if rooted then [] else [c]
    | t :: ts => if t = DOTDOT then c :: st else ts
  else c :: st

def isRooted (p : Str) : Bool := p.head? = some SEP

def stackOf (p : Str) : List Str := (splitSep p).foldl (cleanStep (isRooted p)) []

def render (rooted : Bool) (st : List Str) : Str :=
  if rooted then SEP :: joinSep st.reverse
  else if st = [] then [DOT] else joinSep st.reverse

/-- `filepath.Clean` (Unix) -/
def clean (p : Str) : Str := render (isRooted p) (stackOf p)

/-- `filepath.Join(p, n)` for non-empty `p`, `n` -/
def join2 (p n : Str) : Str := clean (p ++ SEP :: n)

/-- the path `filepath.Walk(root, ..)` reports for the entry reached from `root` through the
directory entry names `rel`: `walk` calls `Join(path, name)` at every level -/
def walkPath (root : Str) (rel : List Str) : Str := rel.foldl join2 root

/-! ### the abstract file system -/

inductive Kind | file | dir | linkFile | linkDir | linkBad
  deriving DecidableEq, Repr

def Kind.isLink : Kind → Bool
  | .linkFile | .linkDir | .linkBad => true
  | _ => false

structure FS where
  /-- `os.Stat(path)`: follows symbolic links, so the kind is `file` or `dir`; the number
  identifies the file (`os.SameFile`) -/
  stat : Str → Option (Kind × Nat)
  /-- `os.Lstat(path)` -/
  lstat : Str → Option (Kind × Nat)
  /-- all entries below the directory `path` (any depth, directories included): directory entry
  names from `path` down to the entry, and the `Lstat` kind of the entry -/
  tree : Str → List (List Str × Kind)
  /-- `os.MkdirAll(path.Dir(p))` succeeds or is not needed (no ancestor of `p` is a non-directory) -/
  canMk : Str → Bool

/-! ### `internal.CreateFileList` -/

/-- `strings.LastIndex(s, "/")` as position counted from the front -/
def lastIndexSep (s : Str) : Option Nat :=
  match (s.reverse.idxOf? SEP) with
  | none => none
  | some k => some (s.length - 1 - k)

/-- `shortName := path; if idx := LastIndex(path, "/"); idx > 0 { shortName = path[idx+1:] }` -/
def shortName (s : Str) : Str :=
  match lastIndexSep s with
  | some idx => if idx > 0 then s.drop (idx + 1) else s
  | none => s

def isDotName (s : Str) : Bool := (shortName s).head? = some DOT

/-- `fi.Mode().IsRegular() || (ignoreLinks == false && fi.Mode()&fs.ModeSymlink != 0)` -/
def keepKind (noLinks : Bool) : Kind → Bool
  | .file => true
  | .dir => false
  | _ => !noLinks

def addSep (s : Str) : Str := if s ≠ [] ∧ s.getLast? ≠ some SEP then s ++ [SEP] else s

inductive Files
  | error          -- Stat / Lstat of the target failed
  | unsupported    -- the target itself is a symbolic link and links are skipped
  | ok (l : List Str)

def createFileList (fs : FS) (target : Str) (isRecursive noLinks noDot : Bool) : Files :=
  match (if noLinks then fs.lstat target else fs.stat target) with
  | none => .error
  | some (k, _) =>
    if noDot ∧ target.length > 1 ∧ isDotName target then .ok []
    else if k.isLink then .unsupported
    else if k = .file then .ok [target]
    else if isRecursive then
      let root := addSep target
      .ok (((fs.tree root).filter fun e =>
          !(noDot && isDotName (walkPath root e.1)) && keepKind noLinks e.2).map fun e => walkPath root e.1)
    else
      .ok (((fs.tree target).filter fun e =>
          e.1.length == 1 && !(noDot && isDotName (joinSep e.1)) && keepKind noLinks e.2).map fun e =>
            target ++ joinSep e.1)

/-! ### input name to output name -/

def cName (i : Str) : Str := i ++ KNZ

/-- `if len(tmpName) >= 4 && strings.EqualFold(tmpName[len(tmpName)-4:], ".KNZ") { strip } else { + ".bak" }` -/
def dName (i : Str) : Str :=
  if i.length ≥ 4 ∧ eqFold (i.drop (i.length - 4)) KNZU then i.take (i.length - 4) else i ++ BAK

structure Args where
  decomp : Bool
  inp : Str
  out : Str            -- `[]` when `-o` is absent
  force : Bool
  rm : Bool
  noLinks : Bool
  noDot : Bool

def isSpecial (o : Str) : Bool := eqFold o NONE || eqFold o STDOUT

/-! ### `filepath.Rel`, `filepath.Base`, `relativeToInputDir`, `fileOutputName`, `checkOutputNames` -/

/-- the element loop of `filepath.Rel` on the elements of the two cleaned paths: common leading
elements are dropped; `none` when the first base element that is left is `..`; the base elements
that are left become `..` -/
def relComps : List Str → List Str → Option (List Str)
  | [], ts => some ts
  | b :: bs, [] => if b = DOTDOT then none else some ((b :: bs).map fun _ => DOTDOT)
  | b :: bs, t :: ts =>
    if t = b then relComps bs ts
    else if b = DOTDOT then none
    else some (((b :: bs).map fun _ => DOTDOT) ++ t :: ts)

/-- `filepath.Rel(base, targ)` (Unix): both paths cleaned; `.` when equal; an error when one is
rooted and the other is not, or when the relative path would depend on the working directory -/
def filepathRel (base targ : Str) : Option Str :=
  if clean targ = clean base then some [DOT]
  else if isRooted (clean base) ≠ isRooted (clean targ) then none
  else
    -- a cleaned base `.` is treated as empty; a cleaned target `.` is NOT: it is one element
    let tc := if clean targ = [DOT] then [[DOT]] else (stackOf targ).reverse
    (relComps (stackOf base).reverse tc).map joinSep

/-- `filepath.Base` (Unix) -/
def baseName (p : Str) : Str :=
  if p = [] then [DOT] else
  let q := (p.reverse.dropWhile (· = SEP)).reverse
  let b := (q.reverse.takeWhile (· ≠ SEP)).reverse
  if b = [] then [SEP] else b

/-- `relativeToInputDir(inputDir, name)`: `filepath.Rel`, and `filepath.Base(name)` on error -/
def relativeToInputDir (inputDir name : Str) : Str :=
  match filepathRel inputDir name with
  | some r => r
  | none => baseName name

/-- `fileOutputName(name)`: a name derived from the input name that would read as one of the
special outputs is spelled `./name` -/
def fileOutputName (name : Str) : Str := if isSpecial name then DOT :: SEP :: name else name

/-- the loop of `checkOutputNames` over the outputs: `seenOut` grows -/
def checkOuts (seenIn : List Str) : List Str → List Str → Bool
  | _, [] => true
  | seenOut, o :: os =>
    let c := clean o
    if seenIn.contains c then false
    else if seenOut.contains c then false
    else checkOuts seenIn (c :: seenOut) os

/-- `checkOutputNames(inputs, outputs) == nil`: no cleaned output is a cleaned input, no two
cleaned outputs are equal -/
def checkOutputNames (inputs outputs : List Str) : Bool :=
  checkOuts (inputs.map clean) [] outputs

/-- the output name of one file in the loop of the multi-file branch (`nbFiles > 1`):
compression `iName + ".knz"` / `formattedOutName + relativeToInputDir(formattedInName, iName) + ".knz"`,
decompression `fileOutputName(tmpName)` / `formattedOutName + relativeToInputDir(formattedInName, tmpName)`;
`fin` / `fout` are `formattedInName` / `formattedOutName` -/
def oName (decomp : Bool) (inputIsDir special : Bool) (fin fout : Str) (i : Str) : Str :=
  if decomp then
    let tmp := dName i
    if fout = [] then fileOutputName tmp
    else if inputIsDir ∧ ¬ special then fout ++ relativeToInputDir fin tmp
    else fout
  else
    if fout = [] then i ++ KNZ
    else if inputIsDir ∧ ¬ special then fout ++ relativeToInputDir fin i ++ KNZ
    else fout

/-- the same for the separate `nbFiles == 1` branch (`files[0]`), which repeats the computation -/
def oNameSingle (decomp : Bool) (inputIsDir special : Bool) (fin fout : Str) (i : Str) : Str :=
  if decomp then
    let tmp := dName i
    if fout = [] then fileOutputName tmp
    else if inputIsDir ∧ ¬ special then fout ++ relativeToInputDir fin tmp
    else fout
  else
    if fout = [] then i ++ KNZ
    else if inputIsDir ∧ ¬ special then fout ++ relativeToInputDir fin i ++ KNZ
    else fout

inductive Plan
  | err (code : Nat)     -- refused before any file is opened (exit status `code`)
  | unsupported          -- outside the model (stdin, link as `-i` with `--skip-links`)
  | tasks (ts : List (Str × Str))
  deriving DecidableEq

def ERR_OVERWRITE_FILE : Nat := 7
def ERR_CREATE_FILE : Nat := 8
def ERR_OPEN_FILE : Nat := 10
def ERR_READ_FILE : Nat := 11

/-- `if nbFiles == 1 { one task, run by the main goroutine } else { all names first, then
`checkOutputNames` (unless the output is none / stdout), then one task per file }`;
`chk` is `checkOutputNames` -/
def mkTasks (chk : List Str → List Str → Bool) (decomp : Bool) (isDir special : Bool)
    (fin fout : Str) (files : List Str) : Plan :=
  if files.length = 1 then .tasks (files.map fun i => (i, oNameSingle decomp isDir special fin fout i))
  else
    let ts := files.map fun i => (i, oName decomp isDir special fin fout i)
    if !special && !chk (ts.map (·.1)) (ts.map (·.2)) then .err ERR_OVERWRITE_FILE
    else .tasks ts

/-- `formattedInName` of a directory input -/
def finOf (inp : Str) : Str :=
  -- `len > 1 && name[len-1] == '.' && name[len-2] == '/'`: only the non-recursive form `X/.`
  let f1 := if inp.length > 1 ∧ inp.getLast? = some DOT ∧ inp.dropLast.getLast? = some SEP
    then inp.dropLast else inp
  if f1.getLast? ≠ some SEP then f1 ++ [SEP] else f1

def foutOf (out : Str) : Str := if out.getLast? ≠ some SEP then out ++ [SEP] else out

/-- `-i X/.` (longer than 2 bytes): only the regular files directly in `X` -/
def isNonRec (inp : Str) : Bool := inp.length > 2 ∧ inp.drop (inp.length - 2) = [SEP, DOT]

def targetOf (inp : Str) : Str := if isNonRec inp then inp.dropLast else inp

/-- `Compress()` / `Decompress()` up to the creation of the tasks, with the pre-flight check `chk` -/
def planWith (chk : List Str → List Str → Bool) (fs : FS) (a : Args) : Plan :=
  if a.inp = [] ∨ eqFold a.inp STDIN then .unsupported else
  match createFileList fs (targetOf a.inp) (!isNonRec a.inp) a.noLinks a.noDot with
  | .error => .err ERR_OPEN_FILE
  | .unsupported => .unsupported
  | .ok files =>
    if files = [] then .err ERR_OPEN_FILE else
    let special := isSpecial a.out
    match fs.stat a.inp with
    | none => .err ERR_OPEN_FILE
    | some (k, _) =>
      if k = .dir then
        if a.out ≠ [] ∧ ¬ special then
          match fs.stat a.out with
          | none => .err ERR_OPEN_FILE
          | some (ko, _) =>
            if ko ≠ .dir then .err ERR_CREATE_FILE
            else mkTasks chk a.decomp true special (finOf a.inp) (foutOf a.out) files
        else mkTasks chk a.decomp true special (finOf a.inp) a.out files
      else
        if a.out ≠ [] ∧ ¬ special ∧ (fs.stat a.out).map (·.1) = some .dir then .err ERR_CREATE_FILE
        else mkTasks chk a.decomp false special [] a.out files

/-- the tool -/
def plan (fs : FS) (a : Args) : Plan := planWith checkOutputNames fs a

/-- the tool without its pre-flight check (what it did before the check was added): used to
state what the check refuses -/
def planUnchecked (fs : FS) (a : Args) : Plan := planWith (fun _ _ => true) fs a

/-! ### what happens to the tasks (`openOutputFile`, first steps of `call`): an envelope of the
exit status, used only by the correspondence stream -/

/-- exit status of one task run alone on the initial file system, `0` when it is not refused -/
def taskCode (fs : FS) (a : Args) (t : Str × Str) : Nat :=
  let i := t.1
  let o := t.2
  let inputSide :=
    match fs.lstat i with
    | some (.linkBad, _) => ERR_OPEN_FILE
    | some (.linkDir, _) => ERR_READ_FILE
    | _ => 0
  if isSpecial o then inputSide
  else if !a.force then
    if (fs.lstat o).isSome then ERR_OVERWRITE_FILE
    else if !fs.canMk o then ERR_CREATE_FILE
    else inputSide
  else
    match fs.stat i, fs.stat o with
    | some (_, n), some (ko, m) =>
      if n = m then ERR_CREATE_FILE
      else if ko = .dir then ERR_CREATE_FILE
      else inputSide
    | _, some (ko, _) => if ko = .dir then ERR_CREATE_FILE else inputSide
    | _, none => if !fs.canMk o then ERR_CREATE_FILE else inputSide

def hasDup : List Str → Bool
  | [] => false
  | x :: xs => xs.contains x || hasDup xs

/-- two tasks write the same file -/
def collide (ts : List (Str × Str)) : Bool :=
  hasDup ((ts.filter fun t => !isSpecial t.2).map fun t => clean t.2)

/-- the output of a task is the input of ANOTHER task -/
def outIsInput (ts : List (Str × Str)) : Bool :=
  ts.any fun t => !isSpecial t.2 && ts.any fun u => clean u.1 == clean t.2 && u.1 != t.1

/-- the output of a task is a directory another output has to be created in -/
def parentClash (ts : List (Str × Str)) : Bool :=
  ts.any fun t => !isSpecial t.2 && ts.any fun u =>
    !isSpecial u.2 && (clean t.2 ++ [SEP]).isPrefixOf (clean u.2)

inductive Verdict
  | exact                  -- exit status 0 and exactly the predicted outputs are created
  | oneOf (codes : List Nat)
  | any
  deriving DecidableEq

def ERR_WRITE_FILE : Nat := 12
def ERR_PROCESS_BLOCK : Nat := 13

def verdict (fs : FS) (a : Args) (ts : List (Str × Str)) : Verdict :=
  let statics := (ts.map (taskCode fs a)).filter (· ≠ 0)
  let dyn := collide ts || outIsInput ts || parentClash ts
  -- the first task that ends closes the standard output; the writer of the next one fails
  -- (compression: always; decompression: as soon as it has a byte to write)
  if (ts.filter fun t => eqFold t.2 STDOUT).length > 1 then
    .oneOf (statics ++ (if a.decomp then [ERR_WRITE_FILE, 0] else [ERR_PROCESS_BLOCK]))
  else if statics = [] ∧ ¬ dyn then .exact
  else if a.force ∧ dyn then .any
  else .oneOf (statics ++ (if dyn then [ERR_OVERWRITE_FILE] else []) ++
    (if parentClash ts then [ERR_CREATE_FILE] else []) ++ (if a.rm ∧ outIsInput ts then [0] else []))

/-! ### a concrete file system for the correspondence stream: a listing of the entries below the
working directory -/

structure Ent where
  comps : List Str     -- relative to `World.base`, never empty
  kind : Kind

structure World where
  base : List Str      -- absolute path of the directory the listing describes, as components
  cwd : List Str       -- absolute path of the working directory of the tool (`base` or below)
  ents : List Ent

def isPrefix : List Str → List Str → Bool
  | [], _ => true
  | _ :: _, [] => false
  | a :: as, b :: bs => a == b && isPrefix as bs

def World.find (w : World) (rel : List Str) : Option (Kind × Nat) :=
  match w.ents.findIdx? (fun e => e.comps == rel) with
  | none => none
  | some k => (w.ents[k]?).map fun e => (e.kind, k + 2)

/-- kind and identity of the absolute component list `abs` (`Lstat`) -/
def World.look (w : World) (abs : List Str) : Option (Kind × Nat) :=
  if isPrefix w.base abs then
    let rel := abs.drop w.base.length
    if rel = [] then some (.dir, 1) else w.find rel
  else if isPrefix abs w.base then some (.dir, 0)
  else none

/-- resolve the components of a path one by one (physical resolution: every component that is
followed by another one must be a directory); `none`: ENOENT / ENOTDIR / outside the world -/
def World.walkTo (w : World) : List Str → List Str → Option (List Str)
  | st, [] => some st
  | st, c :: cs =>
    match w.look st with
    | some (.dir, _) =>
      if c = [] ∨ c = [DOT] then w.walkTo st cs
      else if c = DOTDOT then w.walkTo st.dropLast cs
      else w.walkTo (st ++ [c]) cs
    | _ => none

def World.resolve (w : World) (p : Str) : Option (List Str) :=
  if p = [] then none
  else w.walkTo (if isRooted p then [] else w.cwd) (splitSep p)

def follow : Kind × Nat → Option (Kind × Nat)
  | (.linkFile, n) => some (.file, n)
  | (.linkDir, n) => some (.dir, n)
  | (.linkBad, _) => none
  | x => some x

def World.lstat (w : World) (p : Str) : Option (Kind × Nat) := (w.resolve p).bind w.look
def World.stat (w : World) (p : Str) : Option (Kind × Nat) := (w.lstat p).bind follow

def World.tree (w : World) (p : Str) : List (List Str × Kind) :=
  match w.resolve p with
  | none => []
  | some abs =>
    match w.look abs with
    | some (.dir, _) =>
      if isPrefix w.base abs then
        let rel := abs.drop w.base.length
        w.ents.filterMap fun e =>
          if isPrefix rel e.comps ∧ e.comps.length > rel.length then some (e.comps.drop rel.length, e.kind) else none
      else []
    | _ => []

/-- can the parents of `p` be created / used as directories -/
def World.canMkFrom (w : World) : List Str → List Str → Bool
  | _, [] => true
  | _, [_] => true
  | st, c :: cs =>
    if c = [] ∨ c = [DOT] then w.canMkFrom st cs
    else if c = DOTDOT then w.canMkFrom st.dropLast cs
    else match w.look (st ++ [c]) with
      | none => true
      | some (.dir, _) => w.canMkFrom (st ++ [c]) cs
      | some _ => false

def World.canMk (w : World) (p : Str) : Bool :=
  w.canMkFrom (if isRooted p then [] else w.cwd) (splitSep p)

def World.fs (w : World) : FS :=
  { stat := w.stat, lstat := w.lstat, tree := w.tree, canMk := w.canMk }

/-- the file an output path denotes, relative to `base` (`none`: outside) -/
def World.relOf (w : World) (p : Str) : Option (List Str) :=
  let q := stackOf (if isRooted p then p else SEP :: joinSep w.cwd ++ SEP :: p)
  let abs := q.reverse
  if isPrefix w.base abs then some (abs.drop w.base.length) else none

end Kanzi.CliPaths
