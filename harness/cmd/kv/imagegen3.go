package main

// imagegen3: full-stream byte image correspondence for the block codec model with the transforms UTF / EXE /
// ROLZ / ROLZX / BWT / BWTS (besides the twelve of imagegen2; no TEXT) and the entropy codecs of imagegen2.
// Lean: Kanzi.BlockGen2.streamImageGen2 over the kinds of Kanzi.BlockGen3 / Kanzi.BlockGen3.parseImageGen3, driver
// `kmodel imagegen3`.
//
//   imgg3  bs= ck= tr=T1+T2+.. en= hint= j= skip= fam= seed= sizes=n1,n2,.. [hex=<data>]
//          the REAL Writer (public API kanzi-go/v2/io, `j` jobs) is fed the data (the bytes of `hex` when given, else
//          family `fam`: 30 = UTF-8 text with many code points, the others are those of imagegen2) in Write calls of
//          the given sizes and closed.  Output: "n=<bytes> h=<hash32> b=<mode.flags.post.bits,..> [x=<hex>]" of the sink.
//          Oracles: every Write/Close succeeds, GetWritten = sink length, and the REAL Reader (jobs j) returns exactly
//          the data from the sink.
//   imggr3 (same fields)  the same line, then " | r=<class>:<bytes>:<hash32>" of what the REAL Reader returned.
//
// The Lean driver must reproduce every line: the model's image IS the real Writer's image, byte for byte.  In the
// model the forward BWT / BWTS are the SPECIFICATIONS (naive suffix sort / sorted rotations of the Lyndon factors), so
// every BWT / BWTS scenario also ties the real DivSufSort based Forward to its specification, through the whole
// stream; they are quadratic in Lean, hence the small blocks.

import (
	"bytes"
	"encoding/hex"
	"fmt"
	"math/rand"
	"strconv"
	"strings"
	"time"

	"kverif/internal/gen"
)

func ig3Utf8Char(seed, k int) rune {
	m := igMix(k, seed)
	c := m % 16
	v := int(m / 16)
	switch {
	case c < 6:
		return rune(97 + v%26)
	case c == 6:
		return 32
	case c < 11:
		return rune(0x400 + v%(16+seed%200))
	case c < 14:
		return rune(0x4E00 + v%(32+seed%3000))
	}
	return rune(0x1F300 + v%(8+seed%500))
}

func ig3Data(fam, seed, per, n int) []byte {
	if fam != 30 {
		return ig2Data(fam, seed, per, n)
	}
	b := make([]byte, 0, n+4)
	for k := 0; len(b) < n; k++ {
		b = append(b, string(ig3Utf8Char(seed, k))...)
	}
	return b[:n]
}

func ig3FamName(o *igOp) string {
	if o.hexs != "" {
		return "hex"
	}
	if o.fam == 30 {
		return "utf8"
	}
	return ig2FamName(o.fam)
}

func imagegen3Exec(op string, res *Result) string {
	o, _ := parseIgOp(op)
	if o == nil || (o.kind != "imgg3" && o.kind != "imggr3") || o.bs < 1024 || o.total > 1<<22 {
		return "bad-op"
	}
	res.Sample = map[string]any{"scenario": op[:min(len(op), 300)]}
	var data []byte
	if o.hexs != "" {
		d, err := hex.DecodeString(o.hexs)
		if err != nil || len(d) < o.total {
			return "bad-op"
		}
		data = d[:o.total]
	} else {
		data = ig3Data(o.fam, o.seed, o.bs, o.total)
	}
	res.Tags = append(res.Tags, "op:"+o.kind, fmt.Sprintf("ck:%d", o.ck), fmt.Sprintf("j:%d", o.j), fmt.Sprintf("bs:%d", o.bs),
		"en:"+o.en, fmt.Sprintf("stages:%d", igStages(o.tr)), "data:"+ig3FamName(o), fmt.Sprintf("skipBlocks:%v", o.skip))
	sink, out := igWrite(o, data, res)
	if out != "" {
		return out
	}
	line := igDescribe(o, sink, res)
	ig2Tags(o, sink, res)
	res.Nontrivial = o.total > 0
	if res.Violation != nil {
		return line
	}
	got, cls := imgReadAll(sink, o.j, res)
	if res.Violation == nil && (cls != "ok" || !bytes.Equal(got, data)) {
		res.Violation = &Violation{Kind: "input", Site: "io.Reader.Read", Symptom: "roundtrip-mismatch",
			What: fmt.Sprintf("%s/%s bs=%d ck=%d: Reader (jobs %d) returned %d bytes (hash %d), class %s (%s); expected %d bytes (hash %d)", o.tr, o.en, o.bs, o.ck, o.j, len(got), hash32(got), cls, ig2ReadErr(sink, o.j), len(data), hash32(data))}
	}
	if o.kind == "imggr3" {
		return line + fmt.Sprintf(" | r=%s:%d:%d", cls, len(got), hash32(got))
	}
	return line
}

// ---- generator

var ig3New = []string{"UTF", "EXE", "ROLZ", "ROLZX", "BWT", "BWTS"}
var ig3Ents = []string{"NONE", "HUFFMAN", "RANGE", "ANS1", "ANS0"}

// the largest block handed to the forward BWT / BWTS specification in Lean (cost grows quadratically); halved in the
// quick tier
var ig3MaxBwt = 4096
var ig3MaxBwts = 2048

// block size cap for a chain (the Lean cost of the spec suffix sorts): BWTS 2048; BWT 4096 when it is the only BWT
// and works on the data itself or on UTF / EXE / LZP output, else 2048 (the naive sort is slowest on the long runs
// that ZRLT / SRT / RANK / a first BWT leave)
func ig3Cap(tr string, bs int) int {
	nbwt, plain := 0, true
	for _, t := range strings.Split(tr, "+") {
		switch t {
		case "BWTS":
			bs = min(bs, ig3MaxBwts)
			plain = false
		case "BWT":
			nbwt++
			if nbwt > 1 || !plain {
				bs = min(bs, ig3MaxBwt/2)
			} else {
				bs = min(bs, ig3MaxBwt)
			}
			plain = false
		case "UTF", "EXE", "LZP", "NONE", "":
		default:
			plain = false
		}
	}
	return bs
}

func ig3Line(kind string, bs, ck int, tr, en string, hint int64, j int, skip bool, fam, seed int, sizes string, data []byte) string {
	s := igLine(kind, bs, ck, tr, en, hint, j, skip, fam, seed, sizes)
	if data != nil {
		s += " hex=" + hex.EncodeToString(data)
	}
	return s
}

// structured data the formula families do not cover; `n` bytes, `bs` = block size (per-block headers)
func ig3Special(r *rand.Rand, kind string, n, bs int) []byte {
	var b []byte
	switch kind {
	case "elf": // consistent ELF64 section table + x86-like code, one image per block
		for len(b) < n {
			b = append(b, gen.ElfSections(r, bs, false)...)
		}
	case "elf-wild":
		for len(b) < n {
			b = append(b, gen.ElfSections(r, bs, true)...)
		}
	case "pe":
		for len(b) < n {
			b = append(b, gen.PE(r, bs, false)...)
		}
	case "exe-mz": // heuristic detection: x86-like jumps behind an MZ magic without a PE header
		for len(b) < n {
			b = append(b, gen.Exe(r, bs, false)...)
		}
	case "exe-elfmagic":
		for len(b) < n {
			b = append(b, gen.Exe(r, bs, true)...)
		}
	case "exehdr":
		for len(b) < n {
			b = append(b, g4ExeHeader(r, bs, r.Intn(7), r.Intn(3) != 0)...)
		}
	case "utf8-many":
		b = gen.UTF8(r, n, 50+r.Intn(3000))
	case "utf8-few":
		b = gen.UTF8(r, n, 3+r.Intn(30))
	case "text":
		b = gen.Text(r, n)
	case "reptext":
		b = gen.RepText(r, n)
	case "dna-repeats":
		b = gen.DNARepeats(r, n)
	case "mixed":
		b = gen.MixedSafe(r, n, bs)
	default:
		b = gen.Random(r, n)
	}
	for len(b) < n {
		b = append(b, byte(r.Intn(256)))
	}
	return b[:n]
}

var ig3Specials = []string{"elf", "elf-wild", "pe", "exe-mz", "exe-elfmagic", "exehdr", "utf8-many", "utf8-few", "text", "reptext", "dna-repeats", "mixed"}

// families (formula based) each new transform accepts / declines on blocks of at least 4096 bytes
var ig3Accept = map[string][]int{"UTF": {30}, "ROLZ": {13, 20, 10, 14}, "ROLZX": {13, 20, 10}, "BWT": {20, 30, 1, 13}, "BWTS": {20, 10, 1}}
var ig3Decline = map[string][]int{"UTF": {1, 9, 18}, "ROLZ": {1}, "ROLZX": {1}, "EXE": {1, 20}}

func ig3Chain(r *rand.Rand, n int) string {
	t := make([]string, n)
	for i := range t {
		if r.Intn(5) < 3 {
			t[i] = ig3New[r.Intn(len(ig3New))]
		} else {
			t[i] = ig2Tokens[r.Intn(len(ig2Tokens))]
		}
		if t[i] == "SRT" && r.Intn(2) == 0 {
			t[i] = "RANK"
		}
	}
	// at most one BWTS and two BWT per chain (Lean cost)
	nb, ns := 0, 0
	for i := range t {
		if t[i] == "BWT" {
			if nb++; nb > 2 {
				t[i] = "MTFT"
			}
		}
		if t[i] == "BWTS" {
			if ns++; ns > 1 {
				t[i] = "ZRLT"
			}
		}
	}
	return strings.Join(t, "+")
}

func imagegen3Gen(r *rand.Rand, tier string, n int, emit func(op string, tags ...string)) {
	thorough := tier == "thorough"
	if n == 0 {
		n = 40
		if thorough {
			n = 900
		}
	}
	ig3MaxBwt, ig3MaxBwts = 2048, 1024
	if thorough {
		ig3MaxBwt, ig3MaxBwts = 4096, 2048
	}
	cks := []int{0, 32, 64}
	k := 0
	kindOf := func() string {
		k++
		if k%3 == 0 {
			return "imggr3"
		}
		return "imgg3"
	}
	// 1. every new transform alone x every entropy codec: accepted and declined data, small totals
	for ti, tr := range ig3New {
		for ei, en := range ig3Ents {
			if !thorough && (ti+ei)%2 == 1 {
				continue
			}
			bs := ig3Cap(tr, []int{4096, 8192}[(ti+ei)%2])
			for vi, total := range []int{bs + bs/2, 40, 1500, 2*bs + 17} {
				if !thorough && vi >= 2 && (ti+ei+vi)%3 != 0 {
					continue
				}
				var data []byte
				fam := 0
				switch {
				case tr == "EXE":
					data = ig3Special(r, []string{"elf", "exe-mz", "pe", "exehdr", "exe-elfmagic", "elf-wild"}[(ei+vi)%6], total, bs)
					if vi == 3 {
						data, fam = nil, ig3Decline[tr][ei%2]
					}
				case vi == 3 && len(ig3Decline[tr]) > 0:
					fam = ig3Decline[tr][(ei+vi)%len(ig3Decline[tr])]
				default:
					fam = ig3Accept[tr][(ei+vi)%len(ig3Accept[tr])]
				}
				emit(ig3Line(kindOf(), bs, cks[(ti+ei+vi)%3], tr, en, imgHint(r, k, total), 1+k%3, false, fam, k, imgSplit(r, total), data), "family:single-"+tr)
			}
		}
	}
	// 2. the chains of the CLI levels 3..9 without TEXT, and their neighbours
	levelChains := []struct {
		tr, en string
		sp     []string
		fams   []int
	}{
		{"UTF+PACK+MM+LZX", "HUFFMAN", []string{"utf8-many", "text", "mixed"}, []int{30, 12, 20}},
		{"UTF+EXE+PACK+MM+ROLZ", "NONE", []string{"elf", "utf8-few", "exe-mz", "mixed"}, []int{30, 13, 10}},
		{"UTF+BWT+RANK+ZRLT", "ANS0", []string{"utf8-many", "text", "reptext"}, []int{30, 20, 1}},
		{"UTF+BWT+SRT+ZRLT", "ANS1", []string{"utf8-few", "dna-repeats"}, []int{30, 10, 13}},
		{"LZP+UTF+BWT+LZP", "ANS1", []string{"reptext", "utf8-many"}, []int{13, 30, 6}},
		{"EXE+RLT+UTF+DNA", "HUFFMAN", []string{"utf8-few", "elf", "dna-repeats", "pe"}, []int{30, 10, 14}},
		{"BWTS+MTFT+ZRLT", "RANGE", []string{"text", "dna-repeats"}, []int{20, 1, 30}},
		{"ROLZX", "NONE", []string{"reptext", "elf", "mixed"}, []int{13, 10, 1}},
		{"ROLZ+ROLZX", "HUFFMAN", []string{"reptext"}, []int{13, 20}},
		{"ROLZX+ROLZ", "NONE", []string{"text"}, []int{20, 13}},
		{"EXE+ROLZ", "ANS0", []string{"elf", "exe-mz"}, []int{18}},
		{"DNA+ROLZ", "RANGE", []string{"dna-repeats"}, []int{10}},
		{"MM+ROLZ", "NONE", nil, []int{12, 17}},
		{"UTF+ROLZX", "ANS0", []string{"utf8-many"}, []int{30}},
	}
	for ci, c := range levelChains {
		bs := ig3Cap(c.tr, []int{4096, 8192, 16384}[ci%3])
		for si, sp := range c.sp {
			if !thorough && si > 1 {
				break
			}
			total := []int{bs + 1200, 2*bs + 100, bs}[si%3]
			emit(ig3Line(kindOf(), bs, cks[(ci+si)%3], c.tr, c.en, 0, 1+(ci+si)%4, false, 0, 0, imgSplit(r, total), ig3Special(r, sp, total, bs)), "family:level-chain")
		}
		for fi, fam := range c.fams {
			if !thorough && fi > 0 {
				break
			}
			total := []int{2*bs + 300, bs + 40}[fi%2]
			emit(ig3Line(kindOf(), bs, cks[(ci+fi+1)%3], c.tr, c.en, int64(total), 1+(ci+fi)%3, false, fam, 300+ci*8+fi, imgSplit(r, total), nil), "family:level-chain")
		}
	}
	// 2b. the data type hint along the chain: set by encode from the magic number (ELF / MZ: EXE, RIFF: MULTIMEDIA, PK: BIN),
	// stored by UTF (UTF8), EXE (EXE, or the simple type detected when it is "not an executable"), ROLZ (the simple
	// type it detects), RLT / PACK / DNA / MM; read by UTF, EXE, ROLZ, ROLZX, RLT, PACK, DNA, LZ, LZX, MM
	ctxChains := []struct {
		tr string
		sp []string
		fm []int
	}{
		{"ROLZ+UTF", []string{"utf8-many", "dna-repeats"}, []int{30, 10}},
		{"ROLZ+DNA+ROLZ", []string{"dna-repeats"}, []int{10, 19}},
		{"ROLZ+RLT+EXE", []string{"elf", "text"}, []int{18, 14}},
		{"ROLZ+MM+ROLZX", nil, []int{12, 17, 19}},
		{"EXE+UTF+ROLZ", []string{"utf8-many", "elf", "exehdr"}, []int{30, 18}},
		{"EXE+PACK+ROLZX", []string{"text", "exe-mz"}, []int{19, 15}},
		{"UTF+EXE+ROLZ", []string{"utf8-few", "elf"}, []int{30, 8}},
		{"UTF+PACK+ROLZ+LZX", []string{"utf8-many"}, []int{30, 16}},
		{"MM+EXE+UTF+ROLZ", []string{"exe-elfmagic"}, []int{17, 12, 30}},
		{"RLT+ROLZ+PACK", []string{"dna-repeats"}, []int{14, 10}},
		{"LZX+ROLZ", []string{"elf"}, []int{18, 10}},
		{"EXE+LZ+ROLZX", []string{"elf", "pe"}, []int{18}},
	}
	for ci, c := range ctxChains {
		bs := []int{4096, 8192, 16384}[ci%3]
		for si, sp := range c.sp {
			if !thorough && si > 0 && (ci+si)%2 == 0 {
				continue
			}
			total := []int{2*bs + 100, bs + 4200, bs}[(ci+si)%3]
			emit(ig3Line(kindOf(), bs, cks[(ci+si)%3], c.tr, ig3Ents[(ci+si)%5], 0, 1+(ci+si)%4, false, 0, 0, imgSplit(r, total), ig3Special(r, sp, total, bs)), "family:ctx-threading")
		}
		for fi, fam := range c.fm {
			if !thorough && fi > 0 && (ci+fi)%2 == 1 {
				continue
			}
			total := []int{2*bs + 300, bs + 40}[fi%2]
			emit(ig3Line(kindOf(), bs, cks[(ci+fi+1)%3], c.tr, ig3Ents[(ci+fi+2)%5], int64(total), 1+(ci+fi)%3, false, fam, 500+ci*8+fi, imgSplit(r, total), nil), "family:ctx-threading")
		}
	}
	// 3. chains of every length 2..8 over all eighteen names
	for ln := 2; ln <= 8; ln++ {
		reps := 2
		if thorough {
			reps = 30
		}
		for i := 0; i < reps; i++ {
			tr := ig3Chain(r, ln)
			bs := ig3Cap(tr, []int{4096, 2048, 8192}[(i+ln)%3])
			total := []int{bs + 300, 3*bs + 5, 1500, bs}[(i+ln)%4]
			var data []byte
			fam := []int{13, 20, 30, 10, 12, 15, 9, 1, 4, 16, 19, 11, 17, 18, 5, 14}[(i*7+ln)%16]
			if (i+ln)%3 == 0 {
				data = ig3Special(r, ig3Specials[(i*5+ln)%len(ig3Specials)], total, bs)
			}
			emit(ig3Line(kindOf(), bs, cks[(i+ln)%3], tr, ig3Ents[(i+ln)%5], 0, 1+i%4, i%9 == 8, fam, i*8+ln, imgSplit(r, total), data), fmt.Sprintf("family:chain-%d", ln))
		}
	}
	// 3b. last blocks at the size thresholds of the transforms: BWT 1 / 8 chunks (255, 256), ROLZ / ROLZX minimum (63, 64),
	// UTF minimum (1023, 1024), EXE minimum (4095, 4096), copy blocks (15, 16)
	for i, tail := range []int{15, 16, 63, 64, 255, 256, 257, 1023, 1024, 4095, 4096} {
		for ti, tr := range []string{"BWT", "ROLZ+ROLZX", "UTF+BWTS", "EXE+ROLZ", "BWT+BWT", "ROLZX"} {
			if !thorough && (i+ti)%3 != 0 {
				continue
			}
			bs := ig3Cap(tr, 8192)
			if tail >= bs {
				continue
			}
			fam, data := []int{20, 13, 30, 18, 10, 13}[ti], []byte(nil)
			if tr == "EXE+ROLZ" {
				data = append(ig3Special(r, "elf", bs, bs), ig3Special(r, "elf", tail, tail)...)
			}
			emit(ig3Line(kindOf(), bs, cks[(i+ti)%3], tr, ig3Ents[(i+ti)%5], 0, 1+(i+ti)%2, false, fam, i*8+ti, fmt.Sprintf("%d,%d", bs, tail), data), "family:size-thresholds")
		}
	}
	// 4. skipBlocks, FPAQ / CM (small: the bitwise models are slow in Lean)
	for i, tr := range []string{"UTF+BWT", "EXE+ROLZ", "ROLZX", "BWTS"} {
		bs := ig3Cap(tr, 4096)
		emit(ig3Line(kindOf(), bs, cks[i%3], tr, ig3Ents[i%5], 0, 1+i%2, true, []int{30, 18, 8, 1}[i], i, imgSplit(r, []int{5000, 9000, 4500, 2100}[i]), nil), "family:skipBlocks")
	}
	for i, tr := range []string{"BWT+RANK+ZRLT", "UTF+ROLZ"} {
		if !thorough && i > 0 {
			break
		}
		emit(ig3Line(kindOf(), 1024, cks[i%3], tr, []string{"FPAQ", "CM"}[i%2], 0, 1, false, []int{20, 30}[i], i, strconv.Itoa(1500), nil), "family:fpaq-cm")
	}
	// 5. larger blocks for the transforms that are not quadratic in Lean
	bigs := []struct {
		tr, en, sp string
		bs, total  int
	}{{"UTF+ROLZ", "ANS0", "utf8-many", 65536, 70000}, {"EXE+ROLZX", "NONE", "elf", 32768, 40000}}
	if thorough {
		bigs = append(bigs, struct {
			tr, en, sp string
			bs, total  int
		}{"ROLZ", "HUFFMAN", "reptext", 262144, 300000}, struct {
			tr, en, sp string
			bs, total  int
		}{"UTF+EXE+PACK+MM+ROLZ", "NONE", "mixed", 131072, 200000})
	}
	for i, b := range bigs {
		emit(ig3Line(kindOf(), b.bs, cks[i%3], b.tr, b.en, 0, 1+i%2, false, 0, 0, imgSplit(r, b.total), ig3Special(r, b.sp, b.total, b.bs)), "family:big")
	}
	// 6. random
	for i := 0; i < n; i++ {
		tr := ig3Chain(r, 1+r.Intn(6))
		bs := ig3Cap(tr, []int{1024, 2048, 4096, 8192, 16384}[r.Intn(5)])
		total := 0
		switch r.Intn(6) {
		case 0:
			total = r.Intn(1200)
		case 1:
			total = bs*(1+r.Intn(3)) + r.Intn(3) - 1
		default:
			total = r.Intn(2*bs+1) + bs/2
		}
		var data []byte
		fam := r.Intn(23)
		switch r.Intn(4) {
		case 0:
			fam = 30
		case 1:
			data = ig3Special(r, ig3Specials[r.Intn(len(ig3Specials))], total, bs)
		case 2:
			// data the first new transform of the chain accepts
			if strings.Contains(tr, "EXE") && bs >= 4096 {
				data = ig3Special(r, []string{"elf", "pe"}[r.Intn(2)], total, bs)
			} else if strings.HasPrefix(tr, "UTF") {
				data = ig3Special(r, []string{"utf8-many", "utf8-few"}[r.Intn(2)], total, bs)
			}
		}
		emit(ig3Line(kindOf(), bs, cks[r.Intn(3)], tr, ig3Ents[r.Intn(5)], imgHint(r, r.Intn(5), total), 1+r.Intn(4), r.Intn(10) == 0,
			fam, r.Intn(1000), imgSplit(r, total), data), "family:random")
	}
}

func init() {
	registerStream(&Stream{
		Name:     "imagegen3",
		Watchdog: 300 * time.Second,
		Rule:     "whole streams of the REAL Writer for transform chains over UTF/EXE/ROLZ/ROLZX/BWT/BWTS + the twelve names of imagegen2 (1..8 names, no TEXT) x entropy NONE/HUFFMAN/RANGE/ANS1/ANS0 (FPAQ and CM in one small directed family) x checksum 0/32/64 x block sizes 1024..16384 (65536 / 32768 once; BWT blocks at most 4096, BWTS at most 2048 bytes, half of that in the quick tier: the model's forward is the quadratic specification) x jobs 1..4 x option skipBlocks; data: the 23 formula families of imagegen2, UTF-8 text with many code points (family 30), and structured data carried in the op (ELF64 images with consistent / wild section tables, PE, MZ / ELF magic + x86-like code for the heuristic detection, random headers of every executable kind, UTF-8 with 3..3000 symbols, English text, repetitive text, DNA with repeats, mixed blocks); directed: every new transform alone with every entropy codec on accepted and declined data, the chains of the CLI levels 3..9 without TEXT and neighbours (ROLZ next to ROLZX: both are built as ROLZX), chains of every length; imgg3 = Writer image vs Lean image (length, hash, per frame mode.flags.post.bits, hex when <= 600 bytes), imggr3 = + real Reader result; distinct_nontrivial = distinct scenarios with at least one data byte",
		Gen:      imagegen3Gen,
		Exec:     imagegen3Exec,
	})
}
