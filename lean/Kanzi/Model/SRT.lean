/-
Model of the sorted rank transform `transform.SRT` (v2/transform/SRT.go), slice `srt`, property C13.

  * `srtForwardFill` / `srtForward`  = `SRT.Forward`   (first-symbol / frequency pass, `preprocess`,
                                        bucket table, `encodeHeader`, rank encoding loop)
  * `srtInverse`                     = `SRT.Inverse`   (`decodeHeader`, `preprocess`, bucket table,
                                        decoding loop)
  * `preprocess`                     = `SRT.preprocess` (collect the present symbols + Shell sort with
                                        the gap sequence 1, 4, 13, 40, 121 ... by decreasing frequency)
  * `encodeHeader` / `decodeHeader`  = the varint header (256 frequencies)
  * `maxEncodedLen`                  = `SRT.MaxEncodedLen`

Core Lean only (linked into `kmodel`).  Bytes are `Nat` (< 256).  A Go call `Forward(src, dst)` /
`Inverse(src, dst)` is a function of the value of `src` and of `len(dst)`; the result is

    .ok out   nil error, `out = dst[0:written]`
    .err      a non-nil error is returned
    .fault    the Go code panics (slice index out of range)

The 256-entry Go arrays (`freqs`, `s2r`, `r2s`, `symbols`, `buckets`, `bucketEnds`) are `Array Nat`
read with `rd` and written with `wr`; every index into them is a byte (or `< nbSymbols ≤ 256`), so
they cannot fault.  The two slices that CAN be indexed out of range are `dst` in Forward and `src`
in Inverse: each such access is checked explicitly and yields `.fault`.

Integer types.  `freqs` is `[256]int32` in Go; the model uses unbounded `Nat`.  This is exact as long
as no frequency reaches 2^31, i.e. for `len(src) < 2^31` (the compressor hands over at most 2^30
bytes); decoded header values are `< 2^31`.  `bucketPos` is a Go `int` (64 bit): sums of at most 256
such values cannot wrap, and it is never negative.  `nbSymbols` in the decoding loop can go below
zero in Go when the header announces no symbol at all; the model truncates at 0, which takes the
same branches (the value is only compared with 1 and used as a loop bound).

Run loops.  Forward handles a run of equal bytes with an inner loop (frequency pass: the run length
is added at once; encoding loop: rank 0 is written for every further byte of the run).  The model
walks the block byte by byte and carries `prev` = the symbol of the current run, taking the "inner
loop" branch when the next byte equals it.
-/
namespace Kanzi.SRT

inductive Res where
  | ok (out : List Nat)
  | err
  | fault
deriving Repr, DecidableEq, Inhabited

/-- Go array read `a[i]` -/
def rd (a : Array Nat) (i : Nat) : Nat := a.getD i 0
/-- Go array write `a[i] = v` -/
def wr (a : Array Nat) (i v : Nat) : Array Nat := a.setIfInBounds i v

/-- a zeroed `[256]T` -/
def zeros : Array Nat := Array.replicate 256 0

/-- `_SRT_MAX_HEADER_SIZE = 5 * 256`; Go: `SRT.MaxEncodedLen` -/
def maxEncodedLen (n : Nat) : Nat := n + 5 * 256

/-! ## header -/

/-- Go `encodeHeader`, one frequency:
    `for f >= 128 { dst[n] = byte(0x80 | (f & 0x7F)); n++; f >>= 7 }; dst[n] = byte(f); n++`.
    The first argument is fuel; `f` itself suffices because `f >>> 7 < f` for `f ≥ 128`. -/
def encVarGo : Nat → Nat → List Nat
  | 0, f => [f % 256]
  | k + 1, f => if f ≥ 128 then ((0x80 ||| (f &&& 0x7F)) % 256) :: encVarGo k (f >>> 7) else [f % 256]

def encVar (f : Nat) : List Nat := encVarGo f f

/-- Go `encodeHeader`: the bytes written for the 256 frequencies (the return value is their number) -/
def encodeHeader (freqs : List Nat) : List Nat := freqs.flatMap encVar

/-- Go `decodeHeader`, one frequency, reading from the front of `src`: (value, remaining input);
    `none` = index out of range.  At most five bytes are read; of the fifth byte only the low three
    bits are used (`(val & 0x07) << 28`: the value fits in a non-negative int32) and its continuation
    bit is ignored. -/
def decVar : List Nat → Option (Nat × List Nat)
  | [] => none
  | v0 :: s0 =>
    if v0 < 128 then some (v0, s0)
    else match s0 with
      | [] => none
      | v1 :: s1 =>
        let res1 := (v0 &&& 0x7F) ||| ((v1 &&& 0x7F) <<< 7)
        if v1 ≥ 128 then
          match s1 with
          | [] => none
          | v2 :: s2 =>
            let res2 := res1 ||| ((v2 &&& 0x7F) <<< 14)
            if v2 ≥ 128 then
              match s2 with
              | [] => none
              | v3 :: s3 =>
                let res3 := res2 ||| ((v3 &&& 0x7F) <<< 21)
                if v3 ≥ 128 then
                  match s3 with
                  | [] => none
                  | v4 :: s4 => some (res3 ||| ((v4 &&& 0x07) <<< 28), s4)
                else some (res3, s3)
            else some (res2, s2)
        else some (res1, s1)

/-- `k` frequencies -/
def decHdrGo : Nat → List Nat → Option (List Nat × List Nat)
  | 0, src => some ([], src)
  | k + 1, src =>
    match decVar src with
    | none => none
    | some r =>
      match decHdrGo k r.2 with
      | none => none
      | some q => some (r.1 :: q.1, q.2)

/-- Go `decodeHeader` followed by `src = src[headerSize:]`: (freqs, rest of src) -/
def decodeHeader (src : List Nat) : Option (List Nat × List Nat) := decHdrGo 256 src

/-! ## preprocess -/

/-- first loop of `preprocess`: the symbols with a non-zero frequency, increasing
    (`symbols[0:nbSymbols]`) -/
def ppCollect (freqs : Array Nat) : List Nat :=
  (List.range 256).filter (fun i => rd freqs i != 0)

/-- `h := 4; for h < nbSymbols { h = h*3 + 1 }` (first argument: fuel, `nbSymbols` is enough) -/
def ppGap (nb : Nat) : Nat → Nat → Nat
  | 0, h => h
  | k + 1, h => if h < nb then ppGap nb k (h * 3 + 1) else h

/-- loop condition on `sb = symbols[b]` while inserting `t`:
    `freqs[symbols[b]] < freqs[t] || (t < symbols[b] && freqs[t] == freqs[symbols[b]])` -/
def ppCond (freqs : Array Nat) (t sb : Nat) : Bool :=
  rd freqs sb < rd freqs t || (t < sb && rd freqs t == rd freqs sb)

/-- `for b = i-h; b >= 0 && cond; b -= h { symbols[b+h] = symbols[b] }; symbols[b+h] = t`
    with `pos = b+h` (so `b >= 0` is `pos ≥ h`); first argument: fuel (`pos + 1` suffices for `h ≥ 1`) -/
def ppInsert (freqs : Array Nat) (h t : Nat) : Nat → Nat → Array Nat → Array Nat
  | 0, pos, sym => wr sym pos t
  | k + 1, pos, sym =>
    if pos ≥ h ∧ ppCond freqs t (rd sym (pos - h)) then
      ppInsert freqs h t k (pos - h) (wr sym pos (rd sym (pos - h)))
    else wr sym pos t

/-- `for i := h; i < nbSymbols; i++ { t := symbols[i]; … }` (first argument: remaining iterations) -/
def ppPass (freqs : Array Nat) (h : Nat) : Nat → Nat → Array Nat → Array Nat
  | 0, _, sym => sym
  | k + 1, i, sym => ppPass freqs h k (i + 1) (ppInsert freqs h (rd sym i) (i + 1) i sym)

/-- `for { h /= 3; pass; if h == 1 { break } }` (first argument: fuel, `h` is enough) -/
def ppOuter (freqs : Array Nat) (nb : Nat) : Nat → Nat → Array Nat → Array Nat
  | 0, _, sym => sym
  | k + 1, h, sym =>
    if h / 3 = 1 then ppPass freqs (h / 3) (nb - h / 3) (h / 3) sym
    else ppOuter freqs nb k (h / 3) (ppPass freqs (h / 3) (nb - h / 3) (h / 3) sym)

/-- Go `preprocess`: `symbols[0:nbSymbols]` (the return value `nbSymbols` is the length) -/
def preprocess (freqs : Array Nat) : List Nat :=
  (ppOuter freqs (ppCollect freqs).length
      (ppGap (ppCollect freqs).length (ppCollect freqs).length 4)
      (ppGap (ppCollect freqs).length (ppCollect freqs).length 4)
      (ppCollect freqs).toArray).toList

/-! ## Forward -/

/-- state of the first loop of Forward -/
structure CSt where
  b : Nat
  freqs : Array Nat
  r2s : Array Nat
  s2r : Array Nat

/-- "find first symbols and count occurrences" -/
def fwdCount : List Nat → Option Nat → CSt → CSt
  | [], _, st => st
  | x :: rest, prev, st =>
    if prev = some x then
      -- inner run loop (`j++`), the run length is added at once
      fwdCount rest prev { st with freqs := wr st.freqs x (rd st.freqs x + 1) }
    else if rd st.freqs x = 0 then
      fwdCount rest (some x)
        { b := st.b + 1, freqs := wr st.freqs x (rd st.freqs x + 1),
          r2s := wr st.r2s st.b x, s2r := wr st.s2r x (st.b % 256) }
    else
      fwdCount rest (some x) { st with freqs := wr st.freqs x (rd st.freqs x + 1) }

/-- `for i, bucketPos := 0, 0; i < nbSymbols; i++ { c := symbols[i]; buckets[c] = bucketPos;
    bucketPos += int(freqs[c]) }` -/
def fwdBuckets (freqs : Array Nat) : List Nat → Nat → Array Nat → Array Nat
  | [], _, bk => bk
  | c :: rest, pos, bk => fwdBuckets freqs rest (pos + rd freqs c) (wr bk c pos)

/-- `for { t := r2s[r-1]; r2s[r], s2r[t] = t, r; if r == 1 { break }; r-- }` entered with `r > 0`:
    returns (s2r, r2s) -/
def mtfUp : Nat → Array Nat → Array Nat → Array Nat × Array Nat
  | 0, s2r, r2s => (s2r, r2s)
  | r + 1, s2r, r2s => mtfUp r (wr s2r (rd r2s r) (r + 1)) (wr r2s (r + 1) (rd r2s r))

/-- state of the encoding loop; `data` is `dst[headerSize:]` -/
structure ESt where
  s2r : Array Nat
  r2s : Array Nat
  buckets : Array Nat
  data : Array Nat

/-- the encoding loop; `none` = a write `dst[p]` is out of range -/
def fwdEncode : List Nat → Option Nat → ESt → Option ESt
  | [], _, st => some st
  | x :: rest, prev, st =>
    if rd st.buckets x ≥ st.data.size then none
    else if prev = some x then
      -- inner run loop: `dst[p] = 0; p++`
      fwdEncode rest prev
        { st with data := wr st.data (rd st.buckets x) 0, buckets := wr st.buckets x (rd st.buckets x + 1) }
    else if rd st.s2r x > 0 then
      fwdEncode rest (some x)
        { s2r := wr (mtfUp (rd st.s2r x) st.s2r st.r2s).1 x 0,
          r2s := wr (mtfUp (rd st.s2r x) st.s2r st.r2s).2 0 x,
          buckets := wr st.buckets x (rd st.buckets x + 1),
          data := wr st.data (rd st.buckets x) (rd st.s2r x) }
    else
      fwdEncode rest (some x)
        { st with data := wr st.data (rd st.buckets x) (rd st.s2r x),
                  buckets := wr st.buckets x (rd st.buckets x + 1) }

/-- Go: `SRT.Forward(src, dst)` with `len(dst) = dstLen`; `fill` is the value of the bytes of `dst`
    before the call (every byte of `dst[0:written]` is overwritten, so it does not matter:
    `Kanzi.C13.C13_srt` holds for every `fill`). -/
def srtForwardFill (fill : Nat) (src : List Nat) (dstLen : Nat) : Res :=
  if src.length = 0 ∨ dstLen = 0 then .ok []
  else if dstLen < maxEncodedLen src.length then .err
  else
    let cs := fwdCount src none ⟨0, zeros, zeros, zeros⟩
    let sym := preprocess cs.freqs
    let bk := fwdBuckets cs.freqs sym 0 zeros
    let hdr := encodeHeader cs.freqs.toList
    if hdr.length > dstLen then .fault
    else
      match fwdEncode src none ⟨cs.s2r, cs.r2s, bk, Array.replicate (dstLen - hdr.length) fill⟩ with
      | none => .fault
      | some es => .ok (hdr ++ es.data.toList.take src.length)

def srtForward (src : List Nat) (dstLen : Nat) : Res := srtForwardFill 0 src dstLen

/-! ## Inverse -/

/-- state of the bucket loop of Inverse -/
structure ISt where
  r2s : Array Nat
  buckets : Array Nat
  ends : Array Nat

inductive IRes where
  | ok (st : ISt)
  | err
  | fault

/-- `for i, bucketPos := 0, 0; i < nbSymbols; i++ { c := symbols[i];
      if bucketPos < 0 || bucketPos > len(src) { return error }
      r2s[src[bucketPos]] = c; buckets[c] = bucketPos + 1; bucketPos += int(freqs[c]);
      bucketEnds[c] = bucketPos }`  (`data` is `src[headerSize:]`) -/
def invInit (freqs data : Array Nat) : List Nat → Nat → ISt → IRes
  | [], _, st => .ok st
  | c :: rest, pos, st =>
    if pos > data.size then .err
    else if pos ≥ data.size then .fault
    else invInit freqs data rest (pos + rd freqs c)
      { r2s := wr st.r2s (rd data pos) c, buckets := wr st.buckets c (pos + 1),
        ends := wr st.ends c (pos + rd freqs c) }

/-- `for s := s0; s < s0+k; s++ { r2s[s] = r2s[s+1] }`.  (The rank branch unrolls this loop four
    times, `for s+4 < r {…}; for s < r {…}`, which performs the same assignments in the same order.) -/
def shiftDown : Nat → Nat → Array Nat → Array Nat
  | 0, _, a => a
  | k + 1, s, a => shiftDown k (s + 1) (wr a s (rd a (s + 1)))

/-- the decoding loop `for i := range dst`; first argument: remaining iterations; `none` = a read
    `src[buckets[c]]` is out of range -/
def invGo (data ends : Array Nat) : Nat → Nat → Array Nat → Array Nat → Nat → Array Nat →
    Option (Array Nat)
  | 0, _, _, _, _, out => some out
  | k + 1, c, r2s, buckets, nb, out =>
    if rd buckets c < rd ends c then
      if rd buckets c ≥ data.size then none
      else if rd data (rd buckets c) = 0 then
        invGo data ends k c r2s (wr buckets c (rd buckets c + 1)) nb (out.push c)
      else
        invGo data ends k
          (rd (wr (shiftDown (rd data (rd buckets c)) 0 r2s) (rd data (rd buckets c)) c) 0)
          (wr (shiftDown (rd data (rd buckets c)) 0 r2s) (rd data (rd buckets c)) c)
          (wr buckets c (rd buckets c + 1)) nb (out.push c)
    else if nb = 1 then invGo data ends k c r2s buckets nb (out.push c)
    else
      invGo data ends k (rd (shiftDown (nb - 1) 0 r2s) 0) (shiftDown (nb - 1) 0 r2s) buckets (nb - 1)
        (out.push c)

/-- Go: `SRT.Inverse(src, dst)` with `len(dst) = dstLen`.  The loop runs over all of `dst`; the
    function reports `len(src) - headerSize` bytes written, so the result is that prefix. -/
def srtInverse (src : List Nat) (dstLen : Nat) : Res :=
  if src.length = 0 ∨ dstLen = 0 then .ok []
  else
    match decodeHeader src with
    | none => .fault
    | some hd =>
      if hd.2.length > dstLen then .err
      else
        match invInit hd.1.toArray hd.2.toArray (preprocess hd.1.toArray) 0 ⟨zeros, zeros, zeros⟩ with
        | .err => .err
        | .fault => .fault
        | .ok st =>
          match invGo hd.2.toArray st.ends dstLen (rd st.r2s 0) st.r2s st.buckets
                  (preprocess hd.1.toArray).length #[] with
          | none => .fault
          | some out => .ok (out.toList.take hd.2.length)

end Kanzi.SRT
