package main

import (
	"bytes"
	"fmt"
	"io"

	kio "github.com/flanglet/kanzi-go/v2/io"
)

type sinkBuf struct{ bytes.Buffer }

func (*sinkBuf) Close() error { return nil }

type rc struct{ io.Reader }

func (rc) Close() error { return nil }

func main() {
	data := bytes.Repeat([]byte("hello kanzi headerless "), 500)
	for _, cfg := range [][2]string{{"NONE", "NONE"}, {"BWT", "ANS0"}, {"LZ", "HUFFMAN"}, {"TEXT", "CM"}} {
		var sb sinkBuf
		w, _ := kio.NewWriter(&sb, cfg[0], cfg[1], 4096, 1, 0, 0, true)
		w.Write(data)
		w.Close()
		// via NewHeaderlessReader (sets bsVersion uint)
		r1, err := kio.NewHeaderlessReader(rc{bytes.NewReader(sb.Bytes())}, 1, cfg[0], cfg[1], 4096, 0, 0, 6)
		var d1 []byte
		if err == nil {
			d1, err = io.ReadAll(r1)
		}
		fmt.Println(cfg, "NewHeaderlessReader:", err, bytes.Equal(d1, data))
		// via ctx without bsVersion
		ctx := map[string]any{"jobs": uint(1), "transform": cfg[0], "entropy": cfg[1], "blockSize": uint(4096), "headerless": true}
		r2, err := kio.NewReaderWithCtx(rc{bytes.NewReader(sb.Bytes())}, ctx)
		var d2 []byte
		if err == nil {
			d2, err = io.ReadAll(r2)
		}
		fmt.Println(cfg, "NewReaderWithCtx w/o bsVersion:", err, bytes.Equal(d2, data))
	}
}
