/-
Proofs for the whole-chunk / whole-block round trip of the order-0 rANS codec (property C12,
slice ans0).  Builds on the single step theorem `ans_step` (Kanzi/Proofs/EntSmallAns.lean), the
header round trip (Kanzi/Proofs/EntSmall.lean) and `normalize_valid` (Kanzi/Proofs/Normalize.lean).
Core Lean only (Mathlib enters through the imported EntSmallAns).
-/
import Kanzi.Model.EntSmall
import Kanzi.Proofs.EntSmall
import Kanzi.Proofs.EntSmallAns
import Kanzi.Proofs.Normalize

namespace Kanzi.EntSmall
open Kanzi.Bits

/-! ### A. the two symbol tables as lists -/

/-- cumulated frequency of symbol `s` -/
def cumF (f : List Nat) (s : Nat) : Nat := (f.take s).sum

def encSymsL (lr : Nat) : Nat → List Nat → List EncSym
  | _, [] => []
  | c, fi :: fs =>
    (if fi = 0 then (⟨0, 0, 0, 0, 0⟩ : EncSym) else encSymReset c fi lr) :: encSymsL lr (c + fi) fs

theorem mkEncSyms_fold (lr : Nat) : ∀ (f : List Nat) (arr : Array EncSym) (c : Nat),
    (f.foldl (fun (p : Array EncSym × Nat) fi =>
      if fi = 0 then (p.1.push ⟨0, 0, 0, 0, 0⟩, p.2)
      else (p.1.push (encSymReset p.2 fi lr), p.2 + fi)) (arr, c)).1
      = arr ++ (encSymsL lr c f).toArray := by
  intro f
  induction f with
  | nil => intro arr c; simp [encSymsL]
  | cons fi fs ih =>
    intro arr c
    rw [List.foldl_cons]
    by_cases h0 : fi = 0
    · subst h0
      simp only [if_true]
      rw [ih]
      simp [encSymsL]
    · simp only [if_neg h0]
      rw [ih]
      simp [encSymsL, h0]

theorem mkEncSyms_eq (f : List Nat) (lr : Nat) : mkEncSyms f lr = (encSymsL lr 0 f).toArray := by
  unfold mkEncSyms
  rw [mkEncSyms_fold]
  simp

theorem encSymsL_get (lr : Nat) : ∀ (f : List Nat) (c i : Nat), i < f.length → f.getD i 0 ≠ 0 →
    (encSymsL lr c f)[i]? = some (encSymReset (c + cumF f i) (f.getD i 0) lr) := by
  intro f
  induction f with
  | nil => intro c i h; simp at h
  | cons fi fs ih =>
    intro c i hi hne
    cases i with
    | zero =>
      simp only [List.getD_cons_zero] at hne
      simp [encSymsL, cumF, hne]
    | succ j =>
      simp only [List.getD_cons_succ] at hne
      simp only [encSymsL, List.getElem?_cons_succ, List.getD_cons_succ]
      rw [ih (c + fi) j (by simpa using hi) hne]
      simp [cumF, Nat.add_assoc]

theorem mkEncSyms_getD (f : List Nat) (lr s : Nat) (hs : s < f.length) (hne : f.getD s 0 ≠ 0) :
    (mkEncSyms f lr).getD s ⟨0, 0, 0, 0, 0⟩ = encSymReset (cumF f s) (f.getD s 0) lr := by
  rw [mkEncSyms_eq]
  have := encSymsL_get lr f 0 s hs hne
  simp [Array.getD_eq_getD_getElem?, this]

def decTblL (lr : Nat) : Nat → Nat → List Nat → List (Nat × DecSym)
  | _, _, [] => []
  | c, k, fi :: fs => List.replicate fi (k, decSymReset c fi lr) ++ decTblL lr (c + fi) (k + 1) fs

theorem mkDecTable_fold (lr : Nat) : ∀ (f : List Nat) (arr : Array (Nat × DecSym)) (c k : Nat),
    (f.foldl (fun (p : Array (Nat × DecSym) × Nat × Nat) fi =>
      if fi = 0 then (p.1, p.2.1, p.2.2 + 1)
      else (p.1 ++ Array.replicate fi (p.2.2, decSymReset p.2.1 fi lr), p.2.1 + fi, p.2.2 + 1))
      (arr, c, k)).1 = arr ++ (decTblL lr c k f).toArray := by
  intro f
  induction f with
  | nil => intro arr c k; simp [decTblL]
  | cons fi fs ih =>
    intro arr c k
    rw [List.foldl_cons]
    by_cases h0 : fi = 0
    · subst h0
      simp only [if_true]
      rw [ih]
      simp [decTblL]
    · simp only [if_neg h0]
      rw [ih, Array.append_assoc]
      congr 1
      apply Array.toList_inj.mp
      simp [decTblL]

theorem mkDecTable_eq (f : List Nat) (lr : Nat) : mkDecTable f lr = (decTblL lr 0 0 f).toArray := by
  unfold mkDecTable
  rw [mkDecTable_fold]
  simp

theorem decTblL_get (lr : Nat) : ∀ (f : List Nat) (c k i slot : Nat), i < f.length →
    cumF f i ≤ slot → slot < cumF f i + f.getD i 0 →
    (decTblL lr c k f)[slot]? = some (k + i, decSymReset (c + cumF f i) (f.getD i 0) lr) := by
  intro f
  induction f with
  | nil => intro c k i slot h; simp at h
  | cons fi fs ih =>
    intro c k i slot hi hlo hhi
    cases i with
    | zero =>
      simp only [cumF, List.take_zero, List.sum_nil, List.getD_cons_zero, Nat.zero_add] at hlo hhi
      simp only [decTblL]
      rw [List.getElem?_append_left (by simpa using hhi)]
      simp [cumF, hhi]
    | succ j =>
      have hc : cumF (fi :: fs) (j + 1) = fi + cumF fs j := by simp [cumF]
      rw [hc] at hlo hhi
      simp only [List.getD_cons_succ] at hhi
      simp only [decTblL, List.getD_cons_succ]
      rw [List.getElem?_append_right (by simpa using (by omega : fi ≤ slot))]
      simp only [List.length_replicate]
      rw [ih (c + fi) (k + 1) j (slot - fi) (by simpa using hi) (by omega) (by omega), hc]
      simp [Nat.add_assoc, Nat.add_comm 1 j]

theorem mkDecTable_getD (f : List Nat) (lr s slot : Nat) (hs : s < f.length)
    (hlo : cumF f s ≤ slot) (hhi : slot < cumF f s + f.getD s 0) :
    (mkDecTable f lr).getD slot (0, ⟨0, 0⟩) = (s, decSymReset (cumF f s) (f.getD s 0) lr) := by
  rw [mkDecTable_eq]
  have := decTblL_get lr f 0 0 s slot hs hlo hhi
  simp [Array.getD_eq_getD_getElem?, this]

theorem cumF_add_le (f : List Nat) (s : Nat) (hs : s < f.length) : cumF f s + f.getD s 0 ≤ f.sum := by
  have h1 : (f.take (s + 1)).sum = cumF f s + f.getD s 0 := by
    rw [List.take_add_one, List.sum_append]
    simp [cumF, List.getD_eq_getElem?_getD, hs]
  have h2 : f.sum = (f.take (s + 1)).sum + (f.drop (s + 1)).sum := by
    rw [← List.sum_append, List.take_append_drop]
  omega

/-! ### B. one step on the byte buffer -/

theorem word_split (w : Nat) : ((w >>> 8) <<< 8) ||| (w &&& 0xFF) = w := by
  have h1 : w &&& 0xFF = w % 2 ^ 8 := by
    have := Nat.and_two_pow_sub_one_eq_mod w 8
    simpa using this
  have hlt : w % 2 ^ 8 < 2 ^ 8 := Nat.mod_lt _ (by decide)
  rw [h1, ← Nat.shiftLeft_add_eq_or_of_lt hlt, Nat.shiftLeft_eq, Nat.shiftRight_eq_div_pow]
  have := Nat.div_add_mod w (2 ^ 8)
  rw [Nat.mul_comm]; exact this

theorem wordBytes_lt (ws : List Nat) (h : ∀ w ∈ ws, w < 2 ^ 16) : ∀ b ∈ wordBytes ws, b < 256 := by
  intro b hb
  unfold wordBytes at hb
  rw [List.mem_flatMap] at hb
  obtain ⟨w, hw, hbw⟩ := hb
  have hw16 := h w hw
  simp only [List.mem_cons, List.mem_nil_iff, or_false] at hbw
  rcases hbw with rfl | rfl
  · rw [Nat.shiftRight_eq_div_pow]
    omega
  · have := Nat.and_two_pow_sub_one_eq_mod w 8
    have e : w &&& 0xFF = w % 2 ^ 8 := by simpa using this
    rw [e]; omega

theorem wordBytes_length (ws : List Nat) : (wordBytes ws).length = 2 * ws.length := by
  induction ws with
  | nil => rfl
  | cons w ws ih =>
    simp only [wordBytes, List.flatMap_cons, List.length_append, List.length_cons, List.length_nil] at ih ⊢
    omega

/-- `ans_step` re-expressed on the byte buffer of the real coder -/
theorem ans_stepB (lr c f x : Nat) (rest : List Nat) (hlr : 8 ≤ lr ∧ lr ≤ 15) (hf : 0 < f)
    (hc : c + f ≤ 2 ^ lr) (hx : 2 ^ 15 ≤ x ∧ x < 2 ^ 31) :
    decodeStepB (encodeStep x (encSymReset c f lr)).2 (decSymReset c f lr) lr
        (wordBytes (encodeStep x (encSymReset c f lr)).1 ++ rest) = (x, rest) := by
  obtain ⟨_, _, _, _, _, hl, hd⟩ := ans_step lr c f x [] hlr hf hc hx
  obtain ⟨_, _, _, _, _, _, hd0⟩ := ans_step lr c f x [0] hlr hf hc hx
  generalize (encodeStep x (encSymReset c f lr)).1 = ws at *
  generalize (encodeStep x (encSymReset c f lr)).2 = x' at *
  generalize decSymReset c f lr = ds at *
  match ws, hl with
  | [], _ =>
    simp only [decodeStep, List.nil_append] at hd0
    simp only [wordBytes, List.flatMap_nil, List.nil_append, decodeStepB]
    split at hd0
    · simp at hd0
    · rename_i hnlt
      rw [if_neg hnlt]
      simp only [Prod.mk.injEq, and_true] at hd0
      rw [hd0]
  | [w], _ =>
    simp only [decodeStep, List.append_nil] at hd
    simp only [wordBytes, List.flatMap_cons, List.flatMap_nil, List.append_nil, decodeStepB,
      List.cons_append, List.nil_append, List.headD_cons, List.tail_cons]
    split at hd
    · rename_i hlt
      rw [if_pos hlt]
      simp only [List.headD_cons, List.tail_cons, Prod.mk.injEq, and_true] at hd
      rw [Nat.or_assoc, word_split, hd]
    · simp at hd

/-! ### C. one symbol through the real tables, one round of four symbols -/

/-- `encodeSymbol(st, symb[s])` with the encoder table built from `f` -/
def encS (f : List Nat) (lr s x : Nat) : List Nat × Nat :=
  encodeStep x ((mkEncSyms f lr).getD s ⟨0, 0, 0, 0, 0⟩)

theorem sym_step (f : List Nat) (lr s x : Nat) (hlr : 8 ≤ lr ∧ lr ≤ 15) (hsum : f.sum = 2 ^ lr)
    (hs : s < f.length) (hpos : 0 < f.getD s 0) (hx : 2 ^ 15 ≤ x ∧ x < 2 ^ 31) :
    (2 ^ 15 ≤ (encS f lr s x).2 ∧ (encS f lr s x).2 < 2 ^ 31) ∧
    (∀ b ∈ wordBytes (encS f lr s x).1, b < 256) ∧
    (wordBytes (encS f lr s x).1).length ≤ 2 ∧
    (mkDecTable f lr).getD ((encS f lr s x).2 &&& (2 ^ lr - 1)) (0, ⟨0, 0⟩)
      = (s, decSymReset (cumF f s) (f.getD s 0) lr) ∧
    ∀ rest, decodeStepB (encS f lr s x).2 (decSymReset (cumF f s) (f.getD s 0) lr) lr
        (wordBytes (encS f lr s x).1 ++ rest) = (x, rest) := by
  have hc : cumF f s + f.getD s 0 ≤ 2 ^ lr := by rw [← hsum]; exact cumF_add_le f s hs
  have he : encS f lr s x = encodeStep x (encSymReset (cumF f s) (f.getD s 0) lr) := by
    unfold encS
    rw [mkEncSyms_getD f lr s hs (by omega)]
  rw [he]
  obtain ⟨h1, h2, h3, h4, h5, h6, _⟩ := ans_step lr (cumF f s) (f.getD s 0) x [] hlr hpos hc hx
  refine ⟨⟨h1, h2⟩, wordBytes_lt _ h5, by rw [wordBytes_length]; omega, ?_, ?_⟩
  · rw [Nat.and_two_pow_sub_one_eq_mod]
    exact mkDecTable_getD f lr s _ hs h3 h4
  · intro rest
    exact ans_stepB lr (cumF f s) (f.getD s 0) x rest hlr hpos hc hx

/-- the order-0 round of `encodeChunk` with its four symbols made explicit -/
def encRoundS (syms : Array EncSym) (a0 a1 a2 a3 : Nat) (s : EncSt) : EncSt :=
  let dflt : EncSym := ⟨0, 0, 0, 0, 0⟩
  let e0 := encodeStep s.st0 (syms.getD a0 dflt)
  let o0 := wordBytes e0.1 ++ s.out
  let e1 := encodeStep s.st1 (syms.getD a1 dflt)
  let o1 := wordBytes e1.1 ++ o0
  let e2 := encodeStep s.st2 (syms.getD a2 dflt)
  let o2 := wordBytes e2.1 ++ o1
  let e3 := encodeStep s.st3 (syms.getD a3 dflt)
  let o3 := wordBytes e3.1 ++ o2
  ⟨e0.2, e1.2, e2.2, e3.2, o3⟩

theorem encRound_eq (blk : Array Nat) (syms : Array EncSym) (i : Nat) (s : EncSt) :
    encRound blk syms i s
      = encRoundS syms (blk.getD i 0) (blk.getD (i - 1) 0) (blk.getD (i - 2) 0) (blk.getD (i - 3) 0) s := rfl

/-- the decoder state that reads what an encoder state wrote -/
def toDec (s : EncSt) : DecSt := ⟨s.st0, s.st1, s.st2, s.st3, s.out⟩

def StOk (x : Nat) : Prop := 2 ^ 15 ≤ x ∧ x < 2 ^ 31

structure ValidSt (s : EncSt) : Prop where
  h0 : StOk s.st0
  h1 : StOk s.st1
  h2 : StOk s.st2
  h3 : StOk s.st3
  bytes : ∀ b ∈ s.out, b < 256

def SymOk (f : List Nat) (a : Nat) : Prop := a < f.length ∧ 0 < f.getD a 0

theorem round_rt (f : List Nat) (lr a0 a1 a2 a3 : Nat) (s : EncSt) (hlr : 8 ≤ lr ∧ lr ≤ 15)
    (hsum : f.sum = 2 ^ lr) (k0 : SymOk f a0) (k1 : SymOk f a1) (k2 : SymOk f a2) (k3 : SymOk f a3)
    (hv : ValidSt s) :
    ValidSt (encRoundS (mkEncSyms f lr) a0 a1 a2 a3 s) ∧
    decRound (mkDecTable f lr) lr (toDec (encRoundS (mkEncSyms f lr) a0 a1 a2 a3 s))
      = ([a3, a2, a1, a0], toDec s) ∧
    (encRoundS (mkEncSyms f lr) a0 a1 a2 a3 s).out.length ≤ s.out.length + 8 := by
  obtain ⟨x0, b0, l0, t0, d0⟩ := sym_step f lr a0 s.st0 hlr hsum k0.1 k0.2 hv.h0
  obtain ⟨x1, b1, l1, t1, d1⟩ := sym_step f lr a1 s.st1 hlr hsum k1.1 k1.2 hv.h1
  obtain ⟨x2, b2, l2, t2, d2⟩ := sym_step f lr a2 s.st2 hlr hsum k2.1 k2.2 hv.h2
  obtain ⟨x3, b3, l3, t3, d3⟩ := sym_step f lr a3 s.st3 hlr hsum k3.1 k3.2 hv.h3
  have hb := hv.bytes
  unfold encS at x0 b0 l0 t0 d0 x1 b1 l1 t1 d1 x2 b2 l2 t2 d2 x3 b3 l3 t3 d3
  simp only [encRoundS, toDec, decRound]
  generalize encodeStep s.st0 ((mkEncSyms f lr).getD a0 ⟨0, 0, 0, 0, 0⟩) = e0 at *
  generalize encodeStep s.st1 ((mkEncSyms f lr).getD a1 ⟨0, 0, 0, 0, 0⟩) = e1 at *
  generalize encodeStep s.st2 ((mkEncSyms f lr).getD a2 ⟨0, 0, 0, 0, 0⟩) = e2 at *
  generalize encodeStep s.st3 ((mkEncSyms f lr).getD a3 ⟨0, 0, 0, 0, 0⟩) = e3 at *
  refine ⟨⟨x0, x1, x2, x3, ?_⟩, ?_, ?_⟩
  · intro b hb'
    simp only [List.mem_append] at hb'
    rcases hb' with h | h | h | h | h
    · exact b3 b h
    · exact b2 b h
    · exact b1 b h
    · exact b0 b h
    · exact hb b h
  · rw [t3, d3, t2, d2, t1, d1, t0, d0]
  · simp only [List.length_append]
    omega

/-! ### D. all the rounds of a chunk -/

theorem decRounds_succ_right (tbl : Array (Nat × DecSym)) (lr : Nat) : ∀ (n : Nat) (s : DecSt),
    decRounds tbl lr (n + 1) s
      = ((decRounds tbl lr n s).1 ++ (decRound tbl lr (decRounds tbl lr n s).2).1,
         (decRound tbl lr (decRounds tbl lr n s).2).2) := by
  intro n
  induction n with
  | zero => intro s; simp [decRounds]
  | succ n ih =>
    intro s
    have e : ∀ m t, decRounds tbl lr (m + 1) t
        = ((decRound tbl lr t).1 ++ (decRounds tbl lr m (decRound tbl lr t).2).1,
           (decRounds tbl lr m (decRound tbl lr t).2).2) := fun _ _ => rfl
    rw [e (n + 1) s, ih, e n s]
    simp only [List.append_assoc]

theorem take_four (l : List Nat) (n : Nat) (h : n + 4 ≤ l.length) :
    l.take (n + 4) = l.take n ++ [l.getD n 0, l.getD (n + 1) 0, l.getD (n + 2) 0, l.getD (n + 3) 0] := by
  have e : ∀ k, k < l.length → l.take (k + 1) = l.take k ++ [l.getD k 0] := by
    intro k hk
    rw [List.take_add_one]
    simp [List.getD_eq_getElem?_getD, hk]
  rw [show n + 4 = n + 3 + 1 from rfl, e (n + 3) (by omega), show n + 3 = n + 2 + 1 from rfl,
    e (n + 2) (by omega), show n + 2 = n + 1 + 1 from rfl, e (n + 1) (by omega), e n (by omega)]
  simp

/-- `m` rounds: the encoder walks rounds `m-1 … 0`, the decoder `0 … m-1`; the bytes pushed by
    the encoder in front of `s.out` are exactly what the decoder pops. -/
theorem rounds_rt (blk f : List Nat) (lr : Nat) (hlr : 8 ≤ lr ∧ lr ≤ 15) (hsum : f.sum = 2 ^ lr)
    (hsym : ∀ a ∈ blk, SymOk f a) : ∀ (m fuel : Nat) (s : EncSt), m ≤ fuel → 4 * m ≤ blk.length →
    ValidSt s →
    ValidSt (encRounds blk.toArray (mkEncSyms f lr) fuel (4 * m - 1) s) ∧
    decRounds (mkDecTable f lr) lr m (toDec (encRounds blk.toArray (mkEncSyms f lr) fuel (4 * m - 1) s))
      = (blk.take (4 * m), toDec s) ∧
    (encRounds blk.toArray (mkEncSyms f lr) fuel (4 * m - 1) s).out.length ≤ s.out.length + 8 * m := by
  intro m
  induction m with
  | zero =>
    intro fuel s _ _ hv
    have e : encRounds blk.toArray (mkEncSyms f lr) fuel (4 * 0 - 1) s = s := by
      cases fuel with
      | zero => rfl
      | succ k => simp [encRounds]
    rw [e]
    exact ⟨hv, by simp [decRounds], by omega⟩
  | succ m ih =>
    intro fuel s hfuel hlen hv
    cases fuel with
    | zero => omega
    | succ fuel =>
      have hi : 4 * (m + 1) - 1 = 4 * m + 3 := by omega
      have hi4 : 4 * m + 3 - 4 = 4 * m - 1 := by omega
      have e : encRounds blk.toArray (mkEncSyms f lr) (fuel + 1) (4 * (m + 1) - 1) s
          = encRounds blk.toArray (mkEncSyms f lr) fuel (4 * m - 1)
              (encRound blk.toArray (mkEncSyms f lr) (4 * m + 3) s) := by
        rw [hi]
        simp only [encRounds]
        rw [if_pos (by omega), hi4]
      rw [e, encRound_eq]
      have hg : ∀ j, blk.toArray.getD j 0 = blk.getD j 0 := by
        intro j; simp [Array.getD_eq_getD_getElem?, List.getD_eq_getElem?_getD]
      have hok : ∀ j, j < blk.length → SymOk f (blk.getD j 0) := by
        intro j hj
        apply hsym
        have : blk.getD j 0 = blk[j] := by simp [List.getD_eq_getElem?_getD, hj]
        rw [this]; exact List.getElem_mem hj
      rw [hg, hg, hg, hg]
      have e1 : 4 * m + 3 - 1 = 4 * m + 2 := by omega
      have e2 : 4 * m + 3 - 2 = 4 * m + 1 := by omega
      have e3 : 4 * m + 3 - 3 = 4 * m := by omega
      rw [e1, e2, e3]
      obtain ⟨rv, rd, rl⟩ := round_rt f lr (blk.getD (4 * m + 3) 0) (blk.getD (4 * m + 2) 0)
        (blk.getD (4 * m + 1) 0) (blk.getD (4 * m) 0) s hlr hsum (hok _ (by omega)) (hok _ (by omega))
        (hok _ (by omega)) (hok _ (by omega)) hv
      obtain ⟨iv, id, il⟩ := ih fuel _ (by omega) (by omega) rv
      refine ⟨iv, ?_, by omega⟩
      rw [decRounds_succ_right, id]
      simp only
      rw [rd, show 4 * (m + 1) = 4 * m + 4 by omega, take_four blk (4 * m) (by omega)]

/-! ### E. one chunk (`encodeChunk` / `decodeChunkV2`) -/

/-- the encoder state at the end of `encodeChunk`: final ANS states and payload bytes -/
def ans0Final (blk : List Nat) (syms : Array EncSym) : EncSt :=
  encRounds blk.toArray syms (blk.length / 4 + 1) ((blk.length / 4) * 4 - 1)
    ⟨ansTop, ansTop, ansTop, ansTop, blk.drop ((blk.length / 4) * 4)⟩

/-- number of payload bytes of a chunk (the value sent as VarInt) -/
def ans0PayloadLen (blk f : List Nat) (lr : Nat) : Nat := (ans0Final blk (mkEncSyms f lr)).out.length

theorem ans0EncodeChunk_eq (blk : List Nat) (syms : Array EncSym) :
    ans0EncodeChunk blk syms
      = writeVarInt (ans0Final blk syms).out.length ++ natBits (ans0Final blk syms).st0 32
        ++ natBits (ans0Final blk syms).st1 32 ++ natBits (ans0Final blk syms).st2 32
        ++ natBits (ans0Final blk syms).st3 32 ++ ofBytes (ans0Final blk syms).out := rfl

theorem stOk_top : StOk ansTop := by unfold StOk ansTop; omega

theorem final_facts (blk f : List Nat) (lr : Nat) (hlr : 8 ≤ lr ∧ lr ≤ 15) (hlen : f.length ≤ 256)
    (hsum : f.sum = 2 ^ lr) (hsym : ∀ a ∈ blk, SymOk f a) :
    ValidSt (ans0Final blk (mkEncSyms f lr)) ∧
    decRounds (mkDecTable f lr) lr (blk.length / 4) (toDec (ans0Final blk (mkEncSyms f lr)))
      = (blk.take ((blk.length / 4) * 4),
         ⟨ansTop, ansTop, ansTop, ansTop, blk.drop ((blk.length / 4) * 4)⟩) ∧
    ans0PayloadLen blk f lr ≤ 2 * blk.length := by
  have hinit : ValidSt ⟨ansTop, ansTop, ansTop, ansTop, blk.drop ((blk.length / 4) * 4)⟩ := by
    refine ⟨stOk_top, stOk_top, stOk_top, stOk_top, ?_⟩
    intro b hb
    have := (hsym b (List.mem_of_mem_drop hb)).1
    omega
  have hm : 4 * (blk.length / 4) ≤ blk.length := by omega
  obtain ⟨v, d, l⟩ := rounds_rt blk f lr hlr hsum hsym (blk.length / 4) (blk.length / 4 + 1) _
    (by omega) hm hinit
  have hc : 4 * (blk.length / 4) = blk.length / 4 * 4 := Nat.mul_comm _ _
  rw [hc] at v d l
  refine ⟨v, d, ?_⟩
  unfold ans0PayloadLen ans0Final
  simp only [List.length_drop] at l
  omega

/-- chunk round trip, most general form: the only size condition is the decoder's own limit on
    the payload size (`sz >= _ANS_MAX_CHUNK_SIZE` is rejected). -/
theorem chunk_rt_sz (blk f : List Nat) (lr : Nat) (hlr : 8 ≤ lr ∧ lr ≤ 15) (hlen : f.length ≤ 256)
    (hsum : f.sum = 2 ^ lr) (hsym : ∀ a ∈ blk, SymOk f a) (hsz : ans0PayloadLen blk f lr < 2 ^ 27)
    (rest : Bits) :
    ans0DecodeChunk (mkDecTable f lr) lr blk.length (ans0EncodeChunk blk (mkEncSyms f lr) ++ rest)
      = some (blk, rest) := by
  obtain ⟨v, d, l⟩ := final_facts blk f lr hlr hlen hsum hsym
  rw [ans0EncodeChunk_eq]
  unfold ans0PayloadLen at hsz l
  generalize hS : ans0Final blk (mkEncSyms f lr) = S at *
  have hb32 : ∀ x, StOk x → x < 2 ^ 32 := fun x h => by unfold StOk at h; omega
  unfold ans0DecodeChunk
  simp only [List.append_assoc]
  rw [varint_roundtrip _ (by omega)]
  simp only
  rw [if_neg (by omega), readBits_natBits_lt _ _ _ (hb32 _ v.h0)]
  simp only
  rw [readBits_natBits_lt _ _ _ (hb32 _ v.h1)]
  simp only
  rw [readBits_natBits_lt _ _ _ (hb32 _ v.h2)]
  simp only
  rw [readBits_natBits_lt _ _ _ (hb32 _ v.h3)]
  simp only
  by_cases h0 : blk.length = 0
  · rw [if_pos h0]
    have hnil : blk = [] := List.length_eq_zero_iff.mp h0
    have hout : S.out = [] := List.length_eq_zero_iff.mp (by omega)
    rw [hout, hnil]
    rfl
  · rw [if_neg h0, readBytes_ofBytes _ _ v.bytes]
    simp only
    have e : (⟨S.st0, S.st1, S.st2, S.st3, S.out⟩ : DecSt) = toDec S := rfl
    rw [e, d]
    simp only
    have hdl : (blk.drop (blk.length / 4 * 4)).length = blk.length % 4 := by
      rw [List.length_drop]; omega
    rw [List.take_left' hdl, List.take_append_drop]

/-- chunk round trip for every chunk shorter than 2^26 bytes (each symbol pushes at most one
    16-bit word, so the payload is at most `2·len < 2^27` bytes) -/
theorem chunk_rt (blk f : List Nat) (lr : Nat) (hlr : 8 ≤ lr ∧ lr ≤ 15) (hlen : f.length ≤ 256)
    (hsum : f.sum = 2 ^ lr) (hsym : ∀ a ∈ blk, SymOk f a) (hsz : blk.length < 2 ^ 26)
    (rest : Bits) :
    ans0DecodeChunk (mkDecTable f lr) lr blk.length (ans0EncodeChunk blk (mkEncSyms f lr) ++ rest)
      = some (blk, rest) := by
  have := (final_facts blk f lr hlr hlen hsum hsym).2.2
  exact chunk_rt_sz blk f lr hlr hlen hsum hsym (by omega) rest

/-! ### F. the histogram of a chunk -/

def histL (blk : List Nat) (h0 : List Nat) : List Nat := blk.foldl (fun h b => h.modify b (· + 1)) h0

theorem histogram_fold : ∀ (blk : List Nat) (arr : Array Nat),
    (blk.foldl (fun (h : Array Nat) b => h.modify b (· + 1)) arr).toList = histL blk arr.toList := by
  intro blk
  induction blk with
  | nil => intro arr; rfl
  | cons b bs ih =>
    intro arr
    rw [List.foldl_cons, ih, Array.toList_modify]
    rfl

theorem histogram_eq (blk : List Nat) : histogram blk = histL blk (List.replicate 256 0) := by
  unfold histogram
  rw [histogram_fold, Array.toList_replicate]

theorem modify_getD (l : List Nat) (i j : Nat) :
    (l.modify i (· + 1)).getD j 0 = if i = j ∧ j < l.length then l.getD j 0 + 1 else l.getD j 0 := by
  by_cases hj : j < l.length
  · by_cases hij : i = j
    · subst hij
      simp [List.getD_eq_getElem?_getD, hj]
    · simp [List.getD_eq_getElem?_getD, hj, hij]
  · simp [List.getD_eq_getElem?_getD, hj]

theorem modify_sum : ∀ (l : List Nat) (i : Nat), i < l.length → (l.modify i (· + 1)).sum = l.sum + 1 := by
  intro l
  induction l with
  | nil => intro i h; simp at h
  | cons x xs ih =>
    intro i hi
    cases i with
    | zero => simp; omega
    | succ k =>
      simp only [List.modify_succ_cons, List.sum_cons]
      rw [ih k (by simpa using hi)]
      omega

theorem histL_length : ∀ (blk h0 : List Nat), (histL blk h0).length = h0.length := by
  intro blk
  induction blk with
  | nil => intro h0; rfl
  | cons b bs ih =>
    intro h0
    show (histL bs (h0.modify b (· + 1))).length = _
    rw [ih, List.length_modify]

theorem histL_sum : ∀ (blk h0 : List Nat), (∀ b ∈ blk, b < h0.length) →
    (histL blk h0).sum = h0.sum + blk.length := by
  intro blk
  induction blk with
  | nil => intro h0 _; rfl
  | cons b bs ih =>
    intro h0 hb
    show (histL bs (h0.modify b (· + 1))).sum = _
    rw [ih _ (by intro x hx; rw [List.length_modify]; exact hb x (List.mem_cons_of_mem _ hx)),
      modify_sum _ _ (hb b List.mem_cons_self), List.length_cons]
    omega

theorem histL_ge : ∀ (blk h0 : List Nat) (j : Nat), h0.getD j 0 ≤ (histL blk h0).getD j 0 := by
  intro blk
  induction blk with
  | nil => intro h0 j; exact Nat.le_refl _
  | cons b bs ih =>
    intro h0 j
    show _ ≤ (histL bs (h0.modify b (· + 1))).getD j 0
    have := ih (h0.modify b (· + 1)) j
    rw [modify_getD] at this
    split at this <;> omega

theorem histL_pos : ∀ (blk h0 : List Nat) (a : Nat), a ∈ blk → a < h0.length →
    h0.getD a 0 < (histL blk h0).getD a 0 := by
  intro blk
  induction blk with
  | nil => intro h0 a h; simp at h
  | cons b bs ih =>
    intro h0 a ha hlt
    show _ < (histL bs (h0.modify b (· + 1))).getD a 0
    by_cases hba : b = a
    · subst hba
      have := histL_ge bs (h0.modify b (· + 1)) b
      rw [modify_getD, if_pos ⟨rfl, hlt⟩] at this
      omega
    · have hab : a ∈ bs := by
        rcases List.mem_cons.mp ha with h | h
        · exact absurd h.symm hba
        · exact h
      have := ih (h0.modify b (· + 1)) a hab (by rw [List.length_modify]; exact hlt)
      rw [modify_getD, if_neg (by intro h; exact hba h.1)] at this
      exact this

/-! ### G. header + chunk for a valid table; one chunk of `Write`; the whole block -/

theorem symOk_of_table (a f : List Nat) (lr : Nat) (ht : FreqTable a f lr) (b : Nat) (hb : b ∈ a) :
    SymOk f b := by
  have h1 := ht.lt256 b hb
  have h2 := ht.pos b hb
  have h3 := ht.len
  exact ⟨by omega, by omega⟩

theorem table_sum (a f : List Nat) (lr : Nat) (ht : FreqTable a f lr)
    (hsum : (a.map (fun s => f.getD s 0)).sum = 2 ^ lr) : f.sum = 2 ^ lr := by
  rw [sum_over_alphabet a f ht.sorted (by intro s hs; have := ht.lt256 s hs; have := ht.len; omega)
    ht.zero_out, hsum]

/-- stage 3: header + chunk for any valid table whose alphabet contains the symbols of the chunk -/
theorem hdr_chunk_rt (a f blk : List Nat) (lr : Nat) (hlr : 8 ≤ lr ∧ lr ≤ 15) (ht : FreqTable a f lr)
    (hsum : (a.map (fun s => f.getD s 0)).sum = 2 ^ lr) (hblk : ∀ b ∈ blk, b ∈ a)
    (hsz : blk.length < 2 ^ 26) (rest : Bits) :
    ansDecodeHeader (ansEncodeHeader a f lr ++ (ans0EncodeChunk blk (mkEncSyms f lr) ++ rest))
      = some ((a, f, lr), ans0EncodeChunk blk (mkEncSyms f lr) ++ rest) ∧
    ans0DecodeChunk (mkDecTable f lr) lr blk.length (ans0EncodeChunk blk (mkEncSyms f lr) ++ rest)
      = some (blk, rest) :=
  ⟨ans_header_roundtrip a f lr hlr ht hsum _,
   chunk_rt blk f lr hlr (Nat.le_of_eq ht.len) (table_sum a f lr ht hsum)
     (fun b hb => symOk_of_table a f lr ht b (hblk b hb)) hsz rest⟩

theorem histogram_length (c : List Nat) : (histogram c).length = 256 := by
  rw [histogram_eq, histL_length, List.length_replicate]

theorem sum_replicate_zero (n : Nat) : (List.replicate n 0).sum = 0 :=
  sum_eq_zero _ (fun _ hx => (List.mem_replicate.mp hx).2)

theorem histogram_sum (c : List Nat) (hb : ∀ b ∈ c, b < 256) : (histogram c).sum = c.length := by
  rw [histogram_eq, histL_sum _ _ (by intro b h; rw [List.length_replicate]; exact hb b h),
    sum_replicate_zero, Nat.zero_add]

theorem histogram_pos (c : List Nat) (a : Nat) (ha : a ∈ c) (h256 : a < 256) :
    0 < (histogram c).getD a 0 := by
  rw [histogram_eq]
  have := histL_pos c (List.replicate 256 0) a ha (by rw [List.length_replicate]; exact h256)
  omega

theorem eq_replicate_of_all (c : List Nat) (s : Nat) (h : ∀ b ∈ c, b = s) : c = List.replicate c.length s :=
  List.eq_replicate_iff.mpr ⟨rfl, h⟩

/-- everything `rebuildStatistics` + `encodeChunk` guarantee for one non-empty chunk -/
theorem oneChunk_facts (c : List Nat) (lr : Nat) (hlr : 8 ≤ lr ∧ lr ≤ 15) (hne : c ≠ [])
    (hb : ∀ b ∈ c, b < 256) (hsz : c.length < 2 ^ 26) :
    ∃ o, Kanzi.Normalize.normalize (histogram c) c.length (2 ^ lr) = .ok o ∧
      o.alphabet.length = o.size ∧ o.alphabet ≠ [] ∧
      (∀ rest : Bits, ansDecodeHeader (ansEncodeHeader o.alphabet o.freqs lr ++ rest)
          = some ((o.alphabet, o.freqs, lr), rest)) ∧
      (o.alphabet.length = 1 → c = List.replicate c.length (o.alphabet.headD 0)) ∧
      (∀ rest : Bits, ans0DecodeChunk (mkDecTable o.freqs lr) lr c.length
          (ans0EncodeChunk c (mkEncSyms o.freqs lr) ++ rest) = some (c, rest)) := by
  have hp8 : 2 ^ 8 ≤ 2 ^ lr := Nat.pow_le_pow_right (by decide) hlr.1
  have hp16 : 2 ^ lr ≤ 2 ^ 16 := Nat.pow_le_pow_right (by decide) (by omega)
  have hlen := histogram_length c
  have hsumh := histogram_sum c hb
  have hpos : 0 < c.length := List.length_pos_iff.mpr hne
  obtain ⟨o, ho, hl, hsum, hsup, _, hasz, hsorted, hmem⟩ :=
    Kanzi.Normalize.normalize_valid (histogram c) (2 ^ lr) (by omega) ⟨by omega, by omega⟩ (by omega)
  rw [hsumh] at ho
  have hc : ∀ b ∈ c, b < 256 → 0 < (histogram c).getD b 0 := fun b hbc h => histogram_pos c b hbc h
  generalize histogram c = h at *
  have halt : ∀ s ∈ o.alphabet, s < 256 := fun s hs => by have := ((hmem s).mp hs).1; omega
  have hz : ∀ i, i ∉ o.alphabet → o.freqs.getD i 0 = 0 := by
    intro i hi
    by_cases hi256 : i < h.length
    · have hh : h.getD i 0 = 0 := by
        by_contra hc
        exact hi ((hmem i).mpr ⟨hi256, hc⟩)
      have := hsup i hi256
      rw [hh] at this
      have : ¬ 0 < o.freqs.getD i 0 := fun hc => by have := this.mpr hc; omega
      omega
    · have hn : o.freqs[i]? = none := List.getElem?_eq_none (by omega)
      rw [List.getD_eq_getElem?_getD, hn]; rfl
  have hposA : ∀ s ∈ o.alphabet, 1 ≤ o.freqs.getD s 0 := by
    intro s hs
    obtain ⟨h1, h2⟩ := (hmem s).mp hs
    exact (hsup s h1).mp (by omega)
  have hsumA : (o.alphabet.map (fun s => o.freqs.getD s 0)).sum = 2 ^ lr := by
    rw [← sum_over_alphabet o.alphabet o.freqs hsorted (by intro s hs; have := halt s hs; omega) hz, hsum]
  have hle : ∀ s ∈ o.alphabet, o.freqs.getD s 0 ≤ 2 ^ lr := by
    intro s hsa
    rw [← hsumA]
    exact mem_le_sum _ _ (List.mem_map.mpr ⟨s, hsa, rfl⟩)
  -- every byte of the chunk is in the alphabet
  have hin : ∀ b ∈ c, b ∈ o.alphabet := by
    intro b hbc
    have h256 := hb b hbc
    refine (hmem b).mpr ⟨by omega, ?_⟩
    have := hc b hbc h256
    omega
  have hneA : o.alphabet ≠ [] := by
    obtain ⟨b, hbc⟩ := List.exists_mem_of_ne_nil c hne
    exact List.ne_nil_of_mem (hin b hbc)
  have ht : FreqTable o.alphabet o.freqs lr := ⟨hsorted, halt, hneA, by omega, hz, hposA, hle⟩
  refine ⟨o, ho, hasz, hneA, fun rest => ans_header_roundtrip _ _ lr hlr ht hsumA rest, ?_, ?_⟩
  · intro h1
    apply eq_replicate_of_all
    intro b hbc
    have := hin b hbc
    match hal : o.alphabet, h1, this with
    | [s], _, hm => simpa using hm
  · intro rest
    exact chunk_rt c o.freqs lr hlr (by omega) (table_sum _ _ lr ht hsumA)
      (fun b hbc => symOk_of_table _ _ lr ht b (hin b hbc)) hsz rest

theorem chunks_rt (chunkSize lr : Nat) (hlr : 8 ≤ lr ∧ lr ≤ 15) (hcs0 : 0 < chunkSize)
    (hcs : chunkSize < 2 ^ 26) : ∀ (fuel : Nat) (blk : List Nat), blk.length ≤ fuel →
    (∀ b ∈ blk, b < 256) →
    ∃ enc, ans0EncodeChunks fuel chunkSize lr blk = some enc ∧
      ∀ rest : Bits, ans0DecodeChunks fuel chunkSize blk.length (enc ++ rest) = some (blk, rest) := by
  intro fuel
  induction fuel with
  | zero =>
    intro blk hl _
    have : blk = [] := List.length_eq_zero_iff.mp (by omega)
    subst this
    exact ⟨[], rfl, fun rest => rfl⟩
  | succ fuel ih =>
    intro blk hl hb
    by_cases h0 : blk.length = 0
    · have : blk = [] := List.length_eq_zero_iff.mp h0
      subst this
      exact ⟨[], rfl, fun rest => rfl⟩
    · have hclen : (blk.take chunkSize).length = min chunkSize blk.length := List.length_take
      have hcne : blk.take chunkSize ≠ [] := by
        intro h
        rw [h] at hclen
        simp only [List.length_nil] at hclen
        omega
      obtain ⟨o, ho, hasz, hneA, hhdr, hone, hchunk⟩ := oneChunk_facts (blk.take chunkSize) lr hlr hcne
        (fun b h => hb b (List.mem_of_mem_take h)) (by omega)
      obtain ⟨tl, htl, hdec⟩ := ih (blk.drop chunkSize) (by rw [List.length_drop]; omega)
        (fun b h => hb b (List.mem_of_mem_drop h))
      have hA0 : ¬ o.alphabet.length = 0 := length_ne_zero_of_ne_nil _ hneA
      have hdl : blk.length - min chunkSize blk.length = (blk.drop chunkSize).length := by
        rw [List.length_drop]; omega
      refine ⟨ansEncodeHeader o.alphabet o.freqs lr
          ++ (if o.size > 1 then ans0EncodeChunk (blk.take chunkSize) (mkEncSyms o.freqs lr) else [])
          ++ tl, ?_, ?_⟩
      · simp only [ans0EncodeChunks, if_neg h0, ans0EncodeOneChunk, ho, htl]
      · intro rest
        simp only [ans0DecodeChunks, if_neg h0, List.append_assoc]
        rw [hhdr]
        simp only [if_neg hA0]
        by_cases h1 : o.alphabet.length = 1
        · have hs : ¬ o.size > 1 := by omega
          simp only [if_pos h1, if_neg hs, List.nil_append]
          rw [hdl, hdec rest, ← hclen, ← hone h1]
          simp only [List.take_append_drop]
        · have hs : o.size > 1 := by omega
          simp only [if_neg h1, if_pos hs]
          rw [← hclen, hchunk]
          simp only
          rw [hclen, hdl, hdec rest]
          simp only [List.take_append_drop]

/-- the whole `Write` / `Read` of the order-0 codec -/
theorem block_rt (blk : List Nat) (chunkSize lr : Nat) (hlr : 8 ≤ lr ∧ lr ≤ 15) (hcs0 : 0 < chunkSize)
    (hcs : chunkSize < 2 ^ 26) (hb : ∀ b ∈ blk, b < 256) :
    ∃ enc, ans0Encode blk chunkSize lr = some enc ∧
      ∀ rest : Bits, ans0Decode (enc ++ rest) blk.length chunkSize = some (blk, rest) := by
  unfold ans0Encode ans0Decode
  by_cases h32 : blk.length ≤ 32
  · simp only [if_pos h32]
    refine ⟨_, rfl, fun rest => ?_⟩
    rw [arrayBits_eq, List.take_of_length_le (Nat.le_refl _)]
    exact readBytes_ofBytes blk rest hb
  · simp only [if_neg h32]
    exact chunks_rt chunkSize lr hlr hcs0 hcs blk.length blk (Nat.le_refl _) hb

/-! ### H. stage 1 on its own: ONE state, a list of symbols (encoder walks it backwards) -/

/-- rANS encoding of a list of symbols with a single state: the LAST symbol is encoded first
    (as every loop of `encodeChunk` does); returns the final state and the bytes in stream order -/
def encList1 (f : List Nat) (lr : Nat) : List Nat → Nat × List Nat
  | [] => (ansTop, [])
  | a :: as =>
    ((encS f lr a (encList1 f lr as).1).2,
     wordBytes (encS f lr a (encList1 f lr as).1).1 ++ (encList1 f lr as).2)

/-- decoding of `n` symbols with a single state: returns the symbols, the state and the unread bytes -/
def decList1 (tbl : Array (Nat × DecSym)) (lr : Nat) : Nat → Nat → List Nat → List Nat × Nat × List Nat
  | 0, st, buf => ([], st, buf)
  | n + 1, st, buf =>
    ((tbl.getD (st &&& (2 ^ lr - 1)) (0, ⟨0, 0⟩)).1 ::
        (decList1 tbl lr n
          (decodeStepB st (tbl.getD (st &&& (2 ^ lr - 1)) (0, ⟨0, 0⟩)).2 lr buf).1
          (decodeStepB st (tbl.getD (st &&& (2 ^ lr - 1)) (0, ⟨0, 0⟩)).2 lr buf).2).1,
     (decList1 tbl lr n
          (decodeStepB st (tbl.getD (st &&& (2 ^ lr - 1)) (0, ⟨0, 0⟩)).2 lr buf).1
          (decodeStepB st (tbl.getD (st &&& (2 ^ lr - 1)) (0, ⟨0, 0⟩)).2 lr buf).2).2)

theorem single_rt (f : List Nat) (lr : Nat) (hlr : 8 ≤ lr ∧ lr ≤ 15) (hsum : f.sum = 2 ^ lr) :
    ∀ (syms : List Nat), (∀ a ∈ syms, SymOk f a) →
    StOk (encList1 f lr syms).1 ∧ (∀ b ∈ (encList1 f lr syms).2, b < 256) ∧
    (encList1 f lr syms).2.length ≤ 2 * syms.length ∧
    ∀ rest : List Nat, decList1 (mkDecTable f lr) lr syms.length (encList1 f lr syms).1
        ((encList1 f lr syms).2 ++ rest) = (syms, ansTop, rest) := by
  intro syms
  induction syms with
  | nil => intro _; exact ⟨stOk_top, by simp [encList1], by simp [encList1], fun rest => rfl⟩
  | cons a as ih =>
    intro hs
    obtain ⟨i1, i2, i3, i4⟩ := ih (fun x hx => hs x (List.mem_cons_of_mem _ hx))
    have ha := hs a List.mem_cons_self
    obtain ⟨x0, b0, l0, t0, d0⟩ := sym_step f lr a (encList1 f lr as).1 hlr hsum ha.1 ha.2 i1
    simp only [encList1, List.length_cons, decList1]
    generalize encS f lr a (encList1 f lr as).1 = e at *
    refine ⟨x0, ?_, ?_, ?_⟩
    · intro b hb
      rcases List.mem_append.mp hb with h | h
      · exact b0 b h
      · exact i2 b h
    · rw [List.length_append]; omega
    · intro rest
      rw [t0, List.append_assoc, d0, i4 rest]

end Kanzi.EntSmall
