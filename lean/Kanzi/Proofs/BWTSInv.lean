/-
Slice `bwts` (C13): the array level of `BWTS.Inverse`.

  * `lfOf_spec`      the `lf` array is the standard permutation ("LF mapping") `lfRank t`
  * `invLoop_spec`   the cycle-following loops never fault and compute the pure function `visitGo`
  * `bwtsInverse_eq` `bwtsInverseFill fill t d = .ok (decode t)` for every byte string `t`
-/
import Kanzi.Model.BWTS
import Mathlib.Data.List.Nodup
import Mathlib.Data.List.Perm.Basic

namespace Kanzi.BWTS

/-! ## `rd` / `wr` -/

theorem size_wr (a : Array Nat) (i v : Nat) : (wr a i v).size = a.size := by
  simp [wr]

theorem rd_wr (a : Array Nat) (i v j : Nat) :
    rd (wr a i v) j = if i = j ∧ i < a.size then v else rd a j := by
  unfold rd wr
  by_cases hij : i = j
  · subst hij
    by_cases hi : i < a.size
    · simp [hi, Array.getD]
    · simp [hi, Array.getD]
  · simp [hij, Array.getD]
    split <;> simp_all

theorem rd_zeros (i : Nat) : rd zeros i = 0 := by
  unfold rd zeros
  by_cases h : i < 256 <;> simp [Array.getD, h]

theorem size_zeros : zeros.size = 256 := by simp [zeros]

/-! ## histogram, cumulated buckets, `lf` -/

theorem countP_lt_succ (t : List Nat) (c : Nat) :
    t.countP (fun x => decide (x < c + 1)) = t.countP (fun x => decide (x < c)) + t.count c := by
  induction t with
  | nil => simp
  | cons a t ih =>
    simp only [List.countP_cons, List.count_cons, ih]
    by_cases h1 : a < c
    · have : a < c + 1 := by omega
      have : ¬ a = c := by omega
      simp [*]; omega
    · by_cases h2 : a = c
      · subst h2; simp; omega
      · have : ¬ a < c + 1 := by omega
        simp [*]

theorem histo_go (src : List Nat) (b : Array Nat) (hb : b.size = 256) :
    (src.foldl (fun b c => wr b c (rd b c + 1)) b).size = 256 ∧
    ∀ c, c < 256 → rd (src.foldl (fun b c => wr b c (rd b c + 1)) b) c = rd b c + src.count c := by
  induction src generalizing b with
  | nil => simp [hb]
  | cons a src ih =>
    have h := ih (wr b a (rd b a + 1)) (by rw [size_wr, hb])
    refine ⟨h.1, fun c hc => ?_⟩
    rw [List.foldl_cons, h.2 c hc, rd_wr, List.count_cons]
    by_cases hac : a = c
    · subst hac; simp [hb, hc]; omega
    · simp [hac]

theorem histo_spec (t : List Nat) :
    (histo t).size = 256 ∧ ∀ c, c < 256 → rd (histo t) c = t.count c := by
  have h := histo_go t zeros size_zeros
  refine ⟨h.1, fun c hc => ?_⟩
  unfold histo
  rw [h.2 c hc, rd_zeros]; omega

theorem cumul_go (t : List Nat) (k : Nat) (hk : k ≤ 256) :
    let acc := (List.range k).foldl cumulStep (histo t, 0)
    acc.1.size = 256 ∧ acc.2 = t.countP (fun x => decide (x < k)) ∧
      ∀ c, c < 256 → rd acc.1 c = if c < k then t.countP (fun x => decide (x < c)) else t.count c := by
  induction k with
  | zero =>
    have h := histo_spec t
    simp [h.1]
    intro c hc; exact h.2 c hc
  | succ k ih =>
    have h := ih (by omega)
    simp only [List.range_succ, List.foldl_append, List.foldl_cons, List.foldl_nil] at h ⊢
    generalize (List.range k).foldl cumulStep (histo t, 0) = acc at h
    obtain ⟨h1, h2, h3⟩ := h
    have hk' : k < 256 := by omega
    have hrk := h3 k hk'
    simp only [Nat.lt_irrefl, if_false] at hrk
    refine ⟨by simp [cumulStep, size_wr, h1], ?_, ?_⟩
    · simp only [cumulStep]; rw [h2, hrk, countP_lt_succ]
    · intro c hc
      simp only [cumulStep]
      rw [rd_wr, h3 c hc, h1]
      by_cases hkc : k = c
      · subst hkc; simp [hk', h2]
      · by_cases h4 : c < k
        · have : c < k + 1 := by omega
          simp [hkc, h4, this]
        · have : ¬ c < k + 1 := by omega
          simp [hkc, h4, this]

theorem cumul_spec (t : List Nat) :
    (cumul (histo t)).size = 256 ∧
      ∀ c, c < 256 → rd (cumul (histo t)) c = t.countP (fun x => decide (x < c)) := by
  have h := cumul_go t 256 (Nat.le_refl _)
  refine ⟨h.1, fun c hc => ?_⟩
  have := h.2.2 c hc
  simpa [cumul, hc] using this

/-- the standard permutation of `t` (LF mapping): the position of `t[i]` after a stable sort -/
def lfRank (t : List Nat) (i : Nat) : Nat :=
  t.countP (fun x => decide (x < t.getD i 0)) + (t.take i).count (t.getD i 0)

theorem lf_go (t pre rest : List Nat) (ht : t = pre ++ rest) (hb : ∀ x ∈ t, x < 256)
    (acc : Array Int × Array Nat) (h1 : acc.1.size = pre.length) (h2 : acc.2.size = 256)
    (h3 : ∀ i, i < pre.length → acc.1.getD i 0 = Int.ofNat (lfRank t i))
    (h4 : ∀ c, c < 256 → rd acc.2 c = t.countP (fun x => decide (x < c)) + pre.count c) :
    (rest.foldl lfStep acc).1.size = t.length ∧
      ∀ i, i < t.length → (rest.foldl lfStep acc).1.getD i 0 = Int.ofNat (lfRank t i) := by
  induction rest generalizing pre acc with
  | nil =>
    simp only [List.append_nil] at ht
    subst ht
    exact ⟨h1, h3⟩
  | cons a rest ih =>
    have ha : a < 256 := hb a (by simp [ht])
    have hget : t.getD pre.length 0 = a := by simp [ht]
    have htake : t.take pre.length = pre := by simp [ht]
    refine ih (pre ++ [a]) (by simp [ht]) (lfStep acc a) ?_ ?_ ?_ ?_
    · simp [lfStep, h1]
    · simp [lfStep, size_wr, h2]
    · intro i hi
      simp only [List.length_append, List.length_singleton] at hi
      by_cases hip : i < pre.length
      · have := h3 i hip
        simp only [lfStep]
        rw [← this]
        simp [Array.getD, h1, hip, Array.getElem_push]
        intro h; omega
      · have hi' : i = pre.length := by omega
        subst hi'
        simp only [lfStep]
        have : (acc.1.push (Int.ofNat (rd acc.2 a))).getD pre.length 0 = Int.ofNat (rd acc.2 a) := by
          simp [Array.getD, h1, Array.getElem_push]
        rw [this, h4 a ha]
        unfold lfRank
        rw [hget, htake]
    · intro c hc
      simp only [lfStep]
      rw [rd_wr, h2, h4 c hc, List.count_append]
      by_cases hac : a = c
      · subst hac; simp [ha, h4 a ha]; omega
      · simp [hac]

theorem lfOf_spec (t : List Nat) (hb : ∀ x ∈ t, x < 256) :
    (lfOf t).size = t.length ∧ ∀ i, i < t.length → (lfOf t).getD i 0 = Int.ofNat (lfRank t i) := by
  have hc := cumul_spec t
  have h0 : ((#[] : Array Int), cumul (histo t)).1.size = ([] : List Nat).length := by simp
  have h := lf_go t [] t (by simp) hb (#[], cumul (histo t)) h0
  simp only [List.length_nil, Nat.not_lt_zero, false_imp_iff, implies_true, List.count_nil,
    Nat.add_zero, forall_const] at h
  exact h hc.1 hc.2

theorem getD_set {α} (a : Array α) (i : Nat) (v : α) (j : Nat) (d : α) :
    (a.setIfInBounds i v).getD j d = if i = j ∧ i < a.size then v else a.getD j d := by
  simp only [Array.getD_eq_getD_getElem?, Array.getElem?_setIfInBounds]
  by_cases hij : i = j
  · subst hij
    by_cases hi : i < a.size
    · simp [hi]
    · simp [hi]
  · simp [hij]

theorem drop_set_self {α} (l : List α) (k : Nat) (x : α) (hk : k < l.length) :
    (l.set k x).drop k = x :: l.drop (k + 1) := by
  induction l generalizing k with
  | nil => simp at hk
  | cons a l ih =>
    cases k with
    | zero => simp
    | succ k => simp at hk; simpa using ih k hk

theorem count_take_lt (t : List Nat) (i : Nat) (hi : i < t.length) :
    (t.take i).count (t.getD i 0) < t.count (t.getD i 0) := by
  have h : t = t.take i ++ t.getD i 0 :: t.drop (i + 1) := by
    simp [List.getD_eq_getElem?_getD, List.getElem?_eq_getElem hi]
  generalize t.getD i 0 = c at h
  conv => rhs; rw [h]
  simp [List.count_append]

theorem lfRank_lt (t : List Nat) (i : Nat) (hi : i < t.length) : lfRank t i < t.length := by
  unfold lfRank
  have h1 := count_take_lt t i hi
  have h2 := countP_lt_succ t (t.getD i 0)
  have h3 : t.countP (fun x => decide (x < t.getD i 0 + 1)) ≤ t.length := List.countP_le_length
  omega

/-! ## the cycle-following loops -/

/-- pure version of the inner loop: push `p`, `π p`, … (newest first) until the next index is marked -/
def cycleGo (π : Nat → Nat) : Nat → List Nat → Nat → List Nat
  | 0, vis, _ => vis
  | f + 1, vis, p => if π p ∈ p :: vis then p :: vis else cycleGo π f (p :: vis) (π p)

/-- pure version of the outer loop: the visited indices, newest first -/
def visitGo (π : Nat → Nat) (n : Nat) : Nat → List Nat → Nat → List Nat
  | 0, vis, _ => vis
  | f + 1, vis, i =>
    if n ≤ vis.length then vis
    else if i ∈ vis then visitGo π n f vis (i + 1)
    else visitGo π n f (cycleGo π (n + 1) vis i) (i + 1)

theorem cycleGo_mono (π : Nat → Nat) (f : Nat) (vis : List Nat) (p x : Nat) (hx : x ∈ vis) :
    x ∈ cycleGo π f vis p := by
  induction f generalizing vis p with
  | zero => exact hx
  | succ f ih =>
    unfold cycleGo
    split
    · exact List.mem_cons_of_mem _ hx
    · exact ih _ _ (List.mem_cons_of_mem _ hx)

theorem cycleGo_self (π : Nat → Nat) (f : Nat) (vis : List Nat) (p : Nat) :
    p ∈ cycleGo π (f + 1) vis p := by
  unfold cycleGo
  split
  · exact List.mem_cons_self
  · exact cycleGo_mono π f _ _ p List.mem_cons_self

theorem nodup_length_le {l : List Nat} {n : Nat} (hd : l.Nodup) (hb : ∀ x ∈ l, x < n) :
    l.length ≤ n := by
  have h : l ⊆ List.range n := fun x hx => List.mem_range.2 (hb x hx)
  have := (List.subperm_of_subset hd h).length_le
  simpa using this

theorem length_ge_of_all {l : List Nat} {n : Nat} (h : ∀ q, q < n → q ∈ l) : n ≤ l.length := by
  have hs : List.range n ⊆ l := fun x hx => h x (List.mem_range.1 hx)
  have := (List.subperm_of_subset (List.nodup_range (n := n)) hs).length_le
  simpa using this

/-- loop invariant: `vis` = the marked indices, newest first; `dst[rem ..]` holds their letters -/
structure Inv (π : Nat → Nat) (t : List Nat) (d : Nat) (st : InvSt) (vis : List Nat) : Prop where
  lfsize : st.lf.size = t.length
  lfval : ∀ q, q < t.length → st.lf.getD q 0 = if q ∈ vis then -1 else Int.ofNat (π q)
  nodup : vis.Nodup
  bound : ∀ q ∈ vis, q < t.length
  rem : st.rem + vis.length = t.length
  dsize : st.dst.size = d
  dval : (st.dst.toList.drop st.rem).take vis.length = vis.map (fun q => t.getD q 0)

theorem Inv.push {π : Nat → Nat} {t : List Nat} {d : Nat} {st : InvSt} {vis : List Nat}
    (hI : Inv π t d st vis) (hd : t.length ≤ d) {p : Nat} (hp : p < t.length) (hpv : p ∉ vis) :
    Inv π t d ⟨st.lf.setIfInBounds p (-1),
      st.dst.setIfInBounds (st.rem - 1) (t.toArray.getD p 0), st.rem - 1⟩ (p :: vis) ∧ st.rem ≠ 0 := by
  have hbd : ∀ x ∈ p :: vis, x < t.length := by
    intro x hx; rcases List.mem_cons.1 hx with h | h
    · exact h ▸ hp
    · exact hI.bound x h
  have hlen := nodup_length_le (l := p :: vis) (n := t.length) (List.nodup_cons.2 ⟨hpv, hI.nodup⟩) hbd
  simp only [List.length_cons] at hlen
  have hr := hI.rem
  have hrem : st.rem ≠ 0 := by omega
  refine ⟨⟨by simp [hI.lfsize], ?_, List.nodup_cons.2 ⟨hpv, hI.nodup⟩, hbd, ?_, by simp [hI.dsize], ?_⟩, hrem⟩
  · intro q hq
    show (st.lf.setIfInBounds p (-1)).getD q 0 = _
    rw [getD_set, hI.lfval q hq, hI.lfsize]
    by_cases hqp : p = q
    · subst hqp; simp [hp]
    · have : ¬ q = p := fun h => hqp h.symm
      simp [hqp, this]
  · simp only [List.length_cons]; omega
  · have hdv := hI.dval
    have hds := hI.dsize
    show ((st.dst.setIfInBounds (st.rem - 1) (t.toArray.getD p 0)).toList.drop (st.rem - 1)).take
      (p :: vis).length = _
    rw [Array.toList_setIfInBounds, drop_set_self _ _ _ (by simp; omega)]
    have h1 : st.rem - 1 + 1 = st.rem := by omega
    simp only [List.length_cons, List.map_cons, List.take_succ_cons, h1, hdv]
    simp [Array.getD_eq_getD_getElem?, List.getD_eq_getElem?_getD]

theorem invCycle_spec (π : Nat → Nat) (t : List Nat) (d : Nat) (hd : t.length ≤ d)
    (hπ : ∀ q, q < t.length → π q < t.length) (fuel : Nat) :
    ∀ (st : InvSt) (vis : List Nat) (p : Nat), Inv π t d st vis → p < t.length → p ∉ vis →
      t.length ≤ fuel + vis.length →
      ∃ st', invCycle t.toArray fuel st p = some st' ∧ Inv π t d st' (cycleGo π fuel vis p) := by
  induction fuel with
  | zero =>
    intro st vis p hI hp hpv hf
    have := (hI.push hd hp hpv).1.rem
    simp at this; omega
  | succ f ih =>
    intro st vis p hI hp hpv hf
    obtain ⟨hI', hrem⟩ := hI.push hd hp hpv
    have hlfp : st.lf.getD p 0 = Int.ofNat (π p) := by rw [hI.lfval p hp]; simp [hpv]
    have hπp := hπ p hp
    have hr := hI.rem
    have h1 : ¬ (st.rem - 1 ≥ st.dst.size) := by rw [hI.dsize]; omega
    have h2 : ¬ (p ≥ t.toArray.size) := by simp; omega
    have h3 : ¬ (p ≥ st.lf.size) := by rw [hI.lfsize]; omega
    have h4 : ¬ ((Int.ofNat (π p)) < 0) := by simp
    have h5 : ¬ ((Int.ofNat (π p)).toNat ≥ (st.lf.setIfInBounds p (-1)).size) := by
      simp [hI.lfsize]; omega
    have h6 := hI'.lfval (π p) hπp
    simp only at h6
    unfold invCycle cycleGo
    simp only [hrem, if_false, h1, h2, h3, hlfp, h4, h5]
    simp only [Int.toNat_natCast, Int.ofNat_eq_natCast] at h6 ⊢
    rw [h6]
    by_cases hm : π p ∈ p :: vis
    · simp only [hm, if_true]
      exact ⟨_, by simp, hI'⟩
    · simp only [hm, if_false]
      exact ih _ _ _ hI' hπp hm (by simp only [List.length_cons]; omega)

theorem invLoop_spec (π : Nat → Nat) (t : List Nat) (d : Nat) (hd : t.length ≤ d)
    (hπ : ∀ q, q < t.length → π q < t.length) (fuel : Nat) :
    ∀ (st : InvSt) (vis : List Nat) (i : Nat), Inv π t d st vis → (∀ q, q < i → q ∈ vis) →
      t.length + 1 ≤ fuel + i →
      ∃ st', invLoop t.toArray fuel st i = some st' ∧
        Inv π t d st' (visitGo π t.length fuel vis i) ∧ st'.rem = 0 := by
  induction fuel with
  | zero =>
    intro st vis i hI hall hf
    have h1 := length_ge_of_all (l := vis) (n := t.length) (fun q hq => hall q (by omega))
    have h2 := nodup_length_le hI.nodup hI.bound
    have h3 : t.length < i := by omega
    have := hI.bound _ (hall t.length h3)
    omega
  | succ f ih =>
    intro st vis i hI hall hf
    unfold invLoop visitGo
    have hr := hI.rem
    by_cases hz : st.rem = 0
    · have : t.length ≤ vis.length := by omega
      simp only [hz, if_true, this]
      exact ⟨st, rfl, hI, hz⟩
    · have hlt : ¬ t.length ≤ vis.length := by omega
      have hi : i < t.length := by
        by_contra hc
        have := length_ge_of_all (l := vis) (n := t.length) (fun q hq => hall q (by omega))
        omega
      have h1 : ¬ (i ≥ st.lf.size) := by rw [hI.lfsize]; omega
      simp only [hz, if_false, hlt, h1]
      rw [hI.lfval i hi]
      by_cases hm : i ∈ vis
      · simp only [hm, if_true]
        exact ih st vis (i + 1) hI (by
          intro q hq
          by_cases h : q = i
          · exact h ▸ hm
          · exact hall q (by omega)) (by omega)
      · simp only [hm, if_false]
        have : ¬ (Int.ofNat (π i) < 0) := by simp
        simp only [this, if_false]
        obtain ⟨st', hc, hI'⟩ := invCycle_spec π t d hd hπ (t.length + 1) st vis i hI hi hm (by omega)
        have hsz : t.toArray.size = t.length := by simp
        rw [hsz, hc]
        refine ih st' _ (i + 1) hI' ?_ (by omega)
        intro q hq
        by_cases h : q = i
        · subst h; exact cycleGo_self π _ vis q
        · exact cycleGo_mono π _ vis i q (hall q (by omega))

/-- what `BWTS.Inverse` computes, as a pure function: the letters of the visited indices -/
def decode (t : List Nat) : List Nat :=
  (visitGo (lfRank t) t.length (t.length + 2) [] 0).map (fun q => t.getD q 0)

theorem inverse_core (fill : Nat) (t : List Nat) (d : Nat) (hb : ∀ x ∈ t, x < 256)
    (hd : t.length ≤ d) :
    ∃ st, invLoop t.toArray (t.length + 2) ⟨lfOf t, Array.replicate d fill, t.length⟩ 0 = some st ∧
      st.dst.toList.take t.length = decode t ∧ (decode t).length = t.length := by
  have hlf := lfOf_spec t hb
  have hI0 : Inv (lfRank t) t d ⟨lfOf t, Array.replicate d fill, t.length⟩ [] :=
    ⟨hlf.1, fun q hq => by simpa using hlf.2 q hq, List.nodup_nil, by simp, by simp, by simp, by simp⟩
  obtain ⟨st, h1, hI, hz⟩ := invLoop_spec (lfRank t) t d hd (lfRank_lt t) (t.length + 2) _ [] 0 hI0
    (by simp) (by omega)
  have hr := hI.rem
  have hv := hI.dval
  rw [hz] at hr hv
  simp only [Nat.zero_add] at hr
  simp only [List.drop_zero, hr] at hv
  refine ⟨st, h1, hv, ?_⟩
  unfold decode
  rw [List.length_map, hr]

theorem bwtsInverseFill_eq (fill : Nat) (t : List Nat) (d : Nat) (hb : ∀ x ∈ t, x < 256)
    (hmax : t.length ≤ maxBlockSize) (hd : t.length ≤ d) :
    bwtsInverseFill fill t d = .ok (decode t) ∧ (decode t).length = t.length := by
  obtain ⟨st, h1, h2, h3⟩ := inverse_core fill t d hb hd
  refine ⟨?_, h3⟩
  unfold bwtsInverseFill
  by_cases h0 : t.length = 0
  · have : t = [] := List.eq_nil_of_length_eq_zero h0
    subst this
    simp [decode, visitGo]
  · by_cases hdz : d = 0
    · omega
    · have hA : ¬ (t.length = 0 ∨ d = 0) := by omega
      have hB : ¬ t.length > maxBlockSize := by omega
      have hC : ¬ t.length > d := by omega
      simp only [hA, hB, hC, if_false]
      by_cases h1' : t.length < 2
      · simp only [h1', if_true]
        have hl : t.length = 1 := by omega
        match t, hl with
        | [a], _ => simp [decode, visitGo, cycleGo, lfRank]
      · simp only [h1', if_false, h1, h2]

end Kanzi.BWTS
