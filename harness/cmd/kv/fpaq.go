package main

// fpaq: correspondence stream for the FPAQ entropy codec (v2/entropy/FPAQCodec.go), property C12.
// The REAL FPAQEncoder / FPAQDecoder (public API, real bitstreams over memory) against the Lean
// model (lean/Kanzi/Model/Fpaq.lean = generic binary coder with shift 8 + the FPAQ adaptive model
// + the FPAQ chunk framing).  The canonical answer contains the produced bytes (hex, or a checksum
// for the generated big blocks), which the model must reproduce bit for bit.
//   fenc <hex|->              ok bits=<n> <hex> dec=<ok|BAD|panic:..|err:..>  | panic:index
//   fgen <z|r|m> <n> <seed>   ok bits=<n> sum=<checksum of the bytes> dec=<..>  (block generated on both sides)
//   fdec <count> <hex|->      ok <hex|-> read=<bits> | panic:index | panic:eos | err:invalid
// Oracles on the real code: round trip, exact consumption (64-bit sentinel), no panic.

import (
	"bytes"
	"fmt"
	"math/rand"
	"strconv"
	"strings"

	"github.com/flanglet/kanzi-go/v2/entropy"
)

func init() {
	registerStream(&Stream{
		Name: "fpaq",
		Rule: "fenc: block sizes 0,1,2,3,4,7,8,9,15,16,31..33,63..65,100,255..257,1000,4096 (thorough: 20000, 65536) x shapes (zeros, ones, random, skewed, text, alternating, runs, greedy adversarial = least likely bit of the real model, straddle adversarial = keep the interval across a multiple of 2^24 then collapse it); fgen: generated blocks incl. (thorough) blocks above the 4 MiB chunk size; fdec: valid streams with bit flips / truncation / forged payload sizes / wrong counts, random bytes. distinct_nontrivial = distinct ops whose answer starts with ok.",
		Gen:  fpGen,
		Exec: fpExec,
	})
}

func fpEncode(blk []byte) (item []byte, bits uint64, full []byte, tok string) {
	obs, sink := esNewOBS()
	func() {
		defer func() {
			if r := recover(); r != nil {
				tok = bePanicTok(r)
			}
		}()
		enc, err := entropy.NewFPAQEncoder(obs)
		if err != nil {
			tok = "err:new"
			return
		}
		n, err := enc.Write(blk)
		if err != nil || n != len(blk) {
			tok = "err:size"
			return
		}
		enc.Dispose()
		enc.Dispose()
	}()
	if tok != "" {
		return
	}
	bits = obs.Written()
	obs.WriteBits(esSentinel, 64)
	obs.Close()
	full = append([]byte{}, sink.Bytes()...)
	item = full[:(bits+7)/8]
	return
}

func fpDecode(full []byte, count int) (out []byte, read uint64, sentinelOK bool, tok string) {
	ibs := esNewIBS(full)
	out = make([]byte, count)
	func() {
		defer func() {
			if r := recover(); r != nil {
				tok = bePanicTok(r)
			}
		}()
		dec, err := entropy.NewFPAQDecoder(ibs)
		if err != nil {
			tok = "err:new"
			return
		}
		n, err := dec.Read(out)
		if err != nil {
			if strings.Contains(err.Error(), "Invalid chunk size") {
				tok = "err:invalid"
			} else {
				tok = "err:size"
			}
			return
		}
		if n != count {
			tok = "err:count"
		}
	}()
	if tok != "" {
		return
	}
	read = ibs.Read()
	func() {
		defer func() { recover() }()
		sentinelOK = ibs.ReadBits(64) == esSentinel
	}()
	return
}

func fpGenBlock(kind string, n int, seed uint64) []byte {
	b := make([]byte, n)
	switch kind {
	case "z":
	case "r":
		for i := range b {
			b[i] = byte((seed + uint64(i/4096)) % 256)
		}
	default:
		x := uint32(seed)
		for i := range b {
			x = x*1664525 + 1013904223
			b[i] = byte(x>>24) & byte(x>>16)
		}
	}
	return b
}

func fpRun(blk []byte, full bool, op string, res *Result) string {
	item, bits, img, tok := fpEncode(blk)
	if tok != "" {
		res.Tags = append(res.Tags, "enc:"+tok)
		site, sym := "entropy.FPAQEncoder.Write", "fault"
		if tok == "panic:index" {
			site, sym = "entropy.FPAQEncoder.flush", "buffer-overrun"
		}
		esViol(res, site, sym, fmt.Sprintf("%s: %s (block of %d bytes)", op[:min(len(op), 80)], tok, len(blk)))
		return tok
	}
	dec, read, sok, dtok := fpDecode(img, len(blk))
	d := "ok"
	switch {
	case dtok != "":
		d = dtok
	case !bytes.Equal(dec, blk) || read != bits || !sok:
		d = "BAD"
	}
	res.Tags = append(res.Tags, "dec:"+d)
	if d != "ok" {
		if len(blk) == 0 && dtok == "" && read < bits {
			esViol(res, "entropy.BinaryEntropyEncoder.Dispose", "empty-block-extra-bits",
				fmt.Sprintf("FPAQ, 0-length block: encoder wrote %d bits (Dispose flushes the arithmetic coder state), decoder consumed %d", bits, read))
		} else {
			esViol(res, "entropy.FPAQDecoder.Read", "roundtrip-mismatch",
				fmt.Sprintf("%s: decode verdict %s (wrote %d bits, read %d)", op[:min(len(op), 80)], d, bits, read))
		}
	}
	res.Nontrivial = true
	if len(blk) >= 32 {
		res.Tags = append(res.Tags, fmt.Sprintf("exp:FPAQ:%.2f", float64(int(20*float64(bits)/8/float64(len(blk))))/20))
	}
	res.Sample = map[string]any{"op": strings.Fields(op)[0], "len": len(blk), "bits": bits}
	if full {
		return fmt.Sprintf("ok bits=%d %s dec=%s", bits, esHex(item), d)
	}
	sum := uint32(7)
	for _, b := range item {
		sum = sum*31 + uint32(b)
	}
	return fmt.Sprintf("ok bits=%d sum=%d dec=%s", bits, sum, d)
}

func fpExec(op string, res *Result) (out string) {
	defer func() {
		if r := recover(); r != nil {
			out = "panic"
			esViol(res, "entropy.FPAQCodec", "panic", fmt.Sprint(r))
		}
	}()
	w := strings.Fields(op)
	if len(w) == 0 {
		return "bad-op"
	}
	res.Tags = append(res.Tags, "op:"+w[0])
	switch w[0] {
	case "fenc":
		if len(w) != 2 {
			return "bad-op"
		}
		blk, ok := esUnhex(w[1])
		if !ok {
			return "bad-op"
		}
		return fpRun(blk, true, op, res)
	case "fgen":
		if len(w) != 4 {
			return "bad-op"
		}
		n, e1 := strconv.Atoi(w[2])
		seed, e2 := strconv.ParseUint(w[3], 10, 64)
		if e1 != nil || e2 != nil || n < 0 {
			return "bad-op"
		}
		res.Tags = append(res.Tags, "kind:"+w[1])
		if n > 4*1024*1024 {
			res.Tags = append(res.Tags, "multi-chunk")
		}
		return fpRun(fpGenBlock(w[1], n, seed), false, op, res)
	case "fdec":
		if len(w) != 3 {
			return "bad-op"
		}
		count, err := strconv.Atoi(w[1])
		stream, ok := esUnhex(w[2])
		if err != nil || !ok || count < 0 {
			return "bad-op"
		}
		dec, read, _, tok := fpDecode(stream, count)
		if tok != "" {
			res.Tags = append(res.Tags, "dec:"+tok)
			return tok
		}
		res.Nontrivial = true
		res.Tags = append(res.Tags, "dec:ok")
		return fmt.Sprintf("ok %s read=%d", esHex(dec), read)
	}
	return "bad-op"
}

// greedy adversary against the FPAQ model (re-implemented here: the probabilities are private):
// every bit is the one the model finds less likely
func fpAdversarial(n int, r *rand.Rand) []byte {
	var probs [4][256]int
	for i := range probs {
		for j := range probs[i] {
			probs[i][j] = 32768
		}
	}
	blk := make([]byte, n)
	t := 0
	for i := range blk {
		ctx := 1
		for k := 0; k < 8; k++ {
			p := probs[t][ctx]
			bit := 0
			if p < 32768 || (p == 32768 && r.Intn(2) == 0) {
				bit = 1
			}
			if bit == 0 {
				probs[t][ctx] -= p >> 6
			} else {
				probs[t][ctx] -= (p - 65536 + 64) >> 6
			}
			ctx = 2*ctx + bit
		}
		blk[i] = byte(ctx)
		t = int(blk[i] >> 6)
	}
	return blk
}

// straddle adversary (exact simulation of FPAQEncoder): every bit is chosen so that the coder's
// interval keeps containing a multiple of 2^24 (no flush although the range shrinks below 2^24); once
// the range is below 256 the split is 0 and a 1 bit collapses the interval (it costs the whole
// remaining range) and forces the flush: about 4 output bytes per 25 input bits.  `salt` varies the
// choice when both halves keep straddling.
func fpStraddle(n int, salt uint32) []byte {
	var probs [4][256]int
	for i := range probs {
		for j := range probs[i] {
			probs[i][j] = 32768
		}
	}
	const m56 = uint64(1)<<56 - 1
	low, high := uint64(0), m56
	blk := make([]byte, n)
	t := 0
	x := salt
	for i := range blk {
		ctx := 1
		for k := 0; k < 8; k++ {
			p := probs[t][ctx]
			split := (((high - low) >> 8) * uint64(p)) >> 8
			l56, h56 := low&m56, high&m56
			lo1, hi1 := l56, l56+split
			lo0, hi0 := l56+split+1, h56
			s1 := lo1>>24 != hi1>>24
			s0 := lo0>>24 != hi0>>24
			r1, r0 := hi1-lo1, hi0-lo0
			bit := 0
			switch {
			case r1 == 0:
				bit = 1
			case s1 && s0:
				x = x*1664525 + 1013904223
				if salt != 0 && x>>28 == 0 {
					bit = int(x>>27) & 1
				} else if r1 <= r0 {
					bit = 1
				}
			case s1:
				bit = 1
			case s0:
				bit = 0
			default:
				if r1 <= r0 {
					bit = 1
				}
			}
			if bit == 0 {
				low += split + 1
				probs[t][ctx] -= p >> 6
			} else {
				high = low + split
				probs[t][ctx] -= (p - 65536 + 64) >> 6
			}
			if (low ^ high) < 1<<24 {
				low <<= 32
				high = high<<32 | 0xFFFFFFFF
			}
			ctx = 2*ctx + bit
		}
		blk[i] = byte(ctx)
		t = int(blk[i] >> 6)
	}
	return blk
}

func fpGen(r *rand.Rand, tier string, n int, emit func(op string, tags ...string)) {
	thorough := tier == "thorough"
	sizes := []int{0, 1, 2, 3, 4, 5, 6, 7, 8, 9, 15, 16, 17, 31, 32, 33, 63, 64, 65, 100, 255, 256, 257, 1000, 4096}
	if thorough {
		sizes = append(sizes, 20000, 65536)
	}
	for _, sz := range sizes {
		for sh := 0; sh < 7; sh++ {
			if sz == 0 && sh > 0 {
				continue
			}
			reps := 3
			if sz > 300 {
				reps = 1
			}
			for k := 0; k < reps; k++ {
				emit("fenc "+esHex(beData(r, sh, sz)), "family:fenc-grid", "shape:"+beShapeNames[sh], fmt.Sprintf("size:%d", sz))
			}
		}
		if sz > 0 {
			emit("fenc "+esHex(fpAdversarial(sz, r)), "family:fenc-adversarial", fmt.Sprintf("size:%d", sz))
		}
	}
	// straddle adversary: finding fixed by 1e1b76f (FPAQEncoder.flush overran chunkSize + chunkSize>>3 from
	// 39 bytes on); now also the search for an expansion >= 2, which the decoder would reject
	for _, sz := range []int{8, 16, 32, 38, 39, 40, 42, 45, 64, 100, 200, 1000} {
		emit("fenc "+esHex(fpStraddle(sz, 0)), "family:fenc-straddle", fmt.Sprintf("size:%d", sz))
	}
	ns := 40
	if thorough {
		ns = 600
	}
	for i := 0; i < ns; i++ {
		emit("fenc "+esHex(fpStraddle(20+r.Intn(300), 1+r.Uint32())), "family:fenc-straddle")
	}
	nr := 600
	if thorough {
		nr = 8000
	}
	for i := 0; i < nr; i++ {
		sz := 1 + r.Intn(200)
		if r.Intn(4) == 0 {
			sz = 1 + r.Intn(12)
		}
		if r.Intn(10) == 0 {
			sz = 200 + r.Intn(3000)
		}
		if r.Intn(8) == 0 {
			emit("fenc "+esHex(fpAdversarial(sz, r)), "family:fenc-adversarial")
		} else {
			emit("fenc "+esHex(beData(r, r.Intn(7), sz)), "family:fenc-random")
		}
	}
	for _, k := range []string{"z", "r", "m"} {
		emit(fmt.Sprintf("fgen %s %d %d", k, 30000+r.Intn(1000), r.Intn(1<<30)), "family:fgen")
	}
	if thorough {
		// around the 4 MiB chunk size: exactly one chunk, and two chunks (one byte in the second);
		// the Lean model needs about 2 minutes for each
		emit(fmt.Sprintf("fgen z %d 0", 4*1024*1024), "family:fgen-multichunk")
		emit(fmt.Sprintf("fgen z %d 0", 4*1024*1024+1), "family:fgen-multichunk")
	}
	// decoder on damaged / forged / random streams
	nd := 600
	if thorough {
		nd = 8000
	}
	for i := 0; i < nd; i++ {
		sz := 1 + r.Intn(120)
		if r.Intn(8) == 0 {
			sz = 1 + r.Intn(600)
		}
		blk := beData(r, r.Intn(7), sz)
		_, bits, full, tok := fpEncode(blk)
		var stream []byte
		fam := "family:fdec-random"
		count := sz
		switch {
		case tok != "" || r.Intn(6) == 0:
			stream = make([]byte, 8+r.Intn(100))
			r.Read(stream)
			if r.Intn(2) == 0 {
				stream[0] = byte(r.Intn(int(min(len(stream), 127))))
			}
		default:
			stream = append([]byte{}, full[:bits/8]...)
			switch r.Intn(6) {
			case 0:
				fam = "family:fdec-intact"
				for k := r.Intn(9); k > 0; k-- {
					stream = append(stream, byte(r.Intn(256)))
				}
			case 1:
				fam = "family:fdec-truncated"
				stream = stream[:r.Intn(len(stream))]
			case 2:
				fam = "family:fdec-bitflip"
				k := r.Intn(len(stream) * 8)
				stream[k/8] ^= 0x80 >> uint(k%8)
			case 3:
				fam = "family:fdec-forged-size"
				stream[0] = byte(r.Intn(256))
			case 4:
				fam = "family:fdec-wrong-count"
				count = r.Intn(2*sz + 2)
			default:
				fam = "family:fdec-flips"
				for k := 1 + r.Intn(4); k > 0; k-- {
					j := r.Intn(len(stream) * 8)
					stream[j/8] ^= 0x80 >> uint(j%8)
				}
				stream = append(stream, make([]byte, r.Intn(40))...)
			}
		}
		emit(fmt.Sprintf("fdec %d %s", count, esHex(stream)), fam)
	}
	emit("fdec 0 -", "family:fdec-directed")
	emit("fdec 1 -", "family:fdec-directed")
	emit("fdec 1 00", "family:fdec-directed")
	emit("fdec 1 0000000000000000", "family:fdec-directed")
	emit("fdec 1 02"+strings.Repeat("00", 30), "family:fdec-directed")  // sz = 2 >= 2*1
	emit("fdec 1 01"+strings.Repeat("00", 30), "family:fdec-directed")  // sz = 1 < 2
	emit("fdec 40 4f"+strings.Repeat("5a", 200), "family:fdec-directed") // 79 < 80
	emit("fdec 40 50"+strings.Repeat("5a", 200), "family:fdec-directed") // 80 >= 80
	emit("fdec 700 00"+strings.Repeat("00", 7), "family:fdec-directed")  // reads the zeroed guard then stale zeros
	emit("fdec 3000 00"+strings.Repeat("ff", 7), "family:fdec-directed") // runs past the 1024-byte buffer
	emit("fdec 5 ffffffff0f"+strings.Repeat("11", 40), "family:fdec-directed")
	_ = n
}
