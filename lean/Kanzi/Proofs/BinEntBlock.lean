/-
Proofs for the generic binary arithmetic coder, part 3: bytes, chunks, whole blocks
(`Write` + `Dispose` against `Read`).
-/
import Kanzi.Proofs.BinEntDec

namespace Kanzi.BinEnt
open Kanzi.Bits Kanzi.EntSmall

/-! ## 6. bytes -/

theorem encodeBits_append (P : Pred σ) (a b : List Bool) : ∀ e : Enc σ,
    e.encodeBits P (a ++ b) =
      match e.encodeBits P a with
      | .ok e1 => e1.encodeBits P b
      | .error x => .error x := by
  induction a with
  | nil => intro e; rfl
  | cons x xs ih =>
    intro e
    simp only [List.cons_append, Enc.encodeBits]
    cases e.encodeBit P x with
    | error err => rfl
    | ok e1 => exact ih e1

/-- `for i := range buf { EncodeByte(buf[i]) }` codes the bits of the bytes, MSB first -/
theorem encodeBytes_eq (P : Pred σ) (blk : List Nat) : ∀ e : Enc σ,
    e.encodeBytes P blk = e.encodeBits P (ofBytes blk) := by
  induction blk with
  | nil => intro e; rfl
  | cons v vs ih =>
    intro e
    rw [ofBytes_cons, encodeBits_append]
    simp only [Enc.encodeBytes, Enc.encodeByte]
    cases e.encodeBits P (natBits v 8) with
    | error err => rfl
    | ok e1 => exact ih e1

/-- `for i := range buf { buf[i] = DecodeByte() }` -/
theorem dec_bytes (P : Pred σ) {R : σ → Prop} (hP : P.Safe R) (blk : List Nat) :
    ∀ (more : List Bool) (s : σ) (l h : Nat) (d : Dec σ) (J : List Nat) (acc : List Nat),
    (∀ v ∈ blk, v < 256) → R s → Inv l h → DRel d s l h → View d (pOut P s l h (ofBytes blk ++ more)) J →
    ∃ d', d.decodeBytes P blk.length acc = .ok (acc.reverse ++ blk, d') ∧
      DRel d' (pFin P s l h (ofBytes blk)).1 (pFin P s l h (ofBytes blk)).2.1 (pFin P s l h (ofBytes blk)).2.2 ∧
      View d' (pOut P (pFin P s l h (ofBytes blk)).1 (pFin P s l h (ofBytes blk)).2.1
        (pFin P s l h (ofBytes blk)).2.2 more) J ∧
      d'.buffer = d.buffer := by
  induction blk with
  | nil =>
    intro more s l h d J acc _ _ _ hr hv
    exact ⟨d, by simp [Dec.decodeBytes], hr, hv, rfl⟩
  | cons v vs ih =>
    intro more s l h d J acc hb hs hi hr hv
    have hv8 : v < 256 := hb v (by simp)
    rw [ofBytes_cons, List.append_assoc] at hv
    obtain ⟨d1, hd1, hr1, hv1, hb1⟩ := dec_bits P hP (natBits v 8) (ofBytes vs ++ more) s l h d J 0 hs hi hr hv
    rw [natBits_length, bitsNat_natBits, Nat.mod_eq_of_lt (by simpa using hv8), Nat.zero_mul, Nat.zero_add] at hd1
    obtain ⟨hs1, hi1⟩ := pFin_inv P hP (natBits v 8) s l h hs hi
    obtain ⟨d', hd', hr', hv', hb'⟩ := ih more _ _ _ d1 J (v :: acc) (fun x hx => hb x (by simp [hx])) hs1 hi1 hr1 hv1
    rw [ofBytes_cons, pFin_append]
    refine ⟨d', ?_, hr', hv', by rw [hb', hb1]⟩
    simp only [List.length_cons, Dec.decodeBytes, Dec.decodeByte]
    rw [hd1]
    show Dec.decodeBytes P vs.length d1 (v :: acc) = _
    rw [hd', List.reverse_cons, List.append_assoc]
    rfl

/-! ## 7. one chunk -/

/-- `ofBytes (bytesOf n bs)` = the first `8n` bits (what `ReadArray` delivers) -/
theorem bytesOf_spec : ∀ (n : Nat) (bs : Bits), 8 * n ≤ bs.length →
    ofBytes (bytesOf n bs) = bs.take (8 * n) ∧ (∀ x ∈ bytesOf n bs, x < 256) ∧ (bytesOf n bs).length = n := by
  intro n
  induction n with
  | zero => intro bs _; simp [bytesOf, ofBytes_nil]
  | succ n ih =>
    intro bs hl
    obtain ⟨i1, i2, i3⟩ := ih (bs.drop 8) (by rw [List.length_drop]; omega)
    have h8 : (bs.take 8).length = 8 := by rw [List.length_take]; omega
    refine ⟨?_, ?_, ?_⟩
    · rw [bytesOf, ofBytes_cons, i1]
      have := natBits_bitsNat (bs.take 8)
      rw [h8] at this
      rw [this, show 8 * (n + 1) = 8 + 8 * n by omega, List.take_add]
    · intro x hx
      rw [bytesOf] at hx
      rcases List.mem_cons.mp hx with rfl | hx
      · have := bitsNat_lt (bs.take 8)
        rw [h8] at this
        exact this
      · exact i2 x hx
    · rw [bytesOf, List.length_cons, i3]

/-- the trailer `WriteBits(low | MASK_0_24, 56)` in terms of the pure interval -/
theorem trailer_eq (e : Enc σ) (l h : Nat) (hr : ERel e l h) (hl : l < 2 ^ 56) :
    e.trailer = natBits (trailerVal l) 56 := by
  obtain ⟨g, hg, h1, _⟩ := hr
  have e1 : (e.low ||| MASK_0_24) % 2 ^ 56 = trailerVal l := by
    rw [show MASK_0_24 = 2 ^ 24 - 1 from rfl, or_mask, h1]
    unfold trailerVal
    omega
  unfold Enc.trailer
  rw [← natBits_mod' (e.low ||| MASK_0_24) 56, e1]

/-- the state of the decoder at the start of a chunk whose code string is `O` -/
theorem readChunk_prefix (P : Pred σ) (bufSize length chunkSize n : Nat) (d : Dec σ) (O tail : Bits)
    (hn : n < 2 ^ 32) (hnb : n ≤ bufSize ∨ n < 2 * length) (hO : O.length = 8 * n + 56) :
    Dec.readChunk P bufSize length chunkSize d (writeVarInt n ++ O ++ tail) =
      match Dec.decodeBytes P chunkSize
          { d with current := bitsNat (O.take 56),
                   buffer := bytesOf n (O.drop 56) ++ (decBufFor d.buffer bufSize n).drop n,
                   rem := bytesOf n (O.drop 56) ++ (decBufFor d.buffer bufSize n).drop n } [] with
      | .error x => .error x
      | .ok res => .ok (res.1, res.2, tail) := by
  unfold Dec.readChunk
  rw [List.append_assoc, varint_roundtrip n hn]
  simp only
  rw [if_neg (by omega)]
  have hrb : readBits 56 (O ++ tail) = some (bitsNat (O.take 56), O.drop 56 ++ tail) := by
    unfold readBits
    rw [if_pos (by rw [List.length_append]; omega), List.take_append_of_le_length (by omega),
      List.drop_append_of_le_length (by omega)]
  rw [hrb]
  simp only
  have hby : (if n ≠ 0 then readBytes n (O.drop 56 ++ tail) else some ([], O.drop 56 ++ tail))
      = some (bytesOf n (O.drop 56), tail) := by
    have hdl : (O.drop 56).length = 8 * n := by rw [List.length_drop]; omega
    by_cases h0 : n = 0
    · subst h0
      have : O.drop 56 = [] := List.eq_nil_of_length_eq_zero (by omega)
      simp [this, bytesOf]
    · rw [if_pos h0]
      unfold readBytes
      rw [if_pos (by rw [List.length_append]; omega)]
      congr 2
      · -- bytesOf only looks at the first 8n bits
        have key : ∀ (k : Nat) (A B : Bits), 8 * k ≤ A.length → bytesOf k (A ++ B) = bytesOf k A := by
          intro k
          induction k with
          | zero => intro A B _; rfl
          | succ k ih =>
            intro A B hA
            rw [bytesOf, bytesOf, List.take_append_of_le_length (by omega),
              List.drop_append_of_le_length (by omega), ih _ _ (by rw [List.length_drop]; omega)]
        exact key n _ _ (by omega)
      · rw [← hdl, List.drop_left]
  rw [hby]
  rfl

/-- the decoder's rejection: a payload size above the estimate and at least twice the chunk length -/
theorem readChunk_reject (P : Pred σ) (bufSize length chunkSize n : Nat) (d : Dec σ) (X : Bits)
    (hn : n < 2 ^ 32) (h1 : bufSize < n) (h2 : 2 * length ≤ n) :
    Dec.readChunk P bufSize length chunkSize d (writeVarInt n ++ X) = .error .invalid := by
  unfold Dec.readChunk
  rw [varint_roundtrip n hn]
  simp only
  rw [if_pos ⟨h1, h2⟩]

/-- **`fits2`**: every chunk of the block flushes fewer than `2·length` bytes (`length` = the chunk
    length chosen by `Write` / `Read`).  This is exactly the acceptance test of the repaired `Read`
    (`szBytes > bufSize && szBytes >= 2*length` ⇒ "Invalid bitstream"; `bufSize < 2·length`).
    Computed with the pure coder: `s, l, h` = predictor state and interval at the start of the chunk. -/
def fits2Chunks (P : Pred σ) (length : Nat) : Nat → σ → Nat → Nat → List Nat → Bool
  | 0, _, _, _, _ => true
  | fuel + 1, s, l, h, blk =>
    if blk.length = 0 then true
    else
      decide ((pBytes P s l h (ofBytes (blk.take (min length blk.length)))).length < 2 * length) &&
        fits2Chunks P length fuel (pFin P s l h (ofBytes (blk.take (min length blk.length)))).1
          (pFin P s l h (ofBytes (blk.take (min length blk.length)))).2.1
          (pFin P s l h (ofBytes (blk.take (min length blk.length)))).2.2
          (blk.drop (min length blk.length))

def fits2 (P : Pred σ) (M : Nat) (s0 : σ) (blk : List Nat) : Bool :=
  fits2Chunks P (chunkLenOf M blk.length) blk.length s0 0 TOP blk

theorem fits2Chunks_nil (P : Pred σ) (length fuel : Nat) (s : σ) (l h : Nat) :
    fits2Chunks P length fuel s l h [] = true := by
  cases fuel <;> simp [fits2Chunks]

/-- the decoder state right after `ReadVarInt`, `ReadBits(56)`, `ReadArray` on the code string `O` -/
theorem view_of_out (d : Dec σ) (O : Bits) (n : Nat) (J : List Nat) (hO : O.length = 8 * n + 56) :
    View { d with current := bitsNat (O.take 56), rem := bytesOf n (O.drop 56) ++ J } O J := by
  have hOd : 8 * n ≤ (O.drop 56).length := by rw [List.length_drop]; omega
  obtain ⟨bo1, bo2, _⟩ := bytesOf_spec n _ hOd
  have ht56 : (O.take 56).length = 56 := by rw [List.length_take]; omega
  refine ⟨_, rfl, bo2, ?_, ?_⟩
  · have := bitsNat_lt (O.take 56)
    rw [ht56] at this
    exact this
  · show natBits (bitsNat _) 56 ++ _ = _
    have := natBits_bitsNat (O.take 56)
    rw [ht56] at this
    have e2 : (O.drop 56).take (8 * n) = O.drop 56 :=
      List.take_of_length_le (by rw [List.length_drop]; omega)
    rw [this, bo1, e2, List.take_append_drop]

/-- encoder side of one chunk (`index = 0`, then the bytes of the chunk): a growing encoder always
    succeeds, a non-growing one iff the flushed bytes fit -/
theorem enc_chunk (P : Pred σ) {R : σ → Prop} (hP : P.Safe R) (e : Enc σ) (l h : Nat) (chunk : List Nat)
    (hs : R e.ps) (hr : ERel e l h) (hi : Inv l h) :
    ((e.grow = true ∨ (pBytes P e.ps l h (ofBytes chunk)).length ≤ e.bufLen) →
      ∃ e1, Enc.encodeBytes P { e with rev := [], index := 0 } chunk = .ok e1 ∧
        ERel e1 (pFin P e.ps l h (ofBytes chunk)).2.1 (pFin P e.ps l h (ofBytes chunk)).2.2 ∧
        e1.ps = (pFin P e.ps l h (ofBytes chunk)).1 ∧
        e1.rev.reverse = pBytes P e.ps l h (ofBytes chunk) ∧
        e1.index = (pBytes P e.ps l h (ofBytes chunk)).length ∧
        e1.disposed = e.disposed ∧ e1.grow = e.grow ∧ e.bufLen ≤ e1.bufLen ∧
        ((pBytes P e.ps l h (ofBytes chunk)).length ≤ e.bufLen → e1.bufLen = e.bufLen)) ∧
    (e.grow = false ∧ ¬ (pBytes P e.ps l h (ofBytes chunk)).length ≤ e.bufLen →
      Enc.encodeBytes P { e with rev := [], index := 0 } chunk = .error .index) := by
  have hb := enc_bits P hP (ofBytes chunk) { e with rev := [], index := 0 } l h hs hr hi (Nat.zero_le _)
  rw [encodeBytes_eq]
  simp only [Nat.zero_add] at hb
  constructor
  · intro hfit
    obtain ⟨e1, he1, hr1, hps1, hs1⟩ := hb.1 hfit
    refine ⟨e1, he1, hr1, hps1, ?_, ?_, hs1.disposed, hs1.grow, hs1.mono, ?_⟩
    · rw [hs1.rev, List.append_nil, List.reverse_reverse]
    · have := hs1.index; simpa using this
    · intro hf
      exact hs1.same (by simpa using hf)
  · exact hb.2

theorem writeChunks_nil (P : Pred σ) (fuel length : Nat) (e : Enc σ) :
    Enc.writeChunks P fuel length e [] = .ok ([], e) := by
  cases fuel <;> simp [Enc.writeChunks]

theorem readChunks_zero (P : Pred σ) (fuel length bufSize : Nat) (d : Dec σ) (bs : Bits) :
    Dec.readChunks P fuel length bufSize d 0 bs = .ok ([], d, bs) := by
  cases fuel <;> simp [Dec.readChunks]

/-! ## 8. the chunk loops of `Write` and `Read` -/

theorem flush_disposed (e e' : Enc σ) (h : e.flush = .ok e') : e'.disposed = e.disposed := by
  unfold Enc.flush at h
  split at h
  · simp only [Except.ok.injEq] at h; rw [← h]; simp only [Enc.store]
  · split at h
    · simp only [Except.ok.injEq] at h; rw [← h]; simp only [Enc.store]
    · cases h

theorem encodeBits_disposed (P : Pred σ) (bits : List Bool) : ∀ (e e' : Enc σ),
    e.encodeBits P bits = .ok e' → e'.disposed = e.disposed := by
  induction bits with
  | nil => intro e e' h; simp only [Enc.encodeBits, Except.ok.injEq] at h; rw [h]
  | cons b bs ih =>
    intro e e' h
    simp only [Enc.encodeBits] at h
    cases hb : e.encodeBit P b with
    | error y => rw [hb] at h; cases h
    | ok e1 =>
      rw [hb] at h
      rw [ih e1 e' h]
      unfold Enc.encodeBit at hb
      split at hb
      · have h2 := flush_disposed _ _ hb
        exact h2
      · simp only [Except.ok.injEq] at hb; rw [← hb]; rfl

theorem writeChunks_disposed (P : Pred σ) (length : Nat) : ∀ (fuel : Nat) (e : Enc σ) (blk : List Nat)
    (r : Bits × Enc σ), Enc.writeChunks P fuel length e blk = .ok r → r.2.disposed = e.disposed := by
  intro fuel
  induction fuel with
  | zero => intro e blk r h; simp only [Enc.writeChunks, Except.ok.injEq] at h; rw [← h]
  | succ fuel ih =>
    intro e blk r h
    unfold Enc.writeChunks at h
    split at h
    · simp only [Except.ok.injEq] at h; rw [← h]
    · cases hc : Enc.encodeBytes P { e with rev := [], index := 0 } (blk.take (min length blk.length)) with
      | error y => rw [hc] at h; cases h
      | ok e1 =>
        rw [hc] at h
        simp only at h
        cases hr : Enc.writeChunks P fuel length e1 (blk.drop (min length blk.length)) with
        | error y => rw [hr] at h; cases h
        | ok r1 =>
          rw [hr] at h
          simp only [Except.ok.injEq] at h
          rw [← h]
          show r1.2.disposed = _
          rw [ih _ _ _ hr]
          rw [encodeBytes_eq] at hc
          have h2 := encodeBits_disposed P _ _ _ hc
          exact h2

/-- the chunk loop of `Write` of a growing encoder never fails -/
theorem writeChunks_total (P : Pred σ) {R : σ → Prop} (hP : P.Safe R) (length : Nat) :
    ∀ (fuel : Nat) (blk : List Nat) (e : Enc σ) (l h : Nat), R e.ps → ERel e l h → Inv l h →
    e.grow = true → ∃ r, Enc.writeChunks P fuel length e blk = .ok r := by
  intro fuel
  induction fuel with
  | zero => intro blk e l h _ _ _ _; exact ⟨_, rfl⟩
  | succ fuel ih =>
    intro blk e l h hs hr hi hg
    unfold Enc.writeChunks
    split
    · exact ⟨_, rfl⟩
    · obtain ⟨e1, he1, hr1, hps1, _, _, _, hg1, _, _⟩ :=
        (enc_chunk P hP e l h (blk.take (min length blk.length)) hs hr hi).1 (Or.inl hg)
      obtain ⟨hs1, hi1⟩ := pFin_inv P hP (ofBytes (blk.take (min length blk.length))) e.ps l h hs hi
      rw [he1]
      simp only
      obtain ⟨r, hr'⟩ := ih (blk.drop (min length blk.length)) e1 _ _ (by rw [hps1]; exact hs1) hr1 hi1
        (by rw [hg1]; exact hg)
      rw [hr']
      exact ⟨_, rfl⟩

/-- **chunk loops.**  Whatever `Write` appended for a non-empty `blk` (all chunks), followed by
    the trailer of `Dispose` and by ANY bits `tail`: if every chunk flushed fewer than `2·length`
    bytes (`fits2Chunks`), the chunk loop of `Read` decodes it into `blk`, leaving exactly `tail`, and
    ends in the encoder's final state; otherwise it reports "Invalid bitstream".
    (`length < 2^27`: a chunk flushes at most `32·length < 2^32` bytes, so its size fits the `uint32`
    VarInt; `bufSize < 2·length`: the estimate is below the hard limit.) -/
theorem chunks_rt (P : Pred σ) {R : σ → Prop} (hP : P.Safe R) (length bufSize : Nat) (hlen : 0 < length)
    (hl27 : length < 2 ^ 27) (hbs : bufSize < 2 * length) :
    ∀ (fuel : Nat) (blk : List Nat) (e : Enc σ) (d : Dec σ) (l h : Nat) (bits : Bits) (e' : Enc σ)
      (tail : Bits),
    blk ≠ [] → blk.length ≤ fuel → (∀ v ∈ blk, v < 256) → R e.ps → ERel e l h → Inv l h →
    DRel d e.ps l h → e.grow = true →
    Enc.writeChunks P fuel length e blk = .ok (bits, e') →
    (fits2Chunks P length fuel e.ps l h blk = true →
      ∃ d' lf hf, Dec.readChunks P fuel length bufSize d blk.length (bits ++ e'.trailer ++ tail)
        = .ok (blk, d', tail) ∧ ERel e' lf hf ∧ Inv lf hf ∧ R e'.ps ∧ DRel d' e'.ps lf hf) ∧
    (fits2Chunks P length fuel e.ps l h blk = false →
      Dec.readChunks P fuel length bufSize d blk.length (bits ++ e'.trailer ++ tail) = .error .invalid) := by
  have h32l : 32 * length < 2 ^ 32 := by omega
  intro fuel
  induction fuel with
  | zero =>
    intro blk e d l h bits e' tail hne hfuel
    exact absurd (List.eq_nil_of_length_eq_zero (by omega)) hne
  | succ fuel ih =>
    intro blk e d l h bits e' tail hne hfuel hb hs hr hi hdr hg hw
    have hblk : blk.length ≠ 0 := fun hc => hne (List.eq_nil_of_length_eq_zero hc)
    have hk1 : 1 ≤ min length blk.length := by omega
    have hchunk : (blk.take (min length blk.length)).length = min length blk.length := by
      rw [List.length_take]; omega
    have hbc : ∀ v ∈ blk.take (min length blk.length), v < 256 := fun v hv => hb v (List.mem_of_mem_take hv)
    have hec := enc_chunk P hP e l h (blk.take (min length blk.length)) hs hr hi
    obtain ⟨hs1, hi1⟩ := pFin_inv P hP (ofBytes (blk.take (min length blk.length))) e.ps l h hs hi
    unfold Enc.writeChunks at hw
    rw [if_neg hblk] at hw
    have h32 : 32 * min length blk.length < 2 ^ 32 :=
      Nat.lt_of_le_of_lt (Nat.mul_le_mul_left 32 (Nat.min_le_left _ _)) h32l
    -- the chunk's code string: at most 32 bytes per byte of the chunk
    have hple : (pBytes P e.ps l h (ofBytes (blk.take (min length blk.length)))).length
        ≤ 32 * min length blk.length := by
      have := pBytes_length_le P (ofBytes (blk.take (min length blk.length))) e.ps l h
      rw [ofBytes_length, hchunk, ← Nat.mul_assoc] at this
      exact this
    obtain ⟨e1, he1, hr1, hps1, hrev1, hidx1, hd1, hg1, _, _⟩ := hec.1 (Or.inl hg)
    rw [he1] at hw
    simp only at hw
    have hn32 : e1.index < 2 ^ 32 := by rw [hidx1]; exact Nat.lt_of_le_of_lt hple h32
    have hO : writeVarInt (e1.index % 2 ^ 32) ++ arrayBits e1.rev.reverse (8 * e1.index) ++ e1.trailer
        = writeVarInt e1.index ++ pOut P e.ps l h (ofBytes (blk.take (min length blk.length))) := by
      rw [Nat.mod_eq_of_lt hn32, arrayBits_eq, hrev1, hidx1, List.take_length,
        trailer_eq e1 _ _ hr1 (by have := hi1.lt; have := hi1.hi; omega), List.append_assoc]
      rfl
    have hOlen := pOut_length P e.ps l h (ofBytes (blk.take (min length blk.length)))
    rw [← hidx1] at hOlen
    cases hrest : Enc.writeChunks P fuel length e1 (blk.drop (min length blk.length)) with
    | error x => rw [hrest] at hw; cases hw
    | ok r =>
      rw [hrest] at hw
      simp only [Except.ok.injEq, Prod.mk.injEq] at hw
      obtain ⟨hbits, he'⟩ := hw
      refine ⟨?_, ?_⟩
      all_goals unfold fits2Chunks Dec.readChunks
      all_goals rw [if_neg hblk, if_neg hblk]
      · -- accepted
        intro hfits
        simp only [Bool.and_eq_true, decide_eq_true_eq] at hfits
        obtain ⟨hfit1, hfitr⟩ := hfits
        rw [← hidx1] at hfit1
        -- decoder on this chunk
        have hdec : ∀ tail' : Bits, ∃ d1,
            Dec.readChunk P bufSize length (min length blk.length) d
              (writeVarInt e1.index ++ pOut P e.ps l h (ofBytes (blk.take (min length blk.length))) ++ tail')
              = .ok (blk.take (min length blk.length), d1, tail') ∧
            DRel d1 e1.ps (pFin P e.ps l h (ofBytes (blk.take (min length blk.length)))).2.1
              (pFin P e.ps l h (ofBytes (blk.take (min length blk.length)))).2.2 := by
          intro tail'
          rw [readChunk_prefix P bufSize length _ e1.index d _ tail' hn32 (Or.inr hfit1) hOlen]
          obtain ⟨d0, hd0⟩ : ∃ d0 : Dec σ, d0 = Dec.mk d.ps d.low d.high
              (bitsNat ((pOut P e.ps l h (ofBytes (blk.take (min length blk.length)))).take 56))
              (bytesOf e1.index ((pOut P e.ps l h (ofBytes (blk.take (min length blk.length)))).drop 56)
                ++ (decBufFor d.buffer bufSize e1.index).drop e1.index)
              (bytesOf e1.index ((pOut P e.ps l h (ofBytes (blk.take (min length blk.length)))).drop 56)
                ++ (decBufFor d.buffer bufSize e1.index).drop e1.index) := ⟨_, rfl⟩
          rw [← hd0]
          have hdr0 : DRel d0 e.ps l h := by rw [hd0]; exact ⟨hdr.1, hdr.2.1, hdr.2.2⟩
          have hview : View d0 (pOut P e.ps l h (ofBytes (blk.take (min length blk.length)) ++ []))
              ((decBufFor d.buffer bufSize e1.index).drop e1.index) := by
            have := view_of_out d0 (pOut P e.ps l h (ofBytes (blk.take (min length blk.length)))) e1.index
              ((decBufFor d.buffer bufSize e1.index).drop e1.index) hOlen
            rw [List.append_nil]
            rw [hd0] at this ⊢
            exact this
          obtain ⟨d1, hd1', hdr1, _, _⟩ := dec_bytes P hP (blk.take (min length blk.length)) [] e.ps l h d0
            _ [] hbc hs hi hdr0 hview
          rw [hchunk] at hd1'
          rw [hd1']
          refine ⟨d1, rfl, ?_⟩
          rw [hps1]; exact hdr1
        by_cases hrn : blk.drop (min length blk.length) = []
        · -- last chunk
          rw [hrn, writeChunks_nil] at hrest
          simp only [Except.ok.injEq] at hrest
          have hr1e : r.1 = [] := by rw [← hrest]
          have hr2e : r.2 = e1 := by rw [← hrest]
          have hall : blk.take (min length blk.length) = blk := by
            have := List.take_append_drop (min length blk.length) blk
            rw [hrn, List.append_nil] at this
            exact this
          have hcnt : blk.length - min length blk.length = 0 := by
            have := congrArg List.length hrn
            rw [List.length_drop, List.length_nil] at this
            exact this
          obtain ⟨d1, hrc, hdr1⟩ := hdec tail
          refine ⟨d1, _, _, ?_, by rw [← he', hr2e]; exact hr1, hi1, by rw [← he', hr2e, hps1]; exact hs1,
            by rw [← he', hr2e]; exact hdr1⟩
          rw [← hbits, ← he', hr2e, hr1e, hrn]
          simp only [List.length_nil, if_true, List.append_nil]
          rw [hO, hrc]
          simp only
          rw [hcnt, readChunks_zero]
          simp only [List.append_nil]
          rw [hall]
        · -- more chunks follow
          have hrl : (blk.drop (min length blk.length)).length ≠ 0 :=
            fun hc => hrn (List.eq_nil_of_length_eq_zero hc)
          obtain ⟨d1, hrc, hdr1⟩ := hdec (r.1 ++ e'.trailer ++ tail)
          have hih := ih (blk.drop (min length blk.length)) e1 d1 _ _ r.1 r.2 tail hrn
            (by rw [List.length_drop]; omega) (fun v hv => hb v (List.mem_of_mem_drop hv))
            (by rw [hps1]; exact hs1) hr1 hi1 hdr1 (by rw [hg1]; exact hg) (by rw [hrest])
          rw [hps1] at hih
          obtain ⟨d', lf, hf, hrd, hre, hie, hse, hde⟩ := hih.1 hfitr
          rw [he'] at hrd hre hse hde
          refine ⟨d', lf, hf, ?_, hre, hie, hse, hde⟩
          rw [← hbits, if_neg hrl]
          have hassoc : writeVarInt (e1.index % 2 ^ 32) ++ arrayBits e1.rev.reverse (8 * e1.index) ++ e1.trailer ++ r.1
              ++ e'.trailer ++ tail
              = writeVarInt e1.index ++ pOut P e.ps l h (ofBytes (blk.take (min length blk.length)))
                ++ (r.1 ++ e'.trailer ++ tail) := by
            rw [← hO]; simp only [List.append_assoc]
          rw [hassoc, hrc]
          simp only
          rw [List.length_drop] at hrd
          rw [hrd]
          simp only [List.take_append_drop]
      · -- rejected
        intro hfits
        by_cases hfit1 : (pBytes P e.ps l h (ofBytes (blk.take (min length blk.length)))).length < 2 * length
        · -- this chunk is accepted, a later one is not
          simp only [hfit1, decide_true, Bool.true_and] at hfits
          have hfit1' : e1.index < 2 * length := by rw [hidx1]; exact hfit1
          have hrn : blk.drop (min length blk.length) ≠ [] := by
            intro hc
            rw [hc, fits2Chunks_nil] at hfits
            cases hfits
          have hrl : (blk.drop (min length blk.length)).length ≠ 0 :=
            fun hc => hrn (List.eq_nil_of_length_eq_zero hc)
          -- decoder on this chunk (same as above)
          have hdec : ∃ d1,
              Dec.readChunk P bufSize length (min length blk.length) d
                (writeVarInt e1.index ++ pOut P e.ps l h (ofBytes (blk.take (min length blk.length)))
                  ++ (r.1 ++ e'.trailer ++ tail))
                = .ok (blk.take (min length blk.length), d1, r.1 ++ e'.trailer ++ tail) ∧
              DRel d1 e1.ps (pFin P e.ps l h (ofBytes (blk.take (min length blk.length)))).2.1
                (pFin P e.ps l h (ofBytes (blk.take (min length blk.length)))).2.2 := by
            rw [readChunk_prefix P bufSize length _ e1.index d _ _ hn32 (Or.inr hfit1') hOlen]
            obtain ⟨d0, hd0⟩ : ∃ d0 : Dec σ, d0 = Dec.mk d.ps d.low d.high
                (bitsNat ((pOut P e.ps l h (ofBytes (blk.take (min length blk.length)))).take 56))
                (bytesOf e1.index ((pOut P e.ps l h (ofBytes (blk.take (min length blk.length)))).drop 56)
                  ++ (decBufFor d.buffer bufSize e1.index).drop e1.index)
                (bytesOf e1.index ((pOut P e.ps l h (ofBytes (blk.take (min length blk.length)))).drop 56)
                  ++ (decBufFor d.buffer bufSize e1.index).drop e1.index) := ⟨_, rfl⟩
            rw [← hd0]
            have hdr0 : DRel d0 e.ps l h := by rw [hd0]; exact ⟨hdr.1, hdr.2.1, hdr.2.2⟩
            have hview : View d0 (pOut P e.ps l h (ofBytes (blk.take (min length blk.length)) ++ []))
                ((decBufFor d.buffer bufSize e1.index).drop e1.index) := by
              have := view_of_out d0 (pOut P e.ps l h (ofBytes (blk.take (min length blk.length)))) e1.index
                ((decBufFor d.buffer bufSize e1.index).drop e1.index) hOlen
              rw [List.append_nil]
              rw [hd0] at this ⊢
              exact this
            obtain ⟨d1, hd1', hdr1, _, _⟩ := dec_bytes P hP (blk.take (min length blk.length)) [] e.ps l h d0
              _ [] hbc hs hi hdr0 hview
            rw [hchunk] at hd1'
            rw [hd1']
            refine ⟨d1, rfl, ?_⟩
            rw [hps1]; exact hdr1
          obtain ⟨d1, hrc, hdr1⟩ := hdec
          have hih := ih (blk.drop (min length blk.length)) e1 d1 _ _ r.1 r.2 tail hrn
            (by rw [List.length_drop]; omega) (fun v hv => hb v (List.mem_of_mem_drop hv))
            (by rw [hps1]; exact hs1) hr1 hi1 hdr1 (by rw [hg1]; exact hg) (by rw [hrest])
          rw [hps1] at hih
          have hrd := hih.2 hfits
          rw [he'] at hrd
          rw [← hbits, if_neg hrl]
          have hassoc : writeVarInt (e1.index % 2 ^ 32) ++ arrayBits e1.rev.reverse (8 * e1.index) ++ e1.trailer ++ r.1
              ++ e'.trailer ++ tail
              = writeVarInt e1.index ++ pOut P e.ps l h (ofBytes (blk.take (min length blk.length)))
                ++ (r.1 ++ e'.trailer ++ tail) := by
            rw [← hO]; simp only [List.append_assoc]
          rw [hassoc, hrc]
          simp only
          rw [List.length_drop] at hrd
          rw [hrd]
        · -- this chunk is rejected
          have hge : 2 * length ≤ e1.index := by rw [hidx1]; exact Nat.le_of_not_lt hfit1
          have hstream : bits ++ e'.trailer ++ tail = writeVarInt e1.index ++
              (arrayBits e1.rev.reverse (8 * e1.index)
                ++ (if (blk.drop (min length blk.length)).length = 0 then [] else e1.trailer) ++ r.1
                ++ e'.trailer ++ tail) := by
            rw [← hbits, Nat.mod_eq_of_lt hn32]; simp only [List.append_assoc]
          rw [hstream, readChunk_reject P bufSize length _ e1.index d _ hn32
            (Nat.lt_of_lt_of_le hbs hge) hge]

/-! ## 9. whole blocks -/

theorem chunkLenOf_pos (M n : Nat) (hM : 8 ≤ M) (hn : 0 < n) : 0 < chunkLenOf M n := by
  unfold chunkLenOf
  simp only [Nat.shiftRight_eq_div_pow]
  split
  · split <;> omega
  · split <;> omega

theorem chunkLenOf_le (M n : Nat) : chunkLenOf M n ≤ max n 64 := by
  unfold chunkLenOf
  simp only [Nat.shiftRight_eq_div_pow]
  split
  · split <;> omega
  · split <;> omega

/-- with `M ≤ 2^27` every chunk of a block of at most 2^30 bytes is shorter than 2^27 bytes -/
theorem chunkLenOf_lt (M n : Nat) (hM : M ≤ 2 ^ 27) (hn : n ≤ MAX_BLOCK) : chunkLenOf M n < 2 ^ 27 := by
  have hmb : MAX_BLOCK = 1073741824 := rfl
  unfold chunkLenOf
  simp only [Nat.shiftRight_eq_div_pow]
  split
  · split <;> omega
  · split <;> omega

theorem bufSizeOf_eq (L : Nat) : bufSizeOf L = L + L / 8 := by
  unfold bufSizeOf; rw [Nat.shiftRight_eq_div_pow]

/-- the encoder state at the start of the chunk loop of `Write` on a fresh encoder -/
theorem write_fresh (P : Pred σ) (M : Nat) (s0 : σ) (blk : List Nat) (hlen : blk.length ≤ MAX_BLOCK) :
    ∃ e0 : Enc σ, (Enc.init s0).write P M blk
        = Enc.writeChunks P blk.length (chunkLenOf M blk.length) e0 blk ∧
      e0.ps = s0 ∧ ERel e0 0 TOP ∧ e0.grow = true ∧ e0.disposed = false := by
  unfold Enc.write
  rw [if_neg (by omega)]
  split
  · exact ⟨_, rfl, rfl, ⟨0, by decide, rfl, by simp [Enc.init]⟩, rfl, rfl⟩
  · exact ⟨_, rfl, rfl, erel_init s0, rfl, rfl⟩

/-- **the encoder never fails** (after the repair d8b7b56: `flush` grows the buffer) -/
theorem write_total (P : Pred σ) {R : σ → Prop} (hP : P.Safe R) (M : Nat) (s0 : σ) (hs : R s0)
    (blk : List Nat) (hlen : blk.length ≤ MAX_BLOCK) :
    ∃ r, (Enc.init s0).write P M blk = .ok r := by
  obtain ⟨e0, hw, hps, hr, hg, _⟩ := write_fresh P M s0 blk hlen
  rw [hw]
  exact writeChunks_total P hP _ _ blk e0 0 TOP (by rw [hps]; exact hs) hr inv_init hg

theorem encodeBlock_total (P : Pred σ) {R : σ → Prop} (hP : P.Safe R) (M : Nat) (s0 : σ) (hs : R s0)
    (blk : List Nat) (hlen : blk.length ≤ MAX_BLOCK) :
    ∃ out, encodeBlock P M s0 blk = .ok out := by
  obtain ⟨r, hr⟩ := write_total P hP M s0 hs blk hlen
  unfold encodeBlock
  rw [hr]
  exact ⟨_, rfl⟩

/-- **Write + Dispose against Read**: accepted (with the final states) iff `fits2`, otherwise
    "Invalid bitstream" -/
theorem block_rt_full (P : Pred σ) {R : σ → Prop} (hP : P.Safe R) (M : Nat) (hM : 8 ≤ M) (hM27 : M ≤ 2 ^ 27)
    (s0 : σ) (hs : R s0)
    (blk : List Nat) (hne : blk ≠ []) (hb : ∀ v ∈ blk, v < 256) (hlen : blk.length ≤ MAX_BLOCK)
    (bits : Bits) (e' : Enc σ) (hw : (Enc.init s0).write P M blk = .ok (bits, e')) (rest : Bits) :
    e'.dispose.1 = e'.trailer ∧
    (fits2 P M s0 blk = true →
      ∃ d' lf hf, (Dec.init s0).readBlock P M (bits ++ e'.dispose.1 ++ rest) blk.length = .ok (blk, d', rest) ∧
        d'.ps = e'.ps ∧ ERel e' lf hf ∧ Inv lf hf ∧ d'.low = lf ∧ d'.high = hf) ∧
    (fits2 P M s0 blk = false →
      (Dec.init s0).readBlock P M (bits ++ e'.dispose.1 ++ rest) blk.length = .error .invalid) := by
  have hpos : 0 < blk.length := by
    rcases Nat.eq_zero_or_pos blk.length with h0 | h0
    · exact absurd (List.eq_nil_of_length_eq_zero h0) hne
    · exact h0
  have hL := chunkLenOf_pos M blk.length hM hpos
  have hL27 := chunkLenOf_lt M blk.length hM27 hlen
  have hBS := bufSizeOf_eq (chunkLenOf M blk.length)
  have hbs2 : bufSizeOf (chunkLenOf M blk.length) < 2 * chunkLenOf M blk.length := by omega
  have hmb : MAX_BLOCK = 1073741824 := rfl
  obtain ⟨e0, hw0, hps0, hr0, hg0, hd0⟩ := write_fresh P M s0 blk hlen
  rw [hw0] at hw
  obtain ⟨D0, hD0, hDr⟩ : ∃ D0 : Dec σ,
      (if (Dec.init s0).buffer.length < bufSizeOf (chunkLenOf M blk.length)
        then { Dec.init s0 with buffer := List.replicate (bufSizeOf (chunkLenOf M blk.length)) 0 } else Dec.init s0)
      = D0 ∧ DRel D0 s0 0 TOP := by
    split
    · exact ⟨_, rfl, rfl, rfl, rfl⟩
    · exact ⟨_, rfl, rfl, rfl, rfl⟩
  have hc := chunks_rt P hP (chunkLenOf M blk.length) (bufSizeOf (chunkLenOf M blk.length)) hL hL27 hbs2
      blk.length blk e0 D0 0 TOP bits e' rest hne (Nat.le_refl _) hb (by rw [hps0]; exact hs) hr0 inv_init
      (by rw [hps0]; exact hDr) hg0 hw
  rw [hps0] at hc
  have hdis := writeChunks_disposed P _ _ _ _ _ hw
  have hdisp : e'.dispose.1 = e'.trailer := by
    unfold Enc.dispose
    have : e'.disposed = false := by rw [← hd0]; exact hdis
    rw [this]
    rfl
  refine ⟨hdisp, ?_, ?_⟩
  · intro hf
    obtain ⟨d', lf, hf', hrd, hre, hie, _, hde⟩ := hc.1 hf
    refine ⟨d', lf, hf', ?_, hde.1, hre, hie, hde.2.1, hde.2.2⟩
    unfold Dec.readBlock
    rw [if_neg (by omega), hD0, hdisp]
    exact hrd
  · intro hf
    unfold Dec.readBlock
    rw [if_neg (by omega), hD0, hdisp]
    exact hc.2 hf

/-- **C12 for the generic binary coder, block level**: the encoder never fails; if every chunk
    flushes fewer than `2·length` bytes the decoder returns the block, consuming exactly the written bits -/
theorem block_rt (P : Pred σ) {R : σ → Prop} (hP : P.Safe R) (M : Nat) (hM : 8 ≤ M) (hM27 : M ≤ 2 ^ 27)
    (s0 : σ) (hs : R s0)
    (blk : List Nat) (hne : blk ≠ []) (hb : ∀ v ∈ blk, v < 256) (hlen : blk.length ≤ MAX_BLOCK)
    (hfit : fits2 P M s0 blk = true) :
    ∃ out, encodeBlock P M s0 blk = .ok out ∧
      ∀ rest : Bits, decodeBlock P M s0 (out ++ rest) blk.length = .ok (blk, rest) := by
  obtain ⟨r, hw⟩ := write_total P hP M s0 hs blk hlen
  refine ⟨r.1 ++ r.2.dispose.1, by unfold encodeBlock; rw [hw], ?_⟩
  intro rest
  obtain ⟨d', lf, hf, hrd, _⟩ := (block_rt_full P hP M hM hM27 s0 hs blk hne hb hlen r.1 r.2 hw rest).2.1 hfit
  unfold decodeBlock
  rw [hrd]

/-- … and otherwise the decoder reports "Invalid bitstream": `fits2` is exactly its acceptance test -/
theorem block_reject (P : Pred σ) {R : σ → Prop} (hP : P.Safe R) (M : Nat) (hM : 8 ≤ M) (hM27 : M ≤ 2 ^ 27)
    (s0 : σ) (hs : R s0)
    (blk : List Nat) (hne : blk ≠ []) (hb : ∀ v ∈ blk, v < 256) (hlen : blk.length ≤ MAX_BLOCK)
    (hfit : fits2 P M s0 blk = false) :
    ∃ out, encodeBlock P M s0 blk = .ok out ∧
      ∀ rest : Bits, decodeBlock P M s0 (out ++ rest) blk.length = .error .invalid := by
  obtain ⟨r, hw⟩ := write_total P hP M s0 hs blk hlen
  refine ⟨r.1 ++ r.2.dispose.1, by unfold encodeBlock; rw [hw], ?_⟩
  intro rest
  have hrd := (block_rt_full P hP M hM hM27 s0 hs blk hne hb hlen r.1 r.2 hw rest).2.2 hfit
  unfold decodeBlock
  rw [hrd]

/-! ### the empty block (known finding F11) -/

theorem encodeBlock_nil (P : Pred σ) (M : Nat) (s0 : σ) :
    encodeBlock P M s0 [] = .ok (natBits MASK_0_24 56) := by
  unfold encodeBlock Enc.write
  rw [if_neg (by simp)]
  simp only [List.length_nil, Enc.writeChunks, List.nil_append]
  unfold Enc.dispose
  split <;> simp [Enc.init, Enc.trailer]

theorem decodeBlock_zero (P : Pred σ) (M : Nat) (s0 : σ) (bs : Bits) :
    decodeBlock P M s0 bs 0 = .ok ([], bs) := by
  unfold decodeBlock Dec.readBlock
  rw [if_neg (by simp)]
  simp [Dec.readChunks]

/-! ### bit level -/

/-- a fresh encoder whose buffer has been allocated with `n` bytes -/
def Enc.fresh (s0 : σ) (n : Nat) : Enc σ :=
  { ps := s0, low := 0, high := TOP, rev := [], index := 0, bufLen := n, disposed := false, grow := true }

/-- a fresh decoder right after `current = ReadBits(56)` and `ReadArray(buffer, …)` -/
def Dec.fresh (s0 : σ) (cur : Nat) (buf : List Nat) : Dec σ :=
  { ps := s0, low := 0, high := TOP, current := cur, buffer := buf, rem := buf }

/-- **C12 for the generic binary coder, bit level.**  `bits` coded from the initial state into a
    buffer of `bufLen` bytes (it grows when needed: the encoder never fails); `S` = the flushed bytes
    followed by the 56-bit trailer.  A decoder in the initial state holding the first 56 bits of `S`
    in `current` and the rest of `S` (followed by ANY stale bytes) in its buffer decodes exactly
    `bits`; it ends with the encoder's predictor state and interval, and has read exactly the bytes
    of `S`. -/
theorem bits_rt (P : Pred σ) {R : σ → Prop} (hP : P.Safe R) (s0 : σ) (hs : R s0) (bits : List Bool)
    (bufLen : Nat) :
    ∃ e', Enc.encodeBits P (Enc.fresh s0 bufLen) bits = .ok e' ∧
      e'.index = e'.rev.length ∧ e'.index ≤ 4 * bits.length ∧ e'.index ≤ e'.bufLen ∧ bufLen ≤ e'.bufLen ∧
      ∀ (stale : List Nat) (acc : Nat), ∃ d', Dec.decodeBitsAcc P bits.length
        (Dec.fresh s0 (bitsNat ((ofBytes e'.rev.reverse ++ e'.trailer).take 56))
          (bytesOf e'.index ((ofBytes e'.rev.reverse ++ e'.trailer).drop 56) ++ stale)) acc
        = .ok (acc * 2 ^ bits.length + bitsNat bits, d') ∧
      d'.ps = e'.ps ∧ d'.low = e'.low % 2 ^ 56 ∧ d'.high = e'.high % 2 ^ 56 ∧ d'.rem = stale := by
  have hb := enc_bits P hP bits (Enc.fresh s0 bufLen) 0 TOP hs
    ⟨0, by decide, rfl, by simp [Enc.fresh]⟩ inv_init (Nat.zero_le _)
  obtain ⟨e1, he1, hr1, hps1, hs1⟩ := hb.1 (Or.inl rfl)
  change e1.ps = (pFin P s0 0 TOP bits).1 at hps1
  change ERel e1 (pFin P s0 0 TOP bits).2.1 (pFin P s0 0 TOP bits).2.2 at hr1
  have hrev1 : e1.rev = (pBytes P s0 0 TOP bits).reverse := by
    have := hs1.rev
    change e1.rev = (pBytes P s0 0 TOP bits).reverse ++ [] at this
    rw [List.append_nil] at this
    exact this
  have hidx1 : e1.index = (pBytes P s0 0 TOP bits).length := by
    have := hs1.index
    change e1.index = 0 + (pBytes P s0 0 TOP bits).length at this
    rw [Nat.zero_add] at this
    exact this
  obtain ⟨_, hi1⟩ := pFin_inv P hP bits s0 0 TOP hs inv_init
  refine ⟨e1, he1, by rw [hidx1, hrev1, List.length_reverse],
    by rw [hidx1]; exact pBytes_length_le P bits s0 0 TOP, hs1.fits, hs1.mono, ?_⟩
  intro stale acc
  have hS : ofBytes e1.rev.reverse ++ e1.trailer = pOut P s0 0 TOP bits := by
    rw [hrev1, List.reverse_reverse, trailer_eq e1 _ _ hr1 (by have := hi1.lt; have := hi1.hi; omega)]
    rfl
  rw [hS]
  have hOlen := pOut_length P s0 0 TOP bits
  rw [← hidx1] at hOlen
  have hview : View (Dec.fresh s0 (bitsNat ((pOut P s0 0 TOP bits).take 56))
      (bytesOf e1.index ((pOut P s0 0 TOP bits).drop 56) ++ stale)) (pOut P s0 0 TOP (bits ++ [])) stale := by
    rw [List.append_nil]
    exact view_of_out (Dec.fresh s0 0 (bytesOf e1.index ((pOut P s0 0 TOP bits).drop 56) ++ stale))
      (pOut P s0 0 TOP bits) e1.index stale hOlen
  obtain ⟨d', hd', hdr, hv', _⟩ := dec_bits P hP bits [] s0 0 TOP _ stale acc hs inv_init ⟨rfl, rfl, rfl⟩ hview
  refine ⟨d', hd', ?_, ?_, ?_, ?_⟩
  · rw [hdr.1, hps1]
  · obtain ⟨g, hg, h1, _⟩ := hr1
    rw [hdr.2.1, h1]
    have := hi1.lt; have := hi1.hi
    omega
  · obtain ⟨g, hg, _, h2⟩ := hr1
    rw [hdr.2.2, h2]
    have := hi1.hi
    omega
  · obtain ⟨X, hX1, _, _, hX4⟩ := hv'
    rw [pOut_nil] at hX4
    have := congrArg List.length hX4
    rw [List.length_append, natBits_length, natBits_length, ofBytes_length] at this
    have hX0 : X = [] := List.eq_nil_of_length_eq_zero (by omega)
    rw [hX1, hX0, List.nil_append]

/-! ### the buffer estimate `length + length>>3` -/

theorem writeChunks_single (P : Pred σ) (fuel length : Nat) (e : Enc σ) (blk : List Nat)
    (hne : blk ≠ []) (hl : blk.length ≤ length) :
    Enc.writeChunks P (fuel + 1) length e blk =
      match Enc.encodeBytes P { e with rev := [], index := 0 } blk with
      | .error x => .error x
      | .ok e1 => .ok (writeVarInt (e1.index % 2 ^ 32) ++ arrayBits e1.rev.reverse (8 * e1.index), e1) := by
  have hblk : blk.length ≠ 0 := fun hc => hne (List.eq_nil_of_length_eq_zero hc)
  unfold Enc.writeChunks
  rw [if_neg hblk, Nat.min_eq_right hl, List.take_length, List.drop_length]
  cases Enc.encodeBytes P { e with rev := [], index := 0 } blk with
  | error x => rfl
  | ok e1 => simp [writeChunks_nil]

/-- number of bytes `flush` writes into the buffer for a block coded from the initial state -/
def flushedLen (P : Pred σ) (s0 : σ) (blk : List Nat) : Nat := (pBytes P s0 0 TOP (ofBytes blk)).length

theorem flushedLen_le (P : Pred σ) (s0 : σ) (blk : List Nat) : flushedLen P s0 blk ≤ 32 * blk.length := by
  unfold flushedLen
  have := pBytes_length_le P (ofBytes blk) s0 0 TOP
  rw [ofBytes_length] at this
  omega

/-- **single-chunk blocks: what the encoder writes** — the VarInt of the number of flushed bytes,
    the bytes, the trailer — whether or not that number exceeds the estimate `length + length>>3` -/
theorem encodeBlock_single (P : Pred σ) {R : σ → Prop} (hP : P.Safe R) (M : Nat) (s0 : σ) (hs : R s0)
    (blk : List Nat) (hne : blk ≠ []) (hM : blk.length < M) (hlen : blk.length < 2 ^ 27) :
    encodeBlock P M s0 blk = .ok (writeVarInt (flushedLen P s0 blk) ++ pOut P s0 0 TOP (ofBytes blk)) := by
  have hpos : 0 < blk.length := by
    rcases Nat.eq_zero_or_pos blk.length with h0 | h0
    · exact absurd (List.eq_nil_of_length_eq_zero h0) hne
    · exact h0
  have hcl : chunkLenOf M blk.length = max blk.length 64 := by
    unfold chunkLenOf
    rw [if_neg (by omega)]
    split <;> omega
  have hmb : MAX_BLOCK = 1073741824 := rfl
  obtain ⟨k, hk⟩ : ∃ k, blk.length = k + 1 := ⟨blk.length - 1, by omega⟩
  have hlb : blk.length ≤ MAX_BLOCK := by omega
  have h32 : 32 * blk.length < 2 ^ 32 := by omega
  have hfl := flushedLen_le P s0 blk
  unfold flushedLen at hfl ⊢
  obtain ⟨e0, hw0, hps0, hr0, hg0, hd0⟩ := write_fresh P M s0 blk hlb
  have hec := enc_chunk P hP e0 0 TOP blk (by rw [hps0]; exact hs) hr0 inv_init
  obtain ⟨e1, he1, hr1, _, hrev1, hidx1, hd1, _, _, _⟩ := hec.1 (Or.inl hg0)
  rw [hps0] at hr1 hrev1 hidx1
  obtain ⟨_, hi1⟩ := pFin_inv P hP (ofBytes blk) s0 0 TOP hs inv_init
  have hn32 : e1.index < 2 ^ 32 := by rw [hidx1]; exact Nat.lt_of_le_of_lt hfl h32
  have hdisp : e1.dispose.1 = e1.trailer := by
    unfold Enc.dispose
    rw [hd1, hd0]
    rfl
  unfold encodeBlock
  rw [hw0, hcl]
  have hf : Enc.writeChunks P blk.length (max blk.length 64) e0 blk
      = Enc.writeChunks P (k + 1) (max blk.length 64) e0 blk := by rw [hk]
  rw [hf, writeChunks_single P k _ _ blk hne (Nat.le_max_left _ _), he1]
  simp only
  rw [hdisp, Nat.mod_eq_of_lt hn32, arrayBits_eq, hrev1, hidx1, List.take_length,
    trailer_eq e1 _ _ hr1 (by have := hi1.lt; have := hi1.hi; omega), List.append_assoc]
  rfl

/-- a predictor that always answers 0 ("a one is impossible") coding ones flushes on every bit -/
theorem pBytes_zero_ones (P : Pred σ) (h0 : ∀ s, P.get s = 0) (bits : List Bool) :
    ∀ (s : σ) (l h : Nat), (∀ b ∈ bits, b = true) → (pBytes P s l h bits).length = 4 * bits.length := by
  induction bits with
  | nil => intro s l h _; rfl
  | cons b bs ih =>
    intro s l h hb
    have hbt : b = true := hb b (by simp)
    subst hbt
    have hf : pflush P.shift l h (P.get s) true = true := by
      simp [pflush, pl1, ph1, psplit, h0 s]
    simp only [pBytes, hf, if_true, List.length_append, be32_length, List.length_cons]
    rw [ih _ _ _ (fun x hx => hb x (by simp [hx]))]
    omega

theorem ofBytes_replicate_ff (n : Nat) : ofBytes (List.replicate n 255) = List.replicate (8 * n) true := by
  induction n with
  | zero => rfl
  | succ n ih =>
    rw [List.replicate_succ, ofBytes_cons, ih, show 8 * (n + 1) = 8 * n + 8 by omega]
    rfl

/-- **the estimate `length + length>>3` is exceeded by an adversarial predictor**: with
    `Get() = 0` always, a block of `n ≥ 3` bytes `0xFF` flushes `32·n` bytes, the maximum, which is
    more than the buffer allocated by `Write` (before the repair d8b7b56: index out of range) -/
theorem estimate_exceeded (P : Pred σ) (h0 : ∀ s, P.get s = 0) (s0 : σ) (n : Nat) (hn : 3 ≤ n) :
    flushedLen P s0 (List.replicate n 255) = 32 * n ∧
    bufSizeOf (max n 64) < flushedLen P s0 (List.replicate n 255) := by
  have hfl : flushedLen P s0 (List.replicate n 255) = 32 * n := by
    unfold flushedLen
    rw [ofBytes_replicate_ff, pBytes_zero_ones P h0 _ _ _ _ (fun b hb => (List.mem_replicate.mp hb).2),
      List.length_replicate]
    omega
  refine ⟨hfl, ?_⟩
  rw [hfl, bufSizeOf_eq]
  omega

/-- for a single-chunk block `fits2` is `flushedLen < 2·max(n, 64)` -/
theorem fits2_single (P : Pred σ) (M : Nat) (s0 : σ) (blk : List Nat) (hne : blk ≠ []) (hM : blk.length < M) :
    fits2 P M s0 blk = decide (flushedLen P s0 blk < 2 * max blk.length 64) := by
  have hblk : blk.length ≠ 0 := fun hc => hne (List.eq_nil_of_length_eq_zero hc)
  have hcl : chunkLenOf M blk.length = max blk.length 64 := by
    unfold chunkLenOf
    rw [if_neg (by omega)]
    split <;> omega
  obtain ⟨k, hk⟩ : ∃ k, blk.length = k + 1 := ⟨blk.length - 1, by omega⟩
  unfold fits2 flushedLen
  rw [hcl]
  have hf : fits2Chunks P (max blk.length 64) blk.length s0 0 TOP blk
      = fits2Chunks P (max blk.length 64) (k + 1) s0 0 TOP blk := by rw [← hk]
  rw [hf]
  unfold fits2Chunks
  rw [if_neg hblk, Nat.min_eq_right (Nat.le_max_left _ _), List.take_length, List.drop_length,
    fits2Chunks_nil, Bool.and_true]

/-- … and from 4 bytes on it is beyond what the decoder accepts (`32·n ≥ 2·max(n, 64)`) -/
theorem fits2_false_adversarial (P : Pred σ) (h0 : ∀ s, P.get s = 0) (M : Nat) (s0 : σ) (n : Nat)
    (hn : 4 ≤ n) (hM : n < M) : fits2 P M s0 (List.replicate n 255) = false := by
  have hfl := (estimate_exceeded P h0 s0 n (by omega)).1
  unfold flushedLen at hfl
  have hcl : chunkLenOf M n = max n 64 := by
    unfold chunkLenOf
    rw [if_neg (by omega)]
    split <;> omega
  obtain ⟨k, hk⟩ : ∃ k, n = k + 1 := ⟨n - 1, by omega⟩
  unfold fits2
  rw [List.length_replicate, hcl]
  have hf : fits2Chunks P (max n 64) n s0 0 TOP (List.replicate n 255)
      = fits2Chunks P (max n 64) (k + 1) s0 0 TOP (List.replicate n 255) := by rw [← hk]
  rw [hf]
  unfold fits2Chunks
  rw [List.length_replicate, if_neg (by omega), Nat.min_eq_right (Nat.le_max_left _ _)]
  have ht : (List.replicate n 255).take n = List.replicate n 255 := by
    rw [List.take_of_length_le (by rw [List.length_replicate]; exact Nat.le_refl _)]
  rw [ht, hfl]
  have : ¬ 32 * n < 2 * max n 64 := by omega
  simp [this]

/-! ### encoders that do not grow their buffer (both encoders before the repairs) -/

theorem flush_err (e : Enc σ) (x : Err) (h : e.flush = .error x) : x = .index := by
  unfold Enc.flush at h
  split at h
  · cases h
  · split at h
    · cases h
    · cases h; rfl

theorem encodeBits_err (P : Pred σ) (bits : List Bool) : ∀ (e : Enc σ) (x : Err),
    e.encodeBits P bits = .error x → x = .index := by
  induction bits with
  | nil => intro e x h; cases h
  | cons b bs ih =>
    intro e x h
    simp only [Enc.encodeBits] at h
    cases hb : e.encodeBit P b with
    | error y =>
      rw [hb] at h
      simp only [Except.error.injEq] at h
      subst h
      unfold Enc.encodeBit at hb
      split at hb
      · exact flush_err _ _ hb
      · cases hb
    | ok e1 =>
      rw [hb] at h
      exact ih e1 x h

end Kanzi.BinEnt
