package main

import (
	"bytes"
	"flag"
	"fmt"
	"io"
	"math/rand"
	"os"
	"strings"
	"time"

	kio "github.com/flanglet/kanzi-go/v2/io"
	"scratch/gen"
)

type nopCloser struct{ *bytes.Buffer }

func (nopCloser) Close() error { return nil }

type rc struct{ io.Reader }

func (rc) Close() error { return nil }

func compress(data []byte, tr, en string, bs, jobs, ck uint, hint int64) (out []byte, err error) {
	defer func() {
		if r := recover(); r != nil {
			err = fmt.Errorf("PANIC compress: %v", r)
		}
	}()
	var buf bytes.Buffer
	w, err := kio.NewWriter(nopCloser{&buf}, tr, en, bs, jobs, ck, hint, false)
	if err != nil {
		return nil, fmt.Errorf("ctor: %w", err)
	}
	if _, err := w.Write(data); err != nil {
		return nil, err
	}
	if err := w.Close(); err != nil {
		return nil, err
	}
	return buf.Bytes(), nil
}

func decompress(comp []byte, jobs uint) (out []byte, err error) {
	defer func() {
		if r := recover(); r != nil {
			err = fmt.Errorf("PANIC decompress: %v", r)
		}
	}()
	r, err := kio.NewReader(rc{bytes.NewReader(comp)}, jobs)
	if err != nil {
		return nil, err
	}
	defer r.Close()
	return io.ReadAll(r)
}

var transforms = []string{"NONE", "BWT", "BWTS", "LZ", "LZX", "LZP", "ROLZ", "ROLZX", "RLT", "ZRLT", "MTFT", "RANK", "SRT", "TEXT", "EXE", "MM", "UTF", "PACK", "DNA"}
var entropies = []string{"NONE", "HUFFMAN", "ANS0", "ANS1", "RANGE", "FPAQ", "CM", "TPAQ", "TPAQX"}

func main() {
	seed := flag.Int64("seed", 1, "")
	trs := flag.String("t", "", "")
	ens := flag.String("e", "", "")
	sizes := flag.String("sizes", "1,15,16,17,100,1000,5000,70000,300000", "")
	bsz := flag.Uint("bs", 1<<20, "")
	ck := flag.Uint("ck", 0, "")
	flag.Parse()
	T := transforms
	E := entropies
	if *trs != "" {
		T = strings.Split(*trs, ",")
	}
	if *ens != "" {
		E = strings.Split(*ens, ",")
	}
	var szs []int
	for _, s := range strings.Split(*sizes, ",") {
		var v int
		fmt.Sscan(s, &v)
		szs = append(szs, v)
	}
	fails := 0
	n := 0
	for _, sh := range gen.Shapes {
		for _, sz := range szs {
			r := rand.New(rand.NewSource(*seed + int64(sz)))
			data := sh.F(r, sz)
			for _, t := range T {
				for _, e := range E {
					n++
					t0 := time.Now()
					c, err := compress(data, t, e, *bsz, 1, *ck, 0)
					if err != nil {
						fails++
						fmt.Printf("FAIL-C shape=%s size=%d t=%s e=%s err=%v\n", sh.Name, len(data), t, e, err)
						continue
					}
					d, err := decompress(c, 1)
					if err != nil {
						fails++
						fmt.Printf("FAIL-D shape=%s size=%d t=%s e=%s err=%v\n", sh.Name, len(data), t, e, err)
						continue
					}
					if !bytes.Equal(d, data) {
						fails++
						fmt.Printf("FAIL-MISMATCH shape=%s size=%d t=%s e=%s got=%d\n", sh.Name, len(data), t, e, len(d))
					}
					if el := time.Since(t0); el > 5*time.Second {
						fmt.Printf("SLOW shape=%s size=%d t=%s e=%s %v\n", sh.Name, len(data), t, e, el)
					}
				}
			}
		}
	}
	fmt.Println("cases", n, "fails", fails)
	if fails > 0 {
		os.Exit(1)
	}
}
