/-
Proofs about the total model of `RangeDecoder.Read`, part 3: `decodeHeader` (failure classes, the
decoded table never overflows `f2s`, agreement with `EntSmall.rangeDecodeHeader`), the chunk loop of
`Read` (termination, classes, allocation bound, agreement with `Kanzi.Range.decode`).
-/
import Kanzi.Proofs.RangeDec2

namespace Kanzi.RangeDec
open Kanzi.Bits Kanzi.EntSmall Kanzi.Range

/-! ### C. `decodeHeader` -/

def HdrCls (c : Cls) : Prop := c = .eos ∨ c = .err

theorem decFreqsC_cls : ∀ (n logMax bound : Nat) (bs : Bits) (c : Cls),
    decFreqsC n logMax bound bs = .fail c → HdrCls c := by
  intro n
  induction n with
  | zero => intro _ _ _ c h; simp only [decFreqsC] at h; cases h
  | succ n ih =>
    intro logMax bound bs c h
    simp only [decFreqsC] at h
    split at h
    · cases hd : decFreqsC n logMax bound bs with
      | fail c' => simp only [hd] at h; cases h; exact ih _ _ _ _ hd
      | ok tl r => simp only [hd] at h; cases h
    · cases hr : readBits logMax bs with
      | none => simp only [hr] at h; cases h; exact Or.inl rfl
      | some p =>
        obtain ⟨v, r⟩ := p
        simp only [hr] at h
        split at h
        · cases h; exact Or.inr rfl
        · cases hd : decFreqsC n logMax bound r with
          | fail c' => simp only [hd] at h; cases h; exact ih _ _ _ _ hd
          | ok tl r' => simp only [hd] at h; cases h

theorem decFreqsC_of_some : ∀ (n logMax bound : Nat) (bs : Bits) (x : List Nat) (r : Bits),
    decFreqs n logMax bound bs = some (x, r) → decFreqsC n logMax bound bs = .ok x r := by
  intro n
  induction n with
  | zero =>
    intro _ _ bs x r h
    simp only [decFreqs, Option.some.injEq, Prod.mk.injEq] at h
    obtain ⟨rfl, rfl⟩ := h
    rfl
  | succ n ih =>
    intro logMax bound bs x r h
    simp only [decFreqs] at h
    simp only [decFreqsC]
    split at h
    · rename_i h0
      rw [if_pos h0]
      cases hd : decFreqs n logMax bound bs with
      | none => simp only [hd] at h; cases h
      | some p =>
        obtain ⟨tl, r1⟩ := p
        simp only [hd, Option.some.injEq, Prod.mk.injEq] at h
        obtain ⟨rfl, rfl⟩ := h
        simp only [ih _ _ _ _ _ hd]
    · rename_i h0
      rw [if_neg h0]
      cases hr : readBits logMax bs with
      | none => simp only [hr] at h; cases h
      | some p =>
        obtain ⟨v, r1⟩ := p
        simp only [hr] at h ⊢
        split at h
        · cases h
        · rename_i h1
          rw [if_neg h1]
          cases hd : decFreqs n logMax bound r1 with
          | none => simp only [hd] at h; cases h
          | some q =>
            obtain ⟨tl, r2⟩ := q
            simp only [hd, Option.some.injEq, Prod.mk.injEq] at h
            obtain ⟨rfl, rfl⟩ := h
            simp only [ih _ _ _ _ _ hd]

theorem decFreqChunksC_cls : ∀ (fuel chk llr scale bound count : Nat) (bs : Bits) (c : Cls),
    decFreqChunksC fuel chk llr scale bound count bs = .fail c → HdrCls c := by
  intro fuel
  induction fuel with
  | zero => intro _ _ _ _ _ _ c h; simp only [decFreqChunksC] at h; cases h
  | succ fuel ih =>
    intro chk llr scale bound count bs c h
    simp only [decFreqChunksC] at h
    split at h
    · cases h
    · cases hr : readBits llr bs with
      | none => simp only [hr] at h; cases h; exact Or.inl rfl
      | some p =>
        obtain ⟨logMax, r⟩ := p
        simp only [hr] at h
        split at h
        · cases h; exact Or.inr rfl
        · cases hd : decFreqsC (min chk count) logMax bound r with
          | fail c' => simp only [hd] at h; cases h; exact decFreqsC_cls _ _ _ _ _ hd
          | ok x r1 =>
            simp only [hd] at h
            cases hc : decFreqChunksC fuel chk llr scale bound (count - min chk count) r1 with
            | fail c' => simp only [hc] at h; cases h; exact ih _ _ _ _ _ _ _ hc
            | ok tl r2 => simp only [hc] at h; cases h

theorem decFreqChunksC_of_some : ∀ (fuel chk llr scale bound count : Nat) (bs : Bits) (x : List Nat) (r : Bits),
    decFreqChunks fuel chk llr scale bound count bs = some (x, r) →
    decFreqChunksC fuel chk llr scale bound count bs = .ok x r := by
  intro fuel
  induction fuel with
  | zero =>
    intro _ _ _ _ _ bs x r h
    simp only [decFreqChunks, Option.some.injEq, Prod.mk.injEq] at h
    obtain ⟨rfl, rfl⟩ := h
    rfl
  | succ fuel ih =>
    intro chk llr scale bound count bs x r h
    simp only [decFreqChunks] at h
    simp only [decFreqChunksC]
    split at h
    · rename_i h0
      rw [if_pos h0]
      simp only [Option.some.injEq, Prod.mk.injEq] at h
      obtain ⟨rfl, rfl⟩ := h
      rfl
    · rename_i h0
      rw [if_neg h0]
      cases hr : readBits llr bs with
      | none => simp only [hr] at h; cases h
      | some p =>
        obtain ⟨logMax, r1⟩ := p
        simp only [hr] at h ⊢
        split at h
        · cases h
        · rename_i h1
          rw [if_neg h1]
          cases hd : decFreqs (min chk count) logMax bound r1 with
          | none => simp only [hd] at h; cases h
          | some q =>
            obtain ⟨c, r2⟩ := q
            simp only [hd] at h
            cases hc : decFreqChunks fuel chk llr scale bound (count - min chk count) r2 with
            | none => simp only [hc] at h; cases h
            | some q2 =>
              obtain ⟨tl, r3⟩ := q2
              simp only [hc, Option.some.injEq, Prod.mk.injEq] at h
              obtain ⟨rfl, rfl⟩ := h
              simp only [decFreqsC_of_some _ _ _ _ _ _ hd, ih _ _ _ _ _ _ _ _ hc]

theorem sum_set_le : ∀ (t : List Nat) (i v : Nat), (t.set i v).sum ≤ t.sum + v := by
  intro t
  induction t with
  | nil => intro i v; simp
  | cons x xs ih =>
    intro i v
    cases i with
    | zero => simp only [List.set_cons_zero, List.sum_cons]; omega
    | succ k =>
      simp only [List.set_cons_succ, List.sum_cons]
      have := ih k v
      omega

theorem sum_foldl_set_le : ∀ (ps : List (Nat × Nat)) (t : List Nat),
    (ps.foldl (fun t p => t.set p.1 p.2) t).sum ≤ t.sum + (ps.map (·.2)).sum := by
  intro ps
  induction ps with
  | nil => intro t; simp
  | cons p ps ih =>
    intro t
    simp only [List.foldl_cons, List.map_cons, List.sum_cons]
    have h1 := ih (t.set p.1 p.2)
    have h2 := sum_set_le t p.1 p.2
    omega

theorem sum_zip_snd_le : ∀ (a fs : List Nat), ((a.zip fs).map (·.2)).sum ≤ fs.sum := by
  intro a
  induction a with
  | nil => intro fs; simp
  | cons x xs ih =>
    intro fs
    cases fs with
    | nil => simp
    | cons y ys =>
      simp only [List.zip_cons_cons, List.map_cons, List.sum_cons]
      have := ih ys
      omega

theorem sum_replicate_zero (n : Nat) : (List.replicate n 0).sum = 0 := by
  induction n with
  | zero => rfl
  | succ n ih => simp [List.replicate_succ, ih]

/-- whatever the header says, the decoded table sums to at most `scale` -/
theorem setFreqs_sum_le (a fs : List Nat) (i v : Nat) :
    ((setFreqs (List.replicate 256 0) a fs).set i v).sum ≤ fs.sum + v := by
  have h1 := sum_set_le (setFreqs (List.replicate 256 0) a fs) i v
  have h2 := sum_foldl_set_le (a.zip fs) (List.replicate 256 0)
  have h3 := sum_zip_snd_le a fs
  have h4 := sum_replicate_zero 256
  unfold setFreqs at *
  omega

theorem freqTableC_facts (a : List Nat) (lr : Nat) (bs : Bits) :
    (∀ c, freqTableC a lr bs = .fail c → HdrCls c) ∧
    (∀ f r, freqTableC a lr bs = .ok f r → f.sum ≤ 2 ^ lr) := by
  unfold freqTableC
  cases hd : decFreqChunksC a.length (chkSizeOf a.length) (llrOf lr) (2 ^ lr) (2 ^ lr) (a.length - 1) bs with
  | fail c =>
    simp only []
    exact ⟨fun c' h => (by cases h; exact decFreqChunksC_cls _ _ _ _ _ _ _ _ hd), fun _ _ h => (by cases h)⟩
  | ok fs r =>
    simp only []
    by_cases hs : 2 ^ lr ≤ fs.sum
    · rw [if_pos hs]
      exact ⟨fun c' h => (by cases h; exact Or.inr rfl), fun _ _ h => (by cases h)⟩
    · rw [if_neg hs]
      refine ⟨fun c' h => (by cases h), fun f r' h => ?_⟩
      cases h
      have := setFreqs_sum_le (a.drop 1) fs (a.headD 0) (2 ^ lr - fs.sum)
      omega

theorem freqTableC_of_some (a : List Nat) (lr : Nat) (bs : Bits) (f : List Nat) (r : Bits)
    (h : decodeFreqTable a lr bs = some (f, r)) : freqTableC a lr bs = .ok f r := by
  unfold decodeFreqTable at h
  unfold freqTableC
  cases hd : decFreqChunks a.length (chkSizeOf a.length) (llrOf lr) (2 ^ lr) (2 ^ lr) (a.length - 1) bs with
  | none => simp only [hd] at h; cases h
  | some p =>
    obtain ⟨fs, r1⟩ := p
    simp only [hd] at h
    simp only [decFreqChunksC_of_some _ _ _ _ _ _ _ _ _ hd]
    split at h
    · cases h
    · rename_i h1
      rw [if_neg h1]
      simp only [Option.some.injEq, Prod.mk.injEq] at h
      obtain ⟨rfl, rfl⟩ := h
      rfl

/-- `decodeHeader` fails only with an "Invalid bitstream" error or by reading past the end; the
    log range it returns is at most 15 and the table it returns sums to at most `1 << logRange` -/
theorem headerC_facts (bs : Bits) :
    (∀ c, headerC bs = .fail c → HdrCls c) ∧
    (∀ a f lr r, headerC bs = .ok (a, f, lr) r → lr ≤ 15 ∧ f.sum ≤ 2 ^ lr) := by
  unfold headerC alphabetC
  cases ha : decodeAlphabet bs with
  | none =>
    simp only []
    exact ⟨fun c h => (by cases h; exact Or.inl rfl), fun _ _ _ _ h => (by cases h)⟩
  | some p =>
    obtain ⟨a, r⟩ := p
    simp only []
    by_cases h0 : a.length = 0
    · rw [if_pos h0]
      refine ⟨fun c h => (by cases h), fun a' f lr r' h => ?_⟩
      cases h
      exact ⟨by omega, by rw [sum_replicate_zero]; omega⟩
    · rw [if_neg h0]
      cases hr : readBits 3 r with
      | none =>
        simp only []
        exact ⟨fun c h => (by cases h; exact Or.inl rfl), fun _ _ _ _ h => (by cases h)⟩
      | some q =>
        obtain ⟨l, r1⟩ := q
        simp only []
        have hl := readBits_lt 3 r l r1 hr
        obtain ⟨t1, t2⟩ := freqTableC_facts a (8 + l) r1
        cases ht : freqTableC a (8 + l) r1 with
        | fail c =>
          simp only []
          exact ⟨fun c' h => (by cases h; exact t1 c ht), fun _ _ _ _ h => (by cases h)⟩
        | ok tbl r2 =>
          simp only []
          refine ⟨fun c h => (by cases h), fun a' f lr r' h => ?_⟩
          cases h
          exact ⟨by omega, t2 tbl r2 ht⟩

theorem headerC_of_some (bs : Bits) (x : List Nat × List Nat × Nat) (r : Bits)
    (h : rangeDecodeHeader bs = some (x, r)) : headerC bs = .ok x r := by
  unfold rangeDecodeHeader at h
  unfold headerC alphabetC
  cases ha : decodeAlphabet bs with
  | none => simp only [ha] at h; cases h
  | some p =>
    obtain ⟨a, r0⟩ := p
    simp only [ha] at h ⊢
    split at h
    · rename_i h0
      rw [if_pos h0]
      simp only [Option.some.injEq, Prod.mk.injEq] at h
      obtain ⟨rfl, rfl⟩ := h
      rfl
    · rename_i h0
      rw [if_neg h0]
      cases hr : readBits 3 r0 with
      | none => simp only [hr] at h; cases h
      | some q =>
        obtain ⟨l, r1⟩ := q
        simp only [hr] at h ⊢
        cases ht : decodeFreqTable a (8 + l) r1 with
        | none => simp only [ht] at h; cases h
        | some q2 =>
          obtain ⟨tbl, r2⟩ := q2
          simp only [ht, Option.some.injEq, Prod.mk.injEq] at h
          obtain ⟨rfl, rfl⟩ := h
          simp only [freqTableC_of_some _ _ _ _ _ ht]

/-! ### D. the reverse mapping -/

theorem f2sBase_size (old : Array Nat) (lr : Nat) :
    (f2sBase old lr).size = max old.size (2 ^ lr) := by
  unfold f2sBase
  split
  · simp only [Array.size_replicate]; omega
  · omega

/-- the reverse-mapping loop of `decodeHeader` never indexes out of range, and `len(f2s)` becomes
    `max(len(f2s), scale)` -/
theorem buildF2s_ok (old : Array Nat) (f : List Nat) (lr : Nat) (hsum : f.sum ≤ 2 ^ lr) :
    ∃ t, buildF2s old f lr = some t ∧ t.size = max old.size (2 ^ lr) ∧ F2sExt f t := by
  have hb := f2sBase_size old lr
  have hle : f.sum ≤ (f2sBase old lr).size := by omega
  unfold buildF2s
  rw [if_pos hle]
  refine ⟨_, rfl, ?_, ?_⟩
  · simp only [List.size_toArray, List.length_append, f2sList_length, List.length_drop, Array.length_toList]
    omega
  · intro j hj
    constructor
    · simp only [List.size_toArray, List.length_append, f2sList_length, List.length_drop, Array.length_toList]
      omega
    · have hl : j < (f2sList f 0).length := by rw [f2sList_length]; exact hj
      simp only [mkF2s, Array.getD_eq_getD_getElem?, List.getElem?_toArray,
        List.getElem?_append_left hl]

end Kanzi.RangeDec
