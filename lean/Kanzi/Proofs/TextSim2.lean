/-
`text` slice: the lock-step simulation, part 4: the invariant `Sim` between the state of `encL` after a prefix of
the source and the state of `decL` after the bytes emitted (and still pending) for that prefix, and its
preservation by every kind of encoder step.
-/
import Kanzi.Proofs.TextSim

namespace Kanzi.Text
open Kanzi.RLT (Out Res wr)

/-! ## tokens and literals as byte lists -/

/-- the bytes of a word token -/
def tokBytes (tc2 via : Bool) (idx : Nat) : List Nat :=
  if tc2 then (if via then [] else [MASK_FLIP_CASE]) ++ wordIndex2 idx
  else (if via then ESCAPE_TOKEN1 else ESCAPE_TOKEN2) :: wordIndex1 idx

theorem wr_eq (n : Nat) (o o2 : Array Nat) (bs : List Nat) (h : wr n o bs = .ok o2) : o2 = o ++ bs := by
  unfold Kanzi.RLT.wr at h
  split at h
  · cases h; rfl
  · cases h

theorem fwdToken_eq (tc2 : Bool) (n : Nat) (o o2 : Array Nat) (via : Bool) (idx : Nat)
    (h : fwdToken tc2 n o via idx = .ok o2) : o2 = o ++ tokBytes tc2 via idx := by
  unfold fwdToken at h
  unfold tokBytes
  cases tc2
  · simp only [Bool.false_eq_true, if_false] at h ⊢
    exact wr_eq _ _ _ _ h
  · simp only [if_true] at h ⊢
    exact wr_eq _ _ _ _ h

/-- the decoder on a word token of either codec -/
theorem decL_word (tc2 : Bool) (n : Nat) (crlf : Bool) (via : Bool) (idx : Nat) (w L : List Nat) (t : DS)
    (hroom0 : t.out.length < n) (hi : idx < t.d.list.size) (hs : idx < t.d.size) (h19 : idx < 2 ^ 19)
    (hp : (entryAt t.d idx).ptr = some w) (hl : (entryAt t.d idx).len = w.length) (h2 : 2 ≤ w.length)
    (h256 : w.length < 256)
    (hroom : (if t.run = true then t.out ++ [32] else t.out).length + w.length < n)
    (hlearn : ∀ c, isDelimiter c = false → learnL t.pw t.words t.d c = .ok (t.d, t.words)) :
    decL tc2 false n crlf (tokBytes tc2 via idx ++ L) t =
      decL tc2 false n crlf L ⟨none, t.words, true, t.d,
        (if t.run = true then t.out ++ [32] else t.out) ++ flipHead (if via = true then 0 else 0x20) w⟩ := by
  unfold tokBytes
  cases tc2
  · simp only [Bool.false_eq_true, if_false, List.cons_append]
    exact decL_word1 false n crlf via idx w L t hroom0 hi hs h19 hp hl h2 h256 hroom hlearn
  · simp only [if_true]
    obtain ⟨c, tl, e, _, _⟩ := wordIndex2_head idx h19
    rw [e]
    exact decL_word2 n crlf via idx c tl w L t e hroom0 hi hs h19 hp hl h2 h256 hroom hlearn

theorem encLits_append (tc2 crlf : Bool) (ssz : Nat) (A B : List Nat) :
    encLits tc2 crlf ssz (A ++ B) = encLits tc2 crlf ssz A ++ encLits tc2 crlf ssz B := by
  unfold encLits; exact List.flatMap_append

theorem symE_text (tc2 crlf : Bool) (ssz c : Nat) (h : isText c = true) : symE tc2 crlf ssz c = [c] := by
  have hlt := isText_lt h
  have h1 : c ≠ ESCAPE_TOKEN1 := by intro e; rw [e] at h; exact absurd h (by decide)
  have h2 : c ≠ ESCAPE_TOKEN2 := by intro e; rw [e] at h; exact absurd h (by decide)
  have h3 : c ≠ CR := by intro e; rw [e] at h; exact absurd h (by decide)
  unfold symE
  cases tc2
  · simp only [Bool.false_eq_true, if_false]
    unfold sym1
    rw [if_neg (by intro hc; rcases hc with hc | hc; exact h1 hc; exact h2 hc), if_neg (fun hc => h3 hc.1)]
  · simp only [if_true]
    unfold sym2
    rw [if_neg h1, if_neg h3, if_neg (by omega)]

theorem encLits_text (tc2 crlf : Bool) (ssz : Nat) : ∀ (w : List Nat), (∀ b ∈ w, isText b = true) →
    encLits tc2 crlf ssz w = w
  | [], _ => rfl
  | c :: w, h => by
    have ih := encLits_text tc2 crlf ssz w (fun b hb => h b (List.mem_cons_of_mem _ hb))
    unfold encLits at ih ⊢
    rw [List.flatMap_cons, symE_text tc2 crlf ssz c (h c (List.mem_cons_self ..)), ih]
    rfl

/-! ## the invariant -/

/-- the fixed parameters of one block: codec, `len(dst)` of Inverse, the CR+LF flag, `staticDictSize`,
    `logHashSize`, the decoder's initial state -/
structure Par where
  tc2 : Bool
  n : Nat
  crlf : Bool
  ssz : Nat
  lh : Nat
  ds0 : DS

/-- the encoded bytes (after the mode byte) that correspond to everything before the current word: what was
    emitted plus the encoding of the pending literals -/
def G (p : Par) (e : ES) : List Nat := e.out.toList.drop 1 ++ encLits p.tc2 p.crlf p.ssz e.X

abbrev dec (p : Par) (L : List Nat) (t : DS) : Out DS := decL p.tc2 false p.n p.crlf L t

/-- `e`: state of `encL` after a prefix of the source; `tX`: state of `decL` after `G p e`; `PX`: that prefix
    without the current word `e.pw` -/
structure Sim (p : Par) (e : ES) (tX : DS) (PX : List Nat) : Prop where
  okE : DictOK e.d e.words
  okD : DictOK tX.d tX.words
  sim : DictSim e.d tX.d
  ssz : e.d.ssz = p.ssz
  hsz : e.d.hsz = 2 ^ p.lh
  words : tX.words = e.words
  out : tX.out = PX
  pw : tX.pw = some []
  run : tX.run = false
  text : ∀ b ∈ e.pw, isText b = true
  out1 : 1 ≤ e.out.size
  spec : p.tc2 = false → 2 ≤ p.ssz ∧
    entryAt tX.d (p.ssz - 2) = ⟨0, 1, p.ssz - 2, some [ESCAPE_TOKEN2]⟩ ∧
    entryAt tX.d (p.ssz - 1) = ⟨0, 1, p.ssz - 1, some [ESCAPE_TOKEN1]⟩
  inv : ∀ L, dec p (G p e ++ L) p.ds0 = dec p L tX
  skip : e.X = [32] → ∃ tO : DS, (∀ L, dec p (e.out.toList.drop 1 ++ L) p.ds0 = dec p L tO) ∧
    tO.run = true ∧ tO.pw = none ∧ tO.out ++ [32] = PX ∧ tO.d = tX.d ∧ tO.words = tX.words

/-- `learn` does not touch the entries below the ring index -/
theorem learn_entry_below (d d' : Dict) (w w' : Nat) (word : List Nat) (h1 : Nat) (hd : DictOK d w)
    (h : learn d w word h1 = .ok (d', w')) (k : Nat) (hk : k < w) : entryAt d' k = entryAt d k := by
  rw [learn_eq d w word h1 hd] at h
  have hd' : d' = (learnNext (learnCore d w word h1) w).1 := (congrArg Prod.fst (Out.ok.inj h)).symm
  have hc : entryAt (learnCore d w word h1) k = entryAt d k := by
    rw [learnCore_entry d w word h1 k hd, if_neg (by omega)]
  rw [hd']
  unfold learnNext
  have hsz : (learnCore d w word h1).size = d.size := rfl
  by_cases c1 : w + 1 ≥ (learnCore d w word h1).size
  · rw [if_pos c1]
    by_cases c2 : (learnCore d w word h1).size ≥ MAX_DICT_SIZE
    · rw [if_pos c2]; exact hc
    · rw [if_neg c2]
      have hlist : (learnCore d w word h1).list.size = (learnCore d w word h1).size := by
        show (d.list.setIfInBounds w _).size = d.size
        rw [Array.size_setIfInBounds]; exact hd.size_eq
      show entryAt (expand (learnCore d w word h1)) k = entryAt d k
      have := (expand_list (learnCore d w word h1) hlist).2 k
      unfold entryAt at this hc ⊢
      rw [this, if_pos (by rw [hsz]; have := hd.words_lt; omega)]
      exact hc
  · rw [if_neg c1]; exact hc

/-! ## a non-letter byte at which no token is emitted -/

/-- `S`: the source bytes consumed by the step (`[c]`, or `[CR, LF]` in CR+LF mode), `cD`: the byte the decoder
    sees for them; `(d', w')` / `(dD', w')`: the dictionaries after the step -/
theorem sim_notoken (p : Par) (e : ES) (tX : DS) (PX S : List Nat) (cD : Nat) (d' dD' : Dict) (w' : Nat)
    (hS : Sim p e tX PX) (hnt : isText cD = false)
    (hplain : if p.tc2 = true then cD < 128 ∧ cD ≠ ESCAPE_TOKEN1 else cD ≠ ESCAPE_TOKEN1 ∧ cD ≠ ESCAPE_TOKEN2)
    (henc : encLits p.tc2 p.crlf p.ssz S = [cD])
    (hlit : ∀ t : DS, t.out.length + S.length ≤ p.n →
      litL p.n p.crlf t cD = .ok { t with run := false, pw := some [], out := t.out ++ S })
    (hS1 : 1 ≤ S.length) (hroom : PX.length + e.pw.length + S.length ≤ p.n)
    (hl : learnL (some e.pw) tX.words tX.d cD = .ok (dD', w'))
    (hokE : DictOK d' w') (hokD : DictOK dD' w') (hsim : DictSim d' dD') (hssz : d'.ssz = e.d.ssz)
    (hhsz : d'.hsz = e.d.hsz) (hbelow : ∀ k, k < e.d.ssz → entryAt dD' k = entryAt tX.d k)
    (hne : e.X ++ e.pw ++ S ≠ [32]) :
    Sim p ⟨e.X ++ e.pw ++ S, [], w', d', e.out⟩ ⟨some [], w', false, dD', PX ++ e.pw ++ S⟩ (PX ++ e.pw ++ S) := by
  refine ⟨hokE, hokD, hsim, by rw [hssz]; exact hS.ssz, by rw [hhsz]; exact hS.hsz, rfl, rfl, rfl, rfl,
    fun b hb => by simp at hb, hS.out1, ?_, ?_, fun hx => absurd hx hne⟩
  · intro htc
    obtain ⟨h2, e2, e1⟩ := hS.spec htc
    have hs := hS.ssz
    refine ⟨h2, ?_, ?_⟩
    · show entryAt dD' (p.ssz - 2) = _
      rw [hbelow _ (by omega)]; exact e2
    · show entryAt dD' (p.ssz - 1) = _
      rw [hbelow _ (by omega)]; exact e1
  · intro L
    have hG : G p ⟨e.X ++ e.pw ++ S, [], w', d', e.out⟩ ++ L = G p e ++ (e.pw ++ (cD :: L)) := by
      unfold G
      simp only
      rw [encLits_append, encLits_append, encLits_text _ _ _ e.pw hS.text, henc]
      simp only [List.append_assoc, List.cons_append, List.nil_append]
    rw [hG, hS.inv]
    show decL p.tc2 false p.n p.crlf (e.pw ++ (cD :: L)) tX = _
    have hout := hS.out
    rw [decL_letters p.tc2 false p.n p.crlf e.pw (cD :: L) tX [] hS.text hS.pw (by rw [hout]; omega)]
    simp only [List.nil_append]
    have hlit' := hlit { tX with pw := some e.pw, out := tX.out ++ e.pw, d := dD', words := w' }
      (by simp only [List.length_append]; rw [hout]; omega)
    rw [decL_lit p.tc2 false p.n p.crlf cD L _ _ dD' w'
      (by simp only [List.length_append]; rw [hout]; omega) hnt hplain hl hlit']
    simp only [hout]

/-! ## a delimiter at which a word token is emitted -/

theorem drop_one_append (a b : List Nat) (h : 1 ≤ a.length) : (a ++ b).drop 1 = a.drop 1 ++ b := by
  cases a with
  | nil => simp at h
  | cons x t => rfl

theorem sim_token (p : Par) (e : ES) (tX : DS) (PX S w : List Nat) (cD k : Nat) (via : Bool) (o2 : Array Nat)
    (hS : Sim p e tX PX)
    (hp : (entryAt e.d k).ptr = some w) (hl : (entryAt e.d k).len = w.length) (hwl : w.length = e.pw.length)
    (hk : k < e.d.list.size) (hflip : flipHead (if via = true then 0 else 0x20) w = e.pw)
    (h2 : 2 ≤ e.pw.length) (h31 : e.pw.length ≤ MAX_WORD_LENGTH)
    (ho2 : o2 = (if e.X ≠ [32] then e.out ++ encLits p.tc2 p.crlf p.ssz e.X else e.out) ++ tokBytes p.tc2 via k)
    (hnt : isText cD = false)
    (hplain : if p.tc2 = true then cD < 128 ∧ cD ≠ ESCAPE_TOKEN1 else cD ≠ ESCAPE_TOKEN1 ∧ cD ≠ ESCAPE_TOKEN2)
    (henc : encLits p.tc2 p.crlf p.ssz S = [cD])
    (hlit : ∀ t : DS, t.out.length + S.length ≤ p.n →
      litL p.n p.crlf t cD = .ok { t with run := false, pw := some [], out := t.out ++ S })
    (hS1 : 1 ≤ S.length) (hroom : PX.length + e.pw.length + S.length ≤ p.n) :
    Sim p ⟨S, [], e.words, e.d, o2⟩ ⟨some [], e.words, false, tX.d, PX ++ e.pw ++ S⟩ (PX ++ e.pw ++ S) := by
  have hM : MAX_DICT_SIZE = 2 ^ 19 := by decide
  have h31' : MAX_WORD_LENGTH = 31 := rfl
  have hkE : k < e.d.size := by rw [← hS.okE.size_eq]; exact hk
  have hkD : k < tX.d.size := Nat.lt_of_lt_of_le hkE hS.sim.size_le
  have hkDl : k < tX.d.list.size := by rw [hS.okD.size_eq]; exact hkD
  have h19 : k < 2 ^ 19 := by rw [← hM]; exact Nat.lt_of_lt_of_le hkD hS.okD.size_le
  have hent : entryAt tX.d k = entryAt e.d k := hS.sim.entry_lt k hkE
  have hout := hS.out
  have hout1 : 1 ≤ e.out.toList.length := by rw [Array.length_toList]; exact hS.out1
  -- the decoder after the token
  have claimA : ∀ L, dec p (o2.toList.drop 1 ++ L) p.ds0 = dec p L ⟨none, tX.words, true, tX.d, PX ++ e.pw⟩ := by
    intro L
    by_cases cx : e.X ≠ [32]
    · have ho : o2.toList.drop 1 ++ L = G p e ++ (tokBytes p.tc2 via k ++ L) := by
        rw [ho2, if_pos cx, toList_appendList, toList_appendList, List.append_assoc,
          drop_one_append _ _ hout1]
        unfold G
        simp only [List.append_assoc]
      rw [ho, hS.inv]
      show decL p.tc2 false p.n p.crlf _ tX = _
      rw [decL_word p.tc2 p.n p.crlf via k w L tX (by rw [hout]; omega) hkDl hkD h19 (by rw [hent]; exact hp)
        (by rw [hent]; exact hl) (by omega) (by omega)
        (by rw [hS.run]; simp only [Bool.false_eq_true, if_false]; rw [hout]; omega)
        (fun c _ => by rw [hS.pw]; exact learnL_short [] _ _ _ (by simp))]
      rw [hS.run, hflip, hout]
      simp only [Bool.false_eq_true, if_false]
    · have cx' : e.X = [32] := by simpa using cx
      obtain ⟨tO, hO, hrun, hpw, hoO, hdO, hwO⟩ := hS.skip cx'
      have ho : o2.toList.drop 1 ++ L = e.out.toList.drop 1 ++ (tokBytes p.tc2 via k ++ L) := by
        rw [ho2, if_neg cx, toList_appendList, drop_one_append _ _ hout1, List.append_assoc]
      rw [ho, hO]
      show decL p.tc2 false p.n p.crlf _ tO = _
      have hlenO : tO.out.length + 1 = PX.length := by rw [← hoO]; simp
      rw [decL_word p.tc2 p.n p.crlf via k w L tO (by omega) (by rw [hdO]; exact hkDl) (by rw [hdO]; exact hkD) h19
        (by rw [hdO, hent]; exact hp) (by rw [hdO, hent]; exact hl) (by omega) (by omega)
        (by rw [hrun]; simp only [if_true, List.length_append, List.length_cons, List.length_nil]; omega)
        (fun c _ => by rw [hpw]; rfl)]
      rw [hrun, hflip, hdO, hwO]
      simp only [if_true, hoO]
  have ho2size : 1 ≤ o2.size := by
    rw [ho2, size_appendList]
    have := hS.out1
    split
    · rw [size_appendList]; omega
    · omega
  have hokD : DictOK tX.d e.words := by rw [← hS.words]; exact hS.okD
  refine ⟨hS.okE, hokD, hS.sim, hS.ssz, hS.hsz, rfl, rfl, rfl, rfl, fun b hb => by simp at hb, ho2size,
    hS.spec, ?_, ?_⟩
  · intro L
    have hG : G p ⟨S, [], e.words, e.d, o2⟩ ++ L = o2.toList.drop 1 ++ (cD :: L) := by
      unfold G
      simp only
      rw [henc]
      simp only [List.append_assoc, List.cons_append, List.nil_append]
    rw [hG, claimA]
    show decL p.tc2 false p.n p.crlf (cD :: L) _ = _
    have hlit' := hlit ⟨none, tX.words, true, tX.d, PX ++ e.pw⟩
      (by simp only [List.length_append]; omega)
    rw [decL_lit p.tc2 false p.n p.crlf cD L _ _ tX.d tX.words
      (by simp only [List.length_append]; omega) hnt hplain rfl hlit']
    simp only [hS.words]
  · intro hx
    simp only at hx
    refine ⟨⟨none, tX.words, true, tX.d, PX ++ e.pw⟩, claimA, rfl, rfl, ?_, rfl, hS.words⟩
    simp only [hx]

/-! ## letters and escaped bytes -/

theorem sim_text (p : Par) (e : ES) (tX : DS) (PX : List Nat) (c : Nat) (hS : Sim p e tX PX)
    (hc : isText c = true) : Sim p { e with pw := e.pw ++ [c] } tX PX := by
  refine ⟨hS.okE, hS.okD, hS.sim, hS.ssz, hS.hsz, hS.words, hS.out, hS.pw, hS.run, ?_, hS.out1, hS.spec,
    hS.inv, hS.skip⟩
  intro b hb
  rcases List.mem_append.mp hb with hb | hb
  · exact hS.text b hb
  · rw [List.mem_singleton.mp hb]; exact hc

/-- a byte that is stored escaped: 0x0E / 0x0F for codec 1 (as the token of a special dictionary entry),
    0x0F and the bytes >= 0x80 for codec 2 (preceded by 0x0F) -/
theorem sim_escape (p : Par) (e : ES) (tX : DS) (PX : List Nat) (c : Nat) (hS : Sim p e tX PX)
    (hesc : if p.tc2 = true then (c ≥ 128 ∨ c = ESCAPE_TOKEN1) else (c = ESCAPE_TOKEN1 ∨ c = ESCAPE_TOKEN2))
    (hroom : PX.length + e.pw.length + (if p.tc2 = true then 1 else 2) ≤ p.n) :
    Sim p ⟨e.X ++ e.pw ++ [c], [], e.words, e.d, e.out⟩ ⟨some [], e.words, false, tX.d, PX ++ e.pw ++ [c]⟩
      (PX ++ e.pw ++ [c]) := by
  have hM : MAX_DICT_SIZE = 2 ^ 19 := by decide
  have hokD : DictOK tX.d e.words := by rw [← hS.words]; exact hS.okD
  have hout := hS.out
  have hc32 : c ≠ 32 := by
    cases htc : p.tc2
    · rw [htc] at hesc
      simp only [Bool.false_eq_true, if_false] at hesc
      rcases hesc with h | h <;> rw [h] <;> decide
    · rw [htc] at hesc
      simp only [if_true] at hesc
      rcases hesc with h | h
      · omega
      · rw [h]; decide
  refine ⟨hS.okE, hokD, hS.sim, hS.ssz, hS.hsz, rfl, rfl, rfl, rfl, fun b hb => by simp at hb, hS.out1,
    hS.spec, ?_, ?_⟩
  · intro L
    cases htc : p.tc2
    · -- codec 1
      rw [htc] at hesc hroom
      simp only [Bool.false_eq_true, if_false] at hesc hroom
      obtain ⟨h2, e2, e1⟩ := hS.spec htc
      have hsszE := hS.ssz
      have hwl := hS.okD.words_lt
      have hsl := hS.okD.ssz_le
      have hssD : tX.d.ssz = p.ssz := by rw [hS.sim.ssz_eq]; exact hsszE
      have hG : G p ⟨e.X ++ e.pw ++ [c], [], e.words, e.d, e.out⟩ ++ L =
          G p e ++ (e.pw ++ (ESCAPE_TOKEN1 :: (wordIndex1 (if c = ESCAPE_TOKEN1 then p.ssz - 1 else p.ssz - 2) ++ L))) := by
        unfold G
        simp only
        rw [encLits_append, encLits_append, encLits_text _ _ _ e.pw hS.text]
        have : encLits p.tc2 p.crlf p.ssz [c] =
            ESCAPE_TOKEN1 :: wordIndex1 (if c = ESCAPE_TOKEN1 then p.ssz - 1 else p.ssz - 2) := by
          unfold encLits symE
          rw [htc]
          simp only [Bool.false_eq_true, if_false, List.flatMap_cons, List.flatMap_nil, List.append_nil]
          unfold sym1
          rw [if_pos hesc]
        rw [this]
        simp only [List.append_assoc, List.cons_append, List.nil_append]
      rw [hG, hS.inv]
      show decL p.tc2 false p.n p.crlf _ tX = decL p.tc2 false p.n p.crlf L _
      rw [htc, decL_letters false false p.n p.crlf e.pw _ tX [] hS.text hS.pw (by rw [hout]; omega)]
      simp only [List.nil_append]
      have hidx : (if c = ESCAPE_TOKEN1 then p.ssz - 1 else p.ssz - 2) < tX.d.size := by
        split <;> omega
      have hent : entryAt tX.d (if c = ESCAPE_TOKEN1 then p.ssz - 1 else p.ssz - 2) =
          ⟨0, 1, (if c = ESCAPE_TOKEN1 then p.ssz - 1 else p.ssz - 2), some [c]⟩ := by
        by_cases c1 : c = ESCAPE_TOKEN1
        · rw [if_pos c1, e1, c1]
        · have c2 : c = ESCAPE_TOKEN2 := by rcases hesc with h | h; exact absurd h c1; exact h
          rw [if_neg c1, e2, c2]
      rw [decL_esc1 false p.n p.crlf c _ L ⟨some e.pw, tX.words, tX.run, tX.d, tX.out ++ e.pw⟩
        (by simp only [List.length_append]; rw [hout]; omega)
        (by simp only; rw [hS.okD.size_eq]; exact hidx) hidx
        (by rw [← hM]; exact Nat.lt_of_lt_of_le hidx hS.okD.size_le) hent]
      simp only [hout, hS.words]
    · -- codec 2
      rw [htc] at hesc hroom
      simp only [if_true] at hesc hroom
      have hG : G p ⟨e.X ++ e.pw ++ [c], [], e.words, e.d, e.out⟩ ++ L =
          G p e ++ (e.pw ++ (ESCAPE_TOKEN1 :: c :: L)) := by
        unfold G
        simp only
        rw [encLits_append, encLits_append, encLits_text _ _ _ e.pw hS.text]
        have : encLits p.tc2 p.crlf p.ssz [c] = [ESCAPE_TOKEN1, c] := by
          unfold encLits symE
          rw [htc]
          simp only [if_true, List.flatMap_cons, List.flatMap_nil, List.append_nil]
          unfold sym2
          by_cases c1 : c = ESCAPE_TOKEN1
          · rw [if_pos c1, c1]
          · have c2 : c ≥ 128 := by rcases hesc with h | h; exact h; exact absurd h c1
            have c3 : c ≠ CR := by intro h; rw [h] at c2; exact absurd c2 (by decide)
            rw [if_neg c1, if_neg c3, if_pos c2]
        rw [this]
        simp only [List.append_assoc, List.cons_append, List.nil_append]
      rw [hG, hS.inv]
      show decL p.tc2 false p.n p.crlf _ tX = decL p.tc2 false p.n p.crlf L _
      rw [htc, decL_letters true false p.n p.crlf e.pw _ tX [] hS.text hS.pw (by rw [hout]; omega)]
      simp only [List.nil_append]
      rw [decL_esc2 false p.n p.crlf c L ⟨some e.pw, tX.words, tX.run, tX.d, tX.out ++ e.pw⟩
        (by simp only [List.length_append]; rw [hout]; omega)]
      simp only [hout, hS.words]
  · intro hx
    simp only at hx
    exfalso
    have : (e.X ++ e.pw ++ [c]).getLast? = some c := by simp
    rw [hx] at this
    simp at this
    exact hc32 this.symm

end Kanzi.Text
