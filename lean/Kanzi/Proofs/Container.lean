import Kanzi.Model.Container
namespace Kanzi.Container
open Kanzi.Bits

theorem parseFrame_frameBits (p rest : Bits) (h0 : 0 < p.length) (hmax : p.length < 2 ^ 34) :
    parseFrame (frameBits p ++ rest) = Parsed.frame p rest := by sorry

theorem parseFrame_endMarker (rest : Bits) : parseFrame (endMarker ++ rest) = Parsed.endMark rest := by sorry

theorem parseFrames_stream (payloads : List Bits) (pad : Bits)
    (h : ∀ p ∈ payloads, 0 < p.length ∧ p.length < 2 ^ 34) :
    parseFrames (payloads.length + 1) (payloads.flatMap frameBits ++ endMarker ++ pad) =
      payloads.map Item.payload ++ [Item.endMark] := by sorry

theorem parseFrames_prefix (payloads : List Bits) (k : Nat)
    (h : ∀ p ∈ payloads, 0 < p.length ∧ p.length < 2 ^ 34)
    (hk : k < (payloads.flatMap frameBits ++ endMarker).length) :
    ∃ m, m ≤ payloads.length ∧
      parseFrames (payloads.length + 1) ((payloads.flatMap frameBits ++ endMarker).take k) =
        (payloads.take m).map Item.payload ++ [Item.truncated] := by sorry

end Kanzi.Container
