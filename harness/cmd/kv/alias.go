package main

// alias: correspondence stream for the alias codec transform.AliasCodec (transform names "PACK" and
// "DNA"; Forward / Inverse / MaxEncodedLen), model lean/Kanzi/Model/Alias.lean, driver
// lean/Kanzi/Drv/Alias.lean (op grammar there).
//
// Exec runs the REAL codec on caller-owned buffers (trCall of trsmall.go: source with cap == len,
// destination dst[:dstLen] followed by a canary) and evaluates the C13 oracle on the real code,
// independently of the Lean model: no panic in Forward, source buffer unchanged (success or decline),
// canary intact, and when Forward succeeds into a destination of at least MaxEncodedLen bytes:
// everything consumed, output length <= MaxEncodedLen, Inverse(Forward(x)) == x into a destination of
// exactly len(x) bytes and of larger ones, without panic.  A panic of Inverse on a FORGED input (`ai` ops)
// is recorded as a tag (observation), not as a violation.  The `as` ops build the codec the way the
// compressor does (transform.New(ctx, GetType("PACK" | "DNA"))) and run the one-stage sequence.

import (
	"bytes"
	"fmt"
	"math/rand"
	"reflect"
	"strconv"
	"strings"

	"github.com/flanglet/kanzi-go/v2/transform"

	"kverif/internal/gen"
)

func init() {
	registerStream(&Stream{
		Name: "alias",
		Rule: "one op = one AliasCodec.Forward (+ Inverse of its output) with NewAliasCodec / NewAliasCodecWithCtx (PACK) / packOnlyDNA (DNA) and a dataType hint, or one AliasCodec.Inverse call on a forged input, or one Forward+Inverse of the sequence built by transform.New for the names PACK / DNA; families: alphabets of exactly 1,2,3,4,5,15,16,17,18,100,200,239,240,241,255,256 distinct symbols (uniform / skewed / repeated chunks), DNA text with and without the DT_DNA hint, every data type hint, every length residue mod 8 from 1020 to 1060 and tiny blocks, text with many repeated pairs, all 256 symbols, blocks around the savings threshold count/20 and around dstIdx >= count, destinations around MaxEncodedLen, forged / truncated / mutated / exhaustive short inverse inputs with small and large destinations; distinct_nontrivial = distinct ops with a non-empty block",
		Gen:  aliasGen,
		Exec: aliasExec,
	})
}

func aliasFwdClass(err error) string {
	m := err.Error()
	switch {
	case strings.Contains(m, "Output buffer is too small"):
		return "dst"
	case strings.Contains(m, "Input block is too small"):
		return "small"
	case strings.Contains(m, "binary data"):
		return "binary"
	case strings.Contains(m, "not DNA data"):
		return "notdna"
	case strings.Contains(m, "not enough free slots"):
		return "slots"
	case strings.Contains(m, "not enough savings"):
		return "savings"
	}
	return "other(" + m + ")"
}

func aliasInvClass(err error) string {
	m := err.Error()
	switch {
	case strings.Contains(m, "Input block is too small"):
		return "small"
	case strings.Contains(m, "incorrect number of slots"):
		return "slots"
	case strings.Contains(m, "incorrect output size"):
		return "osize"
	case strings.HasSuffix(m, "invalid data"):
		return "data"
	}
	return "other(" + m + ")"
}

// canonical line of one Inverse call; forged = the input is not a Forward output (a panic is an observation)
func aliasInvLine(res *Result, o trOut, dstLen int, forged bool) string {
	site := "transform.AliasCodec.Inverse"
	if o.inputMod {
		trViolate(res, site, "input-modified", "source buffer changed by the call")
	}
	if o.canary {
		trViolate(res, site, "dst-overrun", "bytes after dst[:len] were written")
	}
	if o.panicMsg != "" {
		if !forged {
			trViolate(res, site, "panic", o.panicMsg)
		}
		return "panic"
	}
	if o.err != nil {
		return "err:" + aliasInvClass(o.err)
	}
	if int(o.written) > dstLen {
		if !forged {
			trViolate(res, site, "written>len(dst)", fmt.Sprintf("written=%d len(dst)=%d", o.written, dstLen))
		}
		return "overrun"
	}
	return "ok " + rltOut(o.out)
}

func aliasNew(v, dts string) (*transform.AliasCodec, *map[string]any, bool) {
	if v == "0" {
		if dts != "-" {
			return nil, nil, false
		}
		t, _ := transform.NewAliasCodec()
		return t, nil, true
	}
	if v != "P" && v != "D" {
		return nil, nil, false
	}
	ctx := map[string]any{}
	if dts != "-" {
		k, err := strconv.Atoi(dts)
		if err != nil || k < 0 || k > 64 {
			return nil, nil, false
		}
		d := rltDataType(k)
		if d == nil {
			return nil, nil, false
		}
		ctx["dataType"] = d
	}
	if v == "D" {
		// what transform.New does for DNA_TYPE (Factory.go)
		ctx["packOnlyDNA"] = true
	}
	t, err := transform.NewAliasCodecWithCtx(&ctx)
	if err != nil {
		return nil, nil, false
	}
	return t, &ctx, true
}

func aliasExec(op string, res *Result) string {
	w := strings.Fields(op)
	atoi := func(s string) (int, bool) {
		v, err := strconv.Atoi(s)
		return v, err == nil && v >= 0 && v <= 1<<26
	}
	switch {
	case len(w) == 5 && w[0] == "af":
		dstLen, ok1 := atoi(w[3])
		data, ok2 := rltDec(w[4])
		t, ctx, ok3 := aliasNew(w[1], w[2])
		if !ok1 || !ok2 || !ok3 {
			return "bad-op"
		}
		site := "transform.AliasCodec.Forward"
		res.Nontrivial = len(data) > 0
		res.Sample = map[string]any{"op": "af", "len": len(data), "dst": dstLen, "prefix": op[:min(len(op), 80)]}
		o := trCall(t.Forward, data, dstLen)
		ctxs := ""
		if ctx != nil {
			ctxs = " ctx=-"
			if v, ok := (*ctx)["dataType"]; ok {
				ctxs = fmt.Sprintf(" ctx=%d", reflect.ValueOf(v).Int())
			}
		}
		if o.panicMsg != "" {
			trViolate(res, site, "panic", o.panicMsg)
			res.Tags = append(res.Tags, "af:panic")
			return "panic"
		}
		if o.inputMod {
			trViolate(res, site, "input-modified", "source buffer changed by the call")
		}
		if o.canary {
			trViolate(res, site, "dst-overrun", "bytes after dst[:len] were written")
		}
		if o.err != nil {
			cl := aliasFwdClass(o.err)
			res.Tags = append(res.Tags, "af:declined:"+cl)
			return "declined:" + cl + ctxs
		}
		if int(o.written) > dstLen {
			trViolate(res, site, "written>len(dst)", fmt.Sprintf("written=%d len(dst)=%d", o.written, dstLen))
			return "overrun"
		}
		maxLen := t.MaxEncodedLen(len(data))
		inScope := len(data) > 0 && dstLen >= maxLen
		if inScope {
			res.Tags = append(res.Tags, fmt.Sprintf("af:ok:%s", aliasPath(o.out)))
			if int(o.written) > maxLen {
				trViolate(res, site, "output>MaxEncodedLen", fmt.Sprintf("written=%d max=%d", o.written, maxLen))
			}
			if int(o.read) != len(data) {
				trViolate(res, site, "short-read", fmt.Sprintf("read=%d len=%d with nil error", o.read, len(data)))
			}
		} else {
			res.Tags = append(res.Tags, "af:ok-trivial")
		}
		isite := "transform.AliasCodec.Inverse"
		line := ""
		for k, extra := range []int{0, 1, 2, 1 + len(data)/16, 70000} {
			ti, _ := transform.NewAliasCodec()
			b := trCall(ti.Inverse, o.out, len(data)+extra)
			if k == 0 {
				var r2 Result
				line = aliasInvLine(&r2, b, len(data), false)
				if r2.Violation != nil && inScope {
					res.Violation = r2.Violation
				}
			}
			if !inScope {
				break
			}
			switch {
			case b.panicMsg != "":
				trViolate(res, isite, "panic", b.panicMsg)
			case b.err != nil:
				trViolate(res, isite, "roundtrip-error", fmt.Sprintf("Inverse(Forward(x)) failed (dst=len+%d): %v", extra, b.err))
			case !bytes.Equal(b.out, data):
				trViolate(res, site, "roundtrip-mismatch", fmt.Sprintf("Inverse(Forward(x)) != x (dst=len+%d, got %d bytes, want %d)", extra, len(b.out), len(data)))
			case b.inputMod || b.canary:
				trViolate(res, isite, "buffer-integrity", "inverse modified its input or wrote past dst")
			}
		}
		return "ok " + rltOut(o.out) + " | inv " + line + ctxs
	case len(w) == 3 && w[0] == "ai":
		dstLen, ok1 := atoi(w[1])
		data, ok2 := rltDec(w[2])
		if !ok1 || !ok2 {
			return "bad-op"
		}
		res.Nontrivial = len(data) > 0
		res.Sample = map[string]any{"op": "ai", "len": len(data), "dst": dstLen, "prefix": op[:min(len(op), 80)]}
		t, _ := transform.NewAliasCodec()
		o := trCall(t.Inverse, data, dstLen)
		line := aliasInvLine(res, o, dstLen, true)
		res.Tags = append(res.Tags, "ai:"+strings.Fields(line)[0])
		return line
	case len(w) == 4 && w[0] == "as":
		data, ok2 := rltDec(w[3])
		if !ok2 || (w[1] != "PACK" && w[1] != "DNA") {
			return "bad-op"
		}
		site := "transform.ByteTransformSequence.Forward"
		res.Nontrivial = len(data) > 0
		res.Sample = map[string]any{"op": "as", "len": len(data), "prefix": op[:min(len(op), 80)]}
		mk := func() *transform.ByteTransformSequence {
			ctx := map[string]any{}
			if w[2] != "-" {
				k, err := strconv.Atoi(w[2])
				if err != nil || k < 0 || k > 64 {
					return nil
				}
				ctx["dataType"] = rltDataType(k)
			}
			ty, err := transform.GetType(w[1])
			if err != nil {
				return nil
			}
			seq, err := transform.New(&ctx, ty)
			if err != nil {
				return nil
			}
			return seq
		}
		seq := mk()
		if seq == nil {
			return "bad-op"
		}
		o := trCall(seq.Forward, data, seq.MaxEncodedLen(len(data)))
		if o.panicMsg != "" {
			trViolate(res, site, "panic", o.panicMsg)
			return "panic"
		}
		if o.err != nil || o.inputMod || o.canary || o.out == nil {
			trViolate(res, site, "sequence-error", fmt.Sprintf("err=%v inputMod=%v canary=%v", o.err, o.inputMod, o.canary))
			return "seq-error"
		}
		flags := seq.SkipFlags()
		if len(data) > 0 && int(o.written) > seq.MaxEncodedLen(len(data)) {
			trViolate(res, site, "output>MaxEncodedLen", fmt.Sprintf("written=%d", o.written))
		}
		seq2 := mk()
		seq2.SetSkipFlags(flags)
		b := trCall(seq2.Inverse, o.out, len(data))
		inv := ""
		isite := "transform.ByteTransformSequence.Inverse"
		switch {
		case b.panicMsg != "":
			trViolate(res, isite, "panic", b.panicMsg)
			inv = "panic"
		case b.err != nil:
			trViolate(res, isite, "roundtrip-error", b.err.Error())
			inv = "err"
		case int(b.written) > len(data):
			trViolate(res, isite, "written>len(dst)", fmt.Sprintf("written=%d", b.written))
			inv = "overrun"
		default:
			if !bytes.Equal(b.out, data) {
				trViolate(res, site, "roundtrip-mismatch", fmt.Sprintf("got %d bytes, want %d", len(b.out), len(data)))
			}
			if b.inputMod || b.canary {
				trViolate(res, isite, "buffer-integrity", "inverse modified its input or wrote past dst")
			}
			inv = "ok " + rltOut(b.out)
		}
		res.Tags = append(res.Tags, fmt.Sprintf("as:%s:%02x", w[1], flags))
		return fmt.Sprintf("seq %02x %s | inv %s", flags, rltOut(o.out), inv)
	}
	return "bad-op"
}

// which path of Forward produced the block
func aliasPath(out []byte) string {
	if len(out) == 0 {
		return "empty"
	}
	switch n := int(out[0]); {
	case n == 255:
		return "one-symbol"
	case n >= 252:
		return "pack4"
	case n >= 240:
		return "pack16"
	default:
		if len(out) > 1 && out[1] != 0 {
			return "digram-tail"
		}
		return "digram"
	}
}

// ------------------------------------------------------------------------------------------
// generators

func aliasRealForward(data []byte) ([]byte, bool) {
	t, _ := transform.NewAliasCodec()
	if len(data) == 0 {
		return nil, false
	}
	dst := make([]byte, t.MaxEncodedLen(len(data)))
	_, n, err := t.Forward(append([]byte{}, data...), dst)
	if err != nil {
		return nil, false
	}
	return dst[:n], true
}

// k distinct symbols, each present at least once (n >= k)
func aliasAlphabet(r *rand.Rand, k int, mode int) []byte {
	var syms []byte
	switch mode % 4 {
	case 0: // random subset
		for _, p := range r.Perm(256)[:k] {
			syms = append(syms, byte(p))
		}
	case 1: // lowest values
		for i := 0; i < k; i++ {
			syms = append(syms, byte(i))
		}
	case 2: // highest values
		for i := 0; i < k; i++ {
			syms = append(syms, byte(255-i))
		}
	default: // printable first
		for i := 0; i < k; i++ {
			syms = append(syms, byte((65+i)%256))
		}
	}
	return syms
}

func aliasBlock(r *rand.Rand, syms []byte, n int, shape int) []byte {
	k := len(syms)
	b := make([]byte, n)
	switch shape % 4 {
	case 0: // uniform
		for i := range b {
			b[i] = syms[r.Intn(k)]
		}
	case 1: // skewed: a few dominant symbols
		d := 1 + r.Intn(min(k, 6))
		for i := range b {
			if r.Intn(8) != 0 {
				b[i] = syms[r.Intn(d)]
			} else {
				b[i] = syms[r.Intn(k)]
			}
		}
	case 2: // repeated chunks (many repeated pairs)
		var chunks [][]byte
		for c := 0; c < 2+r.Intn(12); c++ {
			ch := make([]byte, 2+r.Intn(9))
			for i := range ch {
				ch[i] = syms[r.Intn(k)]
			}
			chunks = append(chunks, ch)
		}
		for i := 0; i < n; {
			i += copy(b[i:], chunks[r.Intn(len(chunks))])
		}
	default: // runs
		for i := 0; i < n; {
			c := syms[r.Intn(k)]
			l := 1 + r.Intn(9)
			for ; l > 0 && i < n; l-- {
				b[i] = c
				i++
			}
		}
	}
	// every symbol at least once, at distinct positions
	if n >= k {
		for j, p := range r.Perm(n)[:k] {
			b[p] = syms[j]
		}
	}
	return b
}

func aliasDNA(r *rand.Rand, n int, noise int) []byte {
	b := gen.DNA(r, n)
	for i := range b {
		switch {
		case i%61 == 60:
			b[i] = '\n'
		case noise > 0 && r.Intn(noise) == 0:
			b[i] = "NnRYacgt>"[r.Intn(9)]
		}
	}
	return b
}

func aliasGen(r *rand.Rand, tier string, n int, emit func(op string, tags ...string)) {
	thorough := tier == "thorough"
	variants := [][2]string{{"0", "-"}, {"P", "-"}, {"D", "-"}, {"P", "0"}, {"D", "0"}, {"P", "6"}, {"D", "6"}, {"P", "1"}, {"D", "1"}, {"P", "9"}, {"P", "4"}}
	af := func(v [2]string, b []byte, dst int, fam string) {
		emit(fmt.Sprintf("af %s %s %d %s", v[0], v[1], dst, rltEnc(b)), "family:"+fam)
	}
	ai := func(b []byte, dst int, fam string) { emit(fmt.Sprintf("ai %d %s", dst, rltEnc(b)), "family:"+fam) }
	as := func(name, dt string, b []byte, fam string) {
		emit(fmt.Sprintf("as %s %s %s", name, dt, rltEnc(b)), "family:"+fam)
	}
	maxLen := func(n int) int { return n + 1024 }
	pv := func() [2]string { return variants[r.Intn(2)] } // plain: no hint, not DNA-only
	mult := 3
	if thorough {
		mult = 12
	}
	if n > 0 {
		mult = max(1, n/1500)
	}

	// forged inverse inputs derived from a real Forward output
	aiFrom := func(b []byte, fam string) {
		enc, ok := aliasRealForward(b)
		if !ok {
			return
		}
		m := append([]byte{}, enc...)
		switch r.Intn(10) {
		case 0: // smaller destination
			ai(enc, len(b)-1-r.Intn(min(len(b)-1, 9)), fam+"-dst-smaller")
			return
		case 1: // truncated anywhere
			ai(enc[:1+r.Intn(len(enc))], len(b), fam+"-truncated")
			return
		case 2: // truncated inside the header
			ai(enc[:min(len(enc), 1+r.Intn(24))], len(b), fam+"-truncated-header")
			return
		case 3: // symbol count / alias count changed
			m[0] = []byte{0, 15, 16, 17, 238, 239, 240, 241, 251, 252, 253, 254, 255, byte(r.Intn(256))}[r.Intn(14)]
			ai(m, len(b)+r.Intn(2)*5000, fam+"-count-mutated")
			return
		case 4: // flag / first symbol changed
			m[1] = []byte{0, 1, 2, 3, 255, byte(r.Intn(256))}[r.Intn(6)]
			ai(m, len(b)+r.Intn(3), fam+"-byte1-mutated")
			return
		case 5: // the adjust byte / a header byte
			p := min(len(m)-1, 1+r.Intn(20))
			m[p] = []byte{0, 1, 2, 3, 4, 255, byte(r.Intn(256))}[r.Intn(7)]
			ai(m, len(b)+r.Intn(2), fam+"-header-mutated")
			return
		case 6: // one more byte
			ai(append(m, byte(r.Intn(256))), len(b)+r.Intn(5), fam+"-extended")
			return
		case 7: // last byte dropped
			ai(enc[:len(enc)-1], len(b), fam+"-truncated1")
			return
		case 8: // exact destination, larger destination: genuine input
			ai(enc, len(b)+r.Intn(3), fam+"-genuine")
			return
		default:
			m[r.Intn(len(m))] = byte(r.Intn(256))
			ai(m, len(b)+r.Intn(2)*100, fam+"-mutated")
		}
	}

	// ---- 1. empty / tiny blocks, blocks just below and above the 1024 byte minimum, every variant
	for _, l := range []int{0, 1, 2, 3, 15, 16, 100, 1022, 1023, 1024, 1025} {
		for _, v := range variants {
			af(v, bytes.Repeat([]byte{0x41}, l), maxLen(l), "tiny-one-symbol")
			af(v, aliasBlock(r, []byte("ACGT"), l, 0), maxLen(l), "tiny-acgt")
		}
		af(variants[0], bytes.Repeat([]byte{7}, l), 0, "tiny-dst0")
		for _, name := range []string{"PACK", "DNA"} {
			as(name, "-", aliasBlock(r, []byte("ACGT"), l, 0), "seq-tiny")
		}
	}
	// ---- 2. every data type hint with both variants
	for dt := 0; dt <= 10; dt++ {
		for _, v := range []string{"P", "D"} {
			for _, b := range [][]byte{aliasDNA(r, 1100+r.Intn(200), 0), gen.Text(r, 1100+r.Intn(200)), aliasBlock(r, aliasAlphabet(r, 3, 0), 1200, 0)} {
				af([2]string{v, strconv.Itoa(dt)}, b, maxLen(len(b)), "hints")
			}
		}
	}
	// ---- 3. alphabets of exactly k symbols, every length residue
	ks := []int{1, 2, 3, 4, 5, 15, 16, 17, 18, 100, 200, 239, 240, 241, 255, 256}
	for rep := 0; rep < 2*mult; rep++ {
		for _, k := range ks {
			for res8 := 0; res8 < 8; res8++ {
				l := 1024 + 8*r.Intn(40) + res8
				if rep == 0 {
					l = 1024 + res8
				}
				if k == 256 && l < 1300 {
					l += 512
				}
				syms := aliasAlphabet(r, k, r.Intn(4))
				b := aliasBlock(r, syms, l, r.Intn(4))
				v := pv()
				if r.Intn(4) == 0 {
					v = variants[r.Intn(len(variants))]
				}
				fam := fmt.Sprintf("alphabet-%d", k)
				af(v, b, maxLen(l), fam)
				if res8%3 == 0 {
					aiFrom(b, "ai-"+fam)
				}
			}
		}
	}
	// ---- 4. DNA: with / without hint, PACK / DNA, noise levels (N, lower case, header lines)
	for i := 0; i < 60*mult; i++ {
		l := 1024 + r.Intn(3000)
		noise := []int{0, 0, 300, 40, 12, 6}[r.Intn(6)]
		b := aliasDNA(r, l, noise)
		if i%5 == 0 {
			b = gen.DNARepeats(r, l)
		}
		for _, v := range [][2]string{{"P", "-"}, {"D", "-"}, {"P", "6"}, {"D", "6"}} {
			if r.Intn(2) == 0 {
				af(v, b, maxLen(l), fmt.Sprintf("dna-noise%d", noise))
			}
		}
		if i%4 == 0 {
			aiFrom(b, "ai-dna")
			as([]string{"PACK", "DNA"}[r.Intn(2)], []string{"-", "6", "1"}[r.Intn(3)], b, "seq-dna")
		}
	}
	// ---- 5. text and other typed data (many repeated pairs)
	for i := 0; i < 80*mult; i++ {
		l := 1024 + r.Intn(1<<uint(8+r.Intn(6)))
		var b []byte
		fam := ""
		switch i % 8 {
		case 0, 1:
			b, fam = gen.Text(r, l), "text"
		case 2:
			b, fam = gen.Base64(r, l), "base64"
		case 3:
			b, fam = gen.Numeric(r, l), "numeric"
		case 4:
			b, fam = gen.UTF8(r, l, 40), "utf8"
		case 5:
			b, fam = gen.Runs(r, l), "runs"
		case 6:
			b, fam = gen.Skewed(r, l, 3, 30), "skewed"
		default:
			b, fam = gen.Random(r, l), "random"
		}
		l = len(b)
		af(variants[r.Intn(len(variants))], b, maxLen(l), fam)
		if i%3 == 0 {
			aiFrom(b, "ai-"+fam)
		}
		if i%5 == 0 {
			as([]string{"PACK", "DNA"}[r.Intn(2)], []string{"-", "1", "6", "7"}[r.Intn(4)], b, "seq-"+fam)
		}
	}
	// ---- 6. all 256 symbols / 241..255 symbols: no or too few free slots
	for i := 0; i < 10*mult; i++ {
		k := 241 + r.Intn(16)
		b := aliasBlock(r, aliasAlphabet(r, k, r.Intn(4)), 1024+r.Intn(2000), r.Intn(4))
		af(pv(), b, maxLen(len(b)), "few-free-slots")
	}
	// ---- 7. savings threshold: k symbols uniform (pairs nearly all distinct) plus an injected pair
	// repeated q times; count/20 is crossed by q.  Also blocks whose digram output is about as long as
	// the block (header 2 + 3*n0 against the pairs saved).
	for i := 0; i < 150*mult; i++ {
		k := []int{17, 20, 40, 100, 200, 239}[r.Intn(6)]
		l := 1024 + r.Intn(4000)
		syms := aliasAlphabet(r, k, r.Intn(4))
		var b []byte
		if i%2 == 0 {
			// every pair at most a few times: a de-Bruijn-like walk over the alphabet
			b = make([]byte, l)
			for j := range b {
				b[j] = syms[(j*j/k+j)%k]
			}
			for j, p := range r.Perm(l)[:k] {
				b[p] = syms[j]
			}
		} else {
			b = aliasBlock(r, syms, l, 0)
		}
		q := l/40 - 4 + r.Intn(9)
		if i%3 == 0 {
			q = r.Intn(l / 8)
		}
		x, y := syms[r.Intn(k)], syms[r.Intn(k)]
		for ; q > 0; q-- {
			p := r.Intn(l - 1)
			b[p], b[p+1] = x, y
		}
		af(pv(), b, maxLen(l), fmt.Sprintf("threshold-%d", k))
	}
	// ---- 8. destination sizes around MaxEncodedLen
	for i := 0; i < 40*mult; i++ {
		l := 1024 + r.Intn(600)
		b := aliasBlock(r, aliasAlphabet(r, []int{1, 2, 4, 9, 16, 30}[r.Intn(6)], 0), l, r.Intn(4))
		for _, d := range []int{0, 1, l, l + 1023, l + 1024, l + 1025, l + 5000} {
			if r.Intn(2) == 0 {
				af(pv(), b, d, "dst-sizes")
			}
		}
	}
	// ---- 9. larger blocks
	nbig := 18
	if thorough {
		nbig = 90
	}
	for i := 0; i < nbig; i++ {
		l := 20000 + r.Intn(200000)
		if thorough && i%10 == 0 {
			l = 1000000 + r.Intn(1000000)
		}
		var b []byte
		fam := ""
		switch i % 6 {
		case 0:
			b, fam = aliasDNA(r, l, 0), "big-dna"
		case 1:
			b, fam = gen.Text(r, l), "big-text"
		case 2:
			b, fam = aliasBlock(r, aliasAlphabet(r, 2+r.Intn(3), 0), l, r.Intn(4)), "big-pack4"
		case 3:
			b, fam = aliasBlock(r, aliasAlphabet(r, 5+r.Intn(12), 0), l, r.Intn(4)), "big-pack16"
		case 4:
			b, fam = aliasBlock(r, aliasAlphabet(r, 17+r.Intn(220), 0), l, r.Intn(4)), "big-digram"
		default:
			b, fam = bytes.Repeat([]byte{byte(r.Intn(256))}, l), "big-one-symbol"
		}
		af(variants[r.Intn(3)], b, maxLen(len(b)), fam)
		if i%3 == 0 {
			as([]string{"PACK", "DNA"}[r.Intn(2)], "-", b, "seq-"+fam)
		}
	}
	// ---- 10. forged inverse inputs
	// 10a. exhaustive short inputs over the edge byte values
	alpha := []byte{0, 1, 3, 4, 15, 16, 17, 239, 240, 251, 252, 254, 255}
	depth := 3
	if thorough {
		depth = 4
	}
	var rec func(b []byte)
	rec = func(b []byte) {
		if len(b) > 0 {
			for _, d := range []int{1, 2, 3, 4, 5, 8, 100} {
				ai(b, d, "ai-exhaustive")
			}
		}
		if len(b) == depth {
			return
		}
		for _, c := range alpha {
			rec(append(append([]byte{}, b...), c))
		}
	}
	rec(nil)
	ai([]byte{}, 10, "ai-empty")
	ai([]byte{255, 1, 2}, 0, "ai-dst0")
	// 10b. one symbol: size field against the destination, truncated size field
	for _, sz := range []int{0, 1, 5, 6, 7, 1000, 1 << 16, 1 << 24} {
		for _, d := range []int{1, 5, 6, 7, 1000, 1 << 16} {
			ai([]byte{255, 0x41, byte(sz), byte(sz >> 8), byte(sz >> 16), byte(sz >> 24)}, d, "ai-one-symbol-size")
		}
	}
	ai([]byte{255, 0x41, 0xFF, 0xFF, 0xFF, 0xFF}, 100, "ai-one-symbol-size")
	ai([]byte{255, 0x41, 0, 0, 0, 0x80}, 100, "ai-one-symbol-size")
	for l := 2; l <= 7; l++ {
		ai([]byte{255, 9, 3, 0, 0, 0, 7}[:l], 10, "ai-one-symbol-truncated")
	}
	// 10c. packed: n symbols, adjust byte, adjust bytes, payload; all small destinations
	for _, n0 := range []int{254, 253, 252, 251, 250, 241, 240} {
		nsym := 256 - n0
		for adj := 0; adj <= 4; adj++ {
			for pay := 0; pay <= 3; pay++ {
				for cut := 0; cut <= 2; cut++ {
					b := []byte{byte(n0)}
					for s := 0; s < nsym; s++ {
						b = append(b, byte(0x41+s))
					}
					b = append(b, byte(adj))
					for a := 0; a < adj && a < 3; a++ {
						b = append(b, byte(0x30+a))
					}
					for p := 0; p < pay; p++ {
						b = append(b, byte(r.Intn(256)))
					}
					if cut > 0 {
						b = b[:max(1, len(b)-cut*(1+r.Intn(3)))]
					}
					for _, d := range []int{1, 2, 3, 4, 5, 7, 8, 9, 13, 14, 100} {
						if r.Intn(3) == 0 || thorough {
							ai(b, d, fmt.Sprintf("ai-forged-pack-%d", nsym))
						}
					}
				}
			}
		}
	}
	// 10d. digram: header claiming more aliases than bytes, flag byte larger than the payload, aliases
	// mapped onto literal values, destination one short
	for i := 0; i < 400*mult; i++ {
		n0 := []int{16, 17, 20, 100, 239}[r.Intn(5)]
		hdr := 3 * n0
		switch r.Intn(5) {
		case 0:
			hdr = r.Intn(3 * n0) // truncated header
		case 1:
			hdr = 3*n0 - 1
		}
		b := []byte{byte(n0), []byte{0, 0, 1, 1, 2, 5, 200, 255}[r.Intn(8)]}
		for j := 0; j < hdr; j++ {
			b = append(b, byte(r.Intn(256)))
		}
		pay := r.Intn(12)
		if hdr < 3*n0 {
			pay = 0
		}
		for j := 0; j < pay; j++ {
			if r.Intn(2) == 0 && hdr >= 3 {
				b = append(b, b[2+3*r.Intn(hdr/3)+2]) // an alias byte of the header
			} else {
				b = append(b, byte(r.Intn(256)))
			}
		}
		ai(b, []int{1, 2, pay, pay + 1, 2 * pay, 2*pay + 1, 100}[r.Intn(7)], "ai-forged-digram")
	}
	// 10e. arbitrary bytes
	for i := 0; i < 300*mult; i++ {
		sz := 2 + r.Intn(80)
		b := gen.Random(r, sz)
		b[0] = []byte{15, 16, 239, 240, 250, 252, 253, 254, 255, byte(r.Intn(256))}[r.Intn(10)]
		ai(b, []int{1, 2, 3, 4, sz, 4 * sz, 1000}[r.Intn(7)], "ai-arbitrary")
	}
}
