import Kanzi.Model.Container
import Kanzi.Proofs.BitsLemmas
namespace Kanzi.Container
open Kanzi.Bits

/-! ### width of the length field -/

theorem lenWidth_ge (len : Nat) : 3 ≤ lenWidth len := by
  unfold lenWidth; split <;> omega

theorem lt_two_pow_lenWidth (len : Nat) : len < 2 ^ lenWidth len := by
  unfold lenWidth
  split
  · omega
  · have h1 : len / 8 < 2 ^ ((len / 8).log2 + 1) := Nat.lt_log2_self
    have h2 : 2 ^ ((len / 8).log2 + 4) = 8 * 2 ^ ((len / 8).log2 + 1) := by
      rw [show (len / 8).log2 + 4 = ((len / 8).log2 + 1) + 3 from rfl, Nat.pow_add]; omega
    omega

theorem lenWidth_le (len : Nat) (h : len < 2 ^ 34) : lenWidth len ≤ 34 := by
  unfold lenWidth
  split
  · omega
  · have hq : len / 8 ≠ 0 := by omega
    have : (len / 8).log2 < 31 := (Nat.log2_lt hq).2 (by omega)
    omega

/-! ### one frame-shaped header -/

theorem parseFrame_short (bs : Bits) (h : bs.length < 5) : parseFrame bs = .eos := by
  simp [parseFrame, h]

theorem parseFrame_short_len (a : Nat) (r1 : Bits) (ha : a < 32) (h : r1.length < a + 3) :
    parseFrame (natBits a 5 ++ r1) = .eos := by
  have h5 : (natBits a 5 ++ r1).take 5 = natBits a 5 := take_append_len _ _ _ (natBits_length _ _)
  have d5 : (natBits a 5 ++ r1).drop 5 = r1 := drop_append_len _ _ _ (natBits_length _ _)
  have hv : bitsNat (natBits a 5) = a := bitsNat_natBits_of_lt _ _ (by omega)
  unfold parseFrame
  simp only [h5, d5, hv]
  rw [if_neg (by simp), if_pos h]

theorem parseFrame_header (a len : Nat) (tail : Bits) (ha : a < 32) (hlen : len < 2 ^ (a + 3)) :
    parseFrame (natBits a 5 ++ natBits len (a + 3) ++ tail) =
      if len = 0 then .endMark tail
      else if len > 2 ^ 34 then .tooBig
      else if tail.length < len then .eos
      else .frame (tail.take len) (tail.drop len) := by
  rw [List.append_assoc]
  have h5 : (natBits a 5 ++ (natBits len (a + 3) ++ tail)).take 5 = natBits a 5 :=
    take_append_len _ _ _ (natBits_length _ _)
  have d5 : (natBits a 5 ++ (natBits len (a + 3) ++ tail)).drop 5 = natBits len (a + 3) ++ tail :=
    drop_append_len _ _ _ (natBits_length _ _)
  have hv : bitsNat (natBits a 5) = a := bitsNat_natBits_of_lt _ _ (by omega)
  have hl : (natBits len (a + 3) ++ tail).take (a + 3) = natBits len (a + 3) :=
    take_append_len _ _ _ (natBits_length _ _)
  have dl : (natBits len (a + 3) ++ tail).drop (a + 3) = tail :=
    drop_append_len _ _ _ (natBits_length _ _)
  have hvl : bitsNat (natBits len (a + 3)) = len := bitsNat_natBits_of_lt _ _ hlen
  unfold parseFrame
  simp only [h5, d5, hv, hl, dl, hvl]
  rw [if_neg (by simp), if_neg (by simp)]

/-- a cut anywhere inside the two header fields gives `eos` -/
theorem parseFrame_take_header (a len k : Nat) (tail : Bits) (ha : a < 32) (hk : k < 5 + (a + 3)) :
    parseFrame ((natBits a 5 ++ natBits len (a + 3) ++ tail).take k) = .eos := by
  by_cases h5 : k < 5
  · apply parseFrame_short
    simp only [List.length_take]; omega
  · rw [List.append_assoc, List.take_append, List.take_of_length_le (by simp; omega)]
    apply parseFrame_short_len _ _ ha
    simp only [List.length_take, natBits_length]; omega

/-! ### frames and the end marker -/

theorem frameBits_eq (p : Bits) :
    frameBits p =
      natBits (lenWidth p.length - 3) 5 ++ natBits p.length ((lenWidth p.length - 3) + 3) ++ p := by
  have := lenWidth_ge p.length
  rw [Nat.sub_add_cancel this]; rfl

theorem frameBits_length (p : Bits) : (frameBits p).length = 5 + lenWidth p.length + p.length := by
  simp [frameBits]; omega

theorem endMarker_eq : endMarker = natBits 0 5 ++ natBits 0 (0 + 3) ++ [] := by
  simp [endMarker]

theorem endMarker_length : endMarker.length = 8 := by
  simp [endMarker]

theorem parseFrame_frameBits (p rest : Bits) (h0 : 0 < p.length) (hmax : p.length < 2 ^ 34) :
    parseFrame (frameBits p ++ rest) = Parsed.frame p rest := by
  have hge := lenWidth_ge p.length
  have hle := lenWidth_le p.length hmax
  have hlt := lt_two_pow_lenWidth p.length
  rw [frameBits_eq, List.append_assoc _ p rest,
    parseFrame_header _ _ _ (by omega) (by rw [Nat.sub_add_cancel hge]; exact hlt)]
  rw [if_neg (by omega), if_neg (by omega), if_neg (by simp)]
  simp

theorem parseFrame_endMarker (rest : Bits) : parseFrame (endMarker ++ rest) = Parsed.endMark rest := by
  rw [endMarker_eq, List.append_nil, parseFrame_header 0 0 rest (by omega) (by omega)]
  simp

/-- a strict prefix of a frame gives `eos` -/
theorem parseFrame_take_frameBits (p : Bits) (k : Nat) (h0 : 0 < p.length) (hmax : p.length < 2 ^ 34)
    (hk : k < (frameBits p).length) : parseFrame ((frameBits p).take k) = .eos := by
  have hge := lenWidth_ge p.length
  have hle := lenWidth_le p.length hmax
  have hlt := lt_two_pow_lenWidth p.length
  rw [frameBits_length] at hk
  rw [frameBits_eq]
  by_cases hh : k < 5 + (lenWidth p.length - 3 + 3)
  · exact parseFrame_take_header _ _ _ _ (by omega) hh
  · rw [List.take_append, List.take_of_length_le (by simp; omega),
      parseFrame_header _ _ _ (by omega) (by rw [Nat.sub_add_cancel hge]; exact hlt)]
    rw [if_neg (by omega), if_neg (by omega), if_pos]
    simp only [List.length_take, List.length_append, natBits_length]; omega

/-- a strict prefix of the end marker gives `eos` -/
theorem parseFrame_take_endMarker (k : Nat) (hk : k < 8) : parseFrame (endMarker.take k) = .eos := by
  rw [endMarker_eq]
  exact parseFrame_take_header 0 0 k [] (by omega) (by omega)

/-! ### whole streams -/

theorem parseFrames_stream (payloads : List Bits) (pad : Bits)
    (h : ∀ p ∈ payloads, 0 < p.length ∧ p.length < 2 ^ 34) :
    parseFrames (payloads.length + 1) (payloads.flatMap frameBits ++ endMarker ++ pad) =
      payloads.map Item.payload ++ [Item.endMark] := by
  induction payloads with
  | nil => simp [parseFrames, parseFrame_endMarker]
  | cons p ps ih =>
    have hp := h p (by simp)
    have ih' := ih (fun q hq => h q (by simp [hq]))
    simp only [List.flatMap_cons, List.length_cons, List.map_cons, List.cons_append,
      List.append_assoc] at ih' ⊢
    rw [parseFrames, parseFrame_frameBits p _ hp.1 hp.2]
    simp only [ih']

theorem parseFrames_prefix (payloads : List Bits) (k : Nat)
    (h : ∀ p ∈ payloads, 0 < p.length ∧ p.length < 2 ^ 34)
    (hk : k < (payloads.flatMap frameBits ++ endMarker).length) :
    ∃ m, m ≤ payloads.length ∧
      parseFrames (payloads.length + 1) ((payloads.flatMap frameBits ++ endMarker).take k) =
        (payloads.take m).map Item.payload ++ [Item.truncated] := by
  induction payloads generalizing k with
  | nil =>
    refine ⟨0, Nat.le_refl _, ?_⟩
    simp only [List.flatMap_nil, List.nil_append, endMarker_length] at hk ⊢
    simp [parseFrames, parseFrame_take_endMarker k hk]
  | cons p ps ih =>
    have hp := h p (by simp)
    simp only [List.flatMap_cons, List.length_cons, List.append_assoc, List.length_append] at hk ⊢
    by_cases hc : k < (frameBits p).length
    · refine ⟨0, Nat.zero_le _, ?_⟩
      rw [List.take_append, show k - (frameBits p).length = 0 by omega, List.take_zero,
        List.append_nil, parseFrames, parseFrame_take_frameBits p k hp.1 hp.2 hc]
      simp
    · obtain ⟨m, hm, hpm⟩ := ih (k - (frameBits p).length) (fun q hq => h q (by simp [hq]))
        (by simp only [List.length_append]; omega)
      refine ⟨m + 1, by omega, ?_⟩
      rw [List.take_append, List.take_of_length_le (by omega), parseFrames,
        parseFrame_frameBits p _ hp.1 hp.2]
      simp only [hpm, List.take_succ_cons, List.map_cons, List.cons_append]

end Kanzi.Container
