/-
Lemmas about the abstract bit strings of `Kanzi.Spec.Bits` (no definitions are changed).
`mk n f` = the bit string `[f 0, …, f (n-1)]`; every bit-level fact used by the bitstream proofs is
reduced to extensionality over `mk`.
-/
import Kanzi.Spec.Bits

namespace Kanzi.Bits

/-- `[f 0, …, f (n-1)]` -/
def mk (n : Nat) (f : Nat → Bool) : Bits := (List.range n).map f

@[simp] theorem mk_length (n f) : (mk n f).length = n := by simp [mk]

theorem mk_getElem? (n f i) : (mk n f)[i]? = if i < n then some (f i) else none := by
  unfold mk
  by_cases h : i < n
  · simp [h]
  · simp [h]

theorem mk_getD (n f i) : (mk n f).getD i false = (decide (i < n) && f i) := by
  rw [List.getD_eq_getElem?_getD, mk_getElem?]
  by_cases h : i < n <;> simp [h]

theorem mk_congr {n : Nat} {f g : Nat → Bool} (h : ∀ i, i < n → f i = g i) : mk n f = mk n g := by
  unfold mk
  apply List.map_congr_left
  intro a ha
  exact h a (List.mem_range.mp ha)

theorem mk_zero (f) : mk 0 f = [] := by simp [mk]

theorem mk_append (a b : Nat) (f g : Nat → Bool) :
    mk a f ++ mk b g = mk (a + b) (fun i => if i < a then f i else g (i - a)) := by
  apply List.ext_getElem?
  intro i
  rw [List.getElem?_append]
  simp only [mk_length, mk_getElem?]
  by_cases h1 : i < a
  · have : i < a + b := by omega
    simp [h1, this]
  · by_cases h2 : i - a < b
    · have : i < a + b := by omega
      simp [h1, h2, this]
    · have : ¬ i < a + b := by omega
      simp [h1, h2, this]

theorem mk_split (a b : Nat) (f : Nat → Bool) :
    mk (a + b) f = mk a f ++ mk b (fun i => f (a + i)) := by
  rw [mk_append]
  apply mk_congr
  intro i hi
  by_cases h : i < a
  · simp [h]
  · simp [h]; congr 1; omega

theorem mk_take (k n : Nat) (f) (h : k ≤ n) : (mk n f).take k = mk k f := by
  unfold mk
  rw [← List.map_take, List.take_range, Nat.min_eq_left h]

theorem mk_drop (k n : Nat) (f) : (mk n f).drop k = mk (n - k) (fun i => f (k + i)) := by
  apply List.ext_getElem?
  intro i
  rw [List.getElem?_drop]
  simp only [mk_getElem?]
  by_cases h : i < n - k
  · have : k + i < n := by omega
    simp [h, this]
  · have : ¬ k + i < n := by omega
    simp [h, this]

theorem natBits_eq_mk (v n : Nat) : natBits v n = mk n (fun i => v.testBit (n - 1 - i)) := rfl

@[simp] theorem natBits_length (v n : Nat) : (natBits v n).length = n := by simp [natBits]

theorem natBits_zero (v : Nat) : natBits v 0 = [] := by simp [natBits]

theorem natBits_succ (v n : Nat) : natBits v (n + 1) = v.testBit n :: natBits v n := by
  rw [natBits_eq_mk, natBits_eq_mk, Nat.add_comm n 1, mk_split 1 n]
  simp only [mk, List.range_one, List.map_cons, List.map_nil, List.cons_append, List.nil_append]
  congr 1
  · congr 1; omega
  · apply List.map_congr_left
    intro a ha
    have := List.mem_range.mp ha
    congr 1
    omega

/-- only the low `n` bits of the value matter -/
theorem natBits_mod (v n : Nat) : natBits (v % 2 ^ n) n = natBits v n := by
  rw [natBits_eq_mk, natBits_eq_mk]
  apply mk_congr
  intro i hi
  rw [Nat.testBit_mod_two_pow]
  have : n - 1 - i < n := by omega
  simp [this]

theorem bitsNat_foldl (l : Bits) (a : Nat) :
    l.foldl (fun a b => 2 * a + b.toNat) a = a * 2 ^ l.length + bitsNat l := by
  induction l generalizing a with
  | nil => simp [bitsNat]
  | cons b tl ih =>
    simp only [List.foldl_cons, List.length_cons, bitsNat]
    rw [ih, ih (2 * 0 + b.toNat)]
    rw [Nat.pow_succ]
    simp only [Nat.mul_zero, Nat.zero_add]
    rw [Nat.add_mul, Nat.add_assoc]
    congr 1
    rw [Nat.mul_comm 2 a, Nat.mul_assoc, Nat.mul_comm 2]

theorem bitsNat_cons (b : Bool) (l : Bits) : bitsNat (b :: l) = b.toNat * 2 ^ l.length + bitsNat l := by
  simp only [bitsNat, List.foldl_cons]
  rw [bitsNat_foldl]
  simp [bitsNat]

theorem bitsNat_natBits (v n : Nat) : bitsNat (natBits v n) = v % 2 ^ n := by
  induction n with
  | zero => simp [natBits_zero, bitsNat, Nat.mod_one]
  | succ n ih =>
    rw [natBits_succ, bitsNat_cons, ih, natBits_length]
    have h := Nat.testBit_mod_two_pow v (n + 1) n
    -- v % 2^(n+1) = (v / 2^n % 2) * 2^n + v % 2^n
    have h2 : v % 2 ^ (n + 1) = (v / 2 ^ n % 2) * 2 ^ n + v % 2 ^ n := by
      rw [Nat.pow_succ, Nat.mod_mul, Nat.add_comm, Nat.mul_comm]
    rw [h2]
    congr 1
    congr 1
    rw [Nat.testBit_eq_decide_div_mod_eq]
    rcases Nat.mod_two_eq_zero_or_one (v / 2 ^ n) with h0 | h1
    · simp [h0]
    · simp [h1]

/-! ### bytes -/

theorem ofBytes_nil : ofBytes [] = [] := rfl

theorem ofBytes_cons (b : Nat) (l : List Nat) : ofBytes (b :: l) = natBits b 8 ++ ofBytes l := by
  simp [ofBytes]

theorem ofBytes_append (l₁ l₂ : List Nat) : ofBytes (l₁ ++ l₂) = ofBytes l₁ ++ ofBytes l₂ := by
  simp [ofBytes]

@[simp] theorem ofBytes_length (l : List Nat) : (ofBytes l).length = 8 * l.length := by
  induction l with
  | nil => rfl
  | cons b tl ih => rw [ofBytes_cons, List.length_append, natBits_length, ih, List.length_cons]; omega

theorem ofBytes_take (l : List Nat) (k : Nat) : (ofBytes l).take (8 * k) = ofBytes (l.take k) := by
  induction l generalizing k with
  | nil => simp [ofBytes_nil]
  | cons b tl ih =>
    cases k with
    | zero => simp [ofBytes_nil]
    | succ k =>
      rw [ofBytes_cons, List.take_succ_cons, ofBytes_cons, ← ih k]
      have : 8 * (k + 1) = (natBits b 8).length + 8 * k := by simp; omega
      rw [this, List.take_length_add_append]

theorem ofBytes_drop (l : List Nat) (k : Nat) : (ofBytes l).drop (8 * k) = ofBytes (l.drop k) := by
  induction l generalizing k with
  | nil => simp [ofBytes_nil]
  | cons b tl ih =>
    cases k with
    | zero => simp
    | succ k =>
      rw [ofBytes_cons, List.drop_succ_cons, ← ih k]
      have : 8 * (k + 1) = (natBits b 8).length + 8 * k := by simp; omega
      rw [this, List.drop_length_add_append]

/-- bit `8i+j` of a byte string is bit `7-j` of byte `i` -/
theorem ofBytes_getD (l : List Nat) (i j : Nat) (hj : j < 8) :
    (ofBytes l).getD (8 * i + j) false = (decide (i < l.length) && (l.getD i 0).testBit (7 - j)) := by
  induction l generalizing i with
  | nil => simp [ofBytes_nil]
  | cons b tl ih =>
    rw [ofBytes_cons, List.getD_eq_getElem?_getD, List.getElem?_append]
    cases i with
    | zero =>
      have : 8 * 0 + j < (natBits b 8).length := by simp; omega
      rw [if_pos this, ← List.getD_eq_getElem?_getD, natBits_eq_mk, mk_getD]
      simp [hj]
    | succ i =>
      have : ¬ 8 * (i + 1) + j < (natBits b 8).length := by simp; omega
      rw [if_neg this, ← List.getD_eq_getElem?_getD]
      have e : 8 * (i + 1) + j - (natBits b 8).length = 8 * i + j := by simp; omega
      rw [e, ih]
      simp

/-! ### packing -/

theorem packByte_eq (bs : Bits) (i : Nat) :
    packByte bs i = bitsNat (mk 8 (fun j => bs.getD (8 * i + j) false)) := by
  unfold packByte
  congr 1
  apply List.ext_getElem?
  intro j
  rw [mk_getElem?, List.getElem?_append]
  simp only [List.length_take, List.length_drop, List.getElem?_take, List.getElem?_drop,
    List.getElem?_replicate, List.getD_eq_getElem?_getD]
  by_cases h1 : j < 8
  · by_cases h2 : 8 * i + j < bs.length
    · have : j < min 8 (bs.length - 8 * i) := by omega
      simp [h1, this, List.getElem?_eq_getElem h2]
    · have : ¬ j < min 8 (bs.length - 8 * i) := by omega
      have h3 : j - min 8 (bs.length - 8 * i) < 8 - min 8 (bs.length - 8 * i) := by omega
      have h4 : bs[8 * i + j]? = none := by simp; omega
      simp [h1, this, h3, h4]
  · have : ¬ j < min 8 (bs.length - 8 * i) := by omega
    have h3 : ¬ j - min 8 (bs.length - 8 * i) < 8 - min 8 (bs.length - 8 * i) := by omega
    simp [h1, this, h3]

/-- the packed image of a bit string that, zero padded by less than a byte, is a byte string -/
theorem packBytes_of_padded (bits : Bits) (z : Nat) (l : List Nat) (hz : z < 8)
    (hl : ∀ b, b ∈ l → b < 256) (h : bits ++ List.replicate z false = ofBytes l) :
    packBytes bits = l := by
  have hlen : bits.length + z = 8 * l.length := by
    have := congrArg List.length h
    simpa using this
  unfold packBytes
  apply List.ext_getElem?
  intro i
  have hcnt : (bits.length + 7) / 8 = l.length := by omega
  rw [hcnt, List.getElem?_map]
  by_cases hi : i < l.length
  · rw [List.getElem?_range hi, List.getElem?_eq_getElem hi]
    simp only [Option.map_some]
    congr 1
    rw [packByte_eq]
    have e : mk 8 (fun j => bits.getD (8 * i + j) false) = natBits l[i] 8 := by
      rw [natBits_eq_mk]
      apply mk_congr
      intro j hj
      have e1 : bits.getD (8 * i + j) false = (bits ++ List.replicate z false).getD (8 * i + j) false := by
        rw [List.getD_eq_getElem?_getD, List.getD_eq_getElem?_getD, List.getElem?_append]
        by_cases hb : 8 * i + j < bits.length
        · simp [hb]
        · have : bits[8 * i + j]? = none := by simp; omega
          simp only [hb, if_false, this, List.getElem?_replicate]
          split <;> rfl
      rw [e1, h, ofBytes_getD l i j hj]
      simp [hi]
    rw [e, bitsNat_natBits]
    exact Nat.mod_eq_of_lt (hl _ (List.getElem_mem hi))
  · have : (List.range l.length)[i]? = none := by simp; omega
    rw [this]
    have : l[i]? = none := by simp; omega
    rw [this]; rfl

end Kanzi.Bits
