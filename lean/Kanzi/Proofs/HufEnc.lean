/-
Proofs for the Huffman codec, part 4a: the encoder side of a chunk.  The 64-bit `state` register
with its flush every four symbols writes exactly the concatenation of the codes.
-/
import Kanzi.Model.Huffman
import Kanzi.Proofs.EntSmall
import Kanzi.Proofs.BitsIbs
import Kanzi.Proofs.HufCanon

namespace Kanzi.Huffman
open Kanzi.Bits Kanzi.EntSmall

/-- the packed table `(length << 12) | code` agrees with `sizes` / `codes` on the symbols `l` -/
structure Packed (arr : Array Nat) (sizes codes l : List Nat) : Prop where
  len : ∀ b ∈ l, arr.getD b 0 >>> 12 = sizes.getD b 0
  code : ∀ b ∈ l, arr.getD b 0 &&& 0x0FFF = codes.getD b 0
  le12 : ∀ b ∈ l, sizes.getD b 0 ≤ 12
  lt : ∀ b ∈ l, codes.getD b 0 < 2 ^ sizes.getD b 0

/-- the pending bits of the register: the `bits` low bits of `state` are `P` -/
def Pend (st : Nat × Nat) (P : Bits) : Prop := natBits st.1 st.2 = P

theorem Pend.length {st : Nat × Nat} {P : Bits} (h : Pend st P) : P.length = st.2 := by
  rw [← h, natBits_length]

theorem encSym_pend (arr : Array Nat) (sizes codes l : List Nat) (hp : Packed arr sizes codes l)
    (st : Nat × Nat) (P : Bits) (b : Nat) (hb : b ∈ l) (h : Pend st P) (h64 : st.2 + sizes.getD b 0 ≤ 64) :
    Pend (encSym arr st b) (P ++ codeBits sizes codes b) := by
  unfold Pend encSym codeBits at *
  simp only
  rw [hp.len b hb, hp.code b hb]
  have hc := hp.lt b hb
  generalize sizes.getD b 0 = n at *
  generalize codes.getD b 0 = c at *
  obtain ⟨a, k⟩ := st
  simp only at h h64 ⊢
  -- the shifted register is a multiple of 2^n below 2^64
  have h64p : 2 ^ 64 = 2 ^ (64 - n) * 2 ^ n := by rw [← Nat.pow_add]; congr 1; omega
  have hsh : (a <<< n) % 2 ^ 64 = (a % 2 ^ (64 - n)) * 2 ^ n := by
    rw [Nat.shiftLeft_eq, h64p, Nat.mul_mod_mul_right]
  have hor : (a <<< n) % 2 ^ 64 ||| c = (a <<< n) % 2 ^ 64 + c := by
    rw [hsh, Nat.or_comm, ← Nat.shiftLeft_eq, or_shiftLeft c _ n hc, Nat.shiftLeft_eq, Nat.add_comm]
  rw [hor]
  have hdvd : 2 ^ (k + n) ∣ 2 ^ 64 := Nat.pow_dvd_pow 2 h64
  have hmod : ((a <<< n) % 2 ^ 64 + c) % 2 ^ (k + n) = (a * 2 ^ n + c) % 2 ^ (k + n) := by
    rw [Nat.add_mod, Nat.mod_mod_of_dvd _ hdvd, ← Nat.add_mod, Nat.shiftLeft_eq]
  rw [← Kanzi.BitsIbs.natBits_mod, hmod, Kanzi.BitsIbs.natBits_mod,
    Kanzi.BitsIbs.natBits_append a c k n hc, h]

theorem flush_pend (st : Nat × Nat) (P : Bits) (h : Pend st P) (h64 : st.2 ≤ 64) :
    flushBits st = P.take (8 * (st.2 >>> 3)) ∧ Pend (st.1, st.2 &&& 7) (P.drop (8 * (st.2 >>> 3))) := by
  unfold Pend at *
  obtain ⟨a, k⟩ := st
  simp only at h h64 ⊢
  have hk8 : 8 * (k >>> 3) ≤ k := by rw [Nat.shiftRight_eq_div_pow]; omega
  have hand : k &&& 7 = k - 8 * (k >>> 3) := by
    have := Nat.and_two_pow_sub_one_eq_mod k 3
    simp only [Nat.reducePow, Nat.add_one_sub_one] at this
    rw [this, Nat.shiftRight_eq_div_pow]; omega
  constructor
  · unfold flushBits putWord
    simp only
    rw [if_pos h64, Kanzi.BitsIbs.natBits_mod, Nat.shiftLeft_eq]
    have := Kanzi.BitsIbs.natBits_append a 0 k (64 - k) (Nat.pow_pos (by decide))
    rw [Nat.add_zero, show k + (64 - k) = 64 by omega] at this
    rw [this, List.take_append_of_le_length (by rw [natBits_length]; exact hk8), h]
  · rw [hand, ← Kanzi.BitsIbs.natBits_drop a k _ hk8, h]

theorem encFragTail_eq (arr : Array Nat) (sizes codes l : List Nat) (hp : Packed arr sizes codes l) :
    ∀ (frag : List Nat) (st : Nat × Nat) (P : Bits), (∀ b ∈ frag, b ∈ l) → Pend st P →
    st.2 + 12 * frag.length ≤ 64 →
    encFragTail arr st frag = P ++ frag.flatMap (codeBits sizes codes) := by
  intro frag
  induction frag with
  | nil => intro st P _ h _; simp only [encFragTail, List.flatMap_nil, List.append_nil]; exact h
  | cons b bs ih =>
    intro st P hb h h64
    have hbl := hb b List.mem_cons_self
    have h12 := hp.le12 b hbl
    simp only [encFragTail, List.flatMap_cons]
    rw [ih (encSym arr st b) (P ++ codeBits sizes codes b) (fun x hx => hb x (List.mem_cons_of_mem _ hx))
      (encSym_pend arr sizes codes l hp st P b hbl h (by simp only [List.length_cons] at h64; omega))
      (by simp only [encSym, List.length_cons] at h64 ⊢; rw [hp.len b hbl]; omega)]
    rw [List.append_assoc]

theorem encSym_bits (arr : Array Nat) (sizes codes l : List Nat) (hp : Packed arr sizes codes l)
    (st : Nat × Nat) (b : Nat) (hb : b ∈ l) : (encSym arr st b).2 = st.2 + sizes.getD b 0 := by
  simp only [encSym]; rw [hp.len b hb]

theorem encFragLoop_eq (arr : Array Nat) (sizes codes l : List Nat) (hp : Packed arr sizes codes l) :
    ∀ (g : Nat) (frag : List Nat) (st : Nat × Nat) (P : Bits), (∀ b ∈ frag, b ∈ l) → Pend st P →
    st.2 ≤ 7 → frag.length < 4 * (g + 1) →
    encFragLoop arr g st frag = P ++ frag.flatMap (codeBits sizes codes) := by
  intro g
  induction g with
  | zero =>
    intro frag st P hb h h7 hlen
    have : encFragLoop arr 0 st frag = encFragTail arr st frag := by
      cases frag <;> rfl
    rw [this]
    exact encFragTail_eq arr sizes codes l hp frag st P hb h (by omega)
  | succ g ih =>
    intro frag st P hb h h7 hlen
    match frag, hb, hlen with
    | [], hb, _ => exact encFragTail_eq arr sizes codes l hp [] st P hb h (by simp; omega)
    | [b0], hb, _ => exact encFragTail_eq arr sizes codes l hp [b0] st P hb h (by simp; omega)
    | [b0, b1], hb, _ => exact encFragTail_eq arr sizes codes l hp [b0, b1] st P hb h (by simp; omega)
    | [b0, b1, b2], hb, _ => exact encFragTail_eq arr sizes codes l hp [b0, b1, b2] st P hb h (by simp; omega)
    | b0 :: b1 :: b2 :: b3 :: rest, hb, hlen =>
      have m0 : b0 ∈ l := hb b0 (by simp)
      have m1 : b1 ∈ l := hb b1 (by simp)
      have m2 : b2 ∈ l := hb b2 (by simp)
      have m3 : b3 ∈ l := hb b3 (by simp)
      have l0 := hp.le12 b0 m0
      have l1 := hp.le12 b1 m1
      have l2 := hp.le12 b2 m2
      have l3 := hp.le12 b3 m3
      have e0 := encSym_bits arr sizes codes l hp st b0 m0
      have p0 := encSym_pend arr sizes codes l hp st P b0 m0 h (by omega)
      have e1 := encSym_bits arr sizes codes l hp (encSym arr st b0) b1 m1
      have p1 := encSym_pend arr sizes codes l hp _ _ b1 m1 p0 (by omega)
      have e2 := encSym_bits arr sizes codes l hp (encSym arr (encSym arr st b0) b1) b2 m2
      have p2 := encSym_pend arr sizes codes l hp _ _ b2 m2 p1 (by omega)
      have e3 := encSym_bits arr sizes codes l hp (encSym arr (encSym arr (encSym arr st b0) b1) b2) b3 m3
      have p3 := encSym_pend arr sizes codes l hp _ _ b3 m3 p2 (by omega)
      simp only [encFragLoop]
      generalize encSym arr (encSym arr (encSym arr (encSym arr st b0) b1) b2) b3 = st4 at e3 p3 ⊢
      obtain ⟨hf1, hf2⟩ := flush_pend st4 _ p3 (by omega)
      have h7' : (st4.1, st4.2 &&& 7).2 ≤ 7 := by
        have := Nat.and_two_pow_sub_one_eq_mod st4.2 3
        simp only [Nat.reducePow, Nat.add_one_sub_one] at this
        simp only; rw [this]; omega
      rw [hf1, ih rest (st4.1, st4.2 &&& 7) _ (fun x hx => hb x (by simp [hx])) hf2 h7'
        (by simp only [List.length_cons] at hlen; omega)]
      rw [← List.append_assoc, List.take_append_drop]
      simp only [List.flatMap_cons, List.append_assoc]

/-- **encoder fragment.**  With a packed table that is consistent with `sizes` / `codes` (codes
    shorter than their lengths, lengths at most 12) the bits of a fragment are the concatenation
    of the codes of its symbols. -/
theorem encFrag_eq (arr : Array Nat) (sizes codes l : List Nat) (hp : Packed arr sizes codes l)
    (frag : List Nat) (hb : ∀ b ∈ frag, b ∈ l) :
    encFrag arr frag = frag.flatMap (codeBits sizes codes) := by
  unfold encFrag
  rw [encFragLoop_eq arr sizes codes l hp (frag.length / 4) frag (0, 0) [] hb rfl (by simp) (by omega)]
  rfl

end Kanzi.Huffman
