/-
Lemmas about `Kanzi.Spec.Bits` used by the input bitstream proofs (no definitions are changed).
A bit string is determined by its length and its big-endian value, so the bit-level facts are
reduced to arithmetic on `/ 2^k` and `% 2^k`.
-/
import Kanzi.Spec.Bits

namespace Kanzi.BitsIbs
open Kanzi.Bits

theorem natBits_length (v n : Nat) : (natBits v n).length = n := by simp [natBits]

theorem natBits_succ (v n : Nat) : natBits v (n + 1) = v.testBit n :: natBits v n := by
  unfold natBits
  rw [List.range_succ_eq_map, List.map_cons, List.map_map]
  congr 1
  apply List.map_congr_left
  intro i _
  simp only [Function.comp, Nat.succ_eq_add_one]
  congr 1; omega

theorem bitsNat_foldl (bs : Bits) (a : Nat) :
    bs.foldl (fun a b => 2 * a + b.toNat) a = a * 2 ^ bs.length + bitsNat bs := by
  induction bs generalizing a with
  | nil => simp [bitsNat]
  | cons b bs ih =>
    unfold bitsNat
    simp only [List.foldl_cons, List.length_cons]
    rw [ih, ih (2 * 0 + b.toNat)]
    rw [Nat.pow_succ]
    simp only [Nat.mul_zero, Nat.zero_add]
    rw [Nat.add_mul, ← Nat.add_assoc]
    congr 2
    rw [Nat.mul_comm 2 a, Nat.mul_assoc, Nat.mul_comm 2]

theorem bitsNat_cons (b : Bool) (bs : Bits) :
    bitsNat (b :: bs) = b.toNat * 2 ^ bs.length + bitsNat bs := by
  unfold bitsNat
  simp only [List.foldl_cons]
  rw [bitsNat_foldl]
  simp [bitsNat]

theorem bitsNat_nil : bitsNat [] = 0 := rfl

theorem bitsNat_append (x y : Bits) :
    bitsNat (x ++ y) = bitsNat x * 2 ^ y.length + bitsNat y := by
  unfold bitsNat
  rw [List.foldl_append, bitsNat_foldl]
  rfl

theorem bitsNat_lt (bs : Bits) : bitsNat bs < 2 ^ bs.length := by
  induction bs with
  | nil => simp [bitsNat]
  | cons b bs ih =>
    rw [bitsNat_cons, List.length_cons, Nat.pow_succ]
    have : b.toNat ≤ 1 := by cases b <;> simp
    have h2 : b.toNat * 2 ^ bs.length ≤ 1 * 2 ^ bs.length := Nat.mul_le_mul_right _ this
    omega

theorem mod_two_pow_succ' (x i : Nat) :
    x % 2 ^ (i + 1) = (x.testBit i).toNat * 2 ^ i + x % 2 ^ i := by
  rw [Nat.pow_succ, Nat.mod_mul, Nat.toNat_testBit, Nat.mul_comm, Nat.add_comm]

theorem bitsNat_natBits (v n : Nat) : bitsNat (natBits v n) = v % 2 ^ n := by
  induction n with
  | zero => simp [natBits, bitsNat, Nat.mod_one]
  | succ n ih =>
    rw [natBits_succ, bitsNat_cons, ih, natBits_length, mod_two_pow_succ']

/-- a bit string is determined by its length and value -/
theorem eq_of_len_val : ∀ (x y : Bits), x.length = y.length → bitsNat x = bitsNat y → x = y := by
  intro x
  induction x with
  | nil => intro y hl _; cases y with | nil => rfl | cons _ _ => simp at hl
  | cons a x ih =>
    intro y hl hv
    cases y with
    | nil => simp at hl
    | cons b y =>
      simp only [List.length_cons, Nat.add_right_cancel_iff] at hl
      rw [bitsNat_cons, bitsNat_cons, hl] at hv
      have hx := bitsNat_lt x
      have hy := bitsNat_lt y
      rw [hl] at hx
      have hab : a = b := by
        cases a <;> cases b <;> simp at hv ⊢ <;> omega
      subst hab
      have : bitsNat x = bitsNat y := by omega
      rw [ih y hl this]

theorem natBits_bitsNat (bs : Bits) : natBits (bitsNat bs) bs.length = bs := by
  apply eq_of_len_val
  · rw [natBits_length]
  · rw [bitsNat_natBits, Nat.mod_eq_of_lt (bitsNat_lt bs)]

theorem natBits_mod (v n : Nat) : natBits (v % 2 ^ n) n = natBits v n := by
  apply eq_of_len_val
  · rw [natBits_length, natBits_length]
  · rw [bitsNat_natBits, bitsNat_natBits, Nat.mod_mod]

/-- `hi` over `lo`: concatenation of the two fields -/
theorem natBits_append (hi lo k m : Nat) (h : lo < 2 ^ m) :
    natBits (hi * 2 ^ m + lo) (k + m) = natBits hi k ++ natBits lo m := by
  apply eq_of_len_val
  · simp [natBits_length]
  · rw [bitsNat_append, bitsNat_natBits, bitsNat_natBits, bitsNat_natBits, natBits_length,
      Nat.add_comm k m, Nat.pow_add, Nat.mod_mul]
    have h1 : (hi * 2 ^ m + lo) % 2 ^ m = lo := by
      rw [Nat.add_comm, Nat.add_mul_mod_self_right, Nat.mod_eq_of_lt h]
    have h2 : (hi * 2 ^ m + lo) / 2 ^ m = hi := by
      rw [Nat.add_comm, Nat.add_mul_div_right _ _ (Nat.two_pow_pos m), Nat.div_eq_of_lt h,
        Nat.zero_add]
    rw [h1, h2, Nat.mod_eq_of_lt h, Nat.mul_comm, Nat.add_comm]

/-- the top `n` bits followed by the low `a - n` bits -/
theorem natBits_split (v a n : Nat) (h : n ≤ a) :
    natBits v a = natBits (v / 2 ^ (a - n)) n ++ natBits v (a - n) := by
  apply eq_of_len_val
  · simp only [natBits_length, List.length_append]; omega
  · rw [bitsNat_append, bitsNat_natBits, bitsNat_natBits, bitsNat_natBits, natBits_length]
    have : 2 ^ a = 2 ^ (a - n) * 2 ^ n := by rw [← Nat.pow_add]; congr 1; omega
    rw [this, Nat.mod_mul, Nat.mul_comm, Nat.add_comm]

theorem natBits_take (v a n : Nat) (h : n ≤ a) :
    (natBits v a).take n = natBits (v / 2 ^ (a - n)) n := by
  rw [natBits_split v a n h, List.take_left' (natBits_length _ _)]

theorem natBits_drop (v a n : Nat) (h : n ≤ a) :
    (natBits v a).drop n = natBits v (a - n) := by
  rw [natBits_split v a n h, List.drop_left' (natBits_length _ _)]

theorem natBits_zero (v : Nat) : natBits v 0 = [] := by simp [natBits]

/-! ### bytes -/

theorem ofBytes_nil : ofBytes [] = [] := rfl

theorem ofBytes_cons (b : Nat) (l : List Nat) : ofBytes (b :: l) = natBits b 8 ++ ofBytes l := by
  simp [ofBytes]

theorem ofBytes_append (x y : List Nat) : ofBytes (x ++ y) = ofBytes x ++ ofBytes y := by
  simp [ofBytes]

theorem ofBytes_length (l : List Nat) : (ofBytes l).length = 8 * l.length := by
  induction l with
  | nil => rfl
  | cons b l ih => rw [ofBytes_cons, List.length_append, natBits_length, ih, List.length_cons]; omega

theorem ofBytes_take (l : List Nat) (n : Nat) : (ofBytes l).take (8 * n) = ofBytes (l.take n) := by
  induction l generalizing n with
  | nil => simp [ofBytes]
  | cons b l ih =>
    cases n with
    | zero => simp [ofBytes]
    | succ n =>
      rw [ofBytes_cons, List.take_succ_cons, ofBytes_cons]
      have : 8 * (n + 1) = 8 + 8 * n := by omega
      rw [this, List.take_append, natBits_length]
      simp only [Nat.add_sub_cancel_left]
      rw [List.take_of_length_le (by rw [natBits_length]; omega), ih]

theorem ofBytes_drop (l : List Nat) (n : Nat) : (ofBytes l).drop (8 * n) = ofBytes (l.drop n) := by
  induction l generalizing n with
  | nil => simp [ofBytes]
  | cons b l ih =>
    cases n with
    | zero => simp
    | succ n =>
      rw [ofBytes_cons, List.drop_succ_cons]
      have : 8 * (n + 1) = 8 + 8 * n := by omega
      rw [this, List.drop_append, natBits_length]
      simp only [Nat.add_sub_cancel_left]
      rw [List.drop_of_length_le (by rw [natBits_length]; omega), ih]
      rfl

end Kanzi.BitsIbs

namespace Kanzi.BitsIbs
open Kanzi.Bits

theorem bitsNat_replicate_false (k : Nat) : bitsNat (List.replicate k false) = 0 := by
  induction k with
  | zero => rfl
  | succ k ih => rw [List.replicate_succ, bitsNat_cons, ih]; simp

theorem packBytes_nil : packBytes [] = [] := by simp [packBytes]

theorem packBytes_short (t : Bits) (h0 : t ≠ []) (h8 : t.length < 8) :
    packBytes t = [bitsNat (t ++ List.replicate (8 - t.length) false)] := by
  have hpos : 0 < t.length := List.length_pos_iff.mpr h0
  have : (t.length + 7) / 8 = 1 := by omega
  unfold packBytes
  rw [this]
  simp only [List.range_one, List.map_cons, List.map_nil, packByte, Nat.mul_zero, List.drop_zero]
  rw [List.take_of_length_le (by omega)]

theorem packBytes_cons8 (x rest : Bits) (hx : x.length = 8) :
    packBytes (x ++ rest) = bitsNat x :: packBytes rest := by
  unfold packBytes
  have : ((x ++ rest).length + 7) / 8 = (rest.length + 7) / 8 + 1 := by
    rw [List.length_append, hx]; omega
  rw [this, List.range_succ_eq_map, List.map_cons, List.map_map]
  congr 1
  · unfold packByte
    simp only [Nat.mul_zero, List.drop_zero]
    rw [List.take_left' hx]
    simp [hx]
  · apply List.map_congr_left
    intro i _
    simp only [Function.comp, Nat.succ_eq_add_one]
    unfold packByte
    have : 8 * (i + 1) = x.length + 8 * i := by omega
    rw [this, List.drop_append, List.drop_of_length_le (by omega), Nat.add_sub_cancel_left,
      List.nil_append]

/-- packing whole bytes followed by fewer than 8 bits -/
theorem packBytes_bytes (L : List Nat) (hL : ∀ b ∈ L, b < 256) (t : Bits) (h8 : t.length < 8) :
    packBytes (ofBytes L ++ t) =
      L ++ (if t = [] then [] else [bitsNat (t ++ List.replicate (8 - t.length) false)]) := by
  induction L with
  | nil =>
    simp only [ofBytes_nil, List.nil_append]
    by_cases h0 : t = []
    · simp [h0, packBytes_nil]
    · rw [if_neg h0, packBytes_short t h0 h8]
  | cons b L ih =>
    rw [ofBytes_cons, List.append_assoc, packBytes_cons8 _ _ (natBits_length _ _),
      ih (fun x hx => hL x (List.mem_cons_of_mem _ hx)), bitsNat_natBits]
    have : b < 256 := hL b (List.mem_cons_self)
    rw [Nat.mod_eq_of_lt (by simpa using this)]
    rfl

end Kanzi.BitsIbs

namespace Kanzi.BitsIbs
open Kanzi.Bits

/-- the packed image read back as bits is the bit string followed by the zero padding -/
theorem ofBytes_packBytes : ∀ (n : Nat) (w : Bits), w.length = n →
    ofBytes (packBytes w) = w ++ List.replicate ((8 - w.length % 8) % 8) false := by
  intro n
  induction n using Nat.strongRecOn with
  | _ n ih =>
    intro w hw
    by_cases h8 : 8 ≤ w.length
    · have hsplit : w = w.take 8 ++ w.drop 8 := (List.take_append_drop 8 w).symm
      have hx : (w.take 8).length = 8 := by rw [List.length_take]; omega
      have hr : (w.drop 8).length = w.length - 8 := List.length_drop
      have := ih (w.drop 8).length (by rw [hr]; omega) (w.drop 8) rfl
      rw [hsplit, packBytes_cons8 _ _ hx, ofBytes_cons, this]
      have hnb := natBits_bitsNat (w.take 8)
      rw [hx] at hnb
      rw [hnb, List.append_assoc]
      congr 2
      rw [List.length_append, hx, hr]
      congr 2
      omega
    · by_cases h0 : w = []
      · subst h0; simp [packBytes_nil, ofBytes_nil]
      · have hlt : w.length < 8 := by omega
        have hpos : 0 < w.length := List.length_pos_iff.mpr h0
        rw [packBytes_short w h0 hlt, ofBytes_cons, ofBytes_nil, List.append_nil]
        have hl : (w ++ List.replicate (8 - w.length) false).length = 8 := by
          rw [List.length_append, List.length_replicate]; omega
        have hnb := natBits_bitsNat (w ++ List.replicate (8 - w.length) false)
        rw [hl] at hnb
        rw [hnb]
        congr 2
        rw [Nat.mod_eq_of_lt hlt, Nat.mod_eq_of_lt (by omega)]

/-- the bits written by `WriteBits(v, n)` calls -/
def bitsOfWrites (ws : List (Nat × Nat)) : Bits := ws.flatMap (fun w => natBits w.1 w.2)

/-- reading successive fields of the given sizes from a bit string -/
def specReads : Bits → List Nat → List Nat
  | _, [] => []
  | bits, n :: ns => bitsNat (bits.take n) :: specReads (bits.drop n) ns

theorem bitsOfWrites_cons (w : Nat × Nat) (ws : List (Nat × Nat)) :
    bitsOfWrites (w :: ws) = natBits w.1 w.2 ++ bitsOfWrites ws := by
  simp [bitsOfWrites]

theorem specReads_writes (ws : List (Nat × Nat)) (hv : ∀ w ∈ ws, w.1 < 2 ^ w.2) (tail : Bits) :
    specReads (bitsOfWrites ws ++ tail) (ws.map (·.2)) = ws.map (·.1) := by
  induction ws with
  | nil => rfl
  | cons w ws ih =>
    rw [bitsOfWrites_cons, List.map_cons, List.map_cons, specReads, List.append_assoc,
      List.take_left' (natBits_length _ _), List.drop_left' (natBits_length _ _), bitsNat_natBits,
      Nat.mod_eq_of_lt (hv w List.mem_cons_self), ih (fun x hx => hv x (List.mem_cons_of_mem _ hx))]

end Kanzi.BitsIbs
