/-
Constants of the LZ codec model (`Kanzi/Model/LZ.lean`) tied to the values the Go type checker computes for
the named constants of /repo/v2 (`Kanzi/Generated/Consts.lean`, regenerated on every run) - same mechanism as
`Kanzi/Properties/ConstsTie.lean` (the coordinator may move this theorem there).  The hash shifts are literals
in `hashOf`; they matter for more than the byte-exact stream: the bound on the token buffer of Forward
(`C13_lz_total`) rests on the hash depending on exactly 5 bytes, injectively in the fifth.
-/
import Kanzi.Generated.Consts
import Kanzi.Model.LZ

namespace Kanzi.ConstsTie
open Kanzi.Generated

theorem lz_consts :
    Consts.transform._LZX_HASH_SEED = Kanzi.LZ.HASH_SEED.toNat ∧
    Consts.transform._LZX_HASH_LSHIFT1 = 24 ∧ Consts.transform._LZX_HASH_RSHIFT1 = 48 ∧
    Consts.transform._LZX_HASH_LSHIFT2 = 24 ∧ Consts.transform._LZX_HASH_RSHIFT2 = 45 ∧
    2 ^ Consts.transform._LZX_HASH_LOG1 = 65536 ∧ 2 ^ Consts.transform._LZX_HASH_LOG2 = 524288 ∧
    Consts.transform._LZX_MAX_DISTANCE1 = Kanzi.LZ.MAX_DISTANCE1 ∧
    Consts.transform._LZX_MAX_DISTANCE2 = Kanzi.LZ.MAX_DISTANCE2 ∧
    Consts.transform._LZX_MIN_MATCH4 = Kanzi.LZ.MIN_MATCH4 ∧
    Consts.transform._LZX_MIN_MATCH6 = Kanzi.LZ.MIN_MATCH6 ∧
    Consts.transform._LZX_MAX_MATCH = Kanzi.LZ.MAX_MATCH ∧
    Consts.transform._LZX_MIN_BLOCK_LENGTH = Kanzi.LZ.MIN_BLOCK_LENGTH ∧
    Consts.internal.DT_DNA = Kanzi.LZ.DT_DNA ∧
    Consts.internal.DT_SMALL_ALPHABET = Kanzi.LZ.DT_SMALL_ALPHABET := by decide

end Kanzi.ConstsTie
