/-
Proofs for the Huffman codec, part 3b: `computeInPlaceSizesPhase2`.  On the parent pointers left
by phase 1 it terminates without fault and the lengths it writes satisfy Kraft's EQUALITY
(`Σ 2^(M - len) = 2^M` for every `M ≥ n`), are at least 1, at most the returned maximum, and non
increasing along the array.
-/
import Kanzi.Model.Huffman
import Kanzi.Proofs.HufPhase1
import Mathlib.Tactic.Ring

namespace Kanzi.Huffman

/-- Kraft sum of a list of lengths in units of `2^-M` -/
def wsum (M : Nat) (l : List Nat) : Nat := (l.map (fun x => 2 ^ (M - x))).sum

theorem wsum_append (M : Nat) (a b : List Nat) : wsum M (a ++ b) = wsum M a + wsum M b := by
  simp [wsum]

theorem wsum_replicate (M k d : Nat) : wsum M (List.replicate k d) = k * 2 ^ (M - d) := by
  simp [wsum]

/-- valid parent pointers (what phase 1 guarantees) -/
structure Parents (n : Nat) (P : List Nat) : Prop where
  par : ∀ j, j + 2 < n → j < P.getD j 0 ∧ P.getD j 0 ≤ n - 2
  mono : ∀ j, j + 3 < n → P.getD j 0 ≤ P.getD (j + 1) 0
  two : ∀ j, j + 4 < n → P.getD j 0 < P.getD (j + 2) 0

theorem Parents.mono_le {n : Nat} {P : List Nat} (h : Parents n P) : ∀ (d j : Nat), j + d + 2 < n →
    P.getD j 0 ≤ P.getD (j + d) 0 := by
  intro d
  induction d with
  | zero => intro j _; exact Nat.le_refl _
  | succ d ih =>
    intro j hj
    have h1 := ih j (by omega)
    have h2 := h.mono (j + d) (by omega)
    rw [show j + (d + 1) = j + d + 1 by omega]
    omega

theorem Parents.chain {n : Nat} {P : List Nat} (h : Parents n P) : ∀ (q k : Nat), k + 2 * q + 2 < n →
    P.getD k 0 + q ≤ P.getD (k + 2 * q) 0 := by
  intro q
  induction q with
  | zero => intro k _; exact Nat.le_refl _
  | succ q ih =>
    intro k hk
    have h1 := ih k (by omega)
    have h2 := h.two (k + 2 * q) (by omega)
    rw [show k + 2 * (q + 1) = k + 2 * q + 2 by omega]
    omega

theorem scanK_spec (data : List Nat) (L : Nat) : ∀ (k0 : Nat),
    (∀ j, k0 ≤ j → j < L → L ≤ data.getD j 0) →
    scanK data L k0 ≤ k0 ∧ (∀ j, scanK data L k0 ≤ j → j < L → L ≤ data.getD j 0) ∧
    (0 < scanK data L k0 → data.getD (scanK data L k0 - 1) 0 < L) := by
  intro k0
  induction k0 with
  | zero => intro h; simp only [scanK]; exact ⟨Nat.le_refl _, h, fun hh => absurd hh (Nat.lt_irrefl _)⟩
  | succ k ih =>
    intro h
    simp only [scanK]
    split
    · rename_i hge
      have := ih (fun j hj hjl => by
        by_cases hjk : j = k
        · subst hjk; exact hge
        · exact h j (by omega) hjl)
      exact ⟨by omega, this.2.1, this.2.2⟩
    · rename_i hlt
      exact ⟨Nat.le_refl _, h, fun _ => by simpa using Nat.lt_of_not_le hlt⟩

/-- the loop invariant of phase 2 (ghosts: `P` = the array as phase 1 left it, `U` = the
    previous `levelTop`) -/
structure P2Inv (n M : Nat) (P data : List Nat) (L d i T U : Nat) : Prop where
  len : data.length = n
  frame : ∀ j, j < L → data.getD j 0 = P.getD j 0
  cnt : i = T + L
  tw : T = 2 * (U - L)
  lu : L ≤ U
  un : U + 1 ≤ n
  ub : ∀ j, j < L → P.getD j 0 < U
  pos : 0 < L → L < U
  kr : wsum M (data.drop i) + T * 2 ^ (M - d) = 2 ^ M
  dep : d + L + 1 ≤ n
  dpos : 1 ≤ d
  asg : ∀ x ∈ data.drop i, 1 ≤ x ∧ x < d
  mono : (data.drop i).Pairwise (· ≥ ·)
  ile : i ≤ n

/-- result of phase 2 -/
structure P2Res (n M : Nat) (res : List Nat) (m : Nat) : Prop where
  len : res.length = n
  kraft : wsum M res = 2 ^ M
  range : ∀ x ∈ res, 1 ≤ x ∧ x ≤ m
  mono : res.Pairwise (· ≥ ·)
  mle : m + 1 ≤ n

theorem phase2Loop_spec (n M : Nat) (P : List Nat) (hP : Parents n P) (hM : n ≤ M) :
    ∀ (f : Nat) (data : List Nat) (L d i T U : Nat), L + 2 ≤ f → P2Inv n M P data L d i T U →
    ∃ res m, phase2Loop f data L d i T = some (res, m) ∧ P2Res n M res m := by
  intro f
  induction f with
  | zero => intro data L d i T U hf _; omega
  | succ f ih =>
    intro data L d i T U hf h
    obtain ⟨hlen, hframe, hcnt, htw, hlu, hun, hub, hpos, hkr, hdep, hdpos, hasg, hmono, hin⟩ := h
    simp only [phase2Loop]
    by_cases hi : i = 0
    · -- finished: everything has a length
      rw [if_pos hi]
      subst hi
      have hT : T = 0 := by omega
      rw [hT, Nat.zero_mul, Nat.add_zero, List.drop_zero] at hkr
      rw [List.drop_zero] at hasg hmono
      exact ⟨data, d - 1, rfl, hlen, hkr, fun x hx => by have := hasg x hx; omega, hmono, by omega⟩
    · rw [if_neg hi]
      have hsc := scanK_spec data L L (fun j h1 h2 => by omega)
      generalize scanK data L L = k at hsc ⊢
      obtain ⟨hkL, hkge, hklt⟩ := hsc
      -- the internal nodes of this level are at most the nodes of this level
      have hIT : L - k ≤ T := by
        by_cases hk : k = L
        · omega
        · have hkl : k < L := by omega
          have hLn : L + 2 ≤ n := by omega
          have h1 : L ≤ P.getD k 0 := by rw [← hframe k hkl]; exact hkge k (Nat.le_refl _) hkl
          have h2 := hub (L - 1) (by omega)
          have h3 := hP.chain ((L - k - 1) / 2) k (by omega)
          have h4 := hP.mono_le (L - 1 - (k + 2 * ((L - k - 1) / 2))) (k + 2 * ((L - k - 1) / 2)) (by omega)
          rw [show k + 2 * ((L - k - 1) / 2) + (L - 1 - (k + 2 * ((L - k - 1) / 2))) = L - 1 by omega] at h4
          omega
      rw [if_neg (by omega)]
      -- abbreviations
      have hi' : i - (T - (L - k)) = 2 * L - k := by omega
      have hlen' : (data.take (i - (T - (L - k))) ++ List.replicate (T - (L - k)) d ++ data.drop i).length = n := by
        simp only [List.length_append, List.length_take, List.length_replicate, List.length_drop]
        omega
      have hdrop' : (data.take (i - (T - (L - k))) ++ List.replicate (T - (L - k)) d ++ data.drop i).drop
          (i - (T - (L - k))) = List.replicate (T - (L - k)) d ++ data.drop i := by
        rw [List.append_assoc]
        exact List.drop_left' (by rw [List.length_take]; omega)
      have hframe' : ∀ j, j < k →
          (data.take (i - (T - (L - k))) ++ List.replicate (T - (L - k)) d ++ data.drop i).getD j 0 = P.getD j 0 := by
        intro j hj
        rw [← hframe j (by omega), List.append_assoc, List.getD_eq_getElem?_getD, List.getD_eq_getElem?_getD,
          List.getElem?_append_left (by rw [List.length_take]; omega), List.getElem?_take_of_lt (by omega)]
      have hkr' : wsum M (List.replicate (T - (L - k)) d ++ data.drop i) + (L - k) * 2 ^ (M - d) = 2 ^ M := by
        rw [wsum_append, wsum_replicate]
        have e1 : (T - (L - k)) * 2 ^ (M - d) + (L - k) * 2 ^ (M - d) = T * 2 ^ (M - d) := by
          rw [← Nat.add_mul, Nat.sub_add_cancel hIT]
        omega
      have hasg' : ∀ x ∈ List.replicate (T - (L - k)) d ++ data.drop i, 1 ≤ x ∧ x < d + 1 := by
        intro x hx
        rcases List.mem_append.mp hx with hx | hx
        · have := (List.mem_replicate.mp hx).2; omega
        · have := hasg x hx; omega
      have hmono' : (List.replicate (T - (L - k)) d ++ data.drop i).Pairwise (· ≥ ·) := by
        rw [List.pairwise_append]
        refine ⟨List.pairwise_replicate.mpr (Or.inr (Nat.le_refl _)), hmono, ?_⟩
        intro a ha b hb
        have := (List.mem_replicate.mp ha).2
        have := hasg b hb
        omega
      by_cases hL : L = 0
      · -- last level: no internal node left
        subst hL
        have hk0 : k = 0 := by omega
        subst hk0
        have hf1 : f = (f - 1) + 1 := by omega
        rw [hf1]
        simp only [phase2Loop, Nat.sub_zero, Nat.zero_mul]
        rw [if_pos (by omega)]
        simp only [Nat.sub_zero, Nat.zero_mul, Nat.add_zero] at hlen' hkr' hasg' hmono'
        have hnil : data.take (i - T) = [] := by rw [show i - T = 0 by omega]; rfl
        have hX : data.take (i - T) ++ List.replicate T d ++ data.drop i
            = List.replicate T d ++ data.drop i := by rw [hnil, List.nil_append]
        refine ⟨_, _, rfl, hlen', ?_, ?_, ?_, by omega⟩
        · rw [hX]; exact hkr'
        · rw [hX]; intro x hx; have := hasg' x hx; omega
        · rw [hX]; exact hmono'
      · have hkl : k < L := by
          have hLn : L + 2 ≤ n := by omega
          have h1 := hP.par (L - 1) (by omega)
          have h2 : L ≤ data.getD (L - 1) 0 := by rw [hframe (L - 1) (by omega)]; omega
          by_cases hk : k = L
          · subst hk
            have := hklt (by omega)
            omega
          · omega
        have hX : 2 ^ (M - d) = 2 * 2 ^ (M - (d + 1)) := by
          rw [show M - d = (M - (d + 1)) + 1 by omega, Nat.pow_succ]; ring
        refine ih _ k (d + 1) _ ((L - k) * 2) L (by omega) ⟨hlen', hframe', by omega, by omega, hkL, by omega, ?_, ?_, ?_, by omega, by omega, ?_, ?_, by omega⟩
        · intro j hj
          by_cases hk0 : k = 0
          · omega
          · have h1 := hklt (by omega)
            rw [hframe (k - 1) (by omega)] at h1
            have h2 := hP.mono_le (k - 1 - j) j (by omega)
            rw [show j + (k - 1 - j) = k - 1 by omega] at h2
            omega
        · intro _; exact hkl
        · rw [hdrop', ← hkr', hX]; ring
        · rw [hdrop']; exact hasg'
        · rw [hdrop']; exact hmono'

/-- **phase 2** on valid parent pointers -/
theorem phase2_spec (data : List Nat) (M : Nat) (hn : 2 ≤ data.length) (hM : data.length ≤ M)
    (hP : Parents data.length data) :
    ∃ res m, phase2 data = some (res, m) ∧ P2Res data.length M res m := by
  unfold phase2
  rw [if_neg (by omega)]
  refine phase2Loop_spec data.length M data hP hM _ data (data.length - 2) 1 data.length 2 (data.length - 1)
    (by omega) ⟨rfl, fun _ _ => rfl, by omega, by omega, by omega, by omega, ?_, by omega, ?_, by omega,
      Nat.le_refl _, ?_, ?_, Nat.le_refl _⟩
  · intro j hj
    have := hP.par j (by omega)
    omega
  · rw [List.drop_length]
    simp only [wsum, List.map_nil, List.sum_nil, Nat.zero_add]
    rw [show M = (M - 1) + 1 by omega, Nat.pow_succ, show M - 1 + 1 - 1 = M - 1 by omega]; ring
  · rw [List.drop_length]; intro x hx; cases hx
  · rw [List.drop_length]; exact List.Pairwise.nil

/-- phase 1 followed by phase 2, for every weight list of length at least 2 -/
theorem lengths_spec (w : List Nat) (M : Nat) (hn : 2 ≤ w.length) (hM : w.length ≤ M) :
    ∃ res m, phase2 (phase1 w) = some (res, m) ∧ P2Res w.length M res m := by
  obtain ⟨hl, h1, h2, h3⟩ := phase1_spec w hn
  have := phase2_spec (phase1 w) M (by omega) (by omega)
    ⟨fun j hj => by rw [hl] at hj ⊢; exact h1 j hj, fun j hj => by rw [hl] at hj; exact h2 j hj,
     fun j hj => by rw [hl] at hj; exact h3 j hj⟩
  rw [hl] at this
  exact this

end Kanzi.Huffman
